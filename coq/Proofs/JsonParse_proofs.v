(* Proofs/JsonParse_proofs.v — facts about Model/JsonParse.v *)
From RJ Require Import Base.Outcome Base.F64 Model.JsonParse.
From Coq Require Import Lia Permutation.
Local Open Scope N_scope.

Arguments N.add : simpl never.
Arguments N.mul : simpl never.
Arguments N.sub : simpl never.

(* ---- whitespace ------------------------------------------------------------- *)

Definition is_ws (c : N) : bool := (c =? 9) || (c =? 10) || (c =? 13) || (c =? 32).

Fixpoint drop_ws (s : str) : str :=
  match s with
  | c :: r => if is_ws c then drop_ws r else s
  | [] => []
  end.

Lemma skip_ws_rem : forall s line col, lx_rem (skip_ws line col s) = drop_ws s.
Proof.
  induction s as [|c r IH]; intros line col; [reflexivity|].
  cbn [skip_ws drop_ws]. unfold is_ws.
  destruct (c =? 9); [apply IH|]. destruct (c =? 10); [apply IH|].
  destruct (c =? 13); [apply IH|]. destruct (c =? 32); [apply IH|]. reflexivity.
Qed.

Lemma drop_ws_length s : (length (drop_ws s) <= length s)%nat.
Proof. induction s as [|c r IH]; [cbn; lia|]. cbn [drop_ws]. destruct (is_ws c); cbn [length]; lia. Qed.

(* the characters skipped between tokens are exactly TAB, LF, CR and SPACE *)
Theorem ws_exact : forall c r line col,
  lx_rem (skip_ws line col (c :: r)) = c :: r <-> is_ws c = false.
Proof.
  intros c r line col. rewrite skip_ws_rem. cbn [drop_ws]. destruct (is_ws c); split; intros H; try reflexivity; try discriminate.
  exfalso. pose proof (drop_ws_length r) as L. rewrite H in L. cbn [length] in L. lia.
Qed.

Lemma drop_ws_head s c r : drop_ws s = c :: r -> is_ws c = false.
Proof.
  induction s as [|d t IH]; [discriminate|]. cbn [drop_ws]. destruct (is_ws d) eqn:E; [apply IH|].
  intros H. injection H as -> _. exact E.
Qed.

Lemma skip_ws_nonws c r line col : is_ws c = false ->
  skip_ws line col (c :: r) = {| lx_line := line; lx_col := col; lx_rem := c :: r |}.
Proof.
  unfold is_ws. intros H. apply orb_false_elim in H. destruct H as [H H4].
  apply orb_false_elim in H. destruct H as [H H3]. apply orb_false_elim in H. destruct H as [H1 H2].
  cbn [skip_ws]. now rewrite H1, H2, H3, H4.
Qed.

(* ---- a document cannot start with anything but whitespace or a value -------- *)

Definition value_start (c : N) : bool :=
  (c =? 110) || (c =? 102) || (c =? 116) || (c =? 45) || is_digit c || (c =? 34) || (c =? 91) || (c =? 123).

Ltac split_orb_false H :=
  repeat match type of H with
  | (_ || _) = false => let H' := fresh H in apply orb_false_elim in H; destruct H as [H H']
  end.

Ltac use_neq :=
  repeat match goal with
  | H : (?c =? ?k) = false |- context [?k =? ?c] => rewrite (N.eqb_sym k c), H
  | H : (?c =? ?k) = false |- context [?c =? ?k] => rewrite H
  end.

Theorem rejects_non_value_start : forall c s, is_ws c = false -> value_start c = false ->
  parse_json (c :: s) = Err {| je_line := 0; je_col := 0; je_kind := EExpectedValue |}.
Proof.
  intros c s Hw Hv. unfold parse_json, skip_spaces. cbn [lx_line lx_col lx_rem].
  rewrite (skip_ws_nonws c s 0 0 Hw). cbn [length parse_loop].
  unfold value_start in Hv.
  repeat match goal with H : (_ || _) = false |- _ => apply orb_false_elim in H; destruct H end.
  assert (Hz : (c =? 48) = false).
  { unfold is_digit in *. destruct (c =? 48) eqn:E; [|reflexivity]. apply N.eqb_eq in E. subst c. discriminate. }
  assert (Hd19 : is_digit19 c = false).
  { unfold is_digit in *. unfold is_digit19. destruct ((49 <=? c) && (c <=? 57)) eqn:E; [|reflexivity].
    apply andb_prop in E. destruct E as [E1 E2]. apply N.leb_le in E1.
    assert (E3 : (48 <=? c) = true) by (apply N.leb_le; lia).
    match goal with H : (48 <=? c) && (c <=? 57) = false |- _ => rewrite E3, E2 in H; discriminate end. }
  unfold start_value, eat_str, eat_char, lex_number, lex_string. cbn [lx_rem strip_prefix].
  use_neq.
  cbn [lex_num nstep]. use_neq. rewrite Hd19.
  cbn [na_len nacc0 N.eqb obind eat_char lx_rem]. use_neq. reflexivity.
Qed.

(* ---- numbers: no leading zeros ---------------------------------------------- *)

Theorem rejects_leading_zero : forall d s, is_digit d = true ->
  parse_json (48 :: d :: s) = Err {| je_line := 0; je_col := 0; je_kind := EInvalidNumber |}.
Proof.
  intros d s Hd. unfold parse_json, skip_spaces. cbn [lx_line lx_col lx_rem].
  rewrite (skip_ws_nonws 48 (d :: s) 0 0 eq_refl). cbn [length parse_loop].
  unfold start_value, eat_str, lex_number. cbn [lx_rem strip_prefix N.eqb Pos.eqb].
  cbn [lex_num nstep N.eqb Pos.eqb]. rewrite Hd. reflexivity.
Qed.

Theorem rejects_leading_zero_neg : forall d s, is_digit d = true ->
  parse_json (45 :: 48 :: d :: s) = Err {| je_line := 0; je_col := 0; je_kind := EInvalidNumber |}.
Proof.
  intros d s Hd. unfold parse_json, skip_spaces. cbn [lx_line lx_col lx_rem].
  rewrite (skip_ws_nonws 45 (48 :: d :: s) 0 0 eq_refl). cbn [length parse_loop].
  unfold start_value, eat_str, lex_number. cbn [lx_rem strip_prefix N.eqb Pos.eqb].
  cbn [lex_num nstep N.eqb Pos.eqb]. rewrite Hd. reflexivity.
Qed.

(* ---- strings: raw control characters ----------------------------------------- *)

Definition plain (c : N) : Prop := 32 <= c /\ c <> 34 /\ c <> 92.

Lemma lex_string_body_ctl : forall s1 c s2 fuel line col start acc,
  Forall plain s1 -> c < 32 -> (length s1 < fuel)%nat ->
  lex_string_body fuel {| lx_line := line; lx_col := col; lx_rem := s1 ++ c :: s2 |} start acc =
  Err {| je_line := line; je_col := col + N.of_nat (length s1); je_kind := EInvalidChrInString |}.
Proof.
  induction s1 as [|x r IH]; intros c s2 fuel line col start acc Hp Hc Hf.
  - destruct fuel as [|f]; [cbn in Hf; lia|]. cbn [app lex_string_body lx_rem].
    replace (c =? 34) with false by (symmetry; apply N.eqb_neq; lia).
    replace (c =? 92) with false by (symmetry; apply N.eqb_neq; lia).
    replace (c <=? 31) with true by (symmetry; apply N.leb_le; lia).
    unfold error_at. cbn [lx_line lx_col length]. f_equal. f_equal. lia.
  - destruct fuel as [|f]; [cbn in Hf; lia|]. inversion Hp as [|? ? [H32 [H34 H92]] Hr]; subst.
    cbn [app lex_string_body lx_rem].
    replace (x =? 34) with false by (symmetry; now apply N.eqb_neq).
    replace (x =? 92) with false by (symmetry; now apply N.eqb_neq).
    replace (x <=? 31) with false by (symmetry; apply N.leb_gt; lia).
    unfold advance. cbn [lx_line lx_col].
    rewrite IH; [|assumption|assumption|cbn [length] in Hf; lia].
    cbn [length]. f_equal. f_equal. lia.
Qed.

Theorem rejects_control_chars : forall s1 c s2, Forall plain s1 -> c < 32 ->
  parse_json (34 :: s1 ++ c :: s2) =
  Err {| je_line := 0; je_col := 1 + N.of_nat (length s1); je_kind := EInvalidChrInString |}.
Proof.
  intros s1 c s2 Hp Hc. unfold parse_json, skip_spaces. cbn [lx_line lx_col lx_rem].
  rewrite (skip_ws_nonws 34 (s1 ++ c :: s2) 0 0 eq_refl). cbn [length parse_loop].
  unfold start_value, eat_str, lex_number. cbn [lx_rem strip_prefix N.eqb Pos.eqb].
  cbn [lex_num nstep N.eqb Pos.eqb is_digit19 N.leb N.compare Pos.compare Pos.compare_cont andb na_len nacc0 obind].
  unfold lex_string, eat_char. cbn [lx_rem N.eqb Pos.eqb]. unfold advance. cbn [lx_line lx_col lx_rem].
  rewrite lex_string_body_ctl; [reflexivity|assumption|assumption|].
  rewrite app_length. cbn [length]. lia.
Qed.

(* ---- trailing data ------------------------------------------------------------ *)

Theorem unwind_done_iff : forall lx v,
  unwind lx [] v = UDone (Ok v) <-> lx_rem lx = [].
Proof.
  intros lx v. cbn [unwind]. destruct (lx_rem lx); split; intros H; try reflexivity; try discriminate.
Qed.

Theorem rejects_trailing_unwind : forall lx v c r, lx_rem lx = c :: r ->
  unwind lx [] v = UDone (Err {| je_line := lx_line lx; je_col := lx_col lx; je_kind := EExpectedEof |}).
Proof. intros lx v c r H. cbn [unwind]. rewrite H. reflexivity. Qed.

(* after the document "null" only whitespace may follow *)
Theorem rejects_trailing_null : forall c s, is_ws c = false ->
  exists line col, parse_json ([110; 117; 108; 108] ++ c :: s) =
                   Err {| je_line := line; je_col := col; je_kind := EExpectedEof |}.
Proof.
  intros c s Hw. unfold parse_json, skip_spaces. cbn [lx_line lx_col lx_rem app].
  rewrite (skip_ws_nonws 110 _ 0 0 eq_refl). cbn [length parse_loop].
  unfold start_value, eat_str. cbn [lx_rem strip_prefix N.eqb Pos.eqb obind].
  unfold skip_spaces, advance. cbn [lx_line lx_col lx_rem].
  rewrite (skip_ws_nonws c s _ _ Hw). cbn [unwind lx_rem]. eexists. eexists. reflexivity.
Qed.

(* ---- duplicate keys ------------------------------------------------------------ *)

Theorem rejects_dup_key_step : forall lx st fields key v, has_key key fields = true ->
  unwind lx (SObj fields key :: st) v =
  UDone (Err {| je_line := lx_line lx; je_col := lx_col lx; je_kind := ERepeatedFieldName key |}).
Proof. intros lx st fields key v H. cbn [unwind]. rewrite H. reflexivity. Qed.

Lemma str_eqb_eq a b : str_eqb a b = true <-> a = b.
Proof.
  revert b. induction a as [|x a IH]; intros [|y b]; cbn [str_eqb]; split; intros H; try reflexivity; try discriminate.
  - apply andb_prop in H. destruct H as [H1 H2]. apply N.eqb_eq in H1. apply IH in H2. now subst.
  - injection H as -> ->. rewrite N.eqb_refl. now apply IH.
Qed.

Lemma has_key_in k fields : has_key k fields = true <-> In k (map fst fields).
Proof.
  unfold has_key. rewrite existsb_exists. split.
  - intros [[k' v] [Hin He]]. cbn in He. apply str_eqb_eq in He. subst. apply in_map_iff. now exists (k', v).
  - intros H. apply in_map_iff in H. destruct H as [[k' v] [He Hin]]. cbn in He. subst.
    exists (k, v). split; [assumption|]. now apply str_eqb_eq.
Qed.

(* every object of a parsed value has pairwise distinct keys *)
Fixpoint keys_nodup (v : jvalue) : Prop :=
  match v with
  | JArr l => (fix all (l : list jvalue) : Prop := match l with [] => True | x :: r => keys_nodup x /\ all r end) l
  | JObj fs => NoDup (map fst fs) /\
               (fix all (l : list (str * jvalue)) : Prop :=
                  match l with [] => True | (_, x) :: r => keys_nodup x /\ all r end) fs
  | _ => True
  end.

Definition all_nodup (l : list jvalue) : Prop := Forall keys_nodup l.
Definition fields_nodup (fs : list (str * jvalue)) : Prop := Forall (fun kv => keys_nodup (snd kv)) fs.

Lemma keys_nodup_arr l : keys_nodup (JArr l) <-> all_nodup l.
Proof.
  unfold all_nodup. cbn [keys_nodup]. induction l as [|x r IH]; split; intros H.
  - constructor. - exact I.
  - destruct H as [H1 H2]. constructor; [assumption|now apply IH].
  - inversion H; subst. split; [assumption|now apply IH].
Qed.

Lemma keys_nodup_obj fs : keys_nodup (JObj fs) <-> NoDup (map fst fs) /\ fields_nodup fs.
Proof.
  unfold fields_nodup. cbn [keys_nodup]. split; intros [Hn H]; (split; [assumption|]).
  - induction fs as [|[k x] r IH]; [constructor|]. destruct H as [H1 H2]. constructor; [assumption|].
    apply IH; [|assumption]. cbn in Hn. now inversion Hn.
  - induction fs as [|[k x] r IH]; [exact I|]. inversion H; subst. split; [assumption|].
    apply IH; [|assumption]. cbn in Hn. now inversion Hn.
Qed.

Definition item_ok (it : sitem) : Prop :=
  match it with
  | SArr items => all_nodup items
  | SObj fields _ => NoDup (map fst fields) /\ fields_nodup fields
  end.

Lemma nodup_rev {A} (l : list A) : NoDup l -> NoDup (rev l).
Proof.
  intros H. apply (Permutation.Permutation_NoDup (l := l)); [|assumption].
  apply Permutation.Permutation_rev.
Qed.

Lemma unwind_ok : forall st lx v, Forall item_ok st -> keys_nodup v ->
  match unwind lx st v with
  | UDone (Ok v') => keys_nodup v'
  | UDone _ => True
  | UCont _ st' => Forall item_ok st'
  end.
Proof.
  induction st as [|it st IH]; intros lx v Hst Hv.
  - cbn [unwind]. destruct (lx_rem lx); [assumption|exact I].
  - inversion Hst as [|? ? Hit Hst']; subst. destruct it as [items|fields key]; cbn [unwind].
    + cbn [item_ok] in Hit.
      assert (Hitems : all_nodup (v :: items)) by (constructor; assumption).
      destruct (eat_char 93 lx) as [lx1|].
      * apply IH; [assumption|]. apply keys_nodup_arr. unfold all_nodup in *. apply Forall_rev. assumption.
      * destruct (eat_char 44 lx) as [lx1|]; [|exact I]. constructor; assumption.
    + destruct Hit as [Hn Hf]. destruct (has_key key fields) eqn:Hk; [exact I|].
      assert (Hn' : NoDup (map fst ((key, v) :: fields))).
      { cbn [map fst]. constructor; [|assumption]. intros Hin. apply has_key_in in Hin. congruence. }
      assert (Hf' : fields_nodup ((key, v) :: fields)) by (constructor; assumption).
      destruct (eat_char 125 lx) as [lx1|].
      * apply IH; [assumption|]. apply keys_nodup_obj. split.
        -- rewrite map_rev. now apply nodup_rev.
        -- unfold fields_nodup in *. now apply Forall_rev.
      * destruct (eat_char 44 lx) as [lx1|]; [|exact I].
        destruct (lex_key (skip_spaces lx1)) as [[k lx2]| | |]; try exact I.
        constructor; [|assumption]. cbn [item_ok]. split; assumption.
Qed.

Lemma start_value_ok lx : match start_value lx with
  | Ok (SVValue v _) => keys_nodup v
  | Ok (SVPush it _) => item_ok it
  | _ => True
  end.
Proof.
  unfold start_value.
  destruct (eat_str [110; 117; 108; 108] lx); [exact I|].
  destruct (eat_str [102; 97; 108; 115; 101] lx); [exact I|].
  destruct (eat_str [116; 114; 117; 101] lx); [exact I|].
  destruct (lex_number lx) as [[[x lx1]|]| | |]; cbn [obind]; try exact I.
  destruct (lex_string lx) as [[[s lx1]|]| | |]; cbn [obind]; try exact I.
  destruct (eat_char 91 lx) as [lx1|].
  { destruct (eat_char 93 (skip_spaces lx1)); [exact I|]. constructor. }
  destruct (eat_char 123 lx) as [lx1|]; [|exact I].
  destruct (eat_char 125 (skip_spaces lx1)); [split; [constructor|exact I]|].
  destruct (lex_key (skip_spaces lx1)) as [[k lx2]| | |]; cbn [obind]; try exact I.
  cbn [item_ok fst]. split; [constructor|constructor].
Qed.

Lemma parse_loop_ok : forall fuel lx st v, Forall item_ok st ->
  parse_loop fuel lx st = Ok v -> keys_nodup v.
Proof.
  induction fuel as [|fuel IH]; intros lx st v Hst H; [discriminate|].
  cbn [parse_loop] in H. pose proof (start_value_ok lx) as Hs.
  destruct (start_value lx) as [[v0 lx1|it lx1]| | |]; cbn [obind] in H; try discriminate.
  - pose proof (unwind_ok st lx1 v0 Hst Hs) as Hu.
    destruct (unwind lx1 st v0) as [r|lx2 st2].
    + subst r. assumption.
    + eapply IH; eassumption.
  - eapply IH; [|eassumption]. constructor; assumption.
Qed.

Theorem result_keys_nodup : forall s v, parse_json s = Ok v -> keys_nodup v.
Proof. intros s v H. unfold parse_json in H. eapply parse_loop_ok; [|eassumption]. constructor. Qed.
