(* Proofs/TraceLen_proofs.v — the balance invariant of the trace accounting and
   its consequences; soundness of the tree analysis used on the translated
   handler words. *)
From RJ Require Import Base.Outcome Model.TraceLen.
From Coq Require Import Lia.
Local Open Scope N_scope.

Arguments N.add : simpl never.
Arguments N.sub : simpl never.
Arguments Z.add : simpl never.
Arguments Z.min : simpl never.

(* ---- the invariant ---- *)

(* every bottom-up prefix of the state stack (= every suffix of the list,
   whose head is the top) has at least as many Trace as Delayed items *)
Fixpoint suffix_ok (l : list item) : Prop :=
  match l with
  | [] => True
  | i :: r => (0 <= net (i :: r))%Z /\ suffix_ok r
  end.

Definition wf (s : tstate) : Prop :=
  suffix_ok (stack s) /\ Z.of_N (len s) = net (stack s).

Lemma net_app : forall a b, net (a ++ b) = (net a + net b)%Z.
Proof. induction a as [|i a IH]; intros b; cbn [net app]; [lia | rewrite IH; lia]. Qed.

Lemma suffix_ok_net_nonneg : forall l, suffix_ok l -> (0 <= net l)%Z.
Proof. destruct l as [|i r]; cbn [suffix_ok net]; [lia | tauto]. Qed.

Lemma wf_empty : wf empty_state.
Proof. split; cbn; [exact I | reflexivity]. Qed.

Lemma balanced_from_mono : forall w a b, (a <= b)%Z ->
  balanced_from a w = true -> balanced_from b w = true.
Proof.
  induction w as [|i w IH]; intros a b Hab H; cbn [balanced_from] in *; [reflexivity|].
  apply andb_true_iff in H as [H1 H2]. apply andb_true_iff. split.
  - apply Z.leb_le in H1. apply Z.leb_le. lia.
  - eapply IH; [|exact H2]. lia.
Qed.

Lemma balanced_from_app : forall w1 w2 a,
  balanced_from a (w1 ++ w2) = balanced_from a w1 && balanced_from (a + net w1) w2.
Proof.
  induction w1 as [|i w1 IH]; intros w2 a; cbn [app balanced_from net].
  - replace (a + 0)%Z with a by lia. reflexivity.
  - rewrite IH. replace (a + weight i + net w1)%Z with (a + (weight i + net w1))%Z by lia.
    rewrite andb_assoc. reflexivity.
Qed.

(* semantic reading of [balanced_from]: every prefix sum is non-negative *)
Lemma balanced_from_prefix : forall w a, balanced_from a w = true ->
  forall w1 w2, w = w1 ++ w2 -> (0 <= a -> 0 <= a + net w1)%Z.
Proof.
  intros w a H w1 w2 -> Ha. rewrite balanced_from_app in H.
  apply andb_true_iff in H as [H _]. clear w2.
  revert a H Ha. induction w1 as [|i w1 IH]; intros a H Ha; cbn [net balanced_from] in *; [lia|].
  apply andb_true_iff in H as [H1 H2]. apply Z.leb_le in H1.
  specialize (IH _ H2 H1). lia.
Qed.

Lemma prefix_balanced : forall w (H : forall w1 w2, w = w1 ++ w2 -> (0 <= net w1)%Z),
  balanced w = true.
Proof.
  unfold balanced. intros w.
  assert (G : forall a, (forall w1 w2, w = w1 ++ w2 -> 0 <= a + net w1)%Z -> balanced_from a w = true).
  { induction w as [|i w IH]; intros a H; cbn [balanced_from]; [reflexivity|].
    apply andb_true_iff; split.
    - apply Z.leb_le. specialize (H [i] w eq_refl). cbn [net] in H. lia.
    - apply IH. intros w1 w2 ->. specialize (H (i :: w1) w2 eq_refl). cbn [net] in H. lia. }
  intros H. apply G. intros w1 w2 E. specialize (H w1 w2 E). lia.
Qed.

(* pushing one item in a well-formed state whose running balance allows it *)
Lemma push_item_wf : forall i s, wf s -> (0 <= net (stack s) + weight i)%Z ->
  exists s', push_item i s = Ok s' /\ wf s' /\ stack s' = i :: stack s.
Proof.
  intros i s [Hs Hl] Hb. destruct i as [id| |]; cbn [push_item weight] in *.
  - eexists; split; [reflexivity|]. unfold push_trace_item, inc_trace_len, push_state, wf.
    cbn [stack len suffix_ok net weight]. repeat split; try assumption; lia.
  - unfold delay_trace_item, dec_trace_len, push_state. cbn [len stack].
    destruct (len s =? 0) eqn:E.
    + apply N.eqb_eq in E. lia.
    + apply N.eqb_neq in E. eexists; split; [reflexivity|]. unfold wf.
      cbn [stack len suffix_ok net weight]. repeat split; try assumption; lia.
  - eexists; split; [reflexivity|]. unfold push_state, wf.
    cbn [stack len suffix_ok net weight]. repeat split; try assumption; lia.
Qed.

Lemma push_word_wf : forall w s, wf s -> balanced_from (net (stack s)) w = true ->
  exists s', push_word w s = Ok s' /\ wf s' /\ stack s' = rev w ++ stack s.
Proof.
  induction w as [|i w IH]; intros s Hwf Hb; cbn [push_word balanced_from rev app] in *.
  - eauto.
  - apply andb_true_iff in Hb as [H1 H2]. apply Z.leb_le in H1.
    destruct (push_item_wf i s Hwf H1) as (s1 & E1 & Hwf1 & St1).
    rewrite E1. cbn [obind].
    destruct (IH s1 Hwf1) as (s2 & E2 & Hwf2 & St2).
    + rewrite St1. cbn [net]. replace (weight i + net (stack s))%Z with (net (stack s) + weight i)%Z by lia. exact H2.
    + exists s2. repeat split; try assumption; try apply Hwf2.
      rewrite St2, St1, <- app_assoc. reflexivity.
Qed.

Lemma push_word_balanced_wf : forall w s, wf s -> balanced w = true ->
  exists s', push_word w s = Ok s' /\ wf s' /\ stack s' = rev w ++ stack s.
Proof.
  intros w s Hwf Hb. apply push_word_wf; [assumption|].
  eapply balanced_from_mono; [|exact Hb]. apply suffix_ok_net_nonneg, Hwf.
Qed.

(* get_stack_trace never hits pop().unwrap() in a well-formed state, and the
   trace it returns has exactly [len] entries *)
Lemma walk_ok : forall l tr,
  (forall l1 l2, l = l1 ++ l2 -> 0 <= Z.of_nat (length tr) + net l1)%Z ->
  exists tr', walk l tr = Ok tr' /\ Z.of_nat (length tr') = (Z.of_nat (length tr) + net l)%Z.
Proof.
  induction l as [|i l IH]; intros tr H; cbn [walk net].
  - exists tr. split; [reflexivity | lia].
  - destruct i as [id| |]; cbn [weight].
    + destruct (IH (id :: tr)) as (tr' & E & L).
      * intros l1 l2 ->. specialize (H (Trace id :: l1) l2 eq_refl). cbn [net weight length] in *. lia.
      * exists tr'. split; [exact E|]. cbn [length] in L. lia.
    + destruct tr as [|x tr].
      * specialize (H [Delayed] l eq_refl). cbn in H. lia.
      * destruct (IH tr) as (tr' & E & L).
        -- intros l1 l2 ->. specialize (H (Delayed :: l1) l2 eq_refl). cbn [net weight length] in *. lia.
        -- exists tr'. split; [exact E|]. cbn [length]. lia.
    + destruct (IH tr) as (tr' & E & L).
      * intros l1 l2 ->. specialize (H (Other :: l1) l2 eq_refl). cbn [net weight] in *. lia.
      * exists tr'. split; [exact E | lia].
Qed.

Lemma net_rev : forall l, net (rev l) = net l.
Proof.
  induction l as [|i l IH]; cbn [rev net]; [reflexivity|].
  rewrite net_app, IH. cbn [net]. lia.
Qed.

Lemma suffix_ok_split : forall l l1 l2, suffix_ok l -> l = l1 ++ l2 -> (0 <= net l2)%Z.
Proof.
  intros l l1. revert l. induction l1 as [|i l1 IH]; intros l l2 H ->; cbn [app] in *.
  - apply suffix_ok_net_nonneg. exact H.
  - cbn [suffix_ok] in H. destruct H as [_ H]. eapply IH; [exact H | reflexivity].
Qed.

Lemma get_stack_trace_ok : forall s, wf s ->
  exists tr, get_stack_trace s = Ok tr /\ N.of_nat (length tr) = len s.
Proof.
  intros s [Hs Hl]. unfold get_stack_trace.
  destruct (walk_ok (rev (stack s)) []) as (tr' & E & L).
  - intros l1 l2 E. cbn [length].
    assert (E2 : stack s = rev l2 ++ rev l1).
    { rewrite <- rev_app_distr, <- E, rev_involutive. reflexivity. }
    pose proof (suffix_ok_split _ _ _ Hs E2) as H. rewrite net_rev in H. lia.
  - rewrite E. cbn [obind]. eexists; split; [reflexivity|].
    rewrite rev_length. rewrite net_rev in L. cbn [length] in L. lia.
Qed.

(* ---- one loop iteration and whole runs preserve the invariant ---- *)

Definition step_safe (r : res tstate) : Prop :=
  match r with
  | Ok s => wf s
  | Err _ => True
  | Panic _ => False
  | OutOfFuel => False
  end.

Lemma wf_pop : forall top rest l, wf {| stack := top :: rest; len := l |} ->
  suffix_ok rest /\ Z.of_N l = (weight top + net rest)%Z /\ (0 <= net rest)%Z.
Proof.
  intros top rest l [Hs Hl]. cbn [stack len suffix_ok net] in *.
  destruct Hs as [H0 Hs]. repeat split; try assumption. apply suffix_ok_net_nonneg, Hs.
Qed.

Lemma step_wf : forall max a s, wf s -> balanced (action_word a) = true ->
  step_safe (step max a s).
Proof.
  intros max a s Hwf Hb. unfold step. destruct s as [st l]. cbn [stack len].
  destruct st as [|top rest]; [exact Hwf|].
  destruct (wf_pop _ _ _ Hwf) as (Hs & Hl & Hn).
  assert (Hov : forall s1, wf s1 ->
            step_safe (if max <? len s1 then obind (get_stack_trace s1) (fun tr => Err (StackOverflow tr)) else Ok s1)).
  { intros s1 H1. destruct (max <? len s1); [|exact H1].
    destruct (get_stack_trace_ok s1 H1) as (tr & E & _). rewrite E. exact I. }
  destruct top as [id| |]; cbn [weight] in Hl.
  - unfold dec_trace_len. cbn [len stack]. destruct (l =? 0) eqn:E.
    + apply N.eqb_eq in E. lia.
    + cbn [obind]. apply Hov. split; cbn [stack len]; [assumption | lia].
  - cbn [obind]. apply Hov. unfold inc_trace_len. split; cbn [stack len]; [assumption | lia].
  - destruct a as [w fail]. cbn [action_word] in Hb.
    assert (Hwf0 : wf {| stack := rest; len := l |}) by (split; cbn [stack len]; [assumption | lia]).
    destruct (push_word_balanced_wf w _ Hwf0 Hb) as (s' & E & Hwf' & _).
    rewrite E. cbn [obind]. destruct fail.
    + destruct (get_stack_trace_ok s' Hwf') as (tr & E2 & _). rewrite E2. exact I.
    + cbn [obind]. apply Hov. exact Hwf'.
Qed.

Definition script_balanced (script : list action) : Prop :=
  Forall (fun a => balanced (action_word a) = true) script.

Lemma run_wf : forall max script s, wf s -> script_balanced script ->
  step_safe (run max script s).
Proof.
  intros max script. induction script as [|a r IH]; intros s Hwf Hb; cbn [run].
  - exact Hwf.
  - inversion Hb as [|? ? Ha Hr]; subst.
    pose proof (step_wf max a s Hwf Ha) as H1.
    destruct (step max a s) as [s1|e|site|]; cbn [obind step_safe] in *; try contradiction; auto.
Qed.

(* tracelen_invariant: every state reachable by the loop from the initial
   pushes of [eval] is well formed *)
Theorem tracelen_invariant : forall max init script s0 s,
  balanced init = true -> script_balanced script ->
  push_word init empty_state = Ok s0 -> run max script s0 = Ok s ->
  suffix_ok (stack s) /\ Z.of_N (len s) = net (stack s).
Proof.
  intros max init script s0 s Hi Hs E0 E.
  destruct (push_word_balanced_wf init empty_state wf_empty Hi) as (s0' & E0' & Hwf0 & _).
  rewrite E0 in E0'. injection E0' as <-.
  pose proof (run_wf max script s0 Hwf0 Hs) as H. rewrite E in H. exact H.
Qed.

(* dec_no_underflow (and no other panic site of the accounting is reached):
   neither checked_sub(1).unwrap() nor stack_trace.pop().unwrap() nor the
   final assert_eq!(stack_trace_len, 0) *)
Theorem eval_run_no_panic : forall max init script,
  balanced init = true -> script_balanced script ->
  is_panic (eval_run max init script) = false.
Proof.
  intros max init script Hi Hs. unfold eval_run.
  destruct (push_word_balanced_wf init empty_state wf_empty Hi) as (s0 & E0 & Hwf0 & _).
  rewrite E0. cbn [obind].
  pose proof (run_wf max script s0 Hwf0 Hs) as H.
  destruct (run max script s0) as [s|e|site|]; cbn [obind step_safe] in *; try contradiction; try reflexivity.
  destruct (stack s) as [|i r] eqn:Est; [|reflexivity].
  destruct H as [_ Hl]. rewrite Est in Hl. cbn [net] in Hl.
  destruct (len s =? 0) eqn:E; [reflexivity|]. apply N.eqb_neq in E. lia.
Qed.

Theorem dec_no_underflow : forall max init script s0,
  balanced init = true -> script_balanced script ->
  push_word init empty_state = Ok s0 ->
  is_panic (run max script s0) = false.
Proof.
  intros max init script s0 Hi Hs E0.
  destruct (push_word_balanced_wf init empty_state wf_empty Hi) as (s0' & E0' & Hwf0 & _).
  rewrite E0 in E0'. injection E0' as <-.
  pose proof (run_wf max script s0 Hwf0 Hs) as H.
  destruct (run max script s0); cbn in *; try reflexivity; contradiction.
Qed.

Theorem len_zero_at_end : forall max init script s0 s,
  balanced init = true -> script_balanced script ->
  push_word init empty_state = Ok s0 -> run max script s0 = Ok s ->
  stack s = [] -> len s = 0.
Proof.
  intros max init script s0 s Hi Hs E0 E Hst.
  destruct (tracelen_invariant max init script s0 s Hi Hs E0 E) as [_ Hl].
  rewrite Hst in Hl. cbn [net] in Hl. lia.
Qed.

Theorem get_stack_trace_pop_ok : forall max init script s0 s,
  balanced init = true -> script_balanced script ->
  push_word init empty_state = Ok s0 -> run max script s0 = Ok s ->
  exists tr, get_stack_trace s = Ok tr /\ N.of_nat (length tr) = len s.
Proof.
  intros max init script s0 s Hi Hs E0 E.
  apply get_stack_trace_ok. exact (tracelen_invariant max init script s0 s Hi Hs E0 E).
Qed.

(* the bound itself: between two loop iterations the counter never exceeds
   the limit, and a reported stack overflow carries a trace longer than it *)
Lemma step_bound : forall max a s s', step max a s = Ok s' -> len s <= max -> len s' <= max.
Proof.
  intros max a s s' E Hl. unfold step in E. destruct (stack s) as [|top rest].
  - injection E as <-. exact Hl.
  - match type of E with obind ?x _ = _ => destruct x as [s1| | |] end; cbn [obind] in E; try discriminate.
    destruct (max <? len s1) eqn:Hm.
    + destruct (get_stack_trace s1); cbn [obind] in E; discriminate.
    + injection E as <-. apply N.ltb_ge in Hm. exact Hm.
Qed.

Theorem len_never_exceeds : forall max script s s',
  run max script s = Ok s' -> len s <= max -> len s' <= max.
Proof.
  intros max script. induction script as [|a r IH]; intros s s' E Hl; cbn [run] in E.
  - injection E as <-. exact Hl.
  - destruct (step max a s) as [s1| | |] eqn:E1; cbn [obind] in E; try discriminate.
    eapply IH; [exact E|]. eapply step_bound; eauto.
Qed.

Lemma step_overflow_trace : forall max a s tr, wf s -> balanced (action_word a) = true ->
  step max a s = Err (StackOverflow tr) -> max < N.of_nat (length tr).
Proof.
  intros max a s tr Hwf Hb E. unfold step in E. destruct s as [st l]. cbn [stack len] in E.
  destruct st as [|top rest]; [discriminate|].
  destruct (wf_pop _ _ _ Hwf) as (Hs & Hl & Hn).
  assert (Hov : forall s1, wf s1 ->
     (if max <? len s1 then obind (get_stack_trace s1) (fun tr => Err (StackOverflow tr)) else Ok s1)
       = Err (StackOverflow tr) -> max < N.of_nat (length tr)).
  { intros s1 H1 E1. destruct (max <? len s1) eqn:Hm; [|discriminate].
    destruct (get_stack_trace_ok s1 H1) as (tr1 & E2 & L). rewrite E2 in E1. cbn [obind] in E1.
    injection E1 as <-. apply N.ltb_lt in Hm. lia. }
  destruct top as [id| |]; cbn [weight] in Hl.
  - unfold dec_trace_len in E. cbn [len stack] in E. destruct (l =? 0) eqn:E0.
    + cbn [obind] in E. discriminate.
    + cbn [obind] in E. apply N.eqb_neq in E0. eapply Hov; [|exact E].
      split; cbn [stack len]; [assumption | lia].
  - cbn [obind] in E. eapply Hov; [|exact E]. unfold inc_trace_len.
    split; cbn [stack len]; [assumption | lia].
  - destruct a as [w fail]. cbn [action_word] in Hb.
    assert (Hwf0 : wf {| stack := rest; len := l |}) by (split; cbn [stack len]; [assumption | lia]).
    destruct (push_word_balanced_wf w _ Hwf0 Hb) as (s' & E' & Hwf' & _).
    rewrite E' in E. cbn [obind] in E. destruct fail.
    + destruct (get_stack_trace_ok s' Hwf') as (tr2 & E2 & _). rewrite E2 in E.
      cbn [obind] in E. discriminate.
    + cbn [obind] in E. eapply Hov; [exact Hwf' | exact E].
Qed.

Theorem overflow_trace_exceeds_limit : forall max init script s0 tr,
  balanced init = true -> script_balanced script ->
  push_word init empty_state = Ok s0 ->
  run max script s0 = Err (StackOverflow tr) -> max < N.of_nat (length tr).
Proof.
  intros max init script s0 tr Hi Hs E0.
  destruct (push_word_balanced_wf init empty_state wf_empty Hi) as (s0' & E0' & Hwf0 & _).
  rewrite E0 in E0'. injection E0' as <-. clear E0 Hi.
  revert s0 Hwf0. induction Hs as [|a r Ha Hr IH]; intros s0 Hwf0 E; cbn [run] in E; [discriminate|].
  pose proof (step_wf max a s0 Hwf0 Ha) as H1.
  destruct (step max a s0) as [s1|e| |] eqn:E1; cbn [obind step_safe] in *; try contradiction.
  - eapply IH; eauto.
  - injection E as ->. eapply step_overflow_trace; eauto.
Qed.

(* ---- soundness of the tree analysis ---- *)

Lemma weight_item_of_sym : forall s id,
  weight (item_of_sym s id) = match s with ST => 1 | SD => -1 | SO => 0 end%Z.
Proof. destruct s; reflexivity. Qed.

Lemma analyse_p_le : forall t c p, analyse t = Some (c, p) -> (p <= 0 /\ p <= c)%Z.
Proof.
  induction t as [|s|a IHa b IHb|a IHa|a IHa]; intros c p H; cbn [analyse] in H.
  - injection H as <- <-. lia.
  - destruct s; injection H as <- <-; lia.
  - destruct (analyse a) as [[ca pa]|]; [|discriminate].
    destruct (analyse b) as [[cb pb]|]; [|discriminate].
    injection H as <- <-. specialize (IHa _ _ eq_refl). specialize (IHb _ _ eq_refl). lia.
  - destruct (analyse a) as [[ca pa]|]; [|discriminate].
    injection H as <- <-. specialize (IHa _ _ eq_refl). lia.
  - destruct (analyse a) as [[ca pa]|]; [|discriminate].
    destruct (pa <? 0)%Z; [discriminate|]. injection H as <- <-. lia.
Qed.

Lemma app_split_cases : forall A (w1 w2 u v : list A), w1 ++ w2 = u ++ v ->
  (exists k, w1 = u ++ k /\ v = k ++ w2) \/ (exists k, u = w1 ++ k /\ w2 = k ++ v).
Proof.
  intros A w1. induction w1 as [|x w1 IH]; intros w2 u v E; cbn [app] in *.
  - right. exists u. split; [reflexivity | exact E].
  - destruct u as [|y u]; cbn [app] in *.
    + left. exists (x :: w1). split; [reflexivity|]. symmetry. exact E.
    + injection E as -> E. destruct (IH _ _ _ E) as [(k & -> & ->)|(k & -> & ->)].
      * left. exists k. split; reflexivity.
      * right. exists k. split; reflexivity.
Qed.

Lemma exec_sound : forall t w f, exec t w f ->
  forall c p, analyse t = Some (c, p) ->
  (f = false -> c <= net w)%Z /\ (forall u v, w = u ++ v -> p <= net u)%Z.
Proof.
  induction 1 as [t| |s id|a b w H IH|a b w1 w2 f H1 IH1 H2 IH2|a|a w f H IH|a|a w1 f1 w2 f2 H1 IH1 H2 IH2|a w H IH];
    intros c p A.
  - (* exit *) split; [discriminate|]. intros u v E. destruct u; [|discriminate].
    cbn [net]. apply (analyse_p_le _ _ _ A).
  - cbn [analyse] in A. injection A as <- <-. split; [cbn; lia|].
    intros u v E. destruct u; [cbn; lia | discriminate].
  - cbn [analyse] in A. split.
    + intros _. cbn [net]. rewrite weight_item_of_sym. destruct s; injection A as <- <-; lia.
    + intros u v E. destruct u as [|x u]; [destruct s; injection A as <- <-; cbn; lia|].
      cbn [app] in E. injection E as <- E. destruct u; [|discriminate].
      cbn [net]. rewrite weight_item_of_sym. destruct s; injection A as <- <-; lia.
  - cbn [analyse] in A. destruct (analyse a) as [[ca pa]|] eqn:Aa; [|discriminate].
    destruct (analyse b) as [[cb pb]|]; [|discriminate]. injection A as <- <-.
    destruct (IH _ _ eq_refl) as [_ Hp]. split; [discriminate|].
    intros u v E. specialize (Hp u v E). lia.
  - cbn [analyse] in A. destruct (analyse a) as [[ca pa]|] eqn:Aa; [|discriminate].
    destruct (analyse b) as [[cb pb]|] eqn:Ab; [|discriminate]. injection A as <- <-.
    destruct (IH1 _ _ eq_refl) as [Hc1 Hp1]. destruct (IH2 _ _ eq_refl) as [Hc2 Hp2].
    specialize (Hc1 eq_refl). split.
    + intros ->. specialize (Hc2 eq_refl). rewrite net_app. lia.
    + intros u v E. destruct (app_split_cases _ _ _ _ _ E) as [(k & -> & ->)|(k & -> & ->)].
      * specialize (Hp1 u k eq_refl). lia.
      * specialize (Hp2 k v eq_refl). rewrite net_app. lia.
  - cbn [analyse] in A. destruct (analyse a) as [[ca pa]|] eqn:Aa; [|discriminate].
    injection A as <- <-. split; [cbn; lia|].
    intros u v E. destruct u; [|discriminate]. cbn [net]. apply (analyse_p_le _ _ _ Aa).
  - cbn [analyse] in A. destruct (analyse a) as [[ca pa]|] eqn:Aa; [|discriminate].
    injection A as <- <-. destruct (IH _ _ eq_refl) as [Hc Hp]. split; [|exact Hp].
    intros ->. specialize (Hc eq_refl). lia.
  - cbn [analyse] in A. destruct (analyse a) as [[ca pa]|] eqn:Aa; [|discriminate].
    destruct (pa <? 0)%Z; [discriminate|]. injection A as <- <-. split; [cbn; lia|].
    intros u v E. destruct u; [cbn; lia | discriminate].
  - pose proof A as A'. cbn [analyse] in A. destruct (analyse a) as [[ca pa]|] eqn:Aa; [|discriminate].
    destruct (pa <? 0)%Z eqn:Hpa; [discriminate|]. injection A as <- <-.
    apply Z.ltb_ge in Hpa.
    destruct (IH1 _ _ eq_refl) as [_ Hp1]. destruct (IH2 _ _ A') as [Hc2 Hp2].
    assert (Hn1 : (0 <= net w1)%Z).
    { specialize (Hp1 w1 [] (eq_sym (app_nil_r _))). lia. }
    split.
    + intros ->. specialize (Hc2 eq_refl). rewrite net_app. lia.
    + intros u v E. destruct (app_split_cases _ _ _ _ _ E) as [(k & -> & ->)|(k & -> & ->)].
      * specialize (Hp1 u k eq_refl). lia.
      * specialize (Hp2 k v eq_refl). rewrite net_app. lia.
  - cbn [analyse] in A. destruct (analyse a) as [[ca pa]|] eqn:Aa; [|discriminate].
    destruct (pa <? 0)%Z eqn:Hpa; [discriminate|]. injection A as <- <-.
    apply Z.ltb_ge in Hpa. destruct (IH _ _ eq_refl) as [_ Hp]. split; [discriminate|].
    intros u v E. specialize (Hp u v E). lia.
Qed.

(* a handler whose tree passes the analysis can only push balanced words *)
Theorem tree_balanced_sound : forall t w f,
  tree_balanced t = true -> exec t w f -> balanced w = true.
Proof.
  intros t w f Hb Hex. unfold tree_balanced in Hb.
  destruct (analyse t) as [[c p]|] eqn:A; [|discriminate]. apply Z.leb_le in Hb.
  destruct (exec_sound _ _ _ Hex _ _ A) as [_ Hp].
  apply prefix_balanced. intros w1 w2 E. specialize (Hp w1 w2 E). lia.
Qed.

Lemma execc_exec : forall t w, execc t w -> exec t w false.
Proof.
  induction 1; try (econstructor; eassumption).
Qed.

Theorem gain_sound : forall t w, execc t w -> forall g, gain t = Some g -> (net w <= g)%Z.
Proof.
  induction 1 as [|s id|a b w1 w2 H1 IH1 H2 IH2|a|a w H IH|a|a w1 w2 H1 IH1 H2 IH2]; intros g G.
  - cbn in *. injection G as <-. lia.
  - cbn [net gain] in *. rewrite weight_item_of_sym. destruct s; injection G as <-; lia.
  - cbn [gain] in G. destruct (gain a) as [ga|] eqn:Ga; [|discriminate].
    destruct (gain b) as [gb|] eqn:Gb; [|discriminate]. injection G as <-.
    specialize (IH1 _ eq_refl). specialize (IH2 _ eq_refl). rewrite net_app. lia.
  - cbn [gain] in G. destruct (gain a) as [ga|]; [|discriminate]. injection G as <-. cbn [net]. lia.
  - cbn [gain] in G. destruct (gain a) as [ga|] eqn:Ga; [|discriminate]. injection G as <-.
    specialize (IH _ eq_refl). lia.
  - cbn [gain] in G. destruct (gain a) as [ga|]; [|discriminate].
    destruct (0 <? ga)%Z; [discriminate|]. injection G as <-. cbn [net]. lia.
  - pose proof G as G'. cbn [gain] in G. destruct (gain a) as [ga|] eqn:Ga; [|discriminate].
    destruct (0 <? ga)%Z eqn:Hg; [discriminate|]. injection G as <-. apply Z.ltb_ge in Hg.
    specialize (IH1 _ eq_refl). specialize (IH2 _ G'). rewrite net_app. lia.
Qed.

(* the counter after a completed handler is at most the limit plus the
   handler's gain: the overflow trace is at most that long *)
Lemma push_word_len : forall w s s', push_word w s = Ok s' ->
  Z.of_N (len s') = (Z.of_N (len s) + net w)%Z.
Proof.
  induction w as [|i w IH]; intros s s' E; cbn [push_word net] in *.
  - injection E as <-. lia.
  - destruct (push_item i s) as [s1| | |] eqn:E1; cbn [obind] in E; try discriminate.
    specialize (IH _ _ E). rewrite IH.
    destruct i as [id| |]; cbn [push_item weight] in *.
    + injection E1 as <-. cbn [push_trace_item inc_trace_len push_state len]. lia.
    + unfold delay_trace_item, dec_trace_len, push_state in E1. cbn [len stack] in E1.
      destruct (len s =? 0) eqn:E0; [discriminate|]. injection E1 as <-. cbn [len].
      apply N.eqb_neq in E0. lia.
    + injection E1 as <-. cbn [push_state len]. lia.
Qed.

Theorem step_overflow_trace_bounded : forall max a s tr g, wf s -> balanced (action_word a) = true ->
  (net (action_word a) <= g)%Z -> (0 <= g)%Z -> len s <= max ->
  step max a s = Err (StackOverflow tr) ->
  (Z.of_nat (length tr) <= Z.of_N max + Z.max 1 g)%Z.
Proof.
  intros max a s tr g Hwf Hb Hg Hg0 Hmax E. unfold step in E. destruct s as [st l]. cbn [stack len] in *.
  destruct st as [|top rest]; [discriminate|].
  destruct (wf_pop _ _ _ Hwf) as (Hs & Hl & Hn).
  assert (Hov : forall s1, wf s1 -> (Z.of_N (len s1) <= Z.of_N max + Z.max 1 g)%Z ->
     (if max <? len s1 then obind (get_stack_trace s1) (fun tr => Err (StackOverflow tr)) else Ok s1)
       = Err (StackOverflow tr) -> (Z.of_nat (length tr) <= Z.of_N max + Z.max 1 g)%Z).
  { intros s1 H1 Hb1 E1. destruct (max <? len s1) eqn:Hm; [|discriminate].
    destruct (get_stack_trace_ok s1 H1) as (tr1 & E2 & L). rewrite E2 in E1. cbn [obind] in E1.
    injection E1 as <-. lia. }
  destruct top as [id| |]; cbn [weight] in Hl.
  - unfold dec_trace_len in E. cbn [len stack] in E. destruct (l =? 0) eqn:E0.
    + cbn [obind] in E. discriminate.
    + cbn [obind] in E. apply N.eqb_neq in E0. eapply Hov; [| |exact E].
      * split; cbn [stack len]; [assumption | lia].
      * cbn [len]. lia.
  - cbn [obind] in E. eapply Hov; [| |exact E]; unfold inc_trace_len.
    + split; cbn [stack len]; [assumption | lia].
    + cbn [len]. lia.
  - destruct a as [w fail]. cbn [action_word] in *.
    assert (Hwf0 : wf {| stack := rest; len := l |}) by (split; cbn [stack len]; [assumption | lia]).
    destruct (push_word_balanced_wf w _ Hwf0 Hb) as (s' & E' & Hwf' & _).
    rewrite E' in E. cbn [obind] in E. destruct fail.
    + destruct (get_stack_trace_ok s' Hwf') as (tr2 & E2 & _). rewrite E2 in E.
      cbn [obind] in E. discriminate.
    + cbn [obind] in E. eapply Hov; [exact Hwf' | | exact E].
      rewrite (push_word_len _ _ _ E'). cbn [len]. lia.
Qed.

(* ---- a graph with a topological numbering has no cycle ---- *)
From Coq Require Import Relations.

Lemma graph_topo_edge : forall g a b, graph_topo g = true -> edge g a b -> b < a.
Proof.
  intros g a b H (succs & Hin & Hb). unfold graph_topo in H.
  rewrite forallb_forall in H. specialize (H _ Hin). cbn [fst snd] in H.
  rewrite forallb_forall in H. specialize (H _ Hb). apply N.ltb_lt in H. exact H.
Qed.

Lemma graph_topo_path : forall g a b, graph_topo g = true -> clos_trans N (edge g) a b -> b < a.
Proof.
  intros g a b H P. induction P as [x y E|x y z _ IH1 _ IH2].
  - eapply graph_topo_edge; eauto.
  - lia.
Qed.

Theorem graph_topo_acyclic : forall g, graph_topo g = true ->
  forall a, ~ clos_trans N (edge g) a a.
Proof. intros g H a P. pose proof (graph_topo_path g a a H P). lia. Qed.
