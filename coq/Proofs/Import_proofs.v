(* Proofs/Import_proofs.v — lemmas about Model/Import.v (property C13). *)
From RJ Require Import Base.Outcome Model.Import.
From Coq Require Import Lia.
Local Open Scope N_scope.

(* ------------------------------------------------------------------ *)
(* strings                                                             *)

Lemma str_eqb_refl : forall s, str_eqb s s = true.
Proof. induction s as [|c s IH]; cbn; [reflexivity|]. rewrite N.eqb_refl, IH. reflexivity. Qed.

Lemma str_eqb_eq : forall a b, str_eqb a b = true <-> a = b.
Proof.
  induction a as [|x a IH]; destruct b as [|y b]; cbn; split; intros H; try reflexivity; try discriminate.
  - apply andb_true_iff in H. destruct H as [H1 H2]. apply N.eqb_eq in H1. apply IH in H2. subst. reflexivity.
  - inversion H; subst. rewrite N.eqb_refl. cbn. apply IH. reflexivity.
Qed.

(* ------------------------------------------------------------------ *)
(* first match of a mapped list                                        *)

Lemma find_map_some {A B} (f : B -> bool) (g : A -> B) (l : list A) (q : B) :
  find f (map g l) = Some q <->
  exists pre b post, l = pre ++ b :: post /\ q = g b /\ f (g b) = true /\
                     Forall (fun b' => f (g b') = false) pre.
Proof.
  induction l as [|a l IH]; cbn.
  - split; [discriminate|]. intros (pre & b & post & H & _). destruct pre; discriminate.
  - destruct (f (g a)) eqn:Ha.
    + split.
      * intros H. inversion H; subst. exists [], a, l. repeat split; auto.
      * intros (pre & b & post & Hl & Hq & Hb & Hpre).
        destruct pre as [|a' pre]; cbn in Hl; inversion Hl; subst.
        -- reflexivity.
        -- inversion Hpre; subst. congruence.
    + rewrite IH. split.
      * intros (pre & b & post & Hl & Hq & Hb & Hpre). exists (a :: pre), b, post.
        subst. repeat split; auto.
      * intros (pre & b & post & Hl & Hq & Hb & Hpre).
        destruct pre as [|a' pre]; cbn in Hl; inversion Hl; subst.
        -- congruence.
        -- inversion Hpre; subst. exists pre, b, post. repeat split; auto.
Qed.

Lemma find_map_none {A B} (f : B -> bool) (g : A -> B) (l : list A) :
  find f (map g l) = None <-> Forall (fun b => f (g b) = false) l.
Proof.
  induction l as [|a l IH]; cbn.
  - split; auto.
  - destruct (f (g a)) eqn:Ha.
    + split; [discriminate|]. intros H. inversion H; subst. congruence.
    + rewrite IH. split; intros H; [constructor; auto | inversion H; auto].
Qed.

Section WorldProofs.
  Variable fs : path -> node.
  Variable canon : path -> path.
  Variable prog_of : list N -> option prog.

  Notation exists_ := (exists_ fs).
  Notation find_import := (find_import fs).
  Notation load_real_file := (load_real_file fs canon prog_of).
  Notation cb_import := (cb_import fs canon prog_of).
  Notation cb_import_bin := (cb_import_bin fs).
  Notation cb_import_str := (cb_import_str fs).
  Notation eval_expr := (eval_expr fs canon prog_of).

  (* ---------------- search order ---------------- *)

  Theorem search_order : forall st from p q,
    is_absolute p = false ->
    (find_import st from p = Some q <->
     exists pre b post, bases st from = pre ++ b :: post /\ q = join b p /\
                        exists_ (join b p) = true /\
                        Forall (fun b' => exists_ (join b' p) = false) pre).
  Proof.
    intros st from p q Hrel. unfold Import.find_import. rewrite Hrel.
    unfold candidates. apply find_map_some.
  Qed.

  Theorem search_none : forall st from p,
    is_absolute p = false ->
    (find_import st from p = None <->
     Forall (fun b => exists_ (join b p) = false) (bases st from)).
  Proof.
    intros st from p Hrel. unfold Import.find_import. rewrite Hrel.
    unfold candidates. apply find_map_none.
  Qed.

  Theorem importer_dir_first : forall st from p d,
    is_absolute p = false ->
    from_dir st from = Some d ->
    exists_ (join d p) = true ->
    find_import st from p = Some (join d p).
  Proof.
    intros st from p d Hrel Hd He. apply search_order; [assumption|].
    exists [], d, (s_search st). unfold bases. rewrite Hd. repeat split; auto.
  Qed.

  (* the search paths are the -J options reversed: a later -J is tried earlier *)
  Theorem rightmost_J_wins : forall st from p l1 d l2,
    is_absolute p = false ->
    s_search st = rev (l1 ++ d :: l2) ->
    (forall d0, from_dir st from = Some d0 -> exists_ (join d0 p) = false) ->
    exists_ (join d p) = true ->
    Forall (fun d' => exists_ (join d' p) = false) l2 ->
    find_import st from p = Some (join d p).
  Proof.
    intros st from p l1 d l2 Hrel Hs Hfrom Hd Hl2. apply search_order; [assumption|].
    unfold bases. rewrite Hs, rev_app_distr. cbn [rev]. rewrite <- app_assoc. cbn [app].
    destruct (from_dir st from) as [d0|] eqn:Hfd.
    - exists (d0 :: rev l2), d, (rev l1). repeat split; auto.
      constructor; [apply Hfrom; reflexivity|].
      apply Forall_rev. assumption.
    - exists (rev l2), d, (rev l1). repeat split; auto. apply Forall_rev. assumption.
  Qed.

  Theorem absolute_bypass : forall st from p,
    is_absolute p = true ->
    find_import st from p = if exists_ p then Some p else None.
  Proof. intros st from p H. unfold Import.find_import. rewrite H. reflexivity. Qed.

  Theorem resolution_deterministic : forall st1 st2 from1 from2 p,
    s_search st1 = s_search st2 ->
    from_dir st1 from1 = from_dir st2 from2 ->
    find_import st1 from1 p = find_import st2 from2 p.
  Proof.
    intros st1 st2 from1 from2 p Hs Hf. unfold Import.find_import, candidates, bases.
    rewrite Hs, Hf. reflexivity.
  Qed.

  (* ---------------- cache ---------------- *)

  Lemma canonicalize_ok : forall p, exists_ p = true -> canonicalize fs canon p = inr (canon p).
  Proof.
    intros p H. unfold Import.exists_ in H. unfold canonicalize.
    destruct (fs p); try discriminate; reflexivity.
  Qed.

  Lemma load_ok_exists : forall st p st1 sid,
    load_real_file st p = (st1, inr sid) -> exists_ p = true.
  Proof.
    intros st p st1 sid H. unfold Import.load_real_file, canonicalize in H.
    unfold Import.exists_. destruct (fs p) eqn:Hfs; try reflexivity.
    - inversion H.
    - inversion H.
  Qed.

  Lemma load_ok_cached : forall st p st1 sid,
    load_real_file st p = (st1, inr sid) -> assoc_path (canon p) (s_cache st1) = Some sid.
  Proof.
    intros st p st1 sid H. pose proof (load_ok_exists _ _ _ _ H) as He.
    unfold Import.load_real_file in H. rewrite (canonicalize_ok _ He) in H.
    destruct (assoc_path (canon p) (s_cache st)) as [s|] eqn:Hc.
    - inversion H; subst. assumption.
    - destruct (read fs p) as [e|data]; [inversion H|].
      destruct (prog_of data); inversion H; subst. cbn. rewrite str_eqb_refl. reflexivity.
  Qed.

  (* two spellings with the same canonical path: the second load is a cache hit —
     no read, no new source, no new thunk, the session is unchanged *)
  Theorem cache_by_canonical : forall st p1 st1 sid p2,
    load_real_file st p1 = (st1, inr sid) ->
    exists_ p2 = true ->
    canon p2 = canon p1 ->
    load_real_file st1 p2 = (st1, inr sid).
  Proof.
    intros st p1 st1 sid p2 H1 He Hc. pose proof (load_ok_cached _ _ _ _ H1) as Hk.
    unfold Import.load_real_file. rewrite (canonicalize_ok _ He), Hc, Hk. reflexivity.
  Qed.

  (* std.thisFile / the importer directory: the spelling of the first load stays *)
  Theorem thisfile_is_as_loaded : forall st p1 st1 sid,
    load_real_file st p1 = (st1, inr sid) ->
    assoc_path (canon p1) (s_cache st) = None ->
    length (s_sources st) = length (s_thunks st) ->
    repr_path st1 sid = p1 /\
    forall p2 st2 sid2, exists_ p2 = true -> canon p2 = canon p1 ->
      load_real_file st1 p2 = (st2, inr sid2) -> sid2 = sid /\ repr_path st2 sid2 = p1.
  Proof.
    intros st p1 st1 sid H Hn Hlen. pose proof (load_ok_exists _ _ _ _ H) as He.
    assert (Hr : repr_path st1 sid = p1).
    { unfold Import.load_real_file in H. rewrite (canonicalize_ok _ He), Hn in H.
      destruct (read fs p1) as [e|data]; [inversion H|].
      destruct (prog_of data); inversion H; subst.
      unfold repr_path, nthN; cbn [s_sources]. rewrite app_length. cbn [length].
      destruct (N.leb_spec (N.of_nat (length (s_sources st) + 1)) (N.of_nat (length (s_sources st)))) as [Hle|Hlt]; [lia|].
      rewrite Nnat.Nat2N.id, nth_error_app2 by lia. rewrite PeanoNat.Nat.sub_diag. reflexivity. }
    split; [assumption|].
    intros p2 st2 sid2 He2 Hc H2. rewrite (cache_by_canonical _ _ _ _ _ H He2 Hc) in H2.
    inversion H2; subst. auto.
  Qed.

  (* ---------------- content delivery ---------------- *)

  Theorem importbin_exact : forall st from p q b,
    find_import st from p = Some q -> fs q = File b ->
    cb_import_bin st from p = (with_log st (EvRead q), inr b).
  Proof.
    intros st from p q b Hf Hq. unfold Import.cb_import_bin, read. rewrite Hf, Hq. reflexivity.
  Qed.

  Theorem importstr_is_lossy_decode : forall st from p q b,
    find_import st from p = Some q -> fs q = File b ->
    cb_import_str st from p = (with_log st (EvRead q), inr (lossy b)).
  Proof.
    intros st from p q b Hf Hq. unfold Import.cb_import_str.
    rewrite (importbin_exact _ _ _ _ _ Hf Hq). reflexivity.
  Qed.

  (* ---------------- failures are reported at the import site ---------------- *)

  Theorem missing_is_import_error_at_site : forall forcef st sid pos p,
    find_import st (Some sid) p = None ->
    let st' := with_log st (EvMsg WNotFound p) in
    let e := Err (ImportFailed WNotFound (repr_path st sid) pos p) in
    eval_expr forcef sid pos (IImport p) st = (st', e) /\
    eval_expr forcef sid pos (IImportStr p) st = (st', e) /\
    eval_expr forcef sid pos (IImportBin p) st = (st', e).
  Proof.
    intros forcef st sid pos p Hf. cbn.
    unfold Import.cb_import, Import.cb_import_str, Import.cb_import_bin. rewrite Hf. auto.
  Qed.

  (* a directory or an unreadable file where the search stops: the search does not
     go on to later candidates, the import fails at its site *)
  Theorem unreadable_is_import_error_at_site : forall forcef st sid pos p q,
    find_import st (Some sid) p = Some q ->
    (fs q = Dir \/ fs q = Unreadable) ->
    exists e,
      read fs q = inl e /\
      eval_expr forcef sid pos (IImportStr p) st =
        (with_log st (EvMsg (WRead e) q), Err (ImportFailed (WRead e) (repr_path st sid) pos p)) /\
      eval_expr forcef sid pos (IImportBin p) st =
        (with_log st (EvMsg (WRead e) q), Err (ImportFailed (WRead e) (repr_path st sid) pos p)) /\
      (assoc_path (canon q) (s_cache st) = None ->
       eval_expr forcef sid pos (IImport p) st =
        (with_log st (EvMsg (WRead e) q), Err (ImportFailed (WRead e) (repr_path st sid) pos p))).
  Proof.
    intros forcef st sid pos p q Hf Hq.
    assert (He : exists e, read fs q = inl e /\ exists_ q = true).
    { unfold read, Import.exists_. destruct Hq as [Hq|Hq]; rewrite Hq; eauto. }
    destruct He as (e & He & Hex). exists e. split; [assumption|].
    cbn. unfold Import.cb_import, Import.cb_import_str, Import.cb_import_bin. rewrite Hf, He.
    repeat split; auto.
    intros Hn. unfold Import.load_real_file. rewrite (canonicalize_ok _ Hex), Hn, He. reflexivity.
  Qed.
End WorldProofs.

(* resolution looks at the world only through the existence of the candidates *)
Theorem resolution_depends_only_on_existence : forall fs1 fs2 st from p,
  (forall q, In q (p :: candidates st from p) -> exists_ fs1 q = exists_ fs2 q) ->
  find_import fs1 st from p = find_import fs2 st from p.
Proof.
  intros fs1 fs2 st from p H. unfold find_import.
  destruct (is_absolute p).
  - rewrite (H p) by (left; reflexivity). reflexivity.
  - assert (Hc : forall q, In q (candidates st from p) -> exists_ fs1 q = exists_ fs2 q)
      by (intros q Hq; apply H; right; assumption).
    clear H. induction (candidates st from p) as [|c l IH]; cbn; [reflexivity|].
    rewrite (Hc c) by (left; reflexivity). destruct (exists_ fs2 c); [reflexivity|].
    apply IH. intros q Hq. apply Hc. right. assumption.
Qed.

(* ------------------------------------------------------------------ *)
(* a small concrete world for the non-vacuity examples of Props/C13.v  *)

Definition str_of (s : string) : str :=
  map (fun a => N.of_nat (Ascii.nat_of_ascii a)) (list_ascii_of_string s).

(*  /R/main.jsonnet  /R/x.libsonnet  /R/d.txt  /R/a/y.libsonnet  /R/a/d.txt
    /R/b/y.libsonnet  /R/b/lx -> ../x.libsonnet  /R/dirx.libsonnet/ (a directory)
    /R/c1.libsonnet <-> /R/c2.libsonnet (strict import cycle) *)
Definition ex_tree : cfs :=
  let R := str_of "R" in
  [ ([R], CDir true);
    ([R; str_of "main.jsonnet"], CFile (str_of "M") true);
    ([R; str_of "x.libsonnet"], CFile (str_of "X") true);
    ([R; str_of "d.txt"], CFile [104; 255; 105; 195; 169] true);
    ([R; str_of "a"], CDir true);
    ([R; str_of "a"; str_of "y.libsonnet"], CFile (str_of "YA") true);
    ([R; str_of "a"; str_of "d.txt"], CFile [1; 2] true);
    ([R; str_of "b"], CDir true);
    ([R; str_of "b"; str_of "y.libsonnet"], CFile (str_of "YB") true);
    ([R; str_of "b"; str_of "lx"], CLink (str_of "../x.libsonnet"));
    ([R; str_of "dirx.libsonnet"], CDir true);
    ([R; str_of "c1.libsonnet"], CFile (str_of "C1") true);
    ([R; str_of "c2.libsonnet"], CFile (str_of "C2") true);
    ([R; str_of "m2.jsonnet"], CFile (str_of "M2") true);
    ([R; str_of "m3.jsonnet"], CFile (str_of "M3") true) ].

Definition ex_progs : list (list N * prog) :=
  [ (str_of "M", {| p_tag := str_of "main"; p_strict := [];
                    p_items := [ILit (str_of "main"); IThisFile;
                                IImport (str_of "x.libsonnet");
                                IImport (str_of "./x.libsonnet");
                                IImport (str_of "a/../x.libsonnet");
                                IImport (str_of "b/lx");
                                IImport (str_of "y.libsonnet");
                                IImportStr (str_of "d.txt");
                                IImportBin (str_of "d.txt");
                                IImportBin (str_of "/R/a/d.txt")] |});
    (str_of "X", {| p_tag := str_of "x"; p_strict := []; p_items := [ILit (str_of "x"); IThisFile] |});
    (str_of "YA", {| p_tag := str_of "ya"; p_strict := []; p_items := [ILit (str_of "ya"); IThisFile] |});
    (str_of "YB", {| p_tag := str_of "yb"; p_strict := []; p_items := [ILit (str_of "yb"); IThisFile; IImportBin (str_of "d.txt")] |});
    (str_of "C1", {| p_tag := str_of "c1"; p_strict := [IImport (str_of "c2.libsonnet")]; p_items := [] |});
    (str_of "C2", {| p_tag := str_of "c2"; p_strict := [IImport (str_of "c1.libsonnet")]; p_items := [] |});
    (str_of "M2", {| p_tag := str_of "m2"; p_strict := []; p_items := [ILit (str_of "m2"); IImport (str_of "nope.libsonnet")] |});
    (str_of "M3", {| p_tag := str_of "m3"; p_strict := [IImport (str_of "c1.libsonnet")]; p_items := [] |}) ].

Definition ex_cwd : list str := [str_of "R"].
Definition ex_fs : path -> node := cnode ex_tree true ex_cwd.
Definition ex_canon : path -> path := ccanon ex_tree true ex_cwd.
Definition ex_prog_of : list N -> option prog := fun b => assoc_bytes b ex_progs.
Definition ex_run (jpaths : list string) (main : string) : session * outcome value ierr :=
  run_concrete ex_tree true ex_cwd ex_progs 30 (map str_of jpaths) (str_of main).

Definition count_loaded (st : session) : nat :=
  length (filter (fun e => match e with EvLoaded _ _ _ => true | _ => false end) (s_log st)).
Definition eval_tags (st : session) : list str :=
  rev (flat_map (fun e => match e with EvEval _ t => [t] | _ => [] end) (s_log st)).
