(* Proofs/Import_proofs.v — lemmas about Model/Import.v (property C13). *)
From RJ Require Import Base.Outcome Model.Import.
From Coq Require Import Lia.
Local Open Scope N_scope.

(* ------------------------------------------------------------------ *)
(* strings                                                             *)

Lemma str_eqb_refl : forall s, str_eqb s s = true.
Proof. induction s as [|c s IH]; cbn; [reflexivity|]. rewrite N.eqb_refl, IH. reflexivity. Qed.

Lemma str_eqb_eq : forall a b, str_eqb a b = true <-> a = b.
Proof.
  induction a as [|x a IH]; destruct b as [|y b]; cbn; split; intros H; try reflexivity; try discriminate.
  - apply andb_true_iff in H. destruct H as [H1 H2]. apply N.eqb_eq in H1. apply IH in H2. subst. reflexivity.
  - inversion H; subst. rewrite N.eqb_refl. cbn. apply IH. reflexivity.
Qed.

(* ------------------------------------------------------------------ *)
(* first match of a mapped list                                        *)

Lemma find_map_some {A B} (f : B -> bool) (g : A -> B) (l : list A) (q : B) :
  find f (map g l) = Some q <->
  exists pre b post, l = pre ++ b :: post /\ q = g b /\ f (g b) = true /\
                     Forall (fun b' => f (g b') = false) pre.
Proof.
  induction l as [|a l IH]; cbn.
  - split; [discriminate|]. intros (pre & b & post & H & _). destruct pre; discriminate.
  - destruct (f (g a)) eqn:Ha.
    + split.
      * intros H. inversion H; subst. exists [], a, l. repeat split; auto.
      * intros (pre & b & post & Hl & Hq & Hb & Hpre).
        destruct pre as [|a' pre]; cbn in Hl; inversion Hl; subst.
        -- reflexivity.
        -- inversion Hpre; subst. congruence.
    + rewrite IH. split.
      * intros (pre & b & post & Hl & Hq & Hb & Hpre). exists (a :: pre), b, post.
        subst. repeat split; auto.
      * intros (pre & b & post & Hl & Hq & Hb & Hpre).
        destruct pre as [|a' pre]; cbn in Hl; inversion Hl; subst.
        -- congruence.
        -- inversion Hpre; subst. exists pre, b, post. repeat split; auto.
Qed.

Lemma find_map_none {A B} (f : B -> bool) (g : A -> B) (l : list A) :
  find f (map g l) = None <-> Forall (fun b => f (g b) = false) l.
Proof.
  induction l as [|a l IH]; cbn.
  - split; auto.
  - destruct (f (g a)) eqn:Ha.
    + split; [discriminate|]. intros H. inversion H; subst. congruence.
    + rewrite IH. split; intros H; [constructor; auto | inversion H; auto].
Qed.

Section WorldProofs.
  Variable fs : path -> node.
  Variable canon : path -> path.
  Variable prog_of : list N -> option prog.

  Notation exists_ := (exists_ fs).
  Notation find_import := (find_import fs).
  Notation load_real_file := (load_real_file fs canon prog_of).
  Notation cb_import := (cb_import fs canon prog_of).
  Notation cb_import_bin := (cb_import_bin fs).
  Notation cb_import_str := (cb_import_str fs).
  Notation eval_expr := (eval_expr fs canon prog_of).

  (* ---------------- search order ---------------- *)

  Theorem search_order : forall st from p q,
    is_absolute p = false ->
    (find_import st from p = Some q <->
     exists pre b post, bases st from = pre ++ b :: post /\ q = join b p /\
                        exists_ (join b p) = true /\
                        Forall (fun b' => exists_ (join b' p) = false) pre).
  Proof.
    intros st from p q Hrel. unfold Import.find_import. rewrite Hrel.
    unfold candidates. apply find_map_some.
  Qed.

  Theorem search_none : forall st from p,
    is_absolute p = false ->
    (find_import st from p = None <->
     Forall (fun b => exists_ (join b p) = false) (bases st from)).
  Proof.
    intros st from p Hrel. unfold Import.find_import. rewrite Hrel.
    unfold candidates. apply find_map_none.
  Qed.

  Theorem importer_dir_first : forall st from p d,
    is_absolute p = false ->
    from_dir st from = Some d ->
    exists_ (join d p) = true ->
    find_import st from p = Some (join d p).
  Proof.
    intros st from p d Hrel Hd He. apply search_order; [assumption|].
    exists [], d, (s_search st). unfold bases. rewrite Hd. repeat split; auto.
  Qed.

  (* the search paths are the -J options reversed: a later -J is tried earlier *)
  Theorem rightmost_J_wins : forall st from p l1 d l2,
    is_absolute p = false ->
    s_search st = rev (l1 ++ d :: l2) ->
    (forall d0, from_dir st from = Some d0 -> exists_ (join d0 p) = false) ->
    exists_ (join d p) = true ->
    Forall (fun d' => exists_ (join d' p) = false) l2 ->
    find_import st from p = Some (join d p).
  Proof.
    intros st from p l1 d l2 Hrel Hs Hfrom Hd Hl2. apply search_order; [assumption|].
    unfold bases. rewrite Hs, rev_app_distr. cbn [rev]. rewrite <- app_assoc. cbn [app].
    destruct (from_dir st from) as [d0|] eqn:Hfd.
    - exists (d0 :: rev l2), d, (rev l1). repeat split; auto.
      constructor; [apply Hfrom; reflexivity|].
      apply Forall_rev. assumption.
    - exists (rev l2), d, (rev l1). repeat split; auto. apply Forall_rev. assumption.
  Qed.

  Theorem absolute_bypass : forall st from p,
    is_absolute p = true ->
    find_import st from p = if exists_ p then Some p else None.
  Proof. intros st from p H. unfold Import.find_import. rewrite H. reflexivity. Qed.

  (* virtual sources (-e, stdin, --ext-code, --tla-code) have no importer directory *)
  Lemma virtual_no_importer_dir : forall st sid r,
    nthN (s_sources st) sid = Some (r, false) -> from_dir st (Some sid) = None.
  Proof. intros st sid r H. unfold from_dir. rewrite H. reflexivity. Qed.

  Theorem virtual_bases_are_search_paths : forall st sid r,
    nthN (s_sources st) sid = Some (r, false) -> bases st (Some sid) = s_search st.
  Proof. intros st sid r H. unfold bases. rewrite (virtual_no_importer_dir _ _ _ H). reflexivity. Qed.

  (* ... and still an absolute import needs no base directory at all: it resolves
     (or not) by its own existence, also with an empty search path list *)
  Theorem absolute_bypass_virtual : forall st sid r p,
    nthN (s_sources st) sid = Some (r, false) ->
    s_search st = [] ->
    is_absolute p = true ->
    find_import st (Some sid) p = if exists_ p then Some p else None.
  Proof. intros st sid r p _ _ H. apply absolute_bypass. assumption. Qed.

  Theorem virtual_relative_needs_J : forall st sid r p,
    nthN (s_sources st) sid = Some (r, false) ->
    s_search st = [] ->
    is_absolute p = false ->
    find_import st (Some sid) p = None.
  Proof.
    intros st sid r p Hv Hs Hrel. apply search_none; [assumption|].
    rewrite (virtual_bases_are_search_paths _ _ _ Hv), Hs. constructor.
  Qed.

  Theorem resolution_deterministic : forall st1 st2 from1 from2 p,
    s_search st1 = s_search st2 ->
    from_dir st1 from1 = from_dir st2 from2 ->
    find_import st1 from1 p = find_import st2 from2 p.
  Proof.
    intros st1 st2 from1 from2 p Hs Hf. unfold Import.find_import, candidates, bases.
    rewrite Hs, Hf. reflexivity.
  Qed.

  (* ---------------- cache ---------------- *)

  Lemma canonicalize_ok : forall p, exists_ p = true -> canonicalize fs canon p = inr (canon p).
  Proof.
    intros p H. unfold Import.exists_ in H. unfold canonicalize.
    destruct (fs p); try discriminate; reflexivity.
  Qed.

  Lemma load_ok_exists : forall st p st1 sid,
    load_real_file st p = (st1, inr sid) -> exists_ p = true.
  Proof.
    intros st p st1 sid H. unfold Import.load_real_file, canonicalize in H.
    unfold Import.exists_. destruct (fs p) eqn:Hfs; try reflexivity.
    - inversion H.
    - inversion H.
  Qed.

  Lemma load_ok_cached : forall st p st1 sid,
    load_real_file st p = (st1, inr sid) -> assoc_path (canon p) (s_cache st1) = Some sid.
  Proof.
    intros st p st1 sid H. pose proof (load_ok_exists _ _ _ _ H) as He.
    unfold Import.load_real_file in H. rewrite (canonicalize_ok _ He) in H.
    destruct (assoc_path (canon p) (s_cache st)) as [s|] eqn:Hc.
    - inversion H; subst. assumption.
    - destruct (read fs p) as [e|data]; [inversion H|].
      destruct (prog_of data); inversion H; subst. cbn. rewrite str_eqb_refl. reflexivity.
  Qed.

  (* two spellings with the same canonical path: the second load is a cache hit —
     no read, no new source, no new thunk, the session is unchanged *)
  Theorem cache_by_canonical : forall st p1 st1 sid p2,
    load_real_file st p1 = (st1, inr sid) ->
    exists_ p2 = true ->
    canon p2 = canon p1 ->
    load_real_file st1 p2 = (st1, inr sid).
  Proof.
    intros st p1 st1 sid p2 H1 He Hc. pose proof (load_ok_cached _ _ _ _ H1) as Hk.
    unfold Import.load_real_file. rewrite (canonicalize_ok _ He), Hc, Hk. reflexivity.
  Qed.

  (* std.thisFile / the importer directory: the spelling of the first load stays *)
  Theorem thisfile_is_as_loaded : forall st p1 st1 sid,
    load_real_file st p1 = (st1, inr sid) ->
    assoc_path (canon p1) (s_cache st) = None ->
    length (s_sources st) = length (s_thunks st) ->
    repr_path st1 sid = p1 /\
    forall p2 st2 sid2, exists_ p2 = true -> canon p2 = canon p1 ->
      load_real_file st1 p2 = (st2, inr sid2) -> sid2 = sid /\ repr_path st2 sid2 = p1.
  Proof.
    intros st p1 st1 sid H Hn Hlen. pose proof (load_ok_exists _ _ _ _ H) as He.
    assert (Hr : repr_path st1 sid = p1).
    { unfold Import.load_real_file in H. rewrite (canonicalize_ok _ He), Hn in H.
      destruct (read fs p1) as [e|data]; [inversion H|].
      destruct (prog_of data); inversion H; subst.
      unfold repr_path, nthN; cbn [s_sources]. rewrite app_length. cbn [length].
      destruct (N.leb_spec (N.of_nat (length (s_sources st) + 1)) (N.of_nat (length (s_sources st)))) as [Hle|Hlt]; [lia|].
      rewrite Nnat.Nat2N.id, nth_error_app2 by lia. rewrite PeanoNat.Nat.sub_diag. reflexivity. }
    split; [assumption|].
    intros p2 st2 sid2 He2 Hc H2. rewrite (cache_by_canonical _ _ _ _ _ H He2 Hc) in H2.
    inversion H2; subst. auto.
  Qed.

  (* ---------------- content delivery ---------------- *)

  Theorem importbin_exact : forall st from p q b,
    find_import st from p = Some q -> fs q = File b ->
    cb_import_bin st from p = (with_log st (EvRead q), inr b).
  Proof.
    intros st from p q b Hf Hq. unfold Import.cb_import_bin, read. rewrite Hf, Hq. reflexivity.
  Qed.

  Theorem importstr_is_lossy_decode : forall st from p q b,
    find_import st from p = Some q -> fs q = File b ->
    cb_import_str st from p = (with_log st (EvRead q), inr (lossy b)).
  Proof.
    intros st from p q b Hf Hq. unfold Import.cb_import_str.
    rewrite (importbin_exact _ _ _ _ _ Hf Hq). reflexivity.
  Qed.

  (* ---------------- failures are reported at the import site ---------------- *)

  Theorem missing_is_import_error_at_site : forall forcef st sid pos p,
    find_import st (Some sid) p = None ->
    let st' := with_log st (EvMsg WNotFound p) in
    let e := Err (ImportFailed WNotFound (repr_path st sid) pos p) in
    eval_expr forcef sid pos (IImport p) st = (st', e) /\
    eval_expr forcef sid pos (IImportStr p) st = (st', e) /\
    eval_expr forcef sid pos (IImportBin p) st = (st', e).
  Proof.
    intros forcef st sid pos p Hf. cbn.
    unfold Import.cb_import, Import.cb_import_str, Import.cb_import_bin. rewrite Hf. auto.
  Qed.

  (* a directory or an unreadable file where the search stops: the search does not
     go on to later candidates, the import fails at its site *)
  Theorem unreadable_is_import_error_at_site : forall forcef st sid pos p q,
    find_import st (Some sid) p = Some q ->
    (fs q = Dir \/ fs q = Unreadable) ->
    exists e,
      read fs q = inl e /\
      eval_expr forcef sid pos (IImportStr p) st =
        (with_log st (EvMsg (WRead e) q), Err (ImportFailed (WRead e) (repr_path st sid) pos p)) /\
      eval_expr forcef sid pos (IImportBin p) st =
        (with_log st (EvMsg (WRead e) q), Err (ImportFailed (WRead e) (repr_path st sid) pos p)) /\
      (assoc_path (canon q) (s_cache st) = None ->
       eval_expr forcef sid pos (IImport p) st =
        (with_log st (EvMsg (WRead e) q), Err (ImportFailed (WRead e) (repr_path st sid) pos p))).
  Proof.
    intros forcef st sid pos p q Hf Hq.
    assert (He : exists e, read fs q = inl e /\ exists_ q = true).
    { unfold read, Import.exists_. destruct Hq as [Hq|Hq]; rewrite Hq; eauto. }
    destruct He as (e & He & Hex). exists e. split; [assumption|].
    cbn. unfold Import.cb_import, Import.cb_import_str, Import.cb_import_bin. rewrite Hf, He.
    repeat split; auto.
    intros Hn. unfold Import.load_real_file. rewrite (canonicalize_ok _ Hex), Hn, He. reflexivity.
  Qed.
End WorldProofs.

(* resolution looks at the world only through the existence of the candidates *)
Theorem resolution_depends_only_on_existence : forall fs1 fs2 st from p,
  (forall q, In q (p :: candidates st from p) -> exists_ fs1 q = exists_ fs2 q) ->
  find_import fs1 st from p = find_import fs2 st from p.
Proof.
  intros fs1 fs2 st from p H. unfold find_import.
  destruct (is_absolute p).
  - rewrite (H p) by (left; reflexivity). reflexivity.
  - assert (Hc : forall q, In q (candidates st from p) -> exists_ fs1 q = exists_ fs2 q)
      by (intros q Hq; apply H; right; assumption).
    clear H. induction (candidates st from p) as [|c l IH]; cbn; [reflexivity|].
    rewrite (Hc c) by (left; reflexivity). destruct (exists_ fs2 c); [reflexivity|].
    apply IH. intros q Hq. apply Hc. right. assumption.
Qed.

(* ------------------------------------------------------------------ *)
(* whole-run invariants: every canonical path is loaded at most once,   *)
(* every file is evaluated at most once                                 *)

Definition loaded_cps (st : session) : list path :=
  flat_map (fun e => match e with EvLoaded _ cp _ => [cp] | _ => [] end) (s_log st).
Definition evaled (st : session) : list N :=
  flat_map (fun e => match e with EvEval sid _ => [sid] | _ => [] end) (s_log st).
Definition thunk (st : session) (sid : N) : option tstate := nthN (s_thunks st) sid.
Definition is_done (o : option tstate) : Prop := exists n l, o = Some (TDone n l).
Definition cached (st : session) (cp : path) : Prop := assoc_path cp (s_cache st) <> None.

Definition inv (st : session) : Prop :=
  NoDup (loaded_cps st) /\ NoDup (evaled st) /\
  (forall cp, In cp (loaded_cps st) -> cached st cp) /\
  (forall sid, In sid (evaled st) -> is_done (thunk st sid)).

Definition le (st st' : session) : Prop :=
  (forall cp, cached st cp -> cached st' cp) /\
  (forall x, is_done (thunk st x) -> is_done (thunk st' x)) /\
  (forall x, thunk st x = Some TInProgress ->
             thunk st' x = Some TInProgress /\ (In x (evaled st') -> In x (evaled st))).

Lemma le_refl : forall st, le st st.
Proof. intros st. repeat split; auto. Qed.

Lemma le_trans : forall a b c, le a b -> le b c -> le a c.
Proof.
  intros a b c (A1 & A2 & A3) (B1 & B2 & B3). repeat split; auto.
  - apply A3 in H. destruct H as [H _]. apply B3 in H. tauto.
  - intros Hc. pose proof (A3 _ H) as [Hb Hab]. pose proof (B3 _ Hb) as [_ Hbc]. auto.
Qed.

Definition good {X} (f : session -> session * X) : Prop :=
  forall st, inv st -> inv (fst (f st)) /\ le st (fst (f st)).

Lemma nthN_some_lt {A} (l : list A) i v : nthN l i = Some v -> (N.to_nat i < length l)%nat.
Proof.
  unfold nthN. destruct (N.leb_spec (N.of_nat (length l)) i); [discriminate|]. intros _. lia.
Qed.

Lemma nthN_app_some {A} (l l' : list A) i v : nthN l i = Some v -> nthN (l ++ l') i = Some v.
Proof.
  intros H. pose proof (nthN_some_lt _ _ _ H) as Hlt. unfold nthN in *.
  rewrite app_length.
  destruct (N.leb_spec (N.of_nat (length l)) i); [discriminate|].
  destruct (N.leb_spec (N.of_nat (length l + length l')) i); [lia|].
  rewrite nth_error_app1 by lia. assumption.
Qed.

Lemma set_nth_length {A} (l : list A) i x : length (set_nth l i x) = length l.
Proof. revert i. induction l; destruct i; cbn; auto. Qed.

Lemma nth_error_set_nth_same {A} (l : list A) i x :
  (i < length l)%nat -> nth_error (set_nth l i x) i = Some x.
Proof. revert i. induction l; destruct i; cbn; intros; try lia; auto. apply IHl. lia. Qed.

Lemma nth_error_set_nth_other {A} (l : list A) i j x :
  i <> j -> nth_error (set_nth l i x) j = nth_error l j.
Proof. revert i j. induction l; destruct i, j; cbn; intros; try congruence; auto. Qed.

Lemma nthN_setN_same {A} (l : list A) i x v : nthN l i = Some v -> nthN (setN l i x) i = Some x.
Proof.
  intros H. pose proof (nthN_some_lt _ _ _ H) as Hlt. unfold nthN, setN in *.
  destruct (N.leb_spec (N.of_nat (length l)) i); [discriminate|].
  rewrite set_nth_length.
  destruct (N.leb_spec (N.of_nat (length l)) i); [lia|].
  apply nth_error_set_nth_same. assumption.
Qed.

Lemma nthN_setN_other {A} (l : list A) i j x : i <> j -> nthN (setN l i x) j = nthN l j.
Proof.
  intros Hne. unfold nthN, setN.
  destruct (N.leb_spec (N.of_nat (length l)) i); [reflexivity|].
  rewrite set_nth_length.
  destruct (N.leb_spec (N.of_nat (length l)) j); [reflexivity|].
  apply nth_error_set_nth_other. lia.
Qed.

Lemma thunk_with_thunk_same : forall st sid t v,
  thunk st sid = Some v -> thunk (with_thunk st sid t) sid = Some t.
Proof. intros. unfold thunk in *. cbn. eapply nthN_setN_same; eauto. Qed.

Lemma thunk_with_thunk_other : forall st sid t x,
  x <> sid -> thunk (with_thunk st sid t) x = thunk st x.
Proof. intros. unfold thunk. cbn. apply nthN_setN_other. congruence. Qed.

(* log entries that are neither a load nor an evaluation *)
Definition quiet (e : event) : Prop :=
  match e with EvRead _ | EvMsg _ _ => True | _ => False end.

Lemma with_log_quiet : forall e, quiet e -> good (fun st => (with_log st e, tt)).
Proof.
  intros e He st Hi. cbn [fst].
  assert (Hl : loaded_cps (with_log st e) = loaded_cps st) by (destruct e; cbn in He; try tauto; reflexivity).
  assert (Hv : evaled (with_log st e) = evaled st) by (destruct e; cbn in He; try tauto; reflexivity).
  split.
  - destruct Hi as (I1 & I2 & I3 & I4). unfold inv. rewrite Hl, Hv. repeat split; auto.
  - unfold le. rewrite Hv. repeat split; auto.
Qed.

Ltac quiet_step :=
  cbn [fst];
  first [ apply (with_log_quiet (EvMsg _ _) I) | apply (with_log_quiet (EvRead _) I) ]; assumption.

Lemma good_fst {X Y} (f : session -> session * X) (g : session -> session * Y) :
  (forall st, fst (f st) = fst (g st)) -> good f -> good g.
Proof. intros H Hf st Hi. rewrite <- H. apply Hf. assumption. Qed.

(* replacing a thunk that is not in progress and not yet evaluated by a computed one,
   or a computed one by a computed one *)
Lemma with_thunk_done_done : forall st sid n l n' l',
  inv st -> thunk st sid = Some (TDone n l) ->
  inv (with_thunk st sid (TDone n' l')) /\ le st (with_thunk st sid (TDone n' l')).
Proof.
  intros st sid n l n' l' (I1 & I2 & I3 & I4) Hd.
  assert (Hsame := thunk_with_thunk_same st sid (TDone n' l') _ Hd).
  split.
  - repeat split; auto.
    intros x Hx. destruct (N.eq_dec x sid) as [->|Hne].
    + rewrite Hsame. eexists _, _. reflexivity.
    + rewrite thunk_with_thunk_other by assumption. apply I4. assumption.
  - repeat split; auto.
    + intros x Hx. destruct (N.eq_dec x sid) as [->|Hne].
      * rewrite Hsame. eexists _, _. reflexivity.
      * rewrite thunk_with_thunk_other by assumption. assumption.
    + destruct (N.eq_dec x sid) as [->|Hne]; [congruence|].
      rewrite thunk_with_thunk_other by assumption. assumption.
Qed.

Section InvProofs.
  Variable fs : path -> node.
  Variable canon : path -> path.
  Variable prog_of : list N -> option prog.

  Lemma load_good : forall p, good (fun st => load_real_file fs canon prog_of st p).
  Proof.
    intros p st Hi. unfold Import.load_real_file.
    destruct (canonicalize fs canon p) as [[]|cp].
    1-4: quiet_step.
    destruct (assoc_path cp (s_cache st)) as [sid|] eqn:Hc.
    { cbn. split; [assumption|apply le_refl]. }
    destruct (read fs p) as [e|data].
    { quiet_step. }
    destruct Hi as (I1 & I2 & I3 & I4).
    destruct (prog_of data) as [pr|]; cbn [fst].
    - split.
      + unfold inv, loaded_cps, evaled, cached, thunk; cbn [s_log s_cache s_thunks flat_map app].
        fold (loaded_cps st). fold (evaled st). repeat split.
        * constructor; [|assumption]. intros Hin. apply I3 in Hin. apply Hin. assumption.
        * assumption.
        * intros cp' [<-|Hin]; cbn; [rewrite str_eqb_refl; discriminate|].
          destruct (str_eqb cp' cp); [discriminate|]. apply I3. assumption.
        * intros x Hx. destruct (I4 _ Hx) as (n & l & Hd). exists n, l.
          apply nthN_app_some. assumption.
      + unfold le, cached, thunk, evaled; cbn [s_log s_cache s_thunks flat_map app]. fold (evaled st).
        repeat split.
        * intros cp' Hc'. cbn. destruct (str_eqb cp' cp); [discriminate|assumption].
        * intros x (n & l & Hd). exists n, l. apply nthN_app_some. assumption.
        * apply nthN_app_some. assumption.
        * auto.
    - split.
      + unfold inv, loaded_cps, evaled, cached, thunk; cbn [s_log s_cache s_thunks flat_map app].
        fold (loaded_cps st). fold (evaled st). repeat split; auto.
        intros x Hx. destruct (I4 _ Hx) as (n & l & Hd). exists n, l.
        apply nthN_app_some. assumption.
      + unfold le, cached, thunk, evaled; cbn [s_log s_cache s_thunks flat_map app]. fold (evaled st).
        repeat split; auto.
        * intros x (n & l & Hd). exists n, l. apply nthN_app_some. assumption.
        * apply nthN_app_some. assumption.
  Qed.

  Lemma load_virt_good : forall repr data, good (fun st => load_virt_file prog_of st repr data).
  Proof.
    intros repr data st (I1 & I2 & I3 & I4). unfold load_virt_file.
    destruct (prog_of data) as [pr|]; cbn [fst].
    - split.
      + unfold inv, loaded_cps, evaled, cached, thunk; cbn [s_log s_cache s_thunks].
        fold (loaded_cps st). fold (evaled st). repeat split; auto.
        intros x Hx. destruct (I4 _ Hx) as (n & l & Hd). exists n, l. apply nthN_app_some. assumption.
      + unfold le, cached, thunk, evaled; cbn [s_log s_cache s_thunks]. fold (evaled st).
        repeat split; auto.
        * intros x (n & l & Hd). exists n, l. apply nthN_app_some. assumption.
        * apply nthN_app_some. assumption.
    - split.
      + unfold inv, loaded_cps, evaled, cached, thunk; cbn [s_log s_cache s_thunks flat_map app].
        fold (loaded_cps st). fold (evaled st). repeat split; auto.
        intros x Hx. destruct (I4 _ Hx) as (n & l & Hd). exists n, l. apply nthN_app_some. assumption.
      + unfold le, cached, thunk, evaled; cbn [s_log s_cache s_thunks flat_map app]. fold (evaled st).
        repeat split; auto.
        * intros x (n & l & Hd). exists n, l. apply nthN_app_some. assumption.
        * apply nthN_app_some. assumption.
  Qed.

  Lemma cb_import_good : forall from p, good (fun st => cb_import fs canon prog_of st from p).
  Proof.
    intros from p st Hi. unfold Import.cb_import.
    destruct (find_import fs st from p).
    - apply load_good. assumption.
    - quiet_step.
  Qed.

  Lemma cb_import_bin_good : forall from p, good (fun st => cb_import_bin fs st from p).
  Proof.
    intros from p st Hi. unfold Import.cb_import_bin.
    destruct (find_import fs st from p) as [q|].
    - destruct (read fs q); quiet_step.
    - quiet_step.
  Qed.

  Lemma cb_import_str_good : forall from p, good (fun st => cb_import_str fs st from p).
  Proof.
    intros from p st Hi. unfold Import.cb_import_str.
    pose proof (cb_import_bin_good from p st Hi) as H.
    destruct (cb_import_bin fs st from p) as [st' [w|d]]; exact H.
  Qed.

  Lemma eval_expr_good : forall forcef sid pos e,
    (forall s, good (forcef s)) -> good (eval_expr fs canon prog_of forcef sid pos e).
  Proof.
    intros forcef sid pos e Hf st Hi. destruct e; cbn.
    - pose proof (cb_import_good (Some sid) p st Hi) as H.
      destruct (cb_import fs canon prog_of st (Some sid) p) as [st' [w|sid']]; cbn [fst] in *; [exact H|].
      destruct H as [H1 H2]. pose proof (Hf sid' st' H1) as [H3 H4].
      destruct (forcef sid' st') as [st'' []]; cbn [fst] in *; split; eauto using le_trans.
    - pose proof (cb_import_str_good (Some sid) p st Hi) as H.
      destruct (cb_import_str fs st (Some sid) p) as [st' [w|d]]; exact H.
    - pose proof (cb_import_bin_good (Some sid) p st Hi) as H.
      destruct (cb_import_bin fs st (Some sid) p) as [st' [w|d]]; exact H.
    - split; [assumption|apply le_refl].
    - split; [assumption|apply le_refl].
  Qed.

  Lemma eval_strict_good : forall forcef sid es pos,
    (forall s, good (forcef s)) -> good (eval_strict fs canon prog_of forcef sid pos es).
  Proof.
    intros forcef sid es. induction es as [|e es IH]; intros pos Hf st Hi; cbn.
    - split; [assumption|apply le_refl].
    - pose proof (eval_expr_good forcef sid pos e Hf st Hi) as [H1 H2].
      destruct (eval_expr fs canon prog_of forcef sid pos e st) as [st' []]; cbn [fst] in *; auto.
      pose proof (IH (pos + 1) Hf st' H1) as [H3 H4]. split; eauto using le_trans.
  Qed.

  Lemma force_good : forall fuel sid, good (force fs canon prog_of fuel sid).
  Proof.
    induction fuel as [|f IH]; intros sid st Hi; cbn.
    - split; [assumption|apply le_refl].
    - fold (thunk st sid). destruct (thunk st sid) as [[|pr| |n l]|] eqn:Ht; cbn [fst];
        try (split; [assumption|apply le_refl]).
      (* Pending *)
      set (st0 := with_thunk st sid TInProgress).
      assert (Hsame0 : thunk st0 sid = Some TInProgress) by (eapply thunk_with_thunk_same; eauto).
      assert (Hoth0 : forall x, x <> sid -> thunk st0 x = thunk st x)
        by (intros; apply thunk_with_thunk_other; assumption).
      destruct Hi as (I1 & I2 & I3 & I4).
      assert (Hnotin : ~ In sid (evaled st)).
      { intros Hin. destruct (I4 _ Hin) as (n & l & Hd). congruence. }
      assert (Hi0 : inv st0).
      { repeat split; auto. intros x Hx. destruct (N.eq_dec x sid) as [->|Hne]; [tauto|].
        rewrite Hoth0 by assumption. apply I4. assumption. }
      assert (Hle0 : le st st0).
      { repeat split; auto.
        - intros x Hx. destruct (N.eq_dec x sid) as [->|Hne].
          + destruct Hx as (n & l & Hd). congruence.
          + rewrite Hoth0 by assumption. assumption.
        - destruct (N.eq_dec x sid) as [->|Hne]; [congruence|]. rewrite Hoth0 by assumption. assumption. }
      pose proof (eval_strict_good (force fs canon prog_of f) sid (p_strict pr) 0 IH st0 Hi0) as [H1 H2].
      destruct (eval_strict fs canon prog_of (force fs canon prog_of f) sid 0 (p_strict pr) st0) as [st' r].
      cbn [fst] in H1, H2.
      destruct r; cbn [fst]; try (split; [assumption|eapply le_trans; eauto]).
      (* strict part succeeded: the file's value is computed now *)
      destruct H2 as (L1 & L2 & L3). destruct (L3 _ Hsame0) as [Hprog Hev].
      assert (Hnotin' : ~ In sid (evaled st')) by (intros Hin; apply Hnotin, Hev, Hin).
      set (st1 := with_log st' (EvEval sid (p_tag pr))).
      set (t := TDone (N.of_nat (length (p_strict pr))) (map ELazy (p_items pr))).
      assert (Ht1 : thunk st1 sid = Some TInProgress) by exact Hprog.
      assert (Hsame : thunk (with_thunk st1 sid t) sid = Some t) by (eapply thunk_with_thunk_same; eauto).
      assert (Hoth : forall x, x <> sid -> thunk (with_thunk st1 sid t) x = thunk st' x)
        by (intros; rewrite thunk_with_thunk_other by assumption; reflexivity).
      destruct H1 as (J1 & J2 & J3 & J4).
      split.
      + unfold inv. change (loaded_cps (with_thunk st1 sid t)) with (loaded_cps st').
        change (evaled (with_thunk st1 sid t)) with (sid :: evaled st').
        repeat split; auto.
        * constructor; assumption.
        * intros x [<-|Hx].
          -- rewrite Hsame. eexists _, _. reflexivity.
          -- destruct (N.eq_dec x sid) as [->|Hne]; [tauto|]. rewrite Hoth by assumption. apply J4. assumption.
      + unfold le. change (evaled (with_thunk st1 sid t)) with (sid :: evaled st').
        destruct Hle0 as (M1 & M2 & M3).
        repeat split.
        * intros cp Hc. apply L1, M1, Hc.
        * intros x Hx. destruct (N.eq_dec x sid) as [->|Hne].
          -- rewrite Hsame. eexists _, _. reflexivity.
          -- rewrite Hoth by assumption. apply L2, M2, Hx.
        * destruct (N.eq_dec x sid) as [->|Hne]; [congruence|].
          rewrite Hoth by assumption. apply L3. apply M3. assumption.
        * intros [<-|Hin]; [congruence|].
          destruct (N.eq_dec x sid) as [->|Hne]; [congruence|].
          pose proof (M3 _ H) as [Hx0 Hx0e]. pose proof (L3 _ Hx0) as [_ Hx1]. auto.
  Qed.

  Lemma manifest_items_good : forall forcef manifestf sid nstrict k j acc,
    (forall s, good (forcef s)) -> (forall s, good (manifestf s)) ->
    good (manifest_items fs canon prog_of forcef manifestf sid nstrict k j acc).
  Proof.
    intros forcef manifestf sid nstrict k. induction k as [|k IH]; intros j acc Hf Hm st Hi; cbn.
    - split; [assumption|apply le_refl].
    - destruct (items_of st sid) as [[n0 items]|] eqn:Hit; [|split; [assumption|apply le_refl]].
      destruct (nthN items j) as [it|]; [|split; [assumption|apply le_refl]].
      (* the element's evaluation step, as one good step *)
      assert (Hstep : forall r,
        r = (match it with
             | EDone v => (st, Ok v)
             | ELazy e =>
                 match eval_expr fs canon prog_of forcef sid (nstrict + j) e st with
                 | (st', Ok v) =>
                     (match items_of st' sid with
                      | Some (_, items') => with_thunk st' sid (TDone nstrict (setN items' j (EDone v)))
                      | None => st'
                      end, Ok v)
                 | other => other
                 end
             end) -> inv (fst r) /\ le st (fst r)).
      { intros r ->. destruct it as [e|v]; [|split; [assumption|apply le_refl]].
        pose proof (eval_expr_good forcef sid (nstrict + j) e Hf st Hi) as [H1 H2].
        destruct (eval_expr fs canon prog_of forcef sid (nstrict + j) e st) as [st' []]; cbn [fst] in *; auto.
        destruct (items_of st' sid) as [[n1 items']|] eqn:Hit'; auto.
        unfold items_of in Hit'. fold (thunk st' sid) in Hit'.
        destruct (thunk st' sid) as [[| | |n2 l2]|] eqn:Ht'; try discriminate.
        pose proof (with_thunk_done_done st' sid n2 l2 nstrict (setN items' j (EDone a)) H1 Ht') as [H3 H4].
        split; eauto using le_trans. }
      match goal with |- context [match ?R with (st1, _) => _ end] => specialize (Hstep R eq_refl); destruct R as [st1 r1] end.
      cbn [fst] in Hstep. destruct Hstep as [H1 H2].
      destruct r1 as [[s|b|sid']| | |]; try (split; assumption).
      + pose proof (IH (j + 1) (VStr s :: acc) Hf Hm st1 H1) as [H3 H4]. split; eauto using le_trans.
      + pose proof (IH (j + 1) (VBytes b :: acc) Hf Hm st1 H1) as [H3 H4]. split; eauto using le_trans.
      + pose proof (Hm sid' st1 H1) as [H3 H4].
        destruct (manifestf sid' st1) as [st2 [a| | |]]; cbn [fst] in *;
          [|split; [assumption|eapply le_trans; eassumption] ..].
        pose proof (IH (j + 1) (a :: acc) Hf Hm st2 H3) as [H5 H6].
        split; [assumption|]. eapply le_trans; [eassumption|]. eapply le_trans; eassumption.
  Qed.

  Lemma manifest_good : forall fuel sid, good (manifest fs canon prog_of fuel sid).
  Proof.
    induction fuel as [|f IH]; intros sid st Hi; cbn.
    - split; [assumption|apply le_refl].
    - destruct (items_of st sid) as [[n items]|]; [|split; [assumption|apply le_refl]].
      apply manifest_items_good; auto. intros s. apply force_good.
  Qed.

  Lemma inv_new : forall search, inv (new_session search).
  Proof. intros. repeat split; cbn; try constructor; intros; contradiction. Qed.

  Lemma run_main_inv : forall fuel jpaths main,
    inv (fst (run_main fs canon prog_of fuel jpaths main)).
  Proof.
    intros fuel jpaths main. unfold run_main.
    pose proof (load_good main (cli_session jpaths) (inv_new _)) as [H1 _].
    destruct (load_real_file fs canon prog_of (cli_session jpaths) main) as [st [w|sid]]; cbn [fst] in *; [assumption|].
    pose proof (force_good fuel sid st H1) as [H2 _].
    destruct (force fs canon prog_of fuel sid st) as [st' []]; cbn [fst] in *; try assumption.
    apply manifest_good. assumption.
  Qed.

  Lemma run_virtual_inv : forall fuel jpaths repr data,
    inv (fst (run_virtual fs canon prog_of fuel jpaths repr data)).
  Proof.
    intros fuel jpaths repr data. unfold run_virtual.
    pose proof (load_virt_good repr data (cli_session jpaths) (inv_new _)) as [H1 _].
    destruct (load_virt_file prog_of (cli_session jpaths) repr data) as [st [w|sid]]; cbn [fst] in *; [assumption|].
    pose proof (force_good fuel sid st H1) as [H2 _].
    destruct (force fs canon prog_of fuel sid st) as [st' []]; cbn [fst] in *; try assumption.
    apply manifest_good. assumption.
  Qed.

  (* in every run, whatever the tree, the options and the outcome: no canonical
     path is loaded twice and no file is evaluated twice *)
  Theorem loaded_once : forall fuel jpaths main,
    NoDup (loaded_cps (fst (run_main fs canon prog_of fuel jpaths main))).
  Proof. intros. apply run_main_inv. Qed.

  Theorem evaluated_once : forall fuel jpaths main,
    NoDup (evaled (fst (run_main fs canon prog_of fuel jpaths main))).
  Proof. intros. apply run_main_inv. Qed.

  Theorem once_virtual : forall fuel jpaths repr data,
    let st := fst (run_virtual fs canon prog_of fuel jpaths repr data) in
    NoDup (loaded_cps st) /\ NoDup (evaled st).
  Proof. intros. pose proof (run_virtual_inv fuel jpaths repr data) as (H1 & H2 & _). split; assumption. Qed.
End InvProofs.

(* ------------------------------------------------------------------ *)
(* importstr on well-formed UTF-8 is the exact text                     *)

Ltac Zify.zify_post_hook ::= Z.to_euclidean_division_equations.

Ltac hyps :=
  repeat match goal with
  | H : (_ <? _) = true |- _ => apply N.ltb_lt in H
  | H : (_ <? _) = false |- _ => apply N.ltb_ge in H
  | H : (_ || _) = true |- _ => apply orb_true_iff in H
  | H : (_ && _) = true |- _ => apply andb_true_iff in H
  end.
Ltac tr := unfold is_cont; unfold in_rng; repeat rewrite ?andb_true_iff, ?N.leb_le, ?N.ltb_ge, ?N.ltb_lt, ?N.eqb_neq, ?N.eqb_eq; lia.

Lemma lossy_enc1 : forall c rest, is_scalar c = true ->
  lossy (utf8_enc1 c ++ rest) = c :: lossy rest.
Proof.
  intros c rest Hs.
  assert (Hs' : c < 55296 \/ (57343 < c /\ c < 1114112)).
  { unfold is_scalar in Hs. apply orb_true_iff in Hs. destruct Hs as [Hs|Hs].
    - left. apply N.ltb_lt. exact Hs.
    - right. apply andb_true_iff in Hs. destruct Hs as [A B].
      apply N.ltb_lt in A. apply N.ltb_lt in B. split; assumption. }
  clear Hs. unfold utf8_enc1.
  destruct (c <? 128) eqn:H1.
  { cbn [app lossy]. rewrite H1. reflexivity. }
  destruct (c <? 2048) eqn:H2.
  { cbn [app lossy]. hyps. clear Hs'.
    assert (E1 : (192 + c / 64 <? 128) = false) by tr.
    assert (E2 : in_rng 194 223 (192 + c / 64) = true) by tr.
    assert (E3 : is_cont (128 + c mod 64) = true) by tr.
    rewrite E1, E2, E3. f_equal. lia. }
  destruct (c <? 65536) eqn:H3.
  { cbn [app lossy]. hyps. destruct Hs' as [Hs'|[Hs' Hs'']].
    all: assert (E1 : (224 + c / 4096 <? 128) = false) by tr.
    all: assert (E2 : in_rng 194 223 (224 + c / 4096) = false)
      by (unfold in_rng; apply andb_false_iff; right; apply N.leb_gt; lia).
    all: assert (E3 : in_rng 224 239 (224 + c / 4096) = true) by tr.
    all: assert (E5 : is_cont (128 + c mod 64) = true) by tr.
    all: rewrite E1, E2, E3.
    all: assert (E4 : in_rng (if 224 + c / 4096 =? 224 then 160 else 128)
                        (if 224 + c / 4096 =? 237 then 159 else 191) (128 + (c / 64) mod 64) = true)
      by (destruct (224 + c / 4096 =? 224) eqn:A; [apply N.eqb_eq in A|apply N.eqb_neq in A];
          (destruct (224 + c / 4096 =? 237) eqn:B; [apply N.eqb_eq in B|apply N.eqb_neq in B]);
          unfold in_rng; apply andb_true_iff; split; apply N.leb_le; lia).
    all: rewrite E4, E5; f_equal; lia. }
  cbn [app lossy]. hyps. destruct Hs' as [Hs'|[Hs' Hs'']]; [lia|].
  assert (E1 : (240 + c / 262144 <? 128) = false) by tr.
  assert (E2 : in_rng 194 223 (240 + c / 262144) = false)
    by (unfold in_rng; apply andb_false_iff; right; apply N.leb_gt; lia).
  assert (E3 : in_rng 224 239 (240 + c / 262144) = false)
    by (unfold in_rng; apply andb_false_iff; right; apply N.leb_gt; lia).
  assert (E3' : in_rng 240 244 (240 + c / 262144) = true) by tr.
  assert (E5 : is_cont (128 + (c / 64) mod 64) = true) by tr.
  assert (E6 : is_cont (128 + c mod 64) = true) by tr.
  rewrite E1, E2, E3, E3'.
  assert (E4 : in_rng (if 240 + c / 262144 =? 240 then 144 else 128)
                      (if 240 + c / 262144 =? 244 then 143 else 191) (128 + (c / 4096) mod 64) = true).
  { destruct (240 + c / 262144 =? 240) eqn:A; [apply N.eqb_eq in A|apply N.eqb_neq in A];
      (destruct (240 + c / 262144 =? 244) eqn:B; [apply N.eqb_eq in B|apply N.eqb_neq in B]);
      unfold in_rng; apply andb_true_iff; split; apply N.leb_le; lia. }
  rewrite E4, E5, E6. f_equal. lia.
Qed.

Theorem lossy_of_valid_utf8 : forall s, forallb is_scalar s = true -> lossy (utf8_enc s) = s.
Proof.
  induction s as [|c s IH]; cbn [forallb utf8_enc flat_map]; intros H; [reflexivity|].
  apply andb_true_iff in H. destruct H as [Hc Hs].
  rewrite lossy_enc1 by assumption. f_equal. apply IH. assumption.
Qed.

(* ------------------------------------------------------------------ *)
(* a small concrete world for the non-vacuity examples of Props/C13.v  *)

Definition str_of (s : string) : str :=
  map (fun a => N.of_nat (Ascii.nat_of_ascii a)) (list_ascii_of_string s).

(*  /R/main.jsonnet  /R/x.libsonnet  /R/d.txt  /R/a/y.libsonnet  /R/a/d.txt
    /R/b/y.libsonnet  /R/b/lx -> ../x.libsonnet  /R/dirx.libsonnet/ (a directory)
    /R/c1.libsonnet <-> /R/c2.libsonnet (strict import cycle) *)
Definition ex_tree : cfs :=
  let R := str_of "R" in
  [ ([R], CDir true);
    ([R; str_of "main.jsonnet"], CFile (str_of "M") true);
    ([R; str_of "x.libsonnet"], CFile (str_of "X") true);
    ([R; str_of "d.txt"], CFile [104; 255; 105; 195; 169] true);
    ([R; str_of "a"], CDir true);
    ([R; str_of "a"; str_of "y.libsonnet"], CFile (str_of "YA") true);
    ([R; str_of "a"; str_of "d.txt"], CFile [1; 2] true);
    ([R; str_of "b"], CDir true);
    ([R; str_of "b"; str_of "y.libsonnet"], CFile (str_of "YB") true);
    ([R; str_of "b"; str_of "lx"], CLink (str_of "../x.libsonnet"));
    ([R; str_of "dirx.libsonnet"], CDir true);
    ([R; str_of "c1.libsonnet"], CFile (str_of "C1") true);
    ([R; str_of "c2.libsonnet"], CFile (str_of "C2") true);
    ([R; str_of "m2.jsonnet"], CFile (str_of "M2") true);
    ([R; str_of "m3.jsonnet"], CFile (str_of "M3") true) ].

Definition ex_progs : list (list N * prog) :=
  [ (str_of "M", {| p_tag := str_of "main"; p_strict := [];
                    p_items := [ILit (str_of "main"); IThisFile;
                                IImport (str_of "x.libsonnet");
                                IImport (str_of "./x.libsonnet");
                                IImport (str_of "a/../x.libsonnet");
                                IImport (str_of "b/lx");
                                IImport (str_of "y.libsonnet");
                                IImportStr (str_of "d.txt");
                                IImportBin (str_of "d.txt");
                                IImportBin (str_of "/R/a/d.txt")] |});
    (str_of "X", {| p_tag := str_of "x"; p_strict := []; p_items := [ILit (str_of "x"); IThisFile] |});
    (str_of "YA", {| p_tag := str_of "ya"; p_strict := []; p_items := [ILit (str_of "ya"); IThisFile] |});
    (str_of "YB", {| p_tag := str_of "yb"; p_strict := []; p_items := [ILit (str_of "yb"); IThisFile; IImportBin (str_of "d.txt")] |});
    (str_of "C1", {| p_tag := str_of "c1"; p_strict := [IImport (str_of "c2.libsonnet")]; p_items := [] |});
    (str_of "C2", {| p_tag := str_of "c2"; p_strict := [IImport (str_of "c1.libsonnet")]; p_items := [] |});
    (str_of "M2", {| p_tag := str_of "m2"; p_strict := []; p_items := [ILit (str_of "m2"); IImport (str_of "nope.libsonnet")] |});
    (str_of "M3", {| p_tag := str_of "m3"; p_strict := [IImport (str_of "c1.libsonnet")]; p_items := [] |}) ].

Definition ex_cwd : list str := [str_of "R"].
Definition ex_fs : path -> node := cnode ex_tree true ex_cwd.
Definition ex_canon : path -> path := ccanon ex_tree true ex_cwd.
Definition ex_prog_of : list N -> option prog := fun b => assoc_bytes b ex_progs.
Definition ex_run (jpaths : list string) (main : string) : session * outcome value ierr :=
  run_concrete ex_tree true ex_cwd ex_progs 30 (map str_of jpaths) (str_of main).

(* the same world entered through a virtual source: rsjsonnet -e '<V>' *)
Definition ex_vprog : prog :=
  {| p_tag := str_of "v"; p_strict := [];
     p_items := [IThisFile; IImportBin (str_of "/R/a/d.txt"); IImport (str_of "/R/x.libsonnet")] |}.
Definition ex_vprog_rel : prog :=
  {| p_tag := str_of "v"; p_strict := []; p_items := [IThisFile; IImport (str_of "x.libsonnet")] |}.
Definition ex_run_virtual (jpaths : list string) (pr : prog) : session * outcome value ierr :=
  run_concrete_virtual ex_tree true ex_cwd ((str_of "V", pr) :: ex_progs) 30 (map str_of jpaths)
                       (str_of "<cmdline>") (str_of "V").

Definition count_loaded (st : session) : nat :=
  length (filter (fun e => match e with EvLoaded _ _ _ => true | _ => false end) (s_log st)).
Definition eval_tags (st : session) : list str :=
  rev (flat_map (fun e => match e with EvEval _ t => [t] | _ => [] end) (s_log st)).
