(* Proofs/Base64_arith_proofs.v — alphabet and byte arithmetic of Model/Base64.v by finite enumeration *)
From RJ Require Import Base.Outcome Base.F64 Model.Base64.
From Coq Require Import Lia.
Local Open Scope N_scope.

(* ---- finite enumeration ---------------------------------------------------- *)

Definition nrange (n : nat) : list N := map N.of_nat (seq 0 n).

Lemma nrange_in (n : nat) (x : N) : x < N.of_nat n -> In x (nrange n).
Proof.
  intros H. unfold nrange. apply in_map_iff. exists (N.to_nat x). split.
  - apply N2Nat.id.
  - apply in_seq. lia.
Qed.

Lemma forallb_nrange (P : N -> bool) (n : nat) :
  forallb P (nrange n) = true -> forall x, x < N.of_nat n -> P x = true.
Proof. intros H x Hx. rewrite forallb_forall in H. apply H, nrange_in, Hx. Qed.

(* ---- alphabet -------------------------------------------------------------- *)

Definition in_alpha (c : N) : bool :=
  ((65 <=? c) && (c <=? 90)) || ((97 <=? c) && (c <=? 122)) || ((48 <=? c) && (c <=? 57))
  || (c =? 43) || (c =? 47).

Definition idx_ok (i : N) : bool :=
  match chr_to_index (encmap i) with Ok j => (j =? i) && in_alpha (encmap i) && negb (encmap i =? pad) | _ => false end.

Lemma idx_all : forall i, i < 64 -> idx_ok i = true.
Proof. apply (forallb_nrange idx_ok 64). vm_compute. reflexivity. Qed.

Lemma chr_encmap i : i < 64 -> chr_to_index (encmap i) = Ok i.
Proof.
  intros H. pose proof (idx_all i H) as E. unfold idx_ok in E.
  destruct (chr_to_index (encmap i)) as [j| | |]; try discriminate.
  apply andb_prop in E. destruct E as [E _]. apply andb_prop in E. destruct E as [E _].
  apply N.eqb_eq in E. now subst.
Qed.

Lemma encmap_alpha i : i < 64 -> in_alpha (encmap i) = true.
Proof.
  intros H. pose proof (idx_all i H) as E. unfold idx_ok in E.
  destruct (chr_to_index (encmap i)); try discriminate.
  apply andb_prop in E. destruct E as [E _]. apply andb_prop in E. now destruct E.
Qed.

Lemma encmap_not_pad i : i < 64 -> (encmap i =? pad) = false.
Proof.
  intros H. pose proof (idx_all i H) as E. unfold idx_ok in E.
  destruct (chr_to_index (encmap i)); try discriminate.
  apply andb_prop in E. destruct E as [_ E]. now apply negb_true_iff in E.
Qed.

Lemma chr_to_index_alpha c : is_ok (chr_to_index c) = in_alpha c.
Proof.
  unfold chr_to_index, in_alpha.
  destruct ((65 <=? c) && (c <=? 90)); [reflexivity|].
  destruct ((97 <=? c) && (c <=? 122)); [reflexivity|].
  destruct ((48 <=? c) && (c <=? 57)); [reflexivity|].
  destruct (c =? 43); [reflexivity|].
  destruct (c =? 47); reflexivity.
Qed.

Lemma pad_not_alpha : in_alpha pad = false.
Proof. reflexivity. Qed.

(* ---- byte arithmetic by enumeration ---------------------------------------- *)

Definition byte0_ok (b0 b1 : N) : bool :=
  (N.lor (u8 ((b0 / 4) * 4)) (((b0 mod 4) * 16 + b1 / 16) / 16) =? b0)
  && (b0 / 4 <? 64) && ((b0 mod 4) * 16 + b1 / 16 <? 64).
Definition byte0_ok1 (b0 : N) : bool :=
  (N.lor (u8 ((b0 / 4) * 4)) (((b0 mod 4) * 16) / 16) =? b0) && ((b0 mod 4) * 16 <? 64).
Definition byte1_ok (a b c : N) : bool :=
  (N.lor (u8 ((a * 16 + b / 16) * 16)) (((b mod 16) * 4 + c) / 4) =? b) && ((b mod 16) * 4 + c <? 64).
Definition byte2_ok (d b : N) : bool :=
  (N.lor (u8 ((d * 4 + b / 64) * 64)) (b mod 64) =? b) && (b mod 64 <? 64).

Lemma byte0_all : forall b0 b1, b0 < 256 -> b1 < 256 -> byte0_ok b0 b1 = true.
Proof.
  intros b0 b1 H0 H1.
  assert (A : forallb (fun x => forallb (byte0_ok x) (nrange 256)) (nrange 256) = true) by (vm_compute; reflexivity).
  pose proof (forallb_nrange _ 256 A b0 H0) as B. exact (forallb_nrange _ 256 B b1 H1).
Qed.
Lemma byte0_all1 : forall b0, b0 < 256 -> byte0_ok1 b0 = true.
Proof. apply (forallb_nrange byte0_ok1 256). vm_compute. reflexivity. Qed.
Lemma byte1_all : forall a b c, a < 4 -> b < 256 -> c < 4 -> byte1_ok a b c = true.
Proof.
  intros a b c Ha Hb Hc.
  assert (A : forallb (fun x => forallb (fun y => forallb (byte1_ok x y) (nrange 4)) (nrange 256)) (nrange 4) = true)
    by (vm_compute; reflexivity).
  pose proof (forallb_nrange _ 4 A a Ha) as B. pose proof (forallb_nrange _ 256 B b Hb) as C.
  exact (forallb_nrange _ 4 C c Hc).
Qed.
Lemma byte2_all : forall d b, d < 16 -> b < 256 -> byte2_ok d b = true.
Proof.
  intros d b Hd Hb.
  assert (A : forallb (fun x => forallb (byte2_ok x) (nrange 256)) (nrange 16) = true) by (vm_compute; reflexivity).
  pose proof (forallb_nrange _ 16 A d Hd) as B. exact (forallb_nrange _ 256 B b Hb).
Qed.

