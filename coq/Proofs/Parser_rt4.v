(* Proofs/Parser_rt4.v — round trip: object bodies (members, comprehensions) *)
From RJ Require Import Base.Outcome Model.Token Model.Ast Model.Parser Model.Print
  Proofs.Parser_rt Proofs.Parser_rt2 Proofs.Parser_rt3.
From Coq Require Import Lia.
Local Open Scope list_scope.
Local Open Scope N_scope.

(* the two halves of one iteration of parse_obj_inside's loop, as in Model/Parser.v *)
Definition obj_chain (pexpr : P expr) (lf : nat) (members : list member) (can_be_comp has_dyn : bool)
  : P (list member * bool * bool) :=
  IFLET l <== maybe_parse_obj_local pexpr lf THEN ret (members ++ [MLocal l], can_be_comp, has_dyn) ELSE
  IFLET fld <== maybe_parse_field pexpr lf THEN
    (match fld with
     | FValue (FnExpr _ _) _ VisDefault _ =>
         if has_dyn then ret (members ++ [MField fld], false, has_dyn)
         else ret (members ++ [MField fld], can_be_comp, true)
     | _ => ret (members ++ [MField fld], false, has_dyn)
     end) ELSE
  IFLET '(_, a) <== maybe_parse_assert pexpr true THEN ret (members ++ [MAssert a], false, has_dyn) ELSE
  report_expected.

Definition obj_cont (pexpr : P expr) (lf f : nat) (members : list member) (can_be_comp has_dyn : bool)
  : P (obj_inside * span) :=
  IFLET e <== eat_simple SRightBrace true THEN ret (OMembers members, e) ELSE
  IFLET _ <== eat_simple SComma true THEN
    (IFLET e <== eat_simple SRightBrace true THEN ret (OMembers members, e) ELSE
     if can_be_comp && has_dyn then
       (IFLET r <== comp_tail pexpr lf members THEN ret r ELSE obj_loop pexpr lf f members can_be_comp has_dyn)
     else obj_loop pexpr lf f members can_be_comp has_dyn)
  ELSE
    if can_be_comp && has_dyn then
      (IFLET r <== comp_tail pexpr lf members THEN ret r ELSE report_expected)
    else report_expected.

Lemma obj_loop_unfold pexpr lf f members cbc hd :
  obj_loop pexpr lf (S f) members cbc hd =
  bindP (obj_chain pexpr lf members cbc hd)
        (fun x => match x with (members', cbc', hd') => obj_cont pexpr lf f members' cbc' hd' end).
Proof. reflexivity. Qed.

Lemma app_eq_cons_l {A} (l : list A) c r t : l = c :: r -> l ++ t = c :: (r ++ t).
Proof. intros ->. reflexivity. Qed.

Lemma core_bind_bcore b : core_bind b = bcore b.
Proof. destruct b as [nm [[l sp]|] v]; reflexivity. Qed.

Lemma run_app_head {A} (m : P (option A)) l c r t : l = c :: r ->
  (forall t', run m (c :: t') None (c :: t')) -> run m (l ++ t) None (l ++ t).
Proof. intros -> H. cbn [app]. apply H. Qed.

(* ---- object comprehensions: the member list the parser sees, and make_comp on it *)
Definition comp_field (name : expr) (plus : bool) (body : expr) : member :=
  MField (FValue (FnExpr name sp0) plus VisDefault body).
Definition comp_members (l1 : list bind) (name : expr) (plus : bool) (body : expr) (l2 : list bind) : list member :=
  map MLocal l1 ++ comp_field name plus body :: map MLocal l2.

Lemma flat_sep {A} (f : A -> list token) x l :
  flat_map (fun m => comma ++ f m) (x :: l) = comma ++ sep_by comma f (x :: l).
Proof. cbn [flat_map sep_by]. rewrite <- app_assoc. reflexivity. Qed.

Lemma sepby_locals_after l2 :
  flat_map (fun m => comma ++ print_member m) (map MLocal l2) =
  flat_map (fun b => sim SComma :: sim KLocal :: print_bind b) l2.
Proof. induction l2 as [|b l2 IH]; [reflexivity|]. cbn [map flat_map]. rewrite IH. reflexivity. Qed.

Lemma sepby_comp l1 F rest :
  sep_by comma print_member (map MLocal l1 ++ F :: rest) =
  flat_map (fun b => sim KLocal :: print_bind b ++ comma) l1 ++ print_member F ++
  flat_map (fun m => comma ++ print_member m) rest.
Proof.
  induction l1 as [|b l1 IH]; [reflexivity|].
  cbn [map app]. 
  assert (Hne : exists x tl, map MLocal l1 ++ F :: rest = x :: tl) by (destruct l1; cbn; eauto).
  destruct Hne as (x & tl & E). rewrite E in *.
  change (sep_by comma print_member (MLocal b :: x :: tl))
    with (print_member (MLocal b) ++ flat_map (fun m => comma ++ print_member m) (x :: tl)).
  rewrite flat_sep, IH. cbn [flat_map print_member app]. rewrite <- !app_assoc. reflexivity.
Qed.

Lemma comp_tokens l1 name plus body l2 specs :
  print_obj (OComp l1 name plus body l2 specs) =
  sep_by comma print_member (comp_members l1 name plus body l2) ++ flat_map print_spec specs.
Proof.
  unfold comp_members. rewrite sepby_comp, sepby_locals_after.
  change (print_obj (OComp l1 name plus body l2 specs)) with
    (flat_map (fun b => sim KLocal :: print_bind b ++ comma) l1 ++
     sim SLeftBracket :: print_expr name ++ sim SRightBracket :: sim (vis_tok plus VisDefault) :: print_expr body ++
     flat_map (fun b => sim SComma :: sim KLocal :: print_bind b) l2 ++ flat_map print_spec specs).
  unfold comp_field. cbn [print_member print_field print_fname]. rewrite <- !app_assoc. cbn [app].
  rewrite <- !app_assoc. reflexivity.
Qed.

Lemma go_locals1 l rest a1 :
  make_comp_go (map MLocal l ++ rest) a1 [] None = make_comp_go rest (a1 ++ l) [] None.
Proof.
  revert a1. induction l as [|b l IH]; intros a1; cbn [map app make_comp_go]; [rewrite app_nil_r; reflexivity|].
  rewrite IH. rewrite <- app_assoc. reflexivity.
Qed.
Lemma go_locals2 l a1 a2 f :
  make_comp_go (map MLocal l) a1 a2 (Some f) = Ok (a1, a2 ++ l, Some f).
Proof.
  revert a2. induction l as [|b l IH]; intros a2; cbn [map make_comp_go]; [rewrite app_nil_r; reflexivity|].
  rewrite IH. rewrite <- app_assoc. reflexivity.
Qed.
Lemma make_comp_members l1 name plus body l2 specs :
  make_comp (comp_members l1 name plus body l2) specs = Ok (OComp l1 name plus body l2 specs).
Proof.
  unfold make_comp, comp_members, comp_field. rewrite go_locals1. cbn [make_comp_go app].
  rewrite go_locals2. reflexivity.
Qed.

Lemma strip_comp_members l1 name plus body l2 :
  map strip_member (comp_members l1 name plus body l2) =
  comp_members (map strip_bind l1) (strip_spans name) plus (strip_spans body) (map strip_bind l2).
Proof. unfold comp_members. rewrite map_app. cbn [map]. rewrite !map_map. reflexivity. Qed.

Section Obj.
  Variable pexpr : P expr.
  Variable L : nat.
  Hypothesis Hp : pexpr_ok pexpr L.
  Variable lf : nat.

  Definition fo_ok (fo : token) : Prop := stopper fo = true /\ is_simple KElse fo = false.

  (* ---- field names *)
  Definition fname_ok (n : field_name) : Prop :=
    core_fname n = true /\ wp_fname n = true /\ (List.length (print_fname n) < L)%nat.

  Lemma run_fname n t : fname_ok n -> t <> [] ->
    run (maybe_parse_field_name pexpr) (print_fname n ++ t) (Some (strip_fname n)) t.
  Proof.
    intros (Hc & Hw & Hl) Ht. destruct n as [i|x sp|y sp]; cbn [print_fname strip_fname core_fname wp_fname app] in *.
    - apply run_field_name_ident; exact Ht.
    - apply run_field_name_string; exact Ht.
    - rewrite <- app_assoc. cbn [app].
      apply (run_field_name_expr pexpr L Hp); [exact Hc|exact Hw| |exact Ht].
      revert Hl. cbn [List.length]. rewrite app_length. cbn [List.length]. lia.
  Qed.

  Lemma fname_head n : exists c r, print_fname n = c :: r /\ is_simple KLocal c = false /\
    is_simple SRightBrace c = false /\ is_simple KFor c = false.
  Proof. destruct n; cbn [print_fname]; (eexists; eexists; split; [reflexivity|repeat split; reflexivity]). Qed.

  (* ---- fields *)
  Definition field_ok (f : field) : Prop :=
    core_field f = true /\ wp_field f = true /\ (List.length (print_field f) < L)%nat /\
    (List.length (print_field f) <= lf)%nat.

  Lemma vis_not_paren plus vis : is_simple SLeftParen (sim (vis_tok plus vis)) = false.
  Proof. destruct plus, vis; reflexivity. Qed.

  Lemma run_field f fo r : field_ok f -> fo_ok fo ->
    run (maybe_parse_field pexpr lf) (print_field f ++ fo :: r) (Some (strip_field f)) (fo :: r).
  Proof.
    intros (Hc & Hw & Hl & Hlf) (Hs & He). unfold maybe_parse_field. apply run_call.
    destruct f as [n plus vis v|n ps psp vis v]; cbn [print_field strip_field core_field wp_field] in *.
    - apply andb_true_iff in Hc as [Hcn Hcv]. apply andb_true_iff in Hw as [Hwn Hwv].
      rewrite app_length in Hl. cbn [List.length] in Hl.
      rewrite <- app_assoc. cbn [app].
      eapply run_orelse_hit; [apply run_fname; [split; [exact Hcn|split; [exact Hwn|lia]]|discriminate]|].
      eapply run_orelse_miss; [apply run_eat_miss; apply vis_not_paren|].
      eapply run_orelse_hit; [apply run_plus_vis; auto with rt|].
      eapply run_bind; [apply (run_pexpr pexpr L Hp); [exact Hcv|exact Hwv|lia|exact Hs|exact He]|apply run_ret].
    - apply andb_true_iff in Hc as [Hc Hcv]. apply andb_true_iff in Hc as [Hcn Hcp].
      apply andb_true_iff in Hw as [Hw Hwv]. apply andb_true_iff in Hw as [Hwn Hwp].
      assert (Elen : List.length (print_fname n ++ sim SLeftParen :: sep_by comma print_param ps ++
                       sim SRightParen :: sim (vis_tok false vis) :: print_expr v) =
                     (List.length (print_fname n) + List.length (sep_by comma print_param ps) +
                      List.length (print_expr v) + 3)%nat).
      { repeat (rewrite app_length; cbn [List.length]). lia. }
      rewrite Elen in Hl, Hlf.
      assert (Hpl : Forall (param_ok L) ps).
      { apply Forall_forall. intros p0 Hin. rewrite forallb_forall in Hcp, Hwp.
        split; [apply (Hcp p0 Hin)|]. split; [apply (Hwp p0 Hin)|].
        pose proof (sep_by_len print_param ps p0 Hin). lia. }
      assert (Hcnt : (List.length ps <= lf)%nat).
      { assert (List.length ps <= List.length (sep_by comma print_param ps))%nat.
        { apply sep_by_count. intros [nm dd] _. cbn [print_param]. discriminate. }
        lia. }
      norm_app.
      eapply run_orelse_hit; [apply run_fname; [split; [exact Hcn|split; [exact Hwn|lia]]|discriminate]|].
      eapply run_orelse_hit; [apply run_eat_hit; [reflexivity|auto with rt]|].
      eapply run_bind; [apply (run_params pexpr L Hp lf ps); [exact Hcnt|exact Hpl|discriminate]|].
      cbv beta iota.
      eapply run_orelse_hit; [apply run_vis; auto with rt|].
      eapply run_bind; [apply (run_pexpr pexpr L Hp); [exact Hcv|exact Hwv|lia|exact Hs|exact He]|].
      eapply run_bind; [apply run_mk_span0|apply run_ret].
  Qed.

  (* ---- asserts (object member: add_to_expected = true; expression: false) *)
  Definition assert_ok (a : assert_) : Prop :=
    match a with
    | MkAssert _ c m => core_expr c = true /\ match m with Some x => core_expr x | None => true end = true
    end /\ wp_assert a = true /\ (List.length (print_assert a) < L)%nat.

  Lemma run_assert add a fo r : assert_ok a -> fo_ok fo -> is_simple SColon fo = false ->
    run (maybe_parse_assert pexpr add) (print_assert a ++ fo :: r) (Some (sp0, strip_assert a)) (fo :: r).
  Proof.
    intros (Hc & Hw & Hl) (Hs & He) Hcol. destruct a as [asp c m]. destruct Hc as [Hcc Hcm].
    cbn [wp_assert print_assert strip_assert] in *. apply andb_true_iff in Hw as [Hwc Hwm].
    unfold maybe_parse_assert. apply run_call. cbn [app].
    eapply run_orelse_hit; [apply run_eat_hit; [reflexivity|auto with rt]|].
    destruct m as [m|]; cbn [opt_all option_map] in *; norm_app.
    - cbn [List.length] in Hl. rewrite app_length in Hl. cbn [List.length] in Hl.
      eapply run_bind; [apply (run_pexpr pexpr L Hp); [exact Hcc|exact Hwc|lia|reflexivity|reflexivity]|].
      eapply run_bind; [apply run_eat_hit; [reflexivity|auto with rt]|].
      cbn [opt_expr].
      eapply run_bind; [eapply run_bind; [apply (run_pexpr pexpr L Hp); [exact Hcm|exact Hwm|lia|exact Hs|exact He]|apply run_ret]|].
      cbv beta iota. rewrite strip_span0. eapply run_bind; [apply run_mk_span0|apply run_ret].
    - rewrite app_nil_r in *. cbn [List.length] in Hl.
      eapply run_bind; [apply (run_pexpr pexpr L Hp); [exact Hcc|exact Hwc|lia|exact Hs|exact He]|].
      eapply run_bind; [apply run_eat_miss; exact Hcol|].
      cbn [opt_expr]. eapply run_bind; [apply run_ret|].
      cbv beta iota. rewrite strip_span0. eapply run_bind; [apply run_mk_span0|apply run_ret].
  Qed.

  (* ---- one member *)
  Definition member_ok (m : member) : Prop :=
    core_member m = true /\ wp_member m = true /\ (List.length (print_member m) < L)%nat /\
    (List.length (print_member m) <= lf)%nat.

  Definition flags_after (m : member) (cbc hd : bool) : bool * bool :=
    match m with
    | MLocal _ => (cbc, hd)
    | MField (FValue (FnExpr _ _) _ VisDefault _) => if hd then (false, hd) else (cbc, true)
    | _ => (false, hd)
    end.

  Lemma run_obj_local_miss c t : is_simple KLocal c = false ->
    run (maybe_parse_obj_local pexpr lf) (c :: t) None (c :: t).
  Proof.
    intros H. unfold maybe_parse_obj_local. apply run_call.
    eapply run_orelse_miss; [apply run_eat_miss; exact H|apply run_ret].
  Qed.

  Lemma run_field_miss_assert t : run (maybe_parse_field pexpr lf) (sim KAssert :: t) None (sim KAssert :: t).
  Proof. run_compute. Qed.

  Lemma run_obj_chain m acc cbc hd fo r : member_ok m -> fo_ok fo -> is_simple SColon fo = false ->
    run (obj_chain pexpr lf acc cbc hd) (print_member m ++ fo :: r)
        (acc ++ [strip_member m], fst (flags_after m cbc hd), snd (flags_after m cbc hd)) (fo :: r).
  Proof.
    intros (Hc & Hw & Hl & Hlf) Hfo Hcol. unfold obj_chain.
    destruct m as [b|a|f]; cbn [print_member strip_member core_member wp_member flags_after fst snd] in *.
    - cbn [app].
      eapply run_orelse_hit.
      + apply (run_obj_local pexpr L Hp lf b fo r); [|cbn [List.length] in Hlf; lia|apply Hfo|apply Hfo].
        split; [rewrite <- core_bind_bcore; exact Hc|]. split; [exact Hw|]. cbn [List.length] in Hl. lia.
      + apply run_ret.
    - destruct a as [asp c m']. cbn [print_assert app].
      eapply run_orelse_miss; [apply run_obj_local_miss; reflexivity|].
      eapply run_orelse_miss; [apply run_field_miss_assert|].
      eapply run_orelse_hit.
      + change (sim KAssert :: (print_expr c ++ match m' with Some m0 => sim SColon :: print_expr m0 | None => [] end) ++ fo :: r)
          with (print_assert (MkAssert asp c m') ++ fo :: r).
        apply run_assert; [|exact Hfo|exact Hcol].
        apply andb_true_iff in Hc as [Hcc Hcm]. split; [split; assumption|]. split; [exact Hw|exact Hl].
      + cbv beta iota. apply run_ret.
    - destruct (fname_head (match f with FValue n _ _ _ | FFunc n _ _ _ _ => n end)) as (ch & rh & Eh & Hloc & _).
      assert (Ehead : exists rr, print_field f = ch :: rr).
      { destruct f; cbn [print_field]; rewrite Eh; eexists; reflexivity. }
      destruct Ehead as (rr & Ehead).
      eapply run_orelse_miss; [eapply (run_app_head _ _ ch rr); [exact Ehead|intros t'; apply run_obj_local_miss; exact Hloc]|].
      eapply run_orelse_hit; [apply run_field; [split; [exact Hc|split; [exact Hw|split; assumption]]|exact Hfo]|].
      destruct f as [n plus vis v|n ps psp vis v]; cbn [strip_field].
      + destruct n as [i|x sp|y sp]; cbn [strip_fname]; try apply run_ret.
        destruct vis; try apply run_ret. destruct hd; apply run_ret.
      + apply run_ret.
  Qed.

  (* ---- the loop *)
  Lemma member_head m : exists c r, print_member m = c :: r /\ is_simple SRightBrace c = false /\
    is_simple KFor c = false.
  Proof.
    destruct m as [b|a|f]; cbn [print_member].
    - eexists; eexists; split; [reflexivity|split; reflexivity].
    - destruct a. eexists; eexists; split; [reflexivity|split; reflexivity].
    - destruct (fname_head (match f with FValue n _ _ _ | FFunc n _ _ _ _ => n end)) as (ch & rh & Eh & _ & H1 & H2).
      destruct f; cbn [print_field]; rewrite Eh; eexists; eexists; (split; [reflexivity|split; assumption]).
  Qed.

  Lemma run_comp_spec_miss_gen c t : is_simple KFor c = false ->
    run (maybe_parse_comp_spec pexpr lf) (c :: t) None (c :: t).
  Proof.
    intros H. unfold maybe_parse_comp_spec. apply run_call.
    eapply run_orelse_miss; [apply run_for_spec_miss'; exact H|apply run_ret].
  Qed.

  Lemma run_comp_tail_miss c t members : is_simple KFor c = false ->
    run (comp_tail pexpr lf members) (c :: t) None (c :: t).
  Proof.
    intros H. unfold comp_tail.
    eapply run_orelse_miss; [apply run_comp_spec_miss_gen; exact H|apply run_ret].
  Qed.

  Lemma cont_last f members cbc hd rest : rest <> [] ->
    run (obj_cont pexpr lf f members cbc hd) (sim SRightBrace :: rest) (OMembers members, sp0) rest.
  Proof.
    intros Hr. unfold obj_cont.
    eapply run_orelse_hit; [apply run_eat_hit; [reflexivity|exact Hr]|apply run_ret].
  Qed.

  Lemma cont_more f members cbc hd l c r t res tf : l = c :: r ->
    is_simple SRightBrace c = false -> is_simple KFor c = false ->
    run (obj_loop pexpr lf f members cbc hd) (l ++ t) res tf ->
    run (obj_cont pexpr lf f members cbc hd) (sim SComma :: l ++ t) res tf.
  Proof.
    intros -> Hb Hf H. cbn [app] in *. unfold obj_cont.
    eapply run_orelse_miss; [apply run_eat_miss; reflexivity|].
    eapply run_orelse_hit; [apply run_eat_hit; [reflexivity|discriminate]|].
    eapply run_orelse_miss; [apply run_eat_miss; exact Hb|].
    destruct (cbc && hd)%bool; [|exact H].
    eapply run_orelse_miss; [apply run_comp_tail_miss; exact Hf|exact H].
  Qed.

  Lemma run_lift_ok {A} (a : A) t : run (lift (Ok a)) t a t.
  Proof. intros s Es. exists s. split; [reflexivity|exact Es]. Qed.

  Lemma cont_comp f members specs oi rest : specs_ok specs = true -> (List.length specs <= lf)%nat ->
    Forall (spec_ok L) specs -> make_comp members (map strip_spec specs) = Ok oi -> rest <> [] ->
    run (obj_cont pexpr lf f members true true) (flat_map print_spec specs ++ sim SRightBrace :: rest) (oi, sp0) rest.
  Proof.
    intros Hok Hlen Hall Hmk Hr. unfold obj_cont.
    assert (Eh : exists r0, flat_map print_spec specs = sim KFor :: r0).
    { destruct specs as [|[v y|y] more]; cbn [specs_ok] in Hok; try discriminate. eexists; reflexivity. }
    destruct Eh as (r0 & Eh).
    eapply run_orelse_miss; [eapply run_eat_miss_app; [exact Eh|reflexivity]|].
    eapply run_orelse_miss; [eapply run_eat_miss_app; [exact Eh|reflexivity]|].
    cbn [andb].
    eapply run_orelse_hit; [|apply run_ret].
    unfold comp_tail.
    eapply run_orelse_hit;
      [apply (run_comp_spec pexpr L Hp lf specs (sim SRightBrace) rest);
         [exact Hok|exact Hlen|exact Hall|split; reflexivity|reflexivity|reflexivity]|].
    eapply run_bind; [apply run_expect_hit; [reflexivity|exact Hr]|].
    rewrite Hmk. eapply run_bind; [apply run_lift_ok|apply run_ret].
  Qed.

  Fixpoint flags_seq (ms : list member) (cbc hd : bool) : bool * bool :=
    match ms with
    | [] => (cbc, hd)
    | m :: r => flags_seq r (fst (flags_after m cbc hd)) (snd (flags_after m cbc hd))
    end.

  Lemma run_obj_seq : forall more m0 acc cbc hd frem t0 r0 res tf,
    Forall member_ok (m0 :: more) -> fo_ok t0 -> is_simple SColon t0 = false ->
    run (obj_cont pexpr lf frem (acc ++ map strip_member (m0 :: more))
           (fst (flags_seq (m0 :: more) cbc hd)) (snd (flags_seq (m0 :: more) cbc hd))) (t0 :: r0) res tf ->
    run (obj_loop pexpr lf (S (List.length more) + frem) acc cbc hd)
        (print_member m0 ++ flat_map (fun m => comma ++ print_member m) more ++ t0 :: r0) res tf.
  Proof.
    induction more as [|m1 more IH]; intros m0 acc cbc hd frem t0 r0 res tf Hall Hfo Hcol H;
      inversion Hall as [|? ? Hok0 Hall']; subst.
    - cbn [flat_map app List.length Nat.add]. rewrite obj_loop_unfold.
      eapply run_bind; [apply (run_obj_chain m0 acc cbc hd t0 r0 Hok0 Hfo Hcol)|].
      cbv beta iota. exact H.
    - cbn [flat_map List.length Nat.add]. unfold comma at 1. norm_app. rewrite obj_loop_unfold.
      eapply run_bind;
        [apply (run_obj_chain m0 acc cbc hd (sim SComma) _ Hok0); [split; reflexivity|reflexivity]|].
      cbv beta iota.
      destruct (member_head m1) as (c1 & r1 & E1 & Hb1 & Hf1).
      rewrite app_assoc.
      eapply cont_more; [apply app_eq_cons_l; exact E1|exact Hb1|exact Hf1|].
      rewrite <- app_assoc.
      apply IH; [exact Hall'|exact Hfo|exact Hcol|].
      cbn [map flags_seq] in H. rewrite <- app_assoc. exact H.
  Qed.

  Lemma run_obj_members ms rest : Forall member_ok ms -> (List.length ms <= lf)%nat -> rest <> [] ->
    run (parse_obj_inside pexpr lf) (sep_by comma print_member ms ++ sim SRightBrace :: rest)
        (OMembers (map strip_member ms), sp0) rest.
  Proof.
    intros Hall Hlen Hr. unfold parse_obj_inside. apply run_call. unfold sep_by.
    destruct ms as [|m0 more].
    - cbn [app map]. eapply run_orelse_hit; [apply run_eat_hit; [reflexivity|exact Hr]|apply run_ret].
    - destruct (member_head m0) as (c0 & r0 & E0 & Hb0 & _).
      rewrite <- app_assoc.
      eapply run_orelse_miss; [eapply run_eat_miss_app; [exact E0|exact Hb0]|].
      cbn [List.length] in Hlen.
      replace lf with (S (List.length more) + (lf - S (List.length more)))%nat at 2 by lia.
      apply run_obj_seq; [exact Hall|split; reflexivity|reflexivity|].
      cbn [app]. apply cont_last; exact Hr.
  Qed.
  Lemma flags_locals l c h : flags_seq (map MLocal l) c h = (c, h).
  Proof. revert c h. induction l as [|b l IH]; intros c h; [reflexivity|]. cbn [map flags_seq flags_after fst snd]. apply IH. Qed.

  Lemma flags_comp l1 name plus body l2 : flags_seq (comp_members l1 name plus body l2) true false = (true, true).
  Proof.
    unfold comp_members. induction l1 as [|b l1 IH]; cbn [map app flags_seq flags_after fst snd comp_field].
    - apply flags_locals.
    - exact IH.
  Qed.

  Lemma run_obj_comp l1 name plus body l2 specs rest :
    Forall member_ok (comp_members l1 name plus body l2) ->
    (List.length (comp_members l1 name plus body l2) <= lf)%nat ->
    specs_ok specs = true -> (List.length specs <= lf)%nat -> Forall (spec_ok L) specs -> rest <> [] ->
    run (parse_obj_inside pexpr lf) (print_obj (OComp l1 name plus body l2 specs) ++ sim SRightBrace :: rest)
        (OComp (map strip_bind l1) (strip_spans name) plus (strip_spans body) (map strip_bind l2) (map strip_spec specs), sp0)
        rest.
  Proof.
    intros Hall Hlen Hok Hsl Hsp Hr. rewrite comp_tokens.
    unfold parse_obj_inside. apply run_call.
    destruct (comp_members l1 name plus body l2) as [|m0 more] eqn:Ems.
    { unfold comp_members in Ems. destruct l1; discriminate. }
    unfold sep_by.
    destruct (member_head m0) as (c0 & r0 & E0 & Hb0 & _).
    rewrite <- !app_assoc.
    eapply run_orelse_miss; [eapply run_eat_miss_app; [exact E0|exact Hb0]|].
    assert (Eh : exists r1, flat_map print_spec specs = sim KFor :: r1).
    { destruct specs as [|[v y|y] ms]; cbn [specs_ok] in Hok; try discriminate. eexists; reflexivity. }
    destruct Eh as (r1 & Eh).
    cbn [List.length] in Hlen.
    replace lf with (S (List.length more) + (lf - S (List.length more)))%nat at 2 by lia.
    rewrite Eh. cbn [app].
    apply run_obj_seq; [exact Hall|split; reflexivity|reflexivity|].
    rewrite <- Ems, flags_comp. cbn [fst snd app].
    change (sim KFor :: r1 ++ sim SRightBrace :: rest) with ((sim KFor :: r1) ++ sim SRightBrace :: rest).
    rewrite <- Eh.
    apply cont_comp; [exact Hok|exact Hsl|exact Hsp| |exact Hr].
    rewrite strip_comp_members. apply make_comp_members.
  Qed.
End Obj.

Lemma member_nonempty m : print_member m <> [].
Proof.
  destruct m as [b|a|f]; cbn [print_member]; try discriminate.
  - destruct a; discriminate.
  - destruct f as [n ? ? ?|n ? ? ? ?]; cbn [print_field]; destruct n; discriminate.
Qed.

Lemma run_obj pexpr L (Hp : pexpr_ok pexpr L) lf o rest :
  core_obj o = true -> wp_obj o = true -> (List.length (print_obj o) < L)%nat ->
  (List.length (print_obj o) <= lf)%nat -> rest <> [] ->
  run (parse_obj_inside pexpr lf) (print_obj o ++ sim SRightBrace :: rest) (strip_obj o, sp0) rest.
Proof.
  intros Hc Hw Hl Hlf Hr. destruct o as [ms|l1 name plus body l2 specs].
  - change (print_obj (OMembers ms)) with (sep_by comma print_member ms) in *.
    change (strip_obj (OMembers ms)) with (OMembers (map strip_member ms)).
    cbn [core_obj wp_obj] in Hc, Hw.
    apply (run_obj_members pexpr L Hp lf ms rest); [| |exact Hr].
    + apply Forall_forall. intros m Hin. rewrite forallb_forall in Hc, Hw.
      pose proof (sep_by_len print_member ms m Hin).
      split; [apply (Hc m Hin)|]. split; [apply (Hw m Hin)|]. split; lia.
    + pose proof (sep_by_count print_member ms (fun x _ => member_nonempty x)). lia.
  - change (strip_obj (OComp l1 name plus body l2 specs)) with
      (OComp (map strip_bind l1) (strip_spans name) plus (strip_spans body) (map strip_bind l2) (map strip_spec specs)).
    cbn [core_obj wp_obj] in Hc, Hw.
    apply andb_true_iff in Hc as [Hc Hcs]. apply andb_true_iff in Hc as [Hc Hok].
    apply andb_true_iff in Hc as [Hc Hc2]. apply andb_true_iff in Hc as [Hc Hcb]. apply andb_true_iff in Hc as [Hc1 Hcn].
    apply andb_true_iff in Hw as [Hw Hws]. apply andb_true_iff in Hw as [Hw _].
    apply andb_true_iff in Hw as [Hw Hw2]. apply andb_true_iff in Hw as [Hw Hwb]. apply andb_true_iff in Hw as [Hw1 Hwn].
    pose proof (comp_tokens l1 name plus body l2 specs) as Etok.
    assert (Elen : List.length (print_obj (OComp l1 name plus body l2 specs)) =
              (List.length (sep_by comma print_member (comp_members l1 name plus body l2)) +
               List.length (flat_map print_spec specs))%nat) by (rewrite Etok, app_length; reflexivity).
    apply (run_obj_comp pexpr L Hp lf); [| |exact Hok| | |exact Hr].
    + apply Forall_forall. intros m Hin.
      pose proof (sep_by_len print_member _ m Hin) as Hle.
      assert (Hcm : core_member m = true /\ wp_member m = true).
      { unfold comp_members in Hin. apply in_app_or in Hin as [Hin|[<-|Hin]].
        - apply in_map_iff in Hin as (b & <- & Hb). rewrite forallb_forall in Hc1, Hw1.
          split; [apply (Hc1 b Hb)|apply (Hw1 b Hb)].
        - cbn [comp_field core_member core_field core_fname wp_member wp_field wp_fname]. rewrite Hcn, Hcb, Hwn, Hwb. split; reflexivity.
        - apply in_map_iff in Hin as (b & <- & Hb). rewrite forallb_forall in Hc2, Hw2.
          split; [apply (Hc2 b Hb)|apply (Hw2 b Hb)]. }
      destruct Hcm as [Hcm Hwm]. split; [exact Hcm|]. split; [exact Hwm|]. split; lia.
    + pose proof (sep_by_count print_member (comp_members l1 name plus body l2) (fun x _ => member_nonempty x)). lia.
    + assert (List.length specs <= List.length (flat_map print_spec specs))%nat; [|lia].
      clear. induction specs as [|s0 more IHs]; [cbn; lia|]. cbn [flat_map List.length]. rewrite app_length.
      destruct s0; cbn [print_spec List.length]; lia.
    + apply Forall_forall. intros sc Hin. rewrite forallb_forall in Hcs, Hws.
      split; [apply (Hcs sc Hin)|]. split; [apply (Hws sc Hin)|].
      assert (List.length (print_spec sc) <= List.length (flat_map print_spec specs))%nat; [|lia].
      clear -Hin. induction specs as [|s0 more IHs]; [destruct Hin|]. cbn [flat_map]. rewrite app_length.
      destruct Hin as [->|Hin]; [lia|]. specialize (IHs Hin). lia.
Qed.
