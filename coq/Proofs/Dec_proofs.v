(* Proofs/Dec_proofs.v — Model/Dec.v against Flocq's real-number semantics.

   Part 1: bridge between Coq's SpecFloat operations (prec 53, emax 1024, nearest-even only)
           and Flocq's BinarySingleNaN (re-proved here rather than imported from
           Flocq.IEEE754.PrimFloat, which would pull primitive floats in).
   Part 2: dec_to_f64 is the correctly rounded double.
   Part 3: monotonicity squeeze and soundness of shortest_check / check_printed. *)
From Coq Require Import ZArith NArith Bool List Lia Reals Psatz Floats.SpecFloat.
From Flocq Require Import Core.Core Core.Digits Calc.Round IEEE754.BinarySingleNaN.
From RJ Require Import Base.Outcome Base.F64 Model.Dec.
Local Open Scope Z_scope.

(* ---------------------------------------------------------------- Part 1: bridge *)

Definition P53 : Prec_gt_0 53 := eq_refl.
Definition PE : Prec_lt_emax 53 1024 := eq_refl.
#[global] Existing Instance P53.
#[global] Existing Instance PE.

Notation fexp64 := (FLT_exp (-1074) 53).
#[global] Instance fexp_sf_valid : Valid_exp (SpecFloat.fexp 53 1024) := FLT_exp_valid (-1074) 53.
#[global] Instance fexp_sf_monotone : Monotone_exp (SpecFloat.fexp 53 1024) := FLT_exp_monotone (-1074) 53.
Definition rnd (x : R) : R := round radix2 fexp64 ZnearestE x.

Lemma fexp_is_FLT : forall e, SpecFloat.fexp 53 1024 e = fexp64 e.
Proof. reflexivity. Qed.

Lemma round_nearest_even_equiv s m l :
  round_nearest_even m l = choice_mode mode_NE s m l.
Proof.
  case l; [reflexivity|intro c].
  case c; [ | reflexivity..].
  now simpl; unfold Round.cond_incr; case Z.even.
Qed.

Lemma binary_round_aux_equiv sx mx ex lx :
  SpecFloat.binary_round_aux 53 1024 sx mx ex lx
  = BinarySingleNaN.binary_round_aux 53 1024 mode_NE sx mx ex lx.
Proof.
  unfold SpecFloat.binary_round_aux, BinarySingleNaN.binary_round_aux.
  set (mrse' := shr_fexp _ _ _ _ _).
  case mrse'; intros mrs' e'; simpl.
  now rewrite (round_nearest_even_equiv sx).
Qed.

Lemma binary_round_equiv s m e :
  SpecFloat.binary_round 53 1024 s m e = BinarySingleNaN.binary_round 53 1024 mode_NE s m e.
Proof.
  unfold SpecFloat.binary_round, BinarySingleNaN.binary_round, shl_align_fexp.
  set (mez := shl_align _ _ _); case mez as [mz ez].
  apply binary_round_aux_equiv.
Qed.

Lemma binary_normalize_equiv m e szero :
  SpecFloat.binary_normalize 53 1024 m e szero
  = B2SF (BinarySingleNaN.binary_normalize 53 1024 P53 PE mode_NE m e szero).
Proof.
  case m as [ | p | p].
  - now simpl.
  - simpl; rewrite B2SF_SF2B; apply binary_round_equiv.
  - simpl; rewrite B2SF_SF2B; apply binary_round_equiv.
Qed.

Lemma binary_normalize_valid m e s :
  valid_binary 53 1024 (SpecFloat.binary_normalize 53 1024 m e s) = true.
Proof. rewrite binary_normalize_equiv. apply valid_binary_B2SF. Qed.

Lemma bpow1023_format : generic_format radix2 fexp64 (bpow radix2 1023).
Proof. apply generic_format_bpow. unfold FLT_exp. lia. Qed.

Lemma bpow1024_format : generic_format radix2 fexp64 (bpow radix2 1024).
Proof. apply generic_format_bpow. unfold FLT_exp. lia. Qed.

(* a value of magnitude at most 2^1023 normalises to a finite double *)
Lemma binary_normalize_finite m e s :
  (Rabs (F2R (Float radix2 m e)) <= bpow radix2 1023)%R ->
  is_finite_SF (SpecFloat.binary_normalize 53 1024 m e s) = true.
Proof.
  intros Hb. rewrite binary_normalize_equiv.
  generalize (binary_normalize_correct 53 1024 P53 PE mode_NE m e s).
  lazy zeta. simpl round_mode.
  rewrite Rlt_bool_true.
  - intros [_ [Hf _]]. now rewrite is_finite_SF_B2SF.
  - apply Rle_lt_trans with (bpow radix2 1023).
    + apply (abs_round_le_generic radix2 (SpecFloat.fexp 53 1024) ZnearestE).
      * exact bpow1023_format.
      * exact Hb.
    + apply bpow_lt. lia.
Qed.

(* ---------------------------------------------------------------- Part 2: dec_to_f64 *)

Definition radix10 : radix := Build_radix 10 eq_refl.
Definition dec_val (d : N) (e : Z) : R := (IZR (Z.of_N d) * bpow radix10 e)%R.

Lemma pow10_pos k : 0 <= k -> Zpos (pow10 k) = 10 ^ k.
Proof. intros H. unfold pow10. rewrite Z2Pos.id; auto. apply Z.pow_pos_nonneg; lia. Qed.

Lemma bpow10_IZR k : 0 <= k -> bpow radix10 k = IZR (10 ^ k).
Proof. intros H. rewrite <- (IZR_Zpower radix10) by auto. reflexivity. Qed.

Lemma bpow2_IZR k : 0 <= k -> bpow radix2 k = IZR (2 ^ k).
Proof. intros H. rewrite <- (IZR_Zpower radix2) by auto. reflexivity. Qed.

Lemma pow10_ge_pow2 k : 0 <= k -> (bpow radix2 (3 * k) <= bpow radix10 k)%R.
Proof.
  intros H. rewrite bpow10_IZR, bpow2_IZR by lia. apply IZR_le.
  rewrite Z.pow_mul_r by lia. apply Z.pow_le_mono_l. lia.
Qed.

Lemma pow10_le_pow2_neg k : k <= 0 -> (bpow radix10 k <= bpow radix2 (3 * k))%R.
Proof.
  intros H. assert (E : exists j, 0 <= j /\ k = - j) by (exists (- k); lia).
  destruct E as [j [Hj ->]]. replace (3 * - j) with (- (3 * j)) by lia.
  rewrite 2!bpow_opp. apply Rinv_le_contravar. apply bpow_gt_0. now apply pow10_ge_pow2.
Qed.

Lemma dec_val_nonneg d e : (0 <= dec_val d e)%R.
Proof.
  unfold dec_val. apply Rmult_le_pos. apply IZR_le. lia. apply bpow_ge_0.
Qed.

Lemma rnd_nonneg x : (0 <= x)%R -> (0 <= rnd x)%R.
Proof.
  intros H. unfold rnd. apply round_ge_generic; auto with typeclass_instances.
  apply generic_format_0.
Qed.

Lemma rnd_le x y : (x <= y)%R -> (rnd x <= rnd y)%R.
Proof. intros H. unfold rnd. apply round_le; auto with typeclass_instances. Qed.

Lemma rnd_tiny x : (0 <= x <= bpow radix2 (-1076))%R -> rnd x = 0%R.
Proof.
  intros [H0 H1]. apply Rle_antisym.
  - apply Rle_trans with (rnd (bpow radix2 (-1076))). now apply rnd_le.
    right. unfold rnd. apply (round_N_small_pos radix2 fexp64 (fun t => negb (Z.even t)) _ (-1075)).
    + split. simpl Z.sub. apply Rle_refl. apply bpow_lt. lia.
    + unfold FLT_exp. lia.
  - now apply rnd_nonneg.
Qed.

Lemma rnd_huge x : (bpow radix2 1024 <= x)%R -> (bpow radix2 1024 <= rnd x)%R.
Proof.
  intros H. unfold rnd. apply round_ge_generic; auto with typeclass_instances.
  apply bpow1024_format.
Qed.

(* the three regimes of dec_to_f64 *)
Lemma F2R_exp0 m : F2R (Float radix2 m 0) = IZR m.
Proof. unfold F2R. simpl. ring. Qed.

Definition dec_spec (d : N) (e : Z) (z : f64) : Prop :=
  let r := rnd (dec_val d e) in
  if Rlt_bool r (bpow radix2 1024)
  then SF2R radix2 z = r /\ is_finite_SF z = true /\ sign_SF z = false /\ valid_binary 53 1024 z = true
  else z = S754_infinity false.

Lemma dec_general p e :
  let nonneg := 0 <=? e in
  let num := Pos.mul p (if nonneg then pow10 e else xH) in
  let den := if nonneg then xH else pow10 (- e) in
  (IZR (Zpos num) / IZR (Zpos den))%R = dec_val (Npos p) e.
Proof.
  intros nonneg num den. unfold dec_val, num, den, nonneg. simpl Z.of_N.
  destruct (Z.leb_spec 0 e) as [H|H].
  - rewrite Pos2Z.inj_mul, pow10_pos by lia. rewrite mult_IZR, bpow10_IZR by lia. field.
  - rewrite pow10_pos by lia. rewrite Pos2Z.inj_mul, mult_IZR.
    replace e with (- (- e)) at 2 by lia. rewrite bpow_opp, bpow10_IZR by lia.
    simpl (IZR 1). field.
    apply IZR_neq. apply Z.pow_nonzero; lia.
Qed.

Theorem dec_correctly_rounded : forall d e, dec_spec d e (dec_to_f64 d e).
Proof.
  intros d e. unfold dec_spec.
  destruct d as [|p].
  - (* zero *)
    unfold dec_val. simpl Z.of_N. rewrite Rmult_0_l. unfold rnd. rewrite round_0 by auto with typeclass_instances.
    rewrite Rlt_bool_true by apply bpow_gt_0. simpl. repeat split; reflexivity.
  - unfold dec_to_f64.
    pose proof (Z.log2_spec (Zpos p) eq_refl) as [HL1 HL2].
    set (L := Z.log2 (Z.pos p)) in *.
    assert (HLnn : 0 <= L) by apply Z.log2_nonneg.
    destruct ((0 <=? e) && (1024 <=? L + 3 * e)) eqn:Hov.
    + (* overflow regime *)
      apply andb_prop in Hov. destruct Hov as [He HLe].
      apply Z.leb_le in He. apply Z.leb_le in HLe.
      rewrite Rlt_bool_false; [reflexivity|].
      apply rnd_huge. unfold dec_val. simpl Z.of_N.
      apply Rle_trans with (bpow radix2 L * bpow radix2 (3 * e))%R.
      * rewrite <- bpow_plus. apply bpow_le. lia.
      * apply Rmult_le_compat; try apply bpow_ge_0.
        rewrite bpow2_IZR by lia. now apply IZR_le.
        now apply pow10_ge_pow2.
    + destruct ((e <? 0) && (L + 1 + 3 * e <=? -1076)) eqn:Hun.
      * (* underflow regime *)
        apply andb_prop in Hun. destruct Hun as [He HLe].
        apply Z.ltb_lt in He. apply Z.leb_le in HLe.
        assert (Hr : rnd (dec_val (N.pos p) e) = 0%R).
        { apply rnd_tiny. split. apply dec_val_nonneg.
          unfold dec_val. simpl Z.of_N.
          apply Rle_trans with (bpow radix2 (L + 1) * bpow radix2 (3 * e))%R.
          - apply Rmult_le_compat. apply IZR_le; lia. apply bpow_ge_0.
            rewrite bpow2_IZR by lia. apply IZR_le. unfold Z.succ in HL2. lia.
            apply pow10_le_pow2_neg. lia.
          - rewrite <- bpow_plus. apply bpow_le. lia. }
        rewrite Hr. rewrite Rlt_bool_true by apply bpow_gt_0. simpl. repeat split; reflexivity.
      * (* general regime: SpecFloat's division core *)
        clear Hov Hun.
        set (nonneg := 0 <=? e).
        set (num := Pos.mul p (if nonneg then pow10 e else xH)).
        set (den := if nonneg then xH else pow10 (- e)).
        generalize (Bdiv_correct_aux 53 1024 P53 PE mode_NE false num 0 false den 0).
        lazy zeta. simpl cond_Zopp. simpl xorb. simpl round_mode.
        rewrite 2!F2R_exp0.
        fold nonneg. 
        replace (IZR (Z.pos num) / IZR (Z.pos den))%R with (dec_val (N.pos p) e) by (symmetry; apply dec_general).
        destruct (SFdiv_core_binary prec emax (Z.pos num) 0 (Z.pos den) 0) as [[mz ez] lz] eqn:Ediv.
        unfold prec, emax in Ediv. rewrite Ediv.
        rewrite binary_round_aux_equiv.
        fold (rnd (dec_val (N.pos p) e)).
        rewrite Rabs_pos_eq by (apply rnd_nonneg, dec_val_nonneg).
        change (round radix2 (fexp 53 1024) ZnearestE (dec_val (N.pos p) e)) with (rnd (dec_val (N.pos p) e)).
        intros [Hv Hres].
        destruct (Rlt_bool (rnd (dec_val (N.pos p) e)) (bpow radix2 1024)).
        -- destruct Hres as [H1 [H2 H3]]. repeat split; assumption.
        -- exact Hres.
Qed.

(* ---------------------------------------------------------------- Part 3: squeeze *)

Lemma sf_eqb_eq a b : sf_eqb a b = true <-> a = b.
Proof.
  split.
  - destruct a, b; simpl; try discriminate; intros H.
    + apply eqb_prop in H. now subst.
    + apply eqb_prop in H. now subst.
    + reflexivity.
    + apply andb_prop in H. destruct H as [H H3]. apply andb_prop in H. destruct H as [H1 H2].
      apply eqb_prop in H1. apply Pos.eqb_eq in H2. apply Z.eqb_eq in H3. now subst.
  - intros ->. destruct b; simpl; try apply eqb_reflx; try reflexivity.
    rewrite eqb_reflx, Pos.eqb_refl, Z.eqb_refl. reflexivity.
Qed.

Lemma sf_inj x y :
  valid_binary 53 1024 x = true -> valid_binary 53 1024 y = true ->
  is_finite_SF x = true -> is_finite_SF y = true ->
  sign_SF x = sign_SF y -> SF2R radix2 x = SF2R radix2 y -> x = y.
Proof.
  intros Vx Vy Fx Fy S R.
  rewrite <- (B2SF_SF2B 53 1024 x Vx), <- (B2SF_SF2B 53 1024 y Vy). f_equal.
  apply B2R_Bsign_inj.
  - now rewrite is_finite_SF2B.
  - now rewrite is_finite_SF2B.
  - now rewrite 2!B2R_SF2B.
  - now rewrite 2!Bsign_SF2B.
Qed.

Lemma dec_spec_fun d1 e1 d2 e2 :
  rnd (dec_val d1 e1) = rnd (dec_val d2 e2) -> dec_to_f64 d1 e1 = dec_to_f64 d2 e2.
Proof.
  intros H. generalize (dec_correctly_rounded d1 e1) (dec_correctly_rounded d2 e2).
  unfold dec_spec. rewrite H.
  destruct (Rlt_bool (rnd (dec_val d2 e2)) (bpow radix2 1024)).
  - intros [A1 [A2 [A3 A4]]] [B1 [B2 [B3 B4]]]. apply sf_inj; congruence.
  - congruence.
Qed.

Lemma dec_squeeze da ea db eb dc ec x :
  (dec_val da ea <= dec_val db eb)%R -> (dec_val db eb <= dec_val dc ec)%R ->
  dec_to_f64 da ea = x -> dec_to_f64 dc ec = x -> dec_to_f64 db eb = x.
Proof.
  intros Hab Hbc Ha Hc.
  generalize (dec_correctly_rounded da ea) (dec_correctly_rounded dc ec). unfold dec_spec.
  rewrite Ha, Hc.
  pose proof (rnd_le _ _ Hab) as R1. pose proof (rnd_le _ _ Hbc) as R2.
  destruct (Rlt_bool_spec (rnd (dec_val da ea)) (bpow radix2 1024)) as [La|La].
  - destruct (Rlt_bool_spec (rnd (dec_val dc ec)) (bpow radix2 1024)) as [Lc|Lc].
    + intros [A1 _] [C1 _].
      rewrite <- Ha. apply dec_spec_fun. apply Rle_antisym; [|exact R1].
      rewrite <- A1, C1. exact R2.
    + intros [_ [A2 _]] C. rewrite C in A2. simpl in A2. discriminate A2.
  - intros A _. rewrite A.
    generalize (dec_correctly_rounded db eb). unfold dec_spec.
    rewrite Rlt_bool_false. now intros ->. eapply Rle_trans; eassumption.
Qed.

(* ---------------------------------------------------------------- digit counting *)

Lemma ndigits_aux_spec : forall fuel d acc,
  (N.to_nat (N.size d) <= fuel)%nat ->
  exists k, (1 <= k)%N /\ ndigits_aux fuel d acc = (acc + k)%N /\ (d < 10 ^ k)%N /\
            (k = 1%N \/ (10 ^ (k - 1) <= d)%N).
Proof.
  induction fuel as [|fuel IH]; intros d acc Hf.
  - assert (d = 0%N) as ->.
    { destruct d; [reflexivity|]. simpl in Hf. pose proof (Pos2Nat.is_pos (Pos.size p)). lia. }
    exists 1%N. simpl. repeat split; try lia; try reflexivity.
  - simpl. destruct (N.ltb_spec d 10) as [Hd|Hd].
    + exists 1%N. repeat split; try lia.
    + assert (Hsz : (N.to_nat (N.size (d / 10)) <= fuel)%nat).
      { assert (Hlt : (N.size (d / 10) < N.size d)%N); [|lia].
        assert (Ha : (d / 10 <= d / 2)%N) by (apply N.div_le_compat_l; lia).
        assert (Hb : (0 < d / 10)%N) by (apply N.div_str_pos; lia).
        rewrite 2!N.size_log2 by lia.
        assert (Hc : (N.log2 (d / 10) <= N.log2 (d / 2))%N) by now apply N.log2_le_mono.
        rewrite <- N.div2_div, N.div2_spec, N.log2_shiftr in Hc.
        assert (Hd1 : (1 <= N.log2 d)%N). { change 1%N with (N.log2 2). apply N.log2_le_mono. lia. }
        lia. }
      destruct (IH (d / 10)%N (acc + 1)%N Hsz) as [k [Hk1 [Hk2 [Hk3 Hk4]]]].
      exists (k + 1)%N. repeat split; try lia.
      * rewrite N.pow_add_r. change (10 ^ 1)%N with 10%N.
        pose proof (N.div_mod d 10 ltac:(lia)) as E1. pose proof (N.mod_lt d 10 ltac:(lia)) as E2.
        set (X := (10 ^ k)%N) in *. set (q := (d / 10)%N) in *. set (r := (d mod 10)%N) in *. lia.
      * right. replace (k + 1 - 1)%N with k by lia.
        pose proof (N.div_mod d 10 ltac:(lia)) as E1.
        destruct Hk4 as [->|Hk4].
        -- change (10 ^ 1)%N with 10%N. lia.
        -- replace k with (k - 1 + 1)%N at 1 by lia. rewrite N.pow_add_r. change (10 ^ 1)%N with 10%N.
           set (X := (10 ^ (k - 1))%N) in *. set (q := (d / 10)%N) in *. set (r := (d mod 10)%N) in *. lia.
Qed.

Lemma ndigits_spec d :
  (1 <= ndigits d)%N /\ (d < 10 ^ ndigits d)%N /\ (ndigits d = 1%N \/ (10 ^ (ndigits d - 1) <= d)%N).
Proof.
  unfold ndigits. destruct (ndigits_aux_spec (N.to_nat (N.size d)) d 0 (le_n _)) as [k [H1 [H2 [H3 H4]]]].
  rewrite H2. simpl. auto.
Qed.

(* ---------------------------------------------------------------- shortest_check *)

Lemma dec_val_le_d d1 d2 e : (d1 <= d2)%N -> (dec_val d1 e <= dec_val d2 e)%R.
Proof.
  intros H. unfold dec_val. apply Rmult_le_compat_r. apply bpow_ge_0. apply IZR_le. lia.
Qed.

Lemma dec_val_le_e d e1 e2 : e1 <= e2 -> (dec_val d e1 <= dec_val d e2)%R.
Proof.
  intros H. unfold dec_val. apply Rmult_le_compat_l. apply IZR_le; lia. now apply bpow_le.
Qed.

Lemma dec_val_shift d e j : dec_val d (e + Z.of_N j) = dec_val (d * 10 ^ j) e.
Proof.
  unfold dec_val. rewrite bpow_plus, N2Z.inj_mul, N2Z.inj_pow, mult_IZR.
  rewrite (bpow10_IZR (Z.of_N j)) by lia. simpl (Z.of_N 10). ring.
Qed.

Lemma dec_val_shift1 d e : dec_val d (e + 1) = dec_val (d * 10) e.
Proof. change 1 with (Z.of_N 1). rewrite dec_val_shift. reflexivity. Qed.

Theorem shortest_check_sound : forall x d e,
  shortest_check x d e = true ->
  dec_to_f64 d e = x /\
  forall d' e', (ndigits d' < ndigits d)%N -> dec_to_f64 d' e' <> x.
Proof.
  intros x d e H. unfold shortest_check in H. apply andb_prop in H. destruct H as [H1 H2].
  apply sf_eqb_eq in H1. split; [exact H1|].
  intros d' e' Hn Hx'.
  destruct (ndigits_spec d) as [Dn1 [Dn2 Dn3]]. destruct (ndigits_spec d') as [Dn1' [Dn2' _]].
  destruct (N.eqb_spec (ndigits d) 1) as [E1|E1]; [lia|].
  destruct Dn3 as [Dn3|Dn3]; [contradiction|].
  apply andb_prop in H2. destruct H2 as [Hlo Hhi].
  apply negb_true_iff in Hlo, Hhi.
  assert (Hlo' : dec_to_f64 (d / 10) (e + 1) <> x) by (intros E; apply sf_eqb_eq in E; congruence).
  assert (Hhi' : dec_to_f64 (d / 10 + 1) (e + 1) <> x) by (intros E; apply sf_eqb_eq in E; congruence).
  clear Hlo Hhi.
  set (n := ndigits d) in *. set (q := (d / 10)%N) in *.
  pose proof (N.div_mod d 10 ltac:(lia)) as Edm. pose proof (N.mod_lt d 10 ltac:(lia)) as Emod. fold q in Edm.
  set (r := (d mod 10)%N) in *. clearbody r q.
  assert (HA : (dec_val q (e + 1) <= dec_val d e)%R).
  { rewrite dec_val_shift1. apply dec_val_le_d. lia. }
  assert (HB : (dec_val d e <= dec_val (q + 1) (e + 1))%R).
  { rewrite dec_val_shift1. apply dec_val_le_d. lia. }
  destruct (Z.le_gt_cases (e + 1) e') as [He|He].
  - (* a multiple of 10^(e+1) *)
    set (j := Z.to_N (e' - (e + 1))).
    assert (Ee' : e' = e + 1 + Z.of_N j) by (unfold j; rewrite Z2N.id; lia).
    assert (Ev : dec_val d' e' = dec_val (d' * 10 ^ j) (e + 1)) by (rewrite Ee'; apply dec_val_shift).
    destruct (N.le_gt_cases (d' * 10 ^ j) q) as [Hk|Hk].
    + apply Hlo'. apply (dec_squeeze d' e' q (e + 1) d e x); auto.
      rewrite Ev. now apply dec_val_le_d.
    + apply Hhi'. apply (dec_squeeze d e (q + 1)%N (e + 1) d' e' x); auto.
      rewrite Ev. apply dec_val_le_d. lia.
  - (* fewer digits at a finer scale: below 10^(n-1) * 10^e *)
    apply Hlo'. apply (dec_squeeze d' e' q (e + 1) d e x); auto.
    apply Rle_trans with (dec_val d' e). apply dec_val_le_e; lia.
    rewrite dec_val_shift1. apply dec_val_le_d.
    assert (Hpow : (10 ^ ndigits d' <= 10 ^ (n - 1))%N) by (apply N.pow_le_mono_r; lia).
    assert (Hq : (10 ^ (n - 1) <= q * 10)%N).
    { replace (n - 1)%N with (n - 2 + 1)%N in * by lia. rewrite N.pow_add_r in *. change (10 ^ 1)%N with 10%N in *.
      set (X := (10 ^ (n - 2))%N) in *. lia. }
    lia.
Qed.

(* ---------------------------------------------------------------- literals and printed text *)

Lemma dec_not_nan d e : dec_to_f64 d e <> S754_nan.
Proof.
  generalize (dec_correctly_rounded d e). unfold dec_spec.
  destruct (Rlt_bool _ _).
  - intros [_ [Hf _]] E. rewrite E in Hf. discriminate Hf.
  - intros -> E. discriminate E.
Qed.

Theorem literal_finite_or_error : forall d e,
  (exists v, literal_value d e = Ok v /\ f_is_finite v = true /\ v = dec_to_f64 d e) \/
  (literal_value d e = Err LitNumberOverflow /\ dec_to_f64 d e = S754_infinity false).
Proof.
  intros d e. unfold literal_value.
  generalize (dec_correctly_rounded d e) (dec_not_nan d e). unfold dec_spec.
  destruct (dec_to_f64 d e) as [s|s| |s m ex]; intros Hs Hn.
  - left. eexists. repeat split.
  - right. split; [reflexivity|]. destruct (Rlt_bool _ _).
    + destruct Hs as [_ [Hf _]]. discriminate Hf.
    + exact Hs.
  - contradiction.
  - left. eexists. repeat split.
Qed.

Lemma strip_zeros_val : forall fuel d e d' e',
  strip_zeros fuel d e = (d', e') -> dec_val d' e' = dec_val d e.
Proof.
  induction fuel as [|fuel IH]; intros d e d' e' H; simpl in H.
  - now inversion H.
  - destruct (N.eqb_spec d 0) as [E0|E0]. now inversion H.
    destruct (N.eqb_spec (d mod 10) 0) as [Em|Em]; [|now inversion H].
    rewrite (IH _ _ _ _ H). rewrite dec_val_shift1. f_equal.
    pose proof (N.div_mod d 10 ltac:(lia)). lia.
Qed.

Theorem check_printed_sound : forall x text,
  check_printed x text = true ->
  exists neg d e d' e',
    printed_parse text = Some (neg, d, e) /\ strip_zeros (length text) d e = (d', e') /\
    dec_val d' e' = dec_val d e /\
    neg = f_sign x /\ f_is_finite x = true /\
    ((d' = 0%N /\ f_is_zero x = true) \/
     (d' <> 0%N /\ dec_to_f64 d' e' = SFabs x /\
      forall d2 e2, (ndigits d2 < ndigits d')%N -> dec_to_f64 d2 e2 <> SFabs x)).
Proof.
  intros x text H. unfold check_printed in H.
  destruct (printed_parse text) as [[[neg d] e]|] eqn:Ep; [|discriminate].
  destruct (strip_zeros (length text) d e) as [d' e'] eqn:Es.
  apply andb_prop in H. destruct H as [H H3]. apply andb_prop in H. destruct H as [H1 H2].
  apply eqb_prop in H1.
  exists neg, d, e, d', e'. repeat split; auto.
  - eapply strip_zeros_val; eauto.
  - destruct (N.eqb_spec d' 0) as [E0|E0].
    + left. auto.
    + right. split; [exact E0|]. now apply shortest_check_sound.
Qed.
