(* Proofs/Radix_long_proofs.v — parse_num_radix on strings of any length: the sticky bit
   makes the result the nearest-even double of the whole integer. *)
From RJ Require Import Base.Outcome Base.F64 Model.Radix Proofs.Radix_float_proofs Proofs.Radix_round_proofs Proofs.Radix_proofs.
From Coq Require Import Lia ZArith Floats.SpecFloat.
Local Open Scope Z_scope.

(* ---- 4. every length: the result is the correctly rounded double ---------------- *)

Definition bits_per (radix : N) : Z := if (radix =? 8)%N then 3 else 4.

Lemma radix_pow2 radix : radix_ok radix -> Z.of_N radix = (2 ^ bits_per radix).
Proof. intros [->| ->]; reflexivity. Qed.

Lemma f_of_N_radix radix : radix_ok radix ->
  f_of_N radix = S754_finite false (Z.to_pos (2 ^ 52)) (bits_per radix - 52).
Proof. intros [->| ->]; vm_compute; reflexivity. Qed.

Lemma scale_inf radix j : radix_ok radix -> scale radix j (S754_infinity false) = S754_infinity false.
Proof.
  intros Hr. induction j as [|j IH]; [reflexivity|]. cbn [scale]. rewrite (f_of_N_radix radix Hr).
  exact IH.
Qed.

Lemma scale_finite radix : radix_ok radix -> forall j mx ex,
  (2 ^ 52 <= Z.pos mx < 2 ^ 53) -> (0 <= ex <= 971) ->
  scale radix j (S754_finite false mx ex) =
  if (ex + bits_per radix * Z.of_nat j <=? 971)
  then S754_finite false mx (ex + bits_per radix * Z.of_nat j) else S754_infinity false.
Proof.
  intros Hr. assert (Hb : (3 <= bits_per radix <= 4)) by (destruct Hr as [->| ->]; cbv; split; discriminate).
  induction j as [|j IH]; intros mx ex Hm He.
  - cbn [scale]. rewrite Z.mul_0_r, Z.add_0_r.
    replace (ex <=? 971) with true by (symmetry; apply Z.leb_le; lia). reflexivity.
  - cbn [scale]. rewrite (f_of_N_radix radix Hr).
    rewrite f_mul_pow2 by (try assumption; lia).
    replace (ex + (bits_per radix - 52) + 52) with (ex + bits_per radix) by lia.
    rewrite Nat2Z.inj_succ.
    destruct (ex + bits_per radix <=? 971) eqn:E.
    + apply Z.leb_le in E. rewrite IH by (try assumption; lia).
      replace (ex + bits_per radix + bits_per radix * Z.of_nat j)
        with (ex + bits_per radix * Z.succ (Z.of_nat j)) by lia. reflexivity.
    + apply Z.leb_gt in E. rewrite (scale_inf radix j Hr).
      replace (ex + bits_per radix * Z.succ (Z.of_nat j) <=? 971) with false by (symmetry; apply Z.leb_gt; nia).
      reflexivity.
Qed.

(* shape of the rounding of a big integer: a 53-bit mantissa and an exponent that is the
   given one plus a constant *)
Lemma big_result_shape m : (0 < m) -> (54 <= Zdigits2 m) ->
  exists mx ex, (2 ^ 52 <= Z.pos mx < 2 ^ 53) /\ (0 <= ex <= Zdigits2 m - 52) /\
    forall e, big_result false m e =
              if (e + ex <=? 971) then S754_finite false mx (e + ex) else S754_infinity false.
Proof.
  intros Hm HD. unfold big_result. set (k := (Zdigits2 m - 53)).
  pose proof (quot_53 m Hm HD) as Hq. fold k in Hq.
  pose proof (round_ne_bounds (m / 2 ^ k) (loc_low m k)) as Hr.
  set (q1 := round_nearest_even (m / 2 ^ k) (loc_low m k)) in *.
  destruct (Z.eqb_spec q1 (2 ^ 53)) as [E|E].
  - exists (Z.to_pos (2 ^ 52)), (k + 1). split; [cbv; split; [discriminate|reflexivity]|].
    split; [unfold k; lia|]. intros e. replace (e + k + 1) with (e + (k + 1)) by lia. reflexivity.
  - destruct q1 as [|p|p] eqn:Eq; try lia. exists p, k. split; [lia|]. split; [unfold k; lia|].
    intros e. reflexivity.
Qed.


(* ---- values (in N) ---------------------------------------------------------------- *)
Local Open Scope N_scope.

Lemma value_acc_lin radix : 0 < radix -> forall s acc, Forall (valid radix) s ->
  value_acc radix s acc = acc * radix ^ N.of_nat (length s) + value radix s /\
  value radix s < radix ^ N.of_nat (length s).
Proof.
  intros Hr. induction s as [|c r IH]; intros acc Hv.
  - cbn. split; lia.
  - inversion Hv as [|? ? Hc Hr']; subst. unfold valid in Hc. unfold value. cbn [value_acc length].
    destruct (to_digit radix c) as [d|] eqn:Ed; [|contradiction].
    pose proof (to_digit_lt _ _ _ Ed) as Hd.
    destruct (IH (acc * radix + d) Hr') as [E1 B1]. destruct (IH (0 * radix + d) Hr') as [E2 _].
    rewrite E1, E2. rewrite Nat2N.inj_succ, N.pow_succ_r'. split; [lia|].
    assert (0 < radix ^ N.of_nat (length r)) by (apply N.neq_0_lt_0, N.pow_nonzero; lia). nia.
Qed.

Lemma value_app radix s1 s2 : 0 < radix -> Forall (valid radix) s1 -> Forall (valid radix) s2 ->
  value radix (s1 ++ s2) = value radix s1 * radix ^ N.of_nat (length s2) + value radix s2.
Proof.
  intros Hr H1 H2. unfold value at 1.
  assert (G : forall s acc, Forall (valid radix) s -> value_acc radix (s ++ s2) acc = value_acc radix s2 (value_acc radix s acc)).
  { induction s as [|c r IH]; intros acc Hv; [reflexivity|]. inversion Hv as [|? ? Hc Hr']; subst. unfold valid in Hc.
    cbn [app value_acc]. destruct (to_digit radix c); [|contradiction]. now apply IH. }
  rewrite G by assumption. destruct (value_acc_lin radix Hr s2 (value_acc radix s1 0) H2) as [E _]. exact E.
Qed.

Lemma to_digit_zero radix c : to_digit radix c = Some 0 -> c = 48.
Proof.
  unfold to_digit.
  destruct ((48 <=? c) && (c <=? 57)) eqn:E1.
  - destruct (c - 48 <? radix); [|discriminate]. intros H. injection H as H.
    apply andb_prop in E1. destruct E1 as [E1 _]. apply N.leb_le in E1. lia.
  - destruct ((97 <=? c) && (c <=? 122)).
    + destruct (c - 97 + 10 <? radix); [|discriminate]. intros H. injection H as H. lia.
    + destruct ((65 <=? c) && (c <=? 90)); [|discriminate].
      destruct (c - 65 + 10 <? radix); [|discriminate]. intros H. injection H as H. lia.
Qed.

Lemma to_digit_48 radix : radix_ok radix -> to_digit radix 48 = Some 0.
Proof. intros [->| ->]; reflexivity. Qed.

Lemma value_trim radix s : radix_ok radix -> value radix (trim_zeros s) = value radix s.
Proof.
  intros Hr. induction s as [|c r IH]; [reflexivity|]. cbn [trim_zeros].
  destruct (c =? 48) eqn:E; [|reflexivity]. apply N.eqb_eq in E. subst c.
  rewrite IH. unfold value. cbn [value_acc]. rewrite (to_digit_48 radix Hr). reflexivity.
Qed.

Lemma trim_valid radix s : Forall (valid radix) s -> Forall (valid radix) (trim_zeros s).
Proof.
  induction s as [|c r IH]; intros H; [constructor|]. inversion H; subst. cbn [trim_zeros].
  destruct (c =? 48); [now apply IH|assumption].
Qed.

Lemma trim_head s c r : trim_zeros s = c :: r -> c <> 48.
Proof.
  induction s as [|x t IH]; [discriminate|]. cbn [trim_zeros]. destruct (x =? 48) eqn:E; [apply IH|].
  intros H. injection H as -> _. now apply N.eqb_neq.
Qed.

(* a digit string whose first digit is not zero denotes at least radix^(len-1) *)
Lemma value_lower radix c r : 0 < radix -> Forall (valid radix) (c :: r) -> c <> 48 ->
  radix ^ N.of_nat (length r) <= value radix (c :: r).
Proof.
  intros Hr Hv Hc. inversion Hv as [|? ? Hcv Hrv]; subst. unfold valid in Hcv.
  unfold value. cbn [value_acc]. destruct (to_digit radix c) as [d|] eqn:Ed; [|contradiction].
  assert (Hd : 1 <= d). { destruct d; [apply to_digit_zero in Ed; contradiction|lia]. }
  destruct (value_acc_lin radix Hr r (0 * radix + d) Hrv) as [E _]. rewrite E. nia.
Qed.

Lemma scan_rest_spec radix : 0 < radix -> forall s extra sticky, Forall (valid radix) s ->
  scan_rest radix s extra sticky = Ok ((extra + length s)%nat, (sticky || negb (value radix s =? 0))%bool).
Proof.
  intros Hr. induction s as [|c r IH]; intros extra sticky Hv.
  - cbn. rewrite Nat.add_0_r, orb_false_r. reflexivity.
  - inversion Hv as [|? ? Hc Hr']; subst. unfold valid in Hc. cbn [scan_rest].
    destruct (to_digit radix c) as [d|] eqn:Ed; [|contradiction].
    rewrite IH by assumption. cbn [length]. f_equal. f_equal; [lia|].
    unfold value at 2. cbn [value_acc]. rewrite Ed.
    destruct (value_acc_lin radix Hr r (0 * radix + d) Hr') as [E B]. rewrite E.
    assert (P : 0 < radix ^ N.of_nat (length r)) by (apply N.neq_0_lt_0, N.pow_nonzero; lia).
    rewrite <- orb_assoc. f_equal.
    destruct (d =? 0) eqn:E0.
    + apply N.eqb_eq in E0. subst d. cbn [negb orb].
      replace ((0 * radix + 0) * radix ^ N.of_nat (length r) + value radix r) with (value radix r) by lia. reflexivity.
    + apply N.eqb_neq in E0. cbn [negb orb]. symmetry. apply negb_true_iff. apply N.eqb_neq.
      assert (1 <= d) by lia. nia.
Qed.

Lemma split_chars_long s n : (n < length s)%nat ->
  length (fst (split_chars s n)) = n /\ snd (split_chars s n) <> [].
Proof.
  revert s. induction n as [|n IH]; intros s H.
  - destruct s; [cbn in H; lia|]. split; [reflexivity|discriminate].
  - destruct s as [|c r]; [cbn in H; lia|]. cbn [split_chars fst snd length].
    destruct (IH r) as [E N]; [cbn in H; lia|]. split; [now rewrite E|exact N].
Qed.

Lemma lor1_set_low n : Z.of_N (N.lor n 1) = set_low (Z.of_N n).
Proof.
  unfold set_low. destruct n as [|p]; [reflexivity|]. destruct p; reflexivity.
Qed.

(* ---- the theorem -------------------------------------------------------------------- *)

Theorem radix_long_is_rne : forall radix s, radix_ok radix -> s <> [] -> Forall (valid radix) s ->
  parse_num_radix radix s =
    (if f_is_finite (f_of_N (value radix s)) then Ok (f_of_N (value radix s)) else Err ROverflow).
Proof.
  intros radix s Hr Hs Hv.
  assert (Hpos : 0 < radix) by (destruct Hr as [->| ->]; reflexivity).
  pose proof (trim_valid radix s Hv) as Hvt. rewrite <- (value_trim radix s Hr).
  set (k := N.to_nat (max_digits_128 radix)).
  destruct (le_lt_dec (length (trim_zeros s)) k) as [Hshort|Hlong].
  { destruct (radix_value_exact radix s Hr Hs Hvt Hshort) as [E B]. rewrite E.
    assert (Hfin : f_is_finite (f_of_N (value radix (trim_zeros s))) = true).
    { unfold f_of_N. apply f_of_Z_finite_small. rewrite Z.abs_eq by lia.
      change (2 ^ 128)%Z with (Z.of_N (2 ^ 128)). lia. }
    now rewrite Hfin. }
  unfold parse_num_radix. destruct s as [|c0 s0]; [contradiction|].
  set (t := trim_zeros (c0 :: s0)) in *. fold k.
  pose proof (split_chars_app t k) as Happ. destruct (split_chars_long t k Hlong) as [Hlen Htl].
  set (hd := fst (split_chars t k)) in *. set (tl := snd (split_chars t k)) in *.
  assert (Hvhd : Forall (valid radix) hd /\ Forall (valid radix) tl) by (apply Forall_app; now rewrite Happ).
  destruct Hvhd as [Hvhd Hvtl].
  destruct (first_chunk_ok radix hd Hr Hvhd) as [E Bhd]; [lia|]. rewrite E. cbn [obind].
  rewrite (scan_rest_spec radix Hpos tl 0 false Hvtl). cbn [obind fst snd orb Nat.add].
  set (n := value radix hd) in *. set (tv := value radix tl).
  (* size of the first chunk: its leading digit is not zero *)
  assert (Hk : (1 <= k)%nat) by (unfold k; destruct Hr as [->| ->]; cbv; lia).
  assert (Hnlow : radix ^ N.of_nat (k - 1) <= n).
  { destruct hd as [|c r] eqn:Ehd; [cbn in Hlen; lia|].
    assert (Hc : c <> 48).
    { apply (trim_head (c0 :: s0) c (r ++ tl)). fold t. rewrite <- Happ. reflexivity. }
    pose proof (value_lower radix c r Hpos Hvhd Hc) as L. cbn [length] in Hlen.
    replace (k - 1)%nat with (length r) by lia. exact L. }
  rewrite Hlen in Bhd.
  destruct (value_acc_lin radix Hpos tl 0 Hvtl) as [_ Btv]. fold tv in Btv.
  assert (Evalue : value radix t = n * radix ^ N.of_nat (length tl) + tv).
  { rewrite <- Happ. now apply value_app. }
  rewrite Evalue.
  (* move to Z *)
  set (b := bits_per radix). assert (Hb : (3 <= b <= 4)%Z) by (unfold b; destruct Hr as [->| ->]; cbv; split; discriminate).
  set (j := Z.of_nat (length tl)).
  assert (Hj : (0 <= j)%Z) by (unfold j; lia).
  assert (Epow : forall x, Z.of_N (radix ^ N.of_nat x) = (2 ^ (b * Z.of_nat x))%Z).
  { intros x. rewrite N2Z.inj_pow, (radix_pow2 radix Hr). fold b. rewrite <- Z.pow_mul_r by lia.
    f_equal. lia. }
  set (nz := Z.of_N n). set (tz := Z.of_N tv).
  assert (Hnz_lo : (2 ^ (b * Z.of_nat (k - 1)) <= nz)%Z) by (unfold nz; rewrite <- Epow; lia).
  assert (Hnz_hi : (nz < 2 ^ (b * Z.of_nat k))%Z) by (unfold nz; rewrite <- Epow; lia).
  assert (Htz : (0 <= tz < 2 ^ (b * j))%Z) by (unfold tz, j; rewrite <- Epow; lia).
  assert (Hbk : (123 <= b * Z.of_nat (k - 1) /\ b * Z.of_nat k <= 128)%Z).
  { unfold b, k. destruct Hr as [->| ->]; cbv; split; discriminate. }
  assert (Hnz_pos : (0 < nz)%Z).
  { assert (0 < 2 ^ (b * Z.of_nat (k - 1)))%Z by (apply Z.pow_pos_nonneg; lia). lia. }
  assert (HDn : (124 <= Zdigits2 nz <= 128)%Z).
  { pose proof (zdigits2_bounds nz Hnz_pos) as [Dlo Dhi]. split.
    - destruct (Z_lt_le_dec (Zdigits2 nz) 124) as [H|H]; [|exact H]. exfalso.
      assert (2 ^ Zdigits2 nz <= 2 ^ 123)%Z.
      { destruct (Z_lt_le_dec (Zdigits2 nz) 0); [rewrite Z.pow_neg_r by lia; lia|]. apply Z.pow_le_mono_r; lia. }
      assert (2 ^ 123 <= 2 ^ (b * Z.of_nat (k - 1)))%Z by (apply Z.pow_le_mono_r; lia). lia.
    - destruct (Z_lt_le_dec 128 (Zdigits2 nz)) as [H|H]; [|exact H]. exfalso.
      assert (2 ^ 128 <= 2 ^ (Zdigits2 nz - 1))%Z by (apply Z.pow_le_mono_r; lia).
      assert (2 ^ (b * Z.of_nat k) <= 2 ^ 128)%Z by (apply Z.pow_le_mono_r; lia). lia. }
  (* the number fed to the conversion *)
  set (n' := if negb (tv =? 0) then N.lor n 1 else n).
  assert (En' : Z.of_N n' = (if (tz =? 0)%Z then nz else set_low nz)).
  { unfold n', tz. destruct (N.eqb_spec tv 0) as [->|Ht]; [reflexivity|]. cbn [negb].
    replace (Z.of_N tv =? 0)%Z with false by (symmetry; apply Z.eqb_neq; lia). apply lor1_set_low. }
  assert (Hn'pos : (0 < Z.of_N n')%Z).
  { rewrite En'. destruct (tz =? 0)%Z; [lia|]. pose proof (set_low_bounds nz ltac:(lia)). lia. }
  assert (HDn' : Zdigits2 (Z.of_N n') = Zdigits2 nz).
  { rewrite En'. destruct (tz =? 0)%Z; [reflexivity|]. apply digits_set_low; lia. }
  destruct (big_result_shape (Z.of_N n') Hn'pos ltac:(lia)) as [mx [ex [Hmx [Hex Hshape]]]].
  assert (Fn' : f_of_N n' = S754_finite false mx ex).
  { unfold f_of_N. rewrite f_of_Z_big by lia. rewrite Hshape. rewrite Z.add_0_l.
    replace (ex <=? 971)%Z with true by (symmetry; apply Z.leb_le; lia). reflexivity. }
  fold n'. rewrite Fn'.
  rewrite (scale_finite radix Hr (length tl) mx ex Hmx ltac:(lia)). fold b j.
  (* the whole integer *)
  assert (FN : f_of_N (n * radix ^ N.of_nat (length tl) + tv) =
               if (ex + b * j <=? 971)%Z then S754_finite false mx (ex + b * j) else S754_infinity false).
  { unfold f_of_N. rewrite N2Z.inj_add, N2Z.inj_mul, Epow. fold nz tz j.
    assert (HDN : Zdigits2 (nz * 2 ^ (b * j) + tz) = (Zdigits2 nz + b * j)%Z) by (apply digits_scale; lia).
    rewrite f_of_Z_big; [|nia|rewrite HDN; lia].
    rewrite (big_result_sticky false nz tz (b * j) 0) by lia.
    rewrite <- En'. rewrite Hshape. rewrite Z.add_0_l. rewrite (Z.add_comm (b * j) ex). reflexivity. }
  rewrite FN. destruct (ex + b * j <=? 971)%Z; reflexivity.
Qed.
