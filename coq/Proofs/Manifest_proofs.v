(* Proofs/Manifest_proofs.v — the manifested text of a JSON value, read by the
   specification-level decoder of Model/JsonDec.v, is the value (any whitespace format, any
   nesting); whitespace erasure maps every whitespace format to the minified text. *)
From RJ Require Import Base.Outcome Base.F64 Model.Token Model.JsonEsc Model.JsonDec Model.Manifest
  Proofs.JsonEsc_proofs.
From Coq Require Import Lia.
Local Open Scope N_scope.

(* ---------------------------------------------------------------- induction on values *)
Section JInd.
Variable P : jvalue -> Prop.
Hypothesis Hnull : P JNull.
Hypothesis Hbool : forall b, P (JBool b).
Hypothesis Hnum : forall x, P (JNum x).
Hypothesis Hstr : forall s, P (JStr s).
Hypothesis Harr : forall l, Forall P l -> P (JArr l).
Hypothesis Hobj : forall ms, Forall (fun kv => P (snd kv)) ms -> P (JObj ms).

Fixpoint jvalue_ind' (v : jvalue) : P v :=
  match v with
  | JNull => Hnull
  | JBool b => Hbool b
  | JNum x => Hnum x
  | JStr s => Hstr s
  | JArr l =>
      Harr l ((fix go (l : list jvalue) : Forall P l :=
                 match l with
                 | [] => Forall_nil _
                 | x :: r => Forall_cons x (jvalue_ind' x) (go r)
                 end) l)
  | JObj ms =>
      Hobj ms ((fix go (ms : list (str * jvalue)) : Forall (fun kv => P (snd kv)) ms :=
                  match ms with
                  | [] => Forall_nil _
                  | kv :: r => Forall_cons kv (jvalue_ind' (snd kv)) (go r)
                  end) ms)
  end.
End JInd.

(* ---------------------------------------------------------------- whitespace *)
Lemma all_ws_nil : all_ws [].
Proof. reflexivity. Qed.

Lemma all_ws_app : forall a b, all_ws a -> all_ws b -> all_ws (a ++ b).
Proof. unfold all_ws. intros a b Ha Hb. rewrite forallb_app, Ha, Hb. reflexivity. Qed.

Lemma all_ws_repeat : forall s n, all_ws s -> all_ws (repeat_str s n).
Proof. intros s n H. induction n as [|n IH]; [reflexivity|]. cbn [repeat_str]. apply all_ws_app; assumption. Qed.

Lemma skip_ws_app : forall w s, all_ws w -> skip_ws (w ++ s) = skip_ws s.
Proof.
  induction w as [|c w IH]; intros s H; [reflexivity|].
  unfold all_ws in H. cbn [forallb] in H. apply andb_true_iff in H as [Hc Hw].
  cbn [app skip_ws]. rewrite Hc. apply IH. exact Hw.
Qed.

Lemma skip_ws_nonws : forall c r, is_ws c = false -> skip_ws (c :: r) = c :: r.
Proof. intros c r H. cbn [skip_ws]. rewrite H. reflexivity. Qed.

Lemma skip_ws_ws_then : forall w c r, all_ws w -> is_ws c = false -> skip_ws (w ++ c :: r) = c :: r.
Proof. intros w c r Hw Hc. rewrite skip_ws_app by exact Hw. apply skip_ws_nonws. exact Hc. Qed.

Lemma item_indent_ws : forall fmt d, all_ws (indent fmt) -> all_ws (item_indent fmt d).
Proof.
  intros fmt d H. unfold item_indent. destruct (is_empty_str (indent fmt)); [reflexivity|].
  apply all_ws_repeat. exact H.
Qed.

(* ---------------------------------------------------------------- numbers *)
Lemma numchar_not_ws : forall c, is_numchar c = true -> is_ws c = false.
Proof.
  intros c H. unfold is_ws.
  destruct (N.eqb_spec c 32) as [->|_]; [discriminate H|].
  destruct (N.eqb_spec c 9) as [->|_]; [discriminate H|].
  destruct (N.eqb_spec c 10) as [->|_]; [discriminate H|].
  destruct (N.eqb_spec c 13) as [->|_]; [discriminate H|].
  reflexivity.
Qed.

Lemma ws_not_numchar : forall c, is_ws c = true -> is_numchar c = false.
Proof.
  intros c H. destruct (is_numchar c) eqn:E; [|reflexivity].
  rewrite (numchar_not_ws c E) in H. discriminate.
Qed.

Lemma dig_numchar : forall c, is_dig c = true -> is_numchar c = true.
Proof. intros c H. unfold is_numchar. rewrite H. reflexivity. Qed.

Lemma skip_digits_split : forall s, exists p, s = p ++ skip_digits s /\ forallb is_numchar p = true.
Proof.
  induction s as [|c s [p [E H]]].
  - exists []. split; reflexivity.
  - cbn [skip_digits]. destruct (is_dig c) eqn:D.
    + exists (c :: p). split; [cbn [app]; f_equal; exact E|].
      cbn [forallb]. rewrite (dig_numchar c D), H. reflexivity.
    + exists []. split; reflexivity.
Qed.

Lemma digits1_split : forall s r, digits1 s = Some r -> exists p, s = p ++ r /\ forallb is_numchar p = true.
Proof.
  intros [|c s] r H; [discriminate|]. cbn [digits1] in H. destruct (is_dig c) eqn:D; [|discriminate].
  injection H as <-. destruct (skip_digits_split s) as [p [E Hp]].
  exists (c :: p). split; [cbn [app]; f_equal; exact E|].
  cbn [forallb]. rewrite (dig_numchar c D), Hp. reflexivity.
Qed.

Lemma json_int_split : forall s r, json_int s = Some r -> exists p, s = p ++ r /\ forallb is_numchar p = true.
Proof.
  intros [|c s] r H; [discriminate|]. cbn [json_int] in H.
  destruct (N.eqb_spec c 48) as [->|_].
  - injection H as <-. exists [48]. split; reflexivity.
  - destruct (is_dig c) eqn:D; [|discriminate]. injection H as <-.
    destruct (skip_digits_split s) as [p [E Hp]].
    exists (c :: p). split; [cbn [app]; f_equal; exact E|].
    cbn [forallb]. rewrite (dig_numchar c D), Hp. reflexivity.
Qed.

Lemma json_frac_split : forall s r, json_frac s = Some r -> exists p, s = p ++ r /\ forallb is_numchar p = true.
Proof.
  intros [|c s] r H.
  - injection H as <-. exists []. split; reflexivity.
  - cbn [json_frac] in H. destruct (N.eqb_spec c 46) as [->|_].
    + destruct (digits1_split s r H) as [p [E Hp]]. exists (46 :: p). split; [cbn [app]; f_equal; exact E|].
      cbn [forallb]. rewrite Hp. reflexivity.
    + injection H as <-. exists []. split; reflexivity.
Qed.

Lemma json_exp_split : forall s r, json_exp s = Some r -> exists p, s = p ++ r /\ forallb is_numchar p = true.
Proof.
  intros [|c s] r H.
  - injection H as <-. exists []. split; reflexivity.
  - cbn [json_exp] in H. destruct ((c =? 101) || (c =? 69)) eqn:E.
    + assert (Hc : is_numchar c = true).
      { unfold is_numchar. apply orb_true_iff in E as [E|E]; rewrite E; repeat rewrite orb_true_r; reflexivity. }
      destruct s as [|sg s']; [discriminate|].
      destruct ((sg =? 43) || (sg =? 45)) eqn:G.
      * assert (Hs : is_numchar sg = true).
        { unfold is_numchar. apply orb_true_iff in G as [G|G]; rewrite G; repeat rewrite orb_true_r; reflexivity. }
        destruct (digits1_split s' r H) as [p [Ep Hp]]. exists (c :: sg :: p).
        split; [cbn [app]; do 2 f_equal; exact Ep|]. cbn [forallb]. rewrite Hc, Hs, Hp. reflexivity.
      * destruct (digits1_split (sg :: s') r H) as [p [Ep Hp]]. exists (c :: p).
        split; [cbn [app]; f_equal; exact Ep|]. cbn [forallb]. rewrite Hc, Hp. reflexivity.
    + injection H as <-. exists []. split; reflexivity.
Qed.

Lemma json_number_numchars : forall n, is_json_number n = true -> forallb is_numchar n = true /\ n <> [].
Proof.
  intros n H. unfold is_json_number in H.
  set (s1 := match n with c :: r => if c =? 45 then r else n | [] => n end) in H.
  assert (Hn : exists p, n = p ++ s1 /\ forallb is_numchar p = true).
  { subst s1. destruct n as [|c r]; [exists []; split; reflexivity|].
    destruct (N.eqb_spec c 45) as [->|_]; [exists [45]; split; reflexivity|exists []; split; reflexivity]. }
  destruct Hn as [p0 [E0 H0]].
  destruct (json_int s1) as [s2|] eqn:E1; [|discriminate].
  destruct (json_frac s2) as [s3|] eqn:E2; [|discriminate].
  destruct (json_exp s3) as [[|? ?]|] eqn:E3; try discriminate.
  destruct (json_int_split _ _ E1) as [p1 [F1 H1]].
  destruct (json_frac_split _ _ E2) as [p2 [F2 H2]].
  destruct (json_exp_split _ _ E3) as [p3 [F3 H3]].
  split.
  - rewrite E0, F1, F2, F3. rewrite !forallb_app, H0, H1, H2, H3. reflexivity.
  - intros ->. destruct p0; [|discriminate E0]. cbn [app] in E0. subst s1. discriminate E1.
Qed.

Definition tail_ok (rest : str) : Prop :=
  match rest with
  | [] => True
  | c :: _ => is_numchar c = false
  end.

Lemma span_num_app : forall n rest, forallb is_numchar n = true -> tail_ok rest -> span_num (n ++ rest) = (n, rest).
Proof.
  induction n as [|c n IH]; intros rest Hn Ht.
  - cbn [app]. destruct rest as [|c r]; [reflexivity|]. cbn [span_num]. cbn [tail_ok] in Ht. rewrite Ht. reflexivity.
  - cbn [forallb] in Hn. apply andb_true_iff in Hn as [Hc Hn]. cbn [app span_num]. rewrite Hc.
    rewrite (IH rest Hn Ht). reflexivity.
Qed.

Lemma tail_ok_ws_then : forall w c r, all_ws w -> is_numchar c = false -> tail_ok (w ++ c :: r).
Proof.
  intros [|x w] c r Hw Hc; cbn [app tail_ok]; [exact Hc|].
  unfold all_ws in Hw. cbn [forallb] in Hw. apply andb_true_iff in Hw as [Hx _].
  apply ws_not_numchar. exact Hx.
Qed.

(* ---------------------------------------------------------------- cost (fuel) of a value *)
Fixpoint cost (v : jvalue) : nat :=
  match v with
  | JArr l => S (list_sum (map (fun x => S (cost x)) l))
  | JObj ms => S (list_sum (map (fun kv => S (cost (snd kv))) ms))
  | _ => 1
  end.

Lemma list_sum_cons : forall a l, list_sum (a :: l) = (a + list_sum l)%nat.
Proof. reflexivity. Qed.

Lemma join_cons2 : forall sep x r, r <> [] -> join sep (x :: r) = x ++ sep ++ join sep r.
Proof. intros sep x [|y r] H; [contradiction H; reflexivity|reflexivity]. Qed.

Lemma join_single : forall sep x, join sep [x] = x.
Proof. reflexivity. Qed.

(* ---------------------------------------------------------------- round trip *)
Section RoundTrip.
Variable okn : f64 -> Prop.
Let fin (v : jvalue) : Prop := Forall okn (nums_of v).
Variable show : f64 -> str.
Variable read : str -> option f64.
Hypothesis read_show : forall x, okn x -> read (show x) = Some x.
Hypothesis show_number : forall x, okn x -> is_json_number (show x) = true.
Variable fmt : json_format.
Hypothesis WF : ws_format fmt.

Lemma parse_value_skip : forall fuel w s, all_ws w -> parse_value read fuel (w ++ s) = parse_value read fuel s.
Proof.
  intros [|f] w s H; [reflexivity|].
  cbn [parse_value]. rewrite (skip_ws_app w s H). reflexivity.
Qed.

Lemma parse_members_skip : forall fuel w s, all_ws w -> parse_members read fuel (w ++ s) = parse_members read fuel s.
Proof.
  intros [|f] w s H; [reflexivity|].
  cbn [parse_members]. rewrite (skip_ws_app w s H). reflexivity.
Qed.

(* the statement proved by induction on the value *)
Definition rt (v : jvalue) : Prop :=
  fin v -> forall d rest fuel, tail_ok rest -> (cost v <= fuel)%nat ->
  parse_value read fuel (manifest show fmt d v ++ rest) = Some (v, rest).

(* first code point of a manifested value: not whitespace, not a closing bracket *)
Definition head_ok (t : str) : Prop :=
  exists c r, t = c :: r /\ is_ws c = false /\ c <> 93 /\ c <> 125.

Lemma empty_form_shape : forall o c d e, bracket_shape o c e ->
  exists w, all_ws w /\ empty_form fmt o c d e = o :: w ++ [c].
Proof.
  intros o c d [s|] H; cbn [empty_form].
  - destruct H as [w [E Hw]]. exists w. split; [exact Hw|exact E].
  - exists (newline fmt ++ newline fmt ++ repeat_str (indent fmt) d). split.
    + apply all_ws_app; [apply WF|]. apply all_ws_app; [apply WF|]. apply all_ws_repeat. apply WF.
    + cbn [app]. rewrite <- !app_assoc. reflexivity.
Qed.

Lemma manifest_head : forall v d, fin v -> head_ok (manifest show fmt d v).
Proof.
  intros v d Hf. destruct v as [|b|x|s|l|ms]; cbn [manifest].
  - exists 110, [117; 108; 108]. repeat split; discriminate.
  - destruct b; [exists 116, [114; 117; 101]|exists 102, [97; 108; 115; 101]]; repeat split; discriminate.
  - assert (Hx : okn x). { unfold fin in Hf. cbn [nums_of] in Hf. inversion Hf; assumption. }
    destruct (json_number_numchars _ (show_number x Hx)) as [Hn Hne].
    destruct (show x) as [|c r]; [contradiction Hne; reflexivity|].
    cbn [forallb] in Hn. apply andb_true_iff in Hn as [Hc _].
    exists c, r. repeat split.
    + apply numchar_not_ws. exact Hc.
    + intros ->. discriminate Hc.
    + intros ->. discriminate Hc.
  - exists 34, (escape_body s ++ [34]). repeat split; discriminate.
  - destruct l as [|v l].
    + destruct (empty_form_shape 91 93 d (empty_array fmt) (wf_ea fmt WF)) as [w [_ E]]. rewrite E.
      exists 91, (w ++ [93]). repeat split; discriminate.
    + eexists 91, _. repeat split; discriminate.
  - destruct ms as [|kv ms].
    + destruct (empty_form_shape 123 125 d (empty_object fmt) (wf_eo fmt WF)) as [w [_ E]]. rewrite E.
      exists 123, (w ++ [125]). repeat split; discriminate.
    + eexists 123, _. repeat split; discriminate.
Qed.

Lemma fin_arr_cons : forall v l, fin (JArr (v :: l)) -> fin v /\ fin (JArr l).
Proof. unfold fin. intros v l H. cbn [nums_of flat_map] in H. apply Forall_app in H. exact H. Qed.

Lemma fin_obj_cons : forall kv ms, fin (JObj (kv :: ms)) -> fin (snd kv) /\ fin (JObj ms).
Proof. unfold fin. intros kv ms H. cbn [nums_of flat_map] in H. apply Forall_app in H. exact H. Qed.

Definition item_text (d : nat) (it : jvalue) : str := item_indent fmt d ++ manifest show fmt (S d) it.
Definition member_text (d : nat) (kv : str * jvalue) : str :=
  item_indent fmt d ++ escape_string_json (fst kv) ++ key_val_sep fmt ++ manifest show fmt (S d) (snd kv).

Lemma tail_ok_close : forall c d rest, is_numchar c = false ->
  tail_ok (newline fmt ++ repeat_str (indent fmt) d ++ c :: rest).
Proof.
  intros c d rest Hc. rewrite app_assoc. apply tail_ok_ws_then; [|exact Hc].
  apply all_ws_app; [apply WF|apply all_ws_repeat; apply WF].
Qed.

Lemma skip_close : forall c d rest, is_ws c = false ->
  skip_ws (newline fmt ++ repeat_str (indent fmt) d ++ c :: rest) = c :: rest.
Proof.
  intros c d rest Hc. rewrite app_assoc. apply skip_ws_ws_then; [|exact Hc].
  apply all_ws_app; [apply WF|apply all_ws_repeat; apply WF].
Qed.

(* elements after the opening bracket (or after a comma), up to and including the closing bracket *)
Lemma parse_elems_ok : forall l, Forall rt l -> l <> [] -> fin (JArr l) ->
  forall d w rest fuel, all_ws w ->
  (list_sum (map (fun x => S (cost x)) l) <= fuel)%nat ->
  parse_elems read fuel
    (w ++ join (item_sep fmt ++ newline fmt) (map (item_text d) l)
       ++ newline fmt ++ repeat_str (indent fmt) d ++ 93 :: rest) = Some (l, rest).
Proof.
  induction l as [|v l IH]; intros HF Hne Hfin d w rest fuel Hw Hfuel; [contradiction Hne; reflexivity|].
  inversion HF as [|? ? Hv HFl]; subst.
  destruct (fin_arr_cons _ _ Hfin) as [Hfv Hfl].
  cbn [map] in Hfuel. rewrite list_sum_cons in Hfuel.
  destruct fuel as [|f]; [inversion Hfuel|].
  assert (Hcv : (cost v <= f)%nat) by lia.
  assert (Hcl : (list_sum (map (fun x => S (cost x)) l) <= f)%nat) by lia.
  destruct (wf_item fmt WF) as [w1 [w2 [Esep [Hw1 Hw2]]]].
  cbn [parse_elems map].
  destruct l as [|v2 l].
  - (* last element *)
    rewrite join_single. unfold item_text at 1. rewrite <- !app_assoc.
    rewrite parse_value_skip by exact Hw.
    rewrite parse_value_skip by (apply item_indent_ws; apply WF).
    rewrite (Hv Hfv (S d) _ f); [|apply tail_ok_close; reflexivity|exact Hcv].
    rewrite skip_close by reflexivity. reflexivity.
  - rewrite join_cons2 by discriminate. set (J := join _ (map _ _)). unfold item_text at 1. rewrite <- !app_assoc.
    rewrite parse_value_skip by exact Hw.
    rewrite parse_value_skip by (apply item_indent_ws; apply WF).
    rewrite Esep. rewrite <- !app_assoc. cbn [app].
    rewrite (Hv Hfv (S d) _ f); [|apply tail_ok_ws_then; [exact Hw1|reflexivity]|exact Hcv].
    rewrite skip_ws_ws_then by (try exact Hw1; reflexivity).
    cbn [N.eqb Pos.eqb].
    rewrite app_assoc. subst J.
    rewrite (IH HFl ltac:(discriminate) Hfl d (w2 ++ newline fmt) rest f);
      [reflexivity|apply all_ws_app; [exact Hw2|apply WF]|exact Hcl].
Qed.

Lemma parse_members_ok : forall ms, Forall (fun kv => rt (snd kv)) ms -> ms <> [] -> fin (JObj ms) ->
  forall d w rest fuel, all_ws w ->
  (list_sum (map (fun kv => S (cost (snd kv))) ms) <= fuel)%nat ->
  parse_members read fuel
    (w ++ join (item_sep fmt ++ newline fmt) (map (member_text d) ms)
       ++ newline fmt ++ repeat_str (indent fmt) d ++ 125 :: rest) = Some (ms, rest).
Proof.
  induction ms as [|[k v] ms IH]; intros HF Hne Hfin d w rest fuel Hw Hfuel; [contradiction Hne; reflexivity|].
  inversion HF as [|? ? Hv HFl]; subst. cbn [snd] in Hv.
  destruct (fin_obj_cons _ _ Hfin) as [Hfv Hfl]. cbn [snd] in Hfv.
  cbn [map snd] in Hfuel. rewrite list_sum_cons in Hfuel.
  destruct fuel as [|f]; [inversion Hfuel|].
  assert (Hcv : (cost v <= f)%nat) by lia.
  assert (Hcl : (list_sum (map (fun kv => S (cost (snd kv))) ms) <= f)%nat) by lia.
  destruct (wf_item fmt WF) as [w1 [w2 [Esep [Hw1 Hw2]]]].
  destruct (wf_kvs fmt WF) as [k1 [k2 [Ekvs [Hk1 Hk2]]]].
  cbn [parse_members map].
  assert (Hkey : forall tl, lex_string (skip_ws (w ++ member_text d (k, v) ++ tl))
                 = Some (k, key_val_sep fmt ++ manifest show fmt (S d) v ++ tl)).
  { intros tl. unfold member_text. cbn [fst snd]. rewrite <- !app_assoc.
    rewrite skip_ws_app by exact Hw.
    rewrite skip_ws_app by (apply item_indent_ws; apply WF).
    unfold escape_string_json at 1. cbn [app]. rewrite skip_ws_nonws by reflexivity.
    change (34 :: (escape_body k ++ [34]) ++ key_val_sep fmt ++ manifest show fmt (S d) v ++ tl)
      with (escape_string_json k ++ key_val_sep fmt ++ manifest show fmt (S d) v ++ tl).
    apply unescape_escape. }
  destruct ms as [|kv2 ms].
  - rewrite join_single. rewrite Hkey.
    rewrite Ekvs. rewrite <- !app_assoc. cbn [app].
    rewrite skip_ws_ws_then by (try exact Hk1; reflexivity).
    cbn [N.eqb Pos.eqb].
    rewrite parse_value_skip by exact Hk2.
    rewrite (Hv Hfv (S d) _ f); [|apply tail_ok_close; reflexivity|exact Hcv].
    rewrite skip_close by reflexivity. reflexivity.
  - rewrite join_cons2 by discriminate. set (J := join _ (map _ _)). rewrite <- !app_assoc. rewrite Hkey.
    rewrite Ekvs. rewrite <- !app_assoc. cbn [app].
    rewrite skip_ws_ws_then by (try exact Hk1; reflexivity).
    cbn [N.eqb Pos.eqb].
    rewrite parse_value_skip by exact Hk2.
    rewrite Esep. rewrite <- !app_assoc. cbn [app].
    rewrite (Hv Hfv (S d) _ f); [|apply tail_ok_ws_then; [exact Hw1|reflexivity]|exact Hcv].
    rewrite skip_ws_ws_then by (try exact Hw1; reflexivity).
    cbn [N.eqb Pos.eqb].
    rewrite app_assoc. subst J.
    rewrite (IH HFl ltac:(discriminate) Hfl d (w2 ++ newline fmt) rest f);
      [reflexivity|apply all_ws_app; [exact Hw2|apply WF]|exact Hcl].
Qed.

Lemma parse_value_S : forall f s,
  parse_value read (S f) s =
  match skip_ws s with
  | [] => None
  | c :: r =>
      if c =? 110 then option_map (fun r' => (JNull, r')) (expect [117; 108; 108] r)
      else if c =? 116 then option_map (fun r' => (JBool true, r')) (expect [114; 117; 101] r)
      else if c =? 102 then option_map (fun r' => (JBool false, r')) (expect [97; 108; 115; 101] r)
      else if c =? 34 then
        match lex_string (c :: r) with
        | Some (str, r') => Some (JStr str, r')
        | None => None
        end
      else if c =? 91 then
        match skip_ws r with
        | [] => None
        | c2 :: r2 =>
            if c2 =? 93 then Some (JArr [], r2)
            else match parse_elems read f r with
                 | Some (vs, r') => Some (JArr vs, r')
                 | None => None
                 end
        end
      else if c =? 123 then
        match skip_ws r with
        | [] => None
        | c2 :: r2 =>
            if c2 =? 125 then Some (JObj [], r2)
            else match parse_members read f r with
                 | Some (ms, r') => Some (JObj ms, r')
                 | None => None
                 end
        end
      else if is_numchar c then
        let (tok, r') := span_num (c :: r) in
        if is_json_number tok then
          match read tok with
          | Some x => Some (JNum x, r')
          | None => None
          end
        else None
      else None
  end.
Proof. reflexivity. Qed.

Lemma numchar_dispatch : forall c, is_numchar c = true ->
  (c =? 110) = false /\ (c =? 116) = false /\ (c =? 102) = false /\ (c =? 34) = false
  /\ (c =? 91) = false /\ (c =? 123) = false.
Proof.
  intros c H.
  repeat split; match goal with |- (c =? ?k) = false => destruct (N.eqb_spec c k) as [->|_]; [discriminate H|reflexivity] end.
Qed.

Theorem rt_all : forall v, rt v.
Proof.
  induction v as [|b|x|s|l IH|ms IH] using jvalue_ind'; unfold rt; intros Hf d rest fuel Ht Hfuel;
    (destruct fuel as [|f]; [cbn [cost] in Hfuel; inversion Hfuel|]).
  - reflexivity.
  - destruct b; reflexivity.
  - cbn [manifest].
    assert (Hx : okn x). { unfold fin in Hf. cbn [nums_of] in Hf. inversion Hf; assumption. }
    destruct (json_number_numchars _ (show_number x Hx)) as [Hn Hne].
    pose proof (show_number x Hx) as Hj. pose proof (read_show x Hx) as Hr.
    destruct (show x) as [|c r] eqn:Es; [contradiction Hne; reflexivity|].
    pose proof Hn as Hn'. cbn [forallb] in Hn'. apply andb_true_iff in Hn' as [Hc _].
    destruct (numchar_dispatch c Hc) as [E1 [E2 [E3 [E4 [E5 E6]]]]].
    cbn [app parse_value]. rewrite (skip_ws_nonws c _ (numchar_not_ws c Hc)).
    rewrite E1, E2, E3, E4, E5, E6, Hc.
    change (c :: r ++ rest) with ((c :: r) ++ rest).
    rewrite (span_num_app (c :: r) rest Hn Ht). rewrite Hj, Hr. reflexivity.
  - cbn [manifest]. unfold escape_string_json at 1. cbn [app parse_value skip_ws is_ws N.eqb Pos.eqb orb].
    change (34 :: (escape_body s ++ [34]) ++ rest) with (escape_string_json s ++ rest).
    rewrite unescape_escape. reflexivity.
  - destruct l as [|v l].
    + cbn [manifest].
      destruct (empty_form_shape 91 93 d (empty_array fmt) (wf_ea fmt WF)) as [w [Hw E]]. rewrite E.
      rewrite parse_value_S. cbn [app]. rewrite skip_ws_nonws by reflexivity. cbn [N.eqb Pos.eqb].
      rewrite <- app_assoc. cbn [app].
      rewrite skip_ws_ws_then by (try exact Hw; reflexivity). reflexivity.
    + cbn [manifest]. rewrite parse_value_S. cbn [app]. rewrite skip_ws_nonws by reflexivity.
      cbn [N.eqb Pos.eqb].
      fold (item_text d). rewrite <- !app_assoc. cbn [app].
      (* the first non-blank code point after the bracket is the head of the first item *)
      destruct (fin_arr_cons _ _ Hf) as [Hfv _].
      destruct (manifest_head v (S d) Hfv) as [c [r [Eh [Hws [Hn93 _]]]]].
      assert (Hskip : exists tl, skip_ws (newline fmt ++ join (item_sep fmt ++ newline fmt) (map (item_text d) (v :: l))
                                  ++ newline fmt ++ repeat_str (indent fmt) d ++ 93 :: rest) = c :: tl).
      { cbn [map]. destruct l as [|v2 l].
        - rewrite join_single. unfold item_text. rewrite Eh. rewrite <- !app_assoc. cbn [app].
          rewrite skip_ws_app by apply WF. rewrite skip_ws_app by (apply item_indent_ws; apply WF).
          rewrite skip_ws_nonws by exact Hws. eexists; reflexivity.
        - rewrite join_cons2 by discriminate. unfold item_text at 1. rewrite Eh. rewrite <- !app_assoc. cbn [app].
          rewrite skip_ws_app by apply WF. rewrite skip_ws_app by (apply item_indent_ws; apply WF).
          rewrite skip_ws_nonws by exact Hws. eexists; reflexivity. }
      destruct Hskip as [tl Hskip].
      match type of Hskip with skip_ws ?Y = _ =>
        match goal with |- match skip_ws ?X with _ => _ end = _ => change X with Y end end.
      rewrite Hskip.
      replace (c =? 93) with false by (symmetry; apply N.eqb_neq; exact Hn93).
      cbn [cost] in Hfuel.
      rewrite (parse_elems_ok (v :: l) IH ltac:(discriminate) Hf d (newline fmt) rest f);
        [reflexivity|apply WF|lia].
  - destruct ms as [|kv ms].
    + cbn [manifest].
      destruct (empty_form_shape 123 125 d (empty_object fmt) (wf_eo fmt WF)) as [w [Hw E]]. rewrite E.
      rewrite parse_value_S. cbn [app]. rewrite skip_ws_nonws by reflexivity. cbn [N.eqb Pos.eqb].
      rewrite <- app_assoc. cbn [app].
      rewrite skip_ws_ws_then by (try exact Hw; reflexivity). reflexivity.
    + cbn [manifest]. rewrite parse_value_S. cbn [app]. rewrite skip_ws_nonws by reflexivity.
      cbn [N.eqb Pos.eqb].
      fold (member_text d). rewrite <- !app_assoc. cbn [app].
      assert (Hskip : exists tl, skip_ws (newline fmt ++ join (item_sep fmt ++ newline fmt) (map (member_text d) (kv :: ms))
                                  ++ newline fmt ++ repeat_str (indent fmt) d ++ 125 :: rest) = 34 :: tl).
      { cbn [map]. destruct ms as [|kv2 ms].
        - rewrite join_single. unfold member_text, escape_string_json. rewrite <- !app_assoc. cbn [app].
          rewrite skip_ws_app by apply WF. rewrite skip_ws_app by (apply item_indent_ws; apply WF).
          rewrite skip_ws_nonws by reflexivity. eexists; reflexivity.
        - rewrite join_cons2 by discriminate. unfold member_text at 1, escape_string_json at 1. rewrite <- !app_assoc. cbn [app].
          rewrite skip_ws_app by apply WF. rewrite skip_ws_app by (apply item_indent_ws; apply WF).
          rewrite skip_ws_nonws by reflexivity. eexists; reflexivity. }
      destruct Hskip as [tl Hskip].
      match type of Hskip with skip_ws ?Y = _ =>
        match goal with |- match skip_ws ?X with _ => _ end = _ => change X with Y end end.
      rewrite Hskip. cbn [N.eqb Pos.eqb].
      cbn [cost] in Hfuel.
      rewrite (parse_members_ok (kv :: ms) IH ltac:(discriminate) Hf d (newline fmt) rest f);
        [reflexivity|apply WF|lia].
Qed.
End RoundTrip.

(* ---------------------------------------------------------------- the text is long enough to be its own fuel *)
Lemma join_length_bound : forall sep (cs : list nat) (ts : list str),
  (1 <= length sep)%nat -> Forall2 (fun c t => (c <= length t)%nat) cs ts -> cs <> [] ->
  (list_sum (map S cs) <= S (length (join sep ts)))%nat.
Proof.
  intros sep cs ts Hsep H. induction H as [|c t cs ts Hct Hrest IH]; intros Hne; [contradiction Hne; reflexivity|].
  cbn [map]. rewrite list_sum_cons.
  destruct Hrest as [|c2 t2 cs ts Hct2 Hrest].
  - cbn [map list_sum fold_right join]. lia.
  - rewrite join_cons2 by discriminate. rewrite !app_length.
    specialize (IH ltac:(discriminate)). lia.
Qed.

Section Length.
Variable okn : f64 -> Prop.
Let fin (v : jvalue) : Prop := Forall okn (nums_of v).
Variable show : f64 -> str.
Hypothesis show_number : forall x, okn x -> is_json_number (show x) = true.
Variable fmt : json_format.
Hypothesis WF : ws_format fmt.

Lemma item_sep_nonempty : (1 <= length (item_sep fmt ++ newline fmt))%nat.
Proof.
  destruct (wf_item fmt WF) as [w1 [w2 [E _]]]. rewrite E. rewrite !app_length. cbn [length]. lia.
Qed.

Lemma manifest_length : forall v d, fin v -> (cost v <= length (manifest show fmt d v))%nat.
Proof.
  induction v as [|b|x|s|l IH|ms IH] using jvalue_ind'; intros d Hf.
  - cbn. lia.
  - destruct b; cbn; lia.
  - cbn [manifest cost].
    assert (Hx : okn x). { unfold fin in Hf. cbn [nums_of] in Hf. inversion Hf; assumption. }
    destruct (json_number_numchars _ (show_number x Hx)) as [_ Hne].
    destruct (show x); [contradiction Hne; reflexivity|cbn [length]; lia].
  - cbn [manifest cost]. unfold escape_string_json. cbn [length]. lia.
  - destruct l as [|v l].
    + cbn [manifest cost map list_sum fold_right]. unfold empty_form.
      pose proof (wf_ea fmt WF) as B. destruct (empty_array fmt) as [e|] eqn:Ee.
      * destruct B as [w' [E' _]]. rewrite E'. cbn [length]. lia.
      * rewrite !app_length. cbn [length]. lia.
    + cbn [manifest cost]. rewrite !app_length. cbn [length].
      assert (F2 : Forall2 (fun c t => (c <= length t)%nat) (map cost (v :: l))
                     (map (fun it => item_indent fmt d ++ manifest show fmt (S d) it) (v :: l))).
      { clear -IH Hf. revert Hf. induction IH as [|x r Hx Hr IHr]; intros Hf; [constructor|].
        apply Forall_app in Hf as [Hfx Hfr]. cbn [map]. constructor.
        - rewrite app_length. specialize (Hx (S d) Hfx). lia.
        - apply IHr. exact Hfr. }
      pose proof (join_length_bound _ _ _ item_sep_nonempty F2 ltac:(discriminate)) as B.
      rewrite map_map in B. lia.
  - destruct ms as [|kv ms].
    + cbn [manifest cost map list_sum fold_right]. unfold empty_form.
      pose proof (wf_eo fmt WF) as B. destruct (empty_object fmt) as [e|] eqn:Ee.
      * destruct B as [w' [E' _]]. rewrite E'. cbn [length]. lia.
      * rewrite !app_length. cbn [length]. lia.
    + cbn [manifest cost]. rewrite !app_length. cbn [length].
      assert (F2 : Forall2 (fun c t => (c <= length t)%nat) (map (fun kv => cost (snd kv)) (kv :: ms))
                     (map (fun kv => item_indent fmt d ++ escape_string_json (fst kv) ++ key_val_sep fmt
                                     ++ manifest show fmt (S d) (snd kv)) (kv :: ms))).
      { clear -IH Hf. revert Hf. induction IH as [|x r Hx Hr IHr]; intros Hf; [constructor|].
        apply Forall_app in Hf as [Hfx Hfr]. cbn [map]. constructor.
        - rewrite !app_length. specialize (Hx (S d) Hfx). lia.
        - apply IHr. exact Hfr. }
      pose proof (join_length_bound _ _ _ item_sep_nonempty F2 ltac:(discriminate)) as B.
      rewrite map_map in B. lia.
Qed.
End Length.

(* ---------------------------------------------------------------- the built-in formats *)
Lemma ws_format_to_string : ws_format fmt_to_string.
Proof.
  constructor; cbn; try reflexivity.
  - exists [], [32]. repeat split.
  - exists [], [32]. repeat split.
  - exists [32]. repeat split.
  - exists [32]. repeat split.
Qed.

Lemma ws_format_manifest : ws_format fmt_manifest.
Proof.
  constructor; cbn; try reflexivity.
  - exists [], [32]. repeat split.
  - exists [], []. repeat split.
  - exists [32]. repeat split.
  - exists [32]. repeat split.
Qed.

Lemma ws_format_std_ex : forall i n k, all_ws i -> all_ws n -> sep_shape 58 k -> ws_format (fmt_std_ex i n k).
Proof.
  intros i n k Hi Hn Hk. constructor; cbn; try assumption; try exact I.
  exists [], []. repeat split.
Qed.

Lemma builtin_formats_ws :
  ws_format fmt_to_string /\ ws_format fmt_manifest /\ ws_format fmt_std_json /\ ws_format fmt_minified.
Proof.
  split; [exact ws_format_to_string|split; [exact ws_format_manifest|split]].
  - apply ws_format_std_ex; try reflexivity. exists [], [32]. repeat split.
  - apply ws_format_std_ex; try reflexivity. exists [], []. repeat split.
Qed.

(* ---------------------------------------------------------------- headline *)
Section Headline.
Variable okn : f64 -> Prop.
Let fin (v : jvalue) : Prop := Forall okn (nums_of v).
Variable show : f64 -> str.
Variable read : str -> option f64.
Hypothesis read_show : forall x, okn x -> read (show x) = Some x.
Hypothesis show_number : forall x, okn x -> is_json_number (show x) = true.

Theorem manifest_parse_roundtrip : forall fmt v d,
  ws_format fmt -> fin v -> decode read (manifest show fmt d v) = Ok v.
Proof.
  intros fmt v d WF Hf. unfold decode.
  pose proof (rt_all okn show read read_show show_number fmt WF v Hf d [] (S (length (manifest show fmt d v))) I) as H.
  rewrite app_nil_r in H. rewrite H; [reflexivity|].
  pose proof (manifest_length okn show show_number fmt WF v d Hf). lia.
Qed.

(* the document wrappers of the command line: trailing newline, and a value followed by more text *)
Theorem manifest_parse_prefix : forall fmt v d rest,
  ws_format fmt -> fin v -> tail_ok rest ->
  parse_value read (S (length (manifest show fmt d v ++ rest))) (manifest show fmt d v ++ rest) = Some (v, rest).
Proof.
  intros fmt v d rest WF Hf Ht.
  apply (rt_all okn show read read_show show_number fmt WF v Hf d rest); [exact Ht|].
  pose proof (manifest_length okn show show_number fmt WF v d Hf). rewrite app_length. lia.
Qed.

(* two values never share a document, across formats and depths *)
Corollary manifest_injective : forall fmt1 fmt2 v1 v2 d1 d2,
  ws_format fmt1 -> ws_format fmt2 -> fin v1 -> fin v2 ->
  manifest show fmt1 d1 v1 = manifest show fmt2 d2 v2 -> v1 = v2.
Proof.
  intros fmt1 fmt2 v1 v2 d1 d2 W1 W2 F1 F2 E.
  pose proof (manifest_parse_roundtrip fmt1 v1 d1 W1 F1) as R1.
  pose proof (manifest_parse_roundtrip fmt2 v2 d2 W2 F2) as R2.
  rewrite E in R1. rewrite R1 in R2. injection R2 as ->. reflexivity.
Qed.

Corollary cli_default_roundtrip : forall v, ws_format fmt_manifest -> fin v ->
  decode read (cli_default show v) = Ok v.
Proof.
  intros v WF Hf. unfold decode, cli_default, manifest_json.
  rewrite (manifest_parse_prefix fmt_manifest v 0 [10] WF Hf); reflexivity.
Qed.
(* -m: every file holds the document of its field; -y: every stream item is a document *)
Lemma fin_arr_forall : forall items, fin (JArr items) -> Forall fin items.
Proof.
  induction items as [|v l IH]; intros H; [constructor|].
  unfold fin in H. cbn [nums_of flat_map] in H. apply Forall_app in H as [H1 H2].
  constructor; [exact H1|apply IH; exact H2].
Qed.

Lemma fin_obj_forall : forall ms, fin (JObj ms) -> Forall (fun kv => fin (snd kv)) ms.
Proof.
  induction ms as [|kv l IH]; intros H; [constructor|].
  unfold fin in H. cbn [nums_of flat_map] in H. apply Forall_app in H as [H1 H2].
  constructor; [exact H1|apply IH; exact H2].
Qed.

Theorem cli_multi_roundtrip : forall ms, fin (JObj ms) ->
  exists files, cli_multi show (JObj ms) = Some files
  /\ Forall2 (fun kv f => fst f = fst kv /\ decode read (snd f) = Ok (snd kv)) ms files.
Proof.
  intros ms Hf. eexists. split; [reflexivity|].
  pose proof (fin_obj_forall ms Hf) as HF. clear Hf.
  induction HF as [|kv l Hkv Hl IH]; cbn [map]; constructor; [|exact IH].
  split; [reflexivity|]. cbn [snd]. apply cli_default_roundtrip; [exact ws_format_manifest|exact Hkv].
Qed.

Theorem cli_yaml_stream_roundtrip : forall items, fin (JArr items) -> items <> [] ->
  exists docs, cli_yaml_stream show (JArr items)
               = Some (flat_map (fun doc => [45; 45; 45; 10] ++ doc) docs ++ [46; 46; 46; 10])
  /\ Forall2 (fun it doc => decode read doc = Ok it) items docs.
Proof.
  intros items Hf Hne. exists (map (cli_default show) items). split.
  - destruct items as [|v l]; [contradiction Hne; reflexivity|].
    cbn [cli_yaml_stream]. do 2 f_equal.
    generalize (v :: l). intros l0. induction l0 as [|x r IH]; [reflexivity|].
    cbn [flat_map map]. rewrite IH. unfold cli_default. rewrite <- !app_assoc. reflexivity.
  - pose proof (fin_arr_forall items Hf) as HF. clear Hf Hne.
    induction HF as [|x r Hx Hr IH]; cbn [map]; constructor; [|exact IH].
    apply cli_default_roundtrip; [exact ws_format_manifest|exact Hx].
Qed.
End Headline.

(* ---------------------------------------------------------------- whitespace erasure *)
Lemma erase_ws_skip : forall w s, all_ws w -> erase_ws_aux false false (w ++ s) = erase_ws_aux false false s.
Proof.
  induction w as [|c w IH]; intros s H; [reflexivity|].
  unfold all_ws in H. cbn [forallb] in H. apply andb_true_iff in H as [Hc Hw].
  cbn [app erase_ws_aux]. rewrite Hc. apply IH. exact Hw.
Qed.

Lemma erase_plain : forall c s, is_ws c = false -> c <> 34 ->
  erase_ws_aux false false (c :: s) = c :: erase_ws_aux false false s.
Proof.
  intros c s Hw Hq. cbn [erase_ws_aux]. rewrite Hw.
  replace (c =? 34) with false by (symmetry; apply N.eqb_neq; exact Hq). reflexivity.
Qed.

Lemma erase_numchars : forall n s, forallb is_numchar n = true ->
  erase_ws_aux false false (n ++ s) = n ++ erase_ws_aux false false s.
Proof.
  induction n as [|c n IH]; intros s H; [reflexivity|].
  cbn [forallb] in H. apply andb_true_iff in H as [Hc Hn]. cbn [app].
  rewrite erase_plain; [rewrite (IH s Hn); reflexivity|apply numchar_not_ws; exact Hc|].
  intros ->. discriminate Hc.
Qed.

Lemma hex_not_special : forall a x, hex_val a = Some x -> (a =? 92) = false /\ (a =? 34) = false.
Proof.
  intros a x H. split.
  - destruct (N.eqb_spec a 92) as [->|_]; [discriminate H|reflexivity].
  - destruct (N.eqb_spec a 34) as [->|_]; [discriminate H|reflexivity].
Qed.

Lemma erase_in_string_char : forall c s,
  erase_ws_aux true false (escape_char c ++ s) = escape_char c ++ erase_ws_aux true false s.
Proof.
  intros c s. destruct (escape_char_shape c) as [H1 H2 H3 H4 | e He Hs | a b Hc Ha Hb]; cbn [app].
  - cbn [erase_ws_aux].
    replace (c =? 92) with false by (symmetry; apply N.eqb_neq; assumption).
    replace (c =? 34) with false by (symmetry; apply N.eqb_neq; assumption). reflexivity.
  - reflexivity.
  - destruct (hex_not_special a _ Ha) as [A1 A2]. destruct (hex_not_special b _ Hb) as [B1 B2].
    cbn [erase_ws_aux N.eqb Pos.eqb]. rewrite A1, A2, B1, B2. reflexivity.
Qed.

Lemma erase_string : forall k s,
  erase_ws_aux false false (escape_string_json k ++ s) = escape_string_json k ++ erase_ws_aux false false s.
Proof.
  intros k s. unfold escape_string_json. cbn [app erase_ws_aux is_ws N.eqb Pos.eqb orb]. f_equal.
  rewrite <- app_assoc. cbn [app].
  induction k as [|c k IH].
  - reflexivity.
  - unfold escape_body. cbn [flat_map]. fold (escape_body k). rewrite <- !app_assoc.
    rewrite erase_in_string_char. rewrite IH. rewrite <- !app_assoc. reflexivity.
Qed.

Lemma repeat_str_nil : forall n, repeat_str [] n = [].
Proof. induction n as [|n IH]; [reflexivity|exact IH]. Qed.

Section Erasure.
Variable okn : f64 -> Prop.
Variable show : f64 -> str.
Hypothesis show_number : forall x, okn x -> is_json_number (show x) = true.
Variable fmt : json_format.
Hypothesis WF : ws_format fmt.

Definition er (v : jvalue) : Prop :=
  Forall okn (nums_of v) -> forall d d' rest,
  erase_ws_aux false false (manifest show fmt d v ++ rest)
  = manifest show fmt_minified d' v ++ erase_ws_aux false false rest.

Lemma erase_close : forall c d rest, is_ws c = false -> c <> 34 ->
  erase_ws_aux false false (newline fmt ++ repeat_str (indent fmt) d ++ c :: rest)
  = c :: erase_ws_aux false false rest.
Proof.
  intros c d rest H1 H2. rewrite erase_ws_skip by apply WF.
  rewrite erase_ws_skip by (apply all_ws_repeat; apply WF). apply erase_plain; assumption.
Qed.

Lemma erase_empty_form : forall o c d d' e rest, bracket_shape o c e ->
  is_ws o = false -> o <> 34 -> is_ws c = false -> c <> 34 ->
  erase_ws_aux false false (empty_form fmt o c d e ++ rest)
  = empty_form fmt_minified o c d' None ++ erase_ws_aux false false rest.
Proof.
  intros o c d d' e rest B Ho1 Ho2 Hc1 Hc2.
  destruct (empty_form_shape fmt WF o c d e B) as [w [Hw E]]. rewrite E.
  cbn [empty_form fmt_minified fmt_std_ex newline indent app]. rewrite repeat_str_nil. cbn [app].
  rewrite erase_plain by assumption. rewrite <- app_assoc. rewrite erase_ws_skip by exact Hw.
  cbn [app]. rewrite erase_plain by assumption. reflexivity.
Qed.

Lemma minified_item_indent : forall d, item_indent fmt_minified d = [].
Proof. reflexivity. Qed.

Lemma erase_elems : forall l, Forall er l -> l <> [] -> Forall okn (nums_of (JArr l)) ->
  forall d d' w rest, all_ws w ->
  erase_ws_aux false false
    (w ++ join (item_sep fmt ++ newline fmt) (map (fun it => item_indent fmt d ++ manifest show fmt (S d) it) l) ++ rest)
  = join [44] (map (fun it => manifest show fmt_minified (S d') it) l) ++ erase_ws_aux false false rest.
Proof.
  induction l as [|v l IH]; intros HF Hne Hfin d d' w rest Hw; [contradiction Hne; reflexivity|].
  inversion HF as [|? ? Hv HFl]; subst.
  cbn [nums_of flat_map] in Hfin. apply Forall_app in Hfin as [Hfv Hfl].
  destruct (wf_item fmt WF) as [w1 [w2 [Esep [Hw1 Hw2]]]].
  rewrite erase_ws_skip by exact Hw.
  destruct l as [|v2 l].
  - cbn [map]. rewrite !join_single. rewrite <- app_assoc.
    rewrite erase_ws_skip by (apply item_indent_ws; apply WF).
    apply (Hv Hfv).
  - cbn [map]. rewrite (join_cons2 _ _ (_ :: _)) by discriminate.
    rewrite (join_cons2 [44] _ (_ :: _)) by discriminate.
    set (J := join (item_sep fmt ++ newline fmt) _).
    rewrite <- !app_assoc. rewrite erase_ws_skip by (apply item_indent_ws; apply WF).
    rewrite (Hv Hfv (S d) (S d')). f_equal.
    rewrite Esep. rewrite <- !app_assoc. rewrite erase_ws_skip by exact Hw1. cbn [app].
    rewrite erase_plain by (try reflexivity; discriminate). f_equal.
    rewrite app_assoc. subst J.
    apply (IH HFl ltac:(discriminate) Hfl d d' (w2 ++ newline fmt) rest).
    apply all_ws_app; [exact Hw2|apply WF].
Qed.

Lemma erase_members : forall ms, Forall (fun kv => er (snd kv)) ms -> ms <> [] -> Forall okn (nums_of (JObj ms)) ->
  forall d d' w rest, all_ws w ->
  erase_ws_aux false false
    (w ++ join (item_sep fmt ++ newline fmt)
            (map (fun kv => item_indent fmt d ++ escape_string_json (fst kv) ++ key_val_sep fmt
                            ++ manifest show fmt (S d) (snd kv)) ms) ++ rest)
  = join [44] (map (fun kv => escape_string_json (fst kv) ++ [58] ++ manifest show fmt_minified (S d') (snd kv)) ms)
    ++ erase_ws_aux false false rest.
Proof.
  induction ms as [|[k v] ms IH]; intros HF Hne Hfin d d' w rest Hw; [contradiction Hne; reflexivity|].
  inversion HF as [|? ? Hv HFl]; subst. cbn [snd] in Hv.
  cbn [nums_of flat_map snd] in Hfin. apply Forall_app in Hfin as [Hfv Hfl].
  destruct (wf_item fmt WF) as [w1 [w2 [Esep [Hw1 Hw2]]]].
  destruct (wf_kvs fmt WF) as [k1 [k2 [Ekvs [Hk1 Hk2]]]].
  rewrite erase_ws_skip by exact Hw.
  assert (Hone : forall tl,
    erase_ws_aux false false ((item_indent fmt d ++ escape_string_json k ++ key_val_sep fmt ++ manifest show fmt (S d) v) ++ tl)
    = (escape_string_json k ++ [58] ++ manifest show fmt_minified (S d') v) ++ erase_ws_aux false false tl).
  { intros tl. rewrite <- !app_assoc. rewrite erase_ws_skip by (apply item_indent_ws; apply WF).
    rewrite erase_string. f_equal. rewrite Ekvs. rewrite <- !app_assoc.
    rewrite erase_ws_skip by exact Hk1. cbn [app]. rewrite erase_plain by (try reflexivity; discriminate). f_equal.
    rewrite erase_ws_skip by exact Hk2. apply (Hv Hfv). }
  destruct ms as [|kv2 ms].
  - cbn [map fst snd]. rewrite !join_single. apply Hone.
  - cbn [map fst snd]. rewrite (join_cons2 _ _ (_ :: _)) by discriminate.
    rewrite (join_cons2 [44] _ (_ :: _)) by discriminate.
    set (J := join (item_sep fmt ++ newline fmt) _).
    rewrite <- (app_assoc _ _ rest). rewrite Hone. rewrite <- !app_assoc. do 3 f_equal.
    rewrite Esep. rewrite <- !app_assoc. rewrite erase_ws_skip by exact Hw1. cbn [app].
    rewrite erase_plain by (try reflexivity; discriminate). f_equal.
    rewrite app_assoc. subst J.
    apply (IH HFl ltac:(discriminate) Hfl d d' (w2 ++ newline fmt) rest).
    apply all_ws_app; [exact Hw2|apply WF].
Qed.

Theorem er_all : forall v, er v.
Proof.
  induction v as [|b|x|s|l IH|ms IH] using jvalue_ind'; unfold er; intros Hf d d' rest.
  - reflexivity.
  - destruct b; reflexivity.
  - cbn [manifest].
    assert (Hx : okn x). { cbn [nums_of] in Hf. inversion Hf; assumption. }
    destruct (json_number_numchars _ (show_number x Hx)) as [Hn _].
    apply erase_numchars. exact Hn.
  - cbn [manifest]. apply erase_string.
  - destruct l as [|v l].
    + cbn [manifest]. apply erase_empty_form; try (apply WF); try reflexivity; discriminate.
    + cbn [manifest]. cbn [fmt_minified fmt_std_ex newline indent item_sep app]. rewrite repeat_str_nil.
      cbn [app]. rewrite erase_plain by (try reflexivity; discriminate). f_equal.
      rewrite <- !app_assoc.
      rewrite (erase_elems (v :: l) IH ltac:(discriminate) Hf d d' (newline fmt)) by apply WF.
      cbn [app]. rewrite erase_close by (try reflexivity; discriminate).
      reflexivity.
  - destruct ms as [|kv ms].
    + cbn [manifest]. apply erase_empty_form; try (apply WF); try reflexivity; discriminate.
    + cbn [manifest]. cbn [fmt_minified fmt_std_ex newline indent item_sep key_val_sep app]. rewrite repeat_str_nil.
      cbn [app]. rewrite erase_plain by (try reflexivity; discriminate). f_equal.
      rewrite <- !app_assoc.
      rewrite (erase_members (kv :: ms) IH ltac:(discriminate) Hf d d' (newline fmt)) by apply WF.
      cbn [app]. rewrite erase_close by (try reflexivity; discriminate).
      reflexivity.
Qed.

Theorem ws_erasure : forall v d d', Forall okn (nums_of v) ->
  erase_ws (manifest show fmt d v) = manifest show fmt_minified d' v.
Proof.
  intros v d d' Hf. unfold erase_ws.
  pose proof (er_all v Hf d d' []) as H. rewrite !app_nil_r in H. exact H.
Qed.
End Erasure.

