(* Proofs/RefScope_proofs.v — C02/C09: run-time scope soundness of the reference interpreter, part 2.

   A Hoare-style reading of the monad [M]: [safe P m] — whenever the recursive knot maps
   well-scoped tasks to well-scoped answers and never answers with a static error, m does not
   produce a static error either, and its value satisfies P.  One lemma per definition of
   RefEval.v (helpers here, the evaluator proper in RefScope_main.v). *)
From RJ Require Import Base.Outcome Base.F64 Model.Token Model.Ast Model.RefCore Model.RefValue Model.RefEval.
From RJ Require Import Proofs.RefSem_params Proofs.RefScope_defs.
From Coq Require Import Lia.
Local Open Scope N_scope.

Definition okres {A} (P : A -> Prop) (r : res A) : Prop :=
  match snd r with
  | Ok a => P a
  | Err (EStatic _) => False
  | _ => True
  end.

Definition wf_task (t : task) : Prop :=
  match t with
  | TEval en x => wf_env en /\ closed (dom en) (hasobj en) x
  | TForce th => wf_thunk th
  | TApply f pos named _ => wf_value f /\ Forall wf_thunk pos /\ wf_vars named
  | TField ls _ _ => wf_layers ls
  | TEquals a b => wf_value a /\ wf_value b
  | TCompare a b => wf_value a /\ wf_value b
  | TManifest _ v => wf_value v
  end.

Definition wf_answer (a : answer) : Prop := match a with AVal v => wf_value v | _ => True end.
Definition rec_ok (r : recfn) : Prop := forall t d, wf_task t -> okres wf_answer (r t d).
Definition safe {A} (P : A -> Prop) (m : M A) : Prop := forall c r, rec_ok r -> okres P (m c r).
Definition any {A} : A -> Prop := fun _ => True.

Lemma safe_ret {A} (P : A -> Prop) a : P a -> safe P (ret a).
Proof. intros H c r _. exact H. Qed.

Lemma safe_kind {A} (P : A -> Prop) s : safe P (kind s).
Proof. intros c r _. exact I. Qed.
Lemma safe_unsupported {A} (P : A -> Prop) s : safe P (unsupported s).
Proof. intros c r _. exact I. Qed.
Lemma safe_argtype {A} (P : A -> Prop) : safe P argtype.
Proof. intros c r _. exact I. Qed.
Lemma safe_panic {A} (P : A -> Prop) s : safe P (lift (Panic s)).
Proof. intros c r _. exact I. Qed.
Lemma safe_fail_unsupported {A} (P : A -> Prop) w : safe P (fail (EUnsupported w)).
Proof. intros c r _. exact I. Qed.
Lemma safe_fail_explicit {A} (P : A -> Prop) w : safe P (fail (EExplicit w)).
Proof. intros c r _. exact I. Qed.
Lemma safe_fail_assert {A} (P : A -> Prop) w : safe P (fail (EAssertFailed w)).
Proof. intros c r _. exact I. Qed.
Lemma safe_check_num f : safe wf_value (lift (check_num f)).
Proof. intros c r _. unfold okres, lift, check_num. destruct f; simpl; try exact I; constructor. Qed.
Lemma safe_emit s : safe any (emit s).
Proof. intros c r _. exact I. Qed.
Lemma safe_ask_bfs : safe any ask_bfs.
Proof. intros c r _. exact I. Qed.
Lemma safe_ask_ts_tail : safe any ask_ts_tail.
Proof. intros c r _. exact I. Qed.
Lemma safe_enter d : safe any (enter d).
Proof. intros c r _. unfold okres, enter. destruct (c_limit c <? d + 1); exact I. Qed.
Lemma safe_call t d : wf_task t -> safe wf_answer (call t d).
Proof. intros H c r Hr. apply Hr. exact H. Qed.

Lemma safe_bind {A B} (Q : A -> Prop) (P : B -> Prop) (m : M A) (k : A -> M B) :
  safe Q m -> (forall a, Q a -> safe P (k a)) -> safe P (bind m k).
Proof.
  intros Hm Hk c r Hr. specialize (Hm c r Hr). unfold okres, bind in *.
  destruct (m c r) as [t o]. simpl in Hm. destruct o as [a | e | s |]; simpl; try exact I.
  - specialize (Hk a Hm c r Hr). unfold okres in Hk. destruct (k a c r) as [t2 o2]. exact Hk.
  - exact Hm.
Qed.

Lemma safe_weaken {A} (Q P : A -> Prop) (m : M A) : safe Q m -> (forall a, Q a -> P a) -> safe P m.
Proof.
  intros Hm HQP c r Hr. specialize (Hm c r Hr). unfold okres in *.
  destruct (snd (m c r)) as [a | e | s |]; auto.
Qed.

Lemma safe_mapM {A B} (P : B -> Prop) (f : A -> M B) l :
  (forall a, In a l -> safe P (f a)) -> safe (Forall P) (mapM f l).
Proof.
  induction l as [|x r IH]; intros H; simpl.
  - apply safe_ret. constructor.
  - eapply safe_bind; [apply H; left; reflexivity|]. intros y Hy.
    eapply safe_bind; [apply IH; intros a Ha; apply H; right; exact Ha|]. intros ys Hys.
    apply safe_ret. constructor; assumption.
Qed.

Lemma safe_iterM {A} (f : A -> M unit) l : (forall a, In a l -> safe any (f a)) -> safe any (iterM f l).
Proof.
  induction l as [|x r IH]; intros H; simpl.
  - apply safe_ret. exact I.
  - eapply safe_bind; [apply H; left; reflexivity|]. intros _ _. apply IH. intros a Ha. apply H. right. exact Ha.
Qed.

Create HintDb safe discriminated.
Create HintDb wf discriminated.
#[export] Hint Constructors wf_value wf_thunk closed_opt : wf.
#[export] Hint Resolve safe_kind safe_unsupported safe_argtype safe_panic safe_fail_unsupported safe_fail_explicit
  safe_fail_assert safe_check_num safe_emit safe_ask_bfs safe_ask_ts_tail safe_enter : safe.
#[export] Hint Extern 1 (any _) => exact I : wf.
#[export] Hint Extern 1 (any _) => exact I : safe.

Ltac wf_inv :=
  repeat match goal with
  | H : wf_value (VArr _) |- _ => inversion H; clear H; subst
  | H : wf_value (VObj _ _) |- _ => inversion H; clear H; subst
  | H : wf_value (VFun _ _ _) |- _ => inversion H; clear H; subst
  | H : wf_thunk (Th _ _) |- _ => inversion H; clear H; subst
  | H : wf_thunk (Tv _) |- _ => inversion H; clear H; subst
  | H : wf_thunk (TCall _ _) |- _ => inversion H; clear H; subst
  | H : wf_answer (AVal _) |- _ => simpl in H
  | H : Forall _ (_ :: _) |- _ => inversion H; clear H; subst
  | H : Forall _ [] |- _ => clear H
  | H : _ /\ _ |- _ => destruct H
  end.

Ltac safe_step :=
  match goal with
  | |- safe _ (ret _) => apply safe_ret; try solve [eauto with wf]
  | |- safe _ (bind _ _) => eapply safe_bind; [ solve [eauto with safe wf] | intros ]
  | |- safe _ (match ?x with _ => _ end) => first [ is_var x; destruct x | destruct x eqn:? ]; wf_inv
  | |- safe _ (if ?b then _ else _) => destruct b eqn:?
  | |- safe _ _ => solve [eauto with safe wf]
  | |- safe _ _ => eapply safe_weaken; [ solve [eauto with safe wf] | solve [intros; eauto with wf] ]
  end.
Ltac safe_tac := repeat safe_step.

(* ---- typed views of the knot ---- *)
Lemma safe_as_val a : wf_answer a -> safe wf_value (as_val a).
Proof. intros H. unfold as_val. destruct a; safe_tac. Qed.
Lemma safe_as_bool a : safe any (as_bool a). Proof. unfold as_bool. destruct a; safe_tac. Qed.
Lemma safe_as_cmp a : safe any (as_cmp a). Proof. unfold as_cmp. destruct a; safe_tac. Qed.
Lemma safe_as_json a : safe any (as_json a). Proof. unfold as_json. destruct a; safe_tac. Qed.

Lemma safe_eval en x d : wf_env en -> closed (dom en) (hasobj en) x -> safe wf_value (eval en x d).
Proof.
  intros He Hc. unfold eval. eapply safe_bind; [apply safe_call; simpl; auto|]. intros a Ha. apply safe_as_val. exact Ha.
Qed.
Lemma safe_forceT t d : wf_thunk t -> safe wf_value (forceT t d).
Proof.
  intros Ht. unfold forceT. eapply safe_bind; [apply safe_call; exact Ht|]. intros a Ha. apply safe_as_val. exact Ha.
Qed.
Lemma safe_apply f pos named force d :
  wf_value f -> Forall wf_thunk pos -> wf_vars named -> safe wf_value (apply f pos named force d).
Proof.
  intros. unfold apply. eapply safe_bind; [apply safe_call; simpl; auto|]. intros a Ha. apply safe_as_val. exact Ha.
Qed.
Lemma safe_applyf f pos d : wf_value f -> Forall wf_thunk pos -> safe wf_value (applyf f pos d).
Proof. intros. unfold applyf. apply safe_apply; auto. constructor. Qed.
Lemma safe_field_at ls from name d : wf_layers ls -> safe wf_value (field_at ls from name d).
Proof.
  intros. unfold field_at. eapply safe_bind; [apply safe_call; simpl; auto|]. intros a Ha. apply safe_as_val. exact Ha.
Qed.
Lemma safe_equals a b d : wf_value a -> wf_value b -> safe any (equals a b d).
Proof. intros. unfold equals. eapply safe_bind; [apply safe_call; simpl; auto|]. intros. apply safe_as_bool. Qed.
Lemma safe_compare a b d : wf_value a -> wf_value b -> safe any (compare a b d).
Proof. intros. unfold compare. eapply safe_bind; [apply safe_call; simpl; auto|]. intros. apply safe_as_cmp. Qed.
Lemma safe_manifest s v d : wf_value v -> safe any (manifest s v d).
Proof. intros. unfold manifest. eapply safe_bind; [apply safe_call; simpl; auto|]. intros. apply safe_as_json. Qed.
#[export] Hint Resolve safe_eval safe_forceT safe_apply safe_applyf safe_field_at safe_equals safe_compare safe_manifest : safe.

Lemma safe_render_m j : safe any (render_m j).
Proof. unfold render_m. safe_tac. Qed.
#[export] Hint Resolve safe_render_m : safe.
Lemma safe_to_string v d : wf_value v -> safe any (to_string v d).
Proof. intros H. unfold to_string. destruct v; safe_tac. Qed.
#[export] Hint Resolve safe_to_string : safe.

Lemma safe_un_op op v : safe wf_value (un_op op v).
Proof. unfold un_op. destruct op, v; safe_tac. Qed.
Lemma safe_int2 P a b k : (forall x y, safe P (k x y)) -> safe P (int2 a b k).
Proof. intros H. unfold int2. safe_tac; apply H. Qed.
Lemma safe_num_bin op a b : safe wf_value (num_bin op a b).
Proof. unfold num_bin. destruct op; safe_tac; apply safe_int2; intros; safe_tac. Qed.
#[export] Hint Resolve safe_un_op safe_num_bin : safe.

Lemma Forall_app_intro {A} (P : A -> Prop) l1 l2 : Forall P l1 -> Forall P l2 -> Forall P (l1 ++ l2).
Proof. intros. apply Forall_app. split; assumption. Qed.
#[export] Hint Resolve Forall_app_intro : wf.

Lemma safe_add_vals l r d : wf_value l -> wf_value r -> safe wf_value (add_vals l r d).
Proof. intros Hl Hr. unfold add_vals. destruct l, r; wf_inv; safe_tac. Qed.
#[export] Hint Resolve safe_add_vals : safe.
Lemma safe_bin_op op l r d : wf_value l -> wf_value r -> safe wf_value (bin_op op l r d).
Proof. intros Hl Hr. unfold bin_op. destruct l, r; try solve [safe_tac]; destruct op; safe_tac. Qed.
#[export] Hint Resolve safe_bin_op : safe.

(* ---- asserts and fields ---- *)
Lemma safe_run_assert en a d :
  wf_env en -> closed (dom en) (hasobj en) (fst a) -> closed_opt (dom en) (hasobj en) (snd a) ->
  safe any (run_assert en a d).
Proof.
  intros He Hc Hm. unfold run_assert. safe_tac.
  inversion Hm; subst. safe_tac.
Qed.

Lemma safe_run_layer_asserts ls : wf_layers ls -> forall rest i d, wf_layers rest -> safe any (run_layer_asserts ls rest i d).
Proof.
  intros Hls. induction rest as [|l r IH]; intros i d Hrest; simpl.
  - apply safe_ret. exact I.
  - inversion Hrest as [|? ? Hl Hr]; subst. eapply safe_bind; [|intros; apply IH; exact Hr].
    apply safe_iterM. intros a Ha. inversion Hl as [locals asserts fields en std Hass Hf]; subst. simpl in *.
    rewrite Forall_forall in Hass. destruct (Hass a Ha) as [Hc Hm].
    set (l := MkLayer locals asserts fields en std).
    destruct (layer_env_wf ls i l en (fst a) Hls Hc) as [Hwe Hcl].
    apply safe_run_assert; [exact Hwe | exact Hcl |].
    destruct (snd a) as [m|] eqn:Em; [|constructor]. constructor.
    apply (layer_env_wf ls i l en m Hls (Hm m eq_refl)).
Qed.

Lemma safe_run_asserts ls c d : wf_layers ls -> safe any (run_asserts ls c d).
Proof. intros H. unfold run_asserts. destruct c; [apply safe_ret; exact I | apply safe_run_layer_asserts; assumption]. Qed.
#[export] Hint Resolve safe_run_asserts : safe.

Lemma safe_missing_field {A} (P : A -> Prop) ls n : safe P (missing_field ls n).
Proof. unfold missing_field. safe_tac. Qed.
#[export] Hint Resolve safe_missing_field : safe.

Lemma safe_get_field ls c n d : wf_layers ls -> safe wf_value (get_field ls c n d).
Proof. intros H. unfold get_field. safe_tac. Qed.
#[export] Hint Resolve safe_get_field : safe.

Lemma safe_do_field ls from name d : wf_layers ls -> safe wf_value (do_field ls from name d).
Proof.
  intros Hls. unfold do_field.
  destruct (find_field ls from name) as [[i f]|] eqn:Ef; [|safe_tac].
  destruct (nthN ls i) as [l|] eqn:En; [|safe_tac].
  destruct (find_field_sound _ _ _ _ _ _ Ef En) as [Hl Hf].
  pose proof Hls as Hls'. unfold wf_layers in Hls'. rewrite Forall_forall in Hls'. specialize (Hls' l Hl).
  inversion Hls' as [locals asserts fields en std Hass Hfs]; subst. simpl in Hf.
  rewrite Forall_forall in Hfs. specialize (Hfs _ Hf). simpl in Hfs.
  unfold field_env.
  set (l := MkLayer locals asserts fields en std) in *.
  destruct (layer_env_wf ls i l _ _ Hls Hfs) as [Hwe Hcl].
  safe_tac.
Qed.
#[export] Hint Resolve safe_do_field : safe.

Lemma safe_with_super {P} en k :
  hasobj en = true -> wf_env en -> (forall ls i, wf_layers ls -> safe P (k ls i)) -> safe P (with_super en k).
Proof.
  intros Ho He Hk. unfold with_super. destruct (hasobj_lookup en Ho) as (ls & i & c & E). rewrite E.
  apply Hk. eapply lookup_obj_wf; eassumption.
Qed.

Lemma safe_super_field en name d : hasobj en = true -> wf_env en -> safe wf_value (super_field en name d).
Proof. intros Ho He. unfold super_field. apply safe_with_super; auto. intros. safe_tac. Qed.
#[export] Hint Resolve safe_super_field : safe.

(* ---- object construction ---- *)
Definition field_ok (locals : list (str * cexpr)) (en : env) (nf : str * field) : Prop :=
  wf_scope locals (match f_fenv (snd nf) with Some fe => fe | None => en end) (f_body (snd nf)).

Lemma safe_field_name_of v : safe any (field_name_of v).
Proof. unfold field_name_of. destruct v; safe_tac. Qed.
#[export] Hint Resolve safe_field_name_of : safe.

Lemma safe_add_field locals en acc on f :
  Forall (field_ok locals en) acc -> (forall s, field_ok locals en (s, f)) ->
  safe (Forall (field_ok locals en)) (add_field acc on f).
Proof.
  intros Ha Hf. unfold add_field. destruct on as [s|]; [|apply safe_ret; exact Ha].
  destruct (assoc s acc); [apply safe_kind|]. apply safe_ret. apply Forall_app_intro; [exact Ha|]. constructor; [apply Hf | constructor].
Qed.

Lemma safe_build_fields locals en d :
  wf_env en -> Forall (fun p => closed (map fst locals ++ dom en) true (snd p)) locals ->
  forall fs acc, Forall (closed_field (dom en) (hasobj en) (map fst locals ++ dom en)) fs ->
  Forall (field_ok locals en) acc -> safe (Forall (field_ok locals en)) (build_fields en fs acc d).
Proof.
  intros He Hl. induction fs as [|f r IH]; intros acc Hfs Hacc; simpl.
  - apply safe_ret. exact Hacc.
  - inversion Hfs as [|? ? Hf Hr]; subst. destruct f as [nm plus vis body].
    assert (Hbody : forall s, field_ok locals en (s, MkField vis plus body None)).
    { intros s. unfold field_ok. simpl. constructor; auto. inversion Hf; subst; assumption. }
    destruct nm as [s | e].
    + eapply safe_bind with (Q := any); [apply safe_ret; exact I|]. intros on _.
      eapply safe_bind; [apply safe_add_field; eauto|]. intros acc' Hacc'. apply IH; assumption.
    + inversion Hf; subst.
      eapply safe_bind; [eapply safe_bind; [apply safe_eval; eassumption | intros; apply safe_field_name_of]|]. intros on _.
      eapply safe_bind; [apply safe_add_field; eauto|]. intros acc' Hacc'. apply IH; assumption.
Qed.

(* ---- comprehensions ---- *)
Definition vars_ok (names : list str) (v : vars) : Prop := wf_vars v /\ map fst v = names.

Lemma safe_expand_for x names : forall vs vals,
  Forall (vars_ok names) vs -> Forall wf_value vals -> safe (Forall (vars_ok (x :: names))) (expand_for x vs vals).
Proof.
  induction vs as [|v vr IH]; intros vals Hvs Hvals; simpl.
  - destruct vals; apply safe_ret; constructor.
  - destruct vals as [|a valr]; [apply safe_ret; constructor|].
    inversion Hvs as [|? ? Hv Hvr]; subst. inversion Hvals as [|? ? Ha Hvalr]; subst.
    destruct a; try apply safe_kind.
    eapply safe_bind; [apply IH; assumption|]. intros rest Hrest. apply safe_ret.
    apply Forall_app_intro; [|exact Hrest]. inversion Ha; subst.
    rewrite Forall_forall. intros v' Hin. apply in_map_iff in Hin. destruct Hin as (it & <- & Hit).
    destruct Hv as [Hw Hn]. split; [|simpl; f_equal; exact Hn].
    constructor; [|exact Hw]. simpl. rewrite Forall_forall in H0. apply H0. exact Hit.
Qed.

Lemma safe_filter_if names : forall vs vals,
  Forall (vars_ok names) vs -> safe (Forall (vars_ok names)) (filter_if vs vals).
Proof.
  induction vs as [|v vr IH]; intros vals Hvs; simpl.
  - destruct vals; apply safe_ret; constructor.
  - destruct vals as [|a valr]; [apply safe_ret; constructor|].
    inversion Hvs as [|? ? Hv Hvr]; subst.
    destruct a; try apply safe_kind.
    eapply safe_bind; [apply IH; assumption|]. intros rest Hrest. apply safe_ret.
    destruct b; [constructor; assumption | assumption].
Qed.

Lemma wf_env_vars v en : wf_vars v -> wf_env en -> wf_env (FVars v [] :: en).
Proof. intros Hv He. constructor; [exact Hv | constructor | exact He]. Qed.

Lemma dom_vars v en : dom (FVars v [] :: en) = map fst v ++ dom en.
Proof. reflexivity. Qed.

Lemma safe_comp_bfs en d : wf_env en -> forall specs names vs out,
  closed_specs (names ++ dom en) (hasobj en) specs out ->
  Forall (vars_ok names) vs ->
  safe (Forall (fun v => wf_vars v /\ map fst v ++ dom en = out)) (comp_bfs en specs vs d).
Proof.
  intros He. induction specs as [|s r IH]; intros names vs out Hs Hvs; simpl.
  - inversion Hs; subst. apply safe_ret. eapply Forall_impl; [|exact Hvs]. intros v [Hw Hn]. split; [exact Hw | rewrite Hn; reflexivity].
  - destruct s as [x e | c]; inversion Hs; subst.
    + eapply safe_bind.
      { apply safe_mapM with (P := wf_value). intros v Hv. rewrite Forall_forall in Hvs. destruct (Hvs v Hv) as [Hw Hn].
        apply safe_eval; [apply wf_env_vars; assumption|]. rewrite dom_vars, hasobj_vars, Hn. assumption. }
      intros vals Hvals. destruct (first_non_array vals); [apply safe_kind|].
      eapply safe_bind; [apply safe_expand_for; eassumption|]. intros vs' Hvs'.
      apply (IH (x :: names)); assumption.
    + eapply safe_bind.
      { apply safe_mapM with (P := wf_value). intros v Hv. rewrite Forall_forall in Hvs. destruct (Hvs v Hv) as [Hw Hn].
        apply safe_eval; [apply wf_env_vars; assumption|]. rewrite dom_vars, hasobj_vars, Hn. assumption. }
      intros vals Hvals. destruct (first_non_bool vals); [apply safe_kind|].
      eapply safe_bind; [apply safe_filter_if; eassumption|]. intros vs' Hvs'.
      apply (IH names); assumption.
Qed.

Lemma Forall_concat {A} (P : A -> Prop) (ll : list (list A)) : Forall (Forall P) ll -> Forall P (concat ll).
Proof. induction 1; simpl; [constructor | apply Forall_app_intro; assumption]. Qed.

Lemma safe_comp_dfs en d : wf_env en -> forall specs v out,
  closed_specs (map fst v ++ dom en) (hasobj en) specs out -> wf_vars v ->
  safe (Forall (fun v' => wf_vars v' /\ map fst v' ++ dom en = out)) (comp_dfs en specs v d).
Proof.
  intros He. induction specs as [|s r IH]; intros v out Hs Hv; simpl.
  - inversion Hs; subst. apply safe_ret. constructor; [split; [exact Hv | reflexivity] | constructor].
  - destruct s as [x e | c]; inversion Hs; subst.
    + eapply safe_bind; [apply safe_eval; [apply wf_env_vars; assumption | rewrite dom_vars, hasobj_vars; assumption]|].
      intros a Ha. destruct a; try apply safe_kind. inversion Ha; subst.
      eapply safe_bind.
      { apply safe_mapM with (P := Forall (fun v' => wf_vars v' /\ map fst v' ++ dom en = out)).
        intros it Hit. apply IH; [exact H6|]. constructor; [|exact Hv]. simpl. rewrite Forall_forall in H0. apply H0. exact Hit. }
      intros ll Hll. apply safe_ret. apply Forall_concat. exact Hll.
    + eapply safe_bind; [apply safe_eval; [apply wf_env_vars; assumption | rewrite dom_vars, hasobj_vars; assumption]|].
      intros b Hb. destruct b; try apply safe_kind. destruct b; [apply IH; assumption | apply safe_ret; constructor].
Qed.

Definition env_ok (en : env) (out : list str) (e' : env) : Prop :=
  wf_env e' /\ dom e' = out /\ hasobj e' = hasobj en.

Lemma safe_comp_envs en specs d out :
  wf_env en -> closed_specs (dom en) (hasobj en) specs out -> safe (Forall (env_ok en out)) (comp_envs en specs d).
Proof.
  intros He Hs. unfold comp_envs. eapply safe_bind; [apply safe_ask_bfs|]. intros bfs _.
  eapply safe_bind with (Q := Forall (fun v => wf_vars v /\ map fst v ++ dom en = out)).
  - destruct bfs.
    + apply (safe_comp_bfs en d He specs [] [[]] out); [exact Hs|]. constructor; [split; [constructor | reflexivity] | constructor].
    + apply (safe_comp_dfs en d He specs [] out); [exact Hs | constructor].
  - intros vs Hvs. apply safe_ret. rewrite Forall_forall in *. intros e' Hin. apply in_map_iff in Hin.
    destruct Hin as (v & <- & Hv). destruct (Hvs v Hv) as [Hw Hn]. repeat split.
    + apply wf_env_vars; assumption.
    + rewrite dom_vars. exact Hn.
Qed.

Lemma safe_build_comp_fields locals en0 en out name plus body d :
  closed out (hasobj en) name ->
  Forall (fun p => closed (map fst locals ++ out) true (snd p)) locals ->
  closed (map fst locals ++ out) true body ->
  forall envs acc, Forall (env_ok en out) envs -> Forall (field_ok locals en0) acc ->
  safe (Forall (field_ok locals en0)) (build_comp_fields envs name plus body acc d).
Proof.
  intros Hn Hl Hb. induction envs as [|e r IH]; intros acc Henvs Hacc; simpl.
  - apply safe_ret. exact Hacc.
  - inversion Henvs as [|? ? He Hr]; subst. destruct He as (Hwe & Hd & Ho).
    eapply safe_bind; [apply safe_eval; [exact Hwe | rewrite Hd, Ho; exact Hn]|]. intros v Hv.
    eapply safe_bind; [apply safe_field_name_of|]. intros on _.
    eapply safe_bind; [apply safe_add_field; [exact Hacc|]|].
    { intros s. unfold field_ok. simpl. constructor; [exact Hwe | rewrite Hd; exact Hl | rewrite Hd; exact Hb]. }
    intros acc' Hacc'. apply IH; assumption.
Qed.

(* ---- indexing and slices ---- *)
Lemma safe_index_value v i d : wf_value v -> wf_value i -> safe wf_value (index_value v i d).
Proof.
  intros Hv Hi. unfold index_value. destruct v; try solve [safe_tac]; try solve [destruct i; safe_tac].
  - inversion Hv; subst. destruct i; try solve [safe_tac]. destruct (to_index f); [|safe_tac].
    destruct (nthN items n) as [t|] eqn:En; [|safe_tac]. apply nthN_in in En.
    rewrite Forall_forall in H0. specialize (H0 _ En). safe_tac.
Qed.
#[export] Hint Resolve safe_index_value : safe.

Lemma safe_opt_num v s : safe any (opt_num v s).
Proof. unfold opt_num. destruct v; safe_tac. Qed.
Lemma safe_slice_pos l f : safe any (slice_pos l f).
Proof. unfold slice_pos. safe_tac. Qed.
#[export] Hint Resolve safe_opt_num safe_slice_pos : safe.
Lemma safe_ret_any {A} (a : A) : safe any (ret a).
Proof. apply safe_ret. exact I. Qed.
#[export] Hint Resolve safe_ret_any : safe.
Ltac safe_any :=
  repeat first [ apply safe_ret_any
               | solve [eauto with safe wf]
               | (eapply safe_bind with (Q := any); [| intros])
               | match goal with
                 | |- safe _ (match ?x with _ => _ end) => destruct x
                 | |- safe _ (if ?b then _ else _) => destruct b
                 end ].
Lemma safe_slice_range l a b c : safe any (slice_range l a b c).
Proof. unfold slice_range. destruct a, b, c; safe_any. Qed.
#[export] Hint Resolve safe_slice_range : safe.

Lemma take_step_incl {A} : forall (l : list A) n step k x, In x (take_step l n step k) -> In x l.
Proof.
  induction l as [|y r IH]; intros n step k x H; simpl in H; [tauto|].
  destruct (n =? 0); [destruct H|]. destruct (k =? 0).
  - destruct H as [-> | H]; [left; reflexivity | right; eapply IH; eassumption].
  - right. eapply IH; eassumption.
Qed.

Lemma slice_list_forall {A} (P : A -> Prop) l a b c : Forall P l -> Forall P (slice_list l a b c).
Proof.
  intros H. rewrite Forall_forall in *. intros x Hx. apply H. unfold slice_list in Hx.
  apply take_step_incl in Hx. eapply dropN_incl. exact Hx.
Qed.

Lemma safe_do_slice v a b c f : wf_value v -> safe wf_value (do_slice v a b c f).
Proof.
  intros Hv. unfold do_slice. destruct v; try solve [safe_tac].
  inversion Hv; subst. eapply safe_bind; [apply safe_slice_range|]. intros [[s0 st] sp] _. apply safe_ret.
  constructor. apply slice_list_forall. assumption.
Qed.
#[export] Hint Resolve safe_do_slice : safe.

Lemma safe_eval_opt en o d : wf_env en -> closed_opt (dom en) (hasobj en) o -> safe wf_value (eval_opt en o d).
Proof. intros He Ho. unfold eval_opt. inversion Ho; subst; safe_tac. Qed.
#[export] Hint Resolve safe_eval_opt : safe.

(* ---- builtins ---- *)
Lemma is_fun_wf v : wf_value v -> wf_value v. Proof. auto. Qed.

Lemma safe_filter_m fv d : wf_value fv -> forall items, Forall wf_thunk items -> safe (Forall wf_thunk) (filter_m fv items d).
Proof.
  intros Hf. induction items as [|it r IH]; intros Hi; simpl.
  - apply safe_ret. constructor.
  - inversion Hi; subst. eapply safe_bind; [apply safe_applyf; [exact Hf | constructor; [assumption | constructor]]|].
    intros b Hb. destruct b; try apply safe_kind. eapply safe_bind; [apply IH; assumption|]. intros rest Hrest.
    apply safe_ret. destruct b; [constructor; assumption | assumption].
Qed.

Lemma safe_foldl_m fv d : wf_value fv -> forall items acc, Forall wf_thunk items -> wf_thunk acc -> safe wf_value (foldl_m fv items acc d).
Proof.
  intros Hf. induction items as [|it r IH]; intros acc Hi Ha; simpl.
  - apply safe_forceT. exact Ha.
  - inversion Hi; subst. eapply safe_bind; [apply safe_applyf; [exact Hf | repeat constructor; assumption]|].
    intros v Hv. apply IH; [assumption | constructor; exact Hv].
Qed.

Lemma safe_foldr_m fv d : wf_value fv -> forall items acc, Forall wf_thunk items -> wf_thunk acc -> safe wf_value (foldr_m fv items acc d).
Proof.
  intros Hf. induction items as [|it r IH]; intros acc Hi Ha; simpl.
  - apply safe_forceT. exact Ha.
  - inversion Hi; subst. eapply safe_bind; [apply safe_applyf; [exact Hf | repeat constructor; assumption]|].
    intros v Hv. apply IH; [assumption | constructor; exact Hv].
Qed.

Lemma safe_join_str_m sep d : forall items first acc, Forall wf_thunk items -> safe wf_value (join_str_m sep items first acc d).
Proof.
  induction items as [|it r IH]; intros first acc Hi; simpl.
  - apply safe_ret. constructor.
  - inversion Hi; subst. eapply safe_bind; [apply safe_forceT; assumption|]. intros v Hv.
    destruct v; try apply safe_kind; apply IH; assumption.
Qed.

Lemma safe_join_arr_m sep d : Forall wf_thunk sep -> forall items first acc,
  Forall wf_thunk items -> Forall wf_thunk acc -> safe wf_value (join_arr_m sep items first acc d).
Proof.
  intros Hs. induction items as [|it r IH]; intros first acc Hi Ha; simpl.
  - apply safe_ret. constructor. exact Ha.
  - inversion Hi; subst. eapply safe_bind; [apply safe_forceT; assumption|]. intros v Hv.
    destruct v; try apply safe_kind; [apply IH; assumption|]. inversion Hv; subst.
    apply IH; [assumption|]. destruct first; auto with wf.
Qed.
#[export] Hint Resolve safe_filter_m safe_foldl_m safe_foldr_m safe_join_str_m safe_join_arr_m : safe.

Lemma Forall_map_intro {A B} (P : B -> Prop) (f : A -> B) l : (forall a, In a l -> P (f a)) -> Forall P (map f l).
Proof. intros H. rewrite Forall_forall. intros b Hb. apply in_map_iff in Hb. destruct Hb as (a & <- & Ha). auto. Qed.

Lemma safe_object_has o f h : safe wf_value (object_has o f h).
Proof. unfold object_has. destruct o, f, h; safe_tac. Qed.
Lemma safe_object_fields o h : safe wf_value (object_fields o h).
Proof.
  unfold object_fields. destruct o; try solve [safe_tac]. destruct h; try solve [safe_tac].
  apply safe_ret. constructor. apply Forall_map_intro. intros. repeat constructor.
Qed.
Lemma safe_prim_equals a b : safe wf_value (prim_equals a b).
Proof. unfold prim_equals. destruct a, b; safe_tac. Qed.
Lemma safe_mod_num a b : safe wf_value (mod_num a b).
Proof. unfold mod_num. destruct a, b; safe_tac. Qed.
#[export] Hint Resolve safe_object_has safe_object_fields safe_prim_equals safe_mod_num : safe.
