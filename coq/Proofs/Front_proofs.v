(* Proofs/Front_proofs.v — the composed front end (Model/Front.v) never panics, never
   runs out of fuel, and every error it reports is located inside the input.

   Composition of:   C14 (Proofs/Lexer_proofs.v)   lex_total, lex_all_good, lex_filter, number_shape
                     C15 (Proofs/Parser_inv.v)     parse_no_panic, parse_error_at_token, span_nesting
                     C09 (Proofs/Analyze*_proofs)  analyze_no_panic, analyze_error_located
   plus the glue proved here and in Proofs/FrontParse_proofs.v:
     G1 lex_tokens_wf       the lexer's output without trivia is a well-formed token stream (wf_tokens),
                            every token span is ordered and inside the input, the last token is EOF at (len,len)
     G2 lex_tokens_nums     every number token of the lexer satisfies the analyzer's number_parses
     G3 parse_total_nums    (FrontParse_proofs) the parser has enough fuel and copies number tokens unchanged
     G4 src_prec_ranked     the translated precedence chain is acyclic
     G5 within_node_spans   span nesting of the tree bounds every span a node carries (so every span of an
                            analyze error) *)
From Coq Require Import Lia.
From RJ Require Import Base.Outcome Model.Token Model.Ast Model.Ir Model.Utf8 Model.Lexer Model.Parser
  Model.Analyze Model.Front Gen.PrecTable.
From RJ Require Import Proofs.Utf8_proofs Proofs.Lexer_proofs Proofs.Parser_inv Proofs.Analyze_proofs
  Proofs.AnalyzeLoc_proofs Proofs.FrontParse_proofs.
Local Open Scope N_scope.

(* ================================================================ G2: number tokens *)

Lemma skip_digits_all s : Forall (fun b => Analyze.is_digit b = true) s -> skip_digits s = (length s, []).
Proof.
  induction 1 as [|c r Hc _ IH]; [reflexivity|]. cbn [skip_digits]. rewrite Hc, IH. reflexivity.
Qed.

Lemma digits_parse ds e : all_digits ds -> ds <> [] ->
  number_parses {| num_digits := ds; num_exp := e |} = true.
Proof.
  intros Hd Hne. unfold number_parses. cbn [num_digits].
  assert (Hd' : Forall (fun b => Analyze.is_digit b = true) ds).
  { eapply Forall_impl; [|exact Hd]. intros b Hb. exact Hb. }
  destruct ds as [|c r]; [congruence|].
  assert (Hc : (c =? 43) || (c =? 45) = false).
  { inversion Hd' as [|? ? H1 _]; subst. unfold Analyze.is_digit in H1.
    apply andb_true_iff in H1. destruct H1 as [H1 H2]. apply N.leb_le in H1.
    apply orb_false_iff. split; apply N.eqb_neq; lia. }
  rewrite Hc. rewrite (skip_digits_all _ Hd'). cbn [length Nat.eqb negb]. reflexivity.
Qed.

Definition knum (r : outcome (token * Lexer.cur) lex_error) : Prop :=
  match r with Ok (t, _) => tok_num_ok t | _ => True end.

Lemma knum_commit len start c k : (forall n, k <> TNumber n) -> knum (commit len start c k).
Proof.
  intros Hk. unfold commit. destruct (make_span len start (Lexer.pos c)); cbn [obind knum]; try exact I.
  unfold tok_num_ok. cbn [tok_kind]. destruct k; try exact I. exfalso. eapply Hk. reflexivity.
Qed.

Lemma knum_fail len k s e : knum (@fail len (token * Lexer.cur) k s e).
Proof. unfold fail. destruct (make_span len s e); exact I. Qed.

Lemma knum_bind {A} (x : outcome A lex_error) f : (forall a, knum (f a)) -> knum (obind x f).
Proof. intros H. destruct x; cbn [obind]; try exact I. apply H. Qed.

Ltac kn :=
  repeat first
    [ exact I
    | apply knum_fail
    | apply knum_commit; intros; discriminate
    | apply knum_bind; intros
    | match goal with
      | |- knum (match ?x with _ => _ end) => destruct x
      | |- knum (if ?x then _ else _) => destruct x
      end ].

Lemma knum_number len start b c : knum (lex_number len start b c).
Proof.
  destruct (lex_number len start b c) as [[t c']| | |] eqn:E; try exact I. cbn [knum].
  apply number_shape in E. destruct E as (n & Hk & Hd & Hne & _).
  unfold tok_num_ok. rewrite Hk. destruct n as [ds e]. apply digits_parse; assumption.
Qed.

Lemma knum_next_token len c : knum (Lexer.next_token len c).
Proof.
  unfold Lexer.next_token.
  destruct (eat_any_byte c) as [[b c1]|]; [|kn].
  destruct (assoc_byte b single_table); [kn|].
  destruct (b =? 47).
  { destruct (eat_byte 47 c1); [unfold lex_single_line_comment; kn|].
    destruct (eat_byte 42 c1); [unfold lex_multi_line_comment; kn|].
    unfold lex_operator. destruct (op_loop _ _ _ _ _ _). kn. }
  destruct (b =? 124).
  { destruct (eat_slice [124; 124] c1); [|unfold lex_operator; destruct (op_loop _ _ _ _ _ _); kn].
    unfold lex_text_block. destruct (match eat_byte 45 c0 with Some c2 => (true, c2) | None => (false, c0) end). kn. }
  destruct (mem_byte b op_start_bytes); [unfold lex_operator; destruct (op_loop _ _ _ _ _ _); kn|].
  destruct (is_ws b); [kn|].
  destruct (b =? 35); [unfold lex_single_line_comment; kn|].
  destruct (Lexer.is_digit b); [apply knum_number|].
  destruct (is_ident_start b); [unfold lex_ident; kn|].
  destruct (b =? 64).
  { destruct (eat_byte 39 c1); [unfold lex_verbatim_string; kn|].
    destruct (eat_byte 34 c1); [unfold lex_verbatim_string; kn|kn]. }
  destruct (b =? 39); [unfold lex_quoted_string; kn|].
  destruct (b =? 34); [unfold lex_quoted_string; kn|].
  kn.
Qed.

Lemma lex_loop_nums len : forall fuel keep c toks,
  lex_loop len fuel keep c = Ok toks -> Forall tok_num_ok toks.
Proof.
  induction fuel as [|f IH]; intros keep c toks H; cbn [lex_loop] in H; [discriminate|].
  pose proof (knum_next_token len c) as Hk.
  destruct (Lexer.next_token len c) as [[t c']| | |]; cbn [obind] in H; try discriminate. cbn [knum] in Hk.
  destruct (is_eof (tok_kind t)).
  - injection H as <-. constructor; [exact Hk|constructor].
  - destruct (lex_loop len f keep c') as [ts| | |] eqn:E; cbn [obind] in H; try discriminate.
    injection H as <-. specialize (IH _ _ _ E).
    destruct (keep || negb (is_trivia (tok_kind t))); [constructor; assumption|exact IH].
Qed.

Theorem lex_tokens_nums keep input toks : lex_all keep input = Ok toks -> Forall tok_num_ok toks.
Proof. apply lex_loop_nums. Qed.

(* ================================================================ G1: well-formed token stream *)

Definition span_in (len : N) (sp : span) : Prop := fst sp <= snd sp /\ snd sp <= len.

Lemma wfs_nonempty l : wfs l -> l <> [].
Proof. destruct l; [intros []|discriminate]. Qed.

Lemma tiles_filter len : forall toks at_, tiles_from len at_ toks ->
  let l := filter non_trivia toks in
  wfs l /\ at_ <= fst (tok_span (hd tok0 l)) /\ last l tok0 = eof_at len /\
  Forall (fun t => span_in len (tok_span t)) l /\ at_ <= len.
Proof.
  induction toks as [|t ts IH]; intros at_ H; cbn [tiles_from] in H; [contradiction|].
  cbn [filter]. destruct (is_eof (tok_kind t)) eqn:EO.
  - destruct H as [-> [Sp ->]]. unfold non_trivia. rewrite (eof_not_trivia _ EO). cbn [negb filter].
    apply is_eof_inv in EO. cbv zeta. cbn [wfs hd last]. unfold span_ok, span_in. rewrite Sp. cbn [fst snd].
    split; [split; [lia|exact EO]|]. split; [lia|]. split.
    + destruct t as [sp k]. cbn in *. subst. reflexivity.
    + split; [constructor; [cbv beta; rewrite Sp; cbn [fst snd]; lia|constructor]|lia].
  - destruct H as [e [Sp [Lt T]]]. specialize (IH e T). cbv zeta in IH.
    destruct IH as (Hw & Hhd & Hlast & Hall & Hle).
    assert (NT : non_trivia t = negb (is_trivia (tok_kind t))) by reflexivity.
    destruct (is_trivia (tok_kind t)) eqn:TR; cbn [negb] in NT; rewrite NT.
    + cbv zeta. split; [exact Hw|]. split; [lia|]. split; [exact Hlast|]. split; [exact Hall|lia].
    + cbv zeta. pose proof (wfs_nonempty _ Hw) as Hne.
      destruct (filter non_trivia ts) as [|u r] eqn:EF; [congruence|].
      split.
      * apply wfs_cons2. unfold span_ok. rewrite Sp. cbn [fst snd hd] in *.
        split; [lia|]. split; [|split; [exact Hhd|exact Hw]].
        destruct (tok_kind t); cbn in *; congruence.
      * cbn [hd]. rewrite Sp. cbn [fst]. split; [lia|]. split; [exact Hlast|].
        split; [|lia]. constructor; [|exact Hall]. unfold span_in. rewrite Sp. cbn [fst snd]. lia.
Qed.

Theorem lex_tokens_wf input toks : bytes_ok input -> lex_all false input = Ok toks ->
  wf_tokens toks /\ last toks tok0 = eof_at (input_len input) /\
  Forall (fun t => span_in (input_len input) (tok_span t)) toks.
Proof.
  intros B H. rewrite lex_filter in H. pose proof (lex_all_good input B) as G.
  destruct (lex_all true input) as [toks1| | |]; cbn [omap obind] in H; try discriminate.
  injection H as <-. cbn [good] in G.
  destruct (tiles_filter _ _ _ G) as (Hw & _ & Hlast & Hall & _).
  split; [apply wf_tokens_wfs; exact Hw|]. split; assumption.
Qed.

(* ================================================================ G4: the translated chain is acyclic *)

Lemma src_prec_ranked : ranked src_prec.
Proof.
  exists spec_rank. split.
  - intros k. destruct k; cbn; lia.
  - intros k k' H. destruct k; cbn in H; try discriminate; injection H as <-; cbn; lia.
Qed.

(* ================================================================ no panic, no fuel exhaustion *)

Theorem front_parse_total bytes : bytes_ok bytes ->
  (exists toks e, front_parse bytes = Ok (toks, e) /\ nums_ok e = true /\
                  lex_all false bytes = Ok toks /\ exists d, parse src_prec toks = Ok (e, d)) \/
  (exists x, front_parse bytes = Err x /\ match x with FAnalyze _ => False | _ => True end).
Proof.
  intros B. unfold front_parse, front_lex, front_parse_tokens.
  destruct (lex_total false bytes B) as [[toks Hl]|[e [Hl _]]]; rewrite Hl; cbn [inj_err obind].
  2:{ right. exists (FLex e). split; [reflexivity|exact I]. }
  destruct (lex_tokens_wf _ _ B Hl) as (Hwf & _ & _).
  pose proof (lex_tokens_nums _ _ _ Hl) as Hn.
  destruct (parse_total_nums src_prec toks src_prec_ranked Hn) as [Hf Hnum].
  pose proof (parse_no_panic src_prec (default_fuel 64 toks) toks Hwf) as Hp.
  fold (parse src_prec toks) in Hp.
  destruct (parse src_prec toks) as [[e d]|pe|site|] eqn:Hparse; cbn [omap obind fst inj_err].
  - left. exists toks, e. split; [reflexivity|]. split; [exact (Hnum e d eq_refl)|]. split; [reflexivity|eauto].
  - right. exists (FParse pe). split; [reflexivity|exact I].
  - exfalso. exact (Hp site eq_refl).
  - exfalso. exact (Hf eq_refl).
Qed.

Theorem front_no_panic bytes : bytes_ok bytes ->
  (exists r, load_model bytes = Ok r) \/ (exists x, load_model bytes = Err x).
Proof.
  intros B. unfold load_model.
  destruct (front_parse_total bytes B) as [(toks & e & Hp & Hn & _)|(x & Hp & _)]; rewrite Hp; cbn [obind snd].
  - unfold front_analyze, analyze.
    destruct (analyze_no_panic e (mk_env false top_scope) false Hn) as [[i Hi]|[x Hx]]; rewrite ?Hi, ?Hx; cbn [inj_err].
    + left. eauto.
    + right. eauto.
  - right. eauto.
Qed.

(* ================================================================ G5: span nesting bounds every span a node carries *)

Definition SP (p q : N) (l : list span) : Prop := Forall (fun sp => sin p sp q) l.
Definition aspans (l : list expr) : list span := flat node_spans l.
Definition PS (e : expr) : Prop := forall p q, within p q e -> SP p q (aspans (nodes e)).

Lemma SP_mono a b l p q : SP a b l -> p <= a -> b <= q -> SP p q l.
Proof. intros H Hp Hq. eapply Forall_impl; [|exact H]. intros sp Hs. cbv beta in Hs. exact (sin_mono _ _ _ _ _ Hs Hp Hq). Qed.

Lemma flat_app {A B} (f : A -> list B) l1 l2 : flat f (l1 ++ l2) = flat f l1 ++ flat f l2.
Proof. induction l1 as [|x r IH]; cbn [flat app]; [reflexivity|]. rewrite IH, app_assoc. reflexivity. Qed.

Lemma aspans_app l1 l2 : aspans (l1 ++ l2) = aspans l1 ++ aspans l2.
Proof. apply flat_app. Qed.

Ltac ss :=
  unfold SP, sin in *;
  repeat match goal with
         | H : _ /\ _ |- _ => destruct H
         end;
  repeat first
    [ match goal with
      | |- _ /\ _ => split
      | |- True => exact I
      | |- Forall _ [] => constructor
      | |- Forall _ (_ :: _) => apply Forall_cons
      | |- Forall _ (_ ++ _) => apply Forall_app; split
      | |- Forall _ (aspans (_ ++ _)) => rewrite aspans_app
      end
    | assumption
    | lia ].

Section NodeSpans.
  (* induction hypothesis shapes of Analyze_proofs.expr_ind' *)
  Lemma L_opt a b o : opt_all PS o -> oall (within a b) o -> SP a b (aspans (opt_list nodes o)).
  Proof. destruct o as [x|]; cbn [opt_all oall opt_list]; intros H Hw; [exact (H _ _ Hw)|constructor]. Qed.

  Lemma L_param a b x : param_all PS x -> in_param a b x ->
    SP a b (aspans (param_nodes nodes x)) /\ sin a (id_span (param_ident x)) b.
  Proof.
    destruct x as [n d]. cbn [param_all in_param param_nodes param_ident]. intros H [Hn Hd].
    split; [apply L_opt; assumption|exact Hn].
  Qed.

  Lemma L_params a b ps : Forall (param_all PS) ps -> all (in_param a b) ps ->
    SP a b (aspans (flat (param_nodes nodes) ps)) /\ SP a b (params_spans ps).
  Proof.
    induction 1 as [|x r Hx _ IH]; cbn [all flat params_spans map]; [intros _; split; constructor|].
    intros [H1 H2]. destruct (L_param a b x Hx H1) as [A1 A2]. destruct (IH H2) as [B1 B2].
    split; [rewrite aspans_app; apply Forall_app; split; assumption|constructor; assumption].
  Qed.

  Lemma L_bind a b x : bind_all PS x -> in_bind a b x ->
    SP a b (aspans (bind_nodes nodes x)) /\ SP a b (bind_spans x).
  Proof.
    destruct x as [n ps v]. cbn [bind_all in_bind bind_nodes bind_spans]. intros [Hps Hv] (Hn & Hp & Hw).
    pose proof (Hv _ _ Hw) as Sv.
    destruct ps as [[l sp]|]; cbn [optparams_all opt_list fst] in *.
    - destruct Hp as [Hsp Hl]. destruct (L_params _ _ l Hps Hl) as [A1 A2].
      assert (B1 := SP_mono _ _ _ a b A1). assert (B2 := SP_mono _ _ _ a b A2).
      unfold sin in Hsp. split.
      + rewrite aspans_app. apply Forall_app. split; [apply B1; lia|exact Sv].
      + constructor; [exact Hn|apply B2; lia].
    - split; [exact Sv|constructor; [exact Hn|constructor]].
  Qed.

  Lemma L_binds a b bs : Forall (bind_all PS) bs -> all (in_bind a b) bs ->
    SP a b (aspans (flat (bind_nodes nodes) bs)) /\ SP a b (flat bind_spans bs).
  Proof.
    induction 1 as [|x r Hx _ IH]; cbn [all flat]; [intros _; split; constructor|].
    intros [H1 H2]. destruct (L_bind a b x Hx H1) as [A1 A2]. destruct (IH H2) as [B1 B2].
    split; [rewrite aspans_app|]; apply Forall_app; split; assumption.
  Qed.

  Lemma L_assert a b x : assert_all PS x -> in_assert a b x -> SP a b (aspans (assert_nodes nodes x)).
  Proof.
    destruct x as [sp c m]. cbn [assert_all in_assert assert_nodes]. intros [Hc Hm] (Hsp & Hwc & Hwm).
    pose proof (Hc _ _ Hwc) as Sc. pose proof (L_opt _ _ m Hm Hwm) as Sm. unfold sin in Hsp.
    rewrite aspans_app. apply Forall_app. split; eapply SP_mono; try eassumption; lia.
  Qed.

  Lemma L_spec a b c : spec_all PS c -> in_spec a b c -> SP a b (aspans (spec_nodes nodes c)).
  Proof.
    destruct c as [v e|e]; cbn [spec_all in_spec spec_nodes]; intros H Hw.
    - destruct Hw as [_ Hw]. exact (H _ _ Hw).
    - exact (H _ _ Hw).
  Qed.

  Lemma L_specs a b cs : Forall (spec_all PS) cs -> all (in_spec a b) cs ->
    SP a b (aspans (flat (spec_nodes nodes) cs)).
  Proof.
    induction 1 as [|x r Hx _ IH]; cbn [all flat]; [intros _; constructor|].
    intros [H1 H2]. rewrite aspans_app. apply Forall_app. split; [apply L_spec; assumption|apply IH; assumption].
  Qed.

  Lemma L_fname a b n : fname_all PS n -> in_fname a b n ->
    SP a b (aspans (fname_nodes nodes n)) /\ SP a b (fname_spans n).
  Proof.
    destruct n as [i|s sp|e sp]; cbn [fname_all in_fname fname_nodes fname_spans]; intros H Hw.
    - split; [constructor|constructor; [exact Hw|constructor]].
    - split; [constructor|constructor; [exact Hw|constructor]].
    - destruct Hw as [Hsp Hw]. split; [|constructor; [exact Hsp|constructor]].
      unfold sin in Hsp. eapply SP_mono; [exact (H _ _ Hw)|lia|lia].
  Qed.

  Lemma L_field a b f : field_all PS f -> in_field a b f ->
    SP a b (aspans (field_nodes nodes f)) /\ SP a b (member_spans (MField f)).
  Proof.
    destruct f as [n plus vis v|n ps psp vis v]; cbn [field_all in_field field_nodes member_spans].
    - intros [Hn Hv] [Hwn Hwv]. destruct (L_fname a b n Hn Hwn) as [A1 A2].
      split; [rewrite aspans_app; apply Forall_app; split; [exact A1|exact (Hv _ _ Hwv)]|exact A2].
    - intros (Hn & Hps & Hv) (Hwn & Hsp & Hwps & Hwv). destruct (L_fname a b n Hn Hwn) as [A1 A2].
      destruct (L_params _ _ ps Hps Hwps) as [B1 B2]. unfold sin in Hsp.
      split.
      + rewrite !aspans_app. apply Forall_app. split; [exact A1|]. apply Forall_app.
        split; [eapply SP_mono; [exact B1|lia|lia]|exact (Hv _ _ Hwv)].
      + apply Forall_app. split; [exact A2|eapply SP_mono; [exact B2|lia|lia]].
  Qed.

  Lemma L_member a b m : member_all PS m -> in_member a b m ->
    SP a b (aspans (member_nodes nodes m)) /\ SP a b (member_spans m).
  Proof.
    destruct m as [bd|x|f]; cbn [member_all in_member member_nodes]; intros H Hw.
    - apply L_bind; assumption.
    - split; [apply L_assert; assumption|constructor].
    - apply L_field; assumption.
  Qed.

  Lemma L_members a b ms : Forall (member_all PS) ms -> all (in_member a b) ms ->
    SP a b (aspans (flat (member_nodes nodes) ms)) /\ SP a b (flat member_spans ms).
  Proof.
    induction 1 as [|x r Hx _ IH]; cbn [all flat]; [intros _; split; constructor|].
    intros [H1 H2]. destruct (L_member a b x Hx H1) as [A1 A2]. destruct (IH H2) as [B1 B2].
    split; [rewrite aspans_app|]; apply Forall_app; split; assumption.
  Qed.

  Lemma L_arg a b x : arg_all PS x -> in_arg a b x -> SP a b (aspans (arg_nodes nodes x)).
  Proof.
    destruct x as [e|n e]; cbn [arg_all in_arg arg_nodes]; intros H Hw.
    - exact (H _ _ Hw).
    - destruct Hw as [_ Hw]. exact (H _ _ Hw).
  Qed.

  Lemma L_args a b l : Forall (arg_all PS) l -> all (in_arg a b) l ->
    SP a b (aspans (flat (arg_nodes nodes) l)).
  Proof.
    induction 1 as [|x r Hx _ IH]; cbn [all flat]; [intros _; constructor|].
    intros [H1 H2]. rewrite aspans_app. apply Forall_app. split; [apply L_arg; assumption|apply IH; assumption].
  Qed.

  Lemma L_exprs a b l : Forall PS l -> all (within a b) l -> SP a b (aspans (flat nodes l)).
  Proof.
    induction 1 as [|x r Hx _ IH]; cbn [all flat]; [intros _; constructor|].
    intros [H1 H2]. rewrite aspans_app. apply Forall_app. split; [exact (Hx _ _ H1)|apply IH; assumption].
  Qed.

  Lemma L_obj a b o : obj_all PS o -> in_obj a b o ->
    SP a b (aspans (obj_nodes nodes o)) /\ SP a b (obj_spans o).
  Proof.
    destruct o as [ms|l1 n plus body l2 cs]; cbn [obj_all in_obj obj_nodes obj_spans].
    - apply L_members.
    - intros (H1 & Hn & Hb & H2 & Hcs) (W1 & Wn & Wb & W2 & Wcs).
      destruct (L_binds a b l1 H1 W1) as [A1 A2]. destruct (L_binds a b l2 H2 W2) as [B1 B2].
      split.
      + rewrite !aspans_app. repeat (apply Forall_app; split); try assumption.
        * exact (Hn _ _ Wn).
        * exact (Hb _ _ Wb).
        * apply L_specs; assumption.
      + rewrite flat_app. apply Forall_app. split; assumption.
  Qed.
End NodeSpans.

Lemma within_all_spans : forall e, PS e.
Proof.
  apply expr_ind'. intros e Hc p q Hw.
  assert (Hs := within_sin _ _ _ Hw).
  assert (Hab : p <= fst (expr_span e) /\ snd (expr_span e) <= q) by (unfold sin in Hs; lia).
  destruct Hab as [Hpa Hbq].
  cut (SP (fst (expr_span e)) (snd (expr_span e))
          (tl (node_spans e) ++ aspans (tl (nodes e)))).
  { intros HS. destruct e; cbn [nodes aspans flat node_spans tl app] in *;
      (apply Forall_cons; [exact Hs|]); rewrite <- ?app_assoc;
      (eapply SP_mono; [exact HS|exact Hpa|exact Hbq]). }
  destruct e; cbn [within children_all] in Hw, Hc; destruct Hw as [_ Hw];
    cbn [nodes node_spans tl expr_span fst snd app] in *.
  all: try solve [constructor].
  - (* EParen *) exact (Hc _ _ Hw).
  - (* EObject *) destruct (L_obj _ _ o Hc Hw) as [A1 A2]. apply Forall_app. split; assumption.
  - (* EArray *) apply all_Forall in Hw. apply L_exprs; [exact Hc|apply all_Forall; exact Hw].
  - (* EArrayComp *) destruct Hc as [Hc1 Hc2]. destruct Hw as [W1 W2]. rewrite aspans_app.
    apply Forall_app. split; [exact (Hc1 _ _ W1)|apply L_specs; assumption].
  - (* EField *) destruct Hw as [W1 _]. exact (Hc _ _ W1).
  - (* EIndex *) destruct Hc as [Hc1 Hc2]. destruct Hw as [W1 W2]. rewrite aspans_app.
    apply Forall_app. split; [exact (Hc1 _ _ W1)|exact (Hc2 _ _ W2)].
  - (* ESlice *) destruct Hc as (Hc1 & Hc2 & Hc3 & Hc4). destruct Hw as (W1 & W2 & W3 & W4).
    rewrite !aspans_app. repeat (apply Forall_app; split); [exact (Hc1 _ _ W1)|apply L_opt; assumption..].
  - (* ESuperField *) destruct Hw as [W1 W2]. constructor; [exact W1|constructor].
  - (* ESuperIndex *) destruct Hw as [W1 W2]. constructor; [exact W1|exact (Hc _ _ W2)].
  - (* ECall *) destruct Hc as [Hc1 Hc2]. destruct Hw as [W1 W2]. rewrite aspans_app.
    apply Forall_app. split; [exact (Hc1 _ _ W1)|apply L_args; assumption].
  - (* EIdent *) constructor; [exact Hw|constructor].
  - (* ELocal *) destruct Hc as [Hc1 Hc2]. destruct Hw as [W1 W2].
    destruct (L_binds _ _ binds Hc1 W1) as [A1 A2]. rewrite aspans_app.
    apply Forall_app. split; [exact A2|]. apply Forall_app. split; [exact A1|exact (Hc2 _ _ W2)].
  - (* EIf *) destruct Hc as (Hc1 & Hc2 & Hc3). destruct Hw as (W1 & W2 & W3).
    rewrite !aspans_app. repeat (apply Forall_app; split);
      [exact (Hc1 _ _ W1)|exact (Hc2 _ _ W2)|apply L_opt; assumption].
  - (* EBinary *) destruct Hc as [Hc1 Hc2]. destruct Hw as [W1 W2]. rewrite aspans_app.
    apply Forall_app. split; [exact (Hc1 _ _ W1)|exact (Hc2 _ _ W2)].
  - (* EUnary *) exact (Hc _ _ Hw).
  - (* EObjExt *) destruct Hc as [Hc1 Hc2]. destruct Hw as (W1 & W2 & W3).
    destruct (L_obj _ _ o Hc2 W3) as [A1 A2]. unfold sin in W2. rewrite aspans_app.
    apply Forall_app. split; [eapply SP_mono; [exact A2|lia|lia]|].
    apply Forall_app. split; [exact (Hc1 _ _ W1)|eapply SP_mono; [exact A1|lia|lia]].
  - (* EFunc *) destruct Hc as [Hc1 Hc2]. destruct Hw as [W1 W2].
    destruct (L_params _ _ params Hc1 W1) as [A1 A2]. rewrite aspans_app.
    apply Forall_app. split; [exact A2|]. apply Forall_app. split; [exact A1|exact (Hc2 _ _ W2)].
  - (* EAssert *) destruct Hc as [Hc1 Hc2]. destruct Hw as [W1 W2]. rewrite aspans_app.
    apply Forall_app. split; [apply L_assert; assumption|exact (Hc2 _ _ W2)].
  - (* EImport *) exact (Hc _ _ Hw).
  - (* EImportStr *) exact (Hc _ _ Hw).
  - (* EImportBin *) exact (Hc _ _ Hw).
  - (* EError *) exact (Hc _ _ Hw).
  - (* EInSuper *) destruct Hw as [W1 W2]. constructor; [exact W2|exact (Hc _ _ W1)].
Qed.

Lemma In_flat {A B} (f : A -> list B) l x y : In x l -> In y (f x) -> In y (flat f l).
Proof.
  induction l as [|z r IH]; cbn [flat In]; [intros []|]. intros [->|H] Hy; apply in_or_app; [left|right]; auto.
Qed.

Theorem within_node_spans e p q : within p q e ->
  forall n, In n (nodes e) -> forall sp, In sp (node_spans n) -> sin p sp q.
Proof.
  intros Hw n Hn sp Hsp. pose proof (within_all_spans e p q Hw) as H.
  unfold SP in H. rewrite Forall_forall in H. apply H. unfold aspans. eapply In_flat; eassumption.
Qed.

(* ================================================================ every error is located inside the input *)

Theorem front_error_located bytes x : bytes_ok bytes -> load_model bytes = Err x ->
  Forall (span_in (input_len bytes)) (front_error_spans x).
Proof.
  intros B. unfold load_model, front_parse, front_lex, front_parse_tokens.
  destruct (lex_all false bytes) as [toks|le|site|] eqn:Hl; cbn [inj_err obind]; try discriminate.
  2:{ intros H. injection H as <-. cbn [front_error_spans]. constructor; [|constructor].
      exact (lex_error_located false bytes le B Hl). }
  destruct (lex_tokens_wf _ _ B Hl) as (Hwf & Hlast & Hall).
  destruct (parse src_prec toks) as [[e d]|pe|site|] eqn:Hparse; cbn [omap obind fst snd inj_err]; try discriminate.
  - unfold front_analyze, analyze.
    destruct (analyze_expr e (mk_env false top_scope) false) as [i|ae|site|] eqn:Ha; cbn [inj_err]; try discriminate.
    intros H. injection H as <-. cbn [front_error_spans]. apply Forall_forall. intros sp Hsp.
    destruct (analyze_error_located _ _ _ _ Ha sp Hsp) as (n & Hn & Hns).
    pose proof (span_nesting src_prec (default_fuel 64 toks) toks e d Hwf Hparse) as Hw.
    rewrite Hlast in Hw. cbn [eof_at tok_span fst] in Hw.
    pose proof (within_node_spans _ _ _ Hw n Hn sp Hns) as Hs. unfold sin in Hs. unfold span_in. lia.
  - intros H. injection H as <-. cbn [front_error_spans]. constructor; [|constructor].
    destruct (parse_error_at_token src_prec (default_fuel 64 toks) toks pe Hparse) as (t & Ht & Hsp & _).
    rewrite Hsp. rewrite Forall_forall in Hall. exact (Hall t Ht).
Qed.

(* ================================================================ non-vacuity *)

Example front_examples :
  let good := bytes_of_string "local x = 1_0.5e-3; /* c */ [x, std, 'a']" in
  bytes_ok good /\ is_ok (load_model good) = true /\
  (exists e, load_model (bytes_of_string "1 + 'ab") = Err (FLex e) /\ err_span e = (4, 7)) /\
  (exists e, load_model (bytes_of_string "local x = ; x") = Err (FParse e) /\ pe_span e = (10, 11)) /\
  load_model (bytes_of_string "local x = 1; y") = Err (FAnalyze (UnknownVariable (13, 14) [121])).
Proof.
  vm_compute. split; [repeat constructor|]. split; [reflexivity|].
  split; [eexists; split; reflexivity|]. split; [eexists; split; reflexivity|reflexivity].
Qed.
