(* Proofs/Radix_float_proofs.v — the meaning of [f_of_Z] (SpecFloat.binary_normalize,
   prec 53, emax 1024) through Flocq: it is the round-to-nearest-even of the integer,
   finite whenever that rounding stays below 2^1024.  (The three bridging lemmas are the
   ones of Flocq's IEEE754/PrimFloat.v, re-proved here so that nothing depends on
   primitive floats.) *)
From Coq Require Import ZArith Reals Lia Psatz Floats.SpecFloat.
From Flocq Require Import Core.Core Calc.Round IEEE754.BinarySingleNaN.
From RJ Require Import Base.F64.

Local Instance Hprec : Prec_gt_0 53. Proof. unfold Prec_gt_0. lia. Qed.
Local Instance Hmax : Prec_lt_emax 53 1024. Proof. unfold Prec_lt_emax. lia. Qed.

Lemma round_nearest_even_equiv s m l :
  round_nearest_even m l = choice_mode mode_NE s m l.
Proof.
  case l; [reflexivity|intro c].
  case c; [ | reflexivity..].
  now simpl; unfold Round.cond_incr; case Z.even.
Qed.

Lemma binary_round_aux_equiv sx mx ex lx :
  SpecFloat.binary_round_aux 53 1024 sx mx ex lx = binary_round_aux 53 1024 mode_NE sx mx ex lx.
Proof.
  unfold SpecFloat.binary_round_aux, binary_round_aux.
  set (mrse' := shr_fexp _ _ _ _ _).
  case mrse'; intros mrs' e'; simpl.
  now rewrite (round_nearest_even_equiv sx).
Qed.

Lemma binary_round_equiv s m e :
  SpecFloat.binary_round 53 1024 s m e = binary_round 53 1024 mode_NE s m e.
Proof.
  unfold SpecFloat.binary_round, binary_round, shl_align_fexp.
  set (mez := shl_align _ _ _); case mez as [mz ez].
  apply binary_round_aux_equiv.
Qed.

Lemma binary_normalize_equiv m e szero :
  SpecFloat.binary_normalize 53 1024 m e szero
  = B2SF (binary_normalize 53 1024 Hprec Hmax mode_NE m e szero).
Proof.
  case m as [ | p | p].
  - now simpl.
  - simpl; rewrite B2SF_SF2B; apply binary_round_equiv.
  - simpl; rewrite B2SF_SF2B; apply binary_round_equiv.
Qed.

Definition rne (x : R) : R := round radix2 (SpecFloat.fexp 53 1024) (round_mode mode_NE) x.

(* f_of_Z is the correctly rounded (nearest, ties to even) double of the integer *)
Theorem f_of_Z_correct : forall z : Z,
  (Rabs (rne (IZR z)) < bpow radix2 1024)%R ->
  f_is_finite (f_of_Z z) = true /\ SF2R radix2 (f_of_Z z) = rne (IZR z).
Proof.
  intros z Hlt. unfold f_of_Z, f_of_Z_exp, prec, emax. rewrite binary_normalize_equiv.
  pose proof (binary_normalize_correct 53 1024 Hprec Hmax mode_NE z 0 false) as H.
  cbv zeta in H. unfold F2R in H. cbn [Fnum Fexp bpow] in H. rewrite Rmult_1_r in H.
  fold (rne (IZR z)) in H. rewrite Rlt_bool_true in H by exact Hlt.
  destruct H as [HR [HF _]]. split.
  - unfold f_is_finite. rewrite <- HF. now destruct (binary_normalize 53 1024 Hprec Hmax mode_NE z 0 false).
  - rewrite SF2R_B2SF. exact HR.
Qed.

Lemma rne_le_pow2 z k : (0 <= k < 1024)%Z -> (Z.abs z <= 2 ^ k)%Z -> (Rabs (rne (IZR z)) <= bpow radix2 k)%R.
Proof.
  intros Hk Hz. unfold rne. apply abs_round_le_generic; try typeclasses eauto.
  - apply generic_format_bpow. unfold SpecFloat.fexp, SpecFloat.emin. lia.
  - rewrite <- abs_IZR. rewrite <- IZR_Zpower by lia. now apply IZR_le.
Qed.

Theorem f_of_Z_finite_small : forall z, (Z.abs z <= 2 ^ 128)%Z -> f_is_finite (f_of_Z z) = true.
Proof.
  intros z Hz. apply f_of_Z_correct. eapply Rle_lt_trans; [apply (rne_le_pow2 z 128); [lia|assumption]|].
  apply bpow_lt. lia.
Qed.
