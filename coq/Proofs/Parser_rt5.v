(* Proofs/Parser_rt5.v — round trip: suffix chains, main induction, top level *)
From RJ Require Import Base.Outcome Model.Token Model.Ast Model.Parser Model.Print
  Proofs.Parser_rt Proofs.Parser_rt2 Proofs.Parser_rt3 Proofs.Parser_rt4.
From Coq Require Import Lia.
Local Open Scope list_scope.
Local Open Scope N_scope.

Lemma pl_item0_comp pexpr lf f e stk c t specs' t2 (a : expr) t' :
  is_simple SComma c = false ->
  run (maybe_parse_comp_spec pexpr (S lf)) (c :: t) (Some specs') (sim SRightBracket :: t2) -> t2 <> [] ->
  run (pe_loop T pexpr (S lf) f (StParsed (EArrayComp sp0 e specs')) stk) t2 a t' ->
  run (pe_loop T pexpr (S lf) (S f) (StParsed e) (SiArrayItem0 sp0 :: stk)) (c :: t) a t'.
Proof.
  intros Hc Hs Ht H. cbn [pe_loop].
  eapply run_bind; [apply run_eat_miss; exact Hc|].
  eapply run_orelse_hit; [exact Hs|].
  eapply run_bind; [apply run_expect_hit; [reflexivity|exact Ht]|].
  eapply run_bind; [apply run_mk_span0|]. exact H.
Qed.

Lemma pl_primary_brace pexpr lf f stk t (a : expr) t' : t <> [] ->
  run ('(oi, en) <- parse_obj_inside pexpr (S lf) ;; sp <- mk_span sp0 en ;;
       pe_loop T pexpr (S lf) f (StParsed (EObject sp oi)) stk) t a t' ->
  run (pe_loop T pexpr (S lf) (S f) StPrimary stk) (sim SLeftBrace :: t) a t'.
Proof.
  intros Ht H. cbn [pe_loop]. eapply run_orelse_miss; [run_compute|].
  eapply run_orelse_hit; [apply run_eat_hit; [reflexivity|exact Ht]|]. exact H.
Qed.

Lemma arg_head a : acore a = true -> exists c r, print_arg a = c :: r /\ is_simple SRightParen c = false.
Proof.
  destruct a as [y|name y]; cbn [acore print_arg]; intros H.
  - destruct (core_head y H) as (c & r & E & _ & Hst). exists c, r. split; [exact E|].
    apply starter_not; [exact Hst|reflexivity].
  - eexists; eexists; split; reflexivity.
Qed.

Definition arg_ok (L : nat) (a : arg) : Prop := acore a = true /\ wp_arg a = true /\ (alen a < L)%nat.

Lemma run_args_loop pexpr L (Hp : pexpr_ok pexpr L) : forall more a0 acc fuel rest,
  (List.length more < fuel)%nat -> Forall (arg_ok L) (a0 :: more) -> rest <> [] ->
  run (args_loop pexpr fuel acc)
      (print_arg a0 ++ flat_map (fun y => comma ++ print_arg y) more ++ sim SRightParen :: rest)
      (acc ++ map strip_arg (a0 :: more), sp0) rest.
Proof.
  induction more as [|a1 more IH]; intros a0 acc fuel rest Hf Hall Hr;
    destruct fuel as [|f]; try (cbn in Hf; lia); cbn [args_loop flat_map app].
  - inversion Hall as [|? ? (Hc & Hw & Hl) _]; subst.
    eapply run_bind; [apply (run_arg pexpr L Hp); [exact Hc|exact Hw|exact Hl|reflexivity|reflexivity|reflexivity]|].
    eapply run_orelse_hit; [apply run_eat_hit; [reflexivity|exact Hr]|]. apply run_ret.
  - inversion Hall as [|? ? (Hc & Hw & Hl) Hall']; subst.
    unfold comma at 1. rewrite <- !app_assoc. cbn [app].
    eapply run_bind; [apply (run_arg pexpr L Hp); [exact Hc|exact Hw|exact Hl|reflexivity|reflexivity|reflexivity]|].
    eapply run_orelse_miss; [apply run_eat_miss; reflexivity|].
    eapply run_orelse_hit; [apply run_eat_hit; [reflexivity|auto with rt]|].
    inversion Hall' as [|? ? (Hc1 & _) _]; subst.
    destruct (arg_head a1 Hc1) as (c & r & E & Hh).
    eapply run_orelse_miss; [eapply run_eat_miss_app; [exact E|exact Hh]|].
    replace (acc ++ map strip_arg (a0 :: a1 :: more)) with ((acc ++ [strip_arg a0]) ++ map strip_arg (a1 :: more))
      by (rewrite <- app_assoc; reflexivity).
    apply IH; [cbn in Hf; lia|exact Hall'|exact Hr].
Qed.

(* suffix chains: from the unary level into the suffix loop of parse_suffix_expr *)
Definition nots (l : list token) : Prop :=
  match l with c :: _ => is_simple KTailstrict c = false | [] => True end.

Definition Sform (e : expr) (c m : nat) : Prop :=
  forall pexpr lf f stk rest R t' (X : expr) tf,
    pexpr_ok pexpr (List.length (print_expr e)) -> (List.length (print_expr e) <= lf)%nat -> rest <> [] ->
    nots rest ->
    run (suffix_loop pexpr (S lf) (S lf - m) (strip_spans e)) rest R t' ->
    run (pe_loop T pexpr (S lf) f (StParsed R) stk) t' X tf ->
    run (pe_loop T pexpr (S lf) (c + f) StUnary stk) (print_expr e ++ rest) X tf.

Definition item_ok (n : nat) (x : expr) : Prop :=
  (esize x < n)%nat /\ core_expr x = true /\ wpx 0 true x = true.
Definition items_toks (x1 : expr) (more : list expr) : list token :=
  print_expr x1 ++ flat_map (fun y => comma ++ print_expr y) more.

Lemma array_items n
  (IH : forall y, (esize y < n)%nat -> core_expr y = true -> forall k last, (k <= 10)%nat ->
        wpx k last y = true -> exists c, (c <= 40 * List.length (print_expr y))%nat /\ Bform k last y c) :
  forall more x1, Forall (item_ok n) (x1 :: more) ->
  exists c, (c <= 40 * (List.length (items_toks x1 more) + 1))%nat /\
    forall pexpr lf Lb f stk acc rest (X : expr) tf,
      pexpr_ok pexpr Lb -> (Lb <= lf)%nat -> (List.length (items_toks x1 more) <= Lb)%nat -> rest <> [] ->
      run (pe_loop T pexpr (S lf) f (StParsed (EArray sp0 (acc ++ map strip_spans (x1 :: more)))) stk) rest X tf ->
      run (pe_loop T pexpr (S lf) (c + f) (init_state T) (SiArrayItemN sp0 acc :: stk))
          (items_toks x1 more ++ sim SRightBracket :: rest) X tf.
Proof.
  induction more as [|x2 more IHm]; intros x1 Hall;
    inversion Hall as [|? ? (Hs1 & Hc1 & Hw1) Hall']; subst;
    destruct (IH x1 Hs1 Hc1 0%nat true ltac:(lia) Hw1) as (c1 & Hb1 & HB1).
  - exists (c1 + 2)%nat. unfold items_toks. cbn [flat_map]. rewrite app_nil_r. split; [lia|].
    intros pexpr lf Lb f stk acc rest X tf Hp Hlf HL Hr H.
    fuel_as (c1 + (2 + f))%nat. change (init_state T) with (enter 0).
    apply HB1; [eapply pexpr_ok_mono; [exact Hp|exact HL]|lia|reflexivity|intros _; reflexivity|].
    change (exit_ 0 (strip_spans x1)) with (StBinaryRhs (kind 0) (strip_spans x1)). cbn [Nat.add].
    apply pl_rhs_none; [reflexivity|]. apply pl_itemN_last; [exact Hr|exact H].
  - destruct (IHm x2 Hall') as (c' & Hb' & HB').
    inversion Hall' as [|? ? (_ & Hc2 & _) _]; subst.
    destruct (core_head x2 Hc2) as (ch & rh & Eh & _ & Hst).
    exists (c1 + (2 + c'))%nat. unfold items_toks in *. cbn [flat_map]. unfold comma at 1 3.
    split; [revert Hb'; repeat (rewrite app_length; cbn [List.length]); lia|].
    intros pexpr lf Lb f stk acc rest X tf Hp Hlf HL Hr H.
    assert (HL1 : (List.length (print_expr x1) <= Lb)%nat) by (revert HL; repeat (rewrite app_length; cbn [List.length]); lia).
    assert (HL2 : (List.length (print_expr x2 ++ flat_map (fun y => comma ++ print_expr y) more) <= Lb)%nat)
      by (revert HL; repeat (rewrite app_length; cbn [List.length]); lia).
    norm_app.
    fuel_as (c1 + (2 + (c' + f)))%nat. change (init_state T) with (enter 0).
    apply HB1; [eapply pexpr_ok_mono; [exact Hp|exact HL1]|lia|reflexivity|intros _; reflexivity|].
    change (exit_ 0 (strip_spans x1)) with (StBinaryRhs (kind 0) (strip_spans x1)). cbn [Nat.add].
    apply pl_rhs_none; [reflexivity|].
    rewrite app_assoc.
    eapply pl_itemN_more'; [apply app_eq_cons_l; exact Eh|exact Hst|].
    apply (HB' pexpr lf Lb); [exact Hp|exact Hlf|exact HL2|exact Hr|].
    rewrite <- app_assoc. exact H.
Qed.

Lemma sform n
  (IH : forall y, (esize y < n)%nat -> core_expr y = true -> forall k last, (k <= 10)%nat ->
        wpx k last y = true -> exists c, (c <= 40 * List.length (print_expr y))%nat /\ Bform k last y c) :
  forall e, (esize e <= n)%nat -> core_expr e = true -> wpx lv_postfix false e = true ->
  exists c m, (c + 30 <= 40 * List.length (print_expr e))%nat /\ (m <= List.length (print_expr e))%nat /\ Sform e c m.
Proof.
  induction e; intros Hsz Hcore Hwp; cbn [core_expr] in Hcore; try discriminate;
    try (cbn [wpx andb] in Hwp; discriminate);
    try (cbn [wpx] in Hwp; destruct e3; cbn in Hwp; discriminate);
    try (lazymatch goal with |- exists c m, _ /\ _ /\ Sform ?E c m =>
         exists 3%nat, 0%nat; split; [cbn [print_expr List.length]; lia|]; split; [lia|];
         intros pexpr lf f stk rest R t' X tf _ _ Hr _ H1 H2; cbn [print_expr app Nat.add];
         apply pl_unary_miss; [try destruct b; reflexivity|];
         eapply (pl_primary_atom pexpr lf _ E); [reflexivity|exact Hr|];
         rewrite Nat.sub_0_r in H1; eapply pl_parsed_suffix_gen; [exact H1|exact H2] end).
  - (* EParen *)
    cbn [wpx] in Hwp. cbn [esize] in Hsz.
    destruct (IH e ltac:(lia) Hcore 0%nat true ltac:(lia) Hwp) as (cx & Hbx & Hx).
    exists (S (S (cx + 3))), 0%nat. split; [len_tac|]. split; [lia|].
    intros pexpr lf f stk rest R t' X tf Hp Hlf Hr _ H1 H2.
    cbn [print_expr strip_spans app]. rewrite <- app_assoc. cbn [app Nat.add].
    apply pl_unary_miss; [reflexivity|].
    apply pl_primary_paren; [auto with rt|].
    change (init_state T) with (enter 0).
    fuel_as (cx + (3 + f))%nat.
    apply Hx; [eapply pexpr_ok_mono; [exact Hp|len_tac]| revert Hlf; len_tac |reflexivity|intros _; reflexivity|].
    change (exit_ 0 (strip_spans e)) with (StBinaryRhs (kind 0) (strip_spans e)). cbn [Nat.add].
    apply pl_rhs_none; [reflexivity|].
    apply pl_parsed_paren; [exact Hr|].
    rewrite Nat.sub_0_r in H1. eapply pl_parsed_suffix_gen; [exact H1|exact H2].
  - (* EObject *)
    cbn [wpx] in Hwp.
    assert (Eprint : print_expr (EObject sp o) = sim SLeftBrace :: print_obj o ++ [sim SRightBrace]) by reflexivity.
    exists 3%nat, 0%nat. split; [rewrite Eprint; cbn [List.length]; lia|]. split; [lia|].
    intros pexpr lf f stk rest R t' X tf Hp Hlf Hr _ H1 H2.
    rewrite Eprint in *. change (strip_spans (EObject sp o)) with (EObject sp0 (strip_obj o)) in H1.
    cbn [List.length] in Hp, Hlf. rewrite app_length in Hp, Hlf. cbn [List.length] in Hp, Hlf.
    norm_app. cbn [Nat.add].
    apply pl_unary_miss; [reflexivity|]. apply pl_primary_brace; [auto with rt|].
    eapply run_bind; [apply (run_obj pexpr _ Hp (S lf) o rest); [exact Hcore|exact Hwp|lia|lia|exact Hr]|].
    cbv beta iota. eapply run_bind; [apply run_mk_span0|].
    rewrite Nat.sub_0_r in H1. eapply pl_parsed_suffix_gen; [exact H1|exact H2].
  - (* EArray *)
    cbn [wpx] in Hwp. cbn [esize] in Hsz.
    assert (Hall : Forall (item_ok n) items).
    { apply Forall_forall. intros x Hin. rewrite forallb_forall in Hcore, Hwp.
      pose proof (lsum_in esize items x Hin). split; [lia|]. split; [apply Hcore|apply Hwp]; exact Hin. }
    destruct items as [|x1 more].
    + exists 3%nat, 0%nat. split; [cbn [print_expr sep_by app List.length]; lia|]. split; [lia|].
      intros pexpr lf f stk rest R t' X tf Hp Hlf Hr _ H1 H2.
      cbn [print_expr sep_by strip_spans map app Nat.add].
      apply pl_unary_miss; [reflexivity|]. apply pl_primary_bracket; [discriminate|].
      eapply run_orelse_hit; [apply run_eat_hit; [reflexivity|exact Hr]|].
      eapply run_bind; [apply run_mk_span0|].
      rewrite Nat.sub_0_r in H1. eapply pl_parsed_suffix_gen; [exact H1|exact H2].
    + inversion Hall as [|? ? (Hs1 & Hc1 & Hw1) Hall']; subst.
      destruct (IH x1 Hs1 Hc1 0%nat true ltac:(lia) Hw1) as (c1 & Hb1 & HB1).
      destruct (core_head x1 Hc1) as (ch1 & rh1 & Eh1 & _ & Hst1).
      destruct more as [|x2 more].
      * exists (2 + (c1 + 3))%nat, 0%nat. split; [len_tac|]. split; [lia|].
        intros pexpr lf f stk rest R t' X tf Hp Hlf Hr _ H1 H2.
        cbn [print_expr sep_by flat_map strip_spans map]. rewrite app_nil_r. norm_app. cbn [Nat.add].
        apply pl_unary_miss; [reflexivity|]. apply pl_primary_bracket; [auto with rt|].
        eapply run_orelse_miss; [eapply run_eat_miss_app; [exact Eh1|apply starter_not; [exact Hst1|reflexivity]]|].
        change (init_state T) with (enter 0). fuel_as (c1 + (3 + f))%nat.
        apply HB1; [eapply pexpr_ok_mono; [exact Hp|len_tac]|revert Hlf; len_tac|reflexivity|intros _; reflexivity|].
        change (exit_ 0 (strip_spans x1)) with (StBinaryRhs (kind 0) (strip_spans x1)). cbn [Nat.add].
        apply pl_rhs_none; [reflexivity|]. apply pl_item0_single; [exact Hr|].
        rewrite Nat.sub_0_r in H1. eapply pl_parsed_suffix_gen; [exact H1|exact H2].
      * destruct (array_items n IH more x2 Hall') as (c' & Hb' & HB').
        inversion Hall' as [|? ? (_ & Hc2 & _) _]; subst.
        destruct (core_head x2 Hc2) as (ch2 & rh2 & Eh2 & _ & Hst2).
        exists (2 + (c1 + (2 + (c' + 1))))%nat, 0%nat.
        assert (Elen : List.length (print_expr (EArray sp (x1 :: x2 :: more))) =
                       (List.length (print_expr x1) + List.length (items_toks x2 more) + 3)%nat).
        { cbn [print_expr sep_by flat_map]. unfold items_toks, comma. repeat (rewrite app_length; cbn [List.length]). lia. }
        split; [lia|]. split; [lia|].
        intros pexpr lf f stk rest R t' X tf Hp Hlf Hr _ H1 H2. rewrite Elen in Hp, Hlf.
        cbn [print_expr sep_by flat_map strip_spans]. unfold comma at 1. norm_app. cbn [Nat.add].
        apply pl_unary_miss; [reflexivity|]. apply pl_primary_bracket; [auto with rt|].
        eapply run_orelse_miss; [eapply run_eat_miss_app; [exact Eh1|apply starter_not; [exact Hst1|reflexivity]]|].
        change (init_state T) with (enter 0). fuel_as (c1 + (2 + (c' + (1 + f))))%nat.
        apply HB1; [eapply pexpr_ok_mono; [exact Hp|lia]|lia|reflexivity|intros _; reflexivity|].
        change (exit_ 0 (strip_spans x1)) with (StBinaryRhs (kind 0) (strip_spans x1)). cbn [Nat.add].
        apply pl_rhs_none; [reflexivity|].
        change (print_expr x2 ++ flat_map (fun y => comma ++ print_expr y) more ++ sim SRightBracket :: rest)
          with (print_expr x2 ++ (flat_map (fun y => comma ++ print_expr y) more ++ sim SRightBracket :: rest)).
        rewrite app_assoc.
        eapply pl_item0_more'; [apply app_eq_cons_l; exact Eh2|exact Hst2|].
        eapply (HB' pexpr lf _ _ _ [strip_spans x1]); [exact Hp|lia|unfold items_toks; lia|exact Hr|].
        cbn [app map] in *. apply pl_parsed_suffix_gen with (R := R) (t1 := t'); [|exact H2].
        rewrite Nat.sub_0_r in H1. exact H1.
  - (* EArrayComp *)
    cbn [wpx] in Hwp. cbn [esize] in Hsz.
    apply andb_true_iff in Hwp as [Hwp Hws]. apply andb_true_iff in Hwp as [Hwx Hok].
    apply andb_true_iff in Hcore as [Hcx Hcs]. apply andb_true_iff in Hcx as [Hcx _].
    destruct (IH e ltac:(lia) Hcx 0%nat true ltac:(lia) Hwx) as (c1 & Hb1 & HB1).
    destruct (core_head e Hcx) as (ch1 & rh1 & Eh1 & _ & Hst1).
    exists (2 + (c1 + 3))%nat, 0%nat.
    assert (Elen : List.length (print_expr (EArrayComp sp e specs)) =
                   (List.length (print_expr e) + List.length (flat_map print_spec specs) + 2)%nat).
    { change (print_expr (EArrayComp sp e specs)) with (sim SLeftBracket :: print_expr e ++ flat_map print_spec specs ++ [sim SRightBracket]).
      cbn [List.length]. repeat (rewrite app_length; cbn [List.length]). lia. }
    split; [lia|]. split; [lia|].
    intros pexpr lf f stk rest R t' X tf Hp Hlf Hr _ H1 H2. rewrite Elen in Hp, Hlf.
    assert (Hall : Forall (spec_ok (List.length (print_expr e) + List.length (flat_map print_spec specs) + 2)) specs).
    { apply Forall_forall. intros sc Hin. rewrite forallb_forall in Hcs, Hws.
      split; [apply (Hcs sc Hin)|]. split; [apply (Hws sc Hin)|].
      assert (List.length (print_spec sc) <= List.length (flat_map print_spec specs))%nat; [|lia].
      clear -Hin. induction specs as [|s0 more IHs]; [destruct Hin|]. cbn [flat_map]. rewrite app_length.
      destruct Hin as [->|Hin]; [lia|]. specialize (IHs Hin). lia. }
    assert (Hsl : (List.length specs <= List.length (flat_map print_spec specs))%nat).
    { clear. induction specs as [|s0 more IHs]; [cbn; lia|]. cbn [flat_map List.length]. rewrite app_length.
      destruct s0; cbn [print_spec List.length]; lia. }
    change (print_expr (EArrayComp sp e specs)) with (sim SLeftBracket :: print_expr e ++ flat_map print_spec specs ++ [sim SRightBracket]).
    change (strip_spans (EArrayComp sp e specs)) with (EArrayComp sp0 (strip_spans e) (map strip_spec specs)) in H1.
    norm_app. cbn [Nat.add].
    apply pl_unary_miss; [reflexivity|]. apply pl_primary_bracket; [auto with rt|].
    eapply run_orelse_miss; [eapply run_eat_miss_app; [exact Eh1|apply starter_not; [exact Hst1|reflexivity]]|].
    change (init_state T) with (enter 0). fuel_as (c1 + (3 + f))%nat.
    destruct specs as [|[v y|y] more]; cbn [specs_ok] in Hok; try discriminate.
    apply HB1; [eapply pexpr_ok_mono; [exact Hp|lia]|lia|reflexivity|intros _; reflexivity|].
    change (exit_ 0 (strip_spans e)) with (StBinaryRhs (kind 0) (strip_spans e)). cbn [Nat.add].
    apply pl_rhs_none; [reflexivity|].
    eapply (pl_item0_comp pexpr lf _ _ _ (sim KFor)); [reflexivity| |exact Hr|].
    + apply (run_comp_spec pexpr _ Hp (S lf) (CFor v y :: more) (sim SRightBracket) rest);
        [reflexivity|lia|exact Hall|split; reflexivity|reflexivity|reflexivity].
    + rewrite Nat.sub_0_r in H1. eapply pl_parsed_suffix_gen; [exact H1|exact H2].
  - (* EField *)
    cbn [wpx] in Hwp. cbn [esize] in Hsz.
    destruct (IHe ltac:(lia) Hcore Hwp) as (c & m & Hbc & Hbm & HS).
    exists c, (S m). split; [len_tac|]. split; [len_tac|].
    intros pexpr lf f stk rest R t' X tf Hp Hlf Hr Hts H1 H2.
    cbn [print_expr strip_spans]. rewrite <- app_assoc. cbn [app].
    assert (Hl : (List.length (print_expr e) + 2 <= lf)%nat) by (revert Hlf; len_tac).
    eapply HS; [eapply pexpr_ok_mono; [exact Hp|len_tac]|lia|discriminate|reflexivity| |exact H2].
    replace (S lf - m)%nat with (S (S lf - S m)) by lia. cbn [suffix_loop].
    eapply run_orelse_hit; [apply run_eat_hit; [reflexivity|discriminate]|].
    eapply run_bind; [unfold id_tok, tk; apply run_expect_ident_hit; exact Hr|].
    rewrite strip_span0. eapply run_bind; [apply run_mk_span0|]. exact H1.
  - (* EIndex *)
    cbn [wpx] in Hwp. cbn [esize] in Hsz. apply andb_true_iff in Hwp as [Hwx Hwi].
    apply andb_true_iff in Hcore as [Hcx Hci].
    destruct (IHe1 ltac:(lia) Hcx Hwx) as (c & m & Hbc & Hbm & HS).
    exists c, (S m). split; [len_tac|]. split; [len_tac|].
    intros pexpr lf f stk rest R t' X tf Hp Hlf Hr Hts H1 H2.
    cbn [print_expr strip_spans]. norm_app.
    assert (Hl : (List.length (print_expr e1) + 2 <= lf)%nat) by (revert Hlf; len_tac).
    eapply HS; [eapply pexpr_ok_mono; [exact Hp|len_tac]|lia|discriminate|reflexivity| |exact H2].
    replace (S lf - m)%nat with (S (S lf - S m)) by lia. cbn [suffix_loop].
    eapply run_orelse_miss; [apply run_eat_miss; reflexivity|].
    eapply run_orelse_hit; [apply run_eat_hit; [reflexivity|auto with rt]|].
    eapply run_bind; [|exact H1].
    apply (run_index pexpr _ Hp); [exact Hci|exact Hwi|len_tac|apply strip_span0|exact Hr].
  - (* ESlice *)
    cbn [wpx] in Hwp. cbn [esize] in Hsz.
    apply andb_true_iff in Hwp as [Hwp Hwc]. apply andb_true_iff in Hwp as [Hwp Hwb].
    apply andb_true_iff in Hwp as [Hwx Hwa].
    apply andb_true_iff in Hcore as [Hcore Hcc]. apply andb_true_iff in Hcore as [Hcore Hcb].
    apply andb_true_iff in Hcore as [Hcx Hca].
    destruct (IHe ltac:(lia) Hcx Hwx) as (c0 & m & Hbc & Hbm & HS).
    exists c0, (S m). split; [len_tac|]. split; [len_tac|].
    intros pexpr lf f stk rest R t' X tf Hp Hlf Hr Hts H1 H2.
    cbn [print_expr strip_spans]. norm_app.
    assert (Hl : (List.length (print_expr e) + 2 <= lf)%nat) by (revert Hlf; len_tac).
    eapply HS; [eapply pexpr_ok_mono; [exact Hp|len_tac]|lia|discriminate|reflexivity| |exact H2].
    replace (S lf - m)%nat with (S (S lf - S m)) by lia. cbn [suffix_loop].
    eapply run_orelse_miss; [apply run_eat_miss; reflexivity|].
    eapply run_orelse_hit; [apply run_eat_hit; [reflexivity|auto with rt]|].
    eapply run_bind; [|exact H1].
    change (match c with Some c' => sim SColon :: print_expr c' | None => [] end) with (ctoks c).
    apply (run_slice pexpr _ Hp); try assumption; try apply strip_span0;
      [destruct a; cbn [olen]; len_tac|destruct b; cbn [olen]; len_tac|destruct c; cbn [olen]; len_tac].
  - (* ESuperField *)
    exists 3%nat, 0%nat. split; [cbn [print_expr List.length]; lia|]. split; [lia|].
    intros pexpr lf f stk rest R t' X tf _ _ Hr _ H1 H2. cbn [print_expr strip_spans app Nat.add].
    apply pl_unary_miss; [reflexivity|]. apply pl_primary_super; [discriminate|].
    eapply run_orelse_hit; [apply run_eat_hit; [reflexivity|discriminate]|].
    eapply run_bind; [unfold id_tok, tk; apply run_expect_ident_hit; exact Hr|].
    eapply run_bind; [apply run_mk_span0|].
    rewrite Nat.sub_0_r in H1. eapply pl_parsed_suffix_gen; [exact H1|exact H2].
  - (* ESuperIndex *)
    cbn [wpx] in Hwp.
    exists 3%nat, 0%nat. split; [len_tac|]. split; [lia|].
    intros pexpr lf f stk rest R t' X tf Hp _ Hr _ H1 H2. cbn [print_expr strip_spans]. norm_app. cbn [Nat.add].
    apply pl_unary_miss; [reflexivity|]. apply pl_primary_super; [discriminate|].
    eapply run_orelse_miss; [apply run_eat_miss; reflexivity|].
    eapply run_orelse_hit; [apply run_eat_hit; [reflexivity|auto with rt]|].
    eapply run_bind; [apply Hp; [exact Hcore|exact Hwp|len_tac|reflexivity|intros _; reflexivity]|].
    eapply run_bind; [apply run_expect_hit; [reflexivity|exact Hr]|].
    eapply run_bind; [apply run_mk_span0|].
    rewrite Nat.sub_0_r in H1. eapply pl_parsed_suffix_gen; [exact H1|exact H2].
  - (* ECall *)
    cbn [wpx] in Hwp. cbn [esize] in Hsz. apply andb_true_iff in Hwp as [Hwx Hwa].
    apply andb_true_iff in Hcore as [Hcx Hca].
    destruct (IHe ltac:(lia) Hcx Hwx) as (c & m & Hbc & Hbm & HS).
    exists c, (S m). split; [len_tac|]. split; [len_tac|].
    intros pexpr lf f stk rest R t' X tf Hp Hlf Hr Hts H1 H2.
    cbn [print_expr strip_spans]. norm_app.
    assert (Hl : (List.length (print_expr e) + 2 <= lf)%nat) by (revert Hlf; len_tac).
    eapply HS; [eapply pexpr_ok_mono; [exact Hp|len_tac]|lia|discriminate|reflexivity| |exact H2].
    replace (S lf - m)%nat with (S (S lf - S m)) by lia. cbn [suffix_loop].
    eapply run_orelse_miss; [apply run_eat_miss; reflexivity|].
    eapply run_orelse_miss; [apply run_eat_miss; reflexivity|].
    eapply run_orelse_hit; [apply run_eat_hit; [reflexivity|auto with rt]|].
    assert (Hargs : Forall (arg_ok (List.length (print_expr (ECall sp e args tailstrict)))) args).
    { apply Forall_forall. intros a Hin. rewrite forallb_forall in Hca, Hwa.
      split; [apply (Hca a Hin)|]. split; [apply (Hwa a Hin)|].
      unfold alen.
      assert (Hle : (List.length (print_arg a) <= List.length (sep_by comma print_arg args))%nat); [|revert Hle; len_tac].
      clear -Hin. unfold sep_by. destruct args as [|a0 more]; [destruct Hin|].
      rewrite app_length. destruct Hin as [->|Hin]; [lia|].
      induction more as [|a1 more IHm]; [destruct Hin|]. cbn [flat_map]. rewrite !app_length.
      destruct Hin as [->|Hin]; [lia|]. specialize (IHm Hin). lia. }
    assert (Htail : forall args' t0,
      t0 = (if tailstrict then [sim KTailstrict] else []) ++ rest ->
      args' = map strip_arg args ->
      run (ts <- eat_simple KTailstrict true ;;
           sp1 <- mk_span (expr_span (strip_spans e)) (match ts with Some t => t | None => sp0 end) ;;
           suffix_loop pexpr (S lf) (S lf - S m) (ECall sp1 (strip_spans e) args' (is_some ts))) t0 R t').
    { intros args' t0 -> ->. destruct tailstrict; cbn [app].
      + eapply run_bind; [apply run_eat_hit; [reflexivity|exact Hr]|].
        cbv beta iota. rewrite strip_span0. eapply run_bind; [apply run_mk_span0|]. exact H1.
      + destruct rest as [|c0 rest0]; [congruence|]. cbn in Hts.
        eapply run_bind; [apply run_eat_miss; exact Hts|].
        cbv beta iota. rewrite strip_span0. eapply run_bind; [apply run_mk_span0|]. exact H1. }
    unfold sep_by. destruct args as [|a0 more].
    + cbn [app]. eapply run_bind.
      * eapply run_orelse_hit; [apply run_eat_hit; [reflexivity|destruct tailstrict; [discriminate|exact Hr]]|apply run_ret].
      * cbv beta iota. apply Htail; reflexivity.
    + inversion Hargs as [|? ? (Hc0 & _) _]; subst.
      destruct (arg_head a0 Hc0) as (ch & rh & Eh & Hh).
      rewrite <- !app_assoc. eapply run_bind.
      * eapply run_orelse_miss; [eapply run_eat_miss_app; [exact Eh|exact Hh]|].
        unfold parse_args. apply run_call.
        eapply run_orelse_miss; [eapply run_eat_miss_app; [exact Eh|exact Hh]|].
        apply (run_args_loop pexpr _ Hp); [pose proof (flat_len print_arg more) as Hfl; cbn [print_expr] in Hlf; unfold sep_by in Hlf; revert Hlf Hfl; len_tac|exact Hargs|destruct tailstrict; [discriminate|exact Hr]].
      * cbv beta iota. apply Htail; reflexivity.
  - (* EBinary *) cbn [wpx] in Hwp. destruct op; cbn in Hwp; discriminate.
  - (* EObjExt *)
    cbn [wpx] in Hwp. cbn [esize] in Hsz. apply andb_true_iff in Hwp as [Hwx Hwo].
    apply andb_true_iff in Hcore as [Hcx Hco].
    destruct (IHe ltac:(lia) Hcx Hwx) as (c & m & Hbc & Hbm & HS).
    assert (Eprint : print_expr (EObjExt sp e o obj_sp) = print_expr e ++ sim SLeftBrace :: print_obj o ++ [sim SRightBrace]) by reflexivity.
    assert (Elen : List.length (print_expr (EObjExt sp e o obj_sp)) = (List.length (print_expr e) + List.length (print_obj o) + 2)%nat).
    { rewrite Eprint. repeat (rewrite app_length; cbn [List.length]). lia. }
    exists c, (S m). split; [lia|]. split; [lia|].
    intros pexpr lf f stk rest R t' X tf Hp Hlf Hr Hts H1 H2. rewrite Elen in Hp, Hlf.
    rewrite Eprint. change (strip_spans (EObjExt sp e o obj_sp)) with (EObjExt sp0 (strip_spans e) (strip_obj o) sp0) in H1.
    norm_app.
    eapply HS; [eapply pexpr_ok_mono; [exact Hp|lia]|lia|discriminate|reflexivity| |exact H2].
    replace (S lf - m)%nat with (S (S lf - S m)) by lia. cbn [suffix_loop].
    eapply run_orelse_miss; [apply run_eat_miss; reflexivity|].
    eapply run_orelse_miss; [apply run_eat_miss; reflexivity|].
    eapply run_orelse_miss; [apply run_eat_miss; reflexivity|].
    eapply run_orelse_hit; [apply run_eat_hit; [reflexivity|auto with rt]|].
    eapply run_bind; [apply (run_obj pexpr _ Hp (S lf) o rest); [exact Hco|exact Hwo|lia|lia|exact Hr]|].
    cbv beta iota. rewrite strip_span0.
    eapply run_bind; [apply run_mk_span0|]. eapply run_bind; [apply run_mk_span0|]. exact H1.
Qed.

Lemma suffix_case n
  (IH : forall y, (esize y < n)%nat -> core_expr y = true -> forall k last, (k <= 10)%nat ->
        wpx k last y = true -> exists c, (c <= 40 * List.length (print_expr y))%nat /\ Bform k last y c)
  e k last : (esize e <= n)%nat -> core_expr e = true -> wpx lv_postfix false e = true -> (k <= 10)%nat ->
  exists c, (c <= 40 * List.length (print_expr e))%nat /\ Bform k last e c.
Proof.
  intros Hsz Hcore Hw11 Hk. pose proof (steps_fin_le k) as Hfin.
  destruct (sform n IH e Hsz Hcore Hw11) as (c & m & Hbc & Hbm & HS).
  exists ((10 - k) + c + steps_fin k)%nat. split; [lia|].
  apply wrap; [exact Hk|].
  intros pexpr lf f stk fo r x tf Hp Hlf Hn _ _ H.
  destruct (nosfx_inv fo Hn) as (_ & _ & _ & _ & Hts).
  eapply HS; [exact Hp|exact Hlf|discriminate|exact Hts| |exact H].
  replace (S lf - m)%nat with (S (lf - m)) by lia. apply suffix_none; exact Hn.
Qed.

Theorem rt_main : forall n e, (esize e < n)%nat -> core_expr e = true ->
  forall k last, (k <= 10)%nat -> wpx k last e = true ->
  exists c, (c <= 40 * List.length (print_expr e))%nat /\ Bform k last e c.
Proof.
  induction n as [|n IH]; [intros; lia|].
  intros e Hsz Hcore k last Hk Hwp.
  pose proof (steps_fin_le k) as Hfin.
  destruct e; cbn [core_expr] in Hcore; try discriminate;
    try (exists ((10 - k) + 3 + steps_fin k)%nat; split;
         [cbn [print_expr List.length]; lia | apply wrap; [exact Hk|eapply U_atom; reflexivity]]).
  - (* EParen *)
    cbn [wpx] in Hwp. cbn [esize] in Hsz.
    destruct (IH e ltac:(lia) Hcore 0%nat true ltac:(lia) Hwp) as (cx & Hbx & Hx).
    exists ((10 - k) + (S (S (cx + 3))) + steps_fin k)%nat. split; [len_tac|].
    apply wrap; [exact Hk|].
    intros pexpr lf f stk fo r x tf Hp Hlf Hn _ _ H.
    cbn [print_expr strip_spans app]. rewrite <- app_assoc. cbn [app Nat.add].
    apply pl_unary_miss; [reflexivity|].
    apply pl_primary_paren; [auto with rt|].
    change (init_state T) with (enter 0).
    fuel_as (cx + (3 + f))%nat.
    apply Hx; [eapply pexpr_ok_mono; [exact Hp|len_tac]| revert Hlf; len_tac |reflexivity|intros _; reflexivity|].
    change (exit_ 0 (strip_spans e)) with (StBinaryRhs (kind 0) (strip_spans e)). cbn [Nat.add].
    apply pl_rhs_none; [reflexivity|].
    apply pl_parsed_paren; [discriminate|].
    apply pl_parsed_suffix_none; [exact Hn|exact H].
  - (* EObject *) apply (suffix_case n IH); [cbn [esize] in *; lia|exact Hcore|exact Hwp|exact Hk].
  - (* EArray *) apply (suffix_case n IH); [cbn [esize] in *; lia|exact Hcore|exact Hwp|exact Hk].
  - (* EArrayComp *) apply (suffix_case n IH); [cbn [esize] in *; lia|exact Hcore|exact Hwp|exact Hk].
  - (* EField *) apply (suffix_case n IH); [cbn [esize] in *; lia|exact Hcore|exact Hwp|exact Hk].
  - (* EIndex *) apply (suffix_case n IH); [cbn [esize] in *; lia|exact Hcore|exact Hwp|exact Hk].
  - (* ESlice *) apply (suffix_case n IH); [cbn [esize] in *; lia|exact Hcore|exact Hwp|exact Hk].
  - (* ESuperField *) apply (suffix_case n IH); [cbn [esize] in *; lia|exact Hcore|exact Hwp|exact Hk].
  - (* ESuperIndex *) apply (suffix_case n IH); [cbn [esize] in *; lia|exact Hcore|exact Hwp|exact Hk].
  - (* ECall *) apply (suffix_case n IH); [cbn [esize] in *; lia|exact Hcore|exact Hwp|exact Hk].
  - (* ELocal *)
    cbn [esize] in Hsz.
    assert (Hlast : last = true) by (cbn [wpx] in Hwp; destruct last; cbn in Hwp; congruence).
    subst last. cbn [wpx andb] in Hwp.
    apply andb_true_iff in Hwp as [Hwp Hwb]. apply andb_true_iff in Hwp as [_ Hwbs].
    apply andb_true_iff in Hcore as [Hcore Hcb]. apply andb_true_iff in Hcore as [Hne Hcbs].
    destruct binds as [|b0 more]; [discriminate|]. clear Hne.
    exists ((10 - k) + 3 + steps_fin k)%nat. split; [len_tac|].
    apply wrap; [exact Hk|].
    intros pexpr lf f stk fo r v tf Hp Hlf Hn Hs Hel H.
    specialize (Hs eq_refl).
    set (Lb := List.length (print_expr (ELocal sp (b0 :: more) e))) in *.
    assert (Eprint : print_expr (ELocal sp (b0 :: more) e) =
              sim KLocal :: (print_bind b0 ++ flat_map (fun b => comma ++ print_bind b) more) ++ sim SSemicolon :: print_expr e)
      by reflexivity.
    assert (Hbl : forall b, In b (b0 :: more) -> (List.length (print_bind b) + 2 <= Lb)%nat).
    { intros b Hin. pose proof (sep_by_len print_bind (b0 :: more) b Hin) as Hle. unfold Lb. rewrite Eprint.
      unfold sep_by in Hle. cbn [List.length]. repeat (rewrite app_length; cbn [List.length]).
      rewrite app_length in Hle. lia. }
    assert (Hall : Forall (fun b => bind_ok Lb b /\ (List.length (print_bind b) <= S lf)%nat) (b0 :: more)).
    { apply Forall_forall. intros b Hin. rewrite forallb_forall in Hcbs, Hwbs. specialize (Hbl b Hin).
      split; [|lia]. split; [apply (Hcbs b Hin)|]. split; [apply (Hwbs b Hin)|lia]. }
    inversion Hall as [|? ? (Hok0 & Hl0) Hall']; subst.
    rewrite Eprint. change (strip_spans (ELocal sp (b0 :: more) e))
      with (ELocal sp0 (strip_bind b0 :: map strip_bind more) (strip_spans e)) in H.
    norm_app. cbn [Nat.add].
    apply pl_unary_miss; [reflexivity|]. apply pl_primary_local; [auto with rt|].
    destruct (binds_head more (sim SSemicolon) (print_expr e ++ fo :: r) eq_refl eq_refl) as (t0 & r0 & E0 & Hs0 & He0).
    rewrite E0.
    eapply run_bind; [apply (run_bind_ pexpr Lb Hp (S lf) b0 t0 r0 Hok0 Hl0 Hs0 He0)|].
    rewrite <- E0.
    eapply run_bind.
    { apply (run_binds_loop pexpr Lb Hp (S lf) more [strip_bind b0] (S lf)); [|exact Hall'|reflexivity|reflexivity|reflexivity].
      pose proof (flat_len print_bind more). unfold Lb in Hlf. rewrite Eprint in Hlf. revert Hlf.
      cbn [List.length]. repeat (rewrite app_length; cbn [List.length]). lia. }
    cbn [app].
    eapply run_bind; [apply run_expect_hit; [reflexivity|auto with rt]|].
    eapply run_bind; [apply Hp; [exact Hcb|exact Hwb| |exact Hs|exact Hel]|].
    { unfold Lb. rewrite Eprint. cbn [List.length]. repeat (rewrite app_length; cbn [List.length]). lia. }
    rewrite strip_span0. eapply run_bind; [apply run_mk_span0|].
    apply pl_parsed_suffix_none; [exact Hn|exact H].
  - (* EIf *)
    cbn [esize] in Hsz.
    assert (Hlast : last = true) by (cbn [wpx] in Hwp; destruct e3, last; cbn in Hwp; congruence).
    subst last.
    exists ((10 - k) + 3 + steps_fin k)%nat. split; [len_tac|].
    apply wrap; [exact Hk|].
    intros pexpr lf f stk fo r v tf Hp Hlf Hn Hs Hel H.
    specialize (Hs eq_refl).
    apply andb_true_iff in Hcore as [Hcore Hc3]. apply andb_true_iff in Hcore as [Hc1 Hc2].
    destruct e3 as [e3|]; cbn [wpx andb] in Hwp.
    + apply andb_true_iff in Hwp as [Hwp Hw3]. apply andb_true_iff in Hwp as [Hwp Hdg].
      apply andb_true_iff in Hwp as [Hw1 Hw2]. apply negb_true_iff in Hdg.
      cbn [print_expr strip_spans option_map app Nat.add]. rewrite <- !app_assoc. cbn [app].
      apply pl_unary_miss; [reflexivity|]. apply pl_primary_if; [auto with rt|].
      eapply run_bind; [apply Hp; [exact Hc1|exact Hw1|len_tac|reflexivity|intros _; reflexivity]|].
      eapply run_bind; [apply run_expect_hit; [reflexivity|auto with rt]|].
      rewrite <- app_assoc. cbn [app].
      eapply run_bind; [apply Hp; [exact Hc2|exact Hw2|len_tac|reflexivity|intros Hd; congruence]|].
      eapply run_bind; [apply run_eat_hit; [reflexivity|auto with rt]|].
      cbn [opt_expr].
      eapply run_bind; [eapply run_bind; [apply Hp; [exact Hc3|exact Hw3|len_tac|exact Hs|exact Hel]|apply run_ret]|].
      cbv beta iota; rewrite ?strip_span0. eapply run_bind; [apply run_mk_span0|].
      apply pl_parsed_suffix_none; [exact Hn|exact H].
    + apply andb_true_iff in Hwp as [Hw1 Hw2].
      cbn [print_expr strip_spans option_map app Nat.add]. rewrite <- !app_assoc. cbn [app].
      rewrite app_nil_r.
      apply pl_unary_miss; [reflexivity|]. apply pl_primary_if; [auto with rt|].
      eapply run_bind; [apply Hp; [exact Hc1|exact Hw1|len_tac|reflexivity|intros _; reflexivity]|].
      eapply run_bind; [apply run_expect_hit; [reflexivity|auto with rt]|].
      eapply run_bind; [apply Hp; [exact Hc2|exact Hw2|len_tac|exact Hs|intros _; apply Hel; reflexivity]|].
      eapply run_bind; [apply run_eat_miss; apply Hel; reflexivity|].
      cbn [opt_expr]. eapply run_bind; [apply run_ret|].
      cbv beta iota; rewrite ?strip_span0. eapply run_bind; [apply run_mk_span0|].
      apply pl_parsed_suffix_none; [exact Hn|exact H].
  - (* EBinary *)
    cbn [wpx] in Hwp. cbn [esize] in Hsz.
    apply andb_true_iff in Hcore as [Hc1 Hc2].
    apply andb_true_iff in Hwp as [Hwp Hw2]. apply andb_true_iff in Hwp as [Hkj Hw1].
    apply Nat.leb_le in Hkj. pose proof (level_le9 op) as Hj9.
    set (j := binop_level op) in *.
    destruct (IH e1 ltac:(lia) Hc1 j false ltac:(lia) Hw1) as (c1 & Hb1 & H1).
    destruct (IH e2 ltac:(lia) Hc2 (S j) last ltac:(lia) Hw2) as (c2 & Hb2 & H2).
    exists ((j - k) + (c1 + (1 + (c2 + ((if (S j <? 10)%nat then 2 else 1) + (2 * (j - k)))))))%nat.
    split; [destruct (S j <? 10)%nat; len_tac|].
    intros pexpr lf f stk fo r x tf Hp Hlf Hfc Hel H.
    pose proof (fcond_nosfx _ _ _ Hfc) as Hn. pose proof (fcond_noop _ _ _ Hfc) as Ho.
    cbn [print_expr strip_spans]. rewrite <- app_assoc. cbn [app].
    fuel_as ((j - k) + (c1 + (1 + (c2 + ((if (S j <? 10)%nat then 2 else 1) + (2 * (j - k) + f))))))%nat.
    assert (Ek : enter k = StBinary (kind k)).
    { unfold enter. replace (k <? 10)%nat with true by (symmetry; apply Nat.ltb_lt; lia). reflexivity. }
    apply descend; [lia|]. replace (k + (j - k))%nat with j by lia.
    apply H1; [eapply pexpr_ok_mono; [exact Hp|len_tac]| revert Hlf; len_tac
              |split; [apply optok_nosfx|apply optok_noop]
              |intros _; destruct op; reflexivity|].
    unfold exit_. replace (j <? 10)%nat with true by (symmetry; apply Nat.ltb_lt; lia).
    cbn [Nat.add].
    apply pl_rhs_op; [auto with rt| apply core_in_ok; exact Hc2 |].
    apply H2; [eapply pexpr_ok_mono; [exact Hp|len_tac]| revert Hlf; len_tac
              | destruct last; cbn in Hfc |- *; [exact Hfc|split; [tauto|apply (noop_above_mono k); [tauto|lia]]]
              | exact Hel |].
    assert (Hback : run (pe_loop T pexpr (S lf) (1 + (2 * (j - k) + f)) (StParsed (strip_spans e2))
                         (SiBinaryRhs (kind j) (strip_spans e1) op :: lhs_up k (j - k) ++ stk)) (fo :: r) x tf).
    { cbn [Nat.add]. apply pl_parsed_rhs; [apply strip_span0|apply strip_span0|].
      pose proof (ascend pexpr (S lf) (j - k) k f (EBinary sp0 (strip_spans e1) op (strip_spans e2)) stk fo r x tf
                    ltac:(lia) Ho) as Ha.
      replace (k + (j - k))%nat with j in Ha by lia. apply Ha.
      unfold exit_ in H. replace (k <? 10)%nat with true in H by (symmetry; apply Nat.ltb_lt; lia). exact H. }
    unfold exit_. destruct (S j <? 10)%nat eqn:Ej.
    + cbn [Nat.add]. apply pl_rhs_none; [apply (noop_above_at k); [exact Ho|apply Nat.ltb_lt in Ej; lia]|].
      exact Hback.
    + exact Hback.
  - (* EUnary *)
    cbn [wpx] in Hwp. cbn [esize] in Hsz.
    apply andb_true_iff in Hwp as [_ Hwx].
    destruct (IH e ltac:(lia) Hcore 10%nat last ltac:(lia) Hwx) as (cx & Hbx & Hx).
    exists ((10 - k) + (S (cx + 1)) + steps_fin k)%nat. split; [len_tac|].
    intros pexpr lf f stk fo r x tf Hp Hlf Hfc Hel H.
    pose proof (fcond_nosfx _ _ _ Hfc) as Hn. pose proof (fcond_noop _ _ _ Hfc) as Ho.
    fuel_as ((10 - k) + (S (cx + (1 + (steps_fin k + f)))))%nat.
    apply descend; [lia|]. replace (k + (10 - k))%nat with 10%nat by lia.
    change (enter 10) with StUnary.
    cbn [print_expr strip_spans app Nat.add].
    apply pl_unary_hit; [auto with rt|].
    change StUnary with (enter 10).
    apply Hx; [eapply pexpr_ok_mono; [exact Hp|len_tac]| revert Hlf; len_tac
              | destruct last; cbn in Hfc |- *; [exact Hfc|split; [tauto|reflexivity]] | exact Hel |].
    change (exit_ 10 (strip_spans e)) with (StParsed (strip_spans e)). cbn [Nat.add].
    apply pl_parsed_unary; [apply strip_span0|].
    apply finish; [exact Hk|exact Ho|exact H].
  - (* EObjExt *) apply (suffix_case n IH); [cbn [esize] in *; lia|exact Hcore|exact Hwp|exact Hk].
  - (* EFunc *)
    cbn [esize] in Hsz.
    assert (Hlast : last = true) by (cbn [wpx] in Hwp; destruct last; cbn in Hwp; congruence).
    subst last. cbn [wpx andb] in Hwp.
    apply andb_true_iff in Hwp as [Hwps Hwb]. apply andb_true_iff in Hcore as [Hcps Hcb].
    exists ((10 - k) + 3 + steps_fin k)%nat. split; [len_tac|].
    apply wrap; [exact Hk|].
    intros pexpr lf f stk fo r v tf Hp Hlf Hn Hs Hel H.
    specialize (Hs eq_refl).
    set (Lb := List.length (print_expr (EFunc sp params e))) in *.
    assert (Eprint : print_expr (EFunc sp params e) =
              sim KFunction :: sim SLeftParen :: sep_by comma print_param params ++ sim SRightParen :: print_expr e)
      by reflexivity.
    assert (Hall : Forall (param_ok Lb) params).
    { apply Forall_forall. intros p0 Hin. rewrite forallb_forall in Hcps, Hwps.
      split; [apply (Hcps p0 Hin)|]. split; [apply (Hwps p0 Hin)|].
      pose proof (sep_by_len print_param params p0 Hin). unfold Lb. rewrite Eprint.
      cbn [List.length]. repeat (rewrite app_length; cbn [List.length]). lia. }
    assert (Hcnt : (List.length params <= S lf)%nat).
    { assert (List.length params <= List.length (sep_by comma print_param params))%nat.
      { apply sep_by_count. intros [nm dd] _. cbn [print_param]. discriminate. }
      unfold Lb in Hlf. rewrite Eprint in Hlf. revert Hlf. cbn [List.length]. repeat (rewrite app_length; cbn [List.length]). lia. }
    rewrite Eprint. change (strip_spans (EFunc sp params e)) with (EFunc sp0 (map strip_param params) (strip_spans e)) in H.
    norm_app. cbn [Nat.add].
    apply pl_unary_miss; [reflexivity|]. apply pl_primary_function; [discriminate|].
    eapply run_bind; [apply run_expect_hit; [reflexivity|auto with rt]|].
    eapply run_bind; [apply (run_params pexpr Lb Hp (S lf) params); [exact Hcnt|exact Hall|auto with rt]|].
    cbv beta iota.
    eapply run_bind; [apply Hp; [exact Hcb|exact Hwb| |exact Hs|exact Hel]|].
    { unfold Lb. rewrite Eprint. cbn [List.length]. repeat (rewrite app_length; cbn [List.length]). lia. }
    rewrite strip_span0. eapply run_bind; [apply run_mk_span0|].
    apply pl_parsed_suffix_none; [exact Hn|exact H].
  - (* EAssert *)
    cbn [esize assert_size] in Hsz. destruct a as [asp ac am].
    assert (Hlast : last = true) by (cbn [wpx] in Hwp; destruct last; cbn in Hwp; congruence).
    subst last. cbn [wpx wp_assert andb] in Hwp.
    apply andb_true_iff in Hwp as [Hwa Hwb]. apply andb_true_iff in Hwa as [Hw1 Hwm].
    apply andb_true_iff in Hcore as [Hcore Hcb]. apply andb_true_iff in Hcore as [Hc1 Hcm].
    exists ((10 - k) + 3 + steps_fin k)%nat. split; [len_tac|].
    apply wrap; [exact Hk|].
    intros pexpr lf f stk fo r v tf Hp Hlf Hn Hs Hel H.
    specialize (Hs eq_refl).
    destruct am as [em|]; cbn [opt_all] in Hwm.
    + cbn [print_expr print_assert strip_spans strip_assert option_map app Nat.add].
      repeat (progress (rewrite <- ?app_assoc; cbn [app])).
      apply pl_unary_miss; [reflexivity|].
      eapply pl_primary_assert; [auto with rt| |].
      * eapply run_bind; [apply Hp; [exact Hc1|exact Hw1|len_tac|reflexivity|intros _; reflexivity]|].
        eapply run_bind; [apply run_eat_hit; [reflexivity|auto with rt]|].
        cbn [opt_expr].
        eapply run_bind; [eapply run_bind; [apply Hp; [exact Hcm|exact Hwm|len_tac|reflexivity|intros _; reflexivity]|apply run_ret]|].
        cbv beta iota; rewrite ?strip_span0. eapply run_bind; [apply run_mk_span0|apply run_ret].
      * eapply run_bind; [apply run_expect_hit; [reflexivity|auto with rt]|].
        eapply run_bind; [apply Hp; [exact Hcb|exact Hwb|len_tac|exact Hs|exact Hel]|].
        cbv beta iota; rewrite ?strip_span0. eapply run_bind; [apply run_mk_span0|].
        apply pl_parsed_suffix_none; [exact Hn|exact H].
    + cbn [print_expr print_assert strip_spans strip_assert option_map app Nat.add].
      rewrite app_nil_r. repeat (progress (rewrite <- ?app_assoc; cbn [app])).
      apply pl_unary_miss; [reflexivity|].
      eapply pl_primary_assert; [auto with rt| |].
      * eapply run_bind; [apply Hp; [exact Hc1|exact Hw1|len_tac|reflexivity|intros _; reflexivity]|].
        eapply run_bind; [apply run_eat_miss; reflexivity|].
        cbn [opt_expr]. eapply run_bind; [apply run_ret|].
        cbv beta iota; rewrite ?strip_span0. eapply run_bind; [apply run_mk_span0|apply run_ret].
      * eapply run_bind; [apply run_expect_hit; [reflexivity|auto with rt]|].
        eapply run_bind; [apply Hp; [exact Hcb|exact Hwb|len_tac|exact Hs|exact Hel]|].
        cbv beta iota; rewrite ?strip_span0. eapply run_bind; [apply run_mk_span0|].
        apply pl_parsed_suffix_none; [exact Hn|exact H].
  - (* EImport *)
    cbn [wpx] in Hwp. apply andb_true_iff in Hwp as [-> Hwx].
    exists ((10 - k) + 3 + steps_fin k)%nat. split; [len_tac|].
    apply wrap; [exact Hk|].
    apply (U_prefix _ e KImport EImport); try reflexivity; try assumption.
    intros; apply pl_primary_import; assumption.
  - (* EImportStr *)
    cbn [wpx] in Hwp. apply andb_true_iff in Hwp as [-> Hwx].
    exists ((10 - k) + 3 + steps_fin k)%nat. split; [len_tac|].
    apply wrap; [exact Hk|].
    apply (U_prefix _ e KImportstr EImportStr); try reflexivity; try assumption.
    intros; apply pl_primary_importstr; assumption.
  - (* EImportBin *)
    cbn [wpx] in Hwp. apply andb_true_iff in Hwp as [-> Hwx].
    exists ((10 - k) + 3 + steps_fin k)%nat. split; [len_tac|].
    apply wrap; [exact Hk|].
    apply (U_prefix _ e KImportbin EImportBin); try reflexivity; try assumption.
    intros; apply pl_primary_importbin; assumption.
  - (* EError *)
    cbn [wpx] in Hwp. apply andb_true_iff in Hwp as [-> Hwx].
    exists ((10 - k) + 3 + steps_fin k)%nat. split; [len_tac|].
    apply wrap; [exact Hk|].
    apply (U_prefix _ e KError EError); try reflexivity; try assumption.
    intros; apply pl_primary_error; assumption.
  - (* EInSuper *)
    cbn [wpx] in Hwp. cbn [esize] in Hsz.
    apply andb_true_iff in Hwp as [Hk6 Hwx]. apply Nat.leb_le in Hk6. unfold lv_ordcmp in *.
    destruct (IH e ltac:(lia) Hcore 6%nat false ltac:(lia) Hwx) as (cx & Hbx & Hx).
    exists ((6 - k) + (cx + (1 + (2 * (6 - k)))))%nat. split; [len_tac|].
    intros pexpr lf f stk fo r x tf Hp Hlf Hfc Hel H.
    pose proof (fcond_nosfx _ _ _ Hfc) as Hn. pose proof (fcond_noop _ _ _ Hfc) as Ho.
    cbn [print_expr strip_spans]. rewrite <- app_assoc. cbn [app].
    fuel_as ((6 - k) + (cx + (1 + (2 * (6 - k) + f))))%nat.
    apply descend; [lia|]. replace (k + (6 - k))%nat with 6%nat by lia.
    apply Hx; [eapply pexpr_ok_mono; [exact Hp|len_tac]| revert Hlf; len_tac
              |split; reflexivity|intros _; reflexivity|].
    change (exit_ 6 (strip_spans e)) with (StBinaryRhs (kind 6) (strip_spans e)). cbn [Nat.add].
    apply pl_rhs_insuper; [apply strip_span0|exact Hn|].
    pose proof (ascend pexpr (S lf) (6 - k) k f (EInSuper sp0 (strip_spans e) sp0) stk fo r x tf
                  ltac:(lia) Ho) as Ha.
    replace (k + (6 - k))%nat with 6%nat in Ha by lia. apply Ha.
    unfold exit_ in H. replace (k <? 10)%nat with true in H by (symmetry; apply Nat.ltb_lt; lia). exact H.
Qed.

(* ---------------------------------------------------------------- top level *)
Lemma run_parse_expr f0 t (a : expr) t' :
  run (pe_loop T (parse_expr T f0) f0 f0 (init_state T) []) t a t' -> run (parse_expr T (S f0)) t a t'.
Proof. intros H. exact (run_call _ _ _ _ H). Qed.

Lemma run_parse_root fuel c0 r0 (e : expr) :
  run (parse_expr T fuel) (c0 :: r0) e [eof_tok] ->
  omap fst (parse_fuel T fuel (c0 :: r0)) = Ok e.
Proof.
  intros H. unfold parse_fuel, parse_root_expr.
  destruct (H (init_pst c0 r0) eq_refl) as (s' & E & Ts).
  unfold bindP. rewrite E. destruct s' as [c r ex dc dm]. unfold toks_of in Ts; cbn in Ts.
  injection Ts as -> ->. reflexivity.
Qed.

(* self.parse_expr() with enough fuel parses every covered sub-expression *)
Theorem parse_expr_ok : forall L y fuel fo r, (List.length (print_expr y) < L)%nat ->
  core_expr y = true -> wp y = true -> (41 * List.length (print_expr y) + 3 <= fuel)%nat ->
  stopper fo = true -> else_ok y fo ->
  run (parse_expr T fuel) (print_expr y ++ fo :: r) (strip_spans y) (fo :: r).
Proof.
  induction L as [|L IH]; [intros; lia|].
  intros y fuel fo r HL Hc Hw Hf Hs He. unfold wp in Hw.
  destruct (rt_main (S (esize y)) y ltac:(lia) Hc 0%nat true ltac:(lia) Hw) as (c & Hb & HB).
  destruct fuel as [|f0]; [lia|].
  apply run_parse_expr.
  assert (Hlf : exists lf, f0 = S lf /\ (List.length (print_expr y) <= lf)%nat).
  { exists (f0 - 1)%nat. split; lia. }
  destruct Hlf as (lf & Elf & Hlf). rewrite Elf at 2.
  assert (Hg : exists g, f0 = (c + S (S g))%nat) by (exists (f0 - c - 2)%nat; lia).
  destruct Hg as (g & Eg). rewrite Eg at 2.
  change (init_state T) with (enter 0).
  apply HB; [|exact Hlf|exact Hs|exact He|].
  - intros z fo' r' Hcz Hwz Hlz Hsz Hez. apply (IH z f0 fo' r'); [lia|exact Hcz|exact Hwz|lia|exact Hsz|exact Hez].
  - change (exit_ 0 (strip_spans y)) with (StBinaryRhs (kind 0) (strip_spans y)).
    apply pl_rhs_none; [apply stopper_op0; exact Hs|]. apply pl_parsed_done.
Qed.

Theorem roundtrip_core : forall e, core_expr e = true -> wp e = true ->
  omap fst (parse T (print_tokens e)) = Ok (strip_spans e).
Proof.
  intros e Hc Hw.
  unfold parse, print_tokens, default_fuel.
  destruct (core_head e Hc) as (c0 & r0 & Ep & _).
  assert (Et : print_expr e ++ [eof_tok] = c0 :: (r0 ++ [eof_tok])) by (rewrite Ep; reflexivity).
  rewrite Et. apply run_parse_root. rewrite <- Et.
  apply (parse_expr_ok (S (List.length (print_expr e)))); [lia|exact Hc|exact Hw| |reflexivity|intros _; reflexivity].
  rewrite app_length. cbn [List.length]. lia.
Qed.

(* ---------------------------------------------------------------- wp implies core_expr *)
Lemma forallb_impl_in {A} (p q : A -> bool) l :
  (forall x, In x l -> p x = true -> q x = true) -> forallb p l = true -> forallb q l = true.
Proof.
  induction l as [|x l IH]; cbn; intros H Hp; [reflexivity|].
  apply andb_true_iff in Hp as [H1 H2]. rewrite (H x (or_introl eq_refl) H1). apply IH; [|exact H2].
  intros a Hin. apply H. right; exact Hin.
Qed.

Lemma wp_core : forall n e, (esize e < n)%nat -> forall k last, wpx k last e = true -> core_expr e = true.
Proof.
  induction n as [|n IH]; [intros; lia|].
  intros e Hsz k last Hw.
  assert (HE : forall x, (esize x < n)%nat -> wpx 0 true x = true -> core_expr x = true)
    by (intros x Hx Hwx; exact (IH x Hx 0%nat true Hwx)).
  assert (Hopt : forall o, (osz esize o < n)%nat -> opt_all (wpx 0 true) o = true ->
            match o with Some y => core_expr y | None => true end = true).
  { intros [y|] Hs Hy; cbn [opt_all osz] in *; [apply HE; assumption|reflexivity]. }
  assert (Hparams : forall l, (lsum param_size l <= n)%nat -> forallb wp_param l = true -> forallb pcore l = true).
  { intros l Hs. apply forallb_impl_in. intros [nm d] Hin Hp. pose proof (lsum_in param_size l _ Hin) as Hle.
    cbn [param_size wp_param pcore] in *. apply Hopt; [lia|exact Hp]. }
  assert (Hbind : forall b, (bind_size b <= n)%nat -> wp_bind b = true -> core_bind b = true).
  { intros [nm ps v] Hs Hb. cbn [bind_size wp_bind core_bind] in *. apply andb_true_iff in Hb as [Hps Hv].
    rewrite (HE v ltac:(lia) Hv). destruct ps as [[l psp]|]; [|reflexivity].
    change (forallb pcore l && true = true). rewrite (Hparams l ltac:(lia) Hps). reflexivity. }
  assert (Hbinds : forall l, (lsum bind_size l <= n)%nat -> forallb wp_bind l = true -> forallb core_bind l = true).
  { intros l Hs. apply forallb_impl_in. intros b Hin Hb. pose proof (lsum_in bind_size l _ Hin). apply Hbind; [lia|exact Hb]. }
  assert (Hspecs : forall l, (lsum spec_size l <= n)%nat -> forallb wp_spec l = true ->
            forallb (fun c => match c with CFor _ y | CIf y => core_expr y end) l = true).
  { intros l Hs. apply forallb_impl_in. intros sc Hin Hc. pose proof (lsum_in spec_size l _ Hin) as Hle.
    destruct sc as [v y|y]; cbn [spec_size wp_spec] in *; apply HE; (lia || exact Hc). }
  assert (Hassert : forall a, (assert_size a <= n)%nat -> wp_assert a = true ->
            match a with MkAssert _ c m => core_expr c && match m with Some x => core_expr x | None => true end end = true).
  { intros [asp c m] Hs Ha. cbn [assert_size wp_assert] in *. apply andb_true_iff in Ha as [Hc Hm].
    rewrite (HE c ltac:(lia) Hc), (Hopt m ltac:(lia) Hm). reflexivity. }
  assert (Hobj : forall o, (obj_size o <= n)%nat -> wp_obj o = true -> core_obj o = true).
  { assert (Hfname : forall nn, (fname_size nn <= n)%nat -> wp_fname nn = true -> core_fname nn = true).
    { intros [i|x sp|y sp] Hs Hf; cbn [fname_size wp_fname core_fname] in *; try reflexivity. apply HE; [lia|exact Hf]. }
    assert (Hfield : forall f, (field_size f <= n)%nat -> wp_field f = true -> core_field f = true).
    { intros [nn plus vis v|nn ps psp vis v] Hs Hf; cbn [field_size wp_field core_field] in *.
      - apply andb_true_iff in Hf as [Hn Hv]. rewrite (Hfname nn ltac:(lia) Hn), (HE v ltac:(lia) Hv). reflexivity.
      - apply andb_true_iff in Hf as [Hf Hv]. apply andb_true_iff in Hf as [Hn Hps].
        rewrite (Hfname nn ltac:(lia) Hn), (HE v ltac:(lia) Hv).
        change (true && forallb pcore ps && true = true). rewrite (Hparams ps ltac:(lia) Hps). reflexivity. }
    assert (Hmember : forall m, (member_size m <= n)%nat -> wp_member m = true -> core_member m = true).
    { intros [b|a|f] Hs Hm; cbn [member_size wp_member core_member] in *.
      - apply Hbind; [lia|exact Hm].
      - destruct a as [asp c m']. apply (Hassert (MkAssert asp c m')); [lia|exact Hm].
      - apply Hfield; [lia|exact Hm]. }
    intros [ms|l1 name plus body l2 specs] Hs Ho; cbn [obj_size wp_obj core_obj] in *.
    - revert Ho. apply forallb_impl_in. intros m Hin Hm. pose proof (lsum_in member_size ms _ Hin). apply Hmember; [lia|exact Hm].
    - split_and Ho.
      rewrite (Hbinds l1 ltac:(lia) Ho), (HE name ltac:(lia) Hc3), (HE body ltac:(lia) Hc2), (Hbinds l2 ltac:(lia) Hc1),
        Hc0, (Hspecs specs ltac:(lia) Hc). reflexivity. }
  destruct e; cbn [wpx] in Hw; cbn [core_expr esize] in *; try reflexivity.
  - (* EParen *) apply HE; [lia|exact Hw].
  - (* EObject *) apply Hobj; [lia|exact Hw].
  - (* EArray *) revert Hw. apply forallb_impl_in. intros x Hin Hx. pose proof (lsum_in esize items _ Hin). apply HE; [lia|exact Hx].
  - (* EArrayComp *) split_and Hw. rewrite (HE e ltac:(lia) Hw), Hc0, (Hspecs specs ltac:(lia) Hc). reflexivity.
  - (* EField *) apply (IH e ltac:(lia) _ _ Hw).
  - (* EIndex *) split_and Hw. rewrite (IH e1 ltac:(lia) _ _ Hw), (HE e2 ltac:(lia) Hc). reflexivity.
  - (* ESlice *) split_and Hw.
    rewrite (IH e ltac:(lia) _ _ Hw), (Hopt a ltac:(lia) Hc1), (Hopt b ltac:(lia) Hc0), (Hopt c ltac:(lia) Hc). reflexivity.
  - (* ESuperIndex *) apply HE; [lia|exact Hw].
  - (* ECall *) split_and Hw. rewrite (IH e ltac:(lia) _ _ Hw). cbn [andb].
    revert Hc. apply forallb_impl_in. intros a Hin Ha. pose proof (lsum_in arg_size args _ Hin) as Hle.
    destruct a as [y|nm y]; cbn [arg_size wp_arg] in *; apply HE; (lia || exact Ha).
  - (* ELocal *) split_and Hw.
    rewrite Hc1, (HE e ltac:(lia) Hc). cbn [andb]. rewrite andb_true_r.
    generalize (Hbinds binds ltac:(lia) Hc0). apply forallb_impl_in. intros b _ Hb.
    rewrite core_bind_bcore in Hb. exact Hb.
  - (* EIf *) destruct e3 as [e3|]; split_and Hw; cbn [osz] in *.
    + rewrite (HE e1 ltac:(lia) Hc2), (HE e2 ltac:(lia) Hc1), (HE e3 ltac:(lia) Hc). reflexivity.
    + rewrite (HE e1 ltac:(lia) Hc0), (HE e2 ltac:(lia) Hc). reflexivity.
  - (* EBinary *) split_and Hw. rewrite (IH e1 ltac:(lia) _ _ Hc0), (IH e2 ltac:(lia) _ _ Hc). reflexivity.
  - (* EUnary *) split_and Hw. apply (IH e ltac:(lia) _ _ Hc).
  - (* EObjExt *) split_and Hw. rewrite (IH e ltac:(lia) _ _ Hw), (Hobj o ltac:(lia) Hc). reflexivity.
  - (* EFunc *) split_and Hw. rewrite (HE e ltac:(lia) Hc). rewrite andb_true_r. exact (Hparams params ltac:(lia) Hc0).
  - (* EAssert *) split_and Hw. destruct a as [asp c m]. cbn [assert_size] in *.
    pose proof (Hassert (MkAssert asp c m) ltac:(cbn [assert_size]; lia) Hc0) as Ha. cbn beta iota in Ha.
    rewrite Ha, (HE e ltac:(lia) Hc). reflexivity.
  - split_and Hw. apply HE; [lia|exact Hc].
  - split_and Hw. apply HE; [lia|exact Hc].
  - split_and Hw. apply HE; [lia|exact Hc].
  - split_and Hw. apply HE; [lia|exact Hc].
  - (* EInSuper *) split_and Hw. apply (IH e ltac:(lia) _ _ Hc).
Qed.

Theorem roundtrip : forall e, wp e = true -> omap fst (parse T (print_tokens e)) = Ok (strip_spans e).
Proof.
  intros e Hw. apply roundtrip_core; [|exact Hw]. apply (wp_core (S (esize e)) e ltac:(lia) 0%nat true Hw).
Qed.
