(* Proofs/LazyCore_proofs.v — coincidence (weakening) for the call-by-name evaluator
   of Model/LazyCore.v, and the rewrite laws of property C04 derived from it.

   Method: a step-indexed relation on closures, [trel k], "same code (up to dead hidden
   fields named D) in environments that agree, k levels deep, on the variables that are
   free in that code"; [trelw] = related at every level.  The fundamental lemma
   (by induction on fuel): related closures evaluate, with the same fuel, to the same
   trace and to related values / the same error; related values are forced to the same
   JSON tree.  The rewrite laws follow by computing the few administrative steps of each
   redex and applying the fundamental lemma to what remains. *)
From RJ Require Import Base.Outcome Model.LazyCore.
From Coq Require Import Lia.
Local Open Scope res_scope.

(* ================================================================== names *)

Lemma name_eqb_refl : forall a, name_eqb a a = true.
Proof. induction a as [|x a IH]; simpl; auto. rewrite N.eqb_refl. exact IH. Qed.

Lemma name_eqb_eq : forall a b, name_eqb a b = true <-> a = b.
Proof.
  induction a as [|x a IH]; destruct b as [|y b]; simpl; split; intros H; try discriminate; auto.
  - apply andb_true_iff in H. destruct H as [H1 H2]. apply N.eqb_eq in H1. apply IH in H2. congruence.
  - inversion H; subst. rewrite N.eqb_refl. apply name_eqb_refl.
Qed.

Lemma name_eqb_neq : forall a b, name_eqb a b = false <-> a <> b.
Proof.
  intros a b. split.
  - intros H E. apply name_eqb_eq in E. congruence.
  - intros H. destruct (name_eqb a b) eqn:E; auto. apply name_eqb_eq in E. contradiction.
Qed.

Lemma name_eqb_sym : forall a b, name_eqb a b = name_eqb b a.
Proof.
  intros a b. destruct (name_eqb a b) eqn:E.
  - apply name_eqb_eq in E. subst. symmetry. apply name_eqb_refl.
  - symmetry. apply name_eqb_neq. apply name_eqb_neq in E. congruence.
Qed.

Lemma mem_In : forall x l, mem x l = true <-> In x l.
Proof.
  induction l as [|y l IH]; simpl; [split; [discriminate|tauto]|].
  rewrite orb_true_iff, IH, name_eqb_eq. split; intros [H|H]; auto.
Qed.

Lemma assoc_In : forall A x (l : list (name * A)) a, assoc x l = Some a -> In (x, a) l.
Proof.
  induction l as [|[y b] l IH]; simpl; intros a H; [discriminate|].
  destruct (name_eqb x y) eqn:E.
  - apply name_eqb_eq in E. inversion H; subst. auto.
  - right. auto.
Qed.

Lemma assoc_None_mem : forall A x (l : list (name * A)), assoc x l = None -> mem x (map fst l) = false.
Proof.
  induction l as [|[y b] l IH]; simpl; intros H; auto.
  destruct (name_eqb x y); [discriminate|]. simpl. auto.
Qed.

Lemma assoc_Some_mem : forall A x (l : list (name * A)) a, assoc x l = Some a -> mem x (map fst l) = true.
Proof.
  induction l as [|[y b] l IH]; simpl; intros a H; [discriminate|].
  destruct (name_eqb x y); simpl; eauto.
Qed.

Lemma assoc_app_skip : forall A x (l1 l2 : list (name * A)) y b,
  name_eqb x y = false -> assoc x (l1 ++ (y, b) :: l2) = assoc x (l1 ++ l2).
Proof.
  induction l1 as [|[z c] l1 IH]; simpl; intros l2 y b H.
  - rewrite H. reflexivity.
  - destruct (name_eqb x z); auto.
Qed.

(* ================================================================== the relation *)

Section Rel.
Variable D : option name.      (* the name of the dead hidden fields that are ignored *)
Variable M : option str.       (* the message of the demand markers whose firing ends the comparison *)

(* a demand marker  [e][std.trace(mk, 0)] : forcing it emits mk before e is evaluated *)
Definition markerb (e : expr) : bool :=
  match M with
  | None => false
  | Some mk =>
      match e with
      | EIndex (EArr [_]) (ETrace (EStr s) (ENum Z0)) => name_eqb s mk
      | _ => false
      end
  end.

(* the left run has emitted the marker message, or ran out of fuel: nothing is claimed *)
Definition esc {A} (m : res A) : Prop :=
  match M with
  | Some mk => In mk (fst m) \/ snd m = OutOfFuel
  | None => False
  end.

Definition is_dead (f : field) : bool :=
  match D with
  | Some d => name_eqb (fst f) d && fst (snd f)
  | None => false
  end.

Definition live (fs : list field) : list field := filter (fun f => negb (is_dead f)) fs.

Definition okfld (e : expr) : bool :=
  match D with Some d => nofld d e | None => true end.

(* same code, or two object literals that differ only in dead hidden fields *)
Definition esim (e1 e2 : expr) : Prop :=
  e1 = e2 \/
  (exists fs1 fs2, e1 = EObj fs1 /\ e2 = EObj fs2 /\ live fs1 = live fs2) \/
  (exists es1 es2, e1 = EArr es1 /\ e2 = EArr es2 /\
                   Forall2 (fun a b => a = b \/ markerb a = true) es1 es2).

Definition opt_rel {A} (R : A -> A -> Prop) (a b : option A) : Prop :=
  match a, b with
  | Some x, Some y => R x y
  | None, None => True
  | _, _ => False
  end.

Definition orel (R : thunk -> thunk -> Prop) (o1 o2 : list field * env) : Prop :=
  live (fst o1) = live (fst o2) /\
  forall f, In f (live (fst o1)) ->
    R (RObj (fst o1) (snd o1), snd (snd f)) (RObj (fst o2) (snd o2), snd (snd f)).

(* environments agree (through R) on the variables in S, and on self when sf *)
Definition erel (R : thunk -> thunk -> Prop) (S : name -> Prop) (sf : Prop) (r1 r2 : env) : Prop :=
  (forall x, S x -> opt_rel R (lookup x r1) (lookup x r2)) /\
  (sf -> opt_rel (orel R) (self_of r1) (self_of r2)).

Fixpoint trel (k : nat) (t1 t2 : thunk) {struct k} : Prop :=
  match k with
  | O => True
  | S k' =>
      markerb (snd t1) = true \/
      (esim (snd t1) (snd t2) /\ okfld (snd t1) = true /\ okfld (snd t2) = true /\
       erel (trel k') (fun x => fvb x (snd t1) = true /\ fvb x (snd t2) = true)
            (selfb (snd t1) = true) (fst t1) (fst t2))
  end.

Definition trelw (t1 t2 : thunk) : Prop := forall k, trel k t1 t2.

Definition vrel (R : thunk -> thunk -> Prop) (v1 v2 : value) : Prop :=
  match v1, v2 with
  | VNull, VNull => True
  | VBool a, VBool b => a = b
  | VNum a, VNum b => a = b
  | VStr a, VStr b => a = b
  | VArr a, VArr b => Forall2 R a b
  | VObj fs1 r1, VObj fs2 r2 => orel R (fs1, r1) (fs2, r2)
  | VFun ps1 b1 r1, VFun ps2 b2 r2 => ps1 = ps2 /\ b1 = b2 /\ R (r1, EFunc ps1 b1) (r2, EFunc ps2 b2)
  | _, _ => False
  end.

Definition resrel {A} (P : A -> A -> Prop) (m1 m2 : res A) : Prop :=
  esc m1 \/
  (fst m1 = fst m2 /\
   match snd m1, snd m2 with
   | Ok a, Ok b => P a b
   | Err a, Err b => a = b
   | Panic a, Panic b => a = b
   | OutOfFuel, OutOfFuel => True
   | _, _ => False
   end).

(* ------------------------------------------------------------------ generic facts *)

Lemma resrel_ret : forall A (P : A -> A -> Prop) a b, P a b -> resrel P (ret a) (ret b).
Proof. intros. right. split; simpl; auto. Qed.

Lemma resrel_fail : forall A (P : A -> A -> Prop) e, resrel P (fail e) (fail e).
Proof. intros. right. split; simpl; auto. Qed.

Lemma resrel_same_stop : forall A (P : A -> A -> Prop) t (o : outcome A errk),
  (match o with Ok _ => False | _ => True end) -> resrel P (t, o) (t, o).
Proof. intros A P t o H. right. split; simpl; auto. destruct o; simpl; auto. contradiction. Qed.

Lemma esc_bind : forall A B (m : res A) (k : A -> res B), esc m -> esc (rbind m k).
Proof.
  intros A B [t o] k H. unfold esc in *. destruct M as [mk|]; [|exact H]. simpl in *.
  destruct o as [a| | |]; cbn [rbind fst snd] in *;
    [|destruct H as [H|H]; [left; exact H|discriminate]
     |destruct H as [H|H]; [left; exact H|discriminate]
     |destruct H as [H|H]; [left; exact H|right; reflexivity]].
  destruct (k a) as [t2 o2]. cbn [fst snd]. destruct H as [H|H]; [left; apply in_or_app; auto|discriminate].
Qed.

Lemma esc_bind_k : forall A B t (a : A) (k : A -> res B), esc (k a) -> esc (rbind (t, Ok a) k).
Proof.
  intros A B t a k H. unfold esc in *. destruct M as [mk|]; [|exact H]. simpl.
  destruct (k a) as [t2 o2]. simpl in *. destruct H as [H|H]; [left; apply in_or_app; auto|right; exact H].
Qed.

Lemma resrel_bind : forall A B (P : A -> A -> Prop) (Q : B -> B -> Prop) m1 m2 k1 k2,
  resrel P m1 m2 -> (forall a b, P a b -> resrel Q (k1 a) (k2 b)) ->
  resrel Q (rbind m1 k1) (rbind m2 k2).
Proof.
  intros A B P Q [t1 o1] [t2 o2] k1 k2 [He|[Ht Ho]] Hk; [left; apply esc_bind; exact He|].
  simpl in *. subst t2.
  destruct o1 as [a| | |], o2 as [b| | |]; simpl in *; try contradiction;
    try (subst; right; split; simpl; auto; fail).
  specialize (Hk _ _ Ho). destruct Hk as [He|Hk]; [left; apply esc_bind_k; exact He|].
  destruct (k1 a) as [u1 p1], (k2 b) as [u2 p2]. destruct Hk as [Hu Hp].
  simpl in *. subst. right. split; simpl; auto.
Qed.

Lemma resrel_eq : forall A (m1 m2 : res A), resrel eq m1 m2 -> esc m1 \/ m1 = m2.
Proof.
  intros A [t1 o1] [t2 o2] [He|[Ht Ho]]; [left; exact He|right]. simpl in *. subst.
  destruct o1, o2; simpl in *; try contradiction; subst; auto.
Qed.

Lemma resrel_refl_eq : forall A (m : res A), resrel eq m m.
Proof. intros A [t o]. right. split; simpl; auto. destruct o; auto. Qed.

Lemma opt_rel_all : forall A (R : nat -> A -> A -> Prop) a b,
  (forall k, opt_rel (R k) a b) -> opt_rel (fun x y => forall k, R k x y) a b.
Proof.
  intros A R [x|] [y|] H; simpl in *; auto; exact (H 0).
Qed.

Lemma trelw_inv : forall r1 e1 r2 e2, trelw (r1, e1) (r2, e2) ->
  markerb e1 = true \/
  (esim e1 e2 /\ okfld e1 = true /\ okfld e2 = true /\
   erel trelw (fun x => fvb x e1 = true /\ fvb x e2 = true) (selfb e1 = true) r1 r2).
Proof.
  intros r1 e1 r2 e2 H. destruct (markerb e1) eqn:Mk; [left; reflexivity|right].
  assert (H' : forall k, esim e1 e2 /\ okfld e1 = true /\ okfld e2 = true /\
       erel (trel k) (fun x => fvb x e1 = true /\ fvb x e2 = true) (selfb e1 = true) r1 r2).
  { intros k. pose proof (H (S k)) as Hk. simpl in Hk. destruct Hk as [Hk|Hk]; [congruence|exact Hk]. }
  clear H. rename H' into H.
  pose proof (H 1) as H1. destruct H1 as (Es & O1 & O2 & _).
  repeat split; auto.
  - intros x Hx. apply (opt_rel_all _ (fun k => trel k)). intros k.
    pose proof (H k) as Hk. destruct Hk as (_ & _ & _ & [L _]). auto.
  - intros Hs.
    assert (Hk : forall k, opt_rel (orel (trel k)) (self_of r1) (self_of r2)).
    { intros k. pose proof (H k) as Hk. destruct Hk as (_ & _ & _ & [_ S']). auto. }
    destruct (self_of r1) as [o1|], (self_of r2) as [o2|]; simpl in *; auto; try exact (Hk 0).
    split; [exact (proj1 (Hk 0))|]. intros f Hf k. exact (proj2 (Hk k) f Hf).
Qed.

Lemma trelw_intro : forall r1 e1 r2 e2,
  esim e1 e2 -> okfld e1 = true -> okfld e2 = true ->
  (forall k, erel (trel k) (fun x => fvb x e1 = true /\ fvb x e2 = true) (selfb e1 = true) r1 r2) ->
  trelw (r1, e1) (r2, e2).
Proof.
  intros r1 e1 r2 e2 Es O1 O2 H [|k]; simpl; auto.
Qed.

Lemma erel_trelw_level : forall S sf r1 r2 k, erel trelw S sf r1 r2 -> erel (trel k) S sf r1 r2.
Proof.
  intros S sf r1 r2 k [L Sf]. split.
  - intros x Hx. specialize (L x Hx). destruct (lookup x r1), (lookup x r2); simpl in *; auto.
  - intros Hs. specialize (Sf Hs). destruct (self_of r1) as [o1|], (self_of r2) as [o2|]; simpl in *; auto.
    destruct Sf as [Lv F]. split; auto. intros f Hf. exact (F f Hf k).
Qed.

Lemma erel_weaken : forall R (S S' : name -> Prop) (sf sf' : Prop) r1 r2,
  erel R S sf r1 r2 -> (forall x, S' x -> S x) -> (sf' -> sf) -> erel R S' sf' r1 r2.
Proof. intros R S S' sf sf' r1 r2 [L Sf] HS Hs. split; auto. Qed.

(* same code: a sub-expression in the same scope *)
Lemma trelw_sub : forall r1 r2 e e',
  erel trelw (fun x => fvb x e = true /\ fvb x e = true) (selfb e = true) r1 r2 ->
  (forall x, fvb x e' = true -> fvb x e = true) -> (selfb e' = true -> selfb e = true) ->
  okfld e' = true ->
  trelw (r1, e') (r2, e').
Proof.
  intros r1 r2 e e' E Hfv Hs Ho.
  apply trelw_intro; auto; [left; reflexivity|].
  intros k. apply erel_trelw_level. eapply erel_weaken; [exact E| |exact Hs].
  intros x [Hx _]. auto.
Qed.

(* ------------------------------------------------------------------ okfld on sub-expressions *)

Ltac okf :=
  unfold okfld in *; destruct D as [dd|]; [|auto];
  simpl in *; repeat rewrite andb_true_iff in *; repeat rewrite forallb_forall in *; intuition auto.

Lemma okfld_in_list : forall (A : Type) (g : A -> expr) (l : list A) (a : A),
  (match D with Some d => forallb (fun x => nofld d (g x)) l | None => true end) = true ->
  In a l -> okfld (g a) = true.
Proof.
  intros A g l a H Hin. unfold okfld. destruct D as [d|]; auto.
  rewrite forallb_forall in H. auto.
Qed.

(* ------------------------------------------------------------------ live fields *)

Definition not_dead_name (f : name) : Prop := forall d, D = Some d -> name_eqb f d = false.

Lemma assoc_live : forall f (fs : list field), not_dead_name f -> assoc f (live fs) = assoc f fs.
Proof.
  intros f fs Hf. induction fs as [|[g [h e]] fs IH]; simpl; auto.
  unfold is_dead. simpl. destruct D as [d|] eqn:ED.
  - destruct (name_eqb g d) eqn:G; simpl.
    + destruct h; simpl.
      * rewrite IH. apply name_eqb_eq in G. subst g. rewrite (Hf d ED). reflexivity.
      * rewrite IH. reflexivity.
    + rewrite IH. reflexivity.
  - simpl. rewrite IH. reflexivity.
Qed.

Lemma find_field_live : forall f fs, not_dead_name f -> find_field f (live fs) = find_field f fs.
Proof. intros. unfold find_field. rewrite assoc_live by assumption. reflexivity. Qed.

Lemma find_field_In : forall f (fs : list field) fe,
  find_field f fs = Some fe -> exists fld, In fld fs /\ snd (snd fld) = fe.
Proof.
  intros f fs fe H. unfold find_field in H. destruct (assoc f fs) as [[h e]|] eqn:A; [|discriminate].
  inversion H; subst. exists (f, (h, fe)). split; [eapply assoc_In; eauto|reflexivity].
Qed.

Lemma visible_live : forall fs, visible_sorted (live fs) = visible_sorted fs.
Proof.
  intros fs. unfold visible_sorted. f_equal. f_equal.
  induction fs as [|[g [h e]] fs IH]; simpl; auto.
  unfold is_dead. simpl. destruct D as [d|].
  - destruct (name_eqb g d); simpl; destruct h; simpl; rewrite ?IH; auto.
  - simpl. destruct h; simpl; rewrite IH; auto.
Qed.

Lemma live_In : forall f fs, In f (live fs) -> In f fs.
Proof. intros f fs H. unfold live in H. apply filter_In in H. tauto. Qed.

(* ------------------------------------------------------------------ environment constructors *)

Lemma erel_arg : forall (R : thunk -> thunk -> Prop) (S S' : name -> Prop) sf y t1 t2 r1 r2,
  erel R S' sf r1 r2 -> R t1 t2 -> (forall x, S x -> x = y \/ S' x) ->
  erel R S sf (RArg y (fst t1) (snd t1) r1) (RArg y (fst t2) (snd t2) r2).
Proof.
  intros R S S' sf y [tr1 te1] [tr2 te2] r1 r2 [L Sf] Ht HS. split.
  - intros x Hx. simpl. destruct (name_eqb x y) eqn:E; [exact Ht|].
    destruct (HS x Hx) as [->|H']; [rewrite name_eqb_refl in E; discriminate|auto].
  - exact Sf.
Qed.

Lemma trel_rec : forall bs r1 r2 (S : name -> Prop) (sf : Prop),
  (forall k, erel (trel k) S sf r1 r2) ->
  (forall x ex, In (x, ex) bs ->
     okfld ex = true /\ (forall y, fvb y ex = true -> mem y (map fst bs) = true \/ S y) /\
     (selfb ex = true -> sf)) ->
  forall k e', okfld e' = true ->
    (forall y, fvb y e' = true -> mem y (map fst bs) = true \/ S y) -> (selfb e' = true -> sf) ->
    trel k (RRec bs r1, e') (RRec bs r2, e').
Proof.
  intros bs r1 r2 S sf H Hbs. induction k as [|k IH]; intros e' Ho Hfv Hs; simpl; auto.
  right. split; [left; reflexivity|]. split; [exact Ho|]. split; [exact Ho|].
  destruct (H k) as [L Sf]. split.
  - intros x [Hx _]. simpl. destruct (assoc x bs) as [ex|] eqn:A.
    + simpl. destruct (Hbs x ex (assoc_In _ _ _ _ A)) as (O & F & Sx). apply IH; auto.
    + destruct (Hfv x Hx) as [Hm|Sx]; [rewrite (assoc_None_mem _ _ _ A) in Hm; discriminate|]. auto.
  - intros Hself. simpl. auto.
Qed.

Lemma trel_obj : forall fs1 fs2 r1 r2,
  live fs1 = live fs2 ->
  (forall k x, fvb x (EObj fs1) = true -> fvb x (EObj fs2) = true ->
     opt_rel (trel k) (lookup x r1) (lookup x r2)) ->
  (forall f, In f (live fs1) -> okfld (snd (snd f)) = true) ->
  forall k f, In f (live fs1) ->
    trel k (RObj fs1 r1, snd (snd f)) (RObj fs2 r2, snd (snd f)).
Proof.
  intros fs1 fs2 r1 r2 Lv H Ho. induction k as [|k IH]; intros f Hf; simpl; auto.
  right. split; [left; reflexivity|]. split; [auto|]. split; [auto|]. split.
  - intros x [Hx _]. simpl. apply H.
    + simpl. apply existsb_exists. exists f. split; [apply live_In; exact Hf|exact Hx].
    + simpl. apply existsb_exists. exists f. split; [apply live_In; rewrite <- Lv; exact Hf|exact Hx].
  - intros _. simpl. split; [exact Lv|]. intros g Hg. simpl. apply IH. exact Hg.
Qed.

(* ------------------------------------------------------------------ reflexivity *)

Fixpoint env_nofld (d : name) (r : env) : bool :=
  match r with
  | RNil => true
  | RRec bs r' => forallb (fun p => nofld d (snd p)) bs && env_nofld d r'
  | RArg _ tr te r' => env_nofld d tr && nofld d te && env_nofld d r'
  | RObj fs r' => forallb (fun f => nofld d (snd (snd f))) fs && env_nofld d r'
  end.

Definition env_ok (r : env) : Prop :=
  match D with Some d => env_nofld d r = true | None => True end.

Lemma lookup_ok : forall x r tr te, env_ok r -> lookup x r = Some (tr, te) -> env_ok tr /\ okfld te = true.
Proof.
  unfold env_ok, okfld. destruct D as [d|]; [|auto].
  intros x r. induction r as [|bs r' IH|y tr0 IHt te0 r' IH|fs r' IH]; intros tr te Hr Hl; simpl in *.
  - discriminate.
  - apply andb_true_iff in Hr. destruct Hr as [Hb Hr'].
    destruct (assoc x bs) as [e|] eqn:A.
    + inversion Hl; subst. split; [simpl; rewrite Hb, Hr'; reflexivity|].
      rewrite forallb_forall in Hb. exact (Hb (x, te) (assoc_In _ _ _ _ A)).
    + auto.
  - apply andb_true_iff in Hr. destruct Hr as [Hr Hr']. apply andb_true_iff in Hr. destruct Hr as [Ht He].
    destruct (name_eqb x y); [inversion Hl; subst; auto|auto].
  - apply andb_true_iff in Hr. destruct Hr as [Hb Hr']. auto.
Qed.

Lemma self_ok : forall r fs r', env_ok r -> self_of r = Some (fs, r') ->
  env_ok (RObj fs r') /\ (forall f, In f fs -> okfld (snd (snd f)) = true).
Proof.
  unfold env_ok, okfld. destruct D as [d|]; [|auto].
  induction r as [|bs r0 IH|y tr0 IHt te0 r0 IH|fs0 r0 IH]; intros fs r' Hr Hs; simpl in *.
  - discriminate.
  - apply andb_true_iff in Hr. destruct Hr. auto.
  - apply andb_true_iff in Hr. destruct Hr. auto.
  - inversion Hs; subst. split; [exact Hr|]. apply andb_true_iff in Hr. destruct Hr as [Hb _].
    rewrite forallb_forall in Hb. auto.
Qed.

Lemma trel_refl : forall k r e, env_ok r -> okfld e = true -> trel k (r, e) (r, e).
Proof.
  induction k as [|k IH]; intros r e Hr He; simpl; auto.
  right. split; [left; reflexivity|]. split; [exact He|]. split; [exact He|]. split.
  - intros x _. destruct (lookup x r) as [[tr te]|] eqn:L; simpl; auto.
    destruct (lookup_ok _ _ _ _ Hr L). auto.
  - intros _. destruct (self_of r) as [[fs r']|] eqn:S; simpl; auto.
    destruct (self_ok _ _ _ Hr S) as [Ho Hf]. split; [reflexivity|].
    intros f Hf'. simpl. apply IH; [exact Ho|]. apply Hf. apply live_In. exact Hf'.
Qed.

(* ------------------------------------------------------------------ primitives respect the relation *)

Lemma tostr_rel : forall R a b, vrel R a b -> tostr a = tostr b.
Proof.
  intros R a b H. destruct a, b; simpl in *; try contradiction; subst; auto.
Qed.

Lemma vrel_tostr_none : forall R a b, vrel R a b -> tostr a = None -> tostr b = None.
Proof. intros R a b H E. rewrite <- (tostr_rel R a b H). exact E. Qed.

Lemma add_values_rel : forall R a1 a2 b1 b2, vrel R a1 a2 -> vrel R b1 b2 ->
  resrel (vrel R) (add_values a1 b1) (add_values a2 b2).
Proof.
  intros R a1 a2 b1 b2 Ha Hb.
  destruct a1, a2; simpl in Ha; try contradiction; destruct b1, b2; simpl in Hb; try contradiction;
    subst; simpl;
    try (apply resrel_fail);
    try (apply resrel_ret; simpl; auto; fail);
    try (match goal with |- context [if ?c then _ else _] => destruct c end;
         [apply resrel_ret; simpl; auto|apply resrel_fail]);
    try (match goal with b : bool |- _ => destruct b end; apply resrel_ret; simpl; auto).
  apply resrel_ret. simpl. apply Forall2_app; auto.
Qed.

Lemma Forall2_len : forall A B (R : A -> B -> Prop) l1 l2, Forall2 R l1 l2 -> length l1 = length l2.
Proof. induction 1; simpl; auto. Qed.

Lemma eq_values_rel : forall R a1 a2 b1 b2, vrel R a1 a2 -> vrel R b1 b2 ->
  resrel (vrel R) (eq_values a1 b1) (eq_values a2 b2).
Proof.
  intros R a1 a2 b1 b2 Ha Hb.
  destruct a1, a2; simpl in Ha; try contradiction; destruct b1, b2; simpl in Hb; try contradiction;
    subst; simpl;
    try (apply resrel_fail);
    try (apply resrel_ret; simpl; auto; fail).
  rewrite <- (Forall2_len _ _ _ _ _ Ha), <- (Forall2_len _ _ _ _ _ Hb).
  destruct (negb (length ts =? length ts1)%nat); [apply resrel_ret; simpl; auto|].
  inversion Ha; subst; [apply resrel_ret; simpl; auto|apply resrel_fail].
Qed.

Lemma index_array_rel : forall (R : thunk -> thunk -> Prop) ts1 ts2 v1 v2,
  Forall2 R ts1 ts2 -> vrel R v1 v2 ->
  match index_array ts1 v1, index_array ts2 v2 with
  | inl e1, inl e2 => e1 = e2
  | inr t1, inr t2 => R t1 t2
  | _, _ => False
  end.
Proof.
  intros R ts1 ts2 v1 v2 Hts Hv.
  destruct v1, v2; simpl in Hv; try contradiction; subst; simpl; auto.
  destruct (Z.ltb z0 0); auto.
  rewrite <- (Forall2_len _ _ _ _ _ Hts).
  destruct (Z.leb (Z.of_nat (length ts1)) z0); auto.
  generalize (Z.to_nat z0). intros k. revert k.
  induction Hts as [|a b l1 l2 Hab Hl IH]; intros [|k]; simpl; auto.
  apply IH.
Qed.

Lemma Forall2_map_same : forall A B (R : B -> B -> Prop) (f g : A -> B) l,
  (forall x, In x l -> R (f x) (g x)) -> Forall2 R (map f l) (map g l).
Proof.
  induction l as [|a l IH]; intros H; simpl; constructor; [apply H; left; reflexivity|].
  apply IH. intros x Hx. apply H. right. exact Hx.
Qed.

(* ------------------------------------------------------------------ calls *)

Lemma bind_pos_rest_incl : forall ps args cr fr p,
  In p (snd (bind_pos ps args cr fr)) -> In p ps.
Proof.
  induction ps as [|[x dx] ps IH]; intros args cr fr p H; simpl in *; auto.
  destruct args as [|a args]; simpl in *; auto. right. eapply IH; eauto.
Qed.

Lemma bind_pos_rel : forall ps args cr1 cr2 fr1 fr2 (S : name -> Prop) sf,
  (forall k, erel (trel k) S sf fr1 fr2) ->
  (forall a, In a args -> trelw (cr1, a) (cr2, a)) ->
  snd (bind_pos ps args cr1 fr1) = snd (bind_pos ps args cr2 fr2) /\
  (forall k, erel (trel k)
     (fun y => S y \/ (mem y (map fst ps) = true /\
                       mem y (map fst (snd (bind_pos ps args cr1 fr1))) = false)) sf
     (fst (bind_pos ps args cr1 fr1)) (fst (bind_pos ps args cr2 fr2))).
Proof.
  induction ps as [|[x dx] ps IH]; intros args cr1 cr2 fr1 fr2 S sf H Ha.
  - simpl. split; auto. intros k. eapply erel_weaken; [apply H| |auto].
    intros y [Hy|[Hy _]]; [auto|discriminate].
  - destruct args as [|a args].
    + simpl. split; auto. intros k. eapply erel_weaken; [apply H| |auto].
      intros y [Hy|[Hy1 Hy2]]; [auto|]. simpl in *. congruence.
    + simpl.
      assert (H' : forall k, erel (trel k) (fun y => y = x \/ S y) sf (RArg x cr1 a fr1) (RArg x cr2 a fr2)).
      { intros k. apply (erel_arg (trel k) _ S sf x (cr1, a) (cr2, a)); [apply H| |tauto].
        apply Ha. left. reflexivity. }
      destruct (IH args cr1 cr2 _ _ _ sf H' (fun a' Hin => Ha a' (or_intror Hin))) as [E1 E2].
      split; [exact E1|]. intros k. eapply erel_weaken; [apply E2| |auto].
      intros y [Hy|[Hy1 Hy2]]; [left; right; exact Hy|].
      simpl in Hy1. apply orb_true_iff in Hy1. destruct Hy1 as [Hy1|Hy1].
      * left. left. apply name_eqb_eq. exact Hy1.
      * right. split; assumption.
Qed.

Lemma defaults_of_spec : forall rest ds, defaults_of rest = inr ds ->
  map fst ds = map fst rest /\ (forall x ex, In (x, ex) ds -> In (x, Some ex) rest).
Proof.
  induction rest as [|[x [dx|]] rest IH]; intros ds H; simpl in *.
  - inversion H; subst. split; auto; intros x ex [].
  - destruct (defaults_of rest) as [e|l] eqn:E; [discriminate|]. inversion H; subst.
    destruct (IH l eq_refl) as [N I]. split; [simpl; rewrite N; reflexivity|].
    intros y ey [Hy|Hy]; [inversion Hy; subst; left; reflexivity|right; auto].
  - discriminate.
Qed.

Lemma fvb_func_default : forall y ps body x ex,
  In (x, Some ex) ps -> fvb y ex = true -> mem y (map fst ps) = false -> fvb y (EFunc ps body) = true.
Proof.
  intros y ps body x ex Hin Hy Hm. simpl. rewrite Hm. apply orb_true_iff. left.
  apply existsb_exists. exists (x, Some ex). split; auto.
Qed.

Lemma bind_args_rel : forall ps body args cr1 cr2 fr1 fr2,
  trelw (fr1, EFunc ps body) (fr2, EFunc ps body) ->
  (forall a, In a args -> trelw (cr1, a) (cr2, a)) ->
  match bind_args ps args cr1 fr1, bind_args ps args cr2 fr2 with
  | inl e1, inl e2 => e1 = e2
  | inr c1, inr c2 => trelw (c1, body) (c2, body)
  | _, _ => False
  end.
Proof.
  intros ps body args cr1 cr2 fr1 fr2 Hf Ha. unfold bind_args.
  match goal with |- context [Nat.ltb ?a ?b] => destruct (Nat.ltb a b) end; [reflexivity|].
  apply trelw_inv in Hf. destruct Hf as [Mk|(_ & Of & _ & Ef)]; [unfold markerb in Mk; destruct M; discriminate|].
  assert (H0 : forall k, erel (trel k) (fun y => fvb y (EFunc ps body) = true) (selfb (EFunc ps body) = true) fr1 fr2).
  { intros k. apply erel_trelw_level. eapply erel_weaken; [exact Ef| |auto]. intros x Hx. simpl. split; exact Hx. }
  destruct (bind_pos_rel ps args cr1 cr2 fr1 fr2 _ _ H0 Ha) as [E1 E2].
  destruct (bind_pos ps args cr1 fr1) as [r1' rest] eqn:B1.
  destruct (bind_pos ps args cr2 fr2) as [r2' rest2] eqn:B2. simpl in *. subst rest2.
  destruct (defaults_of rest) as [err|ds] eqn:Dd; [reflexivity|].
  destruct (defaults_of_spec _ _ Dd) as [Nm Hds].
  assert (Hincl : forall p, In p rest -> In p ps).
  { intros p Hp. apply (bind_pos_rest_incl ps args cr1 fr1). rewrite B1. exact Hp. }
  assert (Ob : okfld body = true) by (clear - Of; okf).
  assert (Hscope : forall e', (forall y, fvb y e' = true -> mem y (map fst ps) = false -> fvb y (EFunc ps body) = true) ->
            forall y, fvb y e' = true ->
            mem y (map fst ds) = true \/
            (fvb y (EFunc ps body) = true \/ (mem y (map fst ps) = true /\ mem y (map fst rest) = false))).
  { intros e' He' y Hy. destruct (mem y (map fst ps)) eqn:Hm.
    - destruct (mem y (map fst rest)) eqn:M2; [left; rewrite Nm; exact M2|right; right; auto].
    - right. left. apply He'; auto. }
  intros k. eapply trel_rec with (sf := selfb (EFunc ps body) = true); [exact E2| | exact Ob | |].
  - intros x ex Hin. specialize (Hds x ex Hin). pose proof (Hincl _ Hds) as Hps. split; [|split].
    + clear - Of Hps. unfold okfld in *. destruct D as [d|]; auto. simpl in Of.
      apply andb_true_iff in Of. destruct Of as [Of _]. rewrite forallb_forall in Of.
      exact (Of _ Hps).
    + apply Hscope. intros y Hy Hm. eapply fvb_func_default; eauto.
    + intros Hs. simpl. apply orb_true_iff. left. apply existsb_exists. exists (x, Some ex). auto.
  - apply Hscope. intros y Hy Hm. simpl. rewrite Hm. apply orb_true_iff. right. exact Hy.
  - intros Hs. simpl. apply orb_true_iff. right. exact Hs.
Qed.

(* ------------------------------------------------------------------ the fundamental lemma *)

Lemma rbind_ret_l_pre : forall A B (a : A) (k : A -> res B), rbind (ret a) k = k a.
Proof. intros. unfold rbind, ret. destruct (k a). reflexivity. Qed.

Lemma existsb_in : forall A (f : A -> bool) l a, In a l -> f a = true -> existsb f l = true.
Proof. intros. apply existsb_exists. eauto. Qed.

(* forcing a demand marker emits its message (or runs out of fuel) *)
Lemma marker_esc : forall e, markerb e = true -> forall n r, @esc value (eval n r e).
Proof.
  unfold markerb, esc. destruct M as [mk|]; [|discriminate].
  intros e H n r.
  repeat match type of H with context [match ?x with _ => _ end] => destruct x; try discriminate end.
  apply name_eqb_eq in H. subst.
  destruct n as [|n1]; [right; reflexivity|]. cbn [eval].
  destruct n1 as [|n2]; [right; reflexivity|].
  assert (EA : eval (S n2) r (EArr [e]) = ret (VArr [(r, e)])) by reflexivity.
  rewrite EA, rbind_ret_l_pre. clear EA.
  destruct n2 as [|n3].
  - assert (ET : eval 1 r (ETrace (EStr mk) (ENum 0)) = ([], OutOfFuel)) by reflexivity.
    rewrite ET. right. reflexivity.
  - assert (ET : eval (S (S n3)) r (ETrace (EStr mk) (ENum 0)) = ([mk], Ok (VNum 0))) by reflexivity.
    rewrite ET. clear ET. unfold rbind.
    change (index_array [(r, e)] (VNum 0)) with (@inr errk thunk (r, e)). cbv iota beta.
    destruct (eval (S (S n3)) r e) as [t o]. simpl. left. left. reflexivity.
Qed.

Lemma arr_thunks_rel : forall r1 r2 es1 es2,
  Forall2 (fun a b => a = b \/ markerb a = true) es1 es2 ->
  (forall a, In a es1 -> In a es2 -> trelw (r1, a) (r2, a)) ->
  Forall2 trelw (map (fun x => (r1, x)) es1) (map (fun x => (r2, x)) es2).
Proof.
  intros r1 r2 es1 es2 H. induction H as [|a b l1 l2 Hab Hl IH]; intros Hin; simpl; constructor.
  - destruct Hab as [<-|Mk].
    + apply Hin; left; reflexivity.
    + intros [|k]; simpl; auto.
  - apply IH. intros c H1 H2. apply Hin; right; assumption.
Qed.

Theorem fundamental : forall n r1 e1 r2 e2,
  trelw (r1, e1) (r2, e2) ->
  resrel (vrel trelw) (eval n r1 e1) (eval n r2 e2).
Proof.
  induction n as [|n IH]; intros r1 e1 r2 e2 H; [right; split; simpl; auto|].
  destruct (trelw_inv _ _ _ _ H) as [Mk|(Es & O1 & O2 & E)]; [left; apply marker_esc; exact Mk|].
  pose proof E as [L Sf].
  destruct Es as [<- | [(fs1 & fs2 & -> & -> & Lv) | (es1 & es2 & -> & -> & Fa)]].
  3: { cbn [eval]. apply resrel_ret. simpl. apply arr_thunks_rel; [exact Fa|].
       intros a Ha1 Ha2. apply trelw_intro; [left; reflexivity| | |].
       - clear - O1 Ha1. unfold okfld in *. destruct D as [d|]; auto. simpl in O1. rewrite forallb_forall in O1. auto.
       - clear - O1 Ha1. unfold okfld in *. destruct D as [d|]; auto. simpl in O1. rewrite forallb_forall in O1. auto.
       - intros k. apply erel_trelw_level. eapply erel_weaken; [exact E| |].
         + intros x [Hx _]. split; simpl; eapply existsb_in; eauto.
         + intros Hs. simpl. eapply existsb_in; eauto. }
  2: { cbn [eval]. apply resrel_ret. simpl. split; [exact Lv|]. intros f Hf k. simpl.
       apply trel_obj; auto.
       - intros k' x Hx1 Hx2. specialize (L x (conj Hx1 Hx2)).
         destruct (lookup x r1), (lookup x r2); simpl in *; auto.
       - intros g Hg. apply live_In in Hg. clear - O1 Hg. unfold okfld in *. destruct D as [d|]; auto.
         simpl in O1. rewrite forallb_forall in O1. auto. }
  assert (Hsub : forall e', (forall x, fvb x e' = true -> fvb x e1 = true) ->
                            (selfb e' = true -> selfb e1 = true) -> okfld e' = true ->
                            trelw (r1, e') (r2, e')).
  { intros e' F S O. eapply trelw_sub; eauto. }
  clear O2.
  destruct e1; cbn [eval].
  - (* ENull *) apply resrel_ret. exact I.
  - (* EBool *) apply resrel_ret. reflexivity.
  - (* ENum *) destruct (in_range z); [apply resrel_ret; reflexivity|destruct (overflows z); apply resrel_fail].
  - (* EStr *) apply resrel_ret. reflexivity.
  - (* EVar *)
    assert (Hx : fvb x (EVar x) = true) by (simpl; apply name_eqb_refl).
    specialize (L x (conj Hx Hx)).
    destruct (lookup x r1) as [[tr1 te1]|], (lookup x r2) as [[tr2 te2]|]; simpl in L; try contradiction.
    + apply IH. exact L.
    + right; split; simpl; auto.
  - (* ELocal *)
    apply IH. intros k.
    apply trel_rec with (S := fun x => fvb x (ELocal bs e1) = true) (sf := selfb (ELocal bs e1) = true).
    + intros k'. apply erel_trelw_level. split; [|exact Sf]. intros x Hx. apply L. split; exact Hx.
    + intros x ex Hin. split; [|split].
      * clear - O1 Hin. unfold okfld in *. destruct D as [d|]; auto. simpl in O1.
        apply andb_true_iff in O1. destruct O1 as [O1 _]. rewrite forallb_forall in O1. exact (O1 _ Hin).
      * intros y Hy. destruct (mem y (map fst bs)) eqn:Hm; [left; reflexivity|right].
        simpl. rewrite Hm. apply orb_true_iff. left. eapply existsb_in; eauto.
      * intros Hs. simpl. apply orb_true_iff. left. eapply existsb_in; eauto.
    + clear - O1. okf.
    + intros y Hy. destruct (mem y (map fst bs)) eqn:Hm; [left; reflexivity|right].
      simpl. rewrite Hm. apply orb_true_iff. right. exact Hy.
    + intros Hs. simpl. apply orb_true_iff. right. exact Hs.
  - (* EFunc *) apply resrel_ret. simpl. repeat split; auto.
  - (* ECall *)
    eapply resrel_bind.
    + apply IH. apply Hsub; [intros x Hx; simpl; rewrite Hx; reflexivity|intros Hs; simpl; rewrite Hs; reflexivity|clear - O1; okf].
    + intros v1 v2 Hv. destruct v1 as [|ba|za|sa|tsa|fsa ora|psa bda fra], v2 as [|bb|zb|sb|tsb|fsb orb'|psb bdb frb]; simpl in Hv; try contradiction; try apply resrel_fail.
      destruct Hv as (-> & -> & Hf).
      assert (Ha : forall a, In a args -> trelw (r1, a) (r2, a)).
      { intros a Hin. apply Hsub.
        - intros x Hx. simpl. apply orb_true_iff. right. eapply existsb_in; eauto.
        - intros Hs. simpl. apply orb_true_iff. right. eapply existsb_in; eauto.
        - clear - O1 Hin. unfold okfld in *. destruct D as [d|]; auto. simpl in O1.
          apply andb_true_iff in O1. destruct O1 as [_ O1]. rewrite forallb_forall in O1. auto. }
      pose proof (bind_args_rel psb bdb args r1 r2 fra frb Hf Ha) as B.
      destruct (bind_args psb args r1 fra) as [er1|c1], (bind_args psb args r2 frb) as [er2|c2]; try contradiction.
      * subst. apply resrel_fail.
      * apply IH. exact B.
  - (* EArr *)
    apply resrel_ret. simpl. apply Forall2_map_same. intros x Hx. apply Hsub.
    + intros y Hy. simpl. eapply existsb_in; eauto.
    + intros Hs. simpl. eapply existsb_in; eauto.
    + clear - O1 Hx. unfold okfld in *. destruct D as [d|]; auto. simpl in O1. rewrite forallb_forall in O1. auto.
  - (* EIndex *)
    eapply resrel_bind.
    + apply IH. apply Hsub; [intros x Hx; simpl; rewrite Hx; reflexivity|intros Hs; simpl; rewrite Hs; reflexivity|clear - O1; okf].
    + intros va1 va2 Hva. eapply resrel_bind.
      * apply IH. apply Hsub; [intros x Hx; simpl; rewrite Hx; apply orb_true_r|intros Hs; simpl; rewrite Hs; apply orb_true_r|clear - O1; okf].
      * intros vi1 vi2 Hvi. destruct va1 as [|ba|za|sa|tsa|fsa ora|psa bda fra], va2 as [|bb|zb|sb|tsb|fsb orb'|psb bdb frb]; simpl in Hva; try contradiction; try apply resrel_fail.
        pose proof (index_array_rel trelw tsa tsb vi1 vi2 Hva Hvi) as X.
        destruct (index_array tsa vi1) as [er1|[tr1 te1]], (index_array tsb vi2) as [er2|[tr2 te2]]; try contradiction.
        -- subst. apply resrel_fail.
        -- apply IH. exact X.
  - (* EObj *)
    apply resrel_ret. simpl. split; [reflexivity|]. intros f Hf k. simpl. apply trel_obj; auto.
    + intros k' x Hx1 Hx2. specialize (L x (conj Hx1 Hx2)).
      destruct (lookup x r1), (lookup x r2); simpl in *; auto.
    + intros g Hg. apply live_In in Hg. clear - O1 Hg. unfold okfld in *. destruct D as [d|]; auto.
      simpl in O1. rewrite forallb_forall in O1. auto.
  - (* EField *)
    eapply resrel_bind.
    + apply IH. apply Hsub; [intros x Hx; exact Hx|intros Hs; exact Hs|clear - O1; okf].
    + intros v1 v2 Hv. destruct v1 as [|ba|za|sa|tsa|fsa ora|psa bda fra], v2 as [|bb|zb|sb|tsb|fsb orb'|psb bdb frb]; simpl in Hv; try contradiction; try apply resrel_fail.
      destruct Hv as [Lv F]. simpl in Lv, F.
      assert (Nd : not_dead_name f).
      { intros d Ed. clear - O1 Ed. unfold okfld in O1. rewrite Ed in O1. simpl in O1.
        apply andb_true_iff in O1. destruct O1 as [O1 _]. apply negb_true_iff in O1. exact O1. }
      rewrite <- (find_field_live f fsa Nd), <- (find_field_live f fsb Nd), <- Lv.
      destruct (find_field f (live fsa)) as [fe|] eqn:FF; [|apply resrel_fail].
      destruct (find_field_In _ _ _ FF) as (fld & Hin & <-).
      apply IH. apply F. exact Hin.
  - (* ESelf *)
    specialize (Sf eq_refl).
    destruct (self_of r1) as [[fsa oa]|], (self_of r2) as [[fsb ob]|]; simpl in Sf; try contradiction.
    + apply resrel_ret. exact Sf.
    + right; split; simpl; auto.
  - (* EIf *)
    eapply resrel_bind.
    + apply IH. apply Hsub; [intros x Hx; simpl; rewrite Hx; reflexivity|intros Hs; simpl; rewrite Hs; reflexivity|clear - O1; okf].
    + intros v1 v2 Hv. destruct v1 as [|ba|za|sa|tsa|fsa ora|psa bda fra], v2 as [|bb|zb|sb|tsb|fsb orb'|psb bdb frb]; simpl in Hv; try contradiction; try apply resrel_fail.
      subst bb. destruct ba.
      * apply IH. apply Hsub; [intros x Hx; simpl; rewrite Hx; rewrite orb_true_r; reflexivity|intros Hs; simpl; rewrite Hs; rewrite orb_true_r; reflexivity|clear - O1; okf].
      * apply IH. apply Hsub; [intros x Hx; simpl; rewrite Hx; apply orb_true_r|intros Hs; simpl; rewrite Hs; apply orb_true_r|clear - O1; okf].
  - (* EError *)
    eapply resrel_bind.
    + apply IH. apply Hsub; [intros x Hx; exact Hx|intros Hs; exact Hs|clear - O1; okf].
    + intros v1 v2 Hv. rewrite <- (tostr_rel _ _ _ Hv). destruct (tostr v1); apply resrel_fail.
  - (* EAdd *)
    eapply resrel_bind.
    + apply IH. apply Hsub; [intros x Hx; simpl; rewrite Hx; reflexivity|intros Hs; simpl; rewrite Hs; reflexivity|clear - O1; okf].
    + intros va1 va2 Hva. eapply resrel_bind.
      * apply IH. apply Hsub; [intros x Hx; simpl; rewrite Hx; apply orb_true_r|intros Hs; simpl; rewrite Hs; apply orb_true_r|clear - O1; okf].
      * intros vb1 vb2 Hvb. apply add_values_rel; auto.
  - (* EEq *)
    eapply resrel_bind.
    + apply IH. apply Hsub; [intros x Hx; simpl; rewrite Hx; reflexivity|intros Hs; simpl; rewrite Hs; reflexivity|clear - O1; okf].
    + intros va1 va2 Hva. eapply resrel_bind.
      * apply IH. apply Hsub; [intros x Hx; simpl; rewrite Hx; apply orb_true_r|intros Hs; simpl; rewrite Hs; apply orb_true_r|clear - O1; okf].
      * intros vb1 vb2 Hvb. apply eq_values_rel; auto.
  - (* ETrace: the traced expression first, then the message *)
    eapply resrel_bind.
    + apply IH. apply Hsub; [intros x Hx; simpl; rewrite Hx; apply orb_true_r|intros Hs; simpl; rewrite Hs; apply orb_true_r|clear - O1; okf].
    + intros vx1 vx2 Hvx. eapply resrel_bind.
      * apply IH. apply Hsub; [intros x Hx; simpl; rewrite Hx; reflexivity|intros Hs; simpl; rewrite Hs; reflexivity|clear - O1; okf].
      * intros vm1 vm2 Hvm. destruct vm1, vm2; simpl in Hvm; try contradiction; try apply resrel_fail.
        subst. right; split; simpl; auto.
Qed.

(* ------------------------------------------------------------------ forcing related values *)

Lemma mapM_resrel : forall A B (R : A -> A -> Prop) (f g : A -> res B) l1 l2,
  Forall2 R l1 l2 -> (forall a b, R a b -> resrel eq (f a) (g b)) ->
  resrel eq (mapM f l1) (mapM g l2).
Proof.
  intros A B R f g l1 l2 H Hfg. induction H as [|a b l1 l2 Hab Hl IH]; simpl.
  - apply resrel_ret. reflexivity.
  - eapply resrel_bind; [apply Hfg; exact Hab|]. intros x y <-.
    eapply resrel_bind; [exact IH|]. intros xs ys <-. apply resrel_ret. reflexivity.
Qed.

Lemma Forall2_diag_In : forall A (P : A -> Prop) (l : list A),
  (forall a, In a l -> P a) -> Forall2 (fun p q => p = q /\ P p) l l.
Proof.
  induction l as [|a l IH]; intros H; constructor.
  - split; [reflexivity|apply H; left; reflexivity].
  - apply IH. intros b Hb. apply H. right. exact Hb.
Qed.

Lemma visible_sorted_In : forall fs p, In p (visible_sorted fs) ->
  exists fld, In fld fs /\ snd (snd fld) = snd p.
Proof.
  intros fs p. unfold visible_sorted.
  set (l := map (fun f : field => (fst f, snd (snd f))) (filter (fun f : field => negb (fst (snd f))) fs)).
  assert (Hl : forall q, In q l -> exists fld, In fld fs /\ snd (snd fld) = snd q).
  { intros q Hq. unfold l in Hq. apply in_map_iff in Hq. destruct Hq as (fld & <- & Hf).
    apply filter_In in Hf. exists fld. split; [tauto|reflexivity]. }
  clearbody l. revert p. induction l as [|q l IH]; simpl; intros p Hp; [contradiction|].
  assert (Hins : forall x m y, In y (insert_field x m) -> y = x \/ In y m).
  { intros x m. induction m as [|z m IHm]; simpl; intros y Hy.
    - destruct Hy as [<-|[]]. auto.
    - destruct (name_ltb (fst z) (fst x)); simpl in Hy.
      + destruct Hy as [<-|Hy]; [right; left; reflexivity|]. destruct (IHm y Hy); auto.
      + destruct Hy as [<-|Hy]; auto. }
  destruct (Hins _ _ _ Hp) as [->|Hin].
  - apply Hl. left. reflexivity.
  - apply IH; auto. intros q' Hq'. apply Hl. right. exact Hq'.
Qed.

Theorem manifest_rel : forall fc n v1 v2, vrel trelw v1 v2 ->
  resrel eq (manifest fc n v1) (manifest fc n v2).
Proof.
  intros fc. induction n as [|n IH]; intros v1 v2 Hv; [apply resrel_refl_eq|].
  destruct v1 as [|ba|za|sa|tsa|fsa ora|psa bda fra], v2 as [|bb|zb|sb|tsb|fsb orb'|psb bdb frb];
    simpl in Hv; try contradiction; subst; cbn [manifest]; try apply resrel_refl_eq.
  - (* arrays *)
    eapply resrel_bind.
    + apply mapM_resrel with (R := trelw); [exact Hv|].
      intros [ra ea] [rb eb] Hab. simpl.
      eapply resrel_bind; [apply fundamental; exact Hab|]. intros x y Hxy. apply IH. exact Hxy.
    + intros xs ys <-. apply resrel_ret. reflexivity.
  - (* objects *)
    destruct Hv as [Lv F]. simpl in Lv, F.
    rewrite <- (visible_live fsa), <- (visible_live fsb), <- Lv.
    eapply resrel_bind.
    + apply mapM_resrel with (R := fun p q => p = q /\ In p (visible_sorted (live fsa))).
      * apply Forall2_diag_In. auto.
      * intros p q [<- Hp].
        destruct (visible_sorted_In _ _ Hp) as (fld & Hfld & Efld).
        pose proof (F fld Hfld) as T. rewrite Efld in T.
        eapply resrel_bind; [apply fundamental; exact T|]. intros x y Hxy.
        eapply resrel_bind; [apply IH; exact Hxy|]. intros j j' <-. apply resrel_ret. reflexivity.
    + intros xs ys <-. apply resrel_ret. reflexivity.
Qed.

(* related computations of a value give the same observable outcome of the whole run
   (trace output, JSON tree / error / panic / fuel exhaustion) — unless the left run
   emitted the marker message or ran out of fuel *)
Lemma run_of_rel : forall fc fm (m1 m2 : res value),
  resrel (vrel trelw) m1 m2 ->
  resrel eq (rdo v <- m1; rdo j <- manifest fc fm v; finish j)
            (rdo v <- m2; rdo j <- manifest fc fm v; finish j).
Proof.
  intros fc fm m1 m2 H. eapply resrel_bind; [exact H|]. intros v1 v2 Hv.
  eapply resrel_bind; [apply manifest_rel; exact Hv|]. intros j j' <-. apply resrel_refl_eq.
Qed.

Theorem run_rel : forall fe fc fm r1 e1 r2 e2,
  trelw (r1, e1) (r2, e2) -> resrel eq (run_in fe fc fm r1 e1) (run_in fe fc fm r2 e2).
Proof. intros. unfold run_in. apply run_of_rel. apply fundamental. assumption. Qed.

End Rel.

Lemma esc_none : forall A (m : res A), esc None m -> False.
Proof. intros A m H. exact H. Qed.

Theorem run_rel_eq : forall D fe fc fm r1 e1 r2 e2,
  trelw D None (r1, e1) (r2, e2) -> run_in fe fc fm r1 e1 = run_in fe fc fm r2 e2.
Proof.
  intros D fe fc fm r1 e1 r2 e2 H.
  destruct (resrel_eq None _ _ _ (run_rel D None fe fc fm r1 e1 r2 e2 H)) as [[]|E]. exact E.
Qed.

Lemma run_of_rel_eq : forall D fc fm (m1 m2 : res value),
  @resrel None _ (vrel D (trelw D None)) m1 m2 ->
  (rdo v <- m1; rdo j <- manifest fc fm v; finish j) = (rdo v <- m2; rdo j <- manifest fc fm v; finish j).
Proof.
  intros D fc fm m1 m2 H.
  destruct (resrel_eq None _ _ _ (run_of_rel D None fc fm m1 m2 H)) as [[]|E]. exact E.
Qed.



(* ================================================================== coincidence / weakening *)

(* the two environments give the same closures to the free variables of e
   (and the same self when e mentions it); all other bindings are arbitrary *)
Definition agree_on (e : expr) (r1 r2 : env) : Prop :=
  (forall x, fvb x e = true -> lookup x r1 = lookup x r2) /\
  (selfb e = true -> self_of r1 = self_of r2).

Lemma orel_refl_none : forall k fs r, orel None (trel None None k) (fs, r) (fs, r).
Proof.
  intros k fs r. split; [reflexivity|]. intros f Hf. simpl. apply trel_refl; [exact I|reflexivity].
Qed.

Lemma trelw_agree : forall r1 r2 e, agree_on e r1 r2 -> trelw None None (r1, e) (r2, e).
Proof.
  intros r1 r2 e [L S]. apply trelw_intro; [left; reflexivity|reflexivity|reflexivity|].
  intros k. split.
  - intros x [Hx _]. rewrite (L x Hx). destruct (lookup x r2) as [[tr te]|]; simpl; auto.
    apply trel_refl; [exact I|reflexivity].
  - intros Hs. rewrite (S Hs). destruct (self_of r2) as [[fs r']|]; simpl; auto. apply orel_refl_none.
Qed.

Theorem coincidence_eval : forall n r1 r2 e, agree_on e r1 r2 ->
  @resrel None _ (vrel None (trelw None None)) (eval n r1 e) (eval n r2 e).
Proof. intros. apply fundamental. apply trelw_agree. assumption. Qed.

Theorem coincidence : forall fe fc fm r1 r2 e, agree_on e r1 r2 ->
  run_in fe fc fm r1 e = run_in fe fc fm r2 e.
Proof. intros. apply (run_rel_eq None). apply trelw_agree. assumption. Qed.

Lemma agree_arg : forall e x tr te r, fvb x e = false -> agree_on e (RArg x tr te r) r.
Proof.
  intros e x tr te r H. split; [|reflexivity]. intros y Hy. simpl.
  destruct (name_eqb y x) eqn:E; [|reflexivity]. apply name_eqb_eq in E. subst. congruence.
Qed.

Lemma agree_rec : forall e bs r, (forall x, mem x (map fst bs) = true -> fvb x e = false) ->
  agree_on e (RRec bs r) r.
Proof.
  intros e bs r H. split; [|reflexivity]. intros y Hy. simpl.
  destruct (assoc y bs) as [ey|] eqn:A; [|reflexivity].
  rewrite (H y (assoc_Some_mem _ _ _ _ A)) in Hy. discriminate.
Qed.

Lemma agree_obj : forall e fs r, selfb e = false -> agree_on e (RObj fs r) r.
Proof. intros e fs r H. split; [reflexivity|]. intros Hs. congruence. Qed.

(* ================================================================== administrative steps *)

Lemma rbind_ret_l : forall A B (a : A) (k : A -> res B), rbind (ret a) k = k a.
Proof. intros. unfold rbind, ret. destruct (k a). reflexivity. Qed.

(* ================================================================== the rewrite laws *)

(* local x = e; x   ==   e        (x fresh for e) *)
Lemma eval_local_name : forall n r x e,
  eval (S (S n)) r (ELocal [(x, e)] (EVar x)) = eval n (RRec [(x, e)] r) e.
Proof. intros. cbn [eval lookup assoc]. rewrite name_eqb_refl. reflexivity. Qed.

Theorem rw_local_name : forall fe fc fm r x e, fvb x e = false ->
  run_in (S (S fe)) fc fm r (ELocal [(x, e)] (EVar x)) = run_in fe fc fm r e.
Proof.
  intros fe fc fm r x e H. unfold run_in at 1. rewrite eval_local_name.
  change (run_in fe fc fm (RRec [(x, e)] r) e = run_in fe fc fm r e).
  apply coincidence. apply agree_rec. intros y Hy. simpl in Hy. rewrite orb_false_r in Hy.
  apply name_eqb_eq in Hy. subst. exact H.
Qed.

(* (function(x) x)(e)   ==   e        (no side condition: the argument closure keeps its own environment) *)
Theorem rw_identity_eval : forall n r x e,
  eval (S (S n)) r (ECall (EFunc [(x, None)] (EVar x)) [e]) = eval n r e.
Proof.
  intros. cbn [eval]. rewrite rbind_ret_l. cbn. rewrite name_eqb_refl. reflexivity.
Qed.

Theorem rw_identity : forall fe fc fm r x e,
  run_in (S (S fe)) fc fm r (ECall (EFunc [(x, None)] (EVar x)) [e]) = run_in fe fc fm r e.
Proof. intros. unfold run_in. rewrite rw_identity_eval. reflexivity. Qed.

(* [e][0]   ==   e *)
Theorem rw_array_proj_eval : forall n r e,
  eval (S (S n)) r (EIndex (EArr [e]) (ENum 0)) = eval (S n) r e.
Proof.
  intros. cbn [eval]. cbn [map]. rewrite rbind_ret_l.
  change (in_range 0) with true. cbv iota. rewrite rbind_ret_l. reflexivity.
Qed.

Theorem rw_array_proj : forall fe fc fm r e,
  run_in (S (S fe)) fc fm r (EIndex (EArr [e]) (ENum 0)) = run_in (S fe) fc fm r e.
Proof. intros. unfold run_in. rewrite rw_array_proj_eval. reflexivity. Qed.

(* {f: e}.f   ==   e        (e does not mention self) *)
Lemma eval_object_proj : forall n r f h e,
  eval (S (S n)) r (EField (EObj [(f, (h, e))]) f) = eval (S n) (RObj [(f, (h, e))] r) e.
Proof.
  intros. cbn [eval]. rewrite rbind_ret_l. unfold find_field. cbn [assoc]. rewrite name_eqb_refl. reflexivity.
Qed.

Theorem rw_object_proj : forall fe fc fm r f h e, selfb e = false ->
  run_in (S (S fe)) fc fm r (EField (EObj [(f, (h, e))]) f) = run_in (S fe) fc fm r e.
Proof.
  intros fe fc fm r f h e H. unfold run_in at 1. rewrite eval_object_proj.
  change (run_in (S fe) fc fm (RObj [(f, (h, e))] r) e = run_in (S fe) fc fm r e).
  apply coincidence. apply agree_obj. exact H.
Qed.

(* local x = e0; body   ==   body        (x not free in body) *)
Theorem rw_dead_local : forall fe fc fm r x e0 body, fvb x body = false ->
  run_in (S fe) fc fm r (ELocal [(x, e0)] body) = run_in fe fc fm r body.
Proof.
  intros fe fc fm r x e0 body H. unfold run_in at 1. cbn [eval].
  change (run_in fe fc fm (RRec [(x, e0)] r) body = run_in fe fc fm r body).
  apply coincidence. apply agree_rec. intros y Hy. simpl in Hy. rewrite orb_false_r in Hy.
  apply name_eqb_eq in Hy. subst. exact H.
Qed.

(* a dead bind inside an existing (mutually recursive) local *)
Lemma trel_rec_dead : forall bs1 bs2 x e0 r,
  (forall y ey, In (y, ey) (bs1 ++ bs2) -> fvb x ey = false) ->
  forall k e', fvb x e' = false ->
    trel None None k (RRec (bs1 ++ (x, e0) :: bs2) r, e') (RRec (bs1 ++ bs2) r, e').
Proof.
  intros bs1 bs2 x e0 r Hbs. induction k as [|k IH]; intros e' He'; simpl; auto.
  right. split; [left; reflexivity|]. split; [reflexivity|]. split; [reflexivity|]. split.
  - intros y [Hy _]. simpl.
    assert (Ne : name_eqb y x = false).
    { destruct (name_eqb y x) eqn:E; auto. apply name_eqb_eq in E. subst. congruence. }
    rewrite (assoc_app_skip _ y bs1 bs2 x e0 Ne).
    destruct (assoc y (bs1 ++ bs2)) as [ey|] eqn:A; simpl.
    + apply IH. eapply Hbs. eapply assoc_In. exact A.
    + destruct (lookup y r) as [[tr te]|]; simpl; auto. apply trel_refl; [exact I|reflexivity].
  - intros _. simpl. destruct (self_of r) as [[fs r']|]; simpl; auto. apply orel_refl_none.
Qed.

Theorem rw_dead_bind : forall fe fc fm r bs1 bs2 x e0 body,
  (forall y ey, In (y, ey) (bs1 ++ bs2) -> fvb x ey = false) -> fvb x body = false ->
  run_in fe fc fm r (ELocal (bs1 ++ (x, e0) :: bs2) body) = run_in fe fc fm r (ELocal (bs1 ++ bs2) body).
Proof.
  intros fe fc fm r bs1 bs2 x e0 body Hbs Hb. destruct fe as [|fe]; [reflexivity|].
  unfold run_in. cbn [eval].
  change (run_in fe fc fm (RRec (bs1 ++ (x, e0) :: bs2) r) body = run_in fe fc fm (RRec (bs1 ++ bs2) r) body).
  apply (run_rel_eq None). intros k. apply trel_rec_dead; assumption.
Qed.

(* dead-code irrelevance: what a dead binding is bound to cannot matter *)
Theorem dead_code_irrelevance : forall fe fc fm r x e1 e2 body, fvb x body = false ->
  run_in fe fc fm r (ELocal [(x, e1)] body) = run_in fe fc fm r (ELocal [(x, e2)] body).
Proof.
  intros fe fc fm r x e1 e2 body H. destruct fe as [|fe]; [reflexivity|].
  rewrite !rw_dead_local by exact H. reflexivity.
Qed.

Theorem dead_bind_irrelevance : forall fe fc fm r bs1 bs2 x e1 e2 body,
  (forall y ey, In (y, ey) (bs1 ++ bs2) -> fvb x ey = false) -> fvb x body = false ->
  run_in fe fc fm r (ELocal (bs1 ++ (x, e1) :: bs2) body) =
  run_in fe fc fm r (ELocal (bs1 ++ (x, e2) :: bs2) body).
Proof. intros. rewrite !rw_dead_bind by assumption. reflexivity. Qed.

(* ------------------------------------------------------------------ dead parameter *)

Lemma bind_pos_app : forall ps extra args cr fr, length args <= length ps ->
  bind_pos (ps ++ extra) args cr fr =
  (fst (bind_pos ps args cr fr), snd (bind_pos ps args cr fr) ++ extra).
Proof.
  induction ps as [|[x dx] ps IH]; intros extra args cr fr H.
  - destruct args; [|simpl in H; lia]. simpl. destruct extra as [|[y dy] extra]; reflexivity.
  - destruct args as [|a args]; [reflexivity|]. simpl. apply IH. simpl in H. lia.
Qed.

Lemma defaults_of_app : forall rest p e0,
  defaults_of (rest ++ [(p, Some e0)]) =
  match defaults_of rest with inl e => inl e | inr ds => inr (ds ++ [(p, e0)]) end.
Proof.
  induction rest as [|[x [dx|]] rest IH]; intros p e0; simpl; auto.
  rewrite IH. destruct (defaults_of rest); reflexivity.
Qed.

Lemma eval_func : forall n r ps b, eval (S n) r (EFunc ps b) = ret (VFun ps b r).
Proof. reflexivity. Qed.

Theorem rw_dead_param : forall fe fc fm r ps p e0 body args,
  length args <= length ps -> fvb p body = false ->
  (forall q dq, In (q, Some dq) ps -> fvb p dq = false) ->
  run_in fe fc fm r (ECall (EFunc (ps ++ [(p, Some e0)]) body) args) =
  run_in fe fc fm r (ECall (EFunc ps body) args).
Proof.
  intros fe fc fm r ps p e0 body args Hlen Hb Hd.
  destruct fe as [|m]; [reflexivity|].
  unfold run_in. apply (run_of_rel_eq None). cbn [eval].
  destruct m as [|n]; [right; split; simpl; auto|].
  rewrite !eval_func, !rbind_ret_l. unfold bind_args.
  assert (L1 : Nat.ltb (@length param (ps ++ [(p, Some e0)])) (length args) = false)
    by (apply Nat.ltb_ge; unfold param; rewrite app_length; simpl; lia).
  assert (L2 : Nat.ltb (@length param ps) (length args) = false) by (apply Nat.ltb_ge; unfold param; lia).
  rewrite L1, L2.
  rewrite bind_pos_app by exact Hlen.
  pose proof (bind_pos_rest_incl ps args r r) as Hincl.
  destruct (bind_pos ps args r r) as [r1 rest]. simpl fst. simpl snd. simpl in Hincl.
  rewrite defaults_of_app.
  destruct (defaults_of rest) as [err|ds] eqn:Dd; [apply resrel_fail|].
  apply (fundamental None None). intros k.
  assert (Hds' : forall y ey, In (y, ey) (ds ++ []) -> fvb p ey = false).
  { intros y ey Hin. rewrite app_nil_r in Hin.
    destruct (defaults_of_spec _ _ Dd) as [_ Hds]. eapply Hd. apply Hincl. apply Hds. exact Hin. }
  pose proof (trel_rec_dead ds [] p e0 r1 Hds' k body Hb) as T. rewrite app_nil_r in T. exact T.
Qed.

(* ------------------------------------------------------------------ dead hidden field *)

Lemma live_dead_field : forall d fs1 fs2 e0,
  live (Some d) (fs1 ++ (d, (true, e0)) :: fs2) = live (Some d) (fs1 ++ fs2).
Proof.
  intros. unfold live. rewrite !filter_app. f_equal. cbn [filter]. unfold is_dead. cbn [fst snd].
  rewrite name_eqb_refl. reflexivity.
Qed.

Lemma orel_refl_some : forall d k fs r,
  env_nofld d (RObj fs r) = true -> orel (Some d) (trel (Some d) None k) (fs, r) (fs, r).
Proof.
  intros d k fs r H. split; [reflexivity|]. intros f Hf. simpl. apply trel_refl; [exact H|].
  simpl in H. apply andb_true_iff in H. destruct H as [H _]. rewrite forallb_forall in H.
  apply H. eapply live_In. exact Hf.
Qed.

Lemma trel_dead_field : forall d fs1 fs2 e0 o r,
  env_nofld d r = true ->
  forallb (fun f : field => nofld d (snd (snd f))) (fs1 ++ (d, (true, e0)) :: fs2) = true ->
  forall k,
    (forall e', nofld d e' = true ->
       trel (Some d) None k (RRec [(o, EObj (fs1 ++ (d, (true, e0)) :: fs2))] r, e')
                       (RRec [(o, EObj (fs1 ++ fs2))] r, e')) /\
    trel (Some d) None k (RRec [(o, EObj (fs1 ++ (d, (true, e0)) :: fs2))] r, EObj (fs1 ++ (d, (true, e0)) :: fs2))
                    (RRec [(o, EObj (fs1 ++ fs2))] r, EObj (fs1 ++ fs2)).
Proof.
  intros d fs1 fs2 e0 o r Hr Hfs.
  assert (Hfs2 : forallb (fun f : field => nofld d (snd (snd f))) (fs1 ++ fs2) = true).
  { rewrite forallb_app in *. simpl in Hfs. apply andb_true_iff in Hfs. destruct Hfs as [A B].
    apply andb_true_iff in B. destruct B as [_ B]. rewrite A, B. reflexivity. }
  induction k as [|k [IH1 IH2]]; [split; simpl; auto|].
  assert (HL : forall y,
    opt_rel (trel (Some d) None k)
      (lookup y (RRec [(o, EObj (fs1 ++ (d, (true, e0)) :: fs2))] r))
      (lookup y (RRec [(o, EObj (fs1 ++ fs2))] r))).
  { intros y. simpl. destruct (name_eqb y o); simpl; [exact IH2|].
    destruct (lookup y r) as [[tr te]|] eqn:L; simpl; auto.
    destruct (lookup_ok (Some d) _ _ _ _ Hr L). apply trel_refl; assumption. }
  assert (HS : opt_rel (orel (Some d) (trel (Some d) None k))
      (self_of (RRec [(o, EObj (fs1 ++ (d, (true, e0)) :: fs2))] r))
      (self_of (RRec [(o, EObj (fs1 ++ fs2))] r))).
  { simpl. destruct (self_of r) as [[fs r']|] eqn:S; simpl; auto.
    destruct (self_ok (Some d) _ _ _ Hr S) as [Ho _]. apply orel_refl_some. exact Ho. }
  split.
  - intros e' He'. simpl. right. split; [left; reflexivity|]. split; [exact He'|]. split; [exact He'|].
    split; [intros y _; apply HL|intros _; exact HS].
  - simpl. right. split; [right; left; eexists; eexists; split; [reflexivity|split; [reflexivity|apply live_dead_field]]|].
    split; [exact Hfs|]. split; [exact Hfs2|].
    split; [intros y _; apply HL|intros Hs; discriminate].
Qed.

(* local o = {fs1, d:: e0, fs2}; body   ==   local o = {fs1, fs2}; body
   when the field name d is accessed nowhere (in body, in the object, in the environment) *)
Theorem rw_dead_field : forall fe fc fm r d fs1 fs2 e0 o body,
  env_nofld d r = true ->
  forallb (fun f : field => nofld d (snd (snd f))) (fs1 ++ (d, (true, e0)) :: fs2) = true ->
  nofld d body = true ->
  run_in fe fc fm r (ELocal [(o, EObj (fs1 ++ (d, (true, e0)) :: fs2))] body) =
  run_in fe fc fm r (ELocal [(o, EObj (fs1 ++ fs2))] body).
Proof.
  intros fe fc fm r d fs1 fs2 e0 o body Hr Hfs Hb. destruct fe as [|fe]; [reflexivity|].
  unfold run_in. cbn [eval].
  apply (run_of_rel_eq (Some d)). apply (fundamental (Some d) None). intros k.
  apply (proj1 (trel_dead_field d fs1 fs2 e0 o r Hr Hfs k)). exact Hb.
Qed.

(* the object itself (for instance as the result of the program) *)
Theorem rw_dead_field_value : forall fe fc fm r d fs1 fs2 e0,
  env_nofld d r = true ->
  forallb (fun f : field => nofld d (snd (snd f))) (fs1 ++ (d, (true, e0)) :: fs2) = true ->
  run_in fe fc fm r (EObj (fs1 ++ (d, (true, e0)) :: fs2)) = run_in fe fc fm r (EObj (fs1 ++ fs2)).
Proof.
  intros fe fc fm r d fs1 fs2 e0 Hr Hfs.
  assert (Hfs2 : forallb (fun f : field => nofld d (snd (snd f))) (fs1 ++ fs2) = true).
  { rewrite forallb_app in *. simpl in Hfs. apply andb_true_iff in Hfs. destruct Hfs as [A B].
    apply andb_true_iff in B. destruct B as [_ B]. rewrite A, B. reflexivity. }
  apply (run_rel_eq (Some d)). apply trelw_intro.
  - right. left. eexists. eexists. split; [reflexivity|split; [reflexivity|apply live_dead_field]].
  - exact Hfs.
  - exact Hfs2.
  - intros k. split.
    + intros y _. destruct (lookup y r) as [[tr te]|] eqn:L; simpl; auto.
      destruct (lookup_ok (Some d) _ _ _ _ Hr L). apply trel_refl; assumption.
    + intros Hs. discriminate.
Qed.

(* the fuel offsets of the laws are bookkeeping: stated without them, the two sides have
   the same proper results *)
Theorem rw_local_name_results : forall fc fm r x e res, fvb x e = false -> snd res <> OutOfFuel ->
  ((exists fe, run_in fe fc fm r (ELocal [(x, e)] (EVar x)) = res) <->
   (exists fe, run_in fe fc fm r e = res)).
Proof.
  intros fc fm r x e res Hx Hres. split; intros [fe H].
  - destruct fe as [|[|n]].
    + subst res. exfalso. apply Hres. reflexivity.
    + subst res. exfalso. apply Hres. reflexivity.
    + exists n. rewrite <- H. symmetry. apply rw_local_name. exact Hx.
  - exists (S (S fe)). rewrite <- H. apply rw_local_name. exact Hx.
Qed.

(* ================================================================== laziness monotonicity
   (the general "replace any undemanded binding by anything" statement): a binding that
   may well be free in the body, but is never demanded in this run, is irrelevant.
   Demand is observed through the marker [e][std.trace(mk, 0)], which emits mk strictly
   before e is evaluated. *)

Definition marker (mk : str) (e : expr) : expr := EIndex (EArr [e]) (ETrace (EStr mk) (ENum 0)).

Lemma markerb_marker : forall mk e, markerb (Some mk) (marker mk e) = true.
Proof. intros. unfold markerb, marker. apply name_eqb_refl. Qed.

Lemma orel_refl_marker : forall mk k fs r, orel None (trel None (Some mk) k) (fs, r) (fs, r).
Proof.
  intros mk k fs r. split; [reflexivity|]. intros f Hf. simpl. apply trel_refl; [exact I|reflexivity].
Qed.

Lemma trel_undemanded_local : forall mk x e1 e2 r k e',
  trel None (Some mk) k (RRec [(x, marker mk e1)] r, e') (RRec [(x, e2)] r, e').
Proof.
  intros mk x e1 e2 r k e'. destruct k as [|k]; simpl; auto.
  right. split; [left; reflexivity|]. split; [reflexivity|]. split; [reflexivity|]. split.
  - intros y _. simpl. destruct (name_eqb y x); simpl.
    + destruct k as [|k]; simpl; auto. left. exact (markerb_marker mk e1).
    + destruct (lookup y r) as [[tr te]|]; simpl; auto. apply trel_refl; [exact I|reflexivity].
  - intros _. simpl. destruct (self_of r) as [[fs r']|]; simpl; auto. apply orel_refl_marker.
Qed.

Theorem laziness_monotone : forall fe fc fm r x e1 e2 body mk,
  let res := run_in fe fc fm r (ELocal [(x, marker mk e1)] body) in
  ~ In mk (fst res) -> snd res <> OutOfFuel ->
  run_in fe fc fm r (ELocal [(x, e2)] body) = res.
Proof.
  intros fe fc fm r x e1 e2 body mk res Hm Hf. subst res.
  destruct fe as [|fe]; [exfalso; apply Hf; reflexivity|].
  change (run_in (S fe) fc fm r (ELocal [(x, marker mk e1)] body))
    with (run_in fe fc fm (RRec [(x, marker mk e1)] r) body) in *.
  change (run_in (S fe) fc fm r (ELocal [(x, e2)] body))
    with (run_in fe fc fm (RRec [(x, e2)] r) body).
  pose proof (run_rel None (Some mk) fe fc fm (RRec [(x, marker mk e1)] r) body (RRec [(x, e2)] r) body
                (fun k => trel_undemanded_local mk x e1 e2 r k body)) as R.
  destruct (resrel_eq (Some mk) _ _ _ R) as [[E|E]|E]; [contradiction|contradiction|symmetry; exact E].
Qed.

(* the same for a function argument that is never demanded *)
Lemma trel_undemanded_arg : forall mk x e1 e2 cr fr k e',
  trel None (Some mk) k (RRec [] (RArg x cr (marker mk e1) fr), e') (RRec [] (RArg x cr e2 fr), e').
Proof.
  intros mk x e1 e2 cr fr k e'. destruct k as [|k]; simpl; auto.
  right. split; [left; reflexivity|]. split; [reflexivity|]. split; [reflexivity|]. split.
  - intros y _. simpl. destruct (name_eqb y x); simpl.
    + destruct k as [|k]; simpl; auto. left. exact (markerb_marker mk e1).
    + destruct (lookup y fr) as [[tr te]|]; simpl; auto. apply trel_refl; [exact I|reflexivity].
  - intros _. simpl. destruct (self_of fr) as [[fs r']|]; simpl; auto. apply orel_refl_marker.
Qed.

Theorem laziness_monotone_arg : forall fe fc fm r x e1 e2 body mk,
  let res := run_in fe fc fm r (ECall (EFunc [(x, None)] body) [marker mk e1]) in
  ~ In mk (fst res) -> snd res <> OutOfFuel ->
  run_in fe fc fm r (ECall (EFunc [(x, None)] body) [e2]) = res.
Proof.
  intros fe fc fm r x e1 e2 body mk res Hm Hf. subst res.
  destruct fe as [|[|fe]]; [exfalso; apply Hf; reflexivity|exfalso; apply Hf; reflexivity|].
  assert (E1 : forall a, run_in (S (S fe)) fc fm r (ECall (EFunc [(x, None)] body) [a]) =
                         run_in (S fe) fc fm (RRec [] (RArg x r a r)) body).
  { intros a. unfold run_in. remember (S fe) as m eqn:Em. cbn [eval]. subst m.
    rewrite eval_func, rbind_ret_l. reflexivity. }
  rewrite !E1 in *.
  pose proof (run_rel None (Some mk) (S fe) fc fm _ body _ body
                (fun k => trel_undemanded_arg mk x e1 e2 r r k body)) as R.
  destruct (resrel_eq (Some mk) _ _ _ R) as [[E|E]|E]; [contradiction|contradiction|symmetry; exact E].
Qed.

(* ... and for an array item that is never demanded: the array is bound by a local and used
   by arbitrary code (indexing other items, concatenation, length-based equality, ...) *)
Lemma items_marker_rel : forall mk (es1 es2 : list expr) e1 e2,
  Forall2 (fun a b => a = b \/ markerb (Some mk) a = true) (es1 ++ marker mk e1 :: es2) (es1 ++ e2 :: es2).
Proof.
  intros mk es1 es2 e1 e2. induction es1 as [|a es1 IH]; simpl.
  - constructor; [right; exact (markerb_marker mk e1)|]. induction es2; constructor; auto.
  - constructor; auto.
Qed.

Lemma trel_undemanded_item : forall mk x es1 es2 e1 e2 r k,
  (forall e', trel None (Some mk) k (RRec [(x, EArr (es1 ++ marker mk e1 :: es2))] r, e')
                                    (RRec [(x, EArr (es1 ++ e2 :: es2))] r, e')) /\
  trel None (Some mk) k (RRec [(x, EArr (es1 ++ marker mk e1 :: es2))] r, EArr (es1 ++ marker mk e1 :: es2))
                        (RRec [(x, EArr (es1 ++ e2 :: es2))] r, EArr (es1 ++ e2 :: es2)).
Proof.
  intros mk x es1 es2 e1 e2 r. induction k as [|k [IH1 IH2]]; [split; simpl; auto|].
  assert (HL : forall y,
    opt_rel (trel None (Some mk) k)
      (lookup y (RRec [(x, EArr (es1 ++ marker mk e1 :: es2))] r))
      (lookup y (RRec [(x, EArr (es1 ++ e2 :: es2))] r))).
  { intros y. simpl. destruct (name_eqb y x); simpl; [exact IH2|].
    destruct (lookup y r) as [[tr te]|]; simpl; auto. apply trel_refl; [exact I|reflexivity]. }
  assert (HS : opt_rel (orel None (trel None (Some mk) k))
      (self_of (RRec [(x, EArr (es1 ++ marker mk e1 :: es2))] r))
      (self_of (RRec [(x, EArr (es1 ++ e2 :: es2))] r))).
  { simpl. destruct (self_of r) as [[fs r']|]; simpl; auto. apply orel_refl_marker. }
  split.
  - intros e'. simpl. right. split; [left; reflexivity|]. split; [reflexivity|]. split; [reflexivity|].
    split; [intros y _; apply HL|intros _; exact HS].
  - simpl. right. split.
    + right. right. eexists. eexists. split; [reflexivity|split; [reflexivity|apply items_marker_rel]].
    + split; [reflexivity|]. split; [reflexivity|].
      split; [intros y _; apply HL|intros _; exact HS].
Qed.

Theorem laziness_monotone_item : forall fe fc fm r x es1 es2 e1 e2 body mk,
  let res := run_in fe fc fm r (ELocal [(x, EArr (es1 ++ marker mk e1 :: es2))] body) in
  ~ In mk (fst res) -> snd res <> OutOfFuel ->
  run_in fe fc fm r (ELocal [(x, EArr (es1 ++ e2 :: es2))] body) = res.
Proof.
  intros fe fc fm r x es1 es2 e1 e2 body mk res Hm Hf. subst res.
  destruct fe as [|fe]; [exfalso; apply Hf; reflexivity|].
  change (run_in (S fe) fc fm r (ELocal [(x, EArr (es1 ++ marker mk e1 :: es2))] body))
    with (run_in fe fc fm (RRec [(x, EArr (es1 ++ marker mk e1 :: es2))] r) body) in *.
  change (run_in (S fe) fc fm r (ELocal [(x, EArr (es1 ++ e2 :: es2))] body))
    with (run_in fe fc fm (RRec [(x, EArr (es1 ++ e2 :: es2))] r) body).
  pose proof (run_rel None (Some mk) fe fc fm _ body _ body
                (fun k => proj1 (trel_undemanded_item mk x es1 es2 e1 e2 r k) body)) as R.
  destruct (resrel_eq (Some mk) _ _ _ R) as [[E|E]|E]; [contradiction|contradiction|symmetry; exact E].
Qed.
