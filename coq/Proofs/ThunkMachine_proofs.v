(* Proofs/ThunkMachine_proofs.v — lemmas about Model/ThunkMachine.v and Model/Interner.v *)
From RJ Require Import Base.Outcome Model.ThunkMachine Model.Interner.
From Coq Require Import Lia.
Local Open Scope N_scope.

(* ------------------------------------------------------------------ *)
(* witnesses *)

(* `local u = error "boom"; {a: u, b: 1}`: cell 1 = error "m7", root cell 0 forces it *)
Definition boom_store : store :=
  {| cells := [ {| owner := 0; st := Pending (EForce 1) |}; {| owner := 0; st := Pending (EFail 7) |} ];
     guards := [ {| cond := None; checked := false |} ] |}.
Definition boom_reqs : list req := [Eval 500 0; Eval 500 0].

Lemma boom_unrestored :
  run_shared false boom_store boom_reqs = [RErr (EUser 7); RErr EInfRec] /\
  map (run_fresh false boom_store) boom_reqs = [RErr (EUser 7); RErr (EUser 7)].
Proof. vm_compute. split; reflexivity. Qed.

(* `{ assert false : "g4", c1:: 5 }` behind root 0 *)
Definition assert_store : store :=
  {| cells := [ {| owner := 0; st := Pending (EForce 1) |}; {| owner := 1; st := Done 5 |} ];
     guards := [ {| cond := None; checked := false |}; {| cond := Some 4; checked := false |} ] |}.
Definition assert_reqs : list req := [Eval 500 0; Manifest 500 0].

Lemma assert_unrestored :
  run_shared false assert_store assert_reqs = [RErr (EAssert 4); RErr EInfRec] /\
  map (run_fresh false assert_store) assert_reqs = [RErr (EAssert 4); RErr (EAssert 4)].
Proof. vm_compute. split; reflexivity. Qed.

(* the same object reached through a second root thunk: the assertion is skipped *)
Definition assert_store2 : store :=
  {| cells := [ {| owner := 0; st := Pending (EForce 2) |}; {| owner := 0; st := Pending (EForce 2) |};
                {| owner := 1; st := Done 5 |} ];
     guards := [ {| cond := None; checked := false |}; {| cond := Some 4; checked := false |} ] |}.
Definition assert_reqs2 : list req := [Eval 500 0; Eval 500 1].

Lemma assert_unrestored2 :
  run_shared false assert_store2 assert_reqs2 = [RErr (EAssert 4); RVal 5] /\
  map (run_fresh false assert_store2) assert_reqs2 = [RErr (EAssert 4); RErr (EAssert 4)].
Proof. vm_compute. split; reflexivity. Qed.

(* memoisation under a frame limit: chain 1 -> 2 -> 3, roots 0 (forces 1) and 4 (forces 2) *)
Definition chain_store : store :=
  {| cells := [ {| owner := 0; st := Pending (EForce 1) |};
                {| owner := 0; st := Pending (EForce 2) |};
                {| owner := 0; st := Pending (EForce 3) |};
                {| owner := 0; st := Pending (EAdd (EConst 1) (EConst 2)) |};
                {| owner := 0; st := Pending (EForce 2) |} ];
     guards := [ {| cond := None; checked := false |} ] |}.
Definition chain_reqs : list req := [Eval 2 4; Eval 2 0].

Lemma chain_memo_limit : forall restore,
  run_shared restore chain_store chain_reqs = [RVal 3; RVal 3] /\
  map (run_fresh restore chain_store) chain_reqs = [RVal 3; RErr EOverflow].
Proof. intros []; vm_compute; split; reflexivity. Qed.

(* ------------------------------------------------------------------ *)
(* done_is_stable: a Done cell answers without running anything, whatever the
   evaluator, and the store is untouched *)

Lemma done_is_stable_cell : forall restore ev s id c v,
  nthN (cells s) id = Some c -> st c = Done v ->
  do_thunk restore ev s id = (s, Ok v).
Proof. intros restore ev s id c v Hn Hs. unfold do_thunk. rewrite Hn, Hs. reflexivity. Qed.

Lemma done_is_stable_req : forall restore s id c v limit,
  nthN (cells s) id = Some c -> st c = Done v ->
  run_req restore s (Eval limit id) = (s, RVal v) /\
  run_req restore s (Manifest limit id) = (s, RStr (digits v)).
Proof.
  intros restore s id c v limit Hn Hs. unfold run_req.
  rewrite (done_is_stable_cell restore _ s id c v Hn Hs). split; reflexivity.
Qed.

(* ------------------------------------------------------------------ *)
(* list helpers *)

Lemma nthN_some_lt {A} (l : list A) i x : nthN l i = Some x -> (N.to_nat i < length l)%nat.
Proof.
  unfold nthN. destruct (N.of_nat (length l) <=? i) eqn:E; [discriminate|].
  intros _. apply N.leb_gt in E. lia.
Qed.

Lemma nthN_nth_error {A} (l : list A) i : (N.to_nat i < length l)%nat -> nthN l i = nth_error l (N.to_nat i).
Proof.
  intros H. unfold nthN. destruct (N.of_nat (length l) <=? i) eqn:E; [|reflexivity].
  apply N.leb_le in E. lia.
Qed.

Lemma set_nth_length {A} (l : list A) i x : length (set_nth l i x) = length l.
Proof. revert i; induction l as [|h t IH]; intros [|i]; simpl; auto. Qed.

Lemma set_nth_same {A} (l : list A) i x : (i < length l)%nat -> nth_error (set_nth l i x) i = Some x.
Proof. revert i; induction l as [|h t IH]; intros [|i] H; simpl in *; try lia; auto. apply IH; lia. Qed.

Lemma set_nth_other {A} (l : list A) i j x : i <> j -> nth_error (set_nth l i x) j = nth_error l j.
Proof. revert i j; induction l as [|h t IH]; intros [|i] [|j] H; simpl; auto; try congruence. Qed.

Lemma setN_length {A} (l : list A) i x : length (setN l i x) = length l.
Proof. unfold setN. destruct (_ <=? _); auto using set_nth_length. Qed.

Lemma nthN_setN_same {A} (l : list A) i x y : nthN l i = Some y -> nthN (setN l i x) i = Some x.
Proof.
  intros H. pose proof (nthN_some_lt _ _ _ H) as Hlt.
  unfold setN. destruct (N.of_nat (length l) <=? i) eqn:E; [apply N.leb_le in E; lia|].
  rewrite nthN_nth_error by (rewrite set_nth_length; exact Hlt). apply set_nth_same; exact Hlt.
Qed.

Lemma nthN_setN_other {A} (l : list A) i j x : i <> j -> nthN (setN l i x) j = nthN l j.
Proof.
  intros H. unfold setN. destruct (N.of_nat (length l) <=? i) eqn:E; [reflexivity|].
  unfold nthN. rewrite set_nth_length. destruct (N.of_nat (length l) <=? j); [reflexivity|].
  apply set_nth_other. intros C. apply H. apply N2Nat.inj; exact C.
Qed.

(* ------------------------------------------------------------------ *)
(* Interner *)

Lemma str_eqb_eq : forall a b, str_eqb a b = true <-> a = b.
Proof.
  induction a as [|x a IH]; intros [|y b]; simpl; split; intros H; try discriminate; try reflexivity.
  - apply andb_true_iff in H. destruct H as [H1 H2]. apply N.eqb_eq in H1. apply IH in H2. congruence.
  - inversion H; subst. apply andb_true_iff. split; [apply N.eqb_refl | apply IH; reflexivity].
Qed.

Lemma str_eqb_refl a : str_eqb a a = true.
Proof. apply str_eqb_eq; reflexivity. Qed.

(* find_from returns a position holding the string, the first one *)
Lemma find_from_some : forall l i s k, find_from i l s = Some k ->
  i <= k /\ nth_error l (N.to_nat (k - i)) = Some s /\
  forall j x, (j < N.to_nat (k - i))%nat -> nth_error l j = Some x -> x <> s.
Proof.
  induction l as [|x t IH]; intros i s k H; simpl in H; [discriminate|].
  destruct (str_eqb x s) eqn:E.
  - inversion H; subst. apply str_eqb_eq in E. subst. rewrite N.sub_diag. simpl.
    split; [lia|]. split; [reflexivity|]. intros j y Hj; lia.
  - apply IH in H. destruct H as [Hle [Hn Hfirst]].
    assert (Hk : N.to_nat (k - i) = S (N.to_nat (k - (i + 1)))) by lia.
    split; [lia|]. split.
    + rewrite Hk. simpl. exact Hn.
    + intros j y Hj Hy. destruct j as [|j]; simpl in Hy.
      * inversion Hy; subst. intros C; subst. rewrite str_eqb_refl in E. discriminate.
      * apply (Hfirst j y); [lia | exact Hy].
Qed.

Lemma find_from_none : forall l i s, find_from i l s = None -> ~ In s l.
Proof.
  induction l as [|x t IH]; intros i s H; simpl in *; [tauto|].
  destruct (str_eqb x s) eqn:E; [discriminate|].
  intros [C|C]; [subst; rewrite str_eqb_refl in E; discriminate | exact (IH _ _ H C)].
Qed.

Lemma find_from_app : forall l l' i s k, find_from i l s = Some k -> find_from i (l ++ l') s = Some k.
Proof.
  induction l as [|x t IH]; intros l' i s k H; simpl in *; [discriminate|].
  destruct (str_eqb x s); [exact H | apply IH; exact H].
Qed.

Lemma find_from_app_none : forall l l' i s, find_from i l s = None ->
  find_from i (l ++ l') s = find_from (i + N.of_nat (length l)) l' s.
Proof.
  induction l as [|x t IH]; intros l' i s H; simpl in *.
  - f_equal; lia.
  - destruct (str_eqb x s); [discriminate|]. rewrite IH by exact H. f_equal; lia.
Qed.

(* the set only grows, and identities are stable *)
Definition extends (it it' : interner) : Prop := exists more, it' = it ++ more.

Lemma extends_refl it : extends it it.
Proof. exists []. symmetry; apply app_nil_r. Qed.

Lemma extends_trans a b c : extends a b -> extends b c -> extends a c.
Proof. intros [m1 H1] [m2 H2]. exists (m1 ++ m2). subst. symmetry; apply app_assoc. Qed.

Lemma intern_extends it s : extends it (fst (intern it s)).
Proof. unfold intern. destruct (get_interned it s); simpl; [apply extends_refl | exists [s]; reflexivity]. Qed.

Lemma intern_all_extends : forall ss it, extends it (intern_all it ss).
Proof.
  induction ss as [|s t IH]; intros it; simpl; [apply extends_refl|].
  eapply extends_trans; [apply intern_extends | apply IH].
Qed.

Lemma get_interned_stable it it' s k : extends it it' -> get_interned it s = Some k -> get_interned it' s = Some k.
Proof. intros [m ->] H. apply find_from_app; exact H. Qed.

Definition nodup_it (it : interner) : Prop := NoDup it.

Lemma intern_nodup it s : NoDup it -> NoDup (fst (intern it s)).
Proof.
  intros H. unfold intern. destruct (get_interned it s) eqn:E; simpl; [exact H|].
  apply find_from_none in E. clear -H E. induction it as [|x t IH]; simpl.
  - constructor; [tauto | constructor].
  - inversion H; subst. constructor.
    + intros C. apply in_app_or in C. destruct C as [C|[C|[]]]; [tauto | subst; apply E; left; reflexivity].
    + apply IH; [assumption | intros C; apply E; right; exact C].
Qed.

Lemma intern_all_nodup : forall ss it, NoDup it -> NoDup (intern_all it ss).
Proof. induction ss as [|s t IH]; intros it H; simpl; [exact H | apply IH, intern_nodup, H]. Qed.

(* every field name of the object is an identity handed out by the interner *)
Definition names_interned (it : interner) (o : obj) : Prop :=
  forall n v, In (n, v) o -> (N.to_nat n < length it)%nat.

Lemma nodup_nth_inj {A} (l : list A) i j x : NoDup l ->
  nth_error l i = Some x -> nth_error l j = Some x -> i = j.
Proof.
  intros H Hi Hj. apply (proj1 (NoDup_nth_error l) H); [apply nth_error_Some; congruence | congruence].
Qed.

(* lookup through the interner = comparing contents, when the object's names are
   interned and the interner holds no duplicate *)
Lemma lookup_is_ref : forall it o s, NoDup it -> names_interned it o ->
  lookup it o s = lookup_ref it o s.
Proof.
  intros it o s Hnd Hn. unfold lookup. destruct (get_interned it s) as [k|] eqn:E.
  - unfold get_interned in E. apply find_from_some in E. destruct E as [_ [Hk _]].
    rewrite N.sub_0_r in Hk.
    induction o as [|[n v] t IH]; simpl; [reflexivity|].
    assert (Hlt : (N.to_nat n < length it)%nat) by (apply (Hn n v); left; reflexivity).
    destruct (nth_error it (N.to_nat n)) as [x|] eqn:En; [|apply nth_error_None in En; lia].
    destruct (n =? k) eqn:Enk.
    + apply N.eqb_eq in Enk. subst. rewrite Hk in En. inversion En; subst. rewrite str_eqb_refl. reflexivity.
    + destruct (str_eqb x s) eqn:Ex.
      * apply str_eqb_eq in Ex. subst. exfalso. apply N.eqb_neq in Enk. apply Enk.
        apply N2Nat.inj. eapply nodup_nth_inj; eauto.
      * apply IH. intros n' v' Hin. apply (Hn n' v'). right; exact Hin.
  - unfold get_interned in E. apply find_from_none in E.
    induction o as [|[n v] t IH]; simpl; [reflexivity|].
    destruct (nth_error it (N.to_nat n)) as [x|] eqn:En.
    + destruct (str_eqb x s) eqn:Ex.
      * apply str_eqb_eq in Ex. subst. exfalso. apply E. eapply nth_error_In; eauto.
      * apply IH. intros n' v' Hin. apply (Hn n' v'). right; exact Hin.
    + apply IH. intros n' v' Hin. apply (Hn n' v'). right; exact Hin.
Qed.

Lemma lookup_ref_extends : forall it more o s, names_interned it o ->
  lookup_ref (it ++ more) o s = lookup_ref it o s.
Proof.
  intros it more o s Hn. induction o as [|[n v] t IH]; simpl; [reflexivity|].
  assert (Hlt : (N.to_nat n < length it)%nat) by (apply (Hn n v); left; reflexivity).
  rewrite nth_error_app1 by exact Hlt.
  rewrite IH; [reflexivity|]. intros n' v' Hin. apply (Hn n' v'). right; exact Hin.
Qed.

Lemma names_interned_extends it more o : names_interned it o -> names_interned (it ++ more) o.
Proof. intros H n v Hin. rewrite app_length. specialize (H n v Hin). lia. Qed.

(* intern_lookup_sound: on every interner reached from the empty one, a lookup by a
   computed string gives what comparing the field names' contents gives — in particular
   "unknown field" for a string nobody interned is correct — and the answer does not
   change however the interner grows afterwards *)
Theorem intern_lookup_sound : forall ss later o s,
  let it := intern_all [] ss in
  names_interned it o ->
  lookup it o s = lookup_ref it o s /\
  lookup (intern_all it later) o s = lookup it o s.
Proof.
  intros ss later o s it Hn.
  assert (Hnd : NoDup it) by (apply intern_all_nodup; constructor).
  split; [apply lookup_is_ref; assumption|].
  destruct (intern_all_extends later it) as [more Hm]. rewrite Hm.
  assert (Hnd' : NoDup (it ++ more)) by (rewrite <- Hm; apply intern_all_nodup; exact Hnd).
  rewrite (lookup_is_ref (it ++ more) o s Hnd' (names_interned_extends _ _ _ Hn)).
  rewrite lookup_ref_extends by exact Hn. symmetry. apply lookup_is_ref; assumption.
Qed.

Lemma never_interned_unknown : forall it o s, ~ In s it -> lookup it o s = None.
Proof.
  intros it o s H. unfold lookup.
  destruct (get_interned it s) as [k|] eqn:E; [|reflexivity].
  unfold get_interned in E. apply find_from_some in E. destruct E as [_ [Hk _]].
  exfalso. apply H. eapply nth_error_In; eauto.
Qed.
