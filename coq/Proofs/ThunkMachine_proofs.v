(* Proofs/ThunkMachine_proofs.v — lemmas about Model/ThunkMachine.v and Model/Interner.v *)
From RJ Require Import Base.Outcome Model.ThunkMachine Model.Interner.
From Coq Require Import Lia.
Local Open Scope N_scope.

(* ------------------------------------------------------------------ *)
(* witnesses *)

(* `local u = error "boom"; {a: u, b: 1}`: cell 1 = error "m7", root cell 0 forces it *)
Definition boom_store : store :=
  {| cells := [ {| owner := 0; st := Pending (EForce 1) |}; {| owner := 0; st := Pending (EFail 7) |} ];
     guards := [ {| layers := [[]]; checked := false |} ] |}.
Definition boom_reqs : list req := [Eval 500 0; Eval 500 0].

Lemma boom_unrestored :
  run_shared false boom_store boom_reqs = [RErr (EUser 7); RErr EInfRec] /\
  map (run_fresh false boom_store) boom_reqs = [RErr (EUser 7); RErr (EUser 7)].
Proof. vm_compute. split; reflexivity. Qed.

(* `{ assert false : "g4", c1:: 5 }` behind root 0 *)
Definition assert_store : store :=
  {| cells := [ {| owner := 0; st := Pending (EForce 1) |}; {| owner := 1; st := Done 5 |} ];
     guards := [ {| layers := [[]]; checked := false |}; {| layers := [[None; Some 4]; []]; checked := false |} ] |}.
Definition assert_reqs : list req := [Eval 500 0; Manifest 500 0].

Lemma assert_unrestored :
  run_shared false assert_store assert_reqs = [RErr (EAssert 4); RErr EInfRec] /\
  map (run_fresh false assert_store) assert_reqs = [RErr (EAssert 4); RErr (EAssert 4)].
Proof. vm_compute. split; reflexivity. Qed.

(* the same object reached through a second root thunk: the assertion is skipped *)
Definition assert_store2 : store :=
  {| cells := [ {| owner := 0; st := Pending (EForce 2) |}; {| owner := 0; st := Pending (EForce 2) |};
                {| owner := 1; st := Done 5 |} ];
     guards := [ {| layers := [[]]; checked := false |}; {| layers := [[None; Some 4]; []]; checked := false |} ] |}.
Definition assert_reqs2 : list req := [Eval 500 0; Eval 500 1].

Lemma assert_unrestored2 :
  run_shared false assert_store2 assert_reqs2 = [RErr (EAssert 4); RVal 5] /\
  map (run_fresh false assert_store2) assert_reqs2 = [RErr (EAssert 4); RErr (EAssert 4)].
Proof. vm_compute. split; reflexivity. Qed.

(* memoisation under a frame limit: chain 1 -> 2 -> 3, roots 0 (forces 1) and 4 (forces 2) *)
Definition chain_store : store :=
  {| cells := [ {| owner := 0; st := Pending (EForce 1) |};
                {| owner := 0; st := Pending (EForce 2) |};
                {| owner := 0; st := Pending (EForce 3) |};
                {| owner := 0; st := Pending (EAdd (EConst 1) (EConst 2)) |};
                {| owner := 0; st := Pending (EForce 2) |} ];
     guards := [ {| layers := [[]]; checked := false |} ] |}.
Definition chain_reqs : list req := [Eval 2 4; Eval 2 0].

Lemma chain_memo_limit : forall restore,
  run_shared restore chain_store chain_reqs = [RVal 3; RVal 3] /\
  map (run_fresh restore chain_store) chain_reqs = [RVal 3; RErr EOverflow].
Proof. intros []; vm_compute; split; reflexivity. Qed.

(* ------------------------------------------------------------------ *)
(* done_is_stable: a Done cell answers without running anything, whatever the
   evaluator, and the store is untouched *)

Lemma done_is_stable_cell : forall restore ev s id c v,
  nthN (cells s) id = Some c -> st c = Done v ->
  do_thunk restore ev s id = (s, Ok v).
Proof. intros restore ev s id c v Hn Hs. unfold do_thunk. rewrite Hn, Hs. reflexivity. Qed.

Lemma done_is_stable_req : forall restore s id c v limit,
  nthN (cells s) id = Some c -> st c = Done v ->
  run_req restore s (Eval limit id) = (s, RVal v) /\
  run_req restore s (Manifest limit id) = (s, RStr (digits v)).
Proof.
  intros restore s id c v limit Hn Hs. unfold run_req.
  rewrite (done_is_stable_cell restore _ s id c v Hn Hs). split; reflexivity.
Qed.

(* ------------------------------------------------------------------ *)
(* list helpers *)

Lemma nthN_some_lt {A} (l : list A) i x : nthN l i = Some x -> (N.to_nat i < length l)%nat.
Proof.
  unfold nthN. destruct (N.of_nat (length l) <=? i) eqn:E; [discriminate|].
  intros _. apply N.leb_gt in E. lia.
Qed.

Lemma nthN_nth_error {A} (l : list A) i : (N.to_nat i < length l)%nat -> nthN l i = nth_error l (N.to_nat i).
Proof.
  intros H. unfold nthN. destruct (N.of_nat (length l) <=? i) eqn:E; [|reflexivity].
  apply N.leb_le in E. lia.
Qed.

Lemma set_nth_length {A} (l : list A) i x : length (set_nth l i x) = length l.
Proof. revert i; induction l as [|h t IH]; intros [|i]; simpl; auto. Qed.

Lemma set_nth_same {A} (l : list A) i x : (i < length l)%nat -> nth_error (set_nth l i x) i = Some x.
Proof. revert i; induction l as [|h t IH]; intros [|i] H; simpl in *; try lia; auto. apply IH; lia. Qed.

Lemma set_nth_other {A} (l : list A) i j x : i <> j -> nth_error (set_nth l i x) j = nth_error l j.
Proof. revert i j; induction l as [|h t IH]; intros [|i] [|j] H; simpl; auto; try congruence. Qed.

Lemma setN_length {A} (l : list A) i x : length (setN l i x) = length l.
Proof. unfold setN. destruct (_ <=? _); auto using set_nth_length. Qed.

Lemma nthN_setN_same {A} (l : list A) i x y : nthN l i = Some y -> nthN (setN l i x) i = Some x.
Proof.
  intros H. pose proof (nthN_some_lt _ _ _ H) as Hlt.
  unfold setN. destruct (N.of_nat (length l) <=? i) eqn:E; [apply N.leb_le in E; lia|].
  rewrite nthN_nth_error by (rewrite set_nth_length; exact Hlt). apply set_nth_same; exact Hlt.
Qed.

Lemma nthN_setN_other {A} (l : list A) i j x : i <> j -> nthN (setN l i x) j = nthN l j.
Proof.
  intros H. unfold setN. destruct (N.of_nat (length l) <=? i) eqn:E; [reflexivity|].
  unfold nthN. rewrite set_nth_length. destruct (N.of_nat (length l) <=? j); [reflexivity|].
  apply set_nth_other. intros C. apply H. apply N2Nat.inj; exact C.
Qed.

(* ------------------------------------------------------------------ *)
(* Interner *)

Lemma str_eqb_eq : forall a b, str_eqb a b = true <-> a = b.
Proof.
  induction a as [|x a IH]; intros [|y b]; simpl; split; intros H; try discriminate; try reflexivity.
  - apply andb_true_iff in H. destruct H as [H1 H2]. apply N.eqb_eq in H1. apply IH in H2. congruence.
  - inversion H; subst. apply andb_true_iff. split; [apply N.eqb_refl | apply IH; reflexivity].
Qed.

Lemma str_eqb_refl a : str_eqb a a = true.
Proof. apply str_eqb_eq; reflexivity. Qed.

(* find_from returns a position holding the string, the first one *)
Lemma find_from_some : forall l i s k, find_from i l s = Some k ->
  i <= k /\ nth_error l (N.to_nat (k - i)) = Some s /\
  forall j x, (j < N.to_nat (k - i))%nat -> nth_error l j = Some x -> x <> s.
Proof.
  induction l as [|x t IH]; intros i s k H; simpl in H; [discriminate|].
  destruct (str_eqb x s) eqn:E.
  - inversion H; subst. apply str_eqb_eq in E. subst. rewrite N.sub_diag. simpl.
    split; [lia|]. split; [reflexivity|]. intros j y Hj; lia.
  - apply IH in H. destruct H as [Hle [Hn Hfirst]].
    assert (Hk : N.to_nat (k - i) = S (N.to_nat (k - (i + 1)))) by lia.
    split; [lia|]. split.
    + rewrite Hk. simpl. exact Hn.
    + intros j y Hj Hy. destruct j as [|j]; simpl in Hy.
      * inversion Hy; subst. intros C; subst. rewrite str_eqb_refl in E. discriminate.
      * apply (Hfirst j y); [lia | exact Hy].
Qed.

Lemma find_from_none : forall l i s, find_from i l s = None -> ~ In s l.
Proof.
  induction l as [|x t IH]; intros i s H; simpl in *; [tauto|].
  destruct (str_eqb x s) eqn:E; [discriminate|].
  intros [C|C]; [subst; rewrite str_eqb_refl in E; discriminate | exact (IH _ _ H C)].
Qed.

Lemma find_from_app : forall l l' i s k, find_from i l s = Some k -> find_from i (l ++ l') s = Some k.
Proof.
  induction l as [|x t IH]; intros l' i s k H; simpl in *; [discriminate|].
  destruct (str_eqb x s); [exact H | apply IH; exact H].
Qed.

Lemma find_from_app_none : forall l l' i s, find_from i l s = None ->
  find_from i (l ++ l') s = find_from (i + N.of_nat (length l)) l' s.
Proof.
  induction l as [|x t IH]; intros l' i s H; simpl in *.
  - f_equal; lia.
  - destruct (str_eqb x s); [discriminate|]. rewrite IH by exact H. f_equal; lia.
Qed.

(* the set only grows, and identities are stable *)
Definition extends (it it' : interner) : Prop := exists more, it' = it ++ more.

Lemma extends_refl it : extends it it.
Proof. exists []. symmetry; apply app_nil_r. Qed.

Lemma extends_trans a b c : extends a b -> extends b c -> extends a c.
Proof. intros [m1 H1] [m2 H2]. exists (m1 ++ m2). subst. symmetry; apply app_assoc. Qed.

Lemma intern_extends it s : extends it (fst (intern it s)).
Proof. unfold intern. destruct (get_interned it s); simpl; [apply extends_refl | exists [s]; reflexivity]. Qed.

Lemma intern_all_extends : forall ss it, extends it (intern_all it ss).
Proof.
  induction ss as [|s t IH]; intros it; simpl; [apply extends_refl|].
  eapply extends_trans; [apply intern_extends | apply IH].
Qed.

Lemma get_interned_stable it it' s k : extends it it' -> get_interned it s = Some k -> get_interned it' s = Some k.
Proof. intros [m ->] H. apply find_from_app; exact H. Qed.

Definition nodup_it (it : interner) : Prop := NoDup it.

Lemma intern_nodup it s : NoDup it -> NoDup (fst (intern it s)).
Proof.
  intros H. unfold intern. destruct (get_interned it s) eqn:E; simpl; [exact H|].
  apply find_from_none in E. clear -H E. induction it as [|x t IH]; simpl.
  - constructor; [tauto | constructor].
  - inversion H; subst. constructor.
    + intros C. apply in_app_or in C. destruct C as [C|[C|[]]]; [tauto | subst; apply E; left; reflexivity].
    + apply IH; [assumption | intros C; apply E; right; exact C].
Qed.

Lemma intern_all_nodup : forall ss it, NoDup it -> NoDup (intern_all it ss).
Proof. induction ss as [|s t IH]; intros it H; simpl; [exact H | apply IH, intern_nodup, H]. Qed.

(* every field name of the object is an identity handed out by the interner *)
Definition names_interned (it : interner) (o : obj) : Prop :=
  forall n v, In (n, v) o -> (N.to_nat n < length it)%nat.

Lemma nodup_nth_inj {A} (l : list A) i j x : NoDup l ->
  nth_error l i = Some x -> nth_error l j = Some x -> i = j.
Proof.
  intros H Hi Hj. apply (proj1 (NoDup_nth_error l) H); [apply nth_error_Some; congruence | congruence].
Qed.

(* lookup through the interner = comparing contents, when the object's names are
   interned and the interner holds no duplicate *)
Lemma lookup_is_ref : forall it o s, NoDup it -> names_interned it o ->
  lookup it o s = lookup_ref it o s.
Proof.
  intros it o s Hnd Hn. unfold lookup. destruct (get_interned it s) as [k|] eqn:E.
  - unfold get_interned in E. apply find_from_some in E. destruct E as [_ [Hk _]].
    rewrite N.sub_0_r in Hk.
    induction o as [|[n v] t IH]; simpl; [reflexivity|].
    assert (Hlt : (N.to_nat n < length it)%nat) by (apply (Hn n v); left; reflexivity).
    destruct (nth_error it (N.to_nat n)) as [x|] eqn:En; [|apply nth_error_None in En; lia].
    destruct (n =? k) eqn:Enk.
    + apply N.eqb_eq in Enk. subst. rewrite Hk in En. inversion En; subst. rewrite str_eqb_refl. reflexivity.
    + destruct (str_eqb x s) eqn:Ex.
      * apply str_eqb_eq in Ex. subst. exfalso. apply N.eqb_neq in Enk. apply Enk.
        apply N2Nat.inj. eapply nodup_nth_inj; eauto.
      * apply IH. intros n' v' Hin. apply (Hn n' v'). right; exact Hin.
  - unfold get_interned in E. apply find_from_none in E.
    induction o as [|[n v] t IH]; simpl; [reflexivity|].
    destruct (nth_error it (N.to_nat n)) as [x|] eqn:En.
    + destruct (str_eqb x s) eqn:Ex.
      * apply str_eqb_eq in Ex. subst. exfalso. apply E. eapply nth_error_In; eauto.
      * apply IH. intros n' v' Hin. apply (Hn n' v'). right; exact Hin.
    + apply IH. intros n' v' Hin. apply (Hn n' v'). right; exact Hin.
Qed.

Lemma lookup_ref_extends : forall it more o s, names_interned it o ->
  lookup_ref (it ++ more) o s = lookup_ref it o s.
Proof.
  intros it more o s Hn. induction o as [|[n v] t IH]; simpl; [reflexivity|].
  assert (Hlt : (N.to_nat n < length it)%nat) by (apply (Hn n v); left; reflexivity).
  rewrite nth_error_app1 by exact Hlt.
  rewrite IH; [reflexivity|]. intros n' v' Hin. apply (Hn n' v'). right; exact Hin.
Qed.

Lemma names_interned_extends it more o : names_interned it o -> names_interned (it ++ more) o.
Proof. intros H n v Hin. rewrite app_length. specialize (H n v Hin). lia. Qed.

(* intern_lookup_sound: on every interner reached from the empty one, a lookup by a
   computed string gives what comparing the field names' contents gives — in particular
   "unknown field" for a string nobody interned is correct — and the answer does not
   change however the interner grows afterwards *)
Theorem intern_lookup_sound : forall ss later o s,
  let it := intern_all [] ss in
  names_interned it o ->
  lookup it o s = lookup_ref it o s /\
  lookup (intern_all it later) o s = lookup it o s.
Proof.
  intros ss later o s it Hn.
  assert (Hnd : NoDup it) by (apply intern_all_nodup; constructor).
  split; [apply lookup_is_ref; assumption|].
  destruct (intern_all_extends later it) as [more Hm]. rewrite Hm.
  assert (Hnd' : NoDup (it ++ more)) by (rewrite <- Hm; apply intern_all_nodup; exact Hnd).
  rewrite (lookup_is_ref (it ++ more) o s Hnd' (names_interned_extends _ _ _ Hn)).
  rewrite lookup_ref_extends by exact Hn. symmetry. apply lookup_is_ref; assumption.
Qed.

Lemma never_interned_unknown : forall it o s, ~ In s it -> lookup it o s = None.
Proof.
  intros it o s H. unfold lookup.
  destruct (get_interned it s) as [k|] eqn:E; [|reflexivity].
  unfold get_interned in E. apply find_from_some in E. destruct E as [_ [Hk _]].
  exfalso. apply H. eapply nth_error_In; eauto.
Qed.

(* ------------------------------------------------------------------ *)
(* store accessors and frame lemmas *)

Definition cstate (s : store) (id : N) : option tstate := option_map st (nthN (cells s) id).
Definition cowner (s : store) (id : N) : option N := option_map owner (nthN (cells s) id).
Definition gcond (s : store) (g : N) : option (option N) := option_map cond (nthN (guards s) g).
Definition gchk (s : store) (g : N) : option bool := option_map checked (nthN (guards s) g).

Lemma guards_set_state s id t : guards (set_state s id t) = guards s.
Proof. unfold set_state. destruct (nthN (cells s) id); reflexivity. Qed.

Lemma cells_set_checked s g b : cells (set_checked s g b) = cells s.
Proof. unfold set_checked. destruct (nthN (guards s) g); reflexivity. Qed.

Lemma cstate_set_same s id t : cstate s id <> None -> cstate (set_state s id t) id = Some t.
Proof.
  unfold cstate, set_state. destruct (nthN (cells s) id) as [c|] eqn:E; [|simpl; congruence].
  intros _. simpl. erewrite nthN_setN_same by exact E. reflexivity.
Qed.

Lemma cstate_set_other s id id' t : id' <> id -> cstate (set_state s id t) id' = cstate s id'.
Proof.
  intros H. unfold cstate, set_state. destruct (nthN (cells s) id) as [c|] eqn:E; [|reflexivity].
  simpl. rewrite nthN_setN_other by congruence. reflexivity.
Qed.

Lemma cowner_set s id t id' : cowner (set_state s id t) id' = cowner s id'.
Proof.
  unfold cowner, set_state. destruct (nthN (cells s) id) as [c|] eqn:E; [|reflexivity]. simpl.
  destruct (N.eq_dec id' id) as [->|Hne].
  - erewrite nthN_setN_same by exact E. rewrite E. reflexivity.
  - rewrite nthN_setN_other by congruence. reflexivity.
Qed.

Lemma gcond_set_state s id t g : gcond (set_state s id t) g = gcond s g.
Proof. unfold gcond. rewrite guards_set_state. reflexivity. Qed.
Lemma gchk_set_state s id t g : gchk (set_state s id t) g = gchk s g.
Proof. unfold gchk. rewrite guards_set_state. reflexivity. Qed.
Lemma cstate_set_checked s g b id : cstate (set_checked s g b) id = cstate s id.
Proof. unfold cstate. rewrite cells_set_checked. reflexivity. Qed.
Lemma cowner_set_checked s g b id : cowner (set_checked s g b) id = cowner s id.
Proof. unfold cowner. rewrite cells_set_checked. reflexivity. Qed.

Lemma gcond_set_checked s g b g' : gcond (set_checked s g b) g' = gcond s g'.
Proof.
  unfold gcond, set_checked. destruct (nthN (guards s) g) as [gd|] eqn:E; [|reflexivity]. simpl.
  destruct (N.eq_dec g' g) as [->|Hne].
  - erewrite nthN_setN_same by exact E. rewrite E. reflexivity.
  - rewrite nthN_setN_other by congruence. reflexivity.
Qed.

Lemma gchk_set_checked_same s g b : gchk s g <> None -> gchk (set_checked s g b) g = Some b.
Proof.
  unfold gchk, set_checked. destruct (nthN (guards s) g) as [gd|] eqn:E; [|simpl; congruence].
  intros _. simpl. erewrite nthN_setN_same by exact E. reflexivity.
Qed.

Lemma gchk_set_checked_other s g b g' : g' <> g -> gchk (set_checked s g b) g' = gchk s g'.
Proof.
  intros H. unfold gchk, set_checked. destruct (nthN (guards s) g) as [gd|] eqn:E; [|reflexivity].
  simpl. rewrite nthN_setN_other by congruence. reflexivity.
Qed.

Lemma cstate_of s id c : nthN (cells s) id = Some c -> cstate s id = Some (st c).
Proof. intros H. unfold cstate. rewrite H. reflexivity. Qed.
Lemma cowner_of s id c : nthN (cells s) id = Some c -> cowner s id = Some (owner c).
Proof. intros H. unfold cowner. rewrite H. reflexivity. Qed.
Lemma cowner_none s id : nthN (cells s) id = None <-> cowner s id = None.
Proof. unfold cowner. destruct (nthN (cells s) id); simpl; split; congruence. Qed.
Lemma gcond_none s g : nthN (guards s) g = None <-> gcond s g = None.
Proof. unfold gcond. destruct (nthN (guards s) g); simpl; split; congruence. Qed.

(* ------------------------------------------------------------------ *)
(* the meaning of a store: memo-free, limit-free evaluation relative to a base store *)

Inductive task := TE (e : expr) | TC (id : N).

Definition not_ok (r : result) : Prop := match r with Ok _ => False | _ => True end.

Section Meaning.
  Variable s0 : store.

  Definition guard_ok (g : N) : Prop :=
    exists gd, nthN (guards s0) g = Some gd /\ (checked gd = true \/ cond gd = None).

  (* successful evaluation, with the height of its derivation *)
  Inductive Val : nat -> task -> N -> Prop :=
  | V_const n : Val 0 (TE (EConst n)) n
  | V_add h1 h2 a b x y : Val h1 (TE a) x -> Val h2 (TE b) y -> Val (S (max h1 h2)) (TE (EAdd a b)) (x + y)
  | V_force h id c v : nthN (cells s0) id = Some c -> guard_ok (owner c) -> Val h (TC id) v ->
      Val (S h) (TE (EForce id)) v
  | V_done id c v : nthN (cells s0) id = Some c -> st c = Done v -> Val 0 (TC id) v
  | V_pend h id c b v : nthN (cells s0) id = Some c -> st c = Pending b -> Val h (TE b) v ->
      Val (S h) (TC id) v.

  (* the cells a successful evaluation goes through *)
  Inductive Needs : task -> N -> Prop :=
  | N_addl a b j : Needs (TE a) j -> Needs (TE (EAdd a b)) j
  | N_addr a b j : Needs (TE b) j -> Needs (TE (EAdd a b)) j
  | N_force id j : Needs (TC id) j -> Needs (TE (EForce id)) j
  | N_self id : Needs (TC id) id
  | N_pend id c b j : nthN (cells s0) id = Some c -> st c = Pending b -> Needs (TE b) j -> Needs (TC id) j.

  Ltac same_cell :=
    repeat match goal with
    | H1 : nthN ?l ?i = Some _, H2 : nthN ?l ?i = Some _ |- _ => rewrite H1 in H2; inversion H2; subst; clear H2
    | H1 : nthN ?l ?i = Some _, H2 : nthN ?l ?i = None |- _ => rewrite H1 in H2; discriminate H2
    | H1 : st ?c = _, H2 : st ?c = _ |- _ => rewrite H1 in H2; inversion H2; subst; clear H2
    end.

  Lemma Val_det : forall h t v, Val h t v -> forall h' v', Val h' t v' -> h = h' /\ v = v'.
  Proof.
    induction 1; intros h' v' H'; inversion H'; subst; clear H'; same_cell;
      repeat match goal with
      | IH : forall h' v', Val h' ?t v' -> _, H : Val _ ?t _ |- _ =>
          destruct (IH _ _ H) as [? ?]; subst; clear IH
      end; try (split; reflexivity).
  Qed.

  Lemma Needs_height : forall h t v, Val h t v -> forall j, Needs t j ->
    exists h' v', (h' <= h)%nat /\ Val h' (TC j) v'.
  Proof.
    induction 1; intros j HN; inversion HN; subst; clear HN; same_cell;
      try match goal with
      | IH : forall j, Needs ?t j -> _, H : Needs ?t _ |- _ =>
          destruct (IH _ H) as [h' [v' [Hle Hv]]]; exists h', v'; split; [lia | exact Hv]
      end.
    - exists 0%nat, v. split; [lia | econstructor; eassumption].
    - exists (S h), v. split; [lia | econstructor; eassumption].
  Qed.

  Lemma body_not_needs_self : forall h id c b v, nthN (cells s0) id = Some c -> st c = Pending b ->
    Val h (TE b) v -> ~ Needs (TE b) id.
  Proof.
    intros h id c b v Hc Hs Hv HN.
    destruct (Needs_height _ _ _ Hv _ HN) as [h' [v' [Hle Hv']]].
    assert (Hv2 : Val (S h) (TC id) v) by (eapply V_pend; eassumption).
    destruct (Val_det _ _ _ Hv2 _ _ Hv') as [Heq _]. lia.
  Qed.

  (* evaluation with a path of cells under evaluation: every outcome but StackOverflow *)
  Inductive Den : list N -> task -> result -> Prop :=
  | D_const P n : Den P (TE (EConst n)) (Ok n)
  | D_fail P m : Den P (TE (EFail m)) (Err (EUser m))
  | D_add_ok P a b x y : Den P (TE a) (Ok x) -> Den P (TE b) (Ok y) -> Den P (TE (EAdd a b)) (Ok (x + y))
  | D_add_l P a b r : Den P (TE a) r -> not_ok r -> Den P (TE (EAdd a b)) r
  | D_add_r P a b x r : Den P (TE a) (Ok x) -> Den P (TE b) r -> not_ok r -> Den P (TE (EAdd a b)) r
  | D_force_nocell P id : nthN (cells s0) id = None ->
      Den P (TE (EForce id)) (Panic "ThunkMachine:force:no such cell")
  | D_force_noguard P id c : nthN (cells s0) id = Some c -> nthN (guards s0) (owner c) = None ->
      Den P (TE (EForce id)) (Panic "ThunkMachine:force:no such object")
  | D_force_assert P id c gd m : nthN (cells s0) id = Some c -> nthN (guards s0) (owner c) = Some gd ->
      checked gd = false -> cond gd = Some m -> Den P (TE (EForce id)) (Err (EAssert m))
  | D_force P id c r : nthN (cells s0) id = Some c -> guard_ok (owner c) -> Den P (TC id) r ->
      Den P (TE (EForce id)) r
  | D_nocell P id : nthN (cells s0) id = None -> Den P (TC id) (Panic "ThunkMachine:do_thunk:no such cell")
  | D_done P id c v : nthN (cells s0) id = Some c -> st c = Done v -> Den P (TC id) (Ok v)
  | D_inprog P id c : nthN (cells s0) id = Some c -> st c = InProgress -> Den P (TC id) (Err EInfRec)
  | D_cycle P id c b : nthN (cells s0) id = Some c -> st c = Pending b -> In id P -> Den P (TC id) (Err EInfRec)
  | D_pend P id c b r : nthN (cells s0) id = Some c -> st c = Pending b -> ~ In id P ->
      Den (id :: P) (TE b) r -> Den P (TC id) r.

  Lemma guard_ok_excl : forall g gd m, guard_ok g -> nthN (guards s0) g = Some gd ->
    checked gd = false -> cond gd = Some m -> False.
  Proof. intros g gd m [gd' [H1 [H2|H2]]] H3 H4 H5; rewrite H1 in H3; inversion H3; subst; congruence. Qed.

  Lemma Den_det : forall P t r, Den P t r -> forall r', Den P t r' -> r = r'.
  Proof.
    induction 1; intros r' H'; inversion H'; subst; clear H'; same_cell;
      try reflexivity; try contradiction;
      try (exfalso; eapply guard_ok_excl; eassumption);
      try (match goal with H : guard_ok _ |- _ => destruct H as [gd' [Hg' _]]; congruence end);
      repeat match goal with
      | IH : forall r', Den ?P ?t r' -> _ = r', H : Den ?P ?t _ |- _ =>
          let E := fresh "E" in pose proof (IH _ H) as E; clear IH;
          try (inversion E; subst); try (subst)
      end; try reflexivity; try (simpl in *; contradiction); try congruence.
  Qed.

  Lemma Den_ok_Val : forall P t r, Den P t r -> forall v, r = Ok v -> exists h, Val h t v.
  Proof.
    induction 1; intros v0 E; try discriminate E; subst;
      try (simpl in *; contradiction).
    - inversion E; subst. exists 0%nat. constructor.
    - inversion E; subst. destruct (IHDen1 _ eq_refl) as [h1 H1]. destruct (IHDen2 _ eq_refl) as [h2 H2].
      eexists. econstructor; eassumption.
    - destruct (IHDen _ eq_refl) as [h Hh]. eexists. econstructor; eassumption.
    - inversion E; subst. exists 0%nat. econstructor; eassumption.
    - destruct (IHDen _ eq_refl) as [h Hh]. eexists. eapply V_pend; eassumption.
  Qed.

  Lemma Val_Den : forall h t v, Val h t v -> forall P, (forall j, Needs t j -> ~ In j P) -> Den P t (Ok v).
  Proof.
    induction 1; intros P HP.
    - constructor.
    - apply D_add_ok; [apply IHVal1 | apply IHVal2]; intros j Hj; apply HP; [apply N_addl | apply N_addr]; exact Hj.
    - eapply D_force; [eassumption | assumption |]. apply IHVal. intros j Hj. apply HP. apply N_force. exact Hj.
    - eapply D_done; eassumption.
    - eapply D_pend; [eassumption | eassumption | apply HP; apply N_self |].
      apply IHVal. intros j Hj [Hin|Hin].
      + subst j. eapply body_not_needs_self; eassumption.
      + eapply HP; [eapply N_pend; eassumption | exact Hin].
  Qed.
End Meaning.

(* ------------------------------------------------------------------ *)
(* the machine against the meaning of the base store *)

Section Sim.
  Variable s0 : store.
  Variable restore : bool.

  Definition is_done (s : store) (j : N) : Prop := exists w, cstate s j = Some (Done w).

  Definition DoneMono (s s' : store) : Prop :=
    forall j w, cstate s j = Some (Done w) -> cstate s' j = Some (Done w).

  Lemma DoneMono_refl s : DoneMono s s.
  Proof. intros j w H; exact H. Qed.
  Lemma DoneMono_trans a b c : DoneMono a b -> DoneMono b c -> DoneMono a c.
  Proof. intros H1 H2 j w H. apply H2, H1, H. Qed.
  Lemma is_done_mono s s' j : DoneMono s s' -> is_done s j -> is_done s' j.
  Proof. intros H [w Hw]. exists w. apply H, Hw. Qed.

  (* a store reached from [s0] by the machine, while the cells of [P] are under evaluation *)
  Record Inv (P : list N) (s : store) : Prop := {
    inv_owner : forall id, cowner s id = cowner s0 id;
    inv_cond : forall g, gcond s g = gcond s0 g;
    inv_cell : forall id,
        cstate s id = cstate s0 id
        \/ (exists b, cstate s0 id = Some (Pending b) /\ cstate s id = Some InProgress /\ In id P)
        \/ (exists b v h, cstate s0 id = Some (Pending b) /\ cstate s id = Some (Done v) /\
              Val s0 h (TC id) v /\ forall j, Needs s0 (TC id) j -> is_done s j);
    inv_path : forall id, In id P ->
        cstate s id = Some InProgress /\ exists b, cstate s0 id = Some (Pending b);
    inv_guard : forall g, gchk s g = gchk s0 g \/ (gcond s0 g = Some None /\ gchk s g = Some true)
  }.

  Lemma Inv_base : Inv [] s0.
  Proof. constructor; intros; auto. destruct H. Qed.

  Lemma pending_is_base P s id b : Inv P s -> cstate s id = Some (Pending b) ->
    cstate s0 id = Some (Pending b) /\ ~ In id P.
  Proof.
    intros HI Hs. split.
    - destruct (inv_cell _ _ HI id) as [H|[[b' [_ [H _]]]|[b' [v [h [_ [H _]]]]]]]; congruence.
    - intros Hin. destruct (inv_path _ _ HI id Hin) as [H _]. congruence.
  Qed.

  Lemma Inv_start P s id b : Inv P s -> cstate s id = Some (Pending b) ->
    Inv (id :: P) (set_state s id InProgress).
  Proof.
    intros HI Hs. destruct (pending_is_base _ _ _ _ HI Hs) as [H0 HnP].
    assert (Hne : cstate s id <> None) by congruence.
    assert (Hd : forall j, is_done s j -> is_done (set_state s id InProgress) j).
    { intros j [w Hw]. exists w. rewrite cstate_set_other; [exact Hw | congruence]. }
    constructor.
    - intros id'. rewrite cowner_set. apply (inv_owner _ _ HI).
    - intros g. rewrite gcond_set_state. apply (inv_cond _ _ HI).
    - intros id'. destruct (N.eq_dec id' id) as [->|Hneq].
      + right; left. exists b. rewrite cstate_set_same by exact Hne. repeat split; auto. left; reflexivity.
      + rewrite cstate_set_other by exact Hneq.
        destruct (inv_cell _ _ HI id') as [H|[[b' [H1 [H2 H3]]]|[b' [v [h [H1 [H2 [H3 H4]]]]]]]].
        * left; exact H.
        * right; left. exists b'. repeat split; auto. right; exact H3.
        * right; right. exists b', v, h. repeat split; auto.
    - intros id' [<-|Hin].
      + rewrite cstate_set_same by exact Hne. split; [reflexivity | exists b; exact H0].
      + destruct (inv_path _ _ HI id' Hin) as [H1 H2].
        rewrite cstate_set_other; [split; assumption | congruence].
    - intros g. rewrite gchk_set_state. apply (inv_guard _ _ HI).
  Qed.

  Lemma Inv_finish P s id b v h : Inv (id :: P) s -> ~ In id P ->
    cstate s0 id = Some (Pending b) -> Val s0 h (TE b) v ->
    (forall j, Needs s0 (TE b) j -> is_done s j) ->
    Inv P (set_state s id (Done v)).
  Proof.
    intros HI HnP H0 Hv Hcl.
    destruct (inv_path _ _ HI id (or_introl eq_refl)) as [Hip _].
    assert (Hne : cstate s id <> None) by congruence.
    assert (Hd : forall j, is_done s j -> is_done (set_state s id (Done v)) j).
    { intros j [w Hw]. exists w. rewrite cstate_set_other; [exact Hw | congruence]. }
    assert (Hself : is_done (set_state s id (Done v)) id).
    { exists v. apply cstate_set_same; exact Hne. }
    unfold cstate in H0. destruct (nthN (cells s0) id) as [c0|] eqn:Ec0; [|discriminate].
    simpl in H0. inversion H0 as [Hst0].
    constructor.
    - intros id'. rewrite cowner_set. apply (inv_owner _ _ HI).
    - intros g. rewrite gcond_set_state. apply (inv_cond _ _ HI).
    - intros id'. destruct (N.eq_dec id' id) as [->|Hneq].
      + right; right. exists b, v, (S h). rewrite cstate_set_same by exact Hne.
        split; [unfold cstate; rewrite Ec0; simpl; congruence|]. split; [reflexivity|]. split.
        * eapply V_pend; eassumption.
        * intros j HN. inversion HN; subst; [exact Hself|].
          rewrite Ec0 in H1. inversion H1; subst. rewrite Hst0 in H2. inversion H2; subst.
          apply Hd, Hcl. assumption.
      + rewrite cstate_set_other by exact Hneq.
        destruct (inv_cell _ _ HI id') as [H|[[b' [H1 [H2 H3]]]|[b' [v' [h' [H1 [H2 [H3 H4]]]]]]]].
        * left; exact H.
        * right; left. exists b'. repeat split; auto. destruct H3 as [H3|H3]; [congruence | exact H3].
        * right; right. exists b', v', h'. repeat split; auto.
    - intros id' Hin. destruct (inv_path _ _ HI id' (or_intror Hin)) as [H1 H2].
      rewrite cstate_set_other; [split; assumption | intros ->; contradiction].
    - intros g. rewrite gchk_set_state. apply (inv_guard _ _ HI).
  Qed.

  Lemma Inv_restore P s id b : Inv (id :: P) s -> ~ In id P ->
    cstate s0 id = Some (Pending b) -> Inv P (set_state s id (Pending b)).
  Proof.
    intros HI HnP H0.
    destruct (inv_path _ _ HI id (or_introl eq_refl)) as [Hip _].
    assert (Hne : cstate s id <> None) by congruence.
    assert (Hd : forall j, is_done s j -> is_done (set_state s id (Pending b)) j).
    { intros j [w Hw]. exists w. rewrite cstate_set_other; [exact Hw | congruence]. }
    constructor.
    - intros id'. rewrite cowner_set. apply (inv_owner _ _ HI).
    - intros g. rewrite gcond_set_state. apply (inv_cond _ _ HI).
    - intros id'. destruct (N.eq_dec id' id) as [->|Hneq].
      + left. rewrite cstate_set_same by exact Hne. congruence.
      + rewrite cstate_set_other by exact Hneq.
        destruct (inv_cell _ _ HI id') as [H|[[b' [H1 [H2 H3]]]|[b' [v' [h' [H1 [H2 [H3 H4]]]]]]]].
        * left; exact H.
        * right; left. exists b'. repeat split; auto. destruct H3 as [H3|H3]; [congruence | exact H3].
        * right; right. exists b', v', h'. repeat split; auto.
    - intros id' Hin. destruct (inv_path _ _ HI id' (or_intror Hin)) as [H1 H2].
      rewrite cstate_set_other; [split; assumption | intros ->; contradiction].
    - intros g. rewrite gchk_set_state. apply (inv_guard _ _ HI).
  Qed.

  Lemma Inv_same_cells P s s' : Inv P s -> cells s' = cells s ->
    (forall g, gcond s' g = gcond s g) ->
    (forall g, gchk s' g = gchk s0 g \/ (gcond s0 g = Some None /\ gchk s' g = Some true)) ->
    Inv P s'.
  Proof.
    intros HI Hc Hg Hk.
    assert (Hcs : forall id, cstate s' id = cstate s id) by (intros; unfold cstate; rewrite Hc; reflexivity).
    constructor.
    - intros id. unfold cowner. rewrite Hc. apply (inv_owner _ _ HI).
    - intros g. rewrite Hg. apply (inv_cond _ _ HI).
    - intros id. rewrite Hcs.
      destruct (inv_cell _ _ HI id) as [H|[H|[b' [v' [h' [H1 [H2 [H3 H4]]]]]]]]; auto.
      right; right. exists b', v', h'. repeat split; auto.
      intros j HN. destruct (H4 j HN) as [w Hw]. exists w. rewrite Hcs. exact Hw.
    - intros id Hin. rewrite Hcs. apply (inv_path _ _ HI id Hin).
    - exact Hk.
  Qed.

  Lemma Inv_set_checked P s g b : Inv P s -> gchk s g <> None ->
    (gchk s0 g = Some b \/ (gcond s0 g = Some None /\ b = true)) ->
    Inv P (set_checked s g b).
  Proof.
    intros HI Hne Hb. constructor.
    - intros id. rewrite cowner_set_checked. apply (inv_owner _ _ HI).
    - intros g'. rewrite gcond_set_checked. apply (inv_cond _ _ HI).
    - intros id. rewrite cstate_set_checked.
      destruct (inv_cell _ _ HI id) as [H|[H|[b' [v' [h' [H1 [H2 [H3 H4]]]]]]]]; auto.
      right; right. exists b', v', h'. repeat split; auto.
      intros j HN. destruct (H4 j HN) as [w Hw]. exists w. rewrite cstate_set_checked. exact Hw.
    - intros id Hin. rewrite cstate_set_checked. apply (inv_path _ _ HI id Hin).
    - intros g'. destruct (N.eq_dec g' g) as [->|Hneq].
      + rewrite gchk_set_checked_same by exact Hne.
        destruct Hb as [Hb|[Hb ->]]; [left; congruence | right; split; [exact Hb | reflexivity]].
      + rewrite gchk_set_checked_other by exact Hneq. apply (inv_guard _ _ HI).
  Qed.

  Lemma DoneMono_set_checked s g b : DoneMono s (set_checked s g b).
  Proof. intros j w H. rewrite cstate_set_checked. exact H. Qed.

  (* check_object_asserts *)
  Lemma check_guard_spec P s g s1 o : Inv P s -> check_guard restore s g = (s1, o) ->
    DoneMono s s1 /\
    match o with
    | None => Inv P s1 /\ guard_ok s0 g
    | Some e => (restore = true -> Inv P s1) /\
        ((nthN (guards s0) g = None /\ e = Panic "ThunkMachine:force:no such object") \/
         (exists gd m, nthN (guards s0) g = Some gd /\ checked gd = false /\ cond gd = Some m /\
                       e = Err (EAssert m)))
    end.
  Proof.
    intros HI H. unfold check_guard in H.
    pose proof (inv_cond _ _ HI g) as Hc. pose proof (inv_guard _ _ HI g) as Hg.
    unfold gcond, gchk in Hc, Hg.
    destruct (nthN (guards s) g) as [gd|] eqn:E.
    - destruct (nthN (guards s0) g) as [gd0|] eqn:E0; simpl in Hc, Hg; [|discriminate].
      inversion Hc as [Hcond]. clear Hc.
      assert (Hne : gchk s g <> None) by (unfold gchk; rewrite E; simpl; congruence).
      destruct (checked gd) eqn:Ek.
      + inversion H; subst. split; [apply DoneMono_refl|]. split; [exact HI|].
        exists gd0. split; [exact E0|].
        destruct Hg as [Hg|[Hg _]]; [left; congruence | right; congruence].
      + assert (Hk0 : checked gd0 = false) by (destruct Hg as [Hg|[_ Hg]]; congruence).
        destruct (cond gd) as [m|] eqn:Em.
        * inversion H; subst. split.
          { destruct restore; [|apply DoneMono_set_checked].
            eapply DoneMono_trans; apply DoneMono_set_checked. }
          split.
          { intros ->. apply (Inv_same_cells P s); [exact HI | | |].
            - rewrite !cells_set_checked. reflexivity.
            - intros g'. rewrite !gcond_set_checked. reflexivity.
            - intros g'. destruct (N.eq_dec g' g) as [->|Hneq].
              + left. rewrite gchk_set_checked_same.
                * unfold gchk. rewrite E0. simpl. congruence.
                * rewrite gchk_set_checked_same by exact Hne. congruence.
              + rewrite !gchk_set_checked_other by exact Hneq. apply (inv_guard _ _ HI). }
          right. exists gd0, m. repeat split; congruence.
        * inversion H; subst. split; [apply DoneMono_set_checked|]. split.
          { apply Inv_set_checked; [exact HI | exact Hne |]. right. split; [|reflexivity].
            unfold gcond. rewrite E0. simpl. congruence. }
          exists gd0. split; [exact E0 | right; congruence].
    - inversion H; subst. split; [apply DoneMono_refl|]. split; [intros _; exact HI|].
      left. split; [|reflexivity]. destruct (nthN (guards s0) g); [discriminate | reflexivity].
  Qed.

  Definition spec_out (P : list N) (t : task) (s s' : store) (r : result) : Prop :=
    DoneMono s s' /\
    ((restore = true \/ exists v, r = Ok v) -> Inv P s') /\
    (r = Err EOverflow \/ Den s0 P t r) /\
    (forall v, r = Ok v -> forall j, Needs s0 t j -> is_done s' j).

  Definition ev_spec (ev : store -> expr -> store * result) : Prop :=
    forall P e s s' r, Inv P s -> ev s e = (s', r) -> spec_out P (TE e) s s' r.
  Definition frc_spec (frc : store -> N -> store * result) : Prop :=
    forall P id s s' r, Inv P s -> frc s id = (s', r) -> spec_out P (TE (EForce id)) s s' r.

  Lemma spec_out_same P t s r : Inv P s -> (r = Err EOverflow \/ Den s0 P t r) -> not_ok r ->
    spec_out P t s s r.
  Proof.
    intros HI HD Hn. split; [apply DoneMono_refl|]. split; [intros _; exact HI|]. split; [exact HD|].
    intros v ->. simpl in Hn. contradiction.
  Qed.

  Lemma eval_with_spec frc gas : frc_spec frc -> ev_spec (eval_with frc gas).
  Proof.
    intros Hf P e. revert P. induction e as [n|m|id|a IHa b IHb]; intros P s s' r HI H; simpl in H.
    - inversion H; subst. split; [apply DoneMono_refl|]. split; [intros _; exact HI|].
      split; [right; constructor|]. intros v _ j HN. inversion HN.
    - destruct gas; inversion H; subst; apply spec_out_same; simpl; auto. right; constructor.
    - eapply Hf; eassumption.
    - destruct (eval_with frc gas s a) as [s1 ra] eqn:Ea.
      destruct (IHa P s s1 ra HI Ea) as [Hm1 [Hi1 [Hd1 Hn1]]].
      destruct ra as [x| | |].
      2-4: inversion H; subst; (split; [exact Hm1|]); (split; [exact Hi1|]);
           (split; [destruct Hd1 as [Hd1|Hd1]; [left; exact Hd1 | right; apply D_add_l; [exact Hd1 | exact I]]|]);
           intros v Hv; discriminate Hv.
      assert (HI1 : Inv P s1) by (apply Hi1; right; eexists; reflexivity).
      destruct Hd1 as [Hd1|Hd1]; [discriminate Hd1|].
      destruct (eval_with frc gas s1 b) as [s2 rb] eqn:Eb.
      destruct (IHb P s1 s2 rb HI1 Eb) as [Hm2 [Hi2 [Hd2 Hn2]]].
      destruct rb as [y| | |].
      2-4: inversion H; subst; (split; [eapply DoneMono_trans; eassumption|]); (split; [exact Hi2|]);
           (split; [destruct Hd2 as [Hd2|Hd2]; [left; exact Hd2 | right; eapply D_add_r; [exact Hd1 | exact Hd2 | exact I]]|]);
           intros v Hv; discriminate Hv.
      inversion H; subst. split; [eapply DoneMono_trans; eassumption|].
      split; [intros _; apply Hi2; right; eexists; reflexivity|].
      destruct Hd2 as [Hd2|Hd2]; [discriminate Hd2|].
      split; [right; apply D_add_ok; assumption|].
      intros v _ j HN. inversion HN; subst.
      + eapply is_done_mono; [exact Hm2 | eapply Hn1; [reflexivity | assumption]].
      + eapply Hn2; [reflexivity | assumption].
  Qed.

  Lemma base_state P s id c : Inv P s -> nthN (cells s) id = Some c ->
    exists c0, nthN (cells s0) id = Some c0 /\ owner c0 = owner c.
  Proof.
    intros HI Hc. pose proof (inv_owner _ _ HI id) as H. unfold cowner in H. rewrite Hc in H. simpl in H.
    destruct (nthN (cells s0) id) as [c0|]; simpl in H; [|discriminate].
    exists c0. split; [reflexivity | congruence].
  Qed.

  Lemma do_thunk_spec ev : ev_spec ev -> forall P id s s' r, Inv P s ->
    do_thunk restore ev s id = (s', r) ->
    spec_out P (TC id) s s' r /\ (forall v, r = Ok v -> cstate s' id = Some (Done v)).
  Proof.
    intros Hev P id s s' r HI H. unfold do_thunk in H.
    destruct (nthN (cells s) id) as [c|] eqn:Ec.
    2:{ inversion H; subst. split; [|intros v Hv; discriminate Hv].
        apply spec_out_same; simpl; auto. right. apply D_nocell.
        apply cowner_none. rewrite <- (inv_owner _ _ HI). apply cowner_none. exact Ec. }
    pose proof (cstate_of _ _ _ Ec) as Hcs.
    destruct (base_state _ _ _ _ HI Ec) as [c0 [Ec0 _]].
    pose proof (cstate_of _ _ _ Ec0) as Hcs0.
    destruct (st c) as [b| |v] eqn:Est.
    - (* Pending *)
      destruct (pending_is_base _ _ _ _ HI Hcs) as [H0 HnP].
      assert (Hst0 : st c0 = Pending b) by congruence.
      pose proof (Inv_start _ _ _ _ HI Hcs) as HI1.
      destruct (ev (set_state s id InProgress) b) as [s2 rb] eqn:Eev.
      destruct (Hev (id :: P) b _ s2 rb HI1 Eev) as [Hm [Hi [Hd Hn]]].
      assert (Hm0 : DoneMono s (set_state s id InProgress)).
      { intros j w Hj. rewrite cstate_set_other; [exact Hj | congruence]. }
      destruct (inv_path _ _ HI1 id (or_introl eq_refl)) as [_ _].
      destruct rb as [v| | |].
      2-4: inversion H; subst; (split; [|intros v Hv; discriminate Hv]); split;
           [ destruct restore;
             [ eapply DoneMono_trans; [exact Hm0|]; eapply DoneMono_trans; [exact Hm|];
               intros j w Hj; rewrite cstate_set_other; [exact Hj|];
               assert (HI2 : Inv (id :: P) s2) by (apply Hi; left; reflexivity);
               destruct (inv_path _ _ HI2 id (or_introl eq_refl)) as [Hp _]; congruence
             | eapply DoneMono_trans; eassumption ]
           | split;
             [ intros [Hr|[v Hv]]; [|discriminate Hv]; rewrite Hr; apply Inv_restore;
               [apply Hi; left; exact Hr | exact HnP | exact H0]
             | split;
               [ destruct Hd as [Hd|Hd]; [left; exact Hd | right; eapply D_pend; eassumption]
               | intros v Hv; discriminate Hv ] ] ].
      assert (HI2 : Inv (id :: P) s2) by (apply Hi; right; eexists; reflexivity).
      destruct Hd as [Hd|Hd]; [discriminate Hd|].
      destruct (Den_ok_Val _ _ _ _ Hd v eq_refl) as [h Hv].
      destruct (inv_path _ _ HI2 id (or_introl eq_refl)) as [Hp _].
      assert (Hne : cstate s2 id <> None) by congruence.
      inversion H; subst. split.
      + split.
        { eapply DoneMono_trans; [exact Hm0|]. eapply DoneMono_trans; [exact Hm|].
          intros j w Hj. rewrite cstate_set_other; [exact Hj | congruence]. }
        split.
        { intros _. eapply Inv_finish; try eassumption. intros j HN. eapply Hn; [reflexivity | exact HN]. }
        split; [right; eapply D_pend; eassumption|].
        intros v' _ j HN. inversion HN; subst.
        * exists v. apply cstate_set_same; exact Hne.
        * rewrite Ec0 in H2. inversion H2; subst. rewrite Hst0 in H3. inversion H3; subst.
          destruct (Hn v eq_refl j H4) as [w Hw]. exists w.
          rewrite cstate_set_other; [exact Hw | congruence].
      + intros v' Hv'. inversion Hv'; subst. apply cstate_set_same; exact Hne.
    - (* InProgress *)
      inversion H; subst. split; [|intros v Hv; discriminate Hv].
      apply spec_out_same; simpl; auto. right.
      destruct (inv_cell _ _ HI id) as [Hc|[[b [H1 [H2 H3]]]|[b [v [h [H1 [H2 _]]]]]]].
      + eapply D_inprog; [exact Ec0|]. rewrite Hcs, Hcs0 in Hc. congruence.
      + eapply D_cycle with (b := b); [exact Ec0 | congruence | exact H3].
      + congruence.
    - (* Done *)
      inversion H; subst. split; [|intros v' Hv'; inversion Hv'; subst; exact Hcs].
      split; [apply DoneMono_refl|]. split; [intros _; exact HI|].
      destruct (inv_cell _ _ HI id) as [Hc|[[b [H1 [H2 H3]]]|[b [v' [h [H1 [H2 [H3 H4]]]]]]]].
      + split.
        * right. eapply D_done; [exact Ec0|]. rewrite Hcs, Hcs0 in Hc. congruence.
        * intros v' _ j HN. inversion HN; subst; [exists v; exact Hcs|].
          rewrite Ec0 in H1. inversion H1; subst. rewrite Hcs, Hcs0 in Hc. congruence.
      + congruence.
      + assert (v' = v) by congruence. subst v'. split.
        * right. eapply Val_Den; [exact H3|]. intros j HN Hin.
          destruct (H4 j HN) as [w Hw]. destruct (inv_path _ _ HI j Hin) as [Hp _]. congruence.
        * intros v' _ j HN. apply H4. exact HN.
  Qed.

  Lemma force_spec : forall gas, frc_spec (force restore gas).
  Proof.
    induction gas as [|g IH]; intros P id s s' r HI H; simpl in H.
    - inversion H; subst. apply spec_out_same; simpl; auto.
    - destruct (nthN (cells s) id) as [c|] eqn:Ec.
      2:{ inversion H; subst. apply spec_out_same; simpl; auto. right. apply D_force_nocell.
          apply cowner_none. rewrite <- (inv_owner _ _ HI). apply cowner_none. exact Ec. }
      destruct (base_state _ _ _ _ HI Ec) as [c0 [Ec0 Hown]].
      destruct (check_guard restore s (owner c)) as [s1 o] eqn:Eg.
      destruct (check_guard_spec _ _ _ _ _ HI Eg) as [Hm1 Ho].
      destruct o as [e|].
      + destruct Ho as [Hi1 Hwhy]. inversion H; subst.
        split; [exact Hm1|]. split.
        { intros [Hr|[v Hv]]; [apply Hi1; exact Hr|].
          destruct Hwhy as [[_ He]|[gd [m [_ [_ [_ He]]]]]]; rewrite He in Hv; discriminate Hv. }
        split.
        { right. destruct Hwhy as [[Hng ->]|[gd [m [Hg [Hk [Hc ->]]]]]].
          - eapply D_force_noguard; [exact Ec0 | rewrite Hown; exact Hng].
          - eapply D_force_assert; [exact Ec0 | rewrite Hown; exact Hg | exact Hk | exact Hc]. }
        intros v Hv. destruct Hwhy as [[_ He]|[gd [m [_ [_ [_ He]]]]]]; rewrite He in Hv; discriminate Hv.
      + destruct Ho as [HI1 Hok].
        pose proof (eval_with_spec _ g IH) as Hev.
        destruct (do_thunk_spec _ Hev P id s1 s' r HI1 H) as [[Hm [Hi [Hd Hn]]] Hdone].
        split; [eapply DoneMono_trans; eassumption|]. split; [exact Hi|]. split.
        { destruct Hd as [Hd|Hd]; [left; exact Hd | right].
          eapply D_force; [exact Ec0 | rewrite Hown; exact Hok | exact Hd]. }
        intros v Hv j HN. inversion HN; subst. eapply Hn; [reflexivity | assumption].
  Qed.
End Sim.

(* ------------------------------------------------------------------ *)
(* requests and request sequences *)

Definition agree (a b : resp) : Prop := a = b \/ is_overflow a = true \/ is_overflow b = true.

Section Requests.
  Variable s0 : store.
  Variable restore : bool.

  Definition den_resp (r : req) (o : resp) : Prop :=
    match r with
    | Eval _ id => exists res, Den s0 [] (TC id) res /\ o = resp_of false res
    | Manifest _ id => exists res, Den s0 [] (TC id) res /\ o = resp_of true res
    | Gc => o = RGc
    end.

  Lemma den_resp_det r o o' : den_resp r o -> den_resp r o' -> o = o'.
  Proof.
    destruct r; simpl.
    - intros [x [Hx ->]] [y [Hy ->]]. rewrite (Den_det _ _ _ _ Hx _ Hy). reflexivity.
    - intros [x [Hx ->]] [y [Hy ->]]. rewrite (Den_det _ _ _ _ Hx _ Hy). reflexivity.
    - congruence.
  Qed.

  Lemma resp_of_overflow t : is_overflow (resp_of t (Err EOverflow)) = true.
  Proof. reflexivity. Qed.

  Lemma resp_of_fail t res : is_fail (resp_of t res) = false -> exists v, res = Ok v.
  Proof. destruct res; simpl; try discriminate. intros _. eexists; reflexivity. Qed.

  Lemma run_req_spec s r s' o : Inv s0 [] s -> run_req restore s r = (s', o) ->
    ((restore = true \/ is_fail o = false) -> Inv s0 [] s') /\
    (is_overflow o = true \/ den_resp r o).
  Proof.
    intros HI H.
    assert (Hev : forall limit, ev_spec s0 restore (eval restore limit)).
    { intros limit. apply eval_with_spec. apply force_spec. }
    destruct r as [limit id|limit id|]; simpl in H.
    - destruct (do_thunk restore (eval restore limit) s id) as [s1 res] eqn:E. inversion H; subst.
      destruct (do_thunk_spec s0 restore _ (Hev limit) [] id s s' res HI E) as [[_ [Hi [Hd _]]] _].
      split.
      + intros [Hr|Hf]; apply Hi; [left; exact Hr | right; apply (resp_of_fail false); exact Hf].
      + destruct Hd as [->|Hd]; [left; reflexivity | right; exists res; split; [exact Hd | reflexivity]].
    - destruct (do_thunk restore (eval restore limit) s id) as [s1 res] eqn:E. inversion H; subst.
      destruct (do_thunk_spec s0 restore _ (Hev limit) [] id s s' res HI E) as [[_ [Hi [Hd _]]] _].
      split.
      + intros [Hr|Hf]; apply Hi; [left; exact Hr | right; apply (resp_of_fail true); exact Hf].
      + destruct Hd as [->|Hd]; [left; reflexivity | right; exists res; split; [exact Hd | reflexivity]].
    - inversion H; subst. split; [intros _; exact HI | right; reflexivity].
  Qed.

  Lemma run_fresh_spec r : is_overflow (run_fresh restore s0 r) = true \/ den_resp r (run_fresh restore s0 r).
  Proof.
    unfold run_fresh. destruct (run_req restore s0 r) as [s' o] eqn:E. simpl.
    exact (proj2 (run_req_spec _ _ _ _ (Inv_base s0) E)).
  Qed.

  Lemma shared_vs_fresh : forall rs s, Inv s0 [] s ->
    (restore = true \/ Forall (fun o => is_fail o = false) (run_shared restore s rs)) ->
    Forall2 agree (run_shared restore s rs) (map (run_fresh restore s0) rs).
  Proof.
    induction rs as [|r rest IH]; intros s HI Hok; simpl; [constructor|].
    simpl in Hok. destruct (run_req restore s r) as [s' o] eqn:E.
    destruct (run_req_spec _ _ _ _ HI E) as [Hi Hd].
    constructor.
    - destruct Hd as [Hd|Hd]; [right; left; exact Hd|].
      destruct (run_fresh_spec r) as [Hf|Hf]; [right; right; exact Hf|].
      left. eapply den_resp_det; eassumption.
    - apply IH.
      + apply Hi. destruct Hok as [Hr|Hall]; [left; exact Hr | right; inversion Hall; assumption].
      + destruct Hok as [Hr|Hall]; [left; exact Hr | right; inversion Hall; assumption].
  Qed.
End Requests.

(* the machine that restores on failure: every request answers as on a fresh store,
   stack overflows (on either side) apart *)
Theorem history_independent_if_restored : forall s rs,
  Forall2 agree (run_shared true s rs) (map (run_fresh true s) rs).
Proof. intros s rs. apply shared_vs_fresh; [apply Inv_base | left; reflexivity]. Qed.

(* both machines: as long as no request fails on the long-lived store, memoisation is
   invisible — each answer is the fresh answer (unless the fresh evaluation, which cannot
   reuse memoised results, overflows the stack) *)
Theorem memo_transparent : forall restore s rs,
  Forall (fun o => is_fail o = false) (run_shared restore s rs) ->
  Forall2 (fun a b => a = b \/ is_overflow b = true) (run_shared restore s rs) (map (run_fresh restore s) rs).
Proof.
  intros restore s rs Hok.
  pose proof (shared_vs_fresh s restore rs s (Inv_base s) (or_intror Hok)) as H.
  revert Hok H. generalize (run_shared restore s rs) (map (run_fresh restore s) rs).
  induction 2 as [|a b la lb Hab Hrest IH]; [constructor|].
  inversion Hok; subst. constructor; [|apply IH; assumption].
  destruct Hab as [Hab|[Hab|Hab]]; [left; exact Hab | | right; exact Hab].
  destruct a as [| | |[]| |]; simpl in *; discriminate.
Qed.

Lemma Forall2_agree_eq : forall la lb, Forall2 agree la lb ->
  Forall (fun o => is_overflow o = false) la -> Forall (fun o => is_overflow o = false) lb -> la = lb.
Proof.
  induction 1 as [|a b la lb Hab Hrest IH]; intros Ha Hb; [reflexivity|].
  inversion Ha; subst. inversion Hb; subst. f_equal; [|apply IH; assumption].
  destruct Hab as [Hab|[Hab|Hab]]; [exact Hab | congruence | congruence].
Qed.

Theorem history_independent_if_restored_eq : forall s rs,
  Forall (fun o => is_overflow o = false) (run_shared true s rs) ->
  Forall (fun o => is_overflow o = false) (map (run_fresh true s) rs) ->
  run_shared true s rs = map (run_fresh true s) rs.
Proof. intros s rs Ha Hb. apply Forall2_agree_eq; [apply history_independent_if_restored | exact Ha | exact Hb]. Qed.

Lemma boom_restored :
  run_shared true boom_store boom_reqs = [RErr (EUser 7); RErr (EUser 7)] /\
  run_shared true assert_store2 assert_reqs2 = [RErr (EAssert 4); RErr (EAssert 4)].
Proof. vm_compute. split; reflexivity. Qed.

(* ------------------------------------------------------------------ *)
(* super[e]: the answer must not depend on what happens to be interned *)

Lemma super_lookup_is_lookup it o s :
  super_lookup it (Some o) s = match lookup it o s with Some v => SFound v | None => SUnknownField end.
Proof. unfold super_lookup, lookup. destruct (get_interned it s); reflexivity. Qed.

Theorem super_lookup_sound : forall ss later sup s,
  let it := intern_all [] ss in
  (forall o, sup = Some o -> names_interned it o) ->
  super_lookup it sup s = super_lookup_ref it sup s /\
  super_lookup (intern_all it later) sup s = super_lookup it sup s.
Proof.
  intros ss later sup s it Hn. destruct sup as [o|].
  - destruct (intern_lookup_sound ss later o s (Hn o eq_refl)) as [H1 H2]. fold it in H1, H2.
    rewrite !super_lookup_is_lookup. unfold super_lookup_ref. rewrite H2, H1. split; reflexivity.
  - unfold super_lookup, super_lookup_ref.
    destruct (get_interned it s); destruct (get_interned (intern_all it later) s); split; reflexivity.
Qed.

(* before db09b8e: the same request, no super object, answers differently once somebody
   has interned the string *)
Lemma super_lookup_old_history_dependent :
  super_lookup_old (intern_all [] []) None [122; 113] = SUnknownField /\
  super_lookup_old (intern_all (intern_all [] []) [[122; 113]]) None [122; 113] = SNoSuper.
Proof. vm_compute. split; reflexivity. Qed.
