(* Base/Outcome.v — result type shared by every component model.

   Every place where the Rust code can panic is a [Panic site] result in the
   model, never silently totalised.  [OutOfFuel] is only produced by fuelled
   recursions; every theorem excludes it in its statement. *)
From Coq Require Export String.
From Coq Require Export List NArith ZArith Bool.  (* after String: [length] is List.length *)
Export ListNotations.

Inductive outcome (A E : Type) : Type :=
| Ok (a : A)
| Err (e : E)
| Panic (site : string)
| OutOfFuel.
Arguments Ok {A E} a.
Arguments Err {A E} e.
Arguments Panic {A E} site.
Arguments OutOfFuel {A E}.

Definition obind {A B E} (x : outcome A E) (f : A -> outcome B E) : outcome B E :=
  match x with
  | Ok a => f a
  | Err e => Err e
  | Panic s => Panic s
  | OutOfFuel => OutOfFuel
  end.

Definition omap {A B E} (f : A -> B) (x : outcome A E) : outcome B E :=
  obind x (fun a => Ok (f a)).

Declare Scope outcome_scope.
Delimit Scope outcome_scope with outcome.
Notation "'do' x <- e ; k" := (obind e (fun x => k))
  (at level 200, x pattern, e at level 100, k at level 200, right associativity) : outcome_scope.

Definition is_ok {A E} (x : outcome A E) : bool :=
  match x with Ok _ => true | _ => false end.
Definition is_panic {A E} (x : outcome A E) : bool :=
  match x with Panic _ => true | _ => false end.

Lemma obind_ok_inv {A B E} (x : outcome A E) (f : A -> outcome B E) b :
  obind x f = Ok b -> exists a, x = Ok a /\ f a = Ok b.
Proof. destruct x; simpl; intros H; try discriminate. eauto. Qed.

(* Wire anchor: forces the basic numeric types into every extraction so the
   shared OCaml glue (ocaml/wire.ml) always finds them. *)
Definition wire_anchor (n : N) (z : Z) (p : positive) (k : nat) (b : bool)
  (l : list N) (o : option N) (s : string) : N :=
  match z, o, s with
  | Z0, None, EmptyString => n
  | _, _, _ => N.of_nat (k + List.length l + Pos.to_nat p + (if b then 1 else 0))
  end.
