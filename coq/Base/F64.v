(* Base/F64.v — IEEE-754 binary64 as Coq's [SpecFloat.spec_float] (prec 53, emax 1024).
   Plain Z computations: run under vm_compute and in extraction, carry no axioms.
   No primitive floats, no native_compute.  On the wire a double is its 64-bit pattern. *)
From Coq Require Import ZArith NArith Bool Floats.SpecFloat.
Local Open Scope Z_scope.

Definition prec : Z := 53.
Definition emax : Z := 1024.

Definition f64 := spec_float.

Definition f_zero : f64 := S754_zero false.
Definition f_nzero : f64 := S754_zero true.
Definition f_inf (neg : bool) : f64 := S754_infinity neg.
Definition f_nan : f64 := S754_nan.

Definition f_is_finite (x : f64) : bool :=
  match x with S754_zero _ | S754_finite _ _ _ => true | _ => false end.
Definition f_is_nan (x : f64) : bool := match x with S754_nan => true | _ => false end.
Definition f_is_zero (x : f64) : bool := match x with S754_zero _ => true | _ => false end.
Definition f_sign (x : f64) : bool :=
  match x with S754_zero s | S754_infinity s | S754_finite s _ _ => s | S754_nan => false end.

Definition f_add : f64 -> f64 -> f64 := SFadd prec emax.
Definition f_sub : f64 -> f64 -> f64 := SFsub prec emax.
Definition f_mul : f64 -> f64 -> f64 := SFmul prec emax.
Definition f_div : f64 -> f64 -> f64 := SFdiv prec emax.
Definition f_sqrt : f64 -> f64 := SFsqrt prec emax.
Definition f_neg : f64 -> f64 := SFopp.
Definition f_abs : f64 -> f64 := SFabs.
Definition f_compare : f64 -> f64 -> option comparison := SFcompare.
Definition f_eqb : f64 -> f64 -> bool := SFeqb.     (* IEEE ==: -0 = +0, NaN <> NaN *)
Definition f_ltb : f64 -> f64 -> bool := SFltb.
Definition f_leb : f64 -> f64 -> bool := SFleb.

(* nearest-even double of the integer m * 2^e (exact when representable) *)
Definition f_of_Z_exp (m e : Z) : f64 := binary_normalize prec emax m e false.
Definition f_of_Z (m : Z) : f64 := f_of_Z_exp m 0.
Definition f_of_N (n : N) : f64 := f_of_Z (Z.of_N n).

(* truncation toward zero of a finite double; None for inf/nan *)
Definition f_trunc_Z (x : f64) : option Z :=
  match x with
  | S754_zero _ => Some 0
  | S754_finite s m e =>
      let v := if 0 <=? e then Z.pos m * 2 ^ e else Z.pos m / 2 ^ (- e) in
      Some (if s then - v else v)
  | _ => None
  end.

(* is the finite double an integer? *)
Definition f_is_integer (x : f64) : bool :=
  match x with
  | S754_zero _ => true
  | S754_finite _ m e => if 0 <=? e then true else (Z.pos m mod 2 ^ (- e) =? 0)
  | _ => false
  end.

(* exact value as a fraction num / 2^k (finite only) — used by decimal printers *)
Definition f_exact (x : f64) : option (Z * Z) :=      (* (mantissa with sign, exponent) : value = m * 2^e *)
  match x with
  | S754_zero _ => Some (0, 0)
  | S754_finite s m e => Some ((if s then Z.neg m else Z.pos m), e)
  | _ => None
  end.

(* ---- 64-bit patterns ---- *)
Definition f_of_bits (b : N) : f64 :=
  let b := Z.of_N b in
  let s := Z.testbit b 63 in
  let ex := Z.land (Z.shiftr b 52) 2047 in
  let mant := Z.land b (2 ^ 52 - 1) in
  if ex =? 0 then
    match mant with
    | Zpos p => S754_finite s p (-1074)
    | _ => S754_zero s
    end
  else if ex =? 2047 then
    (if mant =? 0 then S754_infinity s else S754_nan)
  else
    match mant + 2 ^ 52 with
    | Zpos p => S754_finite s p (ex - 1075)
    | _ => S754_nan
    end.

(* canonical pattern; a finite double produced by the SF operations is already
   in canonical form (mantissa of 53 bits, or exponent -1074) *)
Definition f_to_bits (x : f64) : N :=
  let sign (s : bool) := if s then 2 ^ 63 else 0 in
  Z.to_N
    match x with
    | S754_zero s => sign s
    | S754_infinity s => sign s + 2047 * 2 ^ 52
    | S754_nan => 2047 * 2 ^ 52 + 2 ^ 51
    | S754_finite s m e =>
        (* normalise: bring to canonical exponent *)
        let d := Z.pos (digits2_pos m) in
        let e' := Z.max (e + d - 53) (-1074) in
        let m' := if e' <=? e then Z.pos m * 2 ^ (e - e') else Z.pos m / 2 ^ (e' - e) in
        if m' <? 2 ^ 52 then sign s + m'                        (* subnormal: e' = -1074 *)
        else sign s + (e' + 1075) * 2 ^ 52 + (m' - 2 ^ 52)
    end.

(* common constants *)
Definition f_one : f64 := f_of_Z 1.
Definition f_max : f64 := S754_finite false (2 ^ 53 - 1) 971.
Definition f_min_sub : f64 := S754_finite false 1 (-1074).
