(* Props/C08.v — pinned statements for property C08: `==` is a structural equivalence and `<`
   a total order, mutually consistent.  Nothing but statements closed by [exact lemma],
   non-vacuity examples, and [Print Assumptions].

   Vocabulary (Proofs/Compare_proofs.v): [wf a] — the invariants of implementation values
   (finite numbers, well-formed strings, distinct field names), hereditarily; [to_json a = Some j] —
   a has the JSON value j (visible fields only, -0 = 0; no failing thunk, function or failing
   assert in a visible position); [has_ty t a] — a is a number / a string / an array of values of
   one ordered type.  A theorem that only assumes an *answer* of the model ([compare a b = Ok c],
   [op_lt a b = Ok true]) holds for every tree, failing leaves included. *)
From Coq Require Import Floats.SpecFloat.
From RJ Require Import Base.Outcome Base.F64 Model.Utf8Order Model.Compare
                       Proofs.Utf8Order_proofs Proofs.Compare_proofs.
Local Open Scope N_scope.

(* ---- strings: Rust compares UTF-8 bytes; that is the code-point order ---- *)
Theorem C08_utf8_order_is_cp_order : forall s t, str_ok s -> str_ok t ->
  lex_compare (utf8 s) (utf8 t) = lex_compare s t.
Proof. exact utf8_order_is_cp_order. Qed.

Theorem C08_str_compare_is_cp_order : forall s t, str_ok s -> str_ok t ->
  str_compare s t = lex_compare s t.
Proof. exact str_compare_is_cp_order. Qed.

Theorem C08_str_eqb_is_eq : forall s t, str_ok s -> str_ok t -> (str_eqb s t = true <-> s = t).
Proof. exact str_eqb_is_eq. Qed.

(* ---- numbers: finite doubles are totally ordered, == is equality up to the sign of zero ---- *)
Theorem C08_f64_order_laws : forall x y z,
  f_is_finite x = true -> f_is_finite y = true -> f_is_finite z = true ->
  f_compare x x = Some Eq /\
  (exists c, f_compare x y = Some c) /\
  (forall c, f_compare x y = Some c -> f_compare y x = Some (CompOpp c)) /\
  (forall c1 c2 c3, f_compare x y = Some c1 -> f_compare y z = Some c2 -> ctrans c1 c2 = Some c3 ->
                    f_compare x z = Some c3) /\
  (f_compare x y = Some Eq <-> fnorm x = fnorm y).
Proof. exact f64_order_laws. Qed.

Theorem C08_f64_eqb_iff_same_json_number : forall x y,
  f_is_finite x = true -> f_is_finite y = true -> (f_eqb x y = true <-> fnorm x = fnorm y).
Proof. exact f64_eqb_iff. Qed.

(* the order of doubles is the order of their exact values (scaled by 2^1074 they are integers) *)
Theorem C08_f64_compare_is_value_order : forall a b,
  f_is_finite (f_of_bits a) = true -> f_is_finite (f_of_bits b) = true ->
  f_compare (f_of_bits a) (f_of_bits b) = Some (zval (f_of_bits a) ?= zval (f_of_bits b))%Z.
Proof. exact f_compare_bits_value. Qed.

(* ---- == on values that have a JSON value ---- *)
Theorem C08_equals_total : forall a b ja jb,
  wf a -> wf b -> to_json a = Some ja -> to_json b = Some jb -> exists r, equals a b = Ok r.
Proof. exact equals_total. Qed.

Theorem C08_equals_iff_same_json : forall a b ja jb,
  wf a -> wf b -> to_json a = Some ja -> to_json b = Some jb -> (equals a b = Ok true <-> ja = jb).
Proof. exact equals_iff_same_json. Qed.

Theorem C08_equals_refl : forall a ja, wf a -> to_json a = Some ja -> equals a a = Ok true.
Proof. exact equals_refl. Qed.

Theorem C08_equals_sym : forall a b ja jb,
  wf a -> wf b -> to_json a = Some ja -> to_json b = Some jb -> equals b a = equals a b.
Proof. exact equals_sym. Qed.

Theorem C08_equals_trans : forall a b c ja jb jc,
  wf a -> wf b -> wf c -> to_json a = Some ja -> to_json b = Some jb -> to_json c = Some jc ->
  equals a b = Ok true -> equals b c = Ok true -> equals a c = Ok true.
Proof. exact equals_trans. Qed.

(* == is transitive on ALL trees: two answers `true` suffice (hidden / unvisited parts may fail) *)
Theorem C08_equals_trans_lazy : forall a b c, wf a -> wf b -> wf c ->
  equals a b = Ok true -> equals b c = Ok true -> equals a c = Ok true.
Proof. exact equals_trans_lazy. Qed.

Theorem C08_ne_is_negb_eq : forall a b, op_ne a b = omap negb (op_eq a b).
Proof. exact ne_is_negb_eq. Qed.

Theorem C08_std_equals_agrees : forall a b, std_equals a b = op_eq a b.
Proof. exact std_equals_agrees. Qed.

Theorem C08_primitive_equals_agrees : forall a b, is_prim a = true \/ is_prim b = true ->
  std_primitive_equals a b = op_eq a b.
Proof. exact primitive_equals_agrees. Qed.

Theorem C08_primitive_equals_non_primitive :
  (forall xs ys, std_primitive_equals (LArr xs) (LArr ys) = Err (EPrimEqNonPrimitive TyArray)) /\
  (forall a fa b fb, std_primitive_equals (LObj a fa) (LObj b fb) = Err (EPrimEqNonPrimitive TyObject)) /\
  (forall a b, is_fail a = false -> is_fail b = false -> ty_of a <> ty_of b -> std_primitive_equals a b = Ok false).
Proof. exact primitive_equals_non_primitive. Qed.

(* ---- the order ---- *)
Theorem C08_compare_total : forall t a b, has_ty t a -> has_ty t b -> exists c, compare a b = Ok c.
Proof. exact compare_total. Qed.

(* on numbers, strings and arrays of these exactly one of a < b, a == b, a > b holds *)
Theorem C08_compare_trichotomy : forall t a b, has_ty t a -> has_ty t b ->
  exists l e g, op_lt a b = Ok l /\ op_eq a b = Ok e /\ op_gt a b = Ok g /\ exactly_one l e g.
Proof. exact compare_trichotomy. Qed.

(* ... and whenever the order answers at all (any trees, lazily failing parts included) *)
Theorem C08_compare_trichotomy_gen : forall a b c, compare a b = Ok c ->
  op_lt a b = Ok (is_lt c) /\ op_eq a b = Ok (is_eqc c) /\ op_gt a b = Ok (is_gt c) /\
  exactly_one (is_lt c) (is_eqc c) (is_gt c).
Proof. exact compare_trichotomy_gen. Qed.

Theorem C08_compare_eq_iff_equals : forall a b c, compare a b = Ok c -> (c = Eq <-> equals a b = Ok true).
Proof. exact compare_eq_iff_equals. Qed.

Theorem C08_compare_antisym : forall a b r,
  (op_lt a b = Ok r -> op_gt b a = Ok r) /\ (op_gt a b = Ok r -> op_lt b a = Ok r) /\
  (op_le a b = Ok r -> op_ge b a = Ok r) /\ (op_ge a b = Ok r -> op_le b a = Ok r).
Proof. exact compare_antisym. Qed.

Theorem C08_compare_trans : forall a b c,
  op_lt a b = Ok true -> op_lt b c = Ok true -> op_lt a c = Ok true.
Proof. exact compare_trans. Qed.

Theorem C08_compare_le_trans : forall a b c,
  op_le a b = Ok true -> op_le b c = Ok true -> op_le a c = Ok true.
Proof. exact compare_le_trans. Qed.

(* general form: equal values can be exchanged on either side *)
Theorem C08_compare_trans_eq : forall a b c c1 c2 c3,
  compare a b = Ok c1 -> compare b c = Ok c2 -> ctrans c1 c2 = Some c3 -> compare a c = Ok c3.
Proof. exact compare_gtrans. Qed.

Theorem C08_le_ge_consistent : forall a b r, op_le a b = Ok r ->
  op_ge b a = Ok r /\ op_gt a b = Ok (negb r) /\
  exists l e, op_lt a b = Ok l /\ op_eq a b = Ok e /\ r = (l || e)%bool.
Proof. exact le_ge_consistent. Qed.

Theorem C08_compare_array_lex : forall xs ys,
  (compare (LArr xs) (LArr ys) = Ok Eq <-> Forall2 cmp_Eq xs ys) /\
  (compare (LArr xs) (LArr ys) = Ok Lt <-> lex_lt xs ys).
Proof. exact compare_array_lex. Qed.

Theorem C08_std_compare_agrees : forall a b,
  (forall z, std_compare a b = Ok z ->
     (z = (-1)%Z /\ op_lt a b = Ok true) \/ (z = 0%Z /\ op_eq a b = Ok true) \/ (z = 1%Z /\ op_gt a b = Ok true)) /\
  (forall e, op_lt a b = Err e -> std_compare a b = Err e) /\
  (forall r, op_lt a b = Ok r -> exists z, std_compare a b = Ok z).
Proof. exact std_compare_agrees. Qed.

Theorem C08_std_compare_array_agrees :
  (forall xs ys, std_compare_array (LArr xs) (LArr ys) = std_compare (LArr xs) (LArr ys)) /\
  (forall a b, is_fail a = false -> is_fail b = false -> is_arr a = false ->
     std_compare_array a b = Err (EInvalidArg 0 (ty_of a))) /\
  (forall a b, is_fail a = false -> is_fail b = false -> is_arr a = true -> is_arr b = false ->
     std_compare_array a b = Err (EInvalidArg 1 (ty_of b))).
Proof. exact std_compare_array_agrees. Qed.

(* null, booleans, objects, functions, mixed types: an error, never an answer *)
Theorem C08_compare_unordered_errors : forall a b,
  is_fail a = false -> is_fail b = false -> ordered_pair a b = false ->
  compare a b = Err (unordered_err a b).
Proof. exact compare_unordered_errors. Qed.

Theorem C08_equals_no_panic : forall a b, wf a -> wf b -> no_panic (equals a b).
Proof. exact equals_no_panic. Qed.

Theorem C08_compare_no_panic : forall a b, wf a -> wf b -> no_panic (compare a b).
Proof. exact compare_no_panic. Qed.

(* ---- laziness: nothing after the deciding position is forced ---- *)
Theorem C08_equals_early_exit : forall pa pb x y qa qb,
  Forall2 eq_true pa pb -> equals x y <> Ok true -> length qa = length qb ->
  equals (LArr (pa ++ x :: qa)) (LArr (pb ++ y :: qb)) = equals x y.
Proof. exact equals_early_exit. Qed.

Theorem C08_equals_length_first : forall xs ys,
  length xs <> length ys -> equals (LArr xs) (LArr ys) = Ok false.
Proof. exact equals_length_first. Qed.

Theorem C08_equals_object_early_exit : forall fa fb pa pb x y qa qb,
  NoDup (map fname fb) -> vis_names fa = vis_names fb ->
  vvals fa = pa ++ x :: qa -> vvals fb = pb ++ y :: qb ->
  Forall2 eq_true pa pb -> equals x y <> Ok true ->
  equals (LObj None fa) (LObj None fb) = equals x y.
Proof. exact equals_object_early_exit. Qed.

Theorem C08_equals_hidden_never_forced : forall g h aa fa ab fb, NoDup (map fname fb) ->
  equals (LObj aa (map_hidden g fa)) (LObj ab (map_hidden h fb)) = equals (LObj aa fa) (LObj ab fb).
Proof. exact equals_hidden_never_forced. Qed.

Theorem C08_compare_early_exit : forall pa pb x y qa qb,
  Forall2 cmp_Eq pa pb -> compare x y <> Ok Eq ->
  compare (LArr (pa ++ x :: qa)) (LArr (pb ++ y :: qb)) = compare x y.
Proof. exact compare_early_exit. Qed.

Theorem C08_compare_prefix_early_exit : forall pa pb y qb x qa, Forall2 cmp_Eq pa pb ->
  compare (LArr pa) (LArr (pb ++ y :: qb)) = Ok Lt /\ compare (LArr (pa ++ x :: qa)) (LArr pb) = Ok Gt.
Proof. exact compare_prefix_early_exit. Qed.

(* ---- non-vacuity ---- *)
Definition num (bits : N) : lval := LNum (f_of_bits bits).
Definition boom : lval := LFail (EUser [0x62; 0x6f; 0x6f; 0x6d]).

(* [-0, "～", {a: 1, b:: error}]  and  [0, "～", {a::: 1}] : same JSON value, == true both ways *)
Definition exA : lval :=
  LArr [num 0x8000000000000000; LStr [0xFF5E];
        LObj None [([0x61], VDefault, num 0x3ff0000000000000); ([0x62], VHidden, boom)]].
Definition exB : lval :=
  LArr [num 0; LStr [0xFF5E]; LObj None [([0x61], VForce, num 0x3ff0000000000000)]].
(* ["～", 1] < ["𐀀", 1, error] < ["𐀀", 2, 0]: code-point order (UTF-16 units would say >); the failing element is never forced *)
Definition exC : lval := LArr [LStr [0xFF5E]; num 0x3ff0000000000000].
Definition exD : lval := LArr [LStr [0x10000]; num 0x3ff0000000000000; boom].
Definition exE : lval := LArr [LStr [0x10000]; num 0x4000000000000000; num 0].

Ltac vc := vm_compute; reflexivity.
Ltac solve_wf :=
  repeat (first [ constructor | reflexivity | progress cbn | intros [H|H]; [discriminate H | revert H] | intros [] ]).

Example C08_nonvacuous :
  (* hypotheses of the == theorems *)
  wf exA /\ wf exB /\ (exists j, to_json exA = Some j /\ to_json exB = Some j) /\
  equals exA exB = Ok true /\ equals exB exA = Ok true /\ equals exA exC = Ok false /\
  (* hypotheses of the order theorems *)
  has_ty (TArr TStr) (LArr [LStr [0xFF5E]]) /\ has_ty (TArr TStr) (LArr [LStr [0x10000]; LStr []]) /\
  compare exC exD = Ok Lt /\ compare exD exE = Ok Lt /\ compare exC exE = Ok Lt /\
  op_le exC exD = Ok true /\ std_compare exD exC = Ok 1%Z /\
  compare (LArr [LNull]) (LArr [LNull]) = Err ECompareNull /\
  compare (num 0) (LStr []) = Err (ECompareDifferentTypes TyNumber TyString) /\
  (* early exit: [1, 2, error] vs [1, 3, error] *)
  Forall2 eq_true [num 0x3ff0000000000000] [num 0x3ff0000000000000] /\
  equals (num 0x4000000000000000) (num 0x4008000000000000) <> Ok true /\
  equals (LArr [num 0x3ff0000000000000; num 0x4000000000000000; boom])
         (LArr [num 0x3ff0000000000000; num 0x4008000000000000; boom]) = Ok false /\
  equals (LArr [boom]) (LArr [boom; boom]) = Ok false /\
  (* strings and numbers *)
  str_ok [0xFF5E; 0x10FFFF] /\ lex_compare (utf8 [0xFF5E]) (utf8 [0x10000]) = Lt /\
  f_compare (f_of_bits 0x8000000000000000) (f_of_bits 0) = Some Eq /\
  f_compare (f_of_bits 0x4340000000000000) (f_of_bits 0x4340000000000001) = Some Lt /\
  zval (f_of_bits 1) = 1%Z /\ f_is_finite (f_of_bits 0x7fefffffffffffff) = true /\
  (* == true twice with a failing hidden field in the middle value *)
  equals exB exA = Ok true /\ equals exA exB = Ok true.
Proof.
  split; [solve_wf|]. split; [solve_wf|].
  split; [eexists; split; vm_compute; reflexivity|].
  split; [vc|]. split; [vc|]. split; [vc|].
  split; [solve_wf|]. split; [solve_wf|].
  split; [vc|]. split; [vc|]. split; [vc|]. split; [vc|]. split; [vc|]. split; [vc|]. split; [vc|].
  split; [solve_wf|].
  split; [vm_compute; discriminate|].
  split; [vc|]. split; [vc|].
  split; [solve_wf|].
  split; [vc|]. split; [vc|]. split; [vc|]. split; [vc|]. split; [vc|]. split; [vc|]. vc.
Qed.

Print Assumptions C08_utf8_order_is_cp_order.
Print Assumptions C08_str_compare_is_cp_order.
Print Assumptions C08_str_eqb_is_eq.
Print Assumptions C08_f64_order_laws.
Print Assumptions C08_f64_eqb_iff_same_json_number.
Print Assumptions C08_f64_compare_is_value_order.
Print Assumptions C08_equals_total.
Print Assumptions C08_equals_iff_same_json.
Print Assumptions C08_equals_refl.
Print Assumptions C08_equals_sym.
Print Assumptions C08_equals_trans.
Print Assumptions C08_equals_trans_lazy.
Print Assumptions C08_ne_is_negb_eq.
Print Assumptions C08_std_equals_agrees.
Print Assumptions C08_primitive_equals_agrees.
Print Assumptions C08_primitive_equals_non_primitive.
Print Assumptions C08_compare_total.
Print Assumptions C08_compare_trichotomy.
Print Assumptions C08_compare_trichotomy_gen.
Print Assumptions C08_compare_eq_iff_equals.
Print Assumptions C08_compare_antisym.
Print Assumptions C08_compare_trans.
Print Assumptions C08_compare_le_trans.
Print Assumptions C08_compare_trans_eq.
Print Assumptions C08_le_ge_consistent.
Print Assumptions C08_compare_array_lex.
Print Assumptions C08_std_compare_agrees.
Print Assumptions C08_std_compare_array_agrees.
Print Assumptions C08_compare_unordered_errors.
Print Assumptions C08_equals_no_panic.
Print Assumptions C08_compare_no_panic.
Print Assumptions C08_equals_early_exit.
Print Assumptions C08_equals_length_first.
Print Assumptions C08_equals_object_early_exit.
Print Assumptions C08_equals_hidden_never_forced.
Print Assumptions C08_compare_early_exit.
Print Assumptions C08_compare_prefix_early_exit.
Print Assumptions C08_nonvacuous.
