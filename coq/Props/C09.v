(* Props/C09.v — pinned statements for property C09 *)
From RJ Require Import Base.Outcome Model.Token Model.Ast Model.Ir Model.Analyze Proofs.Analyze_proofs.
Local Open Scope N_scope.

Definition sp0 : span := (0, 0).
Definition idn (n : N) : ident := {| id_value := [n]; id_span := (n, n + 1) |}.

(* local a = 1; a  is accepted *)
Example C09_nonvacuous_ok :
  is_ok (analyze (ELocal sp0 [MkBind (idn 97) None (ENumber sp0 {| num_digits := [49]; num_exp := 0 |})]
                   (EIdent sp0 (idn 97))) []) = true.
Proof. vm_compute. reflexivity. Qed.

(* { [b]: 1, local b = 2 }  — the field name does not see the object local *)
Example C09_nonvacuous_err :
  analyze (EObject sp0 (OMembers [MField (FValue (FnExpr (EIdent sp0 (idn 98)) sp0) false VisDefault (ENull sp0));
                                  MLocal (MkBind (idn 98) None (ENull sp0))])) []
  = Err (UnknownVariable (98, 99) [98]).
Proof. vm_compute. reflexivity. Qed.

Print Assumptions C09_nonvacuous_ok.
Print Assumptions C09_nonvacuous_err.
