(* Props/C09.v — pinned statements for property C09 (scoping errors are found
   before anything runs, and only real ones).  Statements closed by [exact lemma],
   non-vacuity Examples, and [Print Assumptions]. *)
From RJ Require Import Base.Outcome Model.Token Model.Ast Model.Ir Model.Analyze Proofs.Analyze_proofs
  Proofs.AnalyzeRt_proofs Proofs.AnalyzeLoc_proofs.
From RJ Require Model.RefCore Model.RefValue Model.RefEval Proofs.RefScope_defs Proofs.RefScope_main Proofs.RefScope_static.
Local Open Scope N_scope.

(* The analyzer (mirror of program/analyze.rs) accepts a program exactly when
   it satisfies the specification's static rules [StaticOK] — which inspect
   every sub-expression, evaluated or not.  [nums_ok]: every number literal has
   the shape the lexer produces (checked on every AST in the correspondence). *)
Theorem C09_analyze_exact : forall e vs io,
  nums_ok e = true ->
  ((exists ir, analyze_expr e (mk_env io vs) false = Ok ir) <-> StaticOK vs io e).
Proof. exact analyze_exact. Qed.

(* ... and it answers Ok or Err: the two panic sites of analyze.rs (number
   conversion unwrap, index into the collected fields) are unreachable *)
Theorem C09_analyze_no_panic : forall e en ts,
  nums_ok e = true ->
  (exists ir, analyze_expr e en ts = Ok ir) \/ (exists x, analyze_expr e en ts = Err x).
Proof. exact analyze_no_panic. Qed.

Theorem C09_field_name_sees_outer_scope : forall sp ms vs io ts f e nsp,
  nums_ok (EObject sp (OMembers ms)) = true ->
  is_ok (analyze_expr (EObject sp (OMembers ms)) (mk_env io vs) ts) = true ->
  In (MField f) ms -> field_fname f = FnExpr e nsp ->
  is_ok (analyze_expr e (mk_env io vs) false) = true.
Proof. exact field_name_sees_outer_scope. Qed.

Theorem C09_comp_vars_left_to_right : forall sp body pre v src post vs io ts,
  nums_ok (EArrayComp sp body (pre ++ CFor v src :: post)) = true ->
  is_ok (analyze_expr (EArrayComp sp body (pre ++ CFor v src :: post)) (mk_env io vs) ts) = true ->
  is_ok (analyze_expr src (mk_env io (specs_out vs pre)) false) = true /\
  is_ok (analyze_expr body (mk_env io (specs_out vs (pre ++ CFor v src :: post))) false) = true.
Proof. exact comp_vars_left_to_right. Qed.

Theorem C09_object_locals_mutual : forall sp ms vs io ts b,
  nums_ok (EObject sp (OMembers ms)) = true ->
  is_ok (analyze_expr (EObject sp (OMembers ms)) (mk_env io vs) ts) = true ->
  In (MLocal b) ms ->
  is_ok (analyze_bind_with analyze_expr (mk_env true (map bind_name (member_locals ms) ++ vs)) b) = true.
Proof. exact object_locals_mutual. Qed.

(* whatever the analyzer accepts is closed in its static scope: every variable
   of the IR is bound by an IR binder or is in [vs]; self/$/super only under an
   object *)
Theorem C09_analyze_closed : forall e vs io ts i,
  analyze_expr e (mk_env io vs) ts = Ok i -> Closed vs io i.
Proof. exact analyze_closed. Qed.

(* run-time half, over the environment discipline of the evaluator ([walk]
   visits every sub-expression in the frames eval/mod.rs and data.rs build, and
   performs ThunkEnv::get_var / get_object where the evaluator would): on a
   closed IR, in any run-time environment covering the static scope, no lookup
   reaches the 'variable not found' panic or the get_object unwrap *)
Theorem C09_walk_no_unbound : forall i L io r,
  Closed L io i -> covers r L io -> walk r i = Ok tt.
Proof. exact walk_no_unbound. Qed.

Theorem C09_analyze_walk_no_unbound : forall e vs io ts i r,
  analyze_expr e (mk_env io vs) ts = Ok i -> covers r vs io -> walk r i = Ok tt.
Proof. exact analyze_walk_no_unbound. Qed.

(* a diagnostic is one of the ten kinds of [analyze_error] (by its type) and is
   located at a node of the program: every span it carries is the span of a node,
   of its super token, of its identifier, or of a name of a binder group / field
   the node introduces ([node_spans]).  On the implementation the check is
   stronger: exactly the injected token(s), exactly the name. *)
Theorem C09_analyze_error_kind : forall e en ts x,
  analyze_expr e en ts = Err x ->
  forall sp, In sp (error_spans x) -> exists n, In n (nodes e) /\ In sp (node_spans n).
Proof. exact analyze_error_located. Qed.

(* ---- non-vacuity ---- *)
Definition sp0 : span := (0, 0).
Definition idn (n : N) : ident := {| id_value := [n]; id_span := (n, n + 1) |}.
Definition var (n : N) : expr := EIdent (n, n + 1) (idn n).
Definition one : expr := ENumber sp0 {| num_digits := [49]; num_exp := 0 |}.

(* local a = 1; a  is accepted: hypotheses of the iff are met on both sides *)
Example C09_nonvacuous_ok :
  let e := ELocal sp0 [MkBind (idn 97) None one] (var 97) in
  nums_ok e = true /\ is_ok (analyze e []) = true /\ StaticOK [] false e.
Proof.
  intros e. assert (Hn : nums_ok e = true) by (vm_compute; reflexivity).
  split; [exact Hn|]. split; [vm_compute; reflexivity|].
  apply (proj1 (C09_analyze_exact e [] false Hn)). vm_compute. eexists; reflexivity.
Qed.

(* { [b]: null, local b = null }: the field name does not see the object local;
   { local a = b, local b = a, f: self }: locals are mutual and self is bound;
   [a for a in [b] for b in [1]]: a later clause variable is not visible earlier *)
Example C09_nonvacuous_err :
  analyze (EObject sp0 (OMembers [MField (FValue (FnExpr (var 98) sp0) false VisDefault (ENull sp0));
                                  MLocal (MkBind (idn 98) None (ENull sp0))])) []
  = Err (UnknownVariable (98, 99) [98]) /\
  is_ok (analyze (EObject sp0 (OMembers [MLocal (MkBind (idn 97) None (var 98));
                                         MLocal (MkBind (idn 98) None (var 97));
                                         MField (FValue (FnIdent (idn 102)) false VisDefault (ESelf sp0))])) []) = true /\
  analyze (EArrayComp sp0 (var 97) [CFor (idn 97) (EArray sp0 [var 98]); CFor (idn 98) (EArray sp0 [one])]) []
  = Err (UnknownVariable (98, 99) [98]) /\
  analyze (ENumber sp0 {| num_digits := []; num_exp := 0 |}) [] = Panic "analyze.rs:analyze_expr:number parse unwrap".
Proof. vm_compute. repeat split. Qed.

(* the top-level environment of load_source ({std}, no object) covers ["std"];
   walking  local a = std; function(b = a) [b, a]  in it succeeds, and the same IR
   walked in an empty environment hits the panic site: the hypothesis matters *)
Definition std_name : str := [115; 116; 100].
Example C09_nonvacuous_walk :
  let e := ELocal sp0 [MkBind (idn 97) None (EIdent sp0 {| id_value := std_name; id_span := sp0 |})]
             (EFunc sp0 [MkParam (idn 98) (Some (var 97))] (EArray sp0 [var 98; var 97])) in
  let top := RtEnv None [std_name] false in
  covers top [std_name] false /\
  (exists i, analyze e [std_name] = Ok i /\ Closed [std_name] false i /\ walk top i = Ok tt /\
             walk (RtEnv None [] false) i = Panic "data.rs:ThunkEnv::get_var:variable not found").
Proof.
  intros e top. split.
  - split; [| discriminate]. intros x [<-|[]]. vm_compute. reflexivity.
  - destruct (analyze e [std_name]) as [i| | |] eqn:E; try (vm_compute in E; discriminate).
    exists i. split; [reflexivity|]. split; [exact (C09_analyze_closed _ _ _ _ _ E)|].
    vm_compute in E. injection E as <-. vm_compute. split; reflexivity.
Qed.

(* ---- the run-time half over the FULL reference evaluator of C02 (Model/RefEval.v, tied to the
   implementation end to end from source text): a program accepted by the static rules never
   fails at run time because a variable, self, super or $ turns out to be unbound — for every
   fuel, stack limit and evaluation-order switch.  Re-pinned from Proofs/RefScope_static.v
   (proved by the C02 work as a scope-preservation invariant over every run-time structure). ---- *)
Theorem C09_refeval_no_static_error : forall e, StaticOK [RefValue.s_std] false e ->
  forall fuel c, ~ RefScope_main.static_error (RefEval.run fuel c e).
Proof. exact RefScope_static.refeval_no_static_error. Qed.

Print Assumptions C09_analyze_exact.
Print Assumptions C09_analyze_no_panic.
Print Assumptions C09_field_name_sees_outer_scope.
Print Assumptions C09_comp_vars_left_to_right.
Print Assumptions C09_object_locals_mutual.
Print Assumptions C09_analyze_error_kind.
Print Assumptions C09_analyze_closed.
Print Assumptions C09_walk_no_unbound.
Print Assumptions C09_analyze_walk_no_unbound.
Print Assumptions C09_nonvacuous_ok.
Print Assumptions C09_nonvacuous_err.
Print Assumptions C09_nonvacuous_walk.
Print Assumptions C09_refeval_no_static_error.
