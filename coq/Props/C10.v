(* Props/C10.v — pinned statements for property C10 (recursion depth is bounded
   by the configured limit and fails gracefully).  Nothing but statements closed
   by [exact lemma] / vm_compute on translated tables, non-vacuity Examples, and
   [Print Assumptions]. *)
From RJ Require Import Base.Outcome Model.TraceLen Proofs.TraceLen_proofs
  Gen.TraceWords Gen.EvalCallGraph.
From Coq Require Import Relations.
Local Open Scope N_scope.

(* ---- T: the handler blocks of the current source ---- *)

(* every handler block (arm of run, function-pointer handler) and the initial
   pushes of eval can only push words in which every prefix has at least as
   many Trace as Delayed items *)
Theorem C10_handler_words_balanced :
  forallb (fun p => tree_balanced (snd p)) (handler_trees ++ init_trees) = true.
Proof. vm_compute. reflexivity. Qed.

(* ... hence any word any of them pushes is balanced (soundness of the analysis) *)
Theorem C10_handler_words_balanced_sound : forall name t w early,
  In (name, t) (handler_trees ++ init_trees) -> exec t w early -> balanced w = true.
Proof.
  intros name t w early Hin Hex. eapply tree_balanced_sound; [|exact Hex].
  pose proof C10_handler_words_balanced as H. rewrite forallb_forall in H.
  exact (H (name, t) Hin).
Qed.

(* one handler raises the frame counter by a bounded amount (no loop gains a
   frame per iteration): the counter measures nesting, not data size *)
Definition handler_gain_bound : Z := 16.
Theorem C10_handler_gain_bounded :
  forallb (fun p => gain_at_most handler_gain_bound (snd p)) (handler_trees ++ init_trees) = true.
Proof. vm_compute. reflexivity. Qed.

(* the evaluator sources have no native recursion: the call graph extracted
   from the current source admits a topological numbering *)
Theorem C10_eval_callgraph_acyclic :
  graph_topo eval_callgraph = true /\
  forall a, ~ clos_trans N (edge eval_callgraph) a a.
Proof.
  assert (H : graph_topo eval_callgraph = true) by (vm_compute; reflexivity).
  split; [exact H | exact (graph_topo_acyclic eval_callgraph H)].
Qed.

(* ---- the accounting invariant (for every script of balanced handler words) ---- *)

Theorem C10_tracelen_invariant : forall max init script s0 s,
  balanced init = true -> script_balanced script ->
  push_word init empty_state = Ok s0 -> run max script s0 = Ok s ->
  suffix_ok (stack s) /\ Z.of_N (len s) = net (stack s).
Proof. exact tracelen_invariant. Qed.

Theorem C10_dec_no_underflow : forall max init script,
  balanced init = true -> script_balanced script ->
  is_panic (eval_run max init script) = false.
Proof. exact eval_run_no_panic. Qed.

Theorem C10_len_zero_at_end : forall max init script s0 s,
  balanced init = true -> script_balanced script ->
  push_word init empty_state = Ok s0 -> run max script s0 = Ok s ->
  stack s = [] -> len s = 0.
Proof. exact len_zero_at_end. Qed.

Theorem C10_get_stack_trace_pop_ok : forall max init script s0 s,
  balanced init = true -> script_balanced script ->
  push_word init empty_state = Ok s0 -> run max script s0 = Ok s ->
  exists tr, get_stack_trace s = Ok tr /\ N.of_nat (length tr) = len s.
Proof. exact get_stack_trace_pop_ok. Qed.

(* the bound: between loop iterations the counter never exceeds the limit; a
   reported overflow carries more than [max] frames *)
Theorem C10_len_never_exceeds : forall max script s s',
  run max script s = Ok s' -> len s <= max -> len s' <= max.
Proof. exact len_never_exceeds. Qed.

Theorem C10_overflow_trace_exceeds_limit : forall max init script s0 tr,
  balanced init = true -> script_balanced script ->
  push_word init empty_state = Ok s0 ->
  run max script s0 = Err (StackOverflow tr) -> max < N.of_nat (length tr).
Proof. exact overflow_trace_exceeds_limit. Qed.

(* non-vacuity: a script with nested, delayed and failing handlers meets the
   hypotheses, reaches a non-trivial state, ends with len = 0, and overflows
   under a smaller limit *)
Example C10_tracelen_nonvacuous :
  let init := [Other; Other] in
  let script := [Act [Trace 1; Other; Other; Delayed; Trace 2; Other; Delayed] false;
                 Act [] false; Act [Trace 3; Other] false; Act [] false; Act [] false;
                 Act [] false; Act [] false; Act [] false; Act [] false; Act [] false;
                 Act [] false; Act [] false; Act [] false] in
  balanced init = true /\ script_balanced script /\
  (exists s, eval_run 5 init script = Ok s /\ len s = 0) /\
  (exists tr, eval_run 1 init script = Err (StackOverflow tr) /\ length tr = 2%nat) /\
  tree_balanced (TStar (TSeq (TSym ST) (TSeq (TSym SO) (TSym SD)))) = true /\
  tree_balanced (TSeq (TSym SD) (TSym ST)) = false.
Proof.
  cbv zeta. split; [reflexivity|]. split; [repeat constructor|].
  split; [eexists; split; vm_compute; reflexivity|].
  split; [eexists; split; vm_compute; reflexivity|]. split; reflexivity.
Qed.

Print Assumptions C10_handler_words_balanced.
Print Assumptions C10_handler_words_balanced_sound.
Print Assumptions C10_handler_gain_bounded.
Print Assumptions C10_eval_callgraph_acyclic.
Print Assumptions C10_tracelen_invariant.
Print Assumptions C10_dec_no_underflow.
Print Assumptions C10_len_zero_at_end.
Print Assumptions C10_get_stack_trace_pop_ok.
Print Assumptions C10_len_never_exceeds.
Print Assumptions C10_overflow_trace_exceeds_limit.
Print Assumptions C10_tracelen_nonvacuous.
