(* Props/C10.v — pinned statements for property C10 (recursion depth is bounded
   by the configured limit and fails gracefully).  Nothing but statements closed
   by [exact lemma] / vm_compute on translated tables, non-vacuity Examples, and
   [Print Assumptions]. *)
From RJ Require Import Base.Outcome Model.DepthSem Proofs.DepthSem_proofs.
From RJ Require Import Model.TraceLen Proofs.TraceLen_proofs Gen.TraceWords Gen.EvalCallGraph Gen.TailPos.
From Coq Require Import Relations.
From RJ Require Model.RefCore Model.RefValue Model.RefEval Proofs.RefSem_proofs.
Local Open Scope N_scope.

(* ---- T: the handler blocks of the current source ---- *)

(* every handler block (arm of run, function-pointer handler) and the initial
   pushes of eval can only push words in which every prefix has at least as
   many Trace as Delayed items *)
Theorem C10_handler_words_balanced :
  forallb (fun p => tree_balanced (snd p)) (handler_trees ++ init_trees) = true.
Proof. vm_compute. reflexivity. Qed.

(* ... hence any word any of them pushes is balanced (soundness of the analysis) *)
Theorem C10_handler_words_balanced_sound : forall name t w early,
  In (name, t) (handler_trees ++ init_trees) -> exec t w early -> balanced w = true.
Proof.
  intros name t w early Hin Hex. eapply tree_balanced_sound; [|exact Hex].
  pose proof C10_handler_words_balanced as H. rewrite forallb_forall in H.
  exact (H (name, t) Hin).
Qed.

(* one handler raises the frame counter by a bounded amount (no loop gains a
   frame per iteration): the counter measures nesting, not data size *)
Definition handler_gain_bound : Z := 16.
Theorem C10_handler_gain_bounded :
  forallb (fun p => gain_at_most handler_gain_bound (snd p)) (handler_trees ++ init_trees) = true.
Proof. vm_compute. reflexivity. Qed.

(* the evaluator sources have no native recursion: the call graph extracted
   from the current source admits a topological numbering *)
Theorem C10_eval_callgraph_acyclic :
  graph_topo eval_callgraph = true /\
  forall a, ~ clos_trans N (edge eval_callgraph) a a.
Proof.
  assert (H : graph_topo eval_callgraph = true) by (vm_compute; reflexivity).
  split; [exact H | exact (graph_topo_acyclic eval_callgraph H)].
Qed.

(* in the core-language handlers (eval/mod.rs, eval/expr.rs) every force of a thunk
   (push of State::DoThunk) is framed: a push_trace_item precedes it in the same
   block; only the top-level thunk pushed by eval (depth 0) is exempt *)
Theorem C10_core_thunk_forces_framed :
  forallb (fun p => snd p) core_thunk_forces = true.
Proof. vm_compute. reflexivity. Qed.

(* the analyzer lets a `tailstrict` call run without a Call frame only in the
   tail positions of the specification (function body; then / else of `if`;
   body of `local`; body of `assert`): in particular not in an `if` condition *)
Theorem C10_tail_positions_spec : tail_sites_ok tail_sites = true.
Proof. vm_compute. reflexivity. Qed.

(* ---- the accounting invariant (for every script of balanced handler words) ---- *)

Theorem C10_tracelen_invariant : forall max init script s0 s,
  balanced init = true -> script_balanced script ->
  push_word init empty_state = Ok s0 -> run max script s0 = Ok s ->
  suffix_ok (stack s) /\ Z.of_N (len s) = net (stack s).
Proof. exact tracelen_invariant. Qed.

Theorem C10_dec_no_underflow : forall max init script,
  balanced init = true -> script_balanced script ->
  is_panic (eval_run max init script) = false.
Proof. exact eval_run_no_panic. Qed.

Theorem C10_len_zero_at_end : forall max init script s0 s,
  balanced init = true -> script_balanced script ->
  push_word init empty_state = Ok s0 -> run max script s0 = Ok s ->
  stack s = [] -> len s = 0.
Proof. exact len_zero_at_end. Qed.

Theorem C10_get_stack_trace_pop_ok : forall max init script s0 s,
  balanced init = true -> script_balanced script ->
  push_word init empty_state = Ok s0 -> run max script s0 = Ok s ->
  exists tr, get_stack_trace s = Ok tr /\ N.of_nat (length tr) = len s.
Proof. exact get_stack_trace_pop_ok. Qed.

(* the bound: between loop iterations the counter never exceeds the limit; a
   reported overflow carries more than [max] frames *)
Theorem C10_len_never_exceeds : forall max script s s',
  run max script s = Ok s' -> len s <= max -> len s' <= max.
Proof. exact len_never_exceeds. Qed.

Theorem C10_overflow_trace_exceeds_limit : forall max init script s0 tr,
  balanced init = true -> script_balanced script ->
  push_word init empty_state = Ok s0 ->
  run max script s0 = Err (StackOverflow tr) -> max < N.of_nat (length tr).
Proof. exact overflow_trace_exceeds_limit. Qed.

(* non-vacuity: a script with nested, delayed and failing handlers meets the
   hypotheses, reaches a non-trivial state, ends with len = 0, and overflows
   under a smaller limit *)
Example C10_tracelen_nonvacuous :
  let init := [Other; Other] in
  let script := [Act [Trace 1; Other; Other; Delayed; Trace 2; Other; Delayed] false;
                 Act [] false; Act [Trace 3; Other] false; Act [] false; Act [] false;
                 Act [] false; Act [] false; Act [] false; Act [] false; Act [] false;
                 Act [] false; Act [] false; Act [] false] in
  balanced init = true /\ script_balanced script /\
  (exists s, eval_run 5 init script = Ok s /\ len s = 0) /\
  (exists tr, eval_run 1 init script = Err (StackOverflow tr) /\ length tr = 2%nat) /\
  tree_balanced (TStar (TSeq (TSym ST) (TSeq (TSym SO) (TSym SD)))) = true /\
  tree_balanced (TSeq (TSym SD) (TSym ST)) = false.
Proof.
  cbv zeta. split; [reflexivity|]. split; [repeat constructor|].
  split; [eexists; split; vm_compute; reflexivity|].
  split; [eexists; split; vm_compute; reflexivity|]. split; reflexivity.
Qed.

(* ---- the depth semantics of the recursion-shaped core (Model/DepthSem.v) ---- *)

(* raising the limit never changes the outcome of a program that succeeded *)
Theorem C10_limit_monotone : forall p L L' fuel x,
  top p L fuel = Ok x -> L <= L' -> top p L' fuel = Ok x.
Proof. exact top_limit_monotone. Qed.

(* ... nor any other outcome than a stack overflow (a value, an infinite
   recursion, a type error), for every task of the evaluator *)
Theorem C10_limit_monotone_outcome : forall P L L' fuel d st k,
  L <= L' -> DepthSem.run P L fuel d st k <> Err DepthSem.StackOverflow ->
  DepthSem.run P L' fuel d st k = DepthSem.run P L fuel d st k.
Proof. exact limit_monotone_outcome. Qed.

(* no frame is ever entered beyond the limit: the deepest frame entered (peak)
   is at most L *)
Theorem C10_depth_never_exceeds : forall P L fuel d st k r st',
  DepthSem.run P L fuel d st k = Ok (r, st') -> peak st' <= N.max (peak st) L.
Proof. exact depth_never_exceeds. Qed.

Theorem C10_top_depth_never_exceeds : forall p L fuel s pk,
  top p L fuel = Ok (s, pk) -> pk <= L.
Proof. exact top_depth_never_exceeds. Qed.

(* forcing a thunk whose evaluation is in progress never yields a value: it is
   InfiniteRecursion, or StackOverflow when the frame of the force does not fit *)
Theorem C10_force_in_progress : forall P L fuel d st framed i,
  nthN (cells st) i = Some CInProgress ->
  DepthSem.run P L (S fuel) d st (KForce framed i) =
    if (framed && (L <? d + 1))%bool then Err DepthSem.StackOverflow else Err InfiniteRecursion.
Proof. exact force_in_progress. Qed.

(* a cycle of c = n+1 local thunks (l0 = l1, ..., ln = l0), every n, every limit:
   InfiniteRecursion iff the limit leaves room for the cycle and the repeated
   force (c + 1 <= L), StackOverflow otherwise *)
Theorem C10_cycle_detected : forall n L fuel, (2 * n + 6 <= fuel)%nat ->
  top (cycle_program n) L fuel =
    if N.of_nat n + 2 <=? L then Err InfiniteRecursion else Err DepthSem.StackOverflow.
Proof. exact cycle_detected. Qed.

(* non-vacuity: direct recursion of depth 5 through calls (value 7 = "55") succeeds exactly from
   its peak depth on, with the same value; the model's peak is what the limit
   must reach *)
Example C10_depthsem_nonvacuous :
  let body := EIfZ EArg (ENum 0) (EAdd (ENum 1) (ECall 0 (EDec EArg))) in
  let p := {| funs := [body]; locs := [EArr [ELoc 1]; ECall 0 (ENum 2)]; main := EAdd (ECall 0 (ENum 5)) (EIdx (ELoc 0) 0) |} in
  top p 8 200 = Ok ([55]%N, 8) /\ top p 100 200 = Ok ([55]%N, 8) /\
  top p 7 200 = Err DepthSem.StackOverflow /\
  top (cycle_program 2) 4 50 = Err InfiniteRecursion /\
  top (cycle_program 2) 3 50 = Err DepthSem.StackOverflow.
Proof. vm_compute. repeat split. Qed.

(* ---- the limit on the FULL reference evaluator of C02 (Model/RefEval.v), which is tied to the
   implementation end to end: raising the frame limit never changes an outcome other than
   StackOverflow (re-pinned from Proofs/RefSem_proofs.v) ---- *)
Theorem C10_refeval_limit_monotone : forall fuel c c' e r,
  RefEval.run fuel c e = r -> snd r <> Err RefValue.EStackOverflow ->
  RefEval.c_bfs c = RefEval.c_bfs c' -> RefEval.c_ts_tail c = RefEval.c_ts_tail c' ->
  (RefEval.c_limit c <= RefEval.c_limit c')%N ->
  RefEval.run fuel c' e = r.
Proof. exact RefSem_proofs.limit_monotone. Qed.

Print Assumptions C10_handler_words_balanced.
Print Assumptions C10_handler_words_balanced_sound.
Print Assumptions C10_handler_gain_bounded.
Print Assumptions C10_eval_callgraph_acyclic.
Print Assumptions C10_tail_positions_spec.
Print Assumptions C10_core_thunk_forces_framed.
Print Assumptions C10_tracelen_invariant.
Print Assumptions C10_dec_no_underflow.
Print Assumptions C10_len_zero_at_end.
Print Assumptions C10_get_stack_trace_pop_ok.
Print Assumptions C10_len_never_exceeds.
Print Assumptions C10_overflow_trace_exceeds_limit.
Print Assumptions C10_tracelen_nonvacuous.
Print Assumptions C10_limit_monotone.
Print Assumptions C10_limit_monotone_outcome.
Print Assumptions C10_depth_never_exceeds.
Print Assumptions C10_top_depth_never_exceeds.
Print Assumptions C10_top_depth_never_exceeds.
Print Assumptions C10_force_in_progress.
Print Assumptions C10_cycle_detected.
Print Assumptions C10_depthsem_nonvacuous.
Print Assumptions C10_refeval_limit_monotone.
