(* Props/C12.v — pinned statements for property C12 (the command-line tool's exit
   status, streams and output modes form one contract).  [run] is the model of
   main.rs as it stands ([run_gen CODE_FLUSHES]); statements closed by [exact lemma],
   non-vacuity Examples, and [Print Assumptions]. *)
From RJ Require Import Base.Outcome Model.Cli Proofs.Cli_proofs Gen.CliConsts.
From Coq Require Import Permutation.
Local Open Scope N_scope.

(* T: the constants found in the current main.rs / cli.rs (exit status mapping, the checked
   flush of stdout, the YAML stream literals, the virtual file names, the order in which the
   variable arguments are processed, splitting at the first '=') are the ones the model uses *)
Theorem C12_source_constants :
  src_exit_generic = r_exit (fail_result []) /\ src_exit_usage = r_exit usage_result /\
  src_flushes = CODE_FLUSHES /\
  src_yaml_sep = s_dashes /\ src_yaml_item_end = [NL] /\ src_yaml_end = s_dots /\ src_yaml_end_nl = s_dots ++ [NL] /\
  src_cmdline = s_cmdline /\ src_stdin = s_stdin /\ src_ext_prefix = lit_ext /\ src_tla_prefix = lit_tla /\
  src_var_order = [0; 1; 2; 3; 4; 5; 6; 7] /\ src_split_first = true.
Proof. repeat split; reflexivity. Qed.

(* the exit status is 0, 1 or 2 — in particular no panic site of the glue is reachable *)
Theorem C12_cli_exit_in_012 : forall c w,
  r_exit (run c w) = 0 \/ r_exit (run c w) = 1 \/ r_exit (run c w) = 2.
Proof. intros c w. exact (cli_exit_in_012 CODE_FLUSHES c w). Qed.

Theorem C12_no_panic : forall c w, r_exit (run c w) <> 134.
Proof. intros c w. exact (no_panic CODE_FLUSHES c w). Qed.

(* exit 2 exactly for usage errors (clap's verdict, or -S with -y), and then nothing else happens;
   a var=file argument without '=' is such an error *)
Theorem C12_usage_is_2 : forall c w,
  (r_exit (run c w) = 2 <-> (w_clap_ok w = false \/ (c_string c && c_yaml c) = true)) /\
  (r_exit (run c w) = 2 -> run c w = usage_result) /\
  (forall rc, (exists s, In s (rc_ext_str_file rc) /\ ~ In EQ s) -> run_raw rc w = usage_result).
Proof.
  intros c w. destruct (usage_is_2 CODE_FLUSHES c w) as [A B]. split; [exact A|]. split; [exact B|].
  intros rc H. apply usage_raw. unfold parse_config. rewrite (parse_var_files_none _ H). reflexivity.
Qed.

(* exit <> 0: stderr explains; nothing reached stdout and no -o write happened, or the
   failure IS the write and what the sink holds is a proper prefix of the output *)
Theorem C12_stdout_only_on_success : forall c w,
  r_exit (run c w) <> 0 -> failure_shape_r c w (run c w).
Proof. intros c w. exact (stdout_only_on_success CODE_FLUSHES c w). Qed.

(* exit 0 (stdout not closed): load, evaluation and manifestation succeeded, every fs::write
   succeeded, and the complete output is in the -o file / on stdout *)
Theorem C12_write_failure_is_exit1 : forall c w,
  is_dev (w_stdout w) -> r_exit (run c w) = 0 -> delivered_r c w (run c w).
Proof. exact write_failure_is_exit1. Qed.

(* and with healthy sinks a completed computation is always delivered with exit 0 *)
Theorem C12_healthy_run_succeeds : forall c w out files warned,
  w_stdout w = SoDev None -> (forall p, c_output c = Some p -> w_target w p = TDev None) ->
  compute c w = CReady out files warned ->
  r_exit (run c w) = 0 /\ delivered_r c w (run c w).
Proof. intros c w. exact (healthy_run_succeeds CODE_FLUSHES c w). Qed.

(* why the flush is needed (the finding repaired by the fix: commit): main.rs without it
   (write_all only, [run_gen false]) exits 0 on a full device with the output lost, although
   the same output with a trailing newline exits 1 *)
Example C12_needs_flush :
  let c := ex_cfg true false true None None in
  let w := ex_world [(1, ShStr ex_abc)] [] (SoDev (Some 0)) in
  compute c w = CReady ex_abc [] false /\ r_exit (run_gen false c w) = 0 /\ r_stdout (run_gen false c w) = [] /\
  r_exit (run_gen true c w) = 1 /\
  r_exit (run_gen false (ex_cfg true false false None None) w) = 1.
Proof. vm_compute. repeat split. Qed.

(* -S: the output is the string itself (plus the newline unless --no-trailing-newline) *)
Theorem C12_string_mode_is_value : forall c w out files warned,
  c_string c = true -> c_multi c = None -> compute c w = CReady out files warned ->
  exists s v str, prepare c w = POk s v warned /\ w_shape w v = ShStr str /\
                  out = str ++ nl_unless_ntn c /\ files = [].
Proof. exact string_mode_is_value. Qed.

(* -y: "---\n" item "\n" for every element's JSON, then "..." ; nothing at all for [] *)
Theorem C12_yaml_stream_shape : forall c w out files warned,
  c_yaml c = true -> c_string c = false -> c_multi c = None -> compute c w = CReady out files warned ->
  exists s v items texts, prepare c w = POk s v warned /\ w_shape w v = ShArr items /\
    Forall2 (fun i t => w_manifest w s i = Some t) items texts /\
    out = match texts with
          | [] => []
          | _ => concat (map (fun t => s_dashes ++ t ++ [NL]) texts) ++ s_dots ++ nl_unless_ntn c
          end /\ files = [].
Proof. exact yaml_stream_shape. Qed.

(* -m: one file per visible field, at dir/name, holding that field's view; stdout lists the paths *)
Theorem C12_multi_files_are_visible_fields : forall c w dir out files warned,
  c_multi c = Some dir -> compute c w = CReady out files warned ->
  exists s v fields reprs, prepare c w = POk s v warned /\ w_shape w v = ShObj fields /\
    Forall2 (fun fv r => value_to_repr c w s (snd fv) = Some r) fields reprs /\
    files = map (fun fr => (path_join dir (fst (fst fr)), FsWrote (snd fr) true)) (combine fields reprs) /\
    out = concat (map (fun fv => path_join dir (fst fv) ++ [NL]) fields).
Proof. exact multi_files_are_visible_fields. Qed.

(* --no-trailing-newline drops exactly the final newline (the empty YAML stream has none to drop) *)
Theorem C12_no_trailing_newline_only_last : forall c w,
  (forall s v out, value_to_repr (with_ntn false c) w s v = Some out ->
     exists out', value_to_repr (with_ntn true c) w s v = Some out' /\
       (out = out' ++ [NL] \/
        (out = [] /\ out' = [] /\ c_string c = false /\ c_yaml c = true /\ w_shape w v = ShArr []))) /\
  (forall out files warned, c_multi c = None -> compute (with_ntn false c) w = CReady out files warned ->
     exists out', compute (with_ntn true c) w = CReady out' files warned /\
       (out = out' ++ [NL] \/ (out = [] /\ out' = [] /\ c_string c = false /\ c_yaml c = true))).
Proof.
  intros c w. split.
  - intros s v out. exact (value_to_repr_ntn c w s v out).
  - intros out files warned. exact (no_trailing_newline_only_last c w out files warned).
Qed.

(* top-level arguments bind by name: a successful binding gives every parameter the argument
   of its own name and the default otherwise; it succeeds exactly when the names are distinct,
   all are parameters, and every parameter without default is named *)
Theorem C12_tla_bind_by_name : forall params named, NoDup (map fst params) ->
  (forall bs, bind_tla params named = Ok bs ->
     bs = bind_spec params named /\ NoDup (map fst named) /\ incl (map fst named) (map fst params) /\
     (forall p, In (p, false) params -> In p (map fst named))) /\
  (NoDup (map fst named) -> incl (map fst named) (map fst params) ->
   (forall p, In (p, false) params -> In p (map fst named)) ->
   bind_tla params named = Ok (bind_spec params named)).
Proof.
  intros params named Hnd. split.
  - intros bs H. exact (bind_tla_sound params named bs Hnd H).
  - exact (bind_tla_complete params named Hnd).
Qed.

Theorem C12_tla_bind_permutation : forall params named named' bs,
  NoDup (map fst params) -> Permutation named named' ->
  bind_tla params named = Ok bs -> bind_tla params named' = Ok bs.
Proof. exact bind_tla_permutation. Qed.

(* the glue evaluates nothing but the root of the input: code given with --ext-code /
   --tla-code is loaded (a source that does not load is exit 1) and handed over unevaluated *)
Theorem C12_ext_code_lazy : forall c w,
  (forall e, (forall s id, load_input c w = Some id -> e s (ThLoaded id) = w_eval w s (ThLoaded id)) ->
     run c (with_eval e w) = run c w) /\
  (forall a rest, w_clap_ok w = true -> (c_string c && c_yaml c) = false ->
     c_ext_str c = [] -> c_ext_str_file c = [] -> c_ext_code c = a :: rest ->
     ext_code_to_thunk w lit_ext a = None -> r_exit (run c w) = 1).
Proof.
  intros c w. split.
  - intros e. exact (ext_code_lazy CODE_FLUSHES c w e).
  - intros a rest. exact (ext_code_load_failure_is_exit1 CODE_FLUSHES c w a rest).
Qed.

(* what std.extVar can see: when the value to print is known, the session the evaluator ran
   with carries, in argument order (str, str-file, code, code-file), one binding per external
   variable under the argument's own name, all names distinct, each made by the matching
   constructor; and --ext-str k=v binds k to exactly the bytes after the first '=' *)
Theorem C12_ext_bindings_exact : forall c w s v warned,
  prepare c w = POk s v warned ->
  (exists t1 t2 t3 t4,
    Forall2 (fun a t => ext_str_to_thunk w a = Some t) (c_ext_str c) t1 /\
    Forall2 (fun a t => ext_str_file_to_thunk w a = Some t) (c_ext_str_file c) t2 /\
    Forall2 (fun a t => ext_code_to_thunk w lit_ext a = Some t) (c_ext_code c) t3 /\
    Forall2 (fun a t => ext_code_file_to_thunk w a = Some t) (c_ext_code_file c) t4 /\
    s_ext s = combine (map vo_var (c_ext_str c)) t1 ++ combine (map vf_var (c_ext_str_file c)) t2 ++
              combine (map vo_var (c_ext_code c)) t3 ++ combine (map vf_var (c_ext_code_file c)) t4 /\
    NoDup (map vo_var (c_ext_str c) ++ map vf_var (c_ext_str_file c) ++
           map vo_var (c_ext_code c) ++ map vf_var (c_ext_code_file c))) /\
  s_max_stack s = c_max_stack c /\ s_max_trace s = c_max_trace c /\ s_jpath s = rev (c_jpath c) /\
  (forall k val, ~ In EQ k -> ext_str_to_thunk w (parse_var_opt_val (k ++ EQ :: val)) = Some (ThStr val)).
Proof.
  intros c w s v warned H. destruct (prepare_session c w s v warned H) as (ext & He & Hs). subst s. cbn.
  split; [exact (ext_bindings_exact c w ext He)|]. repeat split. intros k val. exact (ext_str_exact w k val).
Qed.

(* an input that cannot be read (stdin failure, missing / unreadable file) or loaded: exit 1 and nothing else *)
Theorem C12_input_failure_is_exit1 : forall c w,
  w_clap_ok w = true -> (c_string c && c_yaml c) = false ->
  (load_input c w = None -> run c w = fail_result []) /\
  (c_exec c = false -> c_input c = s_minus -> w_stdin w = None -> run c w = fail_result []).
Proof.
  intros c w Hclap Hsy. split.
  - intros Hl. exact (input_failure_is_exit1 CODE_FLUSHES c w Hclap Hsy Hl).
  - intros He Hi Hs. exact (input_failure_is_exit1 CODE_FLUSHES c w Hclap Hsy (stdin_failure_no_load c w He Hi Hs)).
Qed.

(* top-level arguments given twice, or given to a program that is not a function, never end with exit 0 *)
Theorem C12_tla_misuse_never_succeeds : forall c w tla warned,
  (forall v params, w_shape w v = ShFunc params -> NoDup (map fst params)) ->
  all_tla c w = Some (tla, warned) ->
  (~ NoDup (map fst tla) \/
   (tla <> [] /\ forall s id v, load_input c w = Some id -> w_eval w s (ThLoaded id) = Some v ->
                                forall params, w_shape w v <> ShFunc params)) ->
  r_exit (run c w) <> 0.
Proof. intros c w. exact (tla_misuse_never_succeeds CODE_FLUSHES c w). Qed.

(* var[=val] and var=file split at the first '=' *)
Theorem C12_var_split_at_first_eq : forall k v, ~ In EQ k ->
  parse_var_opt_val (k ++ EQ :: v) = {| vo_var := k; vo_val := Some v |} /\
  parse_var_file (k ++ EQ :: v) = Some {| vf_var := k; vf_file := v |}.
Proof. exact var_split_at_first_eq. Qed.

(* non-vacuity: the hypotheses of the mode theorems are met by running worlds *)
Example C12_nonvacuous :
  (* -S "abc" on a healthy stdout *)
  run (ex_cfg true false false None None) (ex_world [(1, ShStr ex_abc)] [] (SoDev None))
    = {| r_exit := 0; r_stdout := ex_abc ++ [NL]; r_stderr := false; r_files := [] |} /\
  (* -y [1, [ ]] *)
  run (ex_cfg false true true None None)
      (ex_world [(1, ShArr [2; 3])] [(2, Some [49]); (3, Some [91; 32; 93])] (SoDev None))
    = {| r_exit := 0; r_stdout := [45; 45; 45; 10; 49; 10; 45; 45; 45; 10; 91; 32; 93; 10; 46; 46; 46];
         r_stderr := false; r_files := [] |} /\
  (* -m d {a: 1, b: "x"} with -o o *)
  run (ex_cfg false false false (Some [100]) (Some [111]))
      (ex_world [(1, ShObj [([97], 2); ([98], 3)])] [(2, Some [49]); (3, Some [34; 120; 34])] (SoDev None))
    = {| r_exit := 0; r_stdout := []; r_stderr := false;
         r_files := [([100; 47; 97], FsWrote [49; 10] true); ([100; 47; 98], FsWrote [34; 120; 34; 10] true);
                     ([111], FsWrote [100; 47; 97; 10; 100; 47; 98; 10] true)] |} /\
  (* a full -o device *)
  r_exit (run (ex_cfg true false true None (Some [102])) (ex_world [(1, ShStr ex_abc)] [] (SoDev None))) = 1 /\
  (* a value of the wrong type, and -S with -y *)
  r_exit (run (ex_cfg true false false None None) (ex_world [(1, ShOther)] [(1, Some [49])] (SoDev None))) = 1 /\
  r_exit (run (ex_cfg true true false None None) (ex_world [(1, ShStr ex_abc)] [] (SoDev None))) = 2 /\
  (* binding: a named, b defaulted; unknown / repeated / unbound *)
  bind_tla [([97], false); ([98], true)] [([97], ThStr [120])] = Ok [BArg (ThStr [120]); BDefault] /\
  bind_tla [([97], false)] [([122], ThStr [])] = Err UnknownCallParam /\
  bind_tla [([97], false)] [([97], ThStr []); ([97], ThStr [])] = Err RepeatedCallParam /\
  bind_tla [([97], false); ([98], true)] [([98], ThStr [])] = Err CallParamNotBound.
Proof. vm_compute. repeat split. Qed.

Print Assumptions C12_source_constants.
Print Assumptions C12_cli_exit_in_012.
Print Assumptions C12_usage_is_2.
Print Assumptions C12_stdout_only_on_success.
Print Assumptions C12_write_failure_is_exit1.
Print Assumptions C12_healthy_run_succeeds.
Print Assumptions C12_string_mode_is_value.
Print Assumptions C12_yaml_stream_shape.
Print Assumptions C12_multi_files_are_visible_fields.
Print Assumptions C12_no_trailing_newline_only_last.
Print Assumptions C12_tla_bind_by_name.
Print Assumptions C12_tla_bind_permutation.
Print Assumptions C12_ext_code_lazy.
Print Assumptions C12_ext_bindings_exact.
Print Assumptions C12_input_failure_is_exit1.
Print Assumptions C12_tla_misuse_never_succeeds.
Print Assumptions C12_var_split_at_first_eq.
Print Assumptions C12_no_panic.
Print Assumptions C12_needs_flush.
Print Assumptions C12_nonvacuous.
