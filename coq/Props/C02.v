(* Props/C02.v — pinned theorems of C02 (the core language evaluates as the Jsonnet specification defines).
   Model: Model/RefCore.v (desugaring), Model/RefValue.v, Model/RefEval.v (reference interpreter). *)
From RJ Require Import Base.Outcome Base.F64 Model.Token Model.Ast Model.RefCore Model.RefValue Model.RefEval.
From RJ Require Import Proofs.RefSem_proofs Proofs.RefSem_laws Proofs.RefSem_params.
From RJ Require Import Model.Analyze Proofs.RefScope_defs Proofs.RefScope_main Proofs.RefScope_static.
From RJ Require Import Proofs.RefInherit_proofs Proofs.RefNeed_proofs.
From RJ Require Import Proofs.RefDead_defs Proofs.RefDead_proofs Proofs.RefDead_main Proofs.RefDead_thm Proofs.RefDead_builtins Proofs.RefDead_final Proofs.RefCoin_proofs Proofs.RefShift_proofs Proofs.RefShift_thm.
Local Open Scope N_scope.

(* ---- the interpreter is a function; more fuel / a larger stack limit never change a verdict ---- *)
Theorem C02_refsem_deterministic : forall fuel c e r1 r2, run fuel c e = r1 -> run fuel c e = r2 -> r1 = r2.
Proof. exact run_deterministic. Qed.

Theorem C02_fuel_monotone : forall fuel fuel' c e r,
  run fuel c e = r -> snd r <> OutOfFuel -> (fuel <= fuel')%nat -> run fuel' c e = r.
Proof. exact fuel_monotone. Qed.

Theorem C02_limit_monotone : forall fuel c c' e r,
  run fuel c e = r -> snd r <> Err EStackOverflow ->
  c_bfs c = c_bfs c' -> c_ts_tail c = c_ts_tail c' -> c_limit c <= c_limit c' ->
  run fuel c' e = r.
Proof. exact limit_monotone. Qed.

Theorem C02_evaluates_functional : forall c e r1 r2, evaluates c e r1 -> evaluates c e r2 -> r1 = r2.
Proof. exact evaluates_functional. Qed.

(* ---- the specification's desugaring laws, in every syntactic position (io, tl arbitrary) ---- *)
Theorem C02_ne_desugars : forall io tl sp sp1 sp2 l r,
  ds_expr io tl (EBinary sp l BNe r) = ds_expr io tl (EUnary sp1 ULogicNot (EBinary sp2 l BEq r)).
Proof. exact ne_desugars. Qed.

Theorem C02_objext_desugars : forall io tl sp sp1 sp2 e o osp,
  ds_expr io tl (EObjExt sp e o osp) = ds_expr io tl (EBinary sp1 e BAdd (EObject sp2 o)).
Proof. exact objext_desugars. Qed.

Theorem C02_if_no_else_desugars : forall io tl sp sp1 sp2 c t,
  ds_expr io tl (EIf sp c t None) = ds_expr io tl (EIf sp1 c t (Some (ENull sp2))).
Proof. exact if_no_else_desugars. Qed.

Theorem C02_local_function_desugars : forall io tl sp sp1 f ps psp b rest body,
  ds_expr io tl (ELocal sp (MkBind f (Some (ps, psp)) b :: rest) body)
  = ds_expr io tl (ELocal sp (MkBind f None (EFunc sp1 ps b) :: rest) body).
Proof. exact local_function_desugars. Qed.

Theorem C02_field_function_desugars : forall io tl sp sp1 name ps psp vis b before after,
  ds_expr io tl (EObject sp (OMembers (before ++ MField (FFunc name ps psp vis b) :: after)))
  = ds_expr io tl (EObject sp (OMembers (before ++ MField (FValue name false vis (EFunc sp1 ps b)) :: after))).
Proof. exact field_function_desugars. Qed.

Theorem C02_paren_transparent : forall sp e, desugar (EParen sp e) = desugar e.
Proof. exact paren_transparent. Qed.

Theorem C02_dollar_is_outermost_self : forall tl sp s1 s2 s3 ms,
  ds_expr false tl (EObject sp (OMembers ms))
  = CObject (ds_bind true (MkBind {| id_value := dollar; id_span := s1 |} None (ESelf s2)) :: flat_map ds_local_of ms)
            (flat_map ds_assert_of ms) (flat_map (ds_field_of false) ms)
  /\ ds_expr true tl (EObject sp (OMembers ms))
     = CObject (flat_map ds_local_of ms) (flat_map ds_assert_of ms) (flat_map (ds_field_of true) ms)
  /\ (forall io, ds_expr io tl (EDollar s3) = ds_expr io tl (EIdent s3 {| id_value := dollar; id_span := s1 |})).
Proof. exact dollar_is_outermost_self. Qed.

(* equal desugarings evaluate equally: each law above is an equality of evaluation *)
Theorem C02_desugar_eq_run : forall e1 e2, desugar e1 = desugar e2 -> forall fuel c, run fuel c e1 = run fuel c e2.
Proof. exact desugar_eq_run. Qed.

(* ---- the same laws read semantically on the core interpreter ---- *)
Theorem C02_ne_is_not_eq : forall f c en l r d,
  run_task (S (S f)) c (TEval en (CUn ULogicNot (CBin BEq l r))) d
  = run_task (S f) c (TEval en (CBin BNe l r)) d.
Proof. exact ne_is_not_eq. Qed.

Theorem C02_assert_is_if_error : forall f c en cnd m m' body d t1,
  run_task f c (TEval en cnd) d = (t1, Ok (AVal (VBool true))) ->
  run_task (S f) c (TEval en (CAssert cnd m body)) d
  = run_task (S f) c (TEval en (CIte cnd body (CError m'))) d.
Proof. exact assert_is_if_error. Qed.

Theorem C02_assert_true_transparent : forall f c en cnd m body d t1 t2 v,
  run_task f c (TEval en cnd) d = (t1, Ok (AVal (VBool true))) ->
  run_task f c (TEval en body) d = (t2, Ok (AVal v)) ->
  run_task (S f) c (TEval en (CAssert cnd m body)) d = (t1 ++ t2, Ok (AVal v)).
Proof. exact assert_true_transparent. Qed.

Theorem C02_if_true : forall f c en cnd a b d t1 t2 v,
  run_task f c (TEval en cnd) d = (t1, Ok (AVal (VBool true))) ->
  run_task f c (TEval en a) d = (t2, Ok (AVal v)) ->
  run_task (S f) c (TEval en (CIte cnd a b)) d = (t1 ++ t2, Ok (AVal v)).
Proof. exact if_true. Qed.

Theorem C02_if_false : forall f c en cnd a b d t1 t2 v,
  run_task f c (TEval en cnd) d = (t1, Ok (AVal (VBool false))) ->
  run_task f c (TEval en b) d = (t2, Ok (AVal v)) ->
  run_task (S f) c (TEval en (CIte cnd a b)) d = (t1 ++ t2, Ok (AVal v)).
Proof. exact if_false. Qed.

(* ---- error messages ---- *)
Theorem C02_error_message_string : forall f c en e d t s,
  fits c d ->
  run_task f c (TEval en e) (d + 1) = (t, Ok (AVal (VStr s))) ->
  run_task (S f) c (TEval en (CError e)) d = (t, Err (EExplicit s)).
Proof. exact error_message_string. Qed.

Theorem C02_error_message : forall f c en e d t v t2 j s,
  fits c d ->
  run_task f c (TEval en e) (d + 1) = (t, Ok (AVal v)) ->
  (forall s0, v <> VStr s0) ->
  run_task f c (TManifest true v) (d + 1) = (t2, Ok (AJson j)) ->
  render j = Some s ->
  run_task (S f) c (TEval en (CError e)) d = (t ++ t2, Err (EExplicit s)).
Proof. exact error_message. Qed.

Theorem C02_assert_message : forall f c en cnd m body d t1 t2 s,
  run_task f c (TEval en cnd) d = (t1, Ok (AVal (VBool false))) ->
  run_task f c (TEval en m) d = (t2, Ok (AVal (VStr s))) ->
  run_task (S f) c (TEval en (CAssert cnd (Some m) body)) d = (t1 ++ t2, Err (EAssertFailed (Some s))).
Proof. exact assert_message. Qed.

Theorem C02_assert_no_message : forall f c en cnd body d t1,
  run_task f c (TEval en cnd) d = (t1, Ok (AVal (VBool false))) ->
  run_task (S f) c (TEval en (CAssert cnd None body)) d = (t1, Err (EAssertFailed None)).
Proof. exact assert_nomsg. Qed.

(* ---- parameter binding ---- *)
Theorem C02_defaults_see_all_params : forall ps pos named b ds fenv,
  bind_args ps pos named = Ok (b, ds) ->
  (forall x, In x (map fst ps) -> lookup_var x (FVars b ds :: fenv) <> None) /\
  (forall x de, assoc x b = None -> assoc x ds = Some de ->
                lookup_var x (FVars b ds :: fenv) = Some (Th de (FVars b ds :: fenv))).
Proof. exact defaults_see_all_params. Qed.

Theorem C02_named_positional_disjoint : forall ps pos named bpos rest x t t',
  NoDup (map fst ps) ->
  bind_positional ps pos = Some (bpos, rest) ->
  assoc x bpos = Some t -> In (x, t') named ->
  exists e, bind_args ps pos named = Err e.
Proof. exact named_positional_disjoint. Qed.

(* ---- run-time scope soundness (C09, second sentence, over this evaluator) ---- *)
Theorem C02_core_no_static_error : forall x, closed [s_std] false x ->
  forall fuel c, ~ static_error (run_core fuel c x).
Proof. exact core_no_static_error. Qed.

Theorem C02_static_ok_closed : forall e, StaticOK [s_std] false e -> closed [s_std] false (desugar e).
Proof. exact static_ok_closed. Qed.

Theorem C02_refeval_no_static_error : forall e, StaticOK [s_std] false e ->
  forall fuel c, ~ static_error (run fuel c e).
Proof. exact refeval_no_static_error. Qed.

(* ---- inheritance laws (C07) over this evaluator ---- *)
Theorem C02_plus_assoc : forall f c en a b c0 d ta tb tc la lb lc ca cb cc,
  run_task f c (TEval en a) d = (ta, Ok (AVal (VObj la ca))) ->
  run_task f c (TEval en b) d = (tb, Ok (AVal (VObj lb cb))) ->
  run_task f c (TEval en c0) d = (tc, Ok (AVal (VObj lc cc))) ->
  run_task (S (S f)) c (TEval en (CBin BAdd (CBin BAdd a b) c0)) d = (ta ++ tb ++ tc, Ok (AVal (VObj (lc ++ lb ++ la) false)))
  /\ run_task (S (S f)) c (TEval en (CBin BAdd a (CBin BAdd b c0))) d = (ta ++ tb ++ tc, Ok (AVal (VObj (lc ++ lb ++ la) false))).
Proof. exact plus_assoc. Qed.

Theorem C02_plus_empty_l : forall e lo, l_fields e = [] ->
  (forall from n, from <= lenN lo -> find_field (lo ++ [e]) from n = find_field lo from n) /\
  (forall from n, from <= lenN lo -> has_field (lo ++ [e]) from n = has_field lo from n) /\
  (forall n, RefValue.field_vis (lo ++ [e]) n = RefValue.field_vis lo n) /\
  (forall n, is_visible (lo ++ [e]) n = is_visible lo n) /\
  all_names (lo ++ [e]) = all_names lo /\
  visible_names (lo ++ [e]) = visible_names lo.
Proof. exact plus_empty_l. Qed.

Theorem C02_plus_empty_r : forall e lo, l_fields e = [] ->
  (forall n, find_field (e :: lo) 0 n = option_map (shift 1) (find_field lo 0 n)) /\
  (forall n, has_field (e :: lo) 0 n = has_field lo 0 n) /\
  (forall n, RefValue.field_vis (e :: lo) n = RefValue.field_vis lo n) /\
  (forall n, is_visible (e :: lo) n = is_visible lo n) /\
  all_names (e :: lo) = all_names lo /\
  visible_names (e :: lo) = visible_names lo.
Proof. exact plus_empty_r. Qed.

Theorem C02_override_wins : forall la lb n, has_field lb 0 n = true -> find_field (lb ++ la) 0 n = find_field lb 0 n.
Proof. exact override_wins. Qed.

Theorem C02_inherited_field : forall la lb n, has_field lb 0 n = false ->
  find_field (lb ++ la) 0 n = option_map (shift (lenN lb)) (find_field la 0 n).
Proof. exact inherited_field. Qed.

Theorem C02_self_field_is_top_lookup : forall f c en ls i g d t o,
  lookup_obj en = Some (ls, i, true) -> fits c d -> has_field ls 0 g = true ->
  run_task (S f) c (TField ls 0 g) (d + 1) = (t, o) ->
  (forall v, o = Ok (AVal v) -> run_task (S (S f)) c (TEval en (CField CSelf g)) d = (t, Ok (AVal v))) /\
  (forall e, o = Err e -> run_task (S (S f)) c (TEval en (CField CSelf g)) d = (t, Err e)).
Proof. exact self_field_is_top_lookup. Qed.

Theorem C02_self_is_final : forall f c la lb i l fld g d t o,
  fits c d -> has_field lb 0 g = true ->
  run_task (S f) c (TField (lb ++ la) 0 g) (d + 1) = (t, o) ->
  find_field (lb ++ la) 0 g = find_field lb 0 g /\
  (forall v, o = Ok (AVal v) ->
     run_task (S (S f)) c (TEval (field_env (lb ++ la) i l fld) (CField CSelf g)) d = (t, Ok (AVal v))) /\
  (forall e, o = Err e ->
     run_task (S (S f)) c (TEval (field_env (lb ++ la) i l fld) (CField CSelf g)) d = (t, Err e)).
Proof. exact self_is_final. Qed.

(* ---- call-by-need rewrite laws (C04) over this evaluator ---- *)
Theorem C02_rw_array_proj : forall f c en e d t o,
  fits c d -> run_task f c (TEval en e) (d + 1) = (t, o) -> passes o ->
  run_task (S (S f)) c (TEval en (CIndex (CArray [e]) (CNum f_zero))) d = (t, o).
Proof. exact rw_array_proj. Qed.

Theorem C02_rw_identity : forall f c en x e tl d t o,
  fits c d -> fits c (d + 1) -> run_task f c (TEval en e) (d + 1 + 1) = (t, o) -> passes o ->
  run_task (S (S (S (S f)))) c (TEval en (CCall (CFunc [(x, None)] (CVar x)) [e] [] false tl)) d = (t, o).
Proof. exact rw_identity. Qed.

(* local x = e; x  is  e  in the environment extended by that very binding (the step from there
   to the bare environment, for x not free in e, is the coincidence goal) *)
Theorem C02_rw_local_name : forall f c en x e d t o,
  fits c d -> run_task f c (TEval (FVars [] [(x, e)] :: en) e) (d + 1) = (t, o) -> passes o ->
  run_task (S (S (S f))) c (TEval en (CLocal [(x, e)] (CVar x))) d = (t, o).
Proof. exact rw_local_name. Qed.

(* ---- a dead local binding is irrelevant: value, error AND trace, every fuel / limit / switch ---- *)
Theorem C02_builtin_sim : forall x e1 e2, builtin_sim_at x e1 e2.
Proof. exact builtin_sim. Qed.

Theorem C02_dead_local_core : forall x e1 e2 body,
  closed (rm x [s_std]) false body ->
  forall fuel c, run_core fuel c (CLocal [(x, e1)] body) = run_core fuel c (CLocal [(x, e2)] body).
Proof. exact dead_local_core_full. Qed.

Theorem C02_dead_local_irrelevant : forall sp xid e1 e2 body,
  id_value xid <> s_std ->
  StaticOK [s_std] false body ->
  forall fuel c, run fuel c (ELocal sp [MkBind xid None e1] body) = run fuel c (ELocal sp [MkBind xid None e2] body).
Proof. exact dead_local_irrelevant_full. Qed.

(* ---- coincidence for an unused extra frame, and  local x = e; x  ==  e  (bare) ---- *)
Theorem C02_extra_frame_invisible : forall x e body fuel c d,
  closed (rm x [s_std]) false body ->
  rrel (ans_rel x (dframe x e) [])
       (run_task fuel c (TEval (FVars [] [(x, e)] :: init_env) body) d)
       (run_task fuel c (TEval init_env body) d).
Proof. exact extra_frame_invisible. Qed.

Theorem C02_rw_local_name_bare : forall x e f c,
  closed (rm x [s_std]) false e -> fits c 0 ->
  settled (snd (run_top_at 1 e c (run_task f c))) ->
  run_core (S (S (S f))) c (CLocal [(x, e)] (CVar x)) = run_top_at 1 e c (run_task f c).
Proof. exact rw_local_name_bare. Qed.

Theorem C02_rw_local_name_source : forall sp sp2 xid e f c,
  id_value xid <> s_std -> StaticOK [s_std] false e -> fits c 0 ->
  settled (snd (run_top_at 1 (desugar e) c (run_task f c))) ->
  run (S (S (S f))) c (ELocal sp [MkBind xid None e] (EIdent sp2 xid)) = run_top_at 1 (desugar e) c (run_task f c).
Proof. exact rw_local_name_source. Qed.

(* depth-shift invariance: depth d+1 under limit L+1 is depth d under limit L *)
Theorem C02_depth_shift : forall c c' f t d, cfgs c c' -> run_task f c' t (d + 1) = run_task f c t d.
Proof. exact depth_shift. Qed.

(* local x = e; x  gives exactly the result of the program e (one more frame of stack, three more units of fuel) *)
Theorem C02_rw_local_name_full : forall x e f c c',
  cfgs c c' -> closed (rm x [s_std]) false e ->
  settled (snd (run_core f c e)) -> snd (run_core f c e) <> Err EStackOverflow ->
  run_core (S (S (S f))) c' (CLocal [(x, e)] (CVar x)) = run_core f c e.
Proof. exact rw_local_name_full. Qed.

(* ---- not proved (kept as goals): the two documented deviations of the implementation can only
        change WHICH error is reported, or turn an error into a value — never a value ---- *)
Definition C02_goal_comprehension_order : Prop := forall fuel lim ts e t j,
  run fuel {| c_limit := lim; c_bfs := false; c_ts_tail := ts |} e = (t, Ok j) ->
  exists fuel' t', run fuel' {| c_limit := lim; c_bfs := true; c_ts_tail := ts |} e = (t', Ok j).
Definition C02_goal_tailstrict_position : Prop := forall fuel lim b e t j,
  run fuel {| c_limit := lim; c_bfs := b; c_ts_tail := false |} e = (t, Ok j) ->
  exists fuel' lim' t', run fuel' {| c_limit := lim'; c_bfs := b; c_ts_tail := true |} e = (t', Ok j).

(* ---- non-vacuity: concrete programs through the kernel (vm_compute) ---- *)
Definition sp0 : span := (0, 0).
Definition idn (s : str) : ident := {| id_value := s; id_span := sp0 |}.
Definition num1 (d : N) : expr := ENumber sp0 {| num_digits := [d + 48]; num_exp := 0%Z |}.
Definition cfg0 : cfg := {| c_limit := 50; c_bfs := false; c_ts_tail := false |}.
(* { a: 1, b: self.a + 2 } *)
Definition prog_obj : expr :=
  EObject sp0 (OMembers [MField (FValue (FnIdent (idn [97])) false VisDefault (num1 1));
                         MField (FValue (FnIdent (idn [98])) false VisDefault
                                   (EBinary sp0 (EField sp0 (ESelf sp0) (idn [97])) BAdd (num1 2)))]).
(* local f(x, y = x) = [x, y]; f(1) != [1, 2] *)
Definition prog_call : expr :=
  ELocal sp0 [MkBind (idn [102]) (Some ([MkParam (idn [120]) None; MkParam (idn [121]) (Some (EIdent sp0 (idn [120])))], sp0))
                (EArray sp0 [EIdent sp0 (idn [120]); EIdent sp0 (idn [121])])]
    (EBinary sp0 (ECall sp0 (EIdent sp0 (idn [102])) [APositional (num1 1)] false) BNe (EArray sp0 [num1 1; num1 2])).
(* assert 1 == 2 : "m"; null *)
Definition prog_assert : expr :=
  EAssert sp0 (MkAssert sp0 (EBinary sp0 (num1 1) BEq (num1 2)) (Some (EString sp0 [109]))) (ENull sp0).
(* error "a" + 1 *)
Definition prog_error : expr := EError sp0 (EBinary sp0 (EString sp0 [97]) BAdd (num1 1)).
(* local x = x; x *)
Definition prog_loop : expr := ELocal sp0 [MkBind (idn [120]) None (EIdent sp0 (idn [120]))] (EIdent sp0 (idn [120])).

Example C02_nonvacuous :
  run 40 cfg0 prog_obj = ([], Ok (JObj [([97], JNum (f_of_Z 1)); ([98], JNum (f_of_Z 3))]))
  /\ run 40 cfg0 prog_call = ([], Ok (JBool true))
  /\ run 40 cfg0 prog_assert = ([], Err (EAssertFailed (Some [109])))
  /\ run 40 cfg0 prog_error = ([], Err (EExplicit [97; 49]))
  /\ run 200 cfg0 prog_loop = ([], Err EStackOverflow)
  /\ run 3 cfg0 prog_obj = ([], OutOfFuel)
  /\ evaluates cfg0 prog_obj ([], Ok (JObj [([97], JNum (f_of_Z 1)); ([98], JNum (f_of_Z 3))]))
  /\ fits cfg0 7
  /\ run_task 5 cfg0 (TEval init_env (CStr [97])) 8 = ([], Ok (AVal (VStr [97])))
  /\ run_task 5 cfg0 (TEval init_env (CBin BEq (CNum (f_of_Z 1)) (CNum (f_of_Z 2)))) 0 = ([], Ok (AVal (VBool false)))
  /\ bind_args [([120], None); ([121], Some (CVar [120]))] [Tv VNull] [] = Ok ([([120], Tv VNull)], [([121], CVar [120])])
  /\ NoDup (map fst [([120], @None cexpr); ([121], None)])
  /\ bind_positional [([120], @None cexpr); ([121], None)] [Tv VNull] = Some ([([120], Tv VNull)], [([121], None)])
  /\ (exists e, bind_args [([120], @None cexpr); ([121], None)] [Tv VNull] [([120], Tv VNull); ([121], Tv VNull)] = Err e).
Proof.
  split; [vm_compute; reflexivity|]. split; [vm_compute; reflexivity|]. split; [vm_compute; reflexivity|].
  split; [vm_compute; reflexivity|]. split; [vm_compute; reflexivity|]. split; [vm_compute; reflexivity|].
  split; [exists 40%nat; split; [vm_compute; reflexivity | vm_compute; discriminate]|].
  split; [vm_compute; reflexivity|]. split; [vm_compute; reflexivity|]. split; [vm_compute; reflexivity|].
  split; [vm_compute; reflexivity|].
  split; [repeat constructor; simpl; intuition discriminate|].
  split; [vm_compute; reflexivity|].
  eexists. vm_compute. reflexivity.
Qed.

(* the static rules accept the object program (self inside an object) and a use of std *)
Example C02_static_nonvacuous : StaticOK [s_std] false prog_obj /\ StaticOK [s_std] false (EIdent sp0 (idn s_std))
  /\ static_error (@pair (list str) (outcome json err) [] (Err (EStatic "UnknownVariable"))).
Proof.
  split; [|split].
  - unfold prog_obj. repeat (econstructor; simpl); intuition discriminate.
  - constructor. left. reflexivity.
  - eexists. reflexivity.
Qed.

Example C02_laws_nonvacuous :
  run_task 5 cfg0 (TEval init_env (CObject [] [] [])) 0 = ([], Ok (AVal (VObj [MkLayer [] [] [] init_env false] false)))
  /\ passes (Ok (AVal VNull)) /\ passes (Err (EExplicit [97])) /\ fits cfg0 0 /\ fits cfg0 (0 + 1)
  /\ run_task 5 cfg0 (TEval init_env (CNum (f_of_Z 1))) (0 + 1) = ([], Ok (AVal (VNum (f_of_Z 1))))
  /\ has_field [MkLayer [] [] [([103], MkField VisDefault false CNull None)] [] false] 0 [103] = true
  /\ l_fields (MkLayer [] [] [] init_env false) = [].
Proof.
  repeat split; try (vm_compute; reflexivity).
  - left. eexists. reflexivity.
  - right. eexists. reflexivity.
Qed.

Print Assumptions C02_refsem_deterministic.
Print Assumptions C02_fuel_monotone.
Print Assumptions C02_limit_monotone.
Print Assumptions C02_evaluates_functional.
Print Assumptions C02_ne_desugars.
Print Assumptions C02_objext_desugars.
Print Assumptions C02_if_no_else_desugars.
Print Assumptions C02_local_function_desugars.
Print Assumptions C02_field_function_desugars.
Print Assumptions C02_paren_transparent.
Print Assumptions C02_dollar_is_outermost_self.
Print Assumptions C02_desugar_eq_run.
Print Assumptions C02_ne_is_not_eq.
Print Assumptions C02_assert_is_if_error.
Print Assumptions C02_assert_true_transparent.
Print Assumptions C02_if_true.
Print Assumptions C02_if_false.
Print Assumptions C02_error_message_string.
Print Assumptions C02_error_message.
Print Assumptions C02_assert_message.
Print Assumptions C02_assert_no_message.
Print Assumptions C02_defaults_see_all_params.
Print Assumptions C02_named_positional_disjoint.
Print Assumptions C02_nonvacuous.
Print Assumptions C02_core_no_static_error.
Print Assumptions C02_static_ok_closed.
Print Assumptions C02_refeval_no_static_error.
Print Assumptions C02_static_nonvacuous.
Print Assumptions C02_plus_assoc.
Print Assumptions C02_plus_empty_l.
Print Assumptions C02_plus_empty_r.
Print Assumptions C02_override_wins.
Print Assumptions C02_inherited_field.
Print Assumptions C02_self_field_is_top_lookup.
Print Assumptions C02_self_is_final.
Print Assumptions C02_rw_array_proj.
Print Assumptions C02_rw_identity.
Print Assumptions C02_rw_local_name.
Print Assumptions C02_laws_nonvacuous.
Print Assumptions C02_builtin_sim.
Print Assumptions C02_dead_local_core.
Print Assumptions C02_dead_local_irrelevant.
Print Assumptions C02_extra_frame_invisible.
Print Assumptions C02_rw_local_name_bare.
Print Assumptions C02_rw_local_name_source.
Print Assumptions C02_depth_shift.
Print Assumptions C02_rw_local_name_full.
