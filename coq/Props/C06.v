(* Props/C06.v — pinned statements for property C06 (numbers are always finite doubles,
   read and printed exactly).  Statements closed by [exact lemma], non-vacuity Examples,
   and [Print Assumptions]. *)
From Coq Require Import ZArith NArith Bool List Floats.SpecFloat.
From RJ Require Import Base.Outcome Base.F64 Model.Dec Model.NumOps Gen.NumGates Proofs.NumOps_proofs.
Local Open Scope Z_scope.

Theorem C06_compare_total_on_finite : forall x y,
  f_is_finite x = true -> f_is_finite y = true -> f_compare x y <> None.
Proof. exact compare_total_on_finite. Qed.

Theorem C06_cmp_num_no_panic : forall x y,
  f_is_finite x = true -> f_is_finite y = true -> exists c, cmp_num x y = Ok c.
Proof. exact cmp_num_no_panic. Qed.

Theorem C06_sum_finite_refuted :
  exists (L : libm_sig) args v,
    Forall (fun a => match a with AArr l => forallb f_is_finite l = true | _ => True end) args /\
    eval_numop L gates_snapshot BSum args = Ok v /\ f_is_finite v = false.
Proof. exact sum_finite_refuted_snapshot. Qed.

Print Assumptions C06_compare_total_on_finite.
Print Assumptions C06_cmp_num_no_panic.
Print Assumptions C06_sum_finite_refuted.
