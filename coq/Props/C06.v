(* Props/C06.v — pinned statements for property C06 (numbers are always finite doubles,
   read and printed exactly).  Statements closed by [exact lemma], non-vacuity Examples,
   and [Print Assumptions]. *)
From Coq Require Import ZArith NArith Bool List Reals Floats.SpecFloat.
From Flocq Require Import Core.Core IEEE754.BinarySingleNaN.
From RJ Require Import Base.Outcome Base.F64 Model.Dec Model.NumOps Gen.NumGates
                       Proofs.Dec_proofs Proofs.NumOps_proofs.
Local Open Scope Z_scope.

(* T: in the current source every producer whose raw result can leave the finite doubles
   carries the finiteness gate *)
Theorem C06_gates_ok : gates_sufficient src_gates /\ src_literal_gated = true.
Proof. split; [intros op; destruct op; simpl; intros H; first [reflexivity | discriminate H] | reflexivity]. Qed.

(* every operator and builtin, whatever libm answers: finite well-formed arguments and a
   successful evaluation give a finite result (for every gate table that gates what needs it) *)
Theorem C06_numop_finite : forall (L : libm_sig) (g : gates) op args v,
  gates_sufficient g -> Forall arg_ok args ->
  eval_numop L g op args = Ok v -> f_is_finite v = true.
Proof. exact numop_finite. Qed.

(* ... in particular for the table read from the current source *)
Theorem C06_numop_finite_src : forall (L : libm_sig) op args v,
  Forall arg_ok args -> eval_numop L src_gates op args = Ok v -> f_is_finite v = true.
Proof. intros L op args v. exact (numop_finite L src_gates op args v (proj1 C06_gates_ok)). Qed.

(* the table of the pinned snapshot (sum/avg ungated) does not have the property:
   std.sum([1e308, 1e308]) = +infinity.  Replayed on the implementation -> fixed in /repo
   (commits 83b474d, 4daf312); kept as the record of why the gate is needed. *)
Theorem C06_sum_finite_refuted :
  exists (L : libm_sig) args v,
    Forall arg_ok args /\ eval_numop L gates_snapshot BSum args = Ok v /\ f_is_finite v = false.
Proof. exact sum_finite_refuted_snapshot. Qed.

(* a literal Number{digits, exp}: either the finite correctly rounded double or NumberOverflow *)
Theorem C06_literal_finite_or_error : forall d e,
  (exists v, literal_value d e = Ok v /\ f_is_finite v = true /\ v = dec_to_f64 d e) \/
  (literal_value d e = Err LitNumberOverflow /\ dec_to_f64 d e = S754_infinity false).
Proof. exact literal_finite_or_error. Qed.

(* the order on doubles is total away from NaN, so partial_cmp().unwrap() cannot panic
   while the invariant holds *)
Theorem C06_compare_total_on_finite : forall x y,
  f_is_finite x = true -> f_is_finite y = true -> f_compare x y <> None.
Proof. exact compare_total_on_finite. Qed.

Theorem C06_cmp_num_no_panic : forall x y,
  f_is_finite x = true -> f_is_finite y = true -> exists c, cmp_num x y = Ok c.
Proof. exact cmp_num_no_panic. Qed.

(* dec_to_f64 d e is the round-to-nearest-even binary64 of d * 10^e; +infinity exactly when
   that rounding reaches 2^1024 *)
Theorem C06_dec_correctly_rounded : forall d e,
  let r := round radix2 (FLT_exp (-1074) 53) ZnearestE (IZR (Z.of_N d) * bpow radix10 e) in
  if Rlt_bool r (bpow radix2 1024)
  then SF2R radix2 (dec_to_f64 d e) = r /\ is_finite_SF (dec_to_f64 d e) = true /\
       sign_SF (dec_to_f64 d e) = false /\ valid_binary 53 1024 (dec_to_f64 d e) = true
  else dec_to_f64 d e = S754_infinity false.
Proof. exact dec_correctly_rounded. Qed.

(* reading is monotone: between two decimals that read as x everything reads as x *)
Theorem C06_dec_monotone : forall da ea db eb dc ec x,
  (dec_val da ea <= dec_val db eb)%R -> (dec_val db eb <= dec_val dc ec)%R ->
  dec_to_f64 da ea = x -> dec_to_f64 dc ec = x -> dec_to_f64 db eb = x.
Proof. exact dec_squeeze. Qed.

Theorem C06_shortest_check_sound : forall x d e,
  shortest_check x d e = true ->
  dec_to_f64 d e = x /\
  forall d' e', (ndigits d' < ndigits d)%N -> dec_to_f64 d' e' <> x.
Proof. exact shortest_check_sound. Qed.

Theorem C06_check_printed_sound : forall x text,
  check_printed x text = true ->
  exists neg d e d' e',
    printed_parse text = Some (neg, d, e) /\ strip_zeros (length text) d e = (d', e') /\
    dec_val d' e' = dec_val d e /\
    neg = f_sign x /\ f_is_finite x = true /\
    ((d' = 0%N /\ f_is_zero x = true) \/
     (d' <> 0%N /\ dec_to_f64 d' e' = SFabs x /\
      forall d2 e2, (ndigits d2 < ndigits d')%N -> dec_to_f64 d2 e2 <> SFabs x)).
Proof. exact check_printed_sound. Qed.

(* non-vacuity: the hypotheses are met by non-trivial values and the conclusions bite *)
Example C06_nonvacuous :
  let big := S754_finite false 5010420900022432 971 in          (* 1e308 *)
  let x03 := dec_to_f64 30000000000000004 (-17) in              (* 0.1 + 0.2 *)
  (* finite well-formed arguments, the gated sum answers NumberOverflow, a small one a value *)
  Forall arg_ok [AArr [big; big]] /\
  eval_numop (const_libm f_nan) src_gates BSum [AArr [big; big]] = Err ENumberOverflow /\
  eval_numop (const_libm f_nan) src_gates BSum [AArr [big; f_one]] = Ok big /\
  eval_numop (const_libm (f_inf false)) src_gates BPow [ANum big; ANum big] = Err ENumberOverflow /\
  eval_numop (const_libm f_one) src_gates BPow [ANum big; ANum f_zero] = Ok f_one /\
  eval_numop (const_libm f_nan) src_gates BRound [ANum (dec_to_f64 25 (-1))] = Ok (f_of_Z 3) /\
  (* literals on both sides of the range limits *)
  literal_value 17976931348623157 292 = Ok f_max /\
  literal_value 1797693134862315807 290 = Ok f_max /\
  literal_value 1797693134862315808 290 = Err LitNumberOverflow /\
  literal_value 1 9223372036854775807 = Err LitNumberOverflow /\
  literal_value 24703282292062328 (-340) = Ok f_min_sub /\
  literal_value 24703282292062327 (-340) = Ok f_zero /\
  (* the shortest check accepts 17 digits only where 16 do not suffice *)
  shortest_check x03 30000000000000004 (-17) = true /\
  shortest_check (dec_to_f64 3 (-1)) 30000000000000000 (-17) = false /\
  shortest_check (dec_to_f64 3 (-1)) 3 (-1) = true /\
  check_printed (SFopp x03) [45; 48; 46; 51; 48; 48; 48; 48; 48; 48; 48; 48; 48; 48; 48; 48; 48; 48; 48; 52]%N = true /\
  check_printed f_max [49; 55; 57; 55; 54; 57; 51; 49; 51; 52; 56; 54; 50; 51; 49; 53; 55; 48; 48; 48]%N = false.
Proof. vm_compute. repeat split; repeat constructor. Qed.

Print Assumptions C06_gates_ok.
Print Assumptions C06_numop_finite.
Print Assumptions C06_numop_finite_src.
Print Assumptions C06_sum_finite_refuted.
Print Assumptions C06_literal_finite_or_error.
Print Assumptions C06_compare_total_on_finite.
Print Assumptions C06_cmp_num_no_panic.
Print Assumptions C06_dec_correctly_rounded.
Print Assumptions C06_dec_monotone.
Print Assumptions C06_shortest_check_sound.
Print Assumptions C06_check_printed_sound.
Print Assumptions C06_nonvacuous.
