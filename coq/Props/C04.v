(* Props/C04.v — pinned statements for property C04 (evaluation is call-by-need:
   unused parts never run, used parts run once; meaning-preserving rewrites leave
   value, error message and std.trace output unchanged).

   The rewrite laws are equalities of [run_in fe fc fm r e]: the complete observable
   outcome of a run (list of std.trace messages in order, and the manifested JSON tree
   or the error / panic site / OutOfFuel) of the call-by-name evaluator of the lazy core
   fragment (Model/LazyCore.v), for ARBITRARY expressions and environments.  [fe] is the
   fuel of the evaluation, [fc] of each closure forced during manifestation, [fm] the
   nesting bound of manifestation; a law "S (S fe) on the left, fe on the right" says the
   redex costs exactly two more levels of fuel and is otherwise indistinguishable
   (in particular: the left side has a proper result iff the right side has, and then
   the same one).
   The machine theorems are about Model/Memo.v (ThunkData::switch_state / set_done,
   State::DoThunk / GotThunk).  This file contains only statements closed by
   [exact lemma], non-vacuity examples, and Print Assumptions. *)
From RJ Require Import Base.Outcome Model.LazyCore Model.Memo Proofs.LazyCore_proofs Proofs.Memo_proofs.

(* coincidence / weakening: evaluation ignores every binding that is not free in the
   expression — environments that give the same closures to the free variables (and the
   same self, if self is mentioned) are indistinguishable *)
Theorem C04_coincidence : forall fe fc fm r1 r2 e,
  (forall x, fvb x e = true -> lookup x r1 = lookup x r2) ->
  (selfb e = true -> self_of r1 = self_of r2) ->
  run_in fe fc fm r1 e = run_in fe fc fm r2 e.
Proof. intros. apply coincidence. split; assumption. Qed.

(* local x = e; x  ==  e *)
Theorem C04_rw_local_name : forall fe fc fm r x e, fvb x e = false ->
  run_in (S (S fe)) fc fm r (ELocal [(x, e)] (EVar x)) = run_in fe fc fm r e.
Proof. exact rw_local_name. Qed.

(* the fuel offset is bookkeeping: both sides have the same proper results *)
Theorem C04_rw_local_name_results : forall fc fm r x e res, fvb x e = false -> snd res <> OutOfFuel ->
  ((exists fe, run_in fe fc fm r (ELocal [(x, e)] (EVar x)) = res) <->
   (exists fe, run_in fe fc fm r e = res)).
Proof. exact rw_local_name_results. Qed.

(* (function(x) x)(e)  ==  e *)
Theorem C04_rw_identity : forall fe fc fm r x e,
  run_in (S (S fe)) fc fm r (ECall (EFunc [(x, None)] (EVar x)) [e]) = run_in fe fc fm r e.
Proof. exact rw_identity. Qed.

(* [e][0]  ==  e *)
Theorem C04_rw_array_proj : forall fe fc fm r e,
  run_in (S (S fe)) fc fm r (EIndex (EArr [e]) (ENum 0)) = run_in (S fe) fc fm r e.
Proof. exact rw_array_proj. Qed.

(* {f: e}.f  ==  e   when e does not mention self (h: the field may be hidden or not) *)
Theorem C04_rw_object_proj : forall fe fc fm r f h e, selfb e = false ->
  run_in (S (S fe)) fc fm r (EField (EObj [(f, (h, e))]) f) = run_in (S fe) fc fm r e.
Proof. exact rw_object_proj. Qed.

(* local x = e0; body  ==  body   when x is not free in body *)
Theorem C04_rw_dead_local : forall fe fc fm r x e0 body, fvb x body = false ->
  run_in (S fe) fc fm r (ELocal [(x, e0)] body) = run_in fe fc fm r body.
Proof. exact rw_dead_local. Qed.

(* a dead bind added anywhere inside an existing, mutually recursive local *)
Theorem C04_rw_dead_bind : forall fe fc fm r bs1 bs2 x e0 body,
  (forall y ey, In (y, ey) (bs1 ++ bs2) -> fvb x ey = false) -> fvb x body = false ->
  run_in fe fc fm r (ELocal (bs1 ++ (x, e0) :: bs2) body) = run_in fe fc fm r (ELocal (bs1 ++ bs2) body).
Proof. exact rw_dead_bind. Qed.

(* a dead hidden field d added to an object that is then used by arbitrary code:
   nothing anywhere (body, the other fields, the closures of the environment) accesses .d *)
Theorem C04_rw_dead_field : forall fe fc fm r d fs1 fs2 e0 o body,
  env_nofld d r = true ->
  forallb (fun f : field => nofld d (snd (snd f))) (fs1 ++ (d, (true, e0)) :: fs2) = true ->
  nofld d body = true ->
  run_in fe fc fm r (ELocal [(o, EObj (fs1 ++ (d, (true, e0)) :: fs2))] body) =
  run_in fe fc fm r (ELocal [(o, EObj (fs1 ++ fs2))] body).
Proof. exact rw_dead_field. Qed.

(* ... and when the object is the value that gets manifested *)
Theorem C04_rw_dead_field_value : forall fe fc fm r d fs1 fs2 e0,
  env_nofld d r = true ->
  forallb (fun f : field => nofld d (snd (snd f))) (fs1 ++ (d, (true, e0)) :: fs2) = true ->
  run_in fe fc fm r (EObj (fs1 ++ (d, (true, e0)) :: fs2)) = run_in fe fc fm r (EObj (fs1 ++ fs2)).
Proof. exact rw_dead_field_value. Qed.

(* a dead optional parameter added to a function that is applied *)
Theorem C04_rw_dead_param : forall fe fc fm r ps p e0 body args,
  length args <= length ps -> fvb p body = false ->
  (forall q dq, In (q, Some dq) ps -> fvb p dq = false) ->
  run_in fe fc fm r (ECall (EFunc (ps ++ [(p, Some e0)]) body) args) =
  run_in fe fc fm r (ECall (EFunc ps body) args).
Proof. exact rw_dead_param. Qed.

(* dead-code irrelevance: what an unused binding is bound to cannot change the outcome *)
Theorem C04_dead_code_irrelevance : forall fe fc fm r x e1 e2 body, fvb x body = false ->
  run_in fe fc fm r (ELocal [(x, e1)] body) = run_in fe fc fm r (ELocal [(x, e2)] body).
Proof. exact dead_code_irrelevance. Qed.

Theorem C04_dead_bind_irrelevance : forall fe fc fm r bs1 bs2 x e1 e2 body,
  (forall y ey, In (y, ey) (bs1 ++ bs2) -> fvb x ey = false) -> fvb x body = false ->
  run_in fe fc fm r (ELocal (bs1 ++ (x, e1) :: bs2) body) =
  run_in fe fc fm r (ELocal (bs1 ++ (x, e2) :: bs2) body).
Proof. exact dead_bind_irrelevance. Qed.

(* in particular a failing expression in a dead position cannot change the outcome *)
Theorem C04_error_in_dead_code : forall fe fc fm r x e msg body, fvb x body = false ->
  run_in fe fc fm r (ELocal [(x, EError (EStr msg))] body) = run_in fe fc fm r (ELocal [(x, e)] body).
Proof. intros. apply dead_code_irrelevance. assumption. Qed.

(* ---- the thunk machine *)

(* in every trace of the machine, from every state, each thunk is Run at most once *)
Theorem C04_run_once : forall (V : Type) (m : mstate V) (es : list (event V)) (id : nat),
  count_run V id (snd (exec V m es)) <= 1.
Proof. exact run_once. Qed.

(* a Done cell stays Done with the same value whatever happens next, and answers a
   DoThunk without running anything and without changing the machine *)
Theorem C04_done_is_stable : forall (V : Type) (es : list (event V)) (m : mstate V) id v,
  nth_error (cells V m) id = Some (Done v) ->
  nth_error (cells V (fst (exec V m es))) id = Some (Done v) /\
  (halted V m = false -> step V m (EvForce id) = (m, OHit id v)).
Proof.
  intros V es m id v H. split.
  - exact (done_is_stable V es m id v H).
  - intros Hh. exact (done_answers_without_run V m id v Hh H).
Qed.

(* no transition leads back to Pending *)
Theorem C04_never_back_to_pending : forall (V : Type) (es : list (event V)) (m : mstate V) id,
  nth_error (cells V m) id = Some InProgress \/ (exists v, nth_error (cells V m) id = Some (Done v)) ->
  nth_error (cells V (fst (exec V m es))) id <> Some Pending /\
  count_run V id (snd (exec V m es)) = 0.
Proof.
  intros V es m id H. split.
  - exact (proj1 (never_back_to_pending V es m id H)).
  - exact (started_never_reruns V m es id H).
Qed.

(* the assert in ThunkData::set_done cannot fire in any run started from the empty machine *)
Theorem C04_set_done_assert_never_fires : forall (V : Type) (es : list (event V)),
  ~ In OPanic (snd (exec V init es)).
Proof. intros V es. apply set_done_assert_never_fires. apply inv_init. Qed.

(* re-entering a thunk under evaluation is reported (InfiniteRecursion) and ends the run *)
Theorem C04_inprogress_reentry_fails : forall (V : Type) (m : mstate V) id,
  halted V m = false -> nth_error (cells V m) id = Some InProgress ->
  snd (step V m (EvForce id)) = OCycle id /\ halted V (fst (step V m (EvForce id))) = true.
Proof. exact inprogress_reentry_fails. Qed.

(* ---- laziness monotonicity: a binding (local, or function argument) that may be free in
   the body but is never demanded in this run can be replaced by anything (a failing
   expression in particular).  Demand is observed by the marker [e1][std.trace(m, 0)],
   which emits m strictly before e1 is evaluated: if m is absent from the trace output of
   a run that did not run out of fuel, rebinding x to any e2 gives exactly the same run. *)
Theorem C04_laziness_monotone : forall fe fc fm r x e1 e2 body m,
  let res := run_in fe fc fm r (ELocal [(x, EIndex (EArr [e1]) (ETrace (EStr m) (ENum 0)))] body) in
  ~ In m (fst res) -> snd res <> OutOfFuel ->
  run_in fe fc fm r (ELocal [(x, e2)] body) = res.
Proof. exact laziness_monotone. Qed.

Theorem C04_laziness_monotone_arg : forall fe fc fm r x e1 e2 body m,
  let res := run_in fe fc fm r (ECall (EFunc [(x, None)] body) [EIndex (EArr [e1]) (ETrace (EStr m) (ENum 0))]) in
  ~ In m (fst res) -> snd res <> OutOfFuel ->
  run_in fe fc fm r (ECall (EFunc [(x, None)] body) [e2]) = res.
Proof. exact laziness_monotone_arg. Qed.

(* ... and for an array item that is never demanded (the array is bound by a local and used
   by arbitrary code) *)
Theorem C04_laziness_monotone_item : forall fe fc fm r x es1 es2 e1 e2 body m,
  let res := run_in fe fc fm r
               (ELocal [(x, EArr (es1 ++ EIndex (EArr [e1]) (ETrace (EStr m) (ENum 0)) :: es2))] body) in
  ~ In m (fst res) -> snd res <> OutOfFuel ->
  run_in fe fc fm r (ELocal [(x, EArr (es1 ++ e2 :: es2))] body) = res.
Proof. exact laziness_monotone_item. Qed.

(* not proved: the same statement for an arbitrary subterm position (object field, nested
   contexts); the implementation-only search checks it at every binding position *)
Definition C04_goal_laziness_monotone_any_context : Prop :=
  forall fe fc fm r c e1 e2 m,
    let res := run_in fe fc fm r (plug c (EIndex (EArr [e1]) (ETrace (EStr m) (ENum 0)))) in
    ~ In m (fst res) -> snd res <> OutOfFuel ->
    run_in fe fc fm r (plug c e2) = res.

(* ---- non-vacuity *)
Local Open Scope N_scope.

Definition nx : name := [120].            (* "x" *)
Definition nf : name := [102].            (* "f" *)
Definition nd : name := [100].            (* "d" *)
Definition msg_t : str := [116].          (* "t" *)
Definition traced_sum : expr := ETrace (EStr msg_t) (EAdd (ENum 1) (ENum 2)).

(* every law has instances whose sides are proper results (a trace and a value / a user
   error), and the dead positions hold failing expressions *)
Example C04_nonvacuous_rewrites :
  fvb nx traced_sum = false /\ selfb traced_sum = false /\
  run_in 12 12 12 RNil (ELocal [(nx, traced_sum)] (EVar nx)) = ([msg_t], Ok (JNum 3)) /\
  run_in 12 12 12 RNil (ECall (EFunc [(nx, None)] (EVar nx)) [traced_sum]) = ([msg_t], Ok (JNum 3)) /\
  run_in 12 12 12 RNil (EIndex (EArr [traced_sum]) (ENum 0)) = ([msg_t], Ok (JNum 3)) /\
  run_in 12 12 12 RNil (EField (EObj [(nf, (false, traced_sum))]) nf) = ([msg_t], Ok (JNum 3)) /\
  run_in 12 12 12 RNil (ELocal [(nx, EError (EStr msg_t))] traced_sum) = ([msg_t], Ok (JNum 3)) /\
  run_in 12 12 12 RNil (ELocal [(nx, EObj ([(nf, (false, traced_sum))] ++ (nd, (true, EError (EStr msg_t))) :: []))] (EVar nx))
    = ([msg_t], Ok (JObj [(nf, JNum 3)])) /\
  run_in 12 12 12 RNil (ECall (EFunc ([(nf, None)] ++ [(nx, Some (EError (EStr msg_t)))]) (EVar nf)) [traced_sum])
    = ([msg_t], Ok (JNum 3)) /\
  run_in 12 12 12 RNil (ELocal [(nx, traced_sum)] (EError (EAdd (EStr msg_t) (EVar nx))))
    = ([msg_t], Err (ExplicitError [116; 51])) /\
  (* call-by-name re-evaluates: the same binding used twice traces twice in the model *)
  fst (run_in 12 12 12 RNil (ELocal [(nx, traced_sum)] (EAdd (EVar nx) (EVar nx)))) = [msg_t; msg_t].
Proof. vm_compute. repeat split. Qed.

(* laziness monotonicity is not vacuous: x is free in the body (in the untaken branch), the
   marker does not fire, the run has a proper result; and when x is demanded the marker fires *)
Example C04_nonvacuous_laziness :
  let mk : str := [109] in
  let body := EIf (EEq (ENum 1) (ENum 1)) traced_sum (EVar nx) in
  fvb nx body = true /\
  run_in 12 12 12 RNil (ELocal [(nx, EIndex (EArr [EError (EStr msg_t)]) (ETrace (EStr mk) (ENum 0)))] body)
    = ([msg_t], Ok (JNum 3)) /\
  fst (run_in 12 12 12 RNil (ELocal [(nx, EIndex (EArr [EError (EStr msg_t)]) (ETrace (EStr mk) (ENum 0)))] (EVar nx)))
    = [mk] /\
  (* an array whose second item is never demanded *)
  run_in 12 12 12 RNil
    (ELocal [(nx, EArr ([traced_sum] ++ EIndex (EArr [EError (EStr msg_t)]) (ETrace (EStr mk) (ENum 0)) :: []))]
            (EIndex (EVar nx) (ENum 0)))
    = ([msg_t], Ok (JNum 3)).
Proof. vm_compute. repeat split. Qed.

Example C04_nonvacuous_machine :
  snd (exec nat init [EvAlloc Pending; EvAlloc Pending;
                      EvForce 0; EvForce 1; EvReturn 21%nat; EvForce 1; EvReturn 42%nat; EvForce 0; EvForce 1])
  = [OAlloc 0; OAlloc 1; ORun 0; ORun 1; OStored 1 21%nat; OHit 1 21%nat; OStored 0 42%nat; OHit 0 42%nat; OHit 1 21%nat]
  /\ snd (exec nat init [EvAlloc Pending; EvForce 0; EvForce 0]) = [OAlloc 0; ORun 0; OCycle 0].
Proof. vm_compute. split; reflexivity. Qed.

Print Assumptions C04_coincidence.
Print Assumptions C04_rw_local_name.
Print Assumptions C04_rw_local_name_results.
Print Assumptions C04_rw_identity.
Print Assumptions C04_rw_array_proj.
Print Assumptions C04_rw_object_proj.
Print Assumptions C04_rw_dead_local.
Print Assumptions C04_rw_dead_bind.
Print Assumptions C04_rw_dead_field.
Print Assumptions C04_rw_dead_field_value.
Print Assumptions C04_rw_dead_param.
Print Assumptions C04_dead_code_irrelevance.
Print Assumptions C04_dead_bind_irrelevance.
Print Assumptions C04_error_in_dead_code.
Print Assumptions C04_run_once.
Print Assumptions C04_done_is_stable.
Print Assumptions C04_never_back_to_pending.
Print Assumptions C04_set_done_assert_never_fires.
Print Assumptions C04_inprogress_reentry_fails.
Print Assumptions C04_laziness_monotone.
Print Assumptions C04_laziness_monotone_arg.
Print Assumptions C04_laziness_monotone_item.
Print Assumptions C04_nonvacuous_rewrites.
Print Assumptions C04_nonvacuous_laziness.
Print Assumptions C04_nonvacuous_machine.
