(* Props/C20.v — pinned statements for property C20 (stub; filled below) *)
From RJ Require Import Base.Outcome Base.F64 Model.Radix Model.Base64 Model.Utf8Codec Model.Esc Model.JsonParse.
