(* Props/C20.v — pinned statements for property C20 (parsing, encoding and hashing
   builtins compute the standard functions; each decoder inverts its encoder).
   Only statements closed by [exact lemma], non-vacuity Examples and
   [Print Assumptions]. *)
From RJ Require Import Base.Outcome Base.F64.
From RJ Require Import Model.Radix Proofs.Radix_float_proofs Proofs.Radix_proofs Proofs.Radix_long_proofs.
From Coq Require Import Reals.
From Flocq Require Import Core.Core IEEE754.BinarySingleNaN.
From RJ Require Model.Base64 Proofs.Base64_arith_proofs Proofs.Base64_proofs.
From RJ Require Model.Utf8Codec Proofs.Utf8Codec_proofs.
From RJ Require Model.JsonParse Proofs.JsonParse_proofs Proofs.JsonString_proofs Proofs.JsonRoundtrip_proofs.
From RJ Require Model.Esc Proofs.Esc_proofs.
From RJ Require Model.Hash Proofs.Hash_proofs.
Local Open Scope N_scope.

(* ======================= std.parseOctal / std.parseHex ======================= *)

(* no string makes parse_num_radix panic (the byte-slice panic of the snapshot is gone) *)
Theorem C20_radix_no_panic : forall radix s, radix_ok radix ->
  is_panic (parse_num_radix radix s) = false.
Proof. exact radix_no_panic. Qed.

(* "invalid digit c" is answered exactly when the string (after its leading zeros) has a
   character that is not a digit of the radix, and c is the first such character *)
Theorem C20_radix_invalid_digit_iff : forall radix s c, radix_ok radix -> s <> [] ->
  (parse_num_radix radix s = Err (RInvalidDigit c) <->
   exists pre post, trim_zeros s = pre ++ c :: post /\ Forall (valid radix) pre /\ to_digit radix c = None).
Proof. exact radix_invalid_digit_iff. Qed.

(* the exact path (at most 32 hexadecimal / 42 octal significant digits): the result is the
   nearest-even double of the integer the digits denote *)
Theorem C20_radix_value_exact : forall radix s, radix_ok radix -> s <> [] ->
  Forall (valid radix) (trim_zeros s) ->
  (length (trim_zeros s) <= N.to_nat (max_digits_128 radix))%nat ->
  parse_num_radix radix s = Ok (f_of_N (value radix (trim_zeros s))) /\
  value radix (trim_zeros s) < 2 ^ 128.
Proof. exact radix_value_exact. Qed.

Example C20_radix_nonvacuous :
  radix_ok 16 /\ [102; 70; 48] <> [] /\ Forall (valid 16) (trim_zeros [48; 102; 70; 48]) /\
  parse_num_radix 16 [48; 102; 70; 48] = Ok (f_of_bits 0x40afe00000000000) /\
  parse_num_radix 8 [55; 56] = Err (RInvalidDigit 56) /\
  parse_num_radix 16 (w_panic) = Err (RInvalidDigit 233).
Proof.
  split; [right; reflexivity|]. split; [discriminate|]. split.
  - repeat constructor; unfold valid; vm_compute; discriminate.
  - vm_compute. repeat split; reflexivity.
Qed.

(* the snapshot version of the function (kept as parse_num_radix_orig): both expected
   defects, as kernel-checked witnesses *)
Theorem C20_radix_orig_panic_refuted :
  exists s site, parse_num_radix_orig 16 s = Panic site.
Proof. exists w_panic. eexists. exact radix_orig_panics. Qed.

Theorem C20_radix_orig_long_refuted :
  exists s x, Forall (valid 16) s /\ parse_num_radix_orig 16 s = Ok x /\ x <> f_of_N (value 16 s).
Proof.
  exists w_tie, (f_of_bits 0x47f0000000000002). split; [|split].
  - repeat constructor; unfold valid; vm_compute; discriminate.
  - vm_compute. reflexivity.
  - vm_compute. discriminate.
Qed.

(* the repaired function on the same inputs *)
Example C20_radix_long_witness :
  parse_num_radix 16 w_tie = Ok (f_of_N (value 16 w_tie)) /\
  parse_num_radix 16 w_tie = Ok (f_of_bits 0x47f0000000000003).
Proof. vm_compute. split; reflexivity. Qed.

(* every length: the result is the nearest-even double of the integer the digits denote, or
   the overflow error when that double is not finite (the sticky bit of the repaired code) *)
Theorem C20_radix_long_is_rne : forall radix s, radix_ok radix -> s <> [] -> Forall (valid radix) s ->
  parse_num_radix radix s =
    (if f_is_finite (f_of_N (value radix s)) then Ok (f_of_N (value radix s)) else Err ROverflow).
Proof. exact radix_long_is_rne. Qed.

(* [f_of_N] is SpecFloat.binary_normalize: through Flocq it is the IEEE-754 round-to-nearest-even
   of the integer whenever that rounding is below 2^1024 *)
Theorem C20_f_of_Z_is_rne : forall z : Z,
  (Rabs (rne (IZR z)) < bpow radix2 1024)%R ->
  f_is_finite (f_of_Z z) = true /\ SF2R radix2 (f_of_Z z) = rne (IZR z).
Proof. exact f_of_Z_correct. Qed.

Example C20_radix_long_nonvacuous :
  radix_ok 16 /\ w_tie <> [] /\ Forall (valid 16) w_tie /\ length w_tie = 33%nat /\
  f_is_finite (f_of_N (value 16 w_tie)) = true /\
  parse_num_radix 16 (repeat 102 257) = Err ROverflow.
Proof.
  split; [right; reflexivity|]. split; [discriminate|]. split.
  - repeat constructor; unfold valid; vm_compute; discriminate.
  - vm_compute. repeat split; reflexivity.
Qed.

(* ================================ base64 ===================================== *)
Import Model.Base64 Proofs.Base64_arith_proofs Proofs.Base64_proofs.

Theorem C20_base64_decode_encode : forall bs, bytes bs -> b64_decode (b64_encode bs) = Ok bs.
Proof. exact decode_encode. Qed.

Theorem C20_base64_string_roundtrip : forall s r, base64_string s = Ok r -> base64_decode r = Ok s.
Proof. exact decode_encode_string. Qed.

(* the encoding is made of groups of four alphabet characters, the last one possibly ending
   in one or two '=' ; its length is 4 * ceil(n / 3) *)
Theorem C20_base64_alphabet_padding : forall bs, bytes bs ->
  wf_b64 (b64_encode bs) = true /\
  N.of_nat (length (b64_encode bs)) = 4 * ((N.of_nat (length bs) + 2) / 3).
Proof. intros bs H. split; [now apply encode_wf | apply encode_length]. Qed.

(* the decoder accepts exactly the well-formed strings, and blames the length exactly when
   it is not a multiple of four *)
Theorem C20_base64_rejects_exactly : forall s,
  is_ok (b64_decode s) = wf_b64 s /\
  (b64_decode s = Err BBadLength <-> (N.of_nat (length s)) mod 4 <> 0).
Proof. intros s. split; [apply decode_ok_iff_wf | apply decode_bad_length_iff]. Qed.

Example C20_base64_nonvacuous :
  bytes [104; 105; 255] /\ b64_encode [104; 105; 255] = [97; 71; 110; 47] /\
  b64_decode [97; 71; 107; 61] = Ok [104; 105] /\
  b64_decode [97; 71; 61; 107] = Err (BBadChar 61) /\ b64_decode [97; 71; 107] = Err BBadLength /\
  base64_string [104; 256] = Err BNotByteChar.
Proof. split; [repeat constructor|]. vm_compute. repeat split; reflexivity. Qed.

(* ============================ UTF-8 encode / decode ========================== *)
Import Model.Utf8Codec Proofs.Utf8Codec_proofs.

Theorem C20_utf8_decode_encode : forall s, scalars s -> decode_lossy (encode_utf8 s) = s.
Proof. exact Utf8Codec_proofs.decode_encode. Qed.

(* the encoder's output is well-formed UTF-8 (the strict decoder reads it back) made of bytes *)
Theorem C20_utf8_encode_valid : forall s, scalars s ->
  decode_strict (encode_utf8 s) = Some s /\ Forall (fun b => b < 256) (encode_utf8 s).
Proof. intros s H. split; [now apply encode_valid | now apply encode_bytes]. Qed.

(* decodeUTF8 is total, agrees with strict decoding wherever that is defined, and always
   yields scalar values (ill-formed parts become U+FFFD) *)
Theorem C20_decode_utf8_is_lossy : forall bs,
  (forall s, decode_strict bs = Some s -> decode_lossy bs = s) /\
  (Forall (fun b => b < 256) bs -> scalars (decode_lossy bs)).
Proof. intros bs. split; [intros s; apply decode_is_lossy | apply lossy_scalars]. Qed.

Example C20_utf8_nonvacuous :
  scalars [233; 26085; 128512; 65] /\
  encode_utf8 [233; 26085; 128512; 65] = [195; 169; 230; 151; 165; 240; 159; 152; 128; 65] /\
  decode_strict [237; 160; 128] = None /\ decode_lossy [237; 160; 128] = [65533; 65533; 65533] /\
  decode_lossy [240; 159; 152; 65] = [65533; 65].
Proof. split; [repeat constructor|]. vm_compute. repeat split; reflexivity. Qed.

(* ================================ std.parseJson =============================== *)
Import Model.JsonParse Proofs.JsonParse_proofs.

(* no successfully parsed value contains an object with a repeated key, and the step that
   would insert one answers RepeatedFieldName *)
Theorem C20_json_rejects_dup_keys :
  (forall s v, parse_json s = Ok v -> keys_nodup v) /\
  (forall lx st fields key v, has_key key fields = true ->
     unwind lx (SObj fields key :: st) v =
     UDone (Err {| je_line := lx_line lx; je_col := lx_col lx; je_kind := ERepeatedFieldName key |})).
Proof. split; [exact result_keys_nodup | exact rejects_dup_key_step]. Qed.

Theorem C20_json_rejects_control_chars : forall s1 c s2, Forall plain s1 -> c < 32 ->
  parse_json (34 :: s1 ++ c :: s2) =
  Err {| je_line := 0; je_col := 1 + N.of_nat (length s1); je_kind := EInvalidChrInString |}.
Proof. exact rejects_control_chars. Qed.

Theorem C20_json_rejects_leading_zero : forall d s, is_digit d = true ->
  parse_json (48 :: d :: s) = Err {| je_line := 0; je_col := 0; je_kind := EInvalidNumber |} /\
  parse_json (45 :: 48 :: d :: s) = Err {| je_line := 0; je_col := 0; je_kind := EInvalidNumber |}.
Proof. intros d s H. split; [now apply rejects_leading_zero | now apply rejects_leading_zero_neg]. Qed.

(* the parser succeeds only with the whole input consumed; anything left after the value
   (and the whitespace after it) is ExpectedEof *)
Theorem C20_json_rejects_trailing :
  (forall lx v, unwind lx [] v = UDone (Ok v) <-> lx_rem lx = []) /\
  (forall lx v c r, lx_rem lx = c :: r ->
     unwind lx [] v = UDone (Err {| je_line := lx_line lx; je_col := lx_col lx; je_kind := EExpectedEof |})) /\
  (forall c s, is_ws c = false ->
     exists line col, parse_json ([110; 117; 108; 108] ++ c :: s) =
                      Err {| je_line := line; je_col := col; je_kind := EExpectedEof |}).
Proof. split; [exact unwind_done_iff|]. split; [exact rejects_trailing_unwind | exact rejects_trailing_null]. Qed.

(* whitespace is exactly TAB, LF, CR, SPACE: skipping stops at every other character, and a
   document starting with a character that is neither whitespace nor the start of a value
   is rejected at line 0, column 0 *)
Theorem C20_json_ws_exact :
  (forall c r line col, lx_rem (skip_ws line col (c :: r)) = c :: r <-> is_ws c = false) /\
  (forall c s, is_ws c = false -> value_start c = false ->
     parse_json (c :: s) = Err {| je_line := 0; je_col := 0; je_kind := EExpectedValue |}).
Proof. split; [exact ws_exact | exact rejects_non_value_start]. Qed.

(* round trip of strings with the model's minimal printer (quote, backslash and C0 controls
   escaped, everything else raw): the lexer reads the printed string back, whatever follows *)
Theorem C20_json_string_roundtrip : forall s,
  parse_json (print_string s) = Ok (JStr s) /\
  (forall rest line col, exists col',
     lex_string {| lx_line := line; lx_col := col; lx_rem := print_string s ++ rest |} =
     Ok (Some (s, {| lx_line := line; lx_col := col'; lx_rem := rest |}))).
Proof. intros s. split; [apply JsonString_proofs.parse_print_string | apply JsonString_proofs.lex_string_print_string]. Qed.

(* round trip with the minimal printer: for every printable value (null, booleans, naturals
   given by their decimal digits, strings, arrays, objects with pairwise distinct keys, nested
   to any depth) the parser reads the printed text back as that value *)
Theorem C20_json_roundtrip : forall p, JsonRoundtrip_proofs.wf p ->
  parse_json (JsonRoundtrip_proofs.print p) = Ok (JsonRoundtrip_proofs.embed p).
Proof. exact JsonRoundtrip_proofs.parse_print. Qed.

(* and anything but whitespace after a complete document is rejected (ExpectedEof) *)
Theorem C20_json_rejects_trailing_any : forall p c t, JsonRoundtrip_proofs.wf p -> is_ws c = false ->
  JsonRoundtrip_proofs.follow_ok p (c :: t) ->
  exists line col, parse_json (JsonRoundtrip_proofs.print p ++ c :: t) =
                   Err {| je_line := line; je_col := col; je_kind := EExpectedEof |}.
Proof. exact JsonRoundtrip_proofs.parse_print_trailing. Qed.

Example C20_json_roundtrip_nonvacuous :
  let p := JsonRoundtrip_proofs.PObj
             [([97], JsonRoundtrip_proofs.PArr [JsonRoundtrip_proofs.PNat [49; 50]; JsonRoundtrip_proofs.PStr [34; 10; 233];
                                               JsonRoundtrip_proofs.PNull; JsonRoundtrip_proofs.PArr []]);
              ([98], JsonRoundtrip_proofs.PObj [([], JsonRoundtrip_proofs.PBool true)]);
              ([99], JsonRoundtrip_proofs.PNat [48])] in
  JsonRoundtrip_proofs.wf p /\
  JsonRoundtrip_proofs.print p =
    [123; 34; 97; 34; 58; 91; 49; 50; 44; 34; 92; 34; 92; 117; 48; 48; 48; 97; 233; 34; 44; 110; 117; 108; 108; 44; 91; 93; 93; 44;
     34; 98; 34; 58; 123; 34; 34; 58; 116; 114; 117; 101; 125; 44; 34; 99; 34; 58; 48; 125] /\
  JsonRoundtrip_proofs.follow_ok p [120].
Proof.
  cbv zeta. split; [|split; [vm_compute; reflexivity|exact I]].
  cbn [JsonRoundtrip_proofs.wf map fst]. split.
  - repeat constructor; cbn; intuition discriminate.
  - repeat split; try (left; reflexivity); try (vm_compute; reflexivity).
    + right. exists 49, [50]. split; [reflexivity|]. split; [reflexivity|]. repeat constructor.
    + repeat constructor. intros [].
Qed.

Example C20_json_nonvacuous :
  (* {"a":1,"a":2} *)
  parse_json [123; 34; 97; 34; 58; 49; 44; 34; 97; 34; 58; 50; 125] =
    Err {| je_line := 0; je_col := 12; je_kind := ERepeatedFieldName [97] |} /\
  (* {"a":[1,"x"]} parses and has distinct keys *)
  (exists v, parse_json [123; 34; 97; 34; 58; 91; 49; 44; 34; 120; 34; 93; 125] = Ok v /\ keys_nodup v) /\
  Forall plain [97; 233] /\ is_digit 55 = true /\
  is_ws 160 = false /\ value_start 160 = false /\ is_ws 11 = false /\ value_start 65279 = false /\
  parse_json [110; 117; 108; 108; 32; 10] = Ok JNull.
Proof.
  split; [vm_compute; reflexivity|]. split.
  - eexists. split; [vm_compute; reflexivity|]. cbn. repeat split; repeat constructor; cbn; intuition discriminate.
  - split; [repeat constructor; cbv; intuition discriminate|]. vm_compute. repeat split; reflexivity.
Qed.

(* ================================ escapers ===================================== *)
Import Model.Esc Proofs.Esc_proofs.

(* a POSIX shell reads std.escapeStringBash(s) back as s *)
Theorem C20_bash_unescape_escape : forall s, bash_unquote 0 (escape_bash s) = Some s.
Proof. exact bash_unescape_escape. Qed.

(* no less-than, greater-than, double quote or apostrophe survives, and decoding the five predefined entities gives the input back *)
Theorem C20_xml_escape_no_specials : forall s,
  forallb (fun c => negb (xml_special c)) (escape_xml s) = true /\
  xml_unescape (length (escape_xml s)) (escape_xml s) = s.
Proof. intros s. split; [apply xml_escape_no_specials | apply xml_unescape_escape; apply le_n]. Qed.

Theorem C20_dollars_doubling : forall s,
  undouble (escape_dollars s) = s /\
  count 36 (escape_dollars s) = (2 * count 36 s)%nat /\
  length (escape_dollars s) = (length s + count 36 s)%nat /\
  (forall x, x <> 36 -> count x (escape_dollars s) = count x s).
Proof. intros s. split; [apply dollars_undouble | apply dollars_doubling]. Qed.

(* std.parseJson(std.escapeStringJson(s)) = s, for the escaper with the C0 range of the current
   source (0x1F; the check verifies on every run that the source still has that range) *)
Theorem C20_parse_escape_json : forall s, JsonParse.parse_json (escape_json 31 s) = Ok (JsonParse.JStr s).
Proof. exact JsonString_proofs.parse_escape_json. Qed.

(* with the snapshot's range (0x19) the property failed: U+001A is emitted raw and rejected *)
Theorem C20_escape_json_0x19_refuted : exists s e,
  JsonParse.parse_json (escape_json 25 s) = Err e.
Proof. exists [26]. eexists. exact JsonString_proofs.escape_json_0x19_refuted. Qed.

Example C20_esc_nonvacuous :
  escape_bash [97; 39; 98] = [39; 97; 39; 34; 39; 34; 39; 98; 39] /\
  escape_xml [60; 38; 39] = [38; 108; 116; 59; 38; 97; 109; 112; 59; 38; 97; 112; 111; 115; 59] /\
  escape_dollars [36; 97; 36] = [36; 36; 97; 36; 36] /\
  escape_json 31 [26; 34; 233] = [34; 92; 117; 48; 48; 49; 97; 92; 34; 233; 34].
Proof. vm_compute. repeat split; reflexivity. Qed.

(* ================================ digests ======================================= *)
(* executable specifications written from RFC 1321 / FIPS 180-4 / FIPS 202 (Model/Hash.v), not
   models of the external crates: they reproduce the standards' test vectors (and the padding
   boundary lengths), pad to a block boundary, and give digests of the standard length; the
   implementation is compared with them on every run through the correspondence check *)
Theorem C20_hash_vectors :
  Hash.be_word (Hash.md5 Hash_proofs.abc) = 0x900150983cd24fb0d6963f7d28e17f72 /\
  Hash.be_word (Hash.sha1 Hash_proofs.abc) = 0xa9993e364706816aba3e25717850c26c9cd0d89d /\
  Hash.be_word (Hash.sha256 Hash_proofs.abc) = 0xba7816bf8f01cfea414140de5dae2223b00361a396177a9cb410ff61f20015ad /\
  Hash.be_word (Hash.sha512 Hash_proofs.abc) =
    0xddaf35a193617abacc417349ae20413112e6fa4e89a97ea20a9eeee64b55d39a2192992a274fc1a836ba3c23a3feebbd454d4423643ce80e2a9ac94fa54ca49f /\
  Hash.be_word (Hash.sha3_512 Hash_proofs.abc) =
    0xb751850b1a57168a5693cd924b6b096e08f621827444f70d884f5d0240d2712e10e116e9192af3c91a7ec57647e3934057340b4cf408d5a56592f8274eec53f0.
Proof.
  split; [exact (proj1 (proj2 Hash_proofs.md5_vectors))|].
  split; [exact (proj1 (proj2 Hash_proofs.sha1_vectors))|].
  split; [exact (proj1 (proj2 Hash_proofs.sha256_vectors))|].
  split; [exact (proj1 (proj2 Hash_proofs.sha512_vectors))|].
  exact (proj1 (proj2 Hash_proofs.sha3_512_vectors)).
Qed.

Theorem C20_hash_pad_length : forall block lenbytes be msg, (0 < block)%nat ->
  (length (Hash.md_pad block lenbytes be msg) mod block = 0)%nat /\
  (length msg + 1 + lenbytes <= length (Hash.md_pad block lenbytes be msg))%nat.
Proof. exact Hash_proofs.md_pad_length. Qed.

Theorem C20_hash_output_length : forall s,
  length (Hash.std_md5 s) = 32%nat /\ length (Hash.std_sha1 s) = 40%nat /\ length (Hash.std_sha256 s) = 64%nat /\
  length (Hash.std_sha512 s) = 128%nat /\ length (Hash.std_sha3 s) = 128%nat.
Proof. exact Hash_proofs.std_hash_lengths. Qed.

Print Assumptions C20_radix_no_panic.
Print Assumptions C20_radix_invalid_digit_iff.
Print Assumptions C20_radix_value_exact.
Print Assumptions C20_radix_nonvacuous.
Print Assumptions C20_radix_orig_panic_refuted.
Print Assumptions C20_radix_orig_long_refuted.
Print Assumptions C20_radix_long_witness.
Print Assumptions C20_radix_long_is_rne.
Print Assumptions C20_f_of_Z_is_rne.
Print Assumptions C20_radix_long_nonvacuous.
Print Assumptions C20_base64_decode_encode.
Print Assumptions C20_base64_string_roundtrip.
Print Assumptions C20_base64_alphabet_padding.
Print Assumptions C20_base64_rejects_exactly.
Print Assumptions C20_base64_nonvacuous.
Print Assumptions C20_utf8_decode_encode.
Print Assumptions C20_utf8_encode_valid.
Print Assumptions C20_decode_utf8_is_lossy.
Print Assumptions C20_utf8_nonvacuous.
Print Assumptions C20_json_rejects_dup_keys.
Print Assumptions C20_json_rejects_control_chars.
Print Assumptions C20_json_rejects_leading_zero.
Print Assumptions C20_json_rejects_trailing.
Print Assumptions C20_json_ws_exact.
Print Assumptions C20_json_string_roundtrip.
Print Assumptions C20_json_roundtrip.
Print Assumptions C20_json_rejects_trailing_any.
Print Assumptions C20_json_roundtrip_nonvacuous.
Print Assumptions C20_json_nonvacuous.
Print Assumptions C20_bash_unescape_escape.
Print Assumptions C20_xml_escape_no_specials.
Print Assumptions C20_dollars_doubling.
Print Assumptions C20_parse_escape_json.
Print Assumptions C20_escape_json_0x19_refuted.
Print Assumptions C20_esc_nonvacuous.
Print Assumptions C20_hash_vectors.
Print Assumptions C20_hash_pad_length.
Print Assumptions C20_hash_output_length.
