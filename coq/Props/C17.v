(* Props/C17.v — pinned statements for property C17 (sorting and set functions meet
   their mathematical contracts).  Statements closed by [exact lemma], non-vacuity
   examples, and [Print Assumptions]. *)
From Coq Require Import List Arith Permutation Sorted.
From RJ Require Import Base.Outcome Model.Sort Model.SetOps Proofs.Sort_proofs.
Import ListNotations.

(* ---- std.sort: for a key function and a comparison that, on the elements of the
   input, compute a total preorder [c] on the keys [kf x] without failing ---- *)

Theorem C17_sort_total : forall (A K E : Type) (keyf : A -> outcome K E) cmp (kf : A -> K) c arr,
  total_preorder c -> keys_pure A K E keyf kf arr -> cmp_pure A K E cmp kf c arr ->
  exists r, std_sort keyf cmp arr = Ok r.
Proof.
  intros A K E keyf cmp kf c arr TP HK HC.
  destruct (std_sort_correct A K E keyf cmp kf c TP arr HK HC) as [r [Hr _]]. eauto.
Qed.

Theorem C17_sort_perm : forall (A K E : Type) (keyf : A -> outcome K E) cmp (kf : A -> K) c arr r,
  total_preorder c -> keys_pure A K E keyf kf arr -> cmp_pure A K E cmp kf c arr ->
  std_sort keyf cmp arr = Ok r -> Permutation r arr.
Proof.
  intros A K E keyf cmp kf c arr r TP HK HC H.
  destruct (std_sort_correct A K E keyf cmp kf c TP arr HK HC) as [r' [Hr [HP _]]].
  rewrite Hr in H; inversion H; subst; exact HP.
Qed.

Theorem C17_sort_sorted : forall (A K E : Type) (keyf : A -> outcome K E) cmp (kf : A -> K) c arr r,
  total_preorder c -> keys_pure A K E keyf kf arr -> cmp_pure A K E cmp kf c arr ->
  std_sort keyf cmp arr = Ok r -> StronglySorted (fun x y => c (kf x) (kf y) <> Gt) r.
Proof.
  intros A K E keyf cmp kf c arr r TP HK HC H.
  destruct (std_sort_correct A K E keyf cmp kf c TP arr HK HC) as [r' [Hr [_ [HS _]]]].
  rewrite Hr in H; inversion H; subst; exact HS.
Qed.

(* stability: for every key k, the elements whose key equals k appear in the output in
   the order they have in the input *)
Theorem C17_sort_stable : forall (A K E : Type) (keyf : A -> outcome K E) cmp (kf : A -> K) c arr r,
  total_preorder c -> keys_pure A K E keyf kf arr -> cmp_pure A K E cmp kf c arr ->
  std_sort keyf cmp arr = Ok r ->
  forall k, filter (fun x => same_key c k (kf x)) r = filter (fun x => same_key c k (kf x)) arr.
Proof.
  intros A K E keyf cmp kf c arr r TP HK HC H.
  destruct (std_sort_correct A K E keyf cmp kf c TP arr HK HC) as [r' [Hr [_ [_ HT]]]].
  rewrite Hr in H; inversion H; subst; exact HT.
Qed.

(* the index form of DESIGN Appendix A: the permutation applied to the cached keys *)
Theorem C17_sort_idx_spec : forall (K E : Type) (cmp : K -> K -> outcome comparison E) c (ks : list K) (d : K),
  total_preorder c -> (forall a b, In a ks -> In b ks -> cmp a b = Ok (c a b)) ->
  exists p, sort_idx cmp ks = Ok p /\
    Permutation p (seq 0 (length ks)) /\
    StronglySorted (fun i j => c (nth i ks d) (nth j ks d) <> Gt) p /\
    (forall i j, before i j p -> c (nth i ks d) (nth j ks d) = Eq -> i < j).
Proof. intros K E cmp c ks d TP. exact (sort_idx_spec K E cmp c TP ks d). Qed.

(* whatever the comparison answers, the sort only rearranges its input *)
Theorem C17_sort_rearranges : forall (X E : Type) (cmp : X -> X -> outcome comparison E) l r,
  sort_list cmp l = Ok r -> Permutation r l.
Proof. intros X E cmp l r. apply sort_slice_perm. Qed.

(* fuel [S (length l)] is sufficient and the assert / unwrap / index sites are
   unreachable: std.sort answers Ok or Err whenever keyF and the comparison do *)
Theorem C17_sort_fuel_sufficient : forall (A K E : Type) (keyf : A -> outcome K E) cmp arr,
  (forall a, In a arr -> clean (keyf a)) -> (forall a b, clean (cmp a b)) ->
  clean (std_sort keyf cmp arr).
Proof. exact @std_sort_clean. Qed.

(* errors of the comparison are not swallowed: an input of two or more elements that
   mixes classes between which the comparison never succeeds (value types), or on
   which the comparison always fails (null, booleans, objects, functions), is an error *)
Theorem C17_sort_error_propagates : forall (X E T : Type) (cmp : X -> X -> outcome comparison E) (ty : X -> T) l,
  (forall x y, is_ok (cmp x y) = true -> ty x = ty y) ->
  cmp_clean X E cmp l -> 2 <= length l ->
  (exists x y, In x l /\ In y l /\ ty x <> ty y) \/ (forall x y, In x l -> In y l -> is_ok (cmp x y) = false) ->
  exists e, sort_list cmp l = Err e.
Proof. intros X E T cmp ty l H. exact (sort_error_propagates X E cmp T ty H l). Qed.

(* the first failing keyF call is the error of std.sort (length >= 2) *)
Theorem C17_sort_keyf_error_propagates : forall (A K E : Type) (keyf : A -> outcome K E) cmp (kf : A -> K) pre x post e,
  1 <= length (pre ++ post) ->
  (forall a, In a pre -> keyf a = Ok (kf a)) -> keyf x = Err e ->
  std_sort keyf cmp (pre ++ x :: post) = Err e.
Proof. exact @std_sort_keyf_error. Qed.

(* ---- non-vacuity on the wire instance: 70 keys with duplicates (merge and quick
   paths), a numeric comparison that is a total preorder, and the error cases ---- *)
Definition nv_c (a b : wkey) : comparison := N.compare (snd (fst a)) (snd (fst b)).
Definition nv_keys : list wkey :=
  map (fun i => (2, N.of_nat (Nat.modulo (i * 7) 5), 0)%N) (seq 0 70).

Lemma nv_total_preorder : total_preorder nv_c.
Proof.
  constructor; unfold nv_c; intros.
  - apply N.compare_refl.
  - apply N.compare_antisym.
  - rewrite N.compare_le_iff in *. eapply N.le_trans; eassumption.
Qed.

Example C17_nonvacuous :
  total_preorder nv_c /\
  (forall a b, In a nv_keys -> In b nv_keys -> wcmp a b = Ok (nv_c a b)) /\
  (exists p, sort_idx wcmp nv_keys = Ok p /\ length p = 70 /\
             firstn 5 p = [0; 5; 10; 15; 20] /\ nth 14 p 0 = 3) /\
  run_sort [Ok (2, 1, 0)%N; Ok (3, 0, 0)%N; Ok (2, 0, 0)%N] = Err (EDiff 3 2) /\
  run_sort [Ok (1, 1, 0)%N; Ok (1, 0, 0)%N] = Err (ESame 1) /\
  run_sort [Ok (2, 1, 0)%N; Err (EUser 9); Ok (2, 0, 0)%N] = Err (EUser 9) /\
  run_sort [Err (EUser 9)] = Ok [0].
Proof.
  split; [exact nv_total_preorder|]. split.
  - assert (H : forallb (fun a => forallb (fun b =>
        match wcmp a b with Ok o => match o, nv_c a b with Eq, Eq | Lt, Lt | Gt, Gt => true | _, _ => false end | _ => false end)
        nv_keys) nv_keys = true) by (vm_compute; reflexivity).
    intros a b Ha Hb. rewrite forallb_forall in H. specialize (H a Ha). rewrite forallb_forall in H. specialize (H b Hb).
    destruct (wcmp a b) as [o| | |]; try discriminate. destruct o, (nv_c a b); try discriminate; reflexivity.
  - split; [eexists; split; [vm_compute; reflexivity|vm_compute; repeat split]|].
    vm_compute. repeat split.
Qed.

Print Assumptions C17_sort_total.
Print Assumptions C17_sort_perm.
Print Assumptions C17_sort_sorted.
Print Assumptions C17_sort_stable.
Print Assumptions C17_sort_idx_spec.
Print Assumptions C17_sort_rearranges.
Print Assumptions C17_sort_fuel_sufficient.
Print Assumptions C17_sort_error_propagates.
Print Assumptions C17_sort_keyf_error_propagates.
Print Assumptions C17_nonvacuous.
