(* Props/C17.v — pinned statements for property C17 (sorting and set functions meet
   their mathematical contracts).  Statements closed by [exact lemma], non-vacuity
   examples, and [Print Assumptions].

   Reading guide.  [keyf : A -> outcome K E] is the key function, [cmp] the evaluator's
   CompareValue on keys, [eqv] its EqualsValue.  The contracts are stated for inputs on
   which these compute, without failing, a pure key [kf x], a total preorder [c] on
   keys and a boolean equality [e]:
     keys_pure keyf kf arr   := forall a in arr, keyf a = Ok (kf a)
     cmp_pure cmp kf c arr   := forall a b in arr, cmp (kf a) (kf b) = Ok (c (kf a) (kf b))
     eqv_pure eqv kf e arr   := forall a b in arr, eqv (kf a) (kf b) = Ok (e (kf a) (kf b))
   (restricted to the elements of the input: the real comparison fails on other values). *)
From Coq Require Import List Arith Permutation Sorted.
From RJ Require Import Base.Outcome Model.Sort Model.SetOps Proofs.Sort_proofs Proofs.SetOps_proofs.
Import ListNotations.

(* ================= std.sort ================= *)

Theorem C17_sort_total : forall (A K E : Type) (keyf : A -> outcome K E) cmp (kf : A -> K) c arr,
  total_preorder c -> keys_pure A K E keyf kf arr -> cmp_pure A K E cmp kf c arr ->
  exists r, std_sort keyf cmp arr = Ok r.
Proof. intros A K E keyf cmp kf c arr. exact (std_sort_total A K E keyf cmp kf c arr). Qed.

Theorem C17_sort_perm : forall (A K E : Type) (keyf : A -> outcome K E) cmp (kf : A -> K) c arr r,
  total_preorder c -> keys_pure A K E keyf kf arr -> cmp_pure A K E cmp kf c arr ->
  std_sort keyf cmp arr = Ok r -> Permutation r arr.
Proof. intros A K E keyf cmp kf c arr r. exact (std_sort_perm A K E keyf cmp kf c arr r). Qed.

Theorem C17_sort_sorted : forall (A K E : Type) (keyf : A -> outcome K E) cmp (kf : A -> K) c arr r,
  total_preorder c -> keys_pure A K E keyf kf arr -> cmp_pure A K E cmp kf c arr ->
  std_sort keyf cmp arr = Ok r -> StronglySorted (fun x y => c (kf x) (kf y) <> Gt) r.
Proof. intros A K E keyf cmp kf c arr r. exact (std_sort_sorted A K E keyf cmp kf c arr r). Qed.

(* stability: for every key k, the elements whose key equals k appear in the output in
   the order they have in the input *)
Theorem C17_sort_stable : forall (A K E : Type) (keyf : A -> outcome K E) cmp (kf : A -> K) c arr r,
  total_preorder c -> keys_pure A K E keyf kf arr -> cmp_pure A K E cmp kf c arr ->
  std_sort keyf cmp arr = Ok r ->
  forall k, filter (fun x => same_key c k (kf x)) r = filter (fun x => same_key c k (kf x)) arr.
Proof. intros A K E keyf cmp kf c arr r. exact (std_sort_stable A K E keyf cmp kf c arr r). Qed.

(* the index form of DESIGN Appendix A: the permutation applied to the cached keys *)
Theorem C17_sort_idx_spec : forall (K E : Type) (cmp : K -> K -> outcome comparison E) c (ks : list K) (d : K),
  total_preorder c -> (forall a b, In a ks -> In b ks -> cmp a b = Ok (c a b)) ->
  exists p, sort_idx cmp ks = Ok p /\
    Permutation p (seq 0 (length ks)) /\
    StronglySorted (fun i j => c (nth i ks d) (nth j ks d) <> Gt) p /\
    (forall i j, before i j p -> c (nth i ks d) (nth j ks d) = Eq -> i < j).
Proof. intros K E cmp c ks d TP. exact (sort_idx_spec K E cmp c TP ks d). Qed.

(* whatever the comparison answers, the sort only rearranges its input *)
Theorem C17_sort_rearranges : forall (X E : Type) (cmp : X -> X -> outcome comparison E) l r,
  sort_list cmp l = Ok r -> Permutation r l.
Proof. intros X E cmp l r. apply sort_slice_perm. Qed.

(* fuel [S (length l)] is sufficient and the assert / unwrap / index sites are
   unreachable: std.sort answers Ok or Err whenever keyF and the comparison do *)
Theorem C17_sort_fuel_sufficient : forall (A K E : Type) (keyf : A -> outcome K E) cmp arr,
  (forall a, In a arr -> clean (keyf a)) -> (forall a b, clean (cmp a b)) ->
  clean (std_sort keyf cmp arr).
Proof. exact @std_sort_clean. Qed.

(* errors of the comparison are not swallowed: an input of two or more elements that
   mixes classes between which the comparison never succeeds (value types), or on
   which the comparison always fails (null, booleans, objects, functions), is an error *)
Theorem C17_sort_error_propagates : forall (X E T : Type) (cmp : X -> X -> outcome comparison E) (ty : X -> T) l,
  (forall x y, is_ok (cmp x y) = true -> ty x = ty y) ->
  cmp_clean X E cmp l -> 2 <= length l ->
  (exists x y, In x l /\ In y l /\ ty x <> ty y) \/ (forall x y, In x l -> In y l -> is_ok (cmp x y) = false) ->
  exists e, sort_list cmp l = Err e.
Proof. intros X E T cmp ty l H. exact (sort_error_propagates X E cmp T ty H l). Qed.

(* the first failing keyF call is the error of std.sort (length >= 2) *)
Theorem C17_sort_keyf_error_propagates : forall (A K E : Type) (keyf : A -> outcome K E) cmp (kf : A -> K) pre x post e,
  1 <= length (pre ++ post) ->
  (forall a, In a pre -> keyf a = Ok (kf a)) -> keyf x = Err e ->
  std_sort keyf cmp (pre ++ x :: post) = Err e.
Proof. exact @std_sort_keyf_error. Qed.

(* ================= std.uniq, std.set ================= *)

(* item i is kept iff i = 0 or its key differs (==) from the key of item i-1 of the input *)
Theorem C17_uniq_spec : forall (A K E : Type) (keyf : A -> outcome K E) eqv (kf : A -> K) e arr d,
  keys_pure A K E keyf kf arr -> eqv_pure A K E eqv kf e arr ->
  exists mask, length mask = length arr /\
    (forall i, i < length arr ->
       nth i mask false = match i with 0 => true | S i' => negb (e (kf (nth i' arr d)) (kf (nth i arr d))) end) /\
    std_uniq keyf eqv arr = Ok (pick mask arr).
Proof. intros A K E keyf eqv kf e arr d. exact (uniq_spec A K E keyf eqv kf e arr d). Qed.

(* when == is symmetric and transitive on keys, no two neighbours of the result are equal *)
Theorem C17_uniq_no_adjacent_duplicates : forall (A K E : Type) (keyf : A -> outcome K E) eqv (kf : A -> K) e arr r,
  (forall a b, e a b = e b a) -> (forall a b c', e a b = true -> e b c' = true -> e a c' = true) ->
  keys_pure A K E keyf kf arr -> eqv_pure A K E eqv kf e arr -> std_uniq keyf eqv arr = Ok r ->
  Sorted (fun x y => e (kf x) (kf y) = false) r /\ incl r arr.
Proof. intros A K E keyf eqv kf e arr r Hs Ht. exact (uniq_no_adjacent_duplicates A K E keyf eqv kf e Hs Ht arr r). Qed.

(* std.set(arr, keyF) is std.uniq(std.sort(arr, keyF), keyF): same value, same error,
   whatever keyF, the comparison and == do (no hypothesis) *)
Theorem C17_set_is_uniq_sort : forall (A K E : Type) (keyf : A -> outcome K E) cmp eqv arr,
  std_set keyf cmp eqv arr = obind (std_sort keyf cmp arr) (fun s => std_uniq keyf eqv s).
Proof. exact set_is_uniq_sort. Qed.

(* std.set under the contract's hypotheses (== agrees with "compares Equal"): the result is
   strictly key-sorted, made of input items, and has one item for every key of the input *)
Theorem C17_set_spec : forall (A K E : Type) (keyf : A -> outcome K E) cmp eqv (kf : A -> K) c e arr,
  total_preorder c -> (forall a b, e a b = true <-> c a b = Eq) ->
  keys_pure A K E keyf kf arr -> cmp_pure A K E cmp kf c arr -> eqv_pure A K E eqv kf e arr ->
  exists r, std_set keyf cmp eqv arr = Ok r /\ is_set A K kf c r /\ incl r arr /\
    (forall z, In z arr -> exists y, In y r /\ c (kf y) (kf z) = Eq).
Proof. intros A K E keyf cmp eqv kf c e arr TP He. exact (set_spec A K E keyf cmp eqv kf c e TP He arr). Qed.

(* ================= set functions on sets (strictly key-sorted arrays) ================= *)

Theorem C17_union_spec : forall (A K E : Type) (keyf : A -> outcome K E) cmp (kf : A -> K) c a b,
  total_preorder c -> walk_pure A K E keyf cmp kf c a b -> is_set A K kf c a -> is_set A K kf c b ->
  exists r, std_set_union keyf cmp a b = Ok r /\ is_set A K kf c r /\
    (forall z, In z r <-> In z a \/ (In z b /\ forall x, In x a -> ~ keq A K kf c x z)).
Proof. intros A K E keyf cmp kf c a b TP. exact (union_spec A K E keyf cmp kf c TP a b). Qed.

Theorem C17_inter_spec : forall (A K E : Type) (keyf : A -> outcome K E) cmp (kf : A -> K) c a b,
  total_preorder c -> walk_pure A K E keyf cmp kf c a b -> is_set A K kf c a -> is_set A K kf c b ->
  exists r, std_set_inter keyf cmp a b = Ok r /\ is_set A K kf c r /\
    (forall z, In z r <-> In z a /\ exists y, In y b /\ keq A K kf c z y).
Proof. intros A K E keyf cmp kf c a b TP. exact (inter_spec A K E keyf cmp kf c TP a b). Qed.

Theorem C17_diff_spec : forall (A K E : Type) (keyf : A -> outcome K E) cmp (kf : A -> K) c a b,
  total_preorder c -> walk_pure A K E keyf cmp kf c a b -> is_set A K kf c a -> is_set A K kf c b ->
  exists r, std_set_diff keyf cmp a b = Ok r /\ is_set A K kf c r /\
    (forall z, In z r <-> In z a /\ forall y, In y b -> ~ keq A K kf c z y).
Proof. intros A K E keyf cmp kf c a b TP. exact (diff_spec A K E keyf cmp kf c TP a b). Qed.

(* binary search: on a key-sorted array (duplicates allowed) the answer is "some item has
   the key of x" *)
Theorem C17_member_spec : forall (A K E : Type) (keyf : A -> outcome K E) cmp (kf : A -> K) c x arr,
  total_preorder c -> keys_pure A K E keyf kf arr ->
  (forall y, In y arr -> cmp (kf x) (kf y) = Ok (c (kf x) (kf y))) ->
  StronglySorted (kle A K kf c) arr -> keyf x = Ok (kf x) ->
  std_set_member keyf cmp x arr = Ok (existsb (fun y => same_key c (kf x) (kf y)) arr).
Proof. intros A K E keyf cmp kf c x arr TP HK HC HS HX. exact (member_spec A K E keyf cmp kf c TP x arr x HK HC HS HX). Qed.

(* ================= std.minArray / std.maxArray ================= *)

Theorem C17_minArray_first_min : forall (A K E : Type) (keyf : A -> outcome K E) cmp (kf : A -> K) c arr d,
  total_preorder c -> keys_pure A K E keyf kf arr -> cmp_pure A K E cmp kf c arr -> arr <> [] ->
  exists m, std_min_array_idx keyf cmp arr = Ok (Some m) /\ m < length arr /\
    (forall j, j < length arr -> c (kf (nth m arr d)) (kf (nth j arr d)) <> Gt) /\
    (forall j, j < m -> c (kf (nth m arr d)) (kf (nth j arr d)) = Lt).
Proof. intros A K E keyf cmp kf c arr d TP. exact (minArray_first_min A K E keyf cmp kf c TP arr d). Qed.

Theorem C17_maxArray_first_max : forall (A K E : Type) (keyf : A -> outcome K E) cmp (kf : A -> K) c arr d,
  total_preorder c -> keys_pure A K E keyf kf arr -> cmp_pure A K E cmp kf c arr -> arr <> [] ->
  exists m, std_max_array_idx keyf cmp arr = Ok (Some m) /\ m < length arr /\
    (forall j, j < length arr -> c (kf (nth j arr d)) (kf (nth m arr d)) <> Gt) /\
    (forall j, j < m -> c (kf (nth j arr d)) (kf (nth m arr d)) = Lt).
Proof. intros A K E keyf cmp kf c arr d TP. exact (maxArray_first_max A K E keyf cmp kf c TP arr d). Qed.

(* ================= no panic, no fuel exhaustion ================= *)

(* the unwrap / index / subtraction sites of the set functions are unreachable and the fuel of
   the binary search suffices: Ok or Err whenever keyF, the comparison and == answer Ok or Err *)
Theorem C17_set_functions_no_panic : forall (A K E : Type) (keyf : A -> outcome K E) cmp eqv,
  (forall a, clean (keyf a)) -> (forall a b, clean (cmp a b)) -> (forall a b, clean (eqv a b)) ->
  (forall arr, clean (std_uniq keyf eqv arr)) /\ (forall arr, clean (std_set keyf cmp eqv arr)) /\
  (forall a b, clean (std_set_union keyf cmp a b)) /\ (forall a b, clean (std_set_inter keyf cmp a b)) /\
  (forall a b, clean (std_set_diff keyf cmp a b)) /\ (forall x arr, clean (std_set_member keyf cmp x arr)) /\
  (forall arr, clean (std_min_array_idx keyf cmp arr)) /\ (forall arr, clean (std_max_array_idx keyf cmp arr)).
Proof. exact set_functions_clean. Qed.

(* ================= the function the correspondence check runs ================= *)

(* [run_sort], the extracted entry point compared with the evaluator on every run, returns on
   every script of number keys the stable sorted permutation (no hypothesis left) *)
Theorem C17_run_sort_numkeys_spec : forall ranks : list N,
  exists p, run_sort (num_script ranks) = Ok p /\
    Permutation p (seq 0 (length ranks)) /\
    StronglySorted (fun i j => (nth i ranks 0 <= nth j ranks 0)%N) p /\
    (forall r, filter (fun i => N.eqb r (nth i ranks 0%N)) p =
               filter (fun i => N.eqb r (nth i ranks 0%N)) (seq 0 (length ranks))).
Proof. exact run_sort_numkeys_spec. Qed.

(* ================= non-vacuity (wire instance, number keys) ================= *)

(* 70 keys with 5 distinct values: merge and quick paths; the hypotheses of the sort
   theorems hold and the answer is the stable one; the error cases are errors *)
Definition nv_ranks : list N := map (fun i => N.of_nat (Nat.modulo (i * 7) 5)) (seq 0 70).

Example C17_nonvacuous_sort :
  total_preorder num_c /\
  keys_pure nat wkey werr (wkeyf (num_script nv_ranks)) (num_kf nv_ranks) (seq 0 70) /\
  cmp_pure nat wkey werr wcmp (num_kf nv_ranks) num_c (seq 0 70) /\
  (exists p, run_sort (num_script nv_ranks) = Ok p /\ length p = 70 /\
             firstn 5 p = [0; 5; 10; 15; 20] /\ nth 14 p 0 = 3) /\
  run_sort [Ok (2, 1, 0)%N; Ok (3, 0, 0)%N; Ok (2, 0, 0)%N] = Err (EDiff 3 2) /\
  run_sort [Ok (1, 1, 0)%N; Ok (1, 0, 0)%N] = Err (ESame 1) /\
  run_sort [Ok (2, 1, 0)%N; Err (EUser 9); Ok (2, 0, 0)%N] = Err (EUser 9) /\
  run_sort [Err (EUser 9)] = Ok [0].
Proof.
  split; [exact num_c_total_preorder|]. split.
  { apply num_keys_pure. intros i Hi. apply in_seq in Hi. exact (proj2 Hi). }
  split; [apply num_cmp_pure|].
  split; [eexists; split; [vm_compute; reflexivity|vm_compute; repeat split]|].
  vm_compute. repeat split.
Qed.

(* uniq / set *)
Example C17_nonvacuous_uniq :
  let ranks := [1; 1; 2; 1; 1; 3; 3]%N in
  keys_pure nat wkey werr (wkeyf (num_script ranks)) (num_kf ranks) (seq 0 7) /\
  eqv_pure nat wkey werr weqv (num_kf ranks) num_e (seq 0 7) /\
  (forall a b, num_e a b = num_e b a) /\
  (forall a b, num_e a b = true <-> num_c a b = Eq) /\
  run_uniq (num_script ranks) = Ok [0; 2; 3; 5] /\
  run_set (num_script ranks) = Ok [0; 2; 5] /\
  run_uniq_sort (num_script ranks) = Ok [0; 2; 5].
Proof.
  cbv zeta. split.
  { apply num_keys_pure. intros i Hi. apply in_seq in Hi. exact (proj2 Hi). }
  split; [apply num_eqv_pure|]. split; [exact num_e_sym|]. split; [exact num_e_is_eq|].
  vm_compute. repeat split.
Qed.

(* two sets {1,3,5,7} (items 0..3) and {2,3,4,7,9} (items 4..8) *)
Example C17_nonvacuous_sets :
  let ranks := [1; 3; 5; 7; 2; 3; 4; 7; 9]%N in
  let a := [0; 1; 2; 3] in let b := [4; 5; 6; 7; 8] in
  walk_pure nat wkey werr (wkeyf (num_script ranks)) wcmp (num_kf ranks) num_c a b /\
  is_set nat wkey (num_kf ranks) num_c a /\ is_set nat wkey (num_kf ranks) num_c b /\
  run_union 4 (num_script ranks) = Ok [0; 4; 1; 6; 2; 3; 8] /\
  run_inter 4 (num_script ranks) = Ok [1; 3] /\
  run_diff 4 (num_script ranks) = Ok [0; 2].
Proof.
  cbv zeta. split.
  { split; [|intros x y _ _; apply wcmp_numkey].
    apply num_keys_pure. intros i Hi. cbn in Hi. cbn [length]. repeat (destruct Hi as [<-|Hi]; [repeat constructor|]). destruct Hi. }
  split; [repeat constructor|]. split; [repeat constructor|].
  vm_compute. repeat split.
Qed.

(* membership in a key-sorted array; first minimum / maximum *)
Example C17_nonvacuous_member_minmax :
  let ranks := [5; 1; 3; 5; 5; 7]%N in       (* x = item 0, arr = items 1..5 *)
  let arr := [1; 2; 3; 4; 5] in
  keys_pure nat wkey werr (wkeyf (num_script ranks)) (num_kf ranks) arr /\
  StronglySorted (kle nat wkey (num_kf ranks) num_c) arr /\
  run_member (num_script ranks) = Ok true /\
  run_member (num_script [4; 1; 3; 5; 5; 7]%N) = Ok false /\
  run_min (num_script [3; 1; 2; 1; 3]%N) = Ok (Some 1) /\
  run_max (num_script [3; 1; 2; 1; 3]%N) = Ok (Some 0) /\
  run_min [] = Ok None.
Proof.
  cbv zeta. split.
  { apply num_keys_pure. intros i Hi. cbn in Hi. cbn [length]. repeat (destruct Hi as [<-|Hi]; [repeat constructor|]). destruct Hi. }
  split; [repeat constructor; discriminate|].
  vm_compute. repeat split.
Qed.

Print Assumptions C17_sort_total.
Print Assumptions C17_sort_perm.
Print Assumptions C17_sort_sorted.
Print Assumptions C17_sort_stable.
Print Assumptions C17_sort_idx_spec.
Print Assumptions C17_sort_rearranges.
Print Assumptions C17_sort_fuel_sufficient.
Print Assumptions C17_sort_error_propagates.
Print Assumptions C17_sort_keyf_error_propagates.
Print Assumptions C17_uniq_spec.
Print Assumptions C17_uniq_no_adjacent_duplicates.
Print Assumptions C17_set_is_uniq_sort.
Print Assumptions C17_set_spec.
Print Assumptions C17_union_spec.
Print Assumptions C17_inter_spec.
Print Assumptions C17_diff_spec.
Print Assumptions C17_member_spec.
Print Assumptions C17_minArray_first_min.
Print Assumptions C17_maxArray_first_max.
Print Assumptions C17_set_functions_no_panic.
Print Assumptions C17_run_sort_numkeys_spec.
Print Assumptions C17_nonvacuous_sort.
Print Assumptions C17_nonvacuous_uniq.
Print Assumptions C17_nonvacuous_sets.
Print Assumptions C17_nonvacuous_member_minmax.
