(* Props/C15.v — pinned statements for property C15 (parsing honours the
   precedence table and is stable under print and re-parse).  Only statements
   closed by [exact lemma] (or a one-line instantiation), non-vacuity Examples,
   and Print Assumptions. *)
From RJ Require Import Base.Outcome Model.Token Model.Ast Model.Parser Model.Print
  Proofs.Parser_proofs Proofs.Parser_inv Proofs.Parser_rt_cor Gen.PrecTable.
Local Open Scope list_scope.
Local Open Scope N_scope.

(* T: the BinOpKind chain, the token->operator arms and the unary arms found in the
   current parser/expr.rs are the Jsonnet specification's 10-level table *)
Theorem C15_precedence_chain_matches : src_prec = spec_prec.
Proof. reflexivity. Qed.

(* every pair of the 19 binary operators groups as the specification says
   (tighter level first, equal levels to the left) *)
Theorem C15_precedence_table : forall op1 op2 : binary_op,
  parse_tree src_prec [ta; sim (binop_tok op1); tb; sim (binop_tok op2); tc; eof_tok]
  = Ok (grouping op1 op2).
Proof. rewrite C15_precedence_chain_matches. exact precedence_table. Qed.

Theorem C15_unary_binds_tighter : forall (u : unary_op) (op : binary_op),
  parse_tree src_prec [sim (unop_tok u); ta; sim (binop_tok op); tb; eof_tok]
    = Ok (bin (un u a_) op b_) /\
  parse_tree src_prec [ta; sim (binop_tok op); sim (unop_tok u); tb; eof_tok]
    = Ok (bin a_ op (un u b_)).
Proof. rewrite C15_precedence_chain_matches. exact unary_binds_tighter. Qed.

Theorem C15_postfix_binds_tightest : forall (p : postfix) (u : unary_op) (op : binary_op),
  parse_tree src_prec (sim (unop_tok u) :: ta :: postfix_toks p ++ [eof_tok])
    = Ok (un u (postfix_on p a_)) /\
  parse_tree src_prec (ta :: sim (binop_tok op) :: tb :: postfix_toks p ++ [eof_tok])
    = Ok (bin a_ op (postfix_on p b_)) /\
  parse_tree src_prec (ta :: postfix_toks p ++ sim (binop_tok op) :: tb :: [eof_tok])
    = Ok (bin (postfix_on p a_) op b_).
Proof. rewrite C15_precedence_chain_matches. exact postfix_binds_tightest. Qed.

Theorem C15_postfix_chain : forall p1 p2 : postfix,
  parse_tree src_prec (ta :: postfix_toks p1 ++ postfix_toks p2 ++ [eof_tok])
    = Ok (postfix_on p2 (postfix_on p1 a_)).
Proof. rewrite C15_precedence_chain_matches. exact postfix_chain. Qed.

(* `e in super` / `e in super.f` / `e in super[i]` and their level *)
Theorem C15_in_super_form : forall op : binary_op,
  parse_tree spec_prec [ta; sim KIn; sim KSuper; eof_tok] = Ok (insup a_) /\
  parse_tree spec_prec [ta; sim KIn; sim KSuper; sim SDot; tb; eof_tok]
    = Ok (bin a_ BIn (ESuperField sp0 sp0 (idn 98))) /\
  parse_tree spec_prec [ta; sim KIn; sim KSuper; sim SLeftBracket; tb; sim SRightBracket; eof_tok]
    = Ok (bin a_ BIn (ESuperIndex sp0 sp0 b_)) /\
  parse_tree spec_prec [ta; sim (binop_tok op); tb; sim KIn; sim KSuper; eof_tok]
    = Ok (if (binop_level op <? lv_ordcmp)%nat then bin a_ op (insup b_) else insup (bin a_ op b_)) /\
  (if (binop_level op <=? lv_ordcmp)%nat
   then parse_tree spec_prec [ta; sim KIn; sim KSuper; sim (binop_tok op); tb; eof_tok] = Ok (bin (insup a_) op b_)
   else is_err (parse_tree spec_prec [ta; sim KIn; sim KSuper; sim (binop_tok op); tb; eof_tok]) = true).
Proof. exact in_super_form. Qed.

(* index and every slice layout *)
Theorem C15_slice_layouts :
  idx [t1] = Ok (EIndex sp0 a_ e1) /\
  idx [co] = sl None None None /\
  idx [co; co] = sl None None None /\          idx [cc] = sl None None None /\
  idx [t1; co] = sl (Some e1) None None /\
  idx [t1; co; co] = sl (Some e1) None None /\  idx [t1; cc] = sl (Some e1) None None /\
  idx [co; t2] = sl None (Some e2) None /\
  idx [co; t2; co] = sl None (Some e2) None /\
  idx [t1; co; t2] = sl (Some e1) (Some e2) None /\
  idx [t1; co; t2; co] = sl (Some e1) (Some e2) None /\
  idx [co; co; t3] = sl None None (Some e3) /\  idx [cc; t3] = sl None None (Some e3) /\
  idx [t1; co; co; t3] = sl (Some e1) None (Some e3) /\ idx [t1; cc; t3] = sl (Some e1) None (Some e3) /\
  idx [co; t2; co; t3] = sl None (Some e2) (Some e3) /\
  idx [t1; co; t2; co; t3] = sl (Some e1) (Some e2) (Some e3).
Proof. exact slice_layouts. Qed.

(* left associativity of every binary operator, chains of ANY length *)
Theorem C15_left_assoc : forall op n,
  parse_tree spec_prec (chain_toks op n) = Ok (chain_tree op n).
Proof. exact left_assoc. Qed.

(* print / re-parse round trip: EVERY well-parenthesised tree (all constructors, unbounded
   size and nesting) prints to tokens that the parser turns back into the same tree *)
Theorem C15_parse_print_roundtrip : forall e, Print.wp e = true ->
  parse_tree spec_prec (print_tokens e) = Ok (strip_spans e).
Proof. exact parse_print_roundtrip. Qed.

(* the fully parenthesised print parses to the same tree modulo Paren *)
Theorem C15_redundant_parens_equiv : forall e, Print.wp e = true ->
  exists e', parse_tree spec_prec (print_tokens (full_paren e)) = Ok e' /\
             strip_paren e' = strip_paren (strip_spans e).
Proof. exact redundant_parens_equiv. Qed.

Example C15_roundtrip_nonvacuous :
  let e1 := bin (un UMinus (EParen sp0 (bin a_ BAdd b_))) BMul (EParen sp0 (insup (bin c_ BLt a_))) in
  let e2 := ECall sp0 (EField sp0 (EObject sp0 (OComp [MkBind (idn 108) None a_] a_ true b_ []
                                                   [CFor (idn 120) c_; CIf a_])) (idn 102))
                  [ANamed (idn 120) (ESlice sp0 a_ None (Some b_) None);
                   APositional (ELocal sp0 [MkBind (idn 102) (Some ([MkParam (idn 120) (Some a_)], sp0)) b_] c_)] true in
  Print.wp e1 = true /\ Print.wp e2 = true /\ Print.wp (bin (bin a_ BAdd b_) BMul c_) = false.
Proof. vm_compute. repeat split. Qed.

(* the Rust parser recurses on the native stack once per nesting level of
   `error` (likewise `{a:`, `local`, `if`, `function`): for every depth there is an
   input that needs it, so no finite native stack suffices (property C01 uses this) *)
Theorem C15_native_depth_unbounded : forall n : N, exists toks e d,
  parse src_prec toks = Ok (e, d) /\ n <= d.
Proof. rewrite C15_precedence_chain_matches. exact native_depth_unbounded. Qed.

(* a syntax error points at a token of the input and describes that token *)
Theorem C15_parse_error_at_token : forall T fuel toks e, parse_fuel T fuel toks = Err e ->
  exists t, In t toks /\ pe_span e = tok_span t /\ actual_of (tok_kind t) = Some (pe_instead e).
Proof. exact parse_error_at_token. Qed.

Example C15_parse_error_nonvacuous :
  exists e, parse_fuel src_prec 100 [ta; sim SPlus; eof_tok] = Err e /\ pe_instead e = AEndOfFile /\
            pe_expected e <> [].
Proof. eexists. vm_compute. repeat split. discriminate. Qed.

(* on a well-formed token stream (what the lexer delivers, C14) no panic site of the
   parser is reachable: `rem_tokens.next().unwrap()` (EOF is never consumed), the
   assert of eat_eof, from_token_kind's unreachable!, the unwraps after the peeks, the
   panics of make_comp and make_surrounding_span's `start <= end` assert *)
Theorem C15_parse_no_panic : forall T fuel toks,
  wf_tokens toks -> forall site, parse_fuel T fuel toks <> Panic site.
Proof. exact parse_no_panic. Qed.

(* every node's span is ordered and lies inside its parent's span (sub-expressions,
   identifiers and the auxiliary spans stored in nodes alike); the root lies between
   the first token's start and the EOF token *)
Theorem C15_span_nesting : forall T fuel toks e d,
  wf_tokens toks -> parse_fuel T fuel toks = Ok (e, d) ->
  within (fst (tok_span (hd tok0 toks))) (fst (tok_span (last toks tok0))) e.
Proof. exact span_nesting. Qed.

Theorem C15_parse_root_span_in_range : forall T fuel toks e d,
  wf_tokens toks -> parse_fuel T fuel toks = Ok (e, d) ->
  fst (tok_span (hd tok0 toks)) <= fst (expr_span e) /\
  fst (expr_span e) <= snd (expr_span e) /\
  snd (expr_span e) <= fst (tok_span (last toks tok0)).
Proof. exact parse_root_span_in_range. Qed.

(* non-vacuity: `a + b * [c]` and `a + ]` with realistic spans are well-formed streams;
   the first parses (root span = whole text), the second is rejected at `]` *)
Example C15_wf_nonvacuous :
  wf_tokens ex_toks /\ wf_tokens ex_bad /\
  (exists e d, parse spec_prec ex_toks = Ok (e, d) /\ expr_span e = (0, 11)) /\
  (exists e, parse spec_prec ex_bad = Err e /\ pe_span e = (4, 5)).
Proof. split; [exact (proj1 ex_toks_wf)|]. split; [exact (proj2 ex_toks_wf)|]. split; [exact ex_toks_ok | exact ex_bad_err]. Qed.

Print Assumptions C15_precedence_chain_matches.
Print Assumptions C15_precedence_table.
Print Assumptions C15_unary_binds_tighter.
Print Assumptions C15_postfix_binds_tightest.
Print Assumptions C15_postfix_chain.
Print Assumptions C15_in_super_form.
Print Assumptions C15_slice_layouts.
Print Assumptions C15_left_assoc.
Print Assumptions C15_parse_print_roundtrip.
Print Assumptions C15_redundant_parens_equiv.
Print Assumptions C15_roundtrip_nonvacuous.
Print Assumptions C15_native_depth_unbounded.
Print Assumptions C15_parse_error_at_token.
Print Assumptions C15_parse_error_nonvacuous.
Print Assumptions C15_parse_no_panic.
Print Assumptions C15_span_nesting.
Print Assumptions C15_parse_root_span_in_range.
Print Assumptions C15_wf_nonvacuous.
