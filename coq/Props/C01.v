(* Props/C01.v — pinned statements for property C01 (value or diagnosed error, never a crash).
   C01 has no model of its own: it is the conjunction of the panic-freedom of every component
   model (imported below as they exist) plus the panic-site inventory obligation (T). *)
From Coq Require Import String List NArith.
From RJ Require Import Base.Outcome Model.PanicInv Model.PanicBaseline Gen.PanicSites.
From RJ Require Import Model.Span Proofs.Span_proofs Gen.SpanConsts.
Local Open Scope N_scope.

(* T: no function of the current source has more explicit panic sites (unwrap, expect, panic!,
   unreachable!, assert!, ...) than the reviewed baseline *)
Theorem C01_panic_sites_covered : covered panic_sites_src panic_baseline = true.
Proof. vm_compute. reflexivity. Qed.

(* span manager: in every reachable manager a request inside its file never trips an assert *)
Theorem C01_span_no_panic : forall rs ctx a b,
  consts_ok src_consts ->
  let m := fst (play src_consts empty_mgr [] rs) in
  in_range m (ctx, a, b) ->
  exists m' id, intern_span src_consts m ctx a b = Ok (m', id).
Proof.
  intros rs ctx a b HC m Hr.
  destruct (span_valid_request_accepted src_consts rs ctx a b HC Hr) as (m' & id & H & _).
  exists m', id. exact H.
Qed.

(* stack-trace cropping: both slices are inside the stack for every stack length and --max-trace *)
Theorem C01_crop_no_panic : forall stack_len max_trace f h s,
  crop stack_len max_trace = Some (f, h, s) -> f <= stack_len /\ s <= stack_len.
Proof. intros * H. apply crop_slices_in_range in H. tauto. Qed.

Print Assumptions C01_panic_sites_covered.
Print Assumptions C01_span_no_panic.
Print Assumptions C01_crop_no_panic.
