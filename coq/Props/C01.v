(* Props/C01.v — pinned statements for property C01 (value or diagnosed error, never a crash).
   C01 has no model of its own: it is the conjunction of the panic-freedom of every component
   model (imported below as they exist) plus the panic-site inventory obligation (T). *)
From Coq Require Import String List NArith.
From RJ Require Import Base.Outcome Model.PanicInv Model.PanicBaseline Gen.PanicSites.
From RJ Require Import Model.Span Proofs.Span_proofs Gen.SpanConsts.
From RJ Require Model.Lexer Model.Parser Model.Analyze Model.Front Proofs.Utf8_proofs Proofs.Front_proofs.
Local Open Scope N_scope.

(* T: no function of the current source has more explicit panic sites (unwrap, expect, panic!,
   unreachable!, assert!, ...) than the reviewed baseline *)
Theorem C01_panic_sites_covered : covered panic_sites_src panic_baseline = true.
Proof. vm_compute. reflexivity. Qed.

(* span manager: in every reachable manager a request inside its file never trips an assert *)
Theorem C01_span_no_panic : forall rs ctx a b,
  consts_ok src_consts ->
  let m := fst (play src_consts empty_mgr [] rs) in
  in_range m (ctx, a, b) ->
  exists m' id, intern_span src_consts m ctx a b = Ok (m', id).
Proof.
  intros rs ctx a b HC m Hr.
  destruct (span_valid_request_accepted src_consts rs ctx a b HC Hr) as (m' & id & H & _).
  exists m', id. exact H.
Qed.

(* stack-trace cropping: both slices are inside the stack for every stack length and --max-trace *)
Theorem C01_crop_no_panic : forall stack_len max_trace f h s,
  crop stack_len max_trace = Some (f, h, s) -> f <= stack_len /\ s <= stack_len.
Proof. intros * H. apply crop_slices_in_range in H. tauto. Qed.

(* ---- the composed front end (Model/Front.v: load_source = lexer -> parser -> analyzer with std) ----
   On every byte string the composed model answers Ok or one diagnosed error: no panic site of the
   lexer, of the parser (EOF is never consumed, make_comp, span asserts) or of the analyzer (number
   conversion unwrap, fields[idx]) is reachable, and the fuel computed from the input length
   (lexer: len + 1; parser: 64 * (tokens + 2)) is never exhausted.  Glue proved in
   Proofs/Front_proofs.v and Proofs/FrontParse_proofs.v (see notes/Front.md). *)
Theorem C01_front_no_panic : forall bytes, Utf8_proofs.bytes_ok bytes ->
  (exists r, Front.load_model bytes = Ok r) \/ (exists e, Front.load_model bytes = Err e).
Proof. exact Front_proofs.front_no_panic. Qed.

(* every error of the composed front end (lex / parse / analyze) only carries spans inside the input *)
Theorem C01_front_error_located : forall bytes x, Utf8_proofs.bytes_ok bytes ->
  Front.load_model bytes = Err x ->
  Forall (fun sp : N * N => fst sp <= snd sp /\ snd sp <= N.of_nat (List.length bytes)) (Front.front_error_spans x).
Proof. exact Front_proofs.front_error_located. Qed.

(* non-vacuity: a program that loads, and one of each error class with its span *)
Example C01_front_nonvacuous :
  let good := Lexer.bytes_of_string "local x = 1_0.5e-3; /* c */ [x, std, 'a']" in
  Utf8_proofs.bytes_ok good /\ is_ok (Front.load_model good) = true /\
  (exists e, Front.load_model (Lexer.bytes_of_string "1 + 'ab") = Err (Front.FLex e) /\ Lexer.err_span e = (4, 7)) /\
  (exists e, Front.load_model (Lexer.bytes_of_string "local x = ; x") = Err (Front.FParse e) /\ Parser.pe_span e = (10, 11)) /\
  Front.load_model (Lexer.bytes_of_string "local x = 1; y") = Err (Front.FAnalyze (Analyze.UnknownVariable (13, 14) [121])).
Proof. exact Front_proofs.front_examples. Qed.

Print Assumptions C01_panic_sites_covered.
Print Assumptions C01_span_no_panic.
Print Assumptions C01_crop_no_panic.
Print Assumptions C01_front_no_panic.
Print Assumptions C01_front_error_located.
Print Assumptions C01_front_nonvacuous.
