(* Props/C01.v — pinned statements for property C01 (value or diagnosed error, never a crash).
   C01 has no model of its own: it is the conjunction of the panic-freedom of every component
   model (imported below as they exist) plus the panic-site inventory obligation (T). *)
From Coq Require Import String List NArith.
From RJ Require Import Base.Outcome Model.PanicInv Model.PanicBaseline Gen.PanicSites.
From RJ Require Import Model.Span Proofs.Span_proofs Gen.SpanConsts.
From RJ Require Model.Lexer Model.Parser Model.Analyze Model.Front Proofs.Utf8_proofs Proofs.Front_proofs.
From RJ Require Model.RefValue Model.RefEval Model.Pipeline Proofs.RefNoPanic_main Proofs.Pipeline_proofs.
Local Open Scope N_scope.

(* T: no function of the current source has more explicit panic sites (unwrap, expect, panic!,
   unreachable!, assert!, ...) than the reviewed baseline *)
Theorem C01_panic_sites_covered : covered panic_sites_src panic_baseline = true.
Proof. vm_compute. reflexivity. Qed.

(* span manager: in every reachable manager a request inside its file never trips an assert *)
Theorem C01_span_no_panic : forall rs ctx a b,
  consts_ok src_consts ->
  let m := fst (play src_consts empty_mgr [] rs) in
  in_range m (ctx, a, b) ->
  exists m' id, intern_span src_consts m ctx a b = Ok (m', id).
Proof.
  intros rs ctx a b HC m Hr.
  destruct (span_valid_request_accepted src_consts rs ctx a b HC Hr) as (m' & id & H & _).
  exists m', id. exact H.
Qed.

(* stack-trace cropping: both slices are inside the stack for every stack length and --max-trace *)
Theorem C01_crop_no_panic : forall stack_len max_trace f h s,
  crop stack_len max_trace = Some (f, h, s) -> f <= stack_len /\ s <= stack_len.
Proof. intros * H. apply crop_slices_in_range in H. tauto. Qed.

(* ---- the composed front end (Model/Front.v: load_source = lexer -> parser -> analyzer with std) ----
   On every byte string the composed model answers Ok or one diagnosed error: no panic site of the
   lexer, of the parser (EOF is never consumed, make_comp, span asserts) or of the analyzer (number
   conversion unwrap, fields[idx]) is reachable, and the fuel computed from the input length
   (lexer: len + 1; parser: 64 * (tokens + 2)) is never exhausted.  Glue proved in
   Proofs/Front_proofs.v and Proofs/FrontParse_proofs.v (see notes/Front.md). *)
Theorem C01_front_no_panic : forall bytes, Utf8_proofs.bytes_ok bytes ->
  (exists r, Front.load_model bytes = Ok r) \/ (exists e, Front.load_model bytes = Err e).
Proof. exact Front_proofs.front_no_panic. Qed.

(* every error of the composed front end (lex / parse / analyze) only carries spans inside the input *)
Theorem C01_front_error_located : forall bytes x, Utf8_proofs.bytes_ok bytes ->
  Front.load_model bytes = Err x ->
  Forall (fun sp : N * N => fst sp <= snd sp /\ snd sp <= N.of_nat (List.length bytes)) (Front.front_error_spans x).
Proof. exact Front_proofs.front_error_located. Qed.

(* non-vacuity: a program that loads, and one of each error class with its span *)
Example C01_front_nonvacuous :
  let good := Lexer.bytes_of_string "local x = 1_0.5e-3; /* c */ [x, std, 'a']" in
  Utf8_proofs.bytes_ok good /\ is_ok (Front.load_model good) = true /\
  (exists e, Front.load_model (Lexer.bytes_of_string "1 + 'ab") = Err (Front.FLex e) /\ Lexer.err_span e = (4, 7)) /\
  (exists e, Front.load_model (Lexer.bytes_of_string "local x = ; x") = Err (Front.FParse e) /\ Parser.pe_span e = (10, 11)) /\
  Front.load_model (Lexer.bytes_of_string "local x = 1; y") = Err (Front.FAnalyze (Analyze.UnknownVariable (13, 14) [121])).
Proof. exact Front_proofs.front_examples. Qed.

(* ---- the whole pipeline from source bytes (Model/Pipeline.v: Front, then the C02 reference interpreter
   RefEval.run on the tree the model parser built) ---- *)

(* eval_model reports a lex / parse / static error exactly when load_model does, and the same error;
   when load_model accepts it is RefEval.run on the parsed tree *)
Theorem C01_pipeline_front_verdict : forall bytes c,
  (forall x, Front.load_model bytes = Err x <-> snd (Pipeline.eval_model bytes c) = Err (Pipeline.PFront x)) /\
  (forall i, Front.load_model bytes = Ok i ->
     exists toks e, Front.front_parse bytes = Ok (toks, e) /\
       Pipeline.eval_model bytes c =
         (fst (RefEval.run (Pipeline.p_fuel c) (Pipeline.p_cfg c) e),
          Front.inj_err Pipeline.PEval (snd (RefEval.run (Pipeline.p_fuel c) (Pipeline.p_cfg c) e)))).
Proof. exact Pipeline_proofs.pipeline_front_verdict. Qed.

(* the reference interpreter never answers Panic: for EVERY syntax tree (statically correct or not), fuel,
   stack limit and setting of the two deviation switches, none of its panic sites is reachable —
   RefEval:answer:value / bool / cmp / json (the knot answers with the kind its task asks for),
   RefEval:do_field:layer (find_field's index is inside the layer list), RefEval:call_builtin:arity (a builtin
   is called with as many thunks as it has parameters), and eval/mod.rs:CompareValue:partial_cmp().unwrap()
   (invariant: no number stored in any value, thunk, environment or object layer is a NaN) *)
Theorem C01_refeval_no_panic : forall e fuel c site, snd (RefEval.run fuel c e) <> Panic site.
Proof. exact RefNoPanic_main.run_no_panic. Qed.

(* from source bytes to the manifested value, no panic site of lexer, parser, analyzer or interpreter is reachable *)
Theorem C01_pipeline_no_panic : forall bytes c site, Utf8_proofs.bytes_ok bytes ->
  snd (Pipeline.eval_model bytes c) <> Panic site.
Proof. intros bytes c site B. exact (Pipeline_proofs.pipeline_no_panic bytes c site B). Qed.

(* only the interpreter's own fuel (a parameter) can run out, never the front end's *)
Theorem C01_pipeline_fuel : forall bytes c, Utf8_proofs.bytes_ok bytes ->
  snd (Pipeline.eval_model bytes c) = OutOfFuel ->
  exists toks e, Front.front_parse bytes = Ok (toks, e) /\
                 snd (RefEval.run (Pipeline.p_fuel c) (Pipeline.p_cfg c) e) = OutOfFuel.
Proof. exact Pipeline_proofs.pipeline_fuel. Qed.

(* non-vacuity: a value, a user error, a static error, a syntax error, a stack overflow, fuel exhaustion *)
Example C01_pipeline_nonvacuous :
  (exists j, snd (Pipeline.eval_model (Lexer.bytes_of_string "local x = 2; [x + 1, std.length('ab'), x < 3]") Pipeline_proofs.cfg0) = Ok j /\
             match j with RefValue.JArr [RefValue.JNum _; RefValue.JNum _; RefValue.JBool true] => True | _ => False end) /\
  snd (Pipeline.eval_model (Lexer.bytes_of_string "error 'boom'") Pipeline_proofs.cfg0)
    = Err (Pipeline.PEval (RefValue.EExplicit [98; 111; 111; 109])) /\
  (exists x, snd (Pipeline.eval_model (Lexer.bytes_of_string "local x = 1; y") Pipeline_proofs.cfg0) = Err (Pipeline.PFront (Front.FAnalyze x))) /\
  (exists x, snd (Pipeline.eval_model (Lexer.bytes_of_string "1 +") Pipeline_proofs.cfg0) = Err (Pipeline.PFront (Front.FParse x))) /\
  snd (Pipeline.eval_model (Lexer.bytes_of_string "local f(x) = f(x); f(1)")
         {| Pipeline.p_fuel := 400; Pipeline.p_cfg := {| RefEval.c_limit := 10; RefEval.c_bfs := false; RefEval.c_ts_tail := false |} |})
    = Err (Pipeline.PEval RefValue.EStackOverflow) /\
  snd (Pipeline.eval_model (Lexer.bytes_of_string "local f(x) = f(x); f(1)") Pipeline_proofs.cfg0) = OutOfFuel.
Proof. exact Pipeline_proofs.pipeline_examples. Qed.

Print Assumptions C01_panic_sites_covered.
Print Assumptions C01_span_no_panic.
Print Assumptions C01_crop_no_panic.
Print Assumptions C01_front_no_panic.
Print Assumptions C01_front_error_located.
Print Assumptions C01_front_nonvacuous.
Print Assumptions C01_pipeline_front_verdict.
Print Assumptions C01_refeval_no_panic.
Print Assumptions C01_pipeline_no_panic.
Print Assumptions C01_pipeline_fuel.
Print Assumptions C01_pipeline_nonvacuous.
