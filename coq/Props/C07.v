(* Props/C07.v — pinned statements for property C07: object inheritance is associative,
   late-bound and visibility-preserving.  Subject: Model/Objects.v, the layer algebra of
   rsjsonnet-lang/src/program/data.rs copied as written (find_field, has_visible_field,
   get_fields_order, extend_object, object_with_field_removed).  Vocabulary (defined in
   Proofs/Objects_proofs.v): [chain o n] = the effective chain of name n, i.e. the Normal
   fields of n met walking the layers of o from layer 0 and jumping over [depth] layers after
   each Removed marker, as (layer index, field); [resolve] = the `:` `::` `:::` rule folded
   from base to derived; [wf_obj] = field names unique within each layer (hash-map keys);
   [res_shift k] renumbers the layer index of a lookup result by k.
   This file contains only statements closed by [exact lemma], non-vacuity Examples and
   Print Assumptions. *)
From RJ Require Import Base.Outcome Model.Objects Proofs.Objects_proofs.
From Coq Require Import Sorted.
Local Open Scope N_scope.

(* ---- extension ---- *)

(* (a + b) + c and a + (b + c) are the same object: every observer agrees, in every
   bracketing of every chain *)
Theorem C07_extend_assoc : forall a b c, extend (extend a b) c = extend a (extend b c).
Proof. exact extend_assoc. Qed.

(* objects carry the asserts of every layer (field [asserts], aligned with [layers]); the equality
   above includes them, and extension keeps all of them, whatever fields the layers have *)
Theorem C07_asserts_extend : forall a b, asserts (extend a b) = asserts b ++ asserts a.
Proof. exact asserts_extend. Qed.

(* a layer WITHOUT fields still matters: {x: 0} + {assert self.x != 0 : "m1"} has the fields of
   {x: 0} but neither .x nor manifestation succeed *)
Theorem C07_assert_only_layer_matters :
  layers assert_only = [[]] /\
  index_field zero_x nx = Ok (VNum 0) /\
  index_field (extend zero_x assert_only) nx = Err (EAssert (Some 1)) /\
  manifest_checked (extend zero_x assert_only) = Err (EAssert (Some 1)) /\
  get_fields_order (extend zero_x assert_only) = get_fields_order zero_x.
Proof. exact assert_only_layer_matters. Qed.

(* o + {} : every lookup (from the top and from inside any layer), visibility, field order,
   visible order and length are those of o (layer indices move by one) *)
Theorem C07_extend_empty_r : forall o, wf_obj o ->
  let e := extend o empty_obj in
  (forall n, find_field e 0 n = res_shift 1 (find_field o 0 n)) /\
  (forall i n, find_field e (i + 1) n = res_shift 1 (find_field o i n)) /\
  (forall n, has_visible_field e n = has_visible_field o n) /\
  get_fields_order e = get_fields_order o /\
  get_visible_fields_order e = get_visible_fields_order o /\
  obj_length e = obj_length o.
Proof. exact extend_empty_r. Qed.

(* ... and so are the value of every field and the manifestation *)
Theorem C07_extend_empty_r_values : forall o, wf_obj o ->
  (forall m, eval_field (extend o empty_obj) m = eval_field o m) /\
  manifest (extend o empty_obj) = manifest o.
Proof. exact extend_empty_r_values. Qed.

(* {} + o : the same, with unchanged indices *)
Theorem C07_extend_empty_l : forall o, wf_obj o ->
  let e := extend empty_obj o in
  (forall i n, find_field e i n = find_field o i n) /\
  (forall n, has_visible_field e n = has_visible_field o n) /\
  get_fields_order e = get_fields_order o /\
  get_visible_fields_order e = get_visible_fields_order o /\
  obj_length e = obj_length o.
Proof. exact extend_empty_l. Qed.

(* values under {} + o: equal, except that `super` in o's base layer, which had no super
   object, now finds an empty one and reports an unknown field instead *)
Theorem C07_extend_empty_l_values : forall o m, wf_obj o ->
  eval_field (extend empty_obj o) m = eval_field o m \/
  (eval_field (extend empty_obj o) m = Err EUnknownField /\ eval_field o m = Err ENoSuper).
Proof. exact extend_empty_l_values. Qed.

(* ---- lookup ---- *)

(* find_field from layer i: the first Normal field of that name at or after layer i, jumping
   over [depth] layers after a Removed marker; never a panic, never out of fuel *)
Theorem C07_find_field_spec : forall o i n,
  find_field o i n = Ok (hd_error (eff_chain (skipn (N.to_nat i) (layers o)) i 0 n)).
Proof. exact find_field_spec. Qed.

Theorem C07_find_field_found : forall o i n j d,
  find_field o i n = Ok (Some (j, d)) ->
  i <= j /\ exists l, nth_error (layers o) (N.to_nat j) = Some l /\ layer_get l n = Some (Normal d).
Proof. exact find_field_found. Qed.

Theorem C07_no_panic_no_fuel : forall o i n,
  (exists r, find_field o i n = Ok r) /\ (exists b, has_field o i n = Ok b) /\
  (exists b, has_visible_field o n = Ok b).
Proof. exact no_panic_no_fuel. Qed.

(* super, seen from layer i, is a lookup from layer i+1: it depends on the layers to the
   left (below) only ... *)
Theorem C07_super_starts_left : forall o o' i n,
  skipn (S (N.to_nat i)) (layers o) = skipn (S (N.to_nat i)) (layers o') ->
  find_field o (i + 1) n = find_field o' (i + 1) n.
Proof. exact super_starts_left. Qed.

(* ... so inside a + b the layers of a see exactly what they saw in a *)
Theorem C07_extend_super_of_left : forall a b i n,
  find_field (extend a b) (i + N.of_nat (length (layers b))) n =
  res_shift (N.of_nat (length (layers b))) (find_field a i n).
Proof. exact extend_super_of_left. Qed.

(* self is the whole object whichever layer mentions it, and finds the final override *)
Theorem C07_self_is_final : forall fuel o vs i j g,
  eval_body fuel o vs i (BSelf g) = eval_body fuel o vs j (BSelf g).
Proof. exact self_is_final. Qed.

Theorem C07_self_sees_override : forall a b g d,
  layer_get (self_layer b) g = Some (Normal d) ->
  find_field (extend a b) 0 g = Ok (Some (0, d)).
Proof. exact self_sees_override. Qed.

(* ---- visibility ---- *)

Theorem C07_visibility_rule : forall o n,
  has_visible_field o n = Ok (visible_of (resolve (chain_vis (chain o n)))).
Proof. exact visibility_rule. Qed.

Theorem C07_default_override_keeps_inherited : forall o l n d,
  layer_get l n = Some (Normal d) -> f_vis d = Default ->
  has_visible_field (extend o (lit l)) n =
  match find_field o 0 n with
  | Ok (Some _) => has_visible_field o n
  | _ => Ok true
  end.
Proof. exact default_override_keeps_inherited. Qed.

(* ---- field order (manifestation, std.objectFields(All), std.length) ---- *)

Theorem C07_fields_order_sorted_nodup : forall o,
  StronglySorted name_lt (map fst (get_fields_order o)) /\
  NoDup (map fst (get_fields_order o)) /\
  StronglySorted name_lt (get_visible_fields_order o) /\
  NoDup (get_visible_fields_order o).
Proof. exact fields_order_sorted_nodup. Qed.

(* the visibility recorded for a name is the rule over its effective chain *)
Theorem C07_fields_order_entry : forall o n v, wf_obj o ->
  (In (n, v) (get_fields_order o) <-> resolve (chain_vis (chain o n)) = Some v).
Proof. exact fields_order_entry. Qed.

Theorem C07_fields_order_agree : forall o n, wf_obj o ->
  (In n (map fst (get_fields_order o)) <-> exists j d, find_field o 0 n = Ok (Some (j, d))).
Proof. exact fields_order_agree. Qed.

Theorem C07_fields_order_agree_visible : forall o n, wf_obj o ->
  (In n (get_visible_fields_order o) <-> has_visible_field o n = Ok true).
Proof. exact fields_order_agree_visible. Qed.

(* `in` / objectHasAll, objectHas, objectFields(All), std.length, manifested keys, o.f *)
Theorem C07_observers_agree : forall o n, wf_obj o ->
  (In n (map fst (get_fields_order o)) <-> has_field o 0 n = Ok true) /\
  (In n (get_visible_fields_order o) <-> has_visible_field o n = Ok true) /\
  (In n (get_visible_fields_order o) -> In n (map fst (get_fields_order o))) /\
  obj_length o = N.of_nat (length (get_visible_fields_order o)) /\
  (forall l, manifest o = Ok l -> map fst l = get_visible_fields_order o) /\
  (has_field o 0 n = Ok false -> eval_field o n = Err EUnknownField).
Proof. exact observers_agree. Qed.

(* ---- std.objectRemoveKey ---- *)

(* the named field is gone; every other name keeps its (layer, field) and visibility; lookups
   from inside the object (super) are untouched *)
Theorem C07_remove_key_exact : forall o n,
  let e := remove_key o n in
  find_field e 0 n = Ok None /\
  has_visible_field e n = Ok false /\
  (forall m, m <> n -> find_field e 0 m = res_shift 1 (find_field o 0 m)) /\
  (forall m, m <> n -> has_visible_field e m = has_visible_field o m) /\
  (forall i m, find_field e (i + 1) m = res_shift 1 (find_field o i m)).
Proof. exact remove_key_exact. Qed.

(* a field other than n keeps its value, unless evaluating it reads self.n — then it stops
   with "unknown field" (super.n and `n in super` inside the object are untouched) *)
Theorem C07_remove_key_values : forall o n m, m <> n ->
  eval_field (remove_key o n) m = eval_field o m \/
  eval_field (remove_key o n) m = Err EUnknownField.
Proof. exact remove_key_values. Qed.

Theorem C07_remove_key_order : forall o n m v, wf_obj o ->
  (In (m, v) (get_fields_order (remove_key o n)) <-> m <> n /\ In (m, v) (get_fields_order o)).
Proof. exact remove_key_order. Qed.

(* std.objectRemoveKey(o, n) + { n: ... }: the re-added field stands alone, with its own
   visibility (the positive form of the repaired defect) *)
Theorem C07_remove_then_extend : forall o n l d, wf_obj o -> wf_layer l ->
  layer_get l n = Some (Normal d) ->
  let e := extend (remove_key o n) (lit l) in
  find_field e 0 n = Ok (Some (0, d)) /\
  has_visible_field e n = Ok (negb (vis_eqb (f_vis d) Hidden)) /\
  In (n, f_vis d) (get_fields_order e) /\
  (In n (get_visible_fields_order e) <-> f_vis d <> Hidden).
Proof. exact remove_then_extend. Qed.

(* base + std.objectRemoveKey(o, n): the marker hides exactly the layers of o *)
Theorem C07_extend_then_remove_hides_only_inner : forall base o n,
  let e := extend base (remove_key o n) in
  find_field e 0 n = res_shift (1 + N.of_nat (length (layers o))) (find_field base 0 n) /\
  has_visible_field e n = has_visible_field base n /\
  (forall m, m <> n -> find_field e 0 m = res_shift 1 (find_field (extend base o) 0 m)) /\
  (forall m, m <> n -> has_visible_field e m = has_visible_field (extend base o) m).
Proof. exact extend_then_remove_hides_only_inner. Qed.

(* ---- what the generated programs denote ---- *)

(* every object a generated program builds (literals with distinct names, +, objectRemoveKey,
   mapWithKey, prune, mergePatch) meets the hypothesis [wf_obj] of the theorems above *)
Theorem C07_build_wf : forall e o, wf_oexpr e -> build e = Ok o -> wf_obj o.
Proof. exact build_wf. Qed.

(* a + b + c denotes the same object, or the same failure, in both bracketings *)
Theorem C07_build_assoc : forall a b c, build (OPlus (OPlus a b) c) = build (OPlus a (OPlus b c)).
Proof. exact build_assoc. Qed.

(* ---- non-vacuity: {a:: 1, b: 2} + std.objectRemoveKey({a::: 3, c::: self.a}, "a") + {a+: 4, b:: super.b}
   is well formed, has a name in three layers and a Removed marker in between; the hypotheses
   of every implication above are met by it (wf_obj; a Normal default-visibility top field;
   a successful lookup) ---- *)
Example C07_nonvacuous :
  wf_obj example_obj /\ length (layers example_obj) = 4%nat /\
  chain example_obj na = [(0, {| f_vis := Default; f_plus := true; f_body := BNum 4 |});
                          (3, {| f_vis := Hidden; f_plus := false; f_body := BNum 1 |})] /\
  get_fields_order example_obj = [(na, Hidden); (nb, Hidden); (nc, ForceVisible)] /\
  has_visible_field example_obj na = Ok false /\
  find_field example_obj 1 na = Ok (Some (3, {| f_vis := Hidden; f_plus := false; f_body := BNum 1 |})) /\
  manifest example_obj = Ok [(nc, VNum 5)] /\
  eval_field example_obj nb = Ok (VNum 2) /\
  layer_get (self_layer example_obj) na = Some (Normal {| f_vis := Default; f_plus := true; f_body := BNum 4 |}).
Proof. split; [exact example_wf|]. vm_compute. repeat split. Qed.

(* the state machine of get_fields_order as first found ([Old]) fails the agreement on
   std.objectRemoveKey({a:: 1}, "a") + {a: 2}; the repaired one meets it *)
Theorem C07_prefix_defect_witness :
  has_visible_field witness_obj nm_a = Ok true /\
  ~ In nm_a (Old.get_visible_fields_order witness_obj) /\
  In nm_a (get_visible_fields_order witness_obj) /\
  manifest witness_obj = Ok [(nm_a, VNum 2)].
Proof. exact prefix_defect_witness. Qed.

Print Assumptions C07_extend_assoc.
Print Assumptions C07_asserts_extend.
Print Assumptions C07_assert_only_layer_matters.
Print Assumptions C07_extend_empty_r.
Print Assumptions C07_extend_empty_l.
Print Assumptions C07_extend_empty_r_values.
Print Assumptions C07_extend_empty_l_values.
Print Assumptions C07_remove_key_values.
Print Assumptions C07_find_field_spec.
Print Assumptions C07_find_field_found.
Print Assumptions C07_no_panic_no_fuel.
Print Assumptions C07_super_starts_left.
Print Assumptions C07_extend_super_of_left.
Print Assumptions C07_self_is_final.
Print Assumptions C07_self_sees_override.
Print Assumptions C07_visibility_rule.
Print Assumptions C07_default_override_keeps_inherited.
Print Assumptions C07_fields_order_sorted_nodup.
Print Assumptions C07_fields_order_entry.
Print Assumptions C07_fields_order_agree.
Print Assumptions C07_fields_order_agree_visible.
Print Assumptions C07_observers_agree.
Print Assumptions C07_remove_key_exact.
Print Assumptions C07_remove_key_order.
Print Assumptions C07_remove_then_extend.
Print Assumptions C07_extend_then_remove_hides_only_inner.
Print Assumptions C07_build_wf.
Print Assumptions C07_build_assoc.
Print Assumptions C07_nonvacuous.
Print Assumptions C07_prefix_defect_witness.
