(* Props/C07.v — pinned statements for property C07 (stage 1: tree as found). *)
From RJ Require Import Base.Outcome Model.Objects Proofs.Objects_proofs.
Local Open Scope N_scope.

Theorem C07_extend_assoc : forall a b c, extend (extend a b) c = extend a (extend b c).
Proof. exact extend_assoc. Qed.

(* the faithful model of get_fields_order as found: std.objectHas says the field is
   there and visible, the field order (manifestation, objectFields, length) omits it *)
Theorem C07_fields_order_agree_visible_refuted :
  exists o n, has_visible_field o n = Ok true /\ ~ In n (get_visible_fields_order o).
Proof. exact fields_order_agree_visible_refuted. Qed.

Print Assumptions C07_extend_assoc.
Print Assumptions C07_fields_order_agree_visible_refuted.
