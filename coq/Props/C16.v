(* Props/C16.v — pinned statements for property C16 (span identifiers round-trip;
   stack-trace cropping stays inside the stack).  This file contains nothing but
   statements closed by [exact lemma], [Check]s pinning them, and
   [Print Assumptions]. *)
From RJ Require Import Base.Outcome Model.Span Proofs.Span_proofs Gen.SpanConsts.
Local Open Scope N_scope.

(* T: the constants found in the current source satisfy the packing discipline *)
Theorem C16_consts_ok : consts_ok src_consts.
Proof. unfold consts_ok, src_consts; cbn; repeat split; reflexivity. Qed.

(* every history of context/span registrations: every id ever handed out still
   decodes to exactly the (file, start, end) it was registered with *)
Theorem C16_span_history_roundtrip : forall rs,
  let '(mf, logf) := play src_consts empty_mgr [] rs in
  small mf ->
  Forall (fun p => get_span src_consts mf (fst p) = Ok (snd p)) logf.
Proof. intros rs. exact (span_history_roundtrip src_consts rs C16_consts_ok). Qed.

(* in every reachable manager a request inside its file is accepted (no assert
   fires, no arithmetic overflows) and round-trips *)
Theorem C16_span_valid_request_accepted : forall rs ctx a b,
  let m := fst (play src_consts empty_mgr [] rs) in
  in_range m (ctx, a, b) ->
  exists m' id, intern_span src_consts m ctx a b = Ok (m', id) /\
                (small m' -> get_span src_consts m' id = Ok (ctx, a, b)).
Proof. intros rs ctx a b. exact (span_valid_request_accepted src_consts rs ctx a b C16_consts_ok). Qed.

(* the binary search used for offset -> context is the counting specification *)
Theorem C16_lookup_is_count : forall m off, sorted (contexts m) ->
  get_context_from_offset m off = count_le off (contexts m).
Proof. exact lookup_is_count. Qed.

(* spanning a node from its first to its last token (parser) never trips an assert and
   yields exactly (file, first start, last end) *)
Theorem C16_surrounding_span_valid : forall m ia ib c sa ea sb eb,
  wf m ->
  get_span src_consts m ia = Ok (c, sa, ea) -> get_span src_consts m ib = Ok (c, sb, eb) ->
  in_range m (c, sb, eb) -> sa <= eb ->
  exists m' id, make_surrounding_span src_consts m ia ib = Ok (m', id) /\
                (small m' -> get_span src_consts m' id = Ok (c, sa, eb)).
Proof. intros *. exact (surrounding_span_valid src_consts m ia ib c sa ea sb eb C16_consts_ok). Qed.

Theorem C16_crop_slices_in_range : forall stack_len max_trace f h s,
  crop stack_len max_trace = Some (f, h, s) ->
  f <= stack_len /\ s <= stack_len /\ f + s = max_trace /\
  h = stack_len - max_trace /\ f + h + s = stack_len /\ 0 < h /\
  s <= f /\ f <= s + 1.
Proof. exact crop_slices_in_range. Qed.

(* non-vacuity: a history with two files, the second beyond the inline range,
   and spans on both encoding paths, meets every hypothesis *)
Example C16_nonvacuous :
  let rs := [RCtx 10; RCtx (2 ^ 39); RCtx 5;
             RSpan 0 2 7; RSpan 1 0 (2 ^ 26); RSpan 1 (2 ^ 38) (2 ^ 38 + 3); RSpan 2 5 5] in
  let '(mf, logf) := play src_consts empty_mgr [] rs in
  small mf /\ length logf = 4%nat /\ length (idx_to_span mf) = 3%nat.
Proof. vm_compute. repeat split. Qed.

Print Assumptions C16_consts_ok.
Print Assumptions C16_span_history_roundtrip.
Print Assumptions C16_span_valid_request_accepted.
Print Assumptions C16_lookup_is_count.
Print Assumptions C16_surrounding_span_valid.
Print Assumptions C16_crop_slices_in_range.
Print Assumptions C16_nonvacuous.
