(* Props/C05.v — pinned statements for property C05 (every emitted document is
   well-formed and decodes to the value it came from).  Statements closed by [exact lemma]
   (or a one-line instantiation), non-vacuity Examples, Print Assumptions. *)
From RJ Require Import Base.Outcome Base.F64 Model.Token Model.JsonEsc Model.JsonDec Model.Manifest
  Proofs.JsonEsc_proofs Proofs.Manifest_proofs Gen.EscTable.
Local Open Scope N_scope.

(* T: the match arms found in the current source are the hand model, on every code point *)
Theorem C05_esc_table_matches_model : forall c, table_escape esc_arms esc_default c = escape_char c.
Proof. apply esc_table_matches_model_gen; vm_compute; reflexivity. Qed.

(* T: the key predicates found in the current source are the hand models *)
Theorem C05_key_tables_match_model :
  toml_plain_extra = [95; 45] /\ yaml_special_src = yaml_special
  /\ forall c, in_ranges c yaml_plain_ranges = yaml_plain_char c.
Proof. split; [reflexivity|split; [reflexivity|apply yaml_plain_ranges_match_gen; vm_compute; reflexivity]]. Qed.

(* the body of every escaped string is a sequence of RFC 8259 chars: nothing below U+0020,
   no bare quotation mark or backslash, every backslash starts a defined escape *)
Theorem C05_escape_valid : forall s, json_chars (escape_body s).
Proof. exact escape_valid. Qed.

Theorem C05_escape_string_json_valid : forall s, quoted json_chars (escape_string_json s).
Proof. exact escape_string_json_valid. Qed.

(* reading the escaped string gives back exactly the code points, whatever follows *)
Theorem C05_unescape_escape : forall s rest, lex_string (escape_string_json s ++ rest) = Some (s, rest).
Proof. exact unescape_escape. Qed.

(* the reader is strict: whatever it accepts as a string literal is a quoted sequence of RFC 8259
   chars (so a raw control character, a bare backslash or a short \u escape is never read) *)
Theorem C05_decoder_strings_strict : forall s cs r, lex_string s = Some (cs, r) ->
  exists body, s = 34 :: body ++ 34 :: r /\ json_chars body.
Proof. exact lex_string_sound. Qed.

(* the emitted document of every value with finite numbers, in every whitespace format and at
   every starting depth, decodes to exactly that value — for any number printer/reader pair
   that round-trips the numbers of the value and prints RFC 8259 numbers *)
Theorem C05_manifest_parse_roundtrip :
  forall (show : f64 -> str) (read : str -> option f64) (fmt : json_format) (v : jvalue) (d : nat),
  (forall x, In x (nums_of v) -> read (show x) = Some x) ->
  (forall x, In x (nums_of v) -> is_json_number (show x) = true) ->
  ws_format fmt ->
  decode read (manifest show fmt d v) = Ok v.
Proof.
  intros show read fmt v d H1 H2 WF.
  apply (manifest_parse_roundtrip (fun x => In x (nums_of v)) show read H1 H2 fmt v d WF).
  apply Forall_forall. auto.
Qed.

(* the same with the hypotheses on the printer stated once for all genuine finite doubles *)
Theorem C05_manifest_parse_roundtrip_finite :
  forall (show : f64 -> str) (read : str -> option f64),
  (forall x, num_ok x -> read (show x) = Some x) ->
  (forall x, num_ok x -> is_json_number (show x) = true) ->
  forall fmt v d, ws_format fmt -> finite_nums v -> decode read (manifest show fmt d v) = Ok v.
Proof. intros show read H1 H2 fmt v d. exact (manifest_parse_roundtrip num_ok show read H1 H2 fmt v d). Qed.

(* consequently two different values never share a document, whatever the two formats *)
Theorem C05_manifest_injective :
  forall (show : f64 -> str) (read : str -> option f64),
  (forall x, num_ok x -> read (show x) = Some x) ->
  (forall x, num_ok x -> is_json_number (show x) = true) ->
  forall fmt1 fmt2 v1 v2 d1 d2, ws_format fmt1 -> ws_format fmt2 -> finite_nums v1 -> finite_nums v2 ->
  manifest show fmt1 d1 v1 = manifest show fmt2 d2 v2 -> v1 = v2.
Proof. intros show read H1 H2. exact (manifest_injective num_ok show read H1 H2). Qed.

(* the command-line document (multi-line format + trailing newline) *)
Theorem C05_cli_default_roundtrip :
  forall (show : f64 -> str) (read : str -> option f64) (v : jvalue),
  (forall x, In x (nums_of v) -> read (show x) = Some x) ->
  (forall x, In x (nums_of v) -> is_json_number (show x) = true) ->
  decode read (cli_default show v) = Ok v.
Proof.
  intros show read v H1 H2.
  apply (cli_default_roundtrip (fun x => In x (nums_of v)) show read H1 H2 v ws_format_manifest).
  apply Forall_forall. auto.
Qed.

(* -m: every file holds a document of its field; -y: the stream is ---/document pairs closed by
   the end marker, and every document decodes to its array item *)
Theorem C05_cli_multi_roundtrip :
  forall (show : f64 -> str) (read : str -> option f64),
  (forall x, num_ok x -> read (show x) = Some x) ->
  (forall x, num_ok x -> is_json_number (show x) = true) ->
  forall ms, finite_nums (JObj ms) ->
  exists files, cli_multi show (JObj ms) = Some files
  /\ Forall2 (fun kv f => fst f = fst kv /\ decode read (snd f) = Ok (snd kv)) ms files.
Proof. intros show read H1 H2. exact (cli_multi_roundtrip num_ok show read H1 H2). Qed.

Theorem C05_cli_yaml_stream_roundtrip :
  forall (show : f64 -> str) (read : str -> option f64),
  (forall x, num_ok x -> read (show x) = Some x) ->
  (forall x, num_ok x -> is_json_number (show x) = true) ->
  forall items, finite_nums (JArr items) -> items <> [] ->
  exists docs, cli_yaml_stream show (JArr items)
               = Some (flat_map (fun doc => [45; 45; 45; 10] ++ doc) docs ++ [46; 46; 46; 10])
  /\ Forall2 (fun it doc => decode read doc = Ok it) items docs.
Proof. intros show read H1 H2. exact (cli_yaml_stream_roundtrip num_ok show read H1 H2). Qed.

(* every whitespace format erases to the minified text *)
Theorem C05_ws_erasure :
  forall (show : f64 -> str) (fmt : json_format) (v : jvalue) (d d' : nat),
  (forall x, In x (nums_of v) -> is_json_number (show x) = true) ->
  ws_format fmt ->
  erase_ws (manifest show fmt d v) = manifest show fmt_minified d' v.
Proof.
  intros show fmt v d d' H WF.
  apply (ws_erasure (fun x => In x (nums_of v)) show H fmt WF v d d'). apply Forall_forall. auto.
Qed.

(* the formats the implementation constructs itself are whitespace formats *)
Theorem C05_builtin_formats_ws :
  ws_format fmt_to_string /\ ws_format fmt_manifest /\ ws_format fmt_std_json /\ ws_format fmt_minified.
Proof. exact builtin_formats_ws. Qed.

(* the shared escaper in its other roles *)
Theorem C05_toml_basic_string_ok : forall s, quoted toml_basic_chars (escape_string_toml s).
Proof. exact toml_basic_string_ok. Qed.

Theorem C05_python_string_ok : forall s, quoted python_chars (escape_string_python s).
Proof. exact python_string_ok. Qed.

(* ... and a one-line YAML 1.2 double-quoted scalar (strings not ending in a newline, quoted keys) *)
Theorem C05_yaml_double_quoted_ok : forall s, quoted yaml_dq_chars (escape_string_json s).
Proof. exact yaml_double_quoted_ok. Qed.

Theorem C05_safe_toml_plain_sound : forall s, is_safe_toml_plain s = true -> toml_bare_key s.
Proof. exact safe_toml_plain_sound. Qed.

Theorem C05_escape_key_toml_ok : forall s,
  toml_bare_key (escape_key_toml s) \/ quoted toml_basic_chars (escape_key_toml s).
Proof. exact escape_key_toml_ok. Qed.

(* YAML plain keys: what the predicate guarantees ... *)
Theorem C05_safe_yaml_plain_chars : forall s, is_safe_yaml_plain s = true ->
  s <> [] /\ Forall (fun c => yaml_plain_char c = true) s
  /\ existsb (eq_ignore_ascii_case s) yaml_special = false.
Proof. exact safe_yaml_plain_chars. Qed.

(* ... and what it does not: the full statement (a key accepted as plain is read back as a
   string by a YAML 1.2 core-schema loader) is false of the code as written — 1e5, 0o17 *)
Definition C05_goal_yaml_plain : Prop :=
  forall s, is_safe_yaml_plain s = true -> yaml12_core_nonstring s = false.

Theorem C05_safe_yaml_plain_core_string_refuted :
  exists s, is_safe_yaml_plain s = true /\ yaml12_core_nonstring s = true.
Proof. exact safe_yaml_plain_core_string_refuted. Qed.

(* ---- non-vacuity ---- *)
(* a printer/reader pair given by a table, a value with nesting, empty containers, keys and
   strings that need escapes (U+001A, quote, backslash, U+007F) and non-integer doubles:
   the hypotheses of the round-trip theorem hold and the decoder really runs to the value *)
Definition ex_one : f64 := f_of_bits 4607182418800017408.        (* 1.0 *)
Definition ex_tenth : f64 := f_of_bits 4591870180066957722.      (* 0.1 *)
Definition ex_nzero : f64 := f_of_bits 9223372036854775808.      (* -0.0 *)
Definition ex_show (x : f64) : str :=
  if f_to_bits x =? 4607182418800017408 then [49]
  else if f_to_bits x =? 4591870180066957722 then [48; 46; 49]
  else [45; 48].
Definition ex_read (s : str) : option f64 :=
  if str_eqb s [49] then Some ex_one else if str_eqb s [48; 46; 49] then Some ex_tenth
  else if str_eqb s [45; 48] then Some ex_nzero else None.
Definition ex_value : jvalue :=
  JObj [([34; 26], JArr [JNum ex_one; JNum ex_tenth; JNum ex_nzero; JArr []; JObj []]);
        ([], JStr [92; 127; 233; 128512; 10]);
        ([107], JObj [([97], JNull); ([98], JBool true)])].

Example C05_nonvacuous_hyps :
  (forall x, In x (nums_of ex_value) -> ex_read (ex_show x) = Some x)
  /\ (forall x, In x (nums_of ex_value) -> is_json_number (ex_show x) = true)
  /\ finite_nums ex_value
  /\ ws_format (fmt_std_ex [9] [13; 10] [32; 58; 10]).
Proof.
  split; [|split; [|split]].
  - intros x H. vm_compute in H. repeat (destruct H as [<-|H]; [vm_compute; reflexivity|]). contradiction.
  - intros x H. vm_compute in H. repeat (destruct H as [<-|H]; [vm_compute; reflexivity|]). contradiction.
  - unfold finite_nums. repeat constructor.
  - constructor; cbn; try reflexivity; try exact I.
    + exists [32], [10]. repeat split.
    + exists [], []. repeat split.
Qed.

Example C05_nonvacuous_runs :
  decode ex_read (manifest ex_show (fmt_std_ex [9] [13; 10] [32; 58; 10]) 0 ex_value) = Ok ex_value
  /\ decode ex_read (cli_default ex_show ex_value) = Ok ex_value
  /\ erase_ws (manifest ex_show fmt_manifest 0 ex_value) = manifest ex_show fmt_minified 0 ex_value
  /\ length (manifest ex_show fmt_manifest 0 ex_value) = 148%nat
  /\ is_safe_toml_plain [97; 45; 95; 57] = true /\ is_safe_toml_plain [97; 46] = false.
Proof. vm_compute. repeat split. Qed.

Print Assumptions C05_esc_table_matches_model.
Print Assumptions C05_key_tables_match_model.
Print Assumptions C05_escape_valid.
Print Assumptions C05_escape_string_json_valid.
Print Assumptions C05_unescape_escape.
Print Assumptions C05_decoder_strings_strict.
Print Assumptions C05_manifest_parse_roundtrip.
Print Assumptions C05_manifest_parse_roundtrip_finite.
Print Assumptions C05_manifest_injective.
Print Assumptions C05_cli_default_roundtrip.
Print Assumptions C05_cli_multi_roundtrip.
Print Assumptions C05_cli_yaml_stream_roundtrip.
Print Assumptions C05_ws_erasure.
Print Assumptions C05_builtin_formats_ws.
Print Assumptions C05_toml_basic_string_ok.
Print Assumptions C05_python_string_ok.
Print Assumptions C05_yaml_double_quoted_ok.
Print Assumptions C05_safe_toml_plain_sound.
Print Assumptions C05_escape_key_toml_ok.
Print Assumptions C05_safe_yaml_plain_chars.
Print Assumptions C05_safe_yaml_plain_core_string_refuted.
Print Assumptions C05_nonvacuous_hyps.
Print Assumptions C05_nonvacuous_runs.
