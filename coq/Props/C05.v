(* Props/C05.v — pinned statements for property C05 (every emitted document is
   well-formed and decodes to the value it came from). *)
From RJ Require Import Base.Outcome Base.F64 Model.Token Model.JsonEsc Model.JsonDec Model.Manifest
  Proofs.JsonEsc_proofs Gen.EscTable.
Local Open Scope N_scope.

(* T: the match arms found in the current source are the hand model, on every code point *)
Theorem C05_esc_table_matches_model : forall c, table_escape esc_arms esc_default c = escape_char c.
Proof. apply esc_table_matches_model_gen; vm_compute; reflexivity. Qed.

(* the body of an escaped string is NOT always a sequence of RFC 8259 chars: U+001A is emitted raw *)
Theorem C05_escape_valid_refuted : exists s, ~ json_chars (escape_body s).
Proof.
  exists [26]. vm_compute. intros H. inversion H as [|c r Hp| |]; subst. vm_compute in Hp. discriminate.
Qed.

Print Assumptions C05_esc_table_matches_model.
Print Assumptions C05_escape_valid_refuted.
