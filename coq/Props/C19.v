(* Props/C19.v — pinned statements for property C19 (std.format and % follow printf-style
   formatting).  Statements closed by [exact lemma], non-vacuity Examples and Print Assumptions. *)
From RJ Require Import Base.Outcome Base.F64 Model.Format Proofs.Format_proofs.
From Coq Require Import Floats.SpecFloat.
Local Open Scope N_scope.

(* every format string yields codes or one of the five format-string errors (truncated,
   width / precision too large, missing precision digits, unknown conversion): no panic,
   no divergence *)
Theorem C19_format_parse_total : forall fmt,
  match parse_format_codes fmt with
  | Ok _ => True
  | Err e => is_parse_err e = true
  | _ => False
  end.
Proof. exact format_parse_total. Qed.

(* for every format string and every (finite-number) argument, and whatever libm's log10
   returns, std.format yields a string or an error: never a panic, never a loop *)
Theorem C19_format_no_panic : forall lf fmt a, finite_args a ->
  match format lf fmt a with Ok _ | Err _ => True | _ => False end.
Proof. exact format_no_crash. Qed.

(* an array argument is accepted only when it has exactly one item per conversion
   (other than %%), per * width and per * precision; otherwise the outcome is an error
   (by C19_format_no_panic it is not a panic) *)
Theorem C19_arg_count_errors : forall lf parts rest used s,
  format_array lf parts rest used = Ok s -> lenN rest = needed parts.
Proof. exact format_array_count. Qed.

(* a rendered field is never shorter than its width, counted in characters *)
Theorem C19_pad_reaches_width : forall s w l, w <= lenN (field_pad s w l).
Proof. exact pad_reaches_width. Qed.

(* ... for every directive of the array machine (inline width, or * taken from the array)
   and of the object machine *)
Theorem C19_field_width_ok : forall lf c,
  (forall rest used s rest' used', array_code lf c rest used = Ok (s, rest', used') ->
     (forall v, fw c = Some (FInline v) -> v <= lenN s) /\
     (forall x t v, fw c = Some FExternal -> rest = VNum x :: t -> try_to_u32 x = Some v -> v <= lenN s)) /\
  (forall fs s v, object_code lf c fs = Ok s -> fw c = Some (FInline v) -> v <= lenN s).
Proof.
  intros lf c. split.
  - intros rest used s rest' used' H. apply (array_code_spec lf) in H. tauto.
  - exact (object_code_width lf c).
Qed.

(* zero flag / precision: at least min_chars characters, at least min_digits digits after the sign *)
Theorem C19_decorate_min_width : forall digits neg mc md sg bl,
  mc <= lenN (decorate_digits digits neg mc md sg bl) /\
  lenN (sign_prefix neg sg bl) + md <= lenN (decorate_digits digits neg mc md sg bl) /\
  exists pad, decorate_digits digits neg mc md sg bl = sign_prefix neg sg bl ++ repeatN 48 pad ++ digits.
Proof. exact decorate_min_width. Qed.

Theorem C19_render_int_min_width : forall neg mag mc md bl pl radix zp,
  mc <= lenN (render_int neg mag mc md bl pl radix zp) /\
  lenN (sign_prefix neg pl bl) + md <= lenN (render_int neg mag mc md bl pl radix zp).
Proof. exact render_int_min_width. Qed.

(* the radix loop, any radix >= 2, any magnitude: the digits denote the number, each is
   below the radix, no leading zero *)
Theorem C19_radix_digits_value : forall r n, 2 <= r ->
  digits_value r (radix_digits r n) = n /\
  Forall (fun d => d < r) (radix_digits r n) /\
  (0 < n -> exists d t, radix_digits r n = d :: t /\ 0 < d).
Proof. exact radix_digits_value. Qed.

(* %o %x %X: sign, zeros, then (the # prefix and) exactly those digits *)
Theorem C19_render_int_digits : forall neg mag mc md bl pl radix zp,
  exists pad,
    render_int neg mag mc md bl pl radix zp =
    sign_prefix neg pl bl ++ repeatN 48 pad ++
      (if mag =? 0 then [48] else zp ++ map (fun d => 48 + d) (radix_digits radix mag)).
Proof. exact render_int_digits. Qed.

(* %d %i %u: below 2^53 the digits are the exact integer *)
Theorem C19_decimal_exact_below_2p53 : forall lf c fwv precv x n,
  ctype c = CDecimal -> trunc_mag x = Some n -> n < 2 ^ 53 ->
  do_format_code lf c fwv precv (VNum x) =
  Ok (decorate_digits (dec_digits n) (is_neg_trunc x)
        (if fl_zero (flags c) && negb (fl_left (flags c)) then fwv else 0)
        (match prec c with Some _ => precv | None => 0 end)
        (fl_plus (flags c)) (fl_blank (flags c))).
Proof. exact decimal_exact_below_2p53. Qed.

(* %f %F: for every finite double m*2^e and EVERY precision the digits are ip[.fp] with
   exactly prec fraction digits, and the integer ip.fp is m*2^e*10^prec rounded to
   nearest, ties to even (pure integer statement: D*den vs num) *)
Theorem C19_fixed_digits_correct : forall s m e prec, (- 65535 <= e)%Z ->
  exists ip fp,
    capped_fixed (S754_finite s m e) prec = Ok (if prec =? 0 then ip else ip ++ 46 :: fp) /\
    lenN fp = prec /\ 1 <= lenN ip /\ all_digits (ip ++ fp) /\
    is_rhe (Z.of_N (str_value (ip ++ fp)))
           (Z.pos m * 2 ^ (Z.max e 0) * 10 ^ (Z.of_N prec))%Z (2 ^ (Z.max (- e) 0))%Z.
Proof. exact fixed_digits_correct. Qed.

(* ... and [capped_fixed] is the digit string render_float_def decorates *)
Theorem C19_fixed_is_rendered : forall value prec zp plus blank ensure_pt trim,
  render_float_def value prec zp plus blank ensure_pt trim =
  obind (capped_fixed (f_abs value) prec) (fun d =>
  Ok (decorate_digits
        (if (prec =? 0) && ensure_pt then d ++ [46]
         else if negb (prec =? 0) && trim then
                (if ensure_pt then trim_end_zeros d else strip_dot_suffix (trim_end_zeros d))
              else d)
        (is_neg value) zp 0 plus blank)).
Proof. exact render_float_def_digits. Qed.

(* %g %G: value-and-shape invariants only *)
Theorem C19_g_shape : forall lf c fwv precv x,
  (ctype c = CGLower \/ ctype c = CGUpper) -> f_is_finite x = true ->
  exists d, do_format_code lf c fwv precv (VNum x) =
            Ok (decorate_digits d (is_neg x)
                  (if fl_zero (flags c) && negb (fl_left (flags c)) then fwv else 0) 0
                  (fl_plus (flags c)) (fl_blank (flags c))).
Proof. exact g_shape. Qed.

(* Display (f64::to_string, used by %s and %d above 2^53), the rule implemented: the first
   digit count at which a neighbour lies inside the rounding interval (reads back as the same
   double); both inside: the closer, an exact tie UP as Rust's flt2dec does *)
Theorem C19_shortest_sound : forall fuel m e E b n,
  let '(d, k) := shortest_search fuel m e E b n in
  (in_interval m e b d k = true /\
   exists n', (n <= n')%Z /\ k = (E - n' + 1)%Z /\
     forall j, (n <= j < n')%Z ->
       in_interval m e b (cand_lo m e E j) (E - j + 1)%Z = false /\
       in_interval m e b (cand_lo m e E j + 1)%Z (E - j + 1)%Z = false)
  \/ k = (E - (n + Z.of_nat fuel) + 1)%Z.
Proof. exact shortest_search_sound. Qed.

Theorem C19_shortest_tie_rule : forall f m e E b n,
  let k := (E - n + 1)%Z in
  let lo := cand_lo m e E n in
  in_interval m e b lo k = true -> in_interval m e b (lo + 1)%Z k = true ->
  shortest_search (S f) m e E b n =
  if (dist m e lo k <? dist m e (lo + 1) k)%Z then (lo, k) else ((lo + 1)%Z, k).
Proof. exact shortest_tie_rule. Qed.

(* the repaired false alarm: 10^15 + 1/4 prints ...000.3 *)
Theorem C19_display_tie_up :
  display (f_of_bits 0x430c6bf526340002) = [49; 48; 48; 48; 48; 48; 48; 48; 48; 48; 48; 48; 48; 48; 48; 48; 46; 51].
Proof. exact display_tie_up. Qed.

(* the two defects found on the pinned tree, as facts about the code they were in *)
Theorem C19_pad_bytes_refuted : exists s w l, lenN (field_pad_bytes s w l) < w.
Proof. exact pad_reaches_width_refuted. Qed.

Theorem C19_fmt_prec_limit : exists x p, is_panic (fmt_fixed x p) = true /\ is_panic (fmt_exp x p) = true.
Proof. exact fmt_prec_limit. Qed.

(* %e %E: for every binary64 value m*2^e > 0 and EVERY precision (capped-precision path of
   the repair included) the p+1 digits ds and the exponent E given to the decoration satisfy
   10^p <= ds < 10^(p+1) and ds = (m*2^e) / 10^(E-p) rounded to nearest, ties to even
   (integer statement: pa j / pb j is 10^j as a fraction) *)
Theorem C19_exp_digits_correct : forall s m e prec,
  (Z.pos m < 2 ^ 53)%Z -> (- 65000 <= e <= 65000)%Z ->
  exists ds E,
    capped_exp (S754_finite s m e) prec = Ok (ds, E) /\
    lenN ds = prec + 1 /\ all_digits ds /\
    (10 ^ Z.of_N prec <= Z.of_N (str_value ds) < 10 ^ (Z.of_N prec + 1))%Z /\
    is_rhe (Z.of_N (str_value ds))
           (Z.pos m * 2 ^ Z.max e 0 * pa (Z.of_N prec - E))%Z
           (2 ^ Z.max (- e) 0 * pb (Z.of_N prec - E))%Z.
Proof. exact exp_digits_correct. Qed.

(* ... the decimal exponent: ilog10 is THE integer E0 with 10^E0 <= m*2^e < 10^(E0+1), and
   the rendered exponent is E0, or E0+1 exactly when the digits round up to 1 0...0 *)
Theorem C19_exp_exponent : forall m e p, (0 < m)%Z ->
  let '(ds, E) := exp_parts m e p in
  let E0 := ilog10 m e in
  bracket E0 (m * 2 ^ Z.max e 0)%Z (2 ^ Z.max (- e) 0)%Z /\
  (E = E0 \/ (E = E0 + 1 /\ Z.of_N (str_value ds) = 10 ^ Z.of_N p))%Z.
Proof. exact exp_exponent_after_carry. Qed.

Theorem C19_exponent_unique : forall E1 E2 num den, (0 < den)%Z ->
  bracket E1 num den -> bracket E2 num den -> E1 = E2.
Proof. exact bracket_unique. Qed.

(* ... and [capped_exp] is what render_float_exp decorates *)
Theorem C19_exp_is_rendered : forall value prec zp plus blank ensure_pt trim uppercase,
  render_float_exp value prec zp plus blank ensure_pt trim uppercase =
  obind (capped_exp (f_abs value) prec) (fun de =>
  let ds := fst de in
  let mant := match ds with d0 :: rest => if prec =? 0 then [d0] else d0 :: 46 :: rest | [] => [] end in
  let mant := if negb (prec =? 0) && trim
              then (if ensure_pt then trim_end_zeros mant else strip_dot_suffix (trim_end_zeros mant))
              else mant in
  Ok (decorate_digits
        (mant ++ (if (prec =? 0) && ensure_pt then [46] else []) ++
         (if uppercase then 69 else 101) :: exp_suffix (snd de))
        (is_neg value) zp 0 plus blank)).
Proof. exact render_float_exp_digits. Qed.

(* %g %G, as coded: which renderer and which precision *)
Theorem C19_g_selects : forall lf c fwv precv x,
  (ctype c = CGLower \/ ctype c = CGUpper) ->
  let fl := flags c in
  let P := match prec c with Some _ => precv | None => 6 end in
  let X := if f_is_zero x then 0%Z else lf (f_abs x) in
  let zp := if fl_zero fl && negb (fl_left fl) then fwv else 0 in
  do_format_code lf c fwv precv (VNum x) =
  if (X <? -4)%Z || ((0 <=? X)%Z && (Z.of_N P <=? X)%Z) then
    render_float_exp x (N.max P 1 - 1) zp (fl_plus fl) (fl_blank fl) (fl_alt fl) (negb (fl_alt fl))
                     (conv_eqb (ctype c) CGUpper)
  else
    render_float_def x
      (P - (if f_ltb (f_abs x) f_one then 1
            else match trunc_mag x with
                 | Some mag => lenN (display_int mag)
                 | None => lenN (display_abs (f_abs x)) end))
      zp (fl_plus fl) (fl_blank fl) (fl_alt fl) (negb (fl_alt fl)).
Proof. exact g_selects. Qed.

(* without #, %g drops the fraction's trailing zeros (and a bare point): same number *)
Theorem C19_g_trim_keeps_value : forall ip fp, all_digits fp ->
  exists fp' k,
    fp = fp' ++ repeatN 48 k /\
    strip_dot_suffix (trim_end_zeros (ip ++ 46 :: fp)) =
      (match fp' with [] => ip | _ => ip ++ 46 :: fp' end) /\
    str_value (ip ++ fp) = str_value (ip ++ fp') * 10 ^ k.
Proof. exact g_trim_keeps_value. Qed.

(* where the code's %g is NOT C's %g: "%.0g" % 5 = "5e+00" (C: "5"), "%.3g" % 999.9 = "1000"
   (C: "1e+03" — same number, other notation), "%g" % 0.000123456 = "0.00012" (C:
   "0.000123456": below 1 only P-1 fraction digits are kept, not P significant digits) *)
Theorem C19_g_deviations :
  format_run [37; 46; 48; 103] (ASingle (VNum (f_of_Z 5))) = Ok [53; 101; 43; 48; 48] /\
  format_run [37; 46; 51; 103] (ASingle (VNum (f_of_bits 0x408f3f3333333333))) = Ok [49; 48; 48; 48] /\
  format_run [37; 103] (ASingle (VNum (f_of_bits 0x3f202e7ef70994dd))) = Ok [48; 46; 48; 48; 48; 49; 50].
Proof. exact g_deviations. Qed.

(* ---- non-vacuity: the hypotheses are met by non-trivial values, and the model computes *)
Example C19_nonvacuous :
  (* "%-5s|" % "日本" is padded to five characters *)
  format_run [37; 45; 53; 115; 124] (ASingle (VStr [26085; 26412])) = Ok [26085; 26412; 32; 32; 32; 124] /\
  (* "%.70000f" % 1 renders: 1, the point, 70000 zeros *)
  match format_run [37; 46; 55; 48; 48; 48; 48; 102] (ASingle (VNum (f_of_Z 1))) with
  | Ok s => lenN s = 70002 | _ => False end /\
  (* ties go to the even digit: %.2f of 0.125 and 0.375; %.0e of 2.5 *)
  capped_fixed (f_of_Z_exp 1 (-3)) 2 = Ok [48; 46; 49; 50] /\
  capped_fixed (f_of_Z_exp 3 (-3)) 2 = Ok [48; 46; 51; 56] /\
  format_run [37; 46; 48; 101] (ASingle (VNum (f_of_Z_exp 5 (-1)))) = Ok [50; 101; 43; 48; 48] /\
  (* an array that is too short / too long is an error *)
  format_run [37; 100; 37; 100] (AArray [VNum (f_of_Z 1)]) = Err (ENotEnough 1) /\
  format_run [37; 100] (AArray [VNum (f_of_Z 1); VNum (f_of_Z 2)]) = Err (ETooMany 1 2) /\
  (* hypotheses of the theorems above are satisfiable *)
  finite_args (AArray [VNum (f_of_Z 42); VStr [97]]) /\
  trunc_mag (f_of_Z (-42)) = Some 42 /\ (- 65535 <= -1074)%Z /\
  radix_digits 16 255 = [15; 15] /\
  parse_format_codes [37; 40; 97; 41; 43; 48; 42; 46; 51; 108; 100] =
    Ok [PCode {| mkey := Some [97]; flags := {| fl_alt := false; fl_zero := true; fl_left := false; fl_blank := false; fl_plus := true |};
                 fw := Some FExternal; prec := Some (FInline 3); len_mod := Some LLowerL; ctype := CDecimal |}].
Proof. vm_compute. repeat split; try reflexivity; try discriminate; repeat constructor. Qed.

Print Assumptions C19_format_parse_total.
Print Assumptions C19_format_no_panic.
Print Assumptions C19_arg_count_errors.
Print Assumptions C19_pad_reaches_width.
Print Assumptions C19_field_width_ok.
Print Assumptions C19_decorate_min_width.
Print Assumptions C19_render_int_min_width.
Print Assumptions C19_radix_digits_value.
Print Assumptions C19_render_int_digits.
Print Assumptions C19_decimal_exact_below_2p53.
Print Assumptions C19_fixed_digits_correct.
Print Assumptions C19_fixed_is_rendered.
Print Assumptions C19_g_shape.
Print Assumptions C19_exp_digits_correct.
Print Assumptions C19_exp_exponent.
Print Assumptions C19_exponent_unique.
Print Assumptions C19_exp_is_rendered.
Print Assumptions C19_g_selects.
Print Assumptions C19_g_trim_keeps_value.
Print Assumptions C19_g_deviations.
Print Assumptions C19_shortest_sound.
Print Assumptions C19_shortest_tie_rule.
Print Assumptions C19_display_tie_up.
Print Assumptions C19_pad_bytes_refuted.
Print Assumptions C19_fmt_prec_limit.
Print Assumptions C19_nonvacuous.
