(* Props/C19.v — pinned statements for property C19 (std.format / % follow printf). *)
From RJ Require Import Base.Outcome Base.F64 Model.Format Proofs.Format_proofs.
Local Open Scope N_scope.

Theorem C19_pad_reaches_width_refuted : exists s w l, lenN (field_pad s w l) < w.
Proof. exact pad_reaches_width_refuted. Qed.

Theorem C19_prec_limit_refuted : exists fmt a, is_panic (format_run fmt a) = true.
Proof. exact prec_limit_refuted. Qed.

Print Assumptions C19_pad_reaches_width_refuted.
Print Assumptions C19_prec_limit_refuted.
