(* Props/C18.v — pinned statements for property C18 *)
From RJ Require Import Base.Outcome Base.F64 Model.StrFns Proofs.StrFns_proofs.
Local Open Scope N_scope.

Theorem C18_length_counts_cps : forall s, std_length (VStr s) = Ok (VNum (f_of_N (N.of_nat (length s)))).
Proof. exact length_counts_cps. Qed.

Print Assumptions C18_length_counts_cps.
