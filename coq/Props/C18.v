(* Props/C18.v — pinned statements for property C18 (strings are sequences of
   Unicode code points in every string function).  Nothing here but statements
   closed by [exact lemma], non-vacuity Examples, and [Print Assumptions].

   Strings are [list N] of code points; [occurs_at p s i] = "p occurs in s at
   character index i"; [Split p s l] / [RSplit p s l] are the derivations of
   Rust's str::split / rsplit (successive first / last matches), [split],
   [splitn], [rsplitn] their fuelled executable forms used by the model. *)
From RJ Require Import Base.Outcome Base.F64 Model.StrFns Proofs.StrFns_proofs Proofs.StrFns_char_proofs.
From Coq Require Import List Floats.SpecFloat.
Import ListNotations.

(* ---- counting ---- *)

Theorem C18_length_counts_cps : forall s,
  std_length (VStr s) = Ok (VNum (f_of_N (N.of_nat (length s)))).
Proof. exact length_counts_cps. Qed.

Theorem C18_utf8_len_ge_length : forall s, (N.of_nat (length s) <= utf8_len s)%N.
Proof. exact utf8_len_ge_length. Qed.

(* the byte length equals the character count only for pure-ASCII strings: any
   byte-based shortcut shows as soon as one non-ASCII character is present *)
Theorem C18_utf8_len_eq_length_iff_ascii : forall s,
  utf8_len s = N.of_nat (length s) <-> Forall (fun c => (c < 128)%N) s.
Proof. exact utf8_len_eq_length_iff_ascii. Qed.

(* ---- index, substr, slice ---- *)

Theorem C18_index_is_nth : forall s x i, try_to_usize_exact x = Some i ->
  index_value (VStr s) (VNum x) =
    match nth_error s (N.to_nat i) with
    | Some c => Ok (VStr [c])
    | None => Err ENumericIndexOutOfRange
    end.
Proof. exact index_is_nth. Qed.

Theorem C18_index_rejected : forall s x, try_to_usize_exact x = None ->
  index_value (VStr s) (VNum x) = Err ENumericIndexIsNotValid.
Proof. exact index_rejected. Qed.

(* concretely, for indices / lengths below 2^16 written as numbers (exhaustive check of the
   double conversions): s[i] is the i-th code point, substr drops a and keeps l code points *)
Theorem C18_index_small_is_nth : forall s i, (i < 0x10000)%N ->
  index_value (VStr s) (VNum (f_of_N i)) =
    match nth_error s (N.to_nat i) with
    | Some c => Ok (VStr [c])
    | None => Err ENumericIndexOutOfRange
    end.
Proof. exact index_small_is_nth. Qed.

Theorem C18_substr_small : forall s a l, (a < 0x10000)%N -> (l < 0x10000)%N ->
  std_substr (VStr s) (VNum (f_of_N a)) (VNum (f_of_N l)) =
    Ok (VStr (firstn (N.to_nat l) (skipn (N.to_nat a) s))).
Proof. exact substr_small. Qed.

Theorem C18_substr_slice_agree : forall s a l e v,
  not_integer e = false -> f_neg_p e = false ->
  sat_cast usize_max e = (sat_cast usize_max a + sat_cast usize_max l)%N ->
  std_substr (VStr s) (VNum a) (VNum l) = Ok v ->
  slice_expr (VStr s) (VNum a) (VNum e) VNull = Ok v.
Proof. exact substr_slice_agree. Qed.

Theorem C18_slice_is_skip_take_step : forall s a b c isf v, (lenN s <= usize_max)%N ->
  do_slice (VStr s) a b c isf = Ok v ->
  exists st en sp, get_slice_range (lenN s) a b c = Ok (st, en, sp) /\ (st <= en)%N /\ (1 <= sp)%N /\
    v = VStr (step_by sp (firstn (N.to_nat (en - st)) (skipn (N.to_nat st) s))).
Proof. exact slice_is_skip_take_step. Qed.

Theorem C18_slice_no_panic : forall s a b c isf, (lenN s <= usize_max)%N ->
  is_panic (do_slice (VStr s) a b c isf) = false.
Proof. exact slice_no_panic. Qed.

(* ---- split / join ---- *)

Theorem C18_split_total : forall s sep, sep <> [] ->
  exists l, StrFns.split s sep = Ok l /\ Split sep s l.
Proof. exact split_total. Qed.

Theorem C18_join_split : forall s sep l, sep <> [] ->
  StrFns.split s sep = Ok l -> join sep l = s.
Proof. exact join_split. Qed.

Theorem C18_split_no_sep_inside : forall s sep l, sep <> [] -> StrFns.split s sep = Ok l ->
  Forall (fun piece => forall i, occurs_at sep piece i = false) l.
Proof. exact split_no_sep_inside. Qed.

(* value level: std.join(c, std.split(s, c)) == s *)
Theorem C18_std_join_split : forall s sep v, std_split (VStr s) (VStr sep) = Ok v ->
  std_join (VStr sep) v = Ok (VStr s).
Proof. exact std_join_split. Qed.

(* ---- findSubstr: every and only match position, ascending ---- *)

Theorem C18_findSubstr_sound_complete : forall pat s, pat <> [] ->
  find_substr_cps pat s =
    Ok (map N.of_nat (filter (occurs_at pat s) (seq 0 (length s)))).
Proof. exact findSubstr_spec. Qed.

Theorem C18_findSubstr_in : forall pat s l, pat <> [] -> find_substr_cps pat s = Ok l ->
  forall k, In (N.of_nat k) l <-> ((k < length s)%nat /\ occurs_at pat s k = true).
Proof. exact findSubstr_in. Qed.

(* ---- strip ---- *)

Theorem C18_strip_decomposes : forall cs s, exists a b, s = a ++ strip cs s ++ b /\
  Forall (listed cs) a /\ Forall (listed cs) b /\
  (strip cs s = [] \/
   (exists c t, strip cs s = c :: t /\ memN c cs = false) /\
   (exists t c, strip cs s = t ++ [c] /\ memN c cs = false)).
Proof. exact strip_decomposes. Qed.

Theorem C18_strip_maximal : forall cs s a' r' b' x m m' y,
  s = a' ++ r' ++ b' -> r' = x :: m -> r' = m' ++ [y] ->
  memN x cs = false -> memN y cs = false ->
  exists u v, strip cs s = u ++ r' ++ v.
Proof. exact strip_maximal. Qed.

Theorem C18_lstrip_spec : forall cs s, exists a, s = a ++ lstrip cs s /\ Forall (listed cs) a /\
  (lstrip cs s = [] \/ exists c t, lstrip cs s = c :: t /\ memN c cs = false).
Proof. exact lstrip_spec. Qed.

Theorem C18_rstrip_spec : forall cs s, exists b, s = rstrip cs s ++ b /\ Forall (listed cs) b /\
  (rstrip cs s = [] \/ exists t c, rstrip cs s = t ++ [c] /\ memN c cs = false).
Proof. exact rstrip_spec. Qed.

(* ---- splitLimit / splitLimitR: the first / last n separators ---- *)

Theorem C18_splitLimit_first_n : forall s sep ps k, sep <> [] -> StrFns.split s sep = Ok ps ->
  split_limit_cps s sep (Some (N.of_nat (S k))) =
    Ok (if (length ps <=? S k)%nat then ps else firstn k ps ++ [join sep (skipn k ps)]).
Proof. exact splitLimit_first_n. Qed.

(* [rs] = all pieces obtained from the right (last match first), listed right to left *)
Theorem C18_splitLimitR_last_n : forall s sep rs k, sep <> [] -> RSplit sep s rs ->
  split_limit_r_cps s sep (Some (N.of_nat (S k))) =
    Ok (rev (if (length rs <=? S k)%nat then rs else firstn k rs ++ [join sep (rev (skipn k rs))])).
Proof. exact splitLimitR_last_n. Qed.

(* std.splitLimitR is upstream's definition: reverse string and separator, splitLimit,
   reverse the pieces and their order back *)
Theorem C18_splitLimitR_mirror : forall s sep k l', sep <> [] ->
  split_limit_cps (rev s) (rev sep) (Some (N.of_nat (S k))) = Ok l' ->
  split_limit_r_cps s sep (Some (N.of_nat (S k))) = Ok (rev (map (@rev N) l')).
Proof. exact splitLimitR_mirror. Qed.

Theorem C18_rsplit_exists_clean : forall s sep, sep <> [] ->
  exists rs, RSplit sep s rs /\ join sep (rev rs) = s /\
             Forall (fun piece => forall i, occurs_at sep piece i = false) rs.
Proof. exact rsplit_exists_clean. Qed.

Theorem C18_splitLimit_join : forall s sep n l, sep <> [] -> (1 <= n)%N ->
  split_limit_cps s sep (Some n) = Ok l -> join sep l = s.
Proof. exact splitLimit_join. Qed.

Theorem C18_splitLimitR_join : forall s sep n l, sep <> [] -> (1 <= n)%N ->
  split_limit_r_cps s sep (Some n) = Ok l -> join sep l = s.
Proof. exact splitLimitR_join. Qed.

(* the limit decoded from the `maxsplits` double is never 0 pieces *)
Theorem C18_decoded_limit_positive : forall m n,
  (decode_maxsplits m = Ok (Some n) \/ decode_maxsplits_r m = Ok (Some n)) -> (1 <= n)%N.
Proof. exact decoded_limit_positive. Qed.

(* ---- replace, reverse, char/codepoint, stringChars, map ---- *)

Theorem C18_strReplace_is_join_split : forall s from to l, from <> [] ->
  StrFns.split s from = Ok l -> str_replace s from to = Ok (join to l).
Proof. exact strReplace_is_join_split. Qed.

Theorem C18_reverse_involutive : forall s l, std_reverse (VStr s) = Ok (VArr l) ->
  std_reverse (VArr l) = Ok (VArr (string_chars s)).
Proof. exact reverse_involutive. Qed.

Theorem C18_char_codepoint_inverse : forall c, is_scalar c = true ->
  std_char (VNum (f_of_N c)) = Ok (VStr [c]) /\
  std_codepoint (VStr [c]) = Ok (VNum (f_of_N c)).
Proof. exact char_codepoint_inverse. Qed.

Theorem C18_char_rejects_non_scalar : forall c, (c < 0x110000)%N -> is_scalar c = false ->
  std_char (VNum (f_of_N c)) = Err EOther.
Proof. exact char_rejects_non_scalar. Qed.

Theorem C18_codepoint_char_inverse : forall x v, std_char (VNum x) = Ok v ->
  exists c, v = VStr [c] /\ is_scalar c = true /\ std_codepoint v = Ok (VNum (f_of_N c)).
Proof. exact codepoint_char_inverse. Qed.

Theorem C18_stringChars_join : forall s,
  std_join (VStr []) (VArr (string_chars s)) = Ok (VStr s).
Proof. exact stringChars_join. Qed.

Theorem C18_map_length : forall f s l, map_str f s = Ok l ->
  length l = length s /\
  forall i c, nth_error s i = Some c -> exists v, nth_error l i = Some v /\ f [c] = Ok v.
Proof. exact map_str_length. Qed.

Theorem C18_flatMap_id : forall s, std_flat_map (VFun 0) (VStr s) = Ok (VStr s).
Proof. exact flatMap_id. Qed.

(* ---- non-vacuity: the hypotheses above are met by non-trivial values ---- *)

(* "a𝄞é--b---c" split by "--": multi-byte characters before a self-overlapping separator *)
Example C18_nonvacuous_split :
  let s := [0x61; 0x1D11E; 0xE9; 0x2D; 0x2D; 0x62; 0x2D; 0x2D; 0x2D; 0x63]%N in
  let sep := [0x2D; 0x2D]%N in
  sep <> [] /\
  StrFns.split s sep = Ok [[0x61; 0x1D11E; 0xE9]; [0x62]; [0x2D; 0x63]]%N /\
  split_limit_cps s sep (Some 2%N) = Ok [[0x61; 0x1D11E; 0xE9]; [0x62; 0x2D; 0x2D; 0x2D; 0x63]]%N /\
  split_limit_r_cps s sep (Some 2%N) = Ok [[0x61; 0x1D11E; 0xE9; 0x2D; 0x2D; 0x62; 0x2D]; [0x63]]%N /\
  RSplit sep s [[0x63]; [0x62; 0x2D]; [0x61; 0x1D11E; 0xE9]]%N /\
  find_substr_cps sep s = Ok [3; 6; 7]%N /\
  utf8_len s = 14%N /\ length s = 10%nat.
Proof.
  repeat split; try reflexivity; try discriminate.
  eapply RSplit_cons; [reflexivity|]. eapply RSplit_cons; [reflexivity|]. apply RSplit_last. reflexivity.
Qed.

(* index / substr / slice hypotheses: accepted doubles exist (5, 2^53, 2^64) and rejected ones (0.5, -1) *)
Example C18_nonvacuous_numbers :
  try_to_usize_exact (f_of_N 5) = Some 5%N /\
  try_to_usize_exact (f_of_N (2 ^ 53)) = Some (2 ^ 53)%N /\
  try_to_usize_exact (f_of_N (2 ^ 64)) = Some usize_max /\
  try_to_usize_exact (f_of_Z_exp 1 (-1)) = None /\
  try_to_usize_exact (f_of_Z (-1)) = None /\
  (let s := [0x61; 0xE9; 0x1D11E; 0x62]%N in
   not_integer (f_of_N 3) = false /\ f_neg_p (f_of_N 3) = false /\
   sat_cast usize_max (f_of_N 3) = (sat_cast usize_max (f_of_N 1) + sat_cast usize_max (f_of_N 2))%N /\
   std_substr (VStr s) (VNum (f_of_N 1)) (VNum (f_of_N 2)) = Ok (VStr [0xE9; 0x1D11E]%N) /\
   do_slice (VStr s) (Some (f_of_Z (-3))) None (Some (f_of_N 2)) false = Ok (VStr [0xE9; 0x62]%N)) /\
  decode_maxsplits (f_of_N 1) = Ok (Some 2%N) /\
  decode_maxsplits_r (f_of_N (2 ^ 64)) = Ok (Some usize_max) /\
  is_scalar 0x1D11E = true /\ is_scalar 0xD800 = false.
Proof. vm_compute. repeat split; reflexivity. Qed.

Example C18_nonvacuous_strip :
  let s := [0x20; 0xE9; 0x61; 0xE9; 0x20; 0xE9]%N in      (* " éaé é" stripped of " é" *)
  strip [0x20; 0xE9]%N s = [0x61]%N /\
  s = [0x20; 0xE9]%N ++ [0x61]%N ++ [0xE9; 0x20; 0xE9]%N /\
  memN 0x61 [0x20; 0xE9]%N = false.
Proof. vm_compute. repeat split; reflexivity. Qed.

Print Assumptions C18_length_counts_cps.
Print Assumptions C18_utf8_len_ge_length.
Print Assumptions C18_utf8_len_eq_length_iff_ascii.
Print Assumptions C18_index_is_nth.
Print Assumptions C18_index_rejected.
Print Assumptions C18_index_small_is_nth.
Print Assumptions C18_substr_small.
Print Assumptions C18_substr_slice_agree.
Print Assumptions C18_slice_is_skip_take_step.
Print Assumptions C18_slice_no_panic.
Print Assumptions C18_split_total.
Print Assumptions C18_join_split.
Print Assumptions C18_split_no_sep_inside.
Print Assumptions C18_std_join_split.
Print Assumptions C18_findSubstr_sound_complete.
Print Assumptions C18_findSubstr_in.
Print Assumptions C18_strip_decomposes.
Print Assumptions C18_strip_maximal.
Print Assumptions C18_lstrip_spec.
Print Assumptions C18_rstrip_spec.
Print Assumptions C18_splitLimit_first_n.
Print Assumptions C18_splitLimitR_last_n.
Print Assumptions C18_splitLimitR_mirror.
Print Assumptions C18_rsplit_exists_clean.
Print Assumptions C18_splitLimit_join.
Print Assumptions C18_splitLimitR_join.
Print Assumptions C18_decoded_limit_positive.
Print Assumptions C18_strReplace_is_join_split.
Print Assumptions C18_reverse_involutive.
Print Assumptions C18_char_codepoint_inverse.
Print Assumptions C18_char_rejects_non_scalar.
Print Assumptions C18_codepoint_char_inverse.
Print Assumptions C18_stringChars_join.
Print Assumptions C18_map_length.
Print Assumptions C18_flatMap_id.
Print Assumptions C18_nonvacuous_split.
Print Assumptions C18_nonvacuous_numbers.
Print Assumptions C18_nonvacuous_strip.
