(* Props/C14.v — pinned statements for property C14 (lexing tiles the input and
   decodes literals exactly).  Statements closed by [exact lemma], non-vacuity
   examples, Print Assumptions. *)
From RJ Require Import Base.Outcome Model.Token Model.Utf8 Model.Lexer
  Proofs.Utf8_proofs Proofs.Lexer_proofs Proofs.Lexer_values_proofs Proofs.Lexer_denote_proofs Gen.LexTables.
From Coq Require Import Lia QArith_base.
Local Open Scope N_scope.

(* ---- T: the tables found in the current source are the model's ---- *)
Theorem C14_keyword_table : src_keywords = keyword_table.
Proof. reflexivity. Qed.
Theorem C14_operator_table : src_operators = operator_table.
Proof. reflexivity. Qed.
Theorem C14_single_table : src_singles = single_table.
Proof. reflexivity. Qed.
Theorem C14_op_classes :
  src_op_start = op_start_bytes /\ src_op_sure = op_sure_bytes /\
  src_op_unsure = op_unsure_bytes /\ src_op_forbidden = op_forbidden_seqs.
Proof. repeat split; reflexivity. Qed.
Theorem C14_escape_table : src_escapes = escape_table.
Proof. reflexivity. Qed.
Theorem C14_utf8_tables :
  src_utf8_lead = lead_table /\ src_utf8_second3 = second3_table /\ src_utf8_second4 = second4_table.
Proof. repeat split; reflexivity. Qed.

(* ---- UTF-8: the decoder of the lexer is lossy decoding ---- *)
Theorem C14_decode_is_lossy : forall bs, bytes_ok bs -> @decode_all lex_error bs = Ok (lossy bs).
Proof. exact (@decode_is_lossy lex_error). Qed.

Theorem C14_decode_no_panic : forall b0 rest, b0 < 256 -> bytes_ok rest ->
  exists k oc, @decode_cont_char lex_error b0 rest = Ok (k, oc) /\ (k <= length rest)%nat.
Proof. exact (@decode_no_panic lex_error). Qed.

Theorem C14_decode_scalar : forall b0 rest k c,
  @decode_cont_char lex_error b0 rest = Ok (k, Some c) -> is_scalar c = true.
Proof. exact (@decode_scalar lex_error). Qed.

(* the specification [lossy] inverts the textbook UTF-8 encoder on every
   sequence of Unicode scalar values *)
Theorem C14_lossy_encode : forall s, Forall (fun c => is_scalar c = true) s ->
  lossy (utf8_encode_all s) = s.
Proof. exact lossy_encode_all. Qed.

(* ---- tiling, filter, located error, fuel, no panic ---- *)
Theorem C14_lex_tiles : forall input toks, bytes_ok input -> lex_all true input = Ok toks ->
  tiles 0 (input_len input) (map tok_span toks) /\
  exists pre, toks = pre ++ [eof_at (input_len input)] /\
              Forall (fun t => is_eof (tok_kind t) = false /\ nonempty (tok_span t)) pre.
Proof. exact lex_tiles. Qed.

Theorem C14_lex_filter : forall input,
  lex_all false input = omap (filter non_trivia) (lex_all true input).
Proof. exact lex_filter. Qed.

Theorem C14_lex_error_located : forall keep input e, bytes_ok input ->
  lex_all keep input = Err e -> located (input_len input) e.
Proof. exact lex_error_located. Qed.

Theorem C14_fuel_sufficient : forall keep input, bytes_ok input -> lex_all keep input <> OutOfFuel.
Proof. exact fuel_sufficient. Qed.

Theorem C14_lex_no_panic : forall keep input site, bytes_ok input -> lex_all keep input <> Panic site.
Proof. exact lex_no_panic. Qed.

Theorem C14_lex_total : forall keep input, bytes_ok input ->
  (exists toks, lex_all keep input = Ok toks) \/
  (exists e, lex_all keep input = Err e /\ located (input_len input) e).
Proof. exact lex_total. Qed.

(* ---- operators: maximal munch ---- *)
(* the operator token is the LONGEST admissible prefix (op_len_ok: symbol bytes
   only; no three-pipes / slash-slash / slash-star sequence starting inside; not
   ending in + - ~ ! $ unless of length 1), its kind is read off the operator
   table, and lexing continues right after it *)
Theorem C14_operator_maximal_munch : forall len start b0 c t c', is_op_byte b0 = true ->
  lex_operator len start b0 c = Ok (t, c') ->
  exists n, op_len_ok (b0 :: rest c) n /\ (forall m, op_len_ok (b0 :: rest c) m -> (m <= n)%nat) /\
            rest c' = skipn n (b0 :: rest c) /\
            tok_kind t = match assoc_bytes (firstn n (b0 :: rest c)) operator_table with
                         | Some k => TSimple k
                         | None => TOtherOp (firstn n (b0 :: rest c))
                         end.
Proof. exact lex_operator_text. Qed.

Example C14_munch_example :
  let s := bytes_of_string "==-|||" in op_len_ok s 2 /\ ~ op_len_ok s 3 /\ ~ op_len_ok s 4.
Proof.
  cbv zeta. split; [|split].
  - split; [cbn; lia|]. split; [intros [|[|i]] Hi; try reflexivity; lia|].
    split; [intros [|[|i]] Hi; try reflexivity; lia|right; reflexivity].
  - intros [_ [_ [_ [H|H]]]]; [discriminate|vm_compute in H; discriminate].
  - intros [_ [_ [H _]]]. specialize (H 3%nat ltac:(lia)). vm_compute in H. discriminate.
Qed.

(* ---- literal values ---- *)
(* verbatim strings: the scanner computes the grammar's value (verbatim_spec:
   doubled delimiter = one delimiter, first single delimiter ends the literal) of
   the LOSSY DECODING of the input *)
Theorem C14_verbatim_string_value : forall len start delim, delim < 128 -> forall fuel c s c',
  bytes_ok (rest c) -> verbatim_loop len fuel start delim c = Ok (s, c') ->
  verbatim_spec delim (lossy (rest c)) = Some (s, lossy (rest c')) /\ bytes_ok (rest c').
Proof. exact verbatim_string_value. Qed.

(* \uHHHH\uLLLL: exactly the UTF-16 decoding, onto every supplementary scalar *)
Theorem C14_surrogate_pairs : forall hi lo c,
  decode_utf16_pair hi lo = Some c <->
  (0xD800 <= hi <= 0xDBFF /\ 0xDC00 <= lo <= 0xDFFF /\ c = 0x10000 + (hi - 0xD800) * 1024 + (lo - 0xDC00)).
Proof. exact surrogate_pair_value. Qed.

Theorem C14_surrogate_pairs_onto : forall c, 0x10000 <= c <= 0x10FFFF ->
  decode_utf16_pair (0xD800 + (c - 0x10000) / 1024) (0xDC00 + (c - 0x10000) mod 1024) = Some c /\
  is_scalar c = true.
Proof. exact surrogate_pair_onto. Qed.

(* quoted strings: the scanner computes the grammar's value (quoted_spec on code
   points: closing delimiter, one-byte escapes by the translated table, \uHHHH,
   UTF-16 pairs, everything else literally) of the LOSSY DECODING of the input *)
Theorem C14_quoted_string_value : forall len start delim, delim < 128 -> delim <> 92 ->
  forall fuel c s c' fs, bytes_ok (rest c) -> quoted_loop len fuel start delim c = Ok (s, c') ->
  (length (lossy (rest c)) < fs)%nat ->
  quoted_spec fs delim (lossy (rest c)) = Some (s, lossy (rest c')) /\ bytes_ok (rest c').
Proof. exact quoted_string_value. Qed.

(* numbers: for EVERY input, lex_number answers exactly as the segment-level
   grammar number_spec (strict := false, i.e. as the code reads it):
   integer part = first digit + digit group; LeadingZeroInNumber iff the first
   digit is 0 and the group contains a digit; then optionally '.' + at least one
   digit (else MissingFracDigits) + digit group; then optionally e/E, optional
   sign, at least one digit (else MissingExpDigits) + digit group; a group ending
   in '_' not followed by one of those continuations is MissingDigitAfterUnderscore;
   token digits = integer digits ++ fraction digits (underscores dropped),
   exp = (+/-)explicit exponent - number of fraction digits, ExpOverflow iff the
   explicit exponent or that difference leaves i64. *)
Theorem C14_number_value : forall len start chr0 c, is_digit chr0 = true ->
  match lex_number len start chr0 c with
  | Ok (t, c') => exists digits e, tok_kind t = TNumber {| num_digits := digits; num_exp := e |} /\
                                   number_spec false chr0 (rest c) = Ok (digits, e, rest c')
  | Err er => number_spec false chr0 (rest c) = Err (err_kind er)
  | _ => True
  end.
Proof. exact number_value. Qed.

(* the digit string of int ++ frac denotes int * 10^|frac| + frac: together with
   exp = X - |frac| this is  value(digits) * 10^exp = (int.frac) * 10^X *)
Theorem C14_number_digits_value : forall a b,
  dec_value (a ++ b) = dec_value a * 10 ^ N.of_nat (length b) + dec_value b.
Proof. exact dec_value_app. Qed.

(* Z_of_digits digits * 10^exp = value of the text, as rationals: a token
   produced for the segments int / frac / (+/-)X denotes
   (int + frac / 10^|frac|) * 10^(+/-X) *)
Theorem C14_number_denotes : forall strict chr0 r digits e t,
  number_spec strict chr0 r = Ok (digits, e, t) ->
  exists df sign X, digits = (chr0 :: fst (fst (scan_group false r))) ++ df /\
                    QArith_base.Qeq (num_denote digits e) (text_denote (chr0 :: fst (fst (scan_group false r))) df sign X).
Proof. exact number_spec_denotes. Qed.

(* the upstream grammar (an underscore must be followed by a digit) is contained
   in what the code accepts, with the same token ... *)
Theorem C14_number_strict_sub : forall chr0 r x,
  number_spec true chr0 r = Ok x -> number_spec false chr0 r = Ok x.
Proof. exact number_spec_strict_sub. Qed.

(* ... and the containment is proper: OBSERVED DEVIATION of the code from the
   upstream grammar: after '_' the state machine still accepts '.' and 'e', so
   1_.5, 1_e5 and 1.0_e1 are numbers (1_ and 1__0 are not) *)
Theorem C14_number_underscore_deviation :
  (forall lz a, num_step lz (NInt true) a 46 = NGo NDot a) /\
  (forall lz a, num_step lz (NInt true) a 101 = NGo NExp a) /\
  (forall lz a, num_step lz (NFrac true) a 101 = NGo NExp a) /\
  number_spec false 49 [95; 46; 53] = Ok ([49; 53], (-1)%Z, []) /\
  number_spec true 49 [95; 46; 53] = Err EMissingDigitAfterUnderscore /\
  number_spec false 49 [95; 101; 53] = Ok ([49], 5%Z, []) /\
  number_spec true 49 [95; 101; 53] = Err EMissingDigitAfterUnderscore /\
  number_spec false 49 [46; 48; 95; 101; 49] = Ok ([49; 48], 0%Z, []) /\
  number_spec true 49 [46; 48; 95; 101; 49] = Err EMissingDigitAfterUnderscore /\
  number_spec false 49 [95] = Err EMissingDigitAfterUnderscore /\
  number_spec false 49 [95; 95; 48] = Err EMissingDigitAfterUnderscore.
Proof. exact number_underscore_deviation. Qed.

Example C14_number_spec_examples :
  number_spec false 49 (bytes_of_string "_0.2_5e-1_0 x") = Ok (bytes_of_string "1025", (-12)%Z, bytes_of_string " x") /\
  number_spec false 48 (bytes_of_string "1") = Err ELeadingZeroInNumber /\
  number_spec false 48 (bytes_of_string ".5") = Ok (bytes_of_string "05", (-1)%Z, []) /\
  number_spec false 49 (bytes_of_string ".x") = Err EMissingFracDigits /\
  number_spec false 49 (bytes_of_string "e+") = Err EMissingExpDigits /\
  number_spec false 49 (bytes_of_string "e9223372036854775808") = Err EExpOverflow /\
  number_spec false 49 (bytes_of_string "e9223372036854775807") = Ok ([49], 9223372036854775807%Z, []).
Proof. vm_compute. repeat split. Qed.

(* numbers, partial: the token's digit string is a non-empty string of ASCII
   digits and the effective exponent fits i64 (what f64 parsing downstream relies
   on).  The full statement — digits/exponent denote the literal's rational,
   underscores ignored — is not proved. *)
Theorem C14_number_value_partial : forall len start b0 c t c',
  lex_number len start b0 c = Ok (t, c') ->
  exists n, tok_kind t = TNumber n /\ all_digits (num_digits n) /\ num_digits n <> [] /\
            (i64_min <= num_exp n <= i64_max)%Z.
Proof. exact number_shape. Qed.

(* text blocks: for EVERY input, the scanner's answer is that of the line-based
   transcription of the grammar (textblock_spec, on the lines of the lossy
   decoding of what follows the opening pipes):
   - header: optional '-', then only blanks / CR up to the first newline, else
     MissingLineBreakAfterTextBlockStart;
   - leading blank lines ("" or CR, followed by a newline) contribute the line and
     its newline — so a CRLF blank line contributes CR LF, as the code does;
   - the first other line must start with blanks (else MissingWhitespaceTextBlockStart):
     they are the prefix, the rest of the line and its newline are content;
   - then each line: blank line ("" or CR) -> the line and its newline; a line
     starting with the prefix -> the rest of the line and its newline
     (UnfinishedString if the input ends inside it); any other line must be
     blanks* then three pipes (else InvalidTextBlockTermination), and what follows
     them remains to be lexed;
   - with '-', exactly the final newline is dropped.
   Success and each error kind are characterised exactly (both directions, since
   the lexer always answers Ok or Err). *)
Theorem C14_textblock_value : forall len start c, bytes_ok (rest c) ->
  match lex_text_block len start c with
  | Ok (t, c') => exists s, tok_kind t = TTextBlock s /\
                            textblock_spec (lossy (rest c)) = Ok (s, lossy (rest c'))
  | Err e => textblock_spec (lossy (rest c)) = Err (err_kind e)
  | _ => True
  end.
Proof. exact textblock_value. Qed.

(* the specification on concrete blocks: CRLF blank lines keep their CR, extra
   indentation is kept, '-' drops one newline, the four error kinds *)
Example C14_textblock_spec_examples :
  textblock_spec ([10] ++ bytes_of_string "  a" ++ [13; 10; 13; 10; 10] ++ bytes_of_string "   b" ++ [10] ++ bytes_of_string " |||x")
    = Ok (bytes_of_string "a" ++ [13; 10; 13; 10; 10] ++ bytes_of_string " b" ++ [10], bytes_of_string "x") /\
  textblock_spec (bytes_of_string "- " ++ [13; 10; 13; 10; 9] ++ bytes_of_string "a" ++ [10] ++ bytes_of_string "|||")
    = Ok ([13; 10] ++ bytes_of_string "a", []) /\
  textblock_spec (bytes_of_string " x") = Err EMissingLineBreakAfterTextBlockStart /\
  textblock_spec ([10] ++ bytes_of_string "a" ++ [10] ++ bytes_of_string "|||") = Err EMissingWhitespaceTextBlockStart /\
  textblock_spec ([10] ++ bytes_of_string " a" ++ [10] ++ bytes_of_string "b") = Err EInvalidTextBlockTermination /\
  textblock_spec ([10] ++ bytes_of_string " a" ++ [10] ++ bytes_of_string " b") = Err EUnfinishedString.
Proof. vm_compute. repeat split. Qed.

Example C14_quoted_spec_example :
  quoted_spec 40 39 (bytes_of_string "a\n\u00e9\uD83D\uDE00\'b' x") = Some ([97; 10; 233; 128512; 39; 98], [32; 120]).
Proof. vm_compute. reflexivity. Qed.

(* ---- non-vacuity: the hypotheses are met by non-trivial inputs, and the
   model computes inside the kernel ---- *)
Example C14_nonvacuous :
  let src := bytes_of_string "local x = 1_0.5e-3; /* c */ x +: 'aé' @'q''' |||" ++ [10; 32; 240; 159; 152; 128; 10] ++ bytes_of_string "|||" in
  bytes_ok src /\
  (exists toks, lex_all true src = Ok toks /\ length toks = 21%nat) /\
  (exists toks, lex_all false src = Ok toks /\ length toks = 11%nat) /\
  (exists e, lex_all true (bytes_of_string "'\uD800'") = Err e /\ err_span e = (1, 7)) /\
  @decode_all lex_error [0xC1; 0x81; 0xE2; 0x82; 0xAC; 0xED; 0xA0] = Ok [0xFFFD; 0xFFFD; 0x20AC; 0xFFFD; 0xFFFD].
Proof.
  vm_compute. repeat split; try (eexists; split; reflexivity).
  repeat constructor.
Qed.

Print Assumptions C14_keyword_table.
Print Assumptions C14_operator_table.
Print Assumptions C14_single_table.
Print Assumptions C14_op_classes.
Print Assumptions C14_escape_table.
Print Assumptions C14_utf8_tables.
Print Assumptions C14_decode_is_lossy.
Print Assumptions C14_decode_no_panic.
Print Assumptions C14_decode_scalar.
Print Assumptions C14_lossy_encode.
Print Assumptions C14_lex_tiles.
Print Assumptions C14_lex_filter.
Print Assumptions C14_lex_error_located.
Print Assumptions C14_fuel_sufficient.
Print Assumptions C14_lex_no_panic.
Print Assumptions C14_lex_total.
Print Assumptions C14_operator_maximal_munch.
Print Assumptions C14_munch_example.
Print Assumptions C14_verbatim_string_value.
Print Assumptions C14_surrogate_pairs.
Print Assumptions C14_surrogate_pairs_onto.
Print Assumptions C14_quoted_string_value.
Print Assumptions C14_textblock_value.
Print Assumptions C14_textblock_spec_examples.
Print Assumptions C14_number_value.
Print Assumptions C14_number_digits_value.
Print Assumptions C14_number_denotes.
Print Assumptions C14_number_strict_sub.
Print Assumptions C14_number_underscore_deviation.
Print Assumptions C14_number_spec_examples.
Print Assumptions C14_number_value_partial.
Print Assumptions C14_quoted_spec_example.
Print Assumptions C14_nonvacuous.
