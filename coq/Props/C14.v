(* Props/C14.v — pinned statements for property C14 (lexing tiles the input and
   decodes literals exactly).  Statements closed by [exact lemma], non-vacuity
   examples, Print Assumptions. *)
From RJ Require Import Base.Outcome Model.Token Model.Utf8 Model.Lexer
  Proofs.Utf8_proofs Proofs.Lexer_proofs Gen.LexTables.
Local Open Scope N_scope.

(* ---- T: the tables found in the current source are the model's ---- *)
Theorem C14_keyword_table : src_keywords = keyword_table.
Proof. reflexivity. Qed.
Theorem C14_operator_table : src_operators = operator_table.
Proof. reflexivity. Qed.
Theorem C14_single_table : src_singles = single_table.
Proof. reflexivity. Qed.
Theorem C14_op_classes :
  src_op_start = op_start_bytes /\ src_op_sure = op_sure_bytes /\
  src_op_unsure = op_unsure_bytes /\ src_op_forbidden = op_forbidden_seqs.
Proof. repeat split; reflexivity. Qed.
Theorem C14_escape_table : src_escapes = escape_table.
Proof. reflexivity. Qed.
Theorem C14_utf8_tables :
  src_utf8_lead = lead_table /\ src_utf8_second3 = second3_table /\ src_utf8_second4 = second4_table.
Proof. repeat split; reflexivity. Qed.

(* ---- UTF-8: the decoder of the lexer is lossy decoding ---- *)
Theorem C14_decode_is_lossy : forall bs, bytes_ok bs -> @decode_all lex_error bs = Ok (lossy bs).
Proof. exact (@decode_is_lossy lex_error). Qed.

Theorem C14_decode_no_panic : forall b0 rest, b0 < 256 -> bytes_ok rest ->
  exists k oc, @decode_cont_char lex_error b0 rest = Ok (k, oc) /\ (k <= length rest)%nat.
Proof. exact (@decode_no_panic lex_error). Qed.

Theorem C14_decode_scalar : forall b0 rest k c,
  @decode_cont_char lex_error b0 rest = Ok (k, Some c) -> is_scalar c = true.
Proof. exact (@decode_scalar lex_error). Qed.

(* the specification [lossy] inverts the textbook UTF-8 encoder on every
   sequence of Unicode scalar values *)
Theorem C14_lossy_encode : forall s, Forall (fun c => is_scalar c = true) s ->
  lossy (utf8_encode_all s) = s.
Proof. exact lossy_encode_all. Qed.

(* ---- tiling, filter, located error, fuel, no panic ---- *)
Theorem C14_lex_tiles : forall input toks, bytes_ok input -> lex_all true input = Ok toks ->
  tiles 0 (input_len input) (map tok_span toks) /\
  exists pre, toks = pre ++ [eof_at (input_len input)] /\
              Forall (fun t => is_eof (tok_kind t) = false /\ nonempty (tok_span t)) pre.
Proof. exact lex_tiles. Qed.

Theorem C14_lex_filter : forall input,
  lex_all false input = omap (filter non_trivia) (lex_all true input).
Proof. exact lex_filter. Qed.

Theorem C14_lex_error_located : forall keep input e, bytes_ok input ->
  lex_all keep input = Err e -> located (input_len input) e.
Proof. exact lex_error_located. Qed.

Theorem C14_fuel_sufficient : forall keep input, bytes_ok input -> lex_all keep input <> OutOfFuel.
Proof. exact fuel_sufficient. Qed.

Theorem C14_lex_no_panic : forall keep input site, bytes_ok input -> lex_all keep input <> Panic site.
Proof. exact lex_no_panic. Qed.

Theorem C14_lex_total : forall keep input, bytes_ok input ->
  (exists toks, lex_all keep input = Ok toks) \/
  (exists e, lex_all keep input = Err e /\ located (input_len input) e).
Proof. exact lex_total. Qed.

(* ---- non-vacuity: the hypotheses are met by non-trivial inputs, and the
   model computes inside the kernel ---- *)
Example C14_nonvacuous :
  let src := bytes_of_string "local x = 1_0.5e-3; /* c */ x +: 'aé' @'q''' |||" ++ [10; 32; 240; 159; 152; 128; 10] ++ bytes_of_string "|||" in
  bytes_ok src /\
  (exists toks, lex_all true src = Ok toks /\ length toks = 21%nat) /\
  (exists toks, lex_all false src = Ok toks /\ length toks = 11%nat) /\
  (exists e, lex_all true (bytes_of_string "'\uD800'") = Err e /\ err_span e = (1, 7)) /\
  @decode_all lex_error [0xC1; 0x81; 0xE2; 0x82; 0xAC; 0xED; 0xA0] = Ok [0xFFFD; 0xFFFD; 0x20AC; 0xFFFD; 0xFFFD].
Proof.
  vm_compute. repeat split; try (eexists; split; reflexivity).
  repeat constructor.
Qed.

Print Assumptions C14_keyword_table.
Print Assumptions C14_operator_table.
Print Assumptions C14_single_table.
Print Assumptions C14_op_classes.
Print Assumptions C14_escape_table.
Print Assumptions C14_utf8_tables.
Print Assumptions C14_decode_is_lossy.
Print Assumptions C14_decode_no_panic.
Print Assumptions C14_decode_scalar.
Print Assumptions C14_lossy_encode.
Print Assumptions C14_lex_tiles.
Print Assumptions C14_lex_filter.
Print Assumptions C14_lex_error_located.
Print Assumptions C14_fuel_sufficient.
Print Assumptions C14_lex_no_panic.
Print Assumptions C14_lex_total.
Print Assumptions C14_nonvacuous.
