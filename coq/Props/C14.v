(* Props/C14.v — pinned statements for property C14 (lexing tiles the input and
   decodes literals exactly). *)
From RJ Require Import Base.Outcome Model.Token Model.Utf8 Model.Lexer
  Proofs.Utf8_proofs Proofs.Lexer_proofs Gen.LexTables.
Local Open Scope N_scope.

(* T: the tables found in the current source are the model's *)
Theorem C14_keyword_table : src_keywords = keyword_table.
Proof. reflexivity. Qed.
Theorem C14_operator_table : src_operators = operator_table.
Proof. reflexivity. Qed.
Theorem C14_single_table : src_singles = single_table.
Proof. reflexivity. Qed.
Theorem C14_op_classes :
  src_op_start = op_start_bytes /\ src_op_sure = op_sure_bytes /\
  src_op_unsure = op_unsure_bytes /\ src_op_forbidden = op_forbidden_seqs.
Proof. repeat split; reflexivity. Qed.
Theorem C14_escape_table : src_escapes = escape_table.
Proof. reflexivity. Qed.
Theorem C14_utf8_tables :
  src_utf8_lead = lead_table /\ src_utf8_second3 = second3_table /\ src_utf8_second4 = second4_table.
Proof. repeat split; reflexivity. Qed.

Theorem C14_decode_is_lossy_refuted : exists bs, @decode_all unit bs <> Ok (lossy bs).
Proof. exact decode_is_lossy_refuted. Qed.

Theorem C14_lex_filter : forall input,
  lex_all false input = omap (filter non_trivia) (lex_all true input).
Proof. exact lex_filter. Qed.

Print Assumptions C14_keyword_table.
Print Assumptions C14_operator_table.
Print Assumptions C14_single_table.
Print Assumptions C14_op_classes.
Print Assumptions C14_escape_table.
Print Assumptions C14_utf8_tables.
Print Assumptions C14_decode_is_lossy_refuted.
Print Assumptions C14_lex_filter.
