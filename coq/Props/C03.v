(* Props/C03.v — pinned statements for property C03 (garbage collection is
   invisible to programs and exact about reachability).  Nothing but
   statements closed by [exact lemma], non-vacuity Examples and
   [Print Assumptions]. *)
From RJ Require Import Base.Outcome Model.Gc Proofs.Gc_proofs Gen.GcTraceTable.
From Coq Require Import Permutation.
Local Open Scope string_scope.

(* T: in the CURRENT source every handle-bearing field of every traced type /
   enum variant is visited exactly once by its [impl GcTrace], and nothing else is *)
Theorem C03_trace_table_exact : table_ok trace_table = true.
Proof. vm_compute. reflexivity. Qed.

(* the table is about the types that actually live in collector boxes *)
Example C03_trace_table_covers :
  forallb (table_has trace_table)
    ["ThunkData"; "ObjectData"; "FuncData"; "ThunkEnv"; "ThunkEnvData"; "ObjectLayer";
     "ObjectFieldData"; "ValueData"; "PendingThunk"; "Vec"; "Option"; "OnceCell"; "RefCell"; "Box"; "slice"; "Gc"] = true.
Proof. vm_compute. reflexivity. Qed.

(* a collection of a well-formed heap succeeds (no debug_assert, no fuel exhaustion) and
   the survivors are exactly the identities reachable from the roots *)
Theorem C03_gc_exact : forall h, wf h ->
  exists h', gc h = Ok h' /\ forall i, In i (ids h') <-> reachable h (roots h) i.
Proof. exact gc_exact. Qed.

(* safety half, box for box: a reachable box survives unchanged *)
Theorem C03_gc_keeps_reachable : forall h h', wf h -> gc h = Ok h' ->
  forall b, In b h -> reachable h (roots h) (bid b) -> In b h'.
Proof. exact gc_keeps_reachable. Qed.

(* visits = 0 and mark = false afterwards, identities still distinct: the next collection starts clean *)
Theorem C03_gc_resets : forall h h', wf h -> gc h = Ok h' -> wf h'.
Proof. exact gc_resets. Qed.

Theorem C03_gc_idempotent : forall h h', wf h -> gc h = Ok h' ->
  exists h'', gc h' = Ok h'' /\ Permutation h'' h'.
Proof. exact gc_idempotent. Qed.

Theorem C03_gc_order_irrelevant : forall h h2 h' h2', wf h -> Permutation h h2 ->
  gc h = Ok h' -> gc h2 = Ok h2' -> Permutation h' h2'.
Proof. exact gc_order_irrelevant. Qed.

Theorem C03_baseline_return : forall h, wf h -> roots h = [] -> gc h = Ok [].
Proof. exact baseline_return. Qed.

Theorem C03_baseline_return_perm : forall h h' P, wf h -> gc h = Ok h' ->
  (forall i, In i (roots h) -> In i P) ->
  forall i, In i (ids h') -> reachable h P i.
Proof. exact baseline_return_perm. Qed.

Theorem C03_gc_no_panic : forall h, wf h -> exists h', gc h = Ok h'.
Proof. exact gc_no_panic. Qed.

(* the master statement the others are corollaries of *)
Theorem C03_gc_spec : forall h, wf h ->
  exists h', gc h = Ok h' /\ NoDup (ids h')
    /\ forall b, In b h' <-> (In b h /\ reachable h (roots h) (bid b)).
Proof. exact gc_spec. Qed.

(* along EVERY history of driver operations (alloc / alloc_view / add_edge / del_edge / drop_handle /
   drop_view / take_view / take_handle / gc, in any order, on any ids) the heap stays well formed, so
   a collection at any point of any history is exact, and the model driver never reports a failure *)
Theorem C03_history_gc_exact : forall os,
  let h := sheap (exec init_st os) in
  exists h', gc h = Ok h' /\ forall i, In i (ids h') <-> reachable h (roots h) i.
Proof. exact history_gc_exact. Qed.

Theorem C03_run_ops_never_fails : forall os site, ~ In (ObsFail site) (run_ops init_st os).
Proof. exact run_ops_never_fails. Qed.

Definition C03_goal : Prop := forall h, wf h ->
  exists h', gc h = Ok h' /\ forall i, In i (ids h') <-> reachable h (roots h) i.
Theorem C03_goal_holds : C03_goal.
Proof. exact gc_exact. Qed.

(* ---- non-vacuity ---- *)
Local Open Scope N_scope.
Definition bx (i : N) (es : list N) (ext : nat) (v : bool) : box := mkbox i es ext v 0 false.

Ltac wfc := apply wf_check_ok; vm_compute; reflexivity.

(* cyclic garbage of two boxes next to a rooted chain: 0 <-> 1 unreferenced, 2 (handle) -> 3 -> 2 *)
Definition cyc2 : heap := [bx 0 [1] 0 false; bx 1 [0] 0 false; bx 2 [3] 1 false; bx 3 [2] 0 false].
Example C03_cyc2 : wf cyc2 /\ gc cyc2 = Ok [bx 3 [2] 0 false; bx 2 [3] 1 false].
Proof. split; [wfc|vm_compute; reflexivity]. Qed.

(* a doubly linked ring of six boxes nobody holds, plus a viewed box pointing out of a second
   ring that survives, plus a dangling handle *)
Definition ring : heap :=
  [bx 0 [1; 5] 0 false; bx 1 [2; 0] 0 false; bx 2 [3; 1] 0 false; bx 3 [4; 2] 0 false;
   bx 4 [5; 3] 0 false; bx 5 [0; 4] 0 false;
   bx 6 [7; 8] 0 false; bx 7 [8; 6; 99] 0 false; bx 8 [6; 7] 0 false; bx 9 [7] 0 true].
Example C03_ring : wf ring /\
  gc ring = Ok [bx 9 [7] 0 true; bx 8 [6; 7] 0 false; bx 7 [8; 6; 99] 0 false; bx 6 [7; 8] 0 false].
Proof. split; [wfc|vm_compute; reflexivity]. Qed.

(* hypotheses of the order / idempotence / baseline theorems are met by non-trivial heaps *)
Example C03_nonvacuous :
  let h := cyc2 in let h2 := rev cyc2 in
  wf h /\ Permutation h h2 /\
  gc h2 = Ok [bx 3 [2] 0 false; bx 2 [3] 1 false] /\
  (let g := [bx 0 [1] 0 false; bx 1 [0; 1] 0 false] in wf g /\ roots g = [] /\ gc g = Ok []) /\
  reachable cyc2 (roots cyc2) 3 /\ ~ reachable cyc2 (roots cyc2) 0.
Proof.
  cbv zeta. split; [wfc|]. split; [apply Permutation_rev|].
  split; [vm_compute; reflexivity|]. split.
  - split; [wfc|]. split; vm_compute; reflexivity.
  - destruct (gc_exact cyc2) as [h' [E S]]; [wfc|].
    vm_compute in E. inversion E; subst h'. split.
    + apply S. vm_compute. tauto.
    + intros R. apply S in R. vm_compute in R. intuition discriminate.
Qed.

Print Assumptions C03_trace_table_exact.
Print Assumptions C03_trace_table_covers.
Print Assumptions C03_gc_exact.
Print Assumptions C03_gc_keeps_reachable.
Print Assumptions C03_gc_resets.
Print Assumptions C03_gc_idempotent.
Print Assumptions C03_gc_order_irrelevant.
Print Assumptions C03_baseline_return.
Print Assumptions C03_baseline_return_perm.
Print Assumptions C03_gc_no_panic.
Print Assumptions C03_gc_spec.
Print Assumptions C03_history_gc_exact.
Print Assumptions C03_run_ops_never_fails.
Print Assumptions C03_goal_holds.
Print Assumptions C03_cyc2.
Print Assumptions C03_ring.
Print Assumptions C03_nonvacuous.
