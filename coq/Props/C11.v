(* Props/C11.v — pinned statements for property C11 (a program state's answers do
   not depend on its past requests).  Statements, one-line proofs from
   Proofs/ThunkMachine_proofs.v, non-vacuity examples, Print Assumptions. *)
From RJ Require Import Base.Outcome Model.ThunkMachine Model.Interner Proofs.ThunkMachine_proofs.
Local Open Scope N_scope.

(* the property, at full strength, for the machine instance [restore] *)
Definition C11_goal (restore : bool) : Prop := forall s rs,
  run_shared restore s rs = map (run_fresh restore s) rs.

(* C11_goal_modulo_overflow true is the statement still open on the model: it adds to
   C11_history_independent_if_restored that the long-lived store never overflows where a
   fresh one does not (frame monotonicity of memoisation) — covered by K and the oracle only *)
(* the property outside the one boundary that memoisation under a frame limit imposes:
   requests that overflow the stack on a fresh store are excluded *)
Definition C11_goal_modulo_overflow (restore : bool) : Prop := forall s rs,
  Forall (fun r => is_overflow (run_fresh restore s r) = false) rs ->
  run_shared restore s rs = map (run_fresh restore s) rs.

(* a Done cell answers without running anything and leaves the store as it is *)
Theorem C11_done_is_stable : forall restore s id c v limit,
  nthN (cells s) id = Some c -> st c = Done v ->
  run_req restore s (Eval limit id) = (s, RVal v) /\
  run_req restore s (Manifest limit id) = (s, RStr (digits v)).
Proof. exact done_is_stable_req. Qed.

(* the code as first found: a failed request leaves thunks in progress; the same
   request again reports infinite recursion instead of the error *)
Theorem C11_history_independent_unrestored_refuted : ~ C11_goal_modulo_overflow false.
Proof.
  intros H. specialize (H boom_store boom_reqs).
  destruct boom_unrestored as [Hs Hf]. rewrite Hs, Hf in H.
  assert (Hno : Forall (fun r => is_overflow (run_fresh false boom_store r) = false) boom_reqs)
    by (repeat constructor).
  specialize (H Hno). discriminate H.
Qed.

(* the code as first found: a failed request leaves the object's assertions marked as
   checked; the next request through another thunk gets the field of an object whose
   assertion fails *)
Theorem C11_assert_flag_unrestored_refuted :
  run_shared false assert_store2 assert_reqs2 = [RErr (EAssert 4); RVal 5] /\
  map (run_fresh false assert_store2) assert_reqs2 = [RErr (EAssert 4); RErr (EAssert 4)].
Proof. exact assert_unrestored2. Qed.

(* the boundary is real for every instance: a memoised sub-result needs fewer frames *)
Theorem C11_memo_limit_refuted : forall restore, ~ C11_goal restore.
Proof.
  intros restore H. specialize (H chain_store chain_reqs).
  destruct (chain_memo_limit restore) as [Hs Hf]. rewrite Hs, Hf in H. discriminate H.
Qed.

(* the machine that restores on failure (the code after the repair): on EVERY store and
   EVERY request sequence, each request answers exactly as on a fresh store — stack
   overflows, on either side, apart *)
Theorem C11_history_independent_if_restored : forall s rs,
  Forall2 agree (run_shared true s rs) (map (run_fresh true s) rs).
Proof. exact history_independent_if_restored. Qed.

(* ... hence plain equality of the answer lists when no answer is a stack overflow *)
Theorem C11_history_independent_if_restored_eq : forall s rs,
  Forall (fun o => is_overflow o = false) (run_shared true s rs) ->
  Forall (fun o => is_overflow o = false) (map (run_fresh true s) rs) ->
  run_shared true s rs = map (run_fresh true s) rs.
Proof. exact history_independent_if_restored_eq. Qed.

(* both machines: while no request fails on the long-lived store, memoised (Done) cells are
   semantically invisible *)
Theorem C11_memo_transparent : forall restore s rs,
  Forall (fun o => is_fail o = false) (run_shared restore s rs) ->
  Forall2 (fun a b => a = b \/ is_overflow b = true) (run_shared restore s rs) (map (run_fresh restore s) rs).
Proof. exact memo_transparent. Qed.

(* non-vacuity: the two refutation histories meet the hypotheses of the _eq theorem on the
   restoring machine (failures, no overflow) and get equal answers; a history with a
   memoised sub-result meets those of memo_transparent *)
Example C11_restored_nonvacuous :
  run_shared true boom_store boom_reqs = [RErr (EUser 7); RErr (EUser 7)] /\
  run_shared true assert_store2 assert_reqs2 = [RErr (EAssert 4); RErr (EAssert 4)] /\
  Forall (fun o => is_overflow o = false) (run_shared true boom_store boom_reqs) /\
  Forall (fun o => is_overflow o = false) (map (run_fresh true boom_store) boom_reqs) /\
  Forall (fun o => is_fail o = false) (run_shared false chain_store chain_reqs).
Proof. vm_compute. repeat split; repeat constructor. Qed.

(* assertions run from the most derived layer down to the base; an object whose only
   assertions are inherited still has them (the shape of the refutation witness above) *)
Example C11_assert_order_example :
  cond {| layers := [[Some 1]; [None; Some 2]]; checked := false |} = Some 2 /\
  cond {| layers := [[None; Some 4]; []]; checked := false |} = Some 4 /\
  cond {| layers := [[None]; []; [None]]; checked := false |} = None.
Proof. vm_compute. repeat split. Qed.

(* "unknown field" for a never-interned string is the right answer, and answers do not
   change as the interner grows *)
Theorem C11_intern_lookup_sound : forall ss later o s,
  let it := intern_all [] ss in
  names_interned it o ->
  lookup it o s = lookup_ref it o s /\
  lookup (intern_all it later) o s = lookup it o s.
Proof. exact intern_lookup_sound. Qed.

(* `super[e]` / `e in super` (State::SuperIndex after repo commit db09b8e): with or without a
   super object the answer is the reference answer and does not change as the interner grows;
   before that commit it did (witness: no super object, the string "zq") *)
Theorem C11_super_lookup_sound : forall ss later sup s,
  let it := intern_all [] ss in
  (forall o, sup = Some o -> names_interned it o) ->
  super_lookup it sup s = super_lookup_ref it sup s /\
  super_lookup (intern_all it later) sup s = super_lookup it sup s.
Proof. exact super_lookup_sound. Qed.

Theorem C11_super_lookup_old_refuted :
  super_lookup_old (intern_all [] []) None [122; 113] = SUnknownField /\
  super_lookup_old (intern_all (intern_all [] []) [[122; 113]]) None [122; 113] = SNoSuper.
Proof. exact super_lookup_old_history_dependent. Qed.

(* non-vacuity of intern_lookup_sound: an object with two interned names, a probe that is
   interned later *)
Example C11_nonvacuous :
  let it := intern_all [] [[97]; [98; 99]] in
  names_interned it [(0, 5); (1, 6)] /\
  lookup it [(0, 5); (1, 6)] [98; 99] = Some 6 /\
  lookup it [(0, 5); (1, 6)] [120] = None /\
  lookup (intern_all it [[120]]) [(0, 5); (1, 6)] [120] = None.
Proof.
  split; [|vm_compute; repeat split].
  intros n v [H|[H|[]]]; inversion H; subst; vm_compute; repeat constructor.
Qed.

Print Assumptions C11_done_is_stable.
Print Assumptions C11_history_independent_unrestored_refuted.
Print Assumptions C11_assert_flag_unrestored_refuted.
Print Assumptions C11_memo_limit_refuted.
Print Assumptions C11_history_independent_if_restored.
Print Assumptions C11_history_independent_if_restored_eq.
Print Assumptions C11_memo_transparent.
Print Assumptions C11_restored_nonvacuous.
Print Assumptions C11_assert_order_example.
Print Assumptions C11_intern_lookup_sound.
Print Assumptions C11_super_lookup_sound.
Print Assumptions C11_super_lookup_old_refuted.
Print Assumptions C11_nonvacuous.
