(* Props/C13.v — pinned statements for property C13 (imports resolve
   deterministically, load once and deliver exact content).  Statements closed by
   [exact lemma], non-vacuity Examples, and [Print Assumptions]. *)
From RJ Require Import Base.Outcome Model.Import Proofs.Import_proofs.
Local Open Scope string_scope.
Local Open Scope list_scope.
Local Open Scope N_scope.

(* a relative import resolves to the first existing candidate, the candidates being
   the importing file's directory (of the spelling it was loaded by) followed by
   the search paths in stored order *)
Theorem C13_search_order : forall fs st from p q,
  is_absolute p = false ->
  (find_import fs st from p = Some q <->
   exists pre b post, bases st from = pre ++ b :: post /\ q = join b p /\
                      exists_ fs (join b p) = true /\
                      Forall (fun b' => exists_ fs (join b' p) = false) pre).
Proof. exact search_order. Qed.

Theorem C13_search_none : forall fs st from p,
  is_absolute p = false ->
  (find_import fs st from p = None <->
   Forall (fun b => exists_ fs (join b p) = false) (bases st from)).
Proof. exact search_none. Qed.

Theorem C13_importer_dir_first : forall fs st from p d,
  is_absolute p = false ->
  from_dir st from = Some d ->
  exists_ fs (join d p) = true ->
  find_import fs st from p = Some (join d p).
Proof. exact importer_dir_first. Qed.

(* main.rs stores the -J list reversed: among the -J directories the right-most
   one that has the file wins *)
Theorem C13_rightmost_J_wins : forall fs jpaths st from p l1 d l2,
  is_absolute p = false ->
  jpaths = l1 ++ d :: l2 ->
  s_search st = s_search (cli_session jpaths) ->
  (forall d0, from_dir st from = Some d0 -> exists_ fs (join d0 p) = false) ->
  exists_ fs (join d p) = true ->
  Forall (fun d' => exists_ fs (join d' p) = false) l2 ->
  find_import fs st from p = Some (join d p).
Proof.
  intros fs jpaths st from p l1 d l2 Hrel Hj Hs. subst jpaths.
  exact (rightmost_J_wins fs st from p l1 d l2 Hrel Hs).
Qed.

Theorem C13_absolute_bypass : forall fs st from p,
  is_absolute p = true ->
  find_import fs st from p = if exists_ fs p then Some p else None.
Proof. exact absolute_bypass. Qed.

(* a virtual source (-e "<cmdline>", stdin "<stdin>", --ext-code "<ext:v>", --tla-code
   "<tla:x>": registered without a source_paths entry) has no importer directory: its
   relative imports see the -J directories only — and with no -J at all nothing; its
   ABSOLUTE imports still resolve by their own existence, with no base directory needed *)
Theorem C13_virtual_bases_are_search_paths : forall st sid r,
  nthN (s_sources st) sid = Some (r, false) -> bases st (Some sid) = s_search st.
Proof. exact virtual_bases_are_search_paths. Qed.

Theorem C13_absolute_bypass_virtual : forall fs st sid r p,
  nthN (s_sources st) sid = Some (r, false) ->
  s_search st = [] ->
  is_absolute p = true ->
  find_import fs st (Some sid) p = if exists_ fs p then Some p else None.
Proof. exact absolute_bypass_virtual. Qed.

Theorem C13_virtual_relative_needs_J : forall fs st sid r p,
  nthN (s_sources st) sid = Some (r, false) ->
  s_search st = [] ->
  is_absolute p = false ->
  find_import fs st (Some sid) p = None.
Proof. exact virtual_relative_needs_J. Qed.

Theorem C13_once_virtual : forall fs canon prog_of fuel jpaths repr data,
  let st := fst (run_virtual fs canon prog_of fuel jpaths repr data) in
  NoDup (loaded_cps st) /\ NoDup (evaled st).
Proof. exact once_virtual. Qed.

(* rsjsonnet -e with no -J: absolute imports deliver, std.thisFile is "<cmdline>", a relative
   import of an existing ./x.libsonnet is NOT found; with -J . it is *)
Example C13_nonvacuous_virtual :
  let '(st, r) := ex_run_virtual [] ex_vprog in
  nthN (s_sources st) 0 = Some (str_of "<cmdline>", false) /\ s_search st = [] /\
  is_absolute (str_of "/R/a/d.txt") = true /\
  r = Ok (VArr [VStr (str_of "<cmdline>"); VBytes [1; 2];
                VArr [VStr (str_of "x"); VStr (str_of "/R/x.libsonnet")]]) /\
  snd (ex_run_virtual [] ex_vprog_rel) =
    Err (ImportFailed WNotFound (str_of "<cmdline>") 1 (str_of "x.libsonnet")) /\
  snd (ex_run_virtual ["."] ex_vprog_rel) =
    Ok (VArr [VStr (str_of "<cmdline>"); VArr [VStr (str_of "x"); VStr (str_of "./x.libsonnet")]]).
Proof. vm_compute. repeat split. Qed.

(* a second spelling of a loaded file is a cache hit: same thunk, nothing read,
   the session (sources, thunks, log) unchanged *)
Theorem C13_cache_by_canonical : forall fs canon prog_of st p1 st1 sid p2,
  load_real_file fs canon prog_of st p1 = (st1, inr sid) ->
  exists_ fs p2 = true ->
  canon p2 = canon p1 ->
  load_real_file fs canon prog_of st1 p2 = (st1, inr sid).
Proof. exact cache_by_canonical. Qed.

(* in EVERY run of the session (any world, any -J list, any main file, any outcome,
   errors included): no canonical path is loaded (read + parsed + registered) twice,
   and no file is evaluated (its std.trace line printed) twice — however many
   spellings and importers reach it *)
Theorem C13_loaded_once : forall fs canon prog_of fuel jpaths main,
  NoDup (loaded_cps (fst (run_main fs canon prog_of fuel jpaths main))).
Proof. exact loaded_once. Qed.

Theorem C13_evaluated_once : forall fs canon prog_of fuel jpaths main,
  NoDup (evaled (fst (run_main fs canon prog_of fuel jpaths main))).
Proof. exact evaluated_once. Qed.

Theorem C13_thisfile_is_as_loaded : forall fs canon prog_of st p1 st1 sid,
  load_real_file fs canon prog_of st p1 = (st1, inr sid) ->
  assoc_path (canon p1) (s_cache st) = None ->
  length (s_sources st) = length (s_thunks st) ->
  repr_path st1 sid = p1 /\
  forall p2 st2 sid2, exists_ fs p2 = true -> canon p2 = canon p1 ->
    load_real_file fs canon prog_of st1 p2 = (st2, inr sid2) -> sid2 = sid /\ repr_path st2 sid2 = p1.
Proof. exact thisfile_is_as_loaded. Qed.

Theorem C13_missing_is_import_error_at_site : forall fs canon prog_of forcef st sid pos p,
  find_import fs st (Some sid) p = None ->
  let st' := with_log st (EvMsg WNotFound p) in
  let e := Err (ImportFailed WNotFound (repr_path st sid) pos p) in
  eval_expr fs canon prog_of forcef sid pos (IImport p) st = (st', e) /\
  eval_expr fs canon prog_of forcef sid pos (IImportStr p) st = (st', e) /\
  eval_expr fs canon prog_of forcef sid pos (IImportBin p) st = (st', e).
Proof. exact missing_is_import_error_at_site. Qed.

Theorem C13_unreadable_is_import_error_at_site : forall fs canon prog_of forcef st sid pos p q,
  find_import fs st (Some sid) p = Some q ->
  (fs q = Dir \/ fs q = Unreadable) ->
  exists e,
    read fs q = inl e /\
    eval_expr fs canon prog_of forcef sid pos (IImportStr p) st =
      (with_log st (EvMsg (WRead e) q), Err (ImportFailed (WRead e) (repr_path st sid) pos p)) /\
    eval_expr fs canon prog_of forcef sid pos (IImportBin p) st =
      (with_log st (EvMsg (WRead e) q), Err (ImportFailed (WRead e) (repr_path st sid) pos p)) /\
    (assoc_path (canon q) (s_cache st) = None ->
     eval_expr fs canon prog_of forcef sid pos (IImport p) st =
      (with_log st (EvMsg (WRead e) q), Err (ImportFailed (WRead e) (repr_path st sid) pos p))).
Proof. exact unreadable_is_import_error_at_site. Qed.

Theorem C13_importstr_is_lossy_decode : forall fs st from p q b,
  find_import fs st from p = Some q -> fs q = File b ->
  cb_import_str fs st from p = (with_log st (EvRead q), inr (lossy b)).
Proof. exact importstr_is_lossy_decode. Qed.

(* on a file that is well-formed UTF-8 the lossy decoding is the exact text: every
   string of Unicode scalar values survives encode-then-importstr unchanged *)
Theorem C13_lossy_of_valid_utf8 : forall s,
  forallb is_scalar s = true -> lossy (utf8_enc s) = s.
Proof. exact lossy_of_valid_utf8. Qed.

Example C13_nonvacuous_lossy :
  forallb is_scalar [104; 233; 2047; 2048; 26085; 55295; 57344; 65533; 65536; 119070; 1114111] = true /\
  utf8_enc [233; 26085; 119070] = [195; 169; 230; 151; 165; 240; 157; 132; 158] /\
  lossy [65; 192; 128; 237; 160; 128; 244; 144; 128; 128; 230; 151; 90; 240; 157; 132] = [65; 65533; 65533; 65533; 65533; 65533; 65533; 65533; 65533; 65533; 65533; 90; 65533].
Proof. vm_compute. repeat split. Qed.

Theorem C13_importbin_exact : forall fs st from p q b,
  find_import fs st from p = Some q -> fs q = File b ->
  cb_import_bin fs st from p = (with_log st (EvRead q), inr b).
Proof. exact importbin_exact. Qed.

(* the resolution of an import does not depend on what was loaded before (cache,
   other sources, thunk states), and sees the world only through the existence of
   its candidates *)
Theorem C13_resolution_deterministic : forall fs st1 st2 from1 from2 p,
  s_search st1 = s_search st2 ->
  from_dir st1 from1 = from_dir st2 from2 ->
  find_import fs st1 from1 p = find_import fs st2 from2 p.
Proof. exact resolution_deterministic. Qed.

Theorem C13_resolution_depends_only_on_existence : forall fs1 fs2 st from p,
  (forall q, In q (p :: candidates st from p) -> exists_ fs1 q = exists_ fs2 q) ->
  find_import fs1 st from p = find_import fs2 st from p.
Proof. exact resolution_depends_only_on_existence. Qed.

(* ---- non-vacuity on a concrete tree (Proofs/Import_proofs.v: ex_tree) ---- *)

(* -J a -J b: y.libsonnet exists in both, the right-most (b) wins; x.libsonnet is
   reached by four spellings (one through a symlink) and loaded/evaluated once,
   std.thisFile keeps the first spelling; importstr is the lossy decoding,
   importbin the exact bytes (from b/y.libsonnet, d.txt is found through -J a); an absolute path bypasses the search *)
Example C13_nonvacuous :
  let '(st, r) := ex_run ["a"; "b"] "main.jsonnet" in
  let x := VArr [VStr (str_of "x"); VStr (str_of "x.libsonnet")] in
  r = Ok (VArr [VStr (str_of "main"); VStr (str_of "main.jsonnet"); x; x; x; x;
                VArr [VStr (str_of "yb"); VStr (str_of "b/y.libsonnet"); VBytes [1; 2]];
                VStr [104; 65533; 105; 233]; VBytes [104; 255; 105; 195; 169]; VBytes [1; 2]]) /\
  eval_tags st = [str_of "main"; str_of "x"; str_of "yb"] /\
  count_loaded st = 3%nat /\ length (loaded_cps st) = 3%nat /\ evaled st = [2; 1; 0].
Proof. vm_compute. repeat split. Qed.

(* with the options in the other order, a wins *)
Example C13_nonvacuous_J_order :
  let '(st, r) := ex_run ["b"; "a"] "./main.jsonnet" in
  eval_tags st = [str_of "main"; str_of "x"; str_of "ya"] /\
  repr_path st 0 = str_of "./main.jsonnet" /\ repr_path st 1 = str_of "./x.libsonnet".
Proof. vm_compute. repeat split. Qed.

(* hypotheses of the search/cache/delivery theorems are met in this world *)
Example C13_nonvacuous_hyps :
  let st := fst (ex_run ["a"; "b"] "main.jsonnet") in
  is_absolute (str_of "y.libsonnet") = false /\
  from_dir st (Some 0) = Some [] /\
  exists_ ex_fs (join [] (str_of "y.libsonnet")) = false /\
  exists_ ex_fs (join (str_of "b") (str_of "y.libsonnet")) = true /\
  exists_ ex_fs (join (str_of "a") (str_of "y.libsonnet")) = true /\
  s_search st = s_search (cli_session [str_of "a"; str_of "b"]) /\
  find_import ex_fs st (Some 0) (str_of "y.libsonnet") = Some (str_of "b/y.libsonnet") /\
  find_import ex_fs st (Some 0) (str_of "nope.libsonnet") = None /\
  is_absolute (str_of "/R/a/d.txt") = true /\
  find_import ex_fs st (Some 0) (str_of "/R/a/d.txt") = Some (str_of "/R/a/d.txt") /\
  ex_canon (str_of "b/lx") = ex_canon (str_of "x.libsonnet") /\
  ex_canon (str_of "a/../x.libsonnet") = str_of "/R/x.libsonnet" /\
  ex_fs (str_of "d.txt") = File [104; 255; 105; 195; 169] /\
  ex_fs (str_of "dirx.libsonnet") = Dir /\
  find_import ex_fs st (Some 0) (str_of "dirx.libsonnet") = Some (str_of "dirx.libsonnet").
Proof. vm_compute. repeat split. Qed.

(* a missing import fails at its site (file as loaded, expression number); an
   import cycle is an infinite-recursion error *)
Example C13_nonvacuous_failures :
  snd (ex_run ["a"] "m2.jsonnet") = Err (ImportFailed WNotFound (str_of "m2.jsonnet") 1 (str_of "nope.libsonnet")) /\
  snd (ex_run [] "m3.jsonnet") = Err (InfiniteRecursion 1) /\
  snd (ex_run [] "nope.jsonnet") = Err (MainLoadFailed WNoFile) /\
  snd (ex_run [] "main.jsonnet/x") = Err (MainLoadFailed WCanon) /\
  snd (ex_run [] "a") = Err (MainLoadFailed (WRead IoIsDir)).
Proof. vm_compute. repeat split. Qed.

Print Assumptions C13_search_order.
Print Assumptions C13_search_none.
Print Assumptions C13_importer_dir_first.
Print Assumptions C13_rightmost_J_wins.
Print Assumptions C13_absolute_bypass.
Print Assumptions C13_virtual_bases_are_search_paths.
Print Assumptions C13_absolute_bypass_virtual.
Print Assumptions C13_virtual_relative_needs_J.
Print Assumptions C13_once_virtual.
Print Assumptions C13_nonvacuous_virtual.
Print Assumptions C13_cache_by_canonical.
Print Assumptions C13_loaded_once.
Print Assumptions C13_evaluated_once.
Print Assumptions C13_thisfile_is_as_loaded.
Print Assumptions C13_missing_is_import_error_at_site.
Print Assumptions C13_unreadable_is_import_error_at_site.
Print Assumptions C13_importstr_is_lossy_decode.
Print Assumptions C13_lossy_of_valid_utf8.
Print Assumptions C13_nonvacuous_lossy.
Print Assumptions C13_importbin_exact.
Print Assumptions C13_resolution_deterministic.
Print Assumptions C13_resolution_depends_only_on_existence.
Print Assumptions C13_nonvacuous.
Print Assumptions C13_nonvacuous_J_order.
Print Assumptions C13_nonvacuous_hyps.
Print Assumptions C13_nonvacuous_failures.
