(* Extract/Tracelen_extract.v — extraction of the trace-accounting model and of
   the depth semantics (component "tracelen"; ExtrOcamlBasic only). *)
From Coq Require Import Extraction ExtrOcamlBasic.
From RJ Require Import Base.Outcome Model.TraceLen Model.DepthSem.
Extraction Language OCaml.

Extraction "../ocaml/gen/tracelen_model.ml" wire_anchor TraceLen.observe TraceLen.balanced TraceLen.item_of_code
  DepthSem.top DepthSem.Build_program.
