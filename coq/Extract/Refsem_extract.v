(* Extract/Refsem_extract.v — extraction of the C02 reference interpreter
   (ExtrOcamlBasic only; N/Z/positive/nat stay Coq inductives). *)
From Coq Require Import Extraction ExtrOcamlBasic.
From RJ Require Import Base.Outcome Base.F64 Model.Token Model.Ast Model.RefCore Model.RefValue Model.RefEval.
(* the shared glue (tok_wire.ml / ast_wire.ml) needs the token types too *)
Definition tok_anchor (l : list token) : list token := l.
Extraction Language OCaml.

Extraction "../ocaml/gen/refsem_model.ml" wire_anchor RefEval.run RefEval.Build_cfg F64.f_to_bits RefCore.desugar tok_anchor expr_span stoken_eqb.
