(* Extract/Gc_extract.v — extraction of the collector model (ExtrOcamlBasic only;
   N/Z/positive/nat stay Coq inductives). *)
From Coq Require Import Extraction ExtrOcamlBasic.
From RJ Require Import Base.Outcome Model.Gc.
Extraction Language OCaml.

Extraction "../ocaml/gen/gc_model.ml" wire_anchor Gc.run_ops Gc.init_st Gc.gc Gc.mkbox.
