(* Extract/Manifest_extract.v — extraction of the manifestation model, the specification-level
   JSON decoder and the whitespace eraser (ExtrOcamlBasic only). *)
From Coq Require Import Extraction ExtrOcamlBasic.
From RJ Require Import Base.Outcome Base.F64 Model.Token Model.JsonEsc Model.JsonDec Model.Manifest.
Extraction Language OCaml.

Extraction "../ocaml/gen/manifest_model.ml" wire_anchor
  F64.f_of_bits F64.f_to_bits
  Manifest.manifest Manifest.manifest_json Manifest.to_string
  Manifest.cli_default Manifest.cli_yaml_stream Manifest.cli_multi
  Manifest.fmt_to_string Manifest.fmt_manifest Manifest.fmt_std_ex Manifest.fmt_std_json Manifest.fmt_minified
  Manifest.manifest_python Manifest.manifest_python_vars
  Manifest.erase_ws JsonDec.decode.
