(* Extract/Thunkmachine_extract.v — extraction of the thunk machine and the
   interner model (ExtrOcamlBasic only; nat/N stay Coq inductives). *)
From Coq Require Import Extraction ExtrOcamlBasic.
From RJ Require Import Base.Outcome Model.ThunkMachine Model.Interner.
Extraction Language OCaml.

Extraction "../ocaml/gen/thunkmachine_model.ml" wire_anchor
  ThunkMachine.run_shared ThunkMachine.run_fresh ThunkMachine.run_req
  Interner.intern_all Interner.get_interned Interner.lookup Interner.lookup_ref.
