(* Extract/Lexer_extract.v — extraction of the lexer and UTF-8 models
   (ExtrOcamlBasic only; N/Z/positive/nat stay Coq inductives). *)
From Coq Require Import Extraction ExtrOcamlBasic.
From RJ Require Import Base.Outcome Model.Token Model.Utf8 Model.Lexer.
Extraction Language OCaml.

Extraction "../ocaml/gen/lexer_model.ml" wire_anchor Lexer.lex_all Utf8.decode_all Utf8.lossy
  Utf8.utf8_encode_all Lexer.keyword_table Lexer.operator_table.
