(* Extract/Numops_extract.v — extraction of the number-operator model (ExtrOcamlBasic only). *)
From Coq Require Import Extraction ExtrOcamlBasic.
From RJ Require Import Base.Outcome Base.F64 Model.Dec Model.NumOps Gen.NumGates.
Extraction Language OCaml.

Extraction "../ocaml/gen/numops_model.ml" wire_anchor NumOps.eval_numop NumOps.const_libm NumOps.uses_libm
  NumGates.src_gates NumOps.gates_snapshot F64.f_of_bits F64.f_to_bits.
