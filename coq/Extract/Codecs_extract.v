(* Extract/Codecs_extract.v — extraction of the C20 codec models (ExtrOcamlBasic
   only; N/Z/positive/nat stay Coq inductives). *)
From Coq Require Import Extraction ExtrOcamlBasic.
From RJ Require Import Base.Outcome Base.F64 Model.Radix Model.Base64 Model.Utf8Codec Model.Esc Model.JsonParse Model.Hash.
Extraction Language OCaml.

Extraction "../ocaml/gen/codecs_model.ml" wire_anchor
  f_of_bits f_to_bits
  Radix.parse_num_radix Radix.parse_num_radix_orig Radix.parse_int
  Base64.base64_string Base64.base64_numbers Base64.base64_decode_bytes
  Utf8Codec.encode_utf8 Utf8Codec.decode_lossy
  Esc.escape_bash Esc.escape_dollars Esc.escape_xml Esc.escape_json Esc.escape_python
  JsonParse.parse_json
  Hash.std_md5 Hash.std_sha1 Hash.std_sha256 Hash.std_sha512 Hash.std_sha3.
