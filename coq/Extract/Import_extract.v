(* Extract/Import_extract.v — extraction of the import/session model
   (ExtrOcamlBasic only; N/Z/positive/nat stay Coq inductives). *)
From Coq Require Import Extraction ExtrOcamlBasic.
From RJ Require Import Base.Outcome Model.Import.
Extraction Language OCaml.

Extraction "../ocaml/gen/import_model.ml" wire_anchor Import.run_concrete Import.run_concrete_virtual Import.parent Import.join
  Import.lossy Import.utf8_enc Import.cnode Import.ccanon Import.Build_prog.
