(* Extract/Front_extract.v — extraction of the composed front end (lexer ->
   parser with the translated precedence table -> analyzer with `std` in scope).
   ExtrOcamlBasic only; N/Z/positive/nat/string stay Coq inductives. *)
From Coq Require Import Extraction ExtrOcamlBasic.
From RJ Require Import Base.Outcome Model.Token Model.Ast Model.Ir Model.Lexer Model.Parser
  Model.Analyze Model.Front.
Extraction Language OCaml.

Extraction "../ocaml/gen/front_model.ml" wire_anchor Front.load_model Front.front_parse
  Front.front_error_spans Analyze.error_spans Analyze.error_name Analyze.nums_ok.
