(* Extract/Strfns_extract.v — extraction of the string-builtin model
   (ExtrOcamlBasic only; N/Z/positive/nat stay Coq inductives). *)
From Coq Require Import Extraction ExtrOcamlBasic.
From RJ Require Import Base.Outcome Base.F64 Model.StrFns.
Extraction Language OCaml.

Extraction "../ocaml/gen/strfns_model.ml" wire_anchor StrFns.call StrFns.utf8_len f_of_bits f_to_bits.
