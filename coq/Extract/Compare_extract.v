(* Extract/Compare_extract.v — extraction of the equality/ordering model
   (ExtrOcamlBasic only; N/Z/positive/nat stay Coq inductives). *)
From Coq Require Import Extraction ExtrOcamlBasic.
From RJ Require Import Base.Outcome Base.F64 Model.Utf8Order Model.Compare.
Extraction Language OCaml.

Extraction "../ocaml/gen/compare_model.ml" wire_anchor Compare.run_op F64.f_of_bits Utf8Order.utf8 Utf8Order.lex_compare.
