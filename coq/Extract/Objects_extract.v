(* Extract/Objects_extract.v — extraction of the object layer model
   (ExtrOcamlBasic only; N/Z/positive/nat stay Coq inductives). *)
From Coq Require Import Extraction ExtrOcamlBasic.
From RJ Require Import Base.Outcome Model.Objects.
Extraction Language OCaml.

Extraction "../ocaml/gen/objects_model.ml" wire_anchor
  Objects.build Objects.layers Objects.find_field Objects.has_field Objects.has_visible_field
  Objects.get_fields_order Objects.get_visible_fields_order Objects.obj_length
  Objects.eval_field Objects.manifest Objects.index_field Objects.manifest_checked Objects.check_asserts Objects.extend Objects.remove_key Objects.empty_obj.
