(* Extract/Cli_extract.v — extraction of the command-line glue model
   (ExtrOcamlBasic only; N/Z/positive/nat stay Coq inductives). *)
From Coq Require Import Extraction ExtrOcamlBasic.
From RJ Require Import Base.Outcome Model.Cli.
Extraction Language OCaml.

Extraction "../ocaml/gen/cli_model.ml" wire_anchor Cli.run_tab Cli.run_gen_tab Cli.bind_tla
  Cli.path_join Cli.parse_var_opt_val Cli.parse_var_file Cli.CODE_FLUSHES.
