(* Extract/Lazycore_extract.v — extraction of the lazy core calculus
   (ExtrOcamlBasic only; N/Z/positive/nat stay Coq inductives). *)
From Coq Require Import Extraction ExtrOcamlBasic.
From RJ Require Import Base.Outcome Model.LazyCore.
Extraction Language OCaml.

Extraction "../ocaml/gen/lazycore_model.ml" wire_anchor LazyCore.run LazyCore.fvb LazyCore.selfb LazyCore.nofld.
