(* Extract/Format_extract.v — extraction of the std.format model (ExtrOcamlBasic only;
   N/Z/positive/nat stay Coq inductives). *)
From Coq Require Import Extraction ExtrOcamlBasic.
From RJ Require Import Base.Outcome Base.F64 Model.Format.
Extraction Language OCaml.

Extraction "../ocaml/gen/format_model.ml" wire_anchor Format.format_run Format.parse_format_codes
  Format.field_pad Format.utf8_len F64.f_of_bits F64.f_to_bits.
