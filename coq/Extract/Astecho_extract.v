(* Extract/Astecho_extract.v — self-test of the AST/token wire format: the
   "model" is the identity on tokens and syntax trees. *)
From Coq Require Import Extraction ExtrOcamlBasic.
From RJ Require Import Base.Outcome Model.Token Model.Ast.
Definition echo_tokens (l : list token) : list token := l.
Definition echo_expr (e : expr) : expr := e.
Extraction Language OCaml.
Extraction "../ocaml/gen/astecho_model.ml" wire_anchor echo_tokens echo_expr expr_span stoken_eqb.
