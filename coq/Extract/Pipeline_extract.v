(* Extract/Pipeline_extract.v — extraction of the whole pipeline from source bytes
   (front end + reference interpreter).  ExtrOcamlBasic only. *)
From Coq Require Import Extraction ExtrOcamlBasic.
From RJ Require Import Base.Outcome Base.F64 Model.Token Model.Ast Model.Lexer Model.Parser Model.Analyze
  Model.Front Model.RefCore Model.RefValue Model.RefEval Model.Pipeline.
Extraction Language OCaml.

Extraction "../ocaml/gen/pipeline_model.ml" wire_anchor Pipeline.eval_model Pipeline.Build_config RefEval.Build_cfg
  F64.f_to_bits Front.front_error_spans Analyze.error_spans Analyze.error_name.
