(* Extract/Jsonesc_extract.v — extraction of the escaper model, its translated table and
   the specification-level string decoder (ExtrOcamlBasic only). *)
From Coq Require Import Extraction ExtrOcamlBasic.
From RJ Require Import Base.Outcome Model.Token Model.JsonEsc Model.JsonDec Gen.EscTable.
Extraction Language OCaml.

Extraction "../ocaml/gen/jsonesc_model.ml" wire_anchor
  JsonEsc.escape_string_json JsonEsc.table_escape EscTable.esc_arms EscTable.esc_default
  JsonEsc.escape_key_toml JsonEsc.is_safe_toml_plain_gen EscTable.toml_plain_extra
  JsonEsc.is_safe_yaml_plain JsonEsc.is_safe_yaml_plain_gen EscTable.yaml_special_src
  JsonEsc.in_ranges EscTable.yaml_plain_ranges JsonEsc.yaml_plain_char
  JsonDec.lex_string JsonDec.yaml12_core_nonstring.
