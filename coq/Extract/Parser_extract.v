(* Extract/Parser_extract.v — extraction of the parser model and the printer
   (ExtrOcamlBasic only; N/Z/positive/nat stay Coq inductives).  The precedence
   table used by the extracted parser is the one translated from the current
   source (Gen/PrecTable.v). *)
From Coq Require Import Extraction ExtrOcamlBasic.
From RJ Require Import Base.Outcome Model.Token Model.Ast Model.Parser Model.Print Gen.PrecTable.
Extraction Language OCaml.
Extraction "../ocaml/gen/parser_model.ml" wire_anchor parse_fuel default_fuel src_prec spec_prec expr_span stoken_eqb
  print_tokens strip_spans strip_paren wp parenthesize full_paren.
