(* Extract/Sort_extract.v — extraction of the sort / set-function models
   (ExtrOcamlBasic only; nat/N/positive stay Coq inductives). *)
From Coq Require Import Extraction ExtrOcamlBasic.
From RJ Require Import Base.Outcome Model.Sort Model.SetOps.
Extraction Language OCaml.

Extraction "../ocaml/gen/sort_model.ml" wire_anchor
  run_sort run_uniq run_set run_uniq_sort run_inter run_union run_diff run_member run_min run_max.
