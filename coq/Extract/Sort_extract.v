(* Extract/Sort_extract.v — extraction of the sort / set-function models
   (ExtrOcamlBasic only; nat/N/positive stay Coq inductives). *)
From Coq Require Import Extraction ExtrOcamlBasic.
From RJ Require Import Base.Outcome Model.Sort Model.SetOps.
Extraction Language OCaml.

(* run_* are the entry points on the scripted key function; the generic functions are
   extracted too so that the driver can pass a key function that records its calls
   (the monadic code sequences every call explicitly, so the record is the model's
   order of keyF applications) *)
Extraction "../ocaml/gen/sort_model.ml" wire_anchor
  run_sort run_uniq run_set run_uniq_sort run_inter run_union run_diff run_member run_min run_max
  std_sort std_uniq std_set std_set_inter std_set_union std_set_diff std_set_member
  std_min_array_idx std_max_array_idx wcmp weqv.
