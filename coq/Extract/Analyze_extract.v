(* Extract/Analyze_extract.v — extraction of the analyzer model (ExtrOcamlBasic
   only; N/Z/positive/nat/string stay Coq inductives). *)
From Coq Require Import Extraction ExtrOcamlBasic.
From RJ Require Import Base.Outcome Model.Token Model.Ast Model.Ir Model.Analyze.
Extraction Language OCaml.

Extraction "../ocaml/gen/analyze_model.ml" wire_anchor Analyze.analyze Analyze.analyze_expr
  Analyze.nums_ok Analyze.nodes Analyze.error_spans Analyze.error_name Analyze.mk_env.
