(* Extract/Dec_extract.v — extraction of the decimal model (ExtrOcamlBasic only). *)
From Coq Require Import Extraction ExtrOcamlBasic.
From RJ Require Import Base.Outcome Base.F64 Model.Dec.
Extraction Language OCaml.

Extraction "../ocaml/gen/dec_model.ml" wire_anchor Dec.dec_to_f64 Dec.dec_to_f64_s Dec.lit_parse Dec.literal_value
  Dec.shortest_check Dec.check_printed Dec.ndigits F64.f_of_bits F64.f_to_bits.
