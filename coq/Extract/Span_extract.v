(* Extract/Span_extract.v — extraction of the span model (ExtrOcamlBasic only;
   N/Z/positive/nat stay Coq inductives). *)
From Coq Require Import Extraction ExtrOcamlBasic.
From RJ Require Import Base.Outcome Model.Span.
Extraction Language OCaml.

Extraction "../ocaml/gen/span_model.ml" wire_anchor Span.run Span.init_st Span.crop Span.Build_span_consts.
