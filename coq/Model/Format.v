(* Model/Format.v — executable model of rsjsonnet-lang/src/program/eval/format.rs
   (std.format and the % operator on strings), of the code AS WRITTEN.

   Strings are lists of Unicode code points ([N]); [utf8_len] is kept because the
   Rust code mixes byte length ([str::len]) and character count.  The format
   string is scanned by code point: every test the Rust code makes on bytes is
   on ASCII bytes, which never occur inside a multi-byte sequence, so this is
   the same scan.  usize/u32 quantities are [N]; usize is 64 bits (the
   [usize::try_from(u32)] tests always succeed), [a - b] on [N] is
   [saturating_sub], and the only unchecked subtraction ([fw - chars] in the
   padding) is guarded by the code's own test.

   Numbers are [F64.f64].  Argument values arrive already evaluated (forcing
   thunks, and errors raised while forcing them, belong to the evaluator, C02);
   the rendering of a non-string value under %s is the evaluator's
   [std.toString] (C05) and arrives with the value ([VOther]).

   External behaviour assumed (specified here, validated case by case by the
   correspondence run, never verified):
   * Rust [format!("{:.N}")] / [format!("{:.Ne}")] on f64: the correctly rounded
     (round-half-even) decimal of the exact binary value, with a panic when the
     precision argument exceeds u16::MAX ([fmt_fixed]) or, for {:e}, reaches it
     ([fmt_exp]); since /repo a32ed0a (and its follow-up for {:e}) the renderers
     cap the precision they pass and append zeros;
   * Rust [f64::to_string]: shortest digits that round-trip, positional
     ([display_abs]);
   * libm [log10] followed by [floor] is the Section variable [log10_floor]. *)
From RJ Require Import Base.Outcome Base.F64.
From Coq Require Import Lia Floats.SpecFloat.
Local Open Scope N_scope.
Local Open Scope outcome_scope.

Definition str := list N.

(* ------------------------------------------------------------------ basics *)

Definition lenN {A} (s : list A) : N := N.of_nat (length s).

Definition utf8_width (c : N) : N :=
  if c <? 128 then 1 else if c <? 2048 then 2 else if c <? 65536 then 3 else 4.
Fixpoint utf8_len (s : str) : N :=
  match s with [] => 0 | c :: r => utf8_width c + utf8_len r end.

(* [std::iter::repeat_n(c, n)] *)
Definition repeatN (c : N) (n : N) : str := N.iter n (cons c) [].

Definition is_digit (c : N) : bool := (48 <=? c) && (c <=? 57).

Definition ch_0 : N := 48.
Definition ch_dot : N := 46.
Definition s_inf : str := [105; 110; 102].   (* inf *)
Definition s_nan : str := [78; 97; 78].      (* NaN *)

(* ------------------------------------------------------------------ types *)

Inductive conv :=
| CDecimal | COctal | CHexLower | CHexUpper | CExpLower | CExpUpper
| CFloatLower | CFloatUpper | CGLower | CGUpper | CChar | CString | CPercent.

Definition conv_eqb (a b : conv) : bool :=
  match a, b with
  | CDecimal, CDecimal | COctal, COctal | CHexLower, CHexLower | CHexUpper, CHexUpper
  | CExpLower, CExpLower | CExpUpper, CExpUpper | CFloatLower, CFloatLower
  | CFloatUpper, CFloatUpper | CGLower, CGLower | CGUpper, CGUpper | CChar, CChar
  | CString, CString | CPercent, CPercent => true
  | _, _ => false
  end.

Inductive fwidth := FInline (v : N) | FExternal.
Inductive lenmod := LH | LLowerL | LUpperL.

Record cflags := { fl_alt : bool; fl_zero : bool; fl_left : bool; fl_blank : bool; fl_plus : bool }.
Definition no_flags : cflags :=
  {| fl_alt := false; fl_zero := false; fl_left := false; fl_blank := false; fl_plus := false |}.

Record code := {
  mkey : option str;
  flags : cflags;
  fw : option fwidth;
  prec : option fwidth;
  len_mod : option lenmod;
  ctype : conv;
}.

Inductive part := PLit (s : str) | PCode (c : code).

(* value types, EvalErrorValueType *)
Inductive vtype := TNull | TBool | TNumber | TString | TArray | TObject | TFunction.

Inductive fval :=
| VNum (x : f64)
| VStr (s : str)
| VOther (t : vtype) (shown : str).   (* t is never TNumber/TString; shown = std.toString *)

Definition type_of (v : fval) : vtype :=
  match v with VNum _ => TNumber | VStr _ => TString | VOther t _ => t end.

(* which conversion family complained *)
Inductive numconv := NDec | NOct | NHex | NExp | NFloat | NG.

(* every EvalErrorKind::Other raised by format.rs, by message *)
Inductive ferr :=
| ETruncated                       (* "truncated format code" *)
| EWidthTooLarge                   (* "format field width is too large" *)
| EPrecTooLarge                    (* "format precision is too large" *)
| EMissingPrecDigits               (* "missing format precision digits" *)
| EBadConv (c : N)                 (* "invalid format conversion code {chr:?}" *)
| ETooMany (expected got : N)      (* "too many array items for format: expected _, got _" *)
| ENotEnough (got : N)             (* "not enough array items for format, got _" *)
| EPrecNotNumber (t : vtype)       (* "format precision must be a number, got _" *)
| EWidthNotNumber (t : vtype)      (* "format field width must be a number, got _" *)
| EBadPrecValue                    (* "invalid format precision value: _" *)
| EBadWidthValue                   (* "invalid format field width value: _" *)
| EStarWidthObject                 (* "'*' field width cannot be used with object formatting" *)
| EStarPrecObject                  (* "'*' precision cannot be used with object formatting" *)
| EMkeyRequired                    (* "mapping keys are required with object formatting" *)
| EMissingField (k : str)          (* "missing field _ in object formatting" *)
| ENeedNumber (c : numconv) (t : vtype)   (* "'_' formatting requires a number, got _" *)
| ECharLen (n : N)                 (* "'c' formatting requires a string of length 1, got _" *)
| EBadCodepoint                    (* "_ is not a valid unicode codepoint" *)
| ECharType (t : vtype).           (* "'c' formatting requires a string or a number, got _" *)

Notation res A := (outcome A ferr).

(* ------------------------------------------------------------------ parser *)

(* str::find(c): (text before the first c, text after it) *)
Fixpoint find_char (c : N) (s : str) : option (str * str) :=
  match s with
  | [] => None
  | a :: r =>
      if a =? c then Some ([], r)
      else match find_char c r with
           | Some (b, t) => Some (a :: b, t)
           | None => None
           end
  end.

(* fn parse_format_mkey *)
Definition parse_mkey (rem : str) : res (option str * str) :=
  match rem with
  | a :: r =>
      if a =? 40 (* '(' *) then
        match find_char 41 (* ')' *) r with
        | None => Err ETruncated
        | Some (k, t) => Ok (Some k, t)
        end
      else Ok (None, rem)
  | [] => Ok (None, rem)
  end.

(* fn parse_format_cflags (the loop) *)
Fixpoint parse_cflags (fl : cflags) (rem : str) : cflags * str :=
  match rem with
  | a :: r =>
      if a =? 35 (* # *) then
        parse_cflags {| fl_alt := true; fl_zero := fl_zero fl; fl_left := fl_left fl; fl_blank := fl_blank fl; fl_plus := fl_plus fl |} r
      else if a =? 48 (* 0 *) then
        parse_cflags {| fl_alt := fl_alt fl; fl_zero := true; fl_left := fl_left fl; fl_blank := fl_blank fl; fl_plus := fl_plus fl |} r
      else if a =? 45 (* - *) then
        parse_cflags {| fl_alt := fl_alt fl; fl_zero := fl_zero fl; fl_left := true; fl_blank := fl_blank fl; fl_plus := fl_plus fl |} r
      else if a =? 32 (* space *) then
        parse_cflags {| fl_alt := fl_alt fl; fl_zero := fl_zero fl; fl_left := fl_left fl; fl_blank := true; fl_plus := fl_plus fl |} r
      else if a =? 43 (* + *) then
        parse_cflags {| fl_alt := fl_alt fl; fl_zero := fl_zero fl; fl_left := fl_left fl; fl_blank := fl_blank fl; fl_plus := true |} r
      else (fl, rem)
  | [] => (fl, rem)
  end.

(* the run of ASCII digits at the front *)
Fixpoint take_digits (rem : str) : list N * str :=
  match rem with
  | a :: r => if is_digit a then let (d, t) := take_digits r in (a :: d, t) else ([], rem)
  | [] => ([], [])
  end.

Definition digits_val (ds : list N) : N := fold_left (fun acc d => acc * 10 + (d - 48)) ds 0.

Definition u32_max : N := 4294967295.

(* fn parse_format_field_width *)
Definition starts_with (c : N) (rem : str) : option str :=    (* str::strip_prefix(char) *)
  match rem with a :: r => if a =? c then Some r else None | [] => None end.

Definition parse_field_width (rem : str) : res (option fwidth * str) :=
  match starts_with 42 (* * *) rem with
  | Some r => Ok (Some FExternal, r)
  | None =>
      let (ds, t) := take_digits rem in
      match ds with
      | [] => Ok (None, rem)
      | _ => let v := digits_val ds in
             if u32_max <? v then Err EWidthTooLarge else Ok (Some (FInline v), t)
      end
  end.

(* fn parse_format_prec *)
Definition parse_prec (rem : str) : res (option fwidth * str) :=
  match starts_with 46 (* . *) rem with
  | Some rc =>
      match starts_with 42 rc with
      | Some r => Ok (Some FExternal, r)
      | None =>
          let (ds, t) := take_digits rc in
          match ds with
          | [] => match rc with [] => Err ETruncated | _ => Err EMissingPrecDigits end
          | _ => let v := digits_val ds in
                 if u32_max <? v then Err EPrecTooLarge else Ok (Some (FInline v), t)
          end
      end
  | None => Ok (None, rem)
  end.

(* fn parse_format_length_modifier *)
Definition parse_len_mod (rem : str) : option lenmod * str :=
  match starts_with 104 (* h *) rem with
  | Some r => (Some LH, r)
  | None =>
      match starts_with 108 (* l *) rem with
      | Some r => (Some LLowerL, r)
      | None =>
          match starts_with 76 (* L *) rem with
          | Some r => (Some LUpperL, r)
          | None => (None, rem)
          end
      end
  end.

(* fn parse_format_conv_type *)
Definition conv_of_char (c : N) : option conv :=
  if (c =? 100) || (c =? 105) || (c =? 117) then Some CDecimal      (* d i u *)
  else if c =? 111 then Some COctal                                   (* o *)
  else if c =? 120 then Some CHexLower                                (* x *)
  else if c =? 88 then Some CHexUpper                                 (* X *)
  else if c =? 101 then Some CExpLower                                (* e *)
  else if c =? 69 then Some CExpUpper                                 (* E *)
  else if c =? 102 then Some CFloatLower                              (* f *)
  else if c =? 70 then Some CFloatUpper                               (* F *)
  else if c =? 103 then Some CGLower                                  (* g *)
  else if c =? 71 then Some CGUpper                                   (* G *)
  else if c =? 99 then Some CChar                                     (* c *)
  else if c =? 115 then Some CString                                  (* s *)
  else if c =? 37 then Some CPercent                                  (* % *)
  else None.

Definition parse_conv_type (rem : str) : res (conv * str) :=
  match rem with
  | [] => Err ETruncated
  | c :: r => match conv_of_char c with Some k => Ok (k, r) | None => Err (EBadConv c) end
  end.

(* one directive, after the '%' *)
Definition parse_code (rem : str) : res (code * str) :=
  do (mk, r1) <- parse_mkey rem;
  let '(fl, r2) := parse_cflags no_flags r1 in
  do (w, r3) <- parse_field_width r2;
  do (p, r4) <- parse_prec r3;
  let '(lm, r5) := parse_len_mod r4 in
  do (ct, r6) <- parse_conv_type r5;
  Ok ({| mkey := mk; flags := fl; fw := w; prec := p; len_mod := lm; ctype := ct |}, r6).

(* fn parse_format_codes — the while loop; every iteration consumes at least
   the '%' so [S (length fmt)] iterations suffice *)
Fixpoint parse_codes (fuel : nat) (rem : str) : res (list part) :=
  match fuel with
  | O => OutOfFuel
  | S f =>
      match rem with
      | [] => Ok []
      | _ =>
          match find_char 37 rem with
          | None => Ok [PLit rem]
          | Some (lit, r) =>
              do (c, r') <- parse_code r;
              do rest <- parse_codes f r';
              Ok (match lit with [] => PCode c :: rest | _ => PLit lit :: PCode c :: rest end)
          end
      end
  end.

Definition parse_format_codes (fmt : str) : res (list part) :=
  parse_codes (S (length fmt)) fmt.

(* ------------------------------------------------------------------ digits *)

(* the [while mag != 0 { digit = mag % radix; mag = trunc(mag / radix) }] loop of
   render_int / render_hex.  On the integer-valued doubles it runs on, [%] and
   [/] by 8 or 16 followed by [trunc] are exact, so it is this loop on the
   exact integer.  Digit values, most significant first. *)
Fixpoint radix_loop (fuel : nat) (radix n : N) (acc : list N) : list N :=
  match fuel with
  | O => acc
  | S f => if n =? 0 then acc else radix_loop f radix (n / radix) (n mod radix :: acc)
  end.

Definition radix_digits (radix n : N) : list N := radix_loop (S (N.size_nat n)) radix n [].

(* decimal digit characters of a natural number, "0" for zero *)
Definition dec_digits (n : N) : str :=
  if n =? 0 then [48] else map (fun d => 48 + d) (radix_digits 10 n).

Definition sign_prefix (neg plus blank : bool) : str :=
  if neg then [45] else if plus then [43] else if blank then [32] else [].

(* fn decorate_digits *)
Definition decorate_digits (digits : str) (is_neg : bool) (min_chars min_digits : N)
           (sign blank : bool) : str :=
  let s := sign_prefix is_neg sign blank in
  let unpadded_len := lenN s + lenN digits in
  let pad_len := N.max (min_digits - lenN digits) (min_chars - unpadded_len) in
  s ++ repeatN 48 pad_len ++ digits.

(* fn render_int (mag is the exact integer |trunc value|) *)
Definition render_int (neg : bool) (mag : N) (min_chars min_digits : N) (blank plus : bool)
           (radix : N) (zero_prefix : str) : str :=
  let digits_s :=
    if mag =? 0 then [48]
    else zero_prefix ++ map (fun d => 48 + d) (radix_digits radix mag) in
  let result := sign_prefix neg plus blank in
  let pad_len := N.max (min_digits - lenN digits_s)
                       (min_chars - (lenN result + lenN digits_s)) in
  result ++ repeatN 48 pad_len ++ digits_s.

Definition hex_numeral (capitals : bool) (d : N) : N :=
  if d <? 10 then 48 + d else (if capitals then 55 else 87) + d.

(* fn render_hex *)
Definition render_hex (neg : bool) (mag : N) (min_chars min_digits : N) (blank plus : bool)
           (add_zerox capitals : bool) : str :=
  let digits_s :=
    if mag =? 0 then [48] else map (hex_numeral capitals) (radix_digits 16 mag) in
  let result := sign_prefix neg plus blank
                ++ (if add_zerox then (if capitals then [48; 88] else [48; 120]) else []) in
  let pad_len := N.max (min_digits - lenN digits_s)
                       (min_chars - (lenN result + lenN digits_s)) in
  result ++ repeatN 48 pad_len ++ digits_s.

(* ------------------------------------------------- exact decimal of a double *)

Local Open Scope Z_scope.

(* round-half-even of num/den (num >= 0, den > 0) *)
Definition rhe (num den : Z) : Z :=
  let q := num / den in
  let r := num mod den in
  match 2 * r ?= den with
  | Lt => q
  | Gt => q + 1
  | Eq => if Z.even q then q else q + 1
  end.

(* round-half-even of  m * 2^e * 10^k  (m >= 0; k may be negative) *)
Definition scaled_rhe (m e k : Z) : Z :=
  let num := m * 2 ^ (Z.max e 0) * 10 ^ (Z.max k 0) in
  let den := 2 ^ (Z.max (- e) 0) * 10 ^ (Z.max (- k) 0) in
  rhe num den.

Definition zlenN (s : str) : Z := Z.of_N (lenN s).

(* Rust [format!("{:.p$}", x)] for x = m * 2^e >= 0: integer part, fraction digits *)
Definition fixed_parts (m e : Z) (p : N) : str * str :=
  (* digits at and after position max(0,-e) are all zero: compute there, pad *)
  let p' := N.min p (Z.to_N (Z.max (- e) 0)) in
  let D := Z.to_N (scaled_rhe m e (Z.of_N p')) in
  let ds := dec_digits D in
  let ds := repeatN ch_0 ((p' + 1) - lenN ds) ++ ds in
  let k := N.to_nat (lenN ds - p') in
  (firstn k ds, skipn k ds ++ repeatN ch_0 (p - p')).

Definition fixed_string (m e : Z) (p : N) : str :=
  let '(ip, fp) := fixed_parts m e p in
  if (p =? 0)%N then ip else ip ++ ch_dot :: fp.

(* floor(log10(m * 2^e)) for m > 0: linear search on exact integers *)
Fixpoint search_up (fuel : nat) (n pw k : Z) : Z :=     (* pw = 10^k <= n *)
  match fuel with
  | O => k
  | S f => if n <? pw * 10 then k else search_up f n (pw * 10) (k + 1)
  end.
Fixpoint search_dn (fuel : nat) (mm q k : Z) : Z :=     (* mm = m*10^k < q *)
  match fuel with
  | O => k
  | S f => if q <=? mm * 10 then k + 1 else search_dn f (mm * 10) q (k + 1)
  end.

Definition ilog10 (m e : Z) : Z :=
  if 0 <=? e then
    let n := m * 2 ^ e in search_up (S (Z.to_nat (Z.log2 n))) n 1 0
  else
    let q := 2 ^ (- e) in
    if q <=? m then let n := m / q in search_up (S (Z.to_nat (Z.log2 n))) n 1 0
    else - search_dn (Z.to_nat (- e)) m q 0.

(* Rust [format!("{:.p$e}", x)] for x = m * 2^e > 0: the p+1 significant digits and
   the decimal exponent *)
Definition exp_parts (m e : Z) (p : N) : str * Z :=
  let E := ilog10 m e in
  (* beyond max(0, E + max(0,-e)) fraction digits everything is zero *)
  let p' := N.min p (Z.to_N (Z.max (E + Z.max (- e) 0) 0)) in
  let D := scaled_rhe m e (Z.of_N p' - E) in
  let '(D, E) := if 10 ^ (Z.of_N p' + 1) <=? D then (10 ^ Z.of_N p', E + 1) else (D, E) in
  (dec_digits (Z.to_N D) ++ repeatN ch_0 (p - p'), E).

Local Open Scope N_scope.

(* u16::MAX: above it core::fmt panics ("Formatting argument out of range") *)
Definition fmt_prec_max : N := 65535.

(* format!("{value_abs:.prec$}") *)
Definition fmt_fixed (x : f64) (p : N) : res str :=
  if fmt_prec_max <? p then Panic "format.rs:render_float_def:format! precision above u16::MAX"
  else match x with
       | S754_zero _ => Ok (fixed_string 0 0 p)
       | S754_finite _ m e => Ok (fixed_string (Z.pos m) e p)
       | S754_infinity _ => Ok [105; 110; 102]       (* inf *)
       | S754_nan => Ok [78; 97; 78]                 (* NaN *)
       end.

(* format!("{value_abs:.prec$e}") split at the 'e': (digits, exponent) *)
Definition fmt_exp (x : f64) (p : N) : res (str * Z) :=
  (* LowerExp asks flt2dec for p + 1 digits in a u16: 65535 + 1 wraps to 0 and trips
     [assert!(ndigits > 0)]; above that the format! argument itself is refused *)
  if fmt_prec_max <=? p then Panic "format.rs:render_float_exp:format! precision + 1 above u16::MAX"
  else match x with
       | S754_zero _ => Ok (repeatN 48 (p + 1), 0%Z)
       | S754_finite _ m e => Ok (exp_parts (Z.pos m) e p)
       | _ => Panic "format.rs:render_float_exp:unwrap on None (no 'e' in a non-finite number)"
       end.

(* ---------------------------------------------- Rust f64::to_string (Display) *)

Local Open Scope Z_scope.

(* is  d * 10^k  inside the rounding interval of x = m*2^e ?  The interval is
   [x - lo/2, x + hi/2] with hi = 2^e and lo = 2^e (2^(e-1) at a binade
   boundary), closed when m is even.  Everything scaled by 4 / 2^(e-2). *)
Definition in_interval (m e : Z) (boundary : bool) (d k : Z) : bool :=
  let s := e - 2 in
  let lhs := d * 10 ^ (Z.max k 0) * 2 ^ (Z.max (- s) 0) in
  let sc := 2 ^ (Z.max s 0) * 10 ^ (Z.max (- k) 0) in
  let lo := (4 * m - (if boundary then 1 else 2)) * sc in
  let hi := (4 * m + 2) * sc in
  if Z.even m then (lo <=? lhs) && (lhs <=? hi) else (lo <? lhs) && (lhs <? hi).

(* |d*10^k - x| scaled, for choosing the closer candidate *)
Definition dist (m e d k : Z) : Z :=
  let lhs := d * 10 ^ (Z.max k 0) * 2 ^ (Z.max (- e) 0) in
  let rhs := m * 2 ^ (Z.max e 0) * 10 ^ (Z.max (- k) 0) in
  Z.abs (lhs - rhs).

(* shortest digits (as an integer d with n digits) and exponent k with
   d*10^k in the interval, closest to x among the n-digit candidates (tie: upward) *)
Fixpoint shortest_search (fuel : nat) (m e E : Z) (boundary : bool) (n : Z) : Z * Z :=
  let k := E - n + 1 in
  let lo := (* floor(x / 10^k) *)
    (m * 2 ^ (Z.max e 0) * 10 ^ (Z.max (- k) 0)) / (2 ^ (Z.max (- e) 0) * 10 ^ (Z.max k 0)) in
  let hi := lo + 1 in
  let lo_ok := in_interval m e boundary lo k in
  let hi_ok := in_interval m e boundary hi k in
  match fuel with
  | O => (lo, k)
  | S f =>
      if lo_ok && hi_ok then
        (* both neighbours read back: the closer one; an exact tie goes UP, as
           flt2dec::strategy::dragon::format_shortest does ("round up if mant*2 >= scale") *)
        (match dist m e lo k ?= dist m e hi k with
         | Lt => (lo, k) | _ => (hi, k) end)
      else if lo_ok then (lo, k)
      else if hi_ok then (hi, k)
      else shortest_search f m e E boundary (n + 1)
  end.

(* the upper candidate may be a power of ten (one digit more): drop trailing zeros *)
Fixpoint strip_zeros (fuel : nat) (d k : Z) : Z * Z :=
  match fuel with
  | O => (d, k)
  | S f => if (d mod 10 =? 0) && negb (d =? 0) then strip_zeros f (d / 10) (k + 1) else (d, k)
  end.

Definition shortest (m e : Z) : Z * Z :=
  let boundary := (m =? 2 ^ 52) && (-1074 <? e) in
  let '(d, k) := shortest_search 17 m e (ilog10 m e) boundary 1 in
  strip_zeros 20 d k.

(* positional rendering of d * 10^k (d > 0) *)
Definition positional (d k : Z) : str :=
  let ds := dec_digits (Z.to_N d) in
  if 0 <=? k then ds ++ repeatN ch_0 (Z.to_N k)
  else
    let n := zlenN ds in
    if 0 <? n + k then
      firstn (Z.to_nat (n + k)) ds ++ ch_dot :: skipn (Z.to_nat (n + k)) ds
    else ch_0 :: ch_dot :: repeatN ch_0 (Z.to_N (- (n + k))) ++ ds.

(* x.abs().to_string(): integers below 2^53 print exactly (their ulp is <= 1);
   otherwise the shortest round-tripping digits, never an exponent *)
Definition display_abs (x : f64) : str :=
  match x with
  | S754_zero _ => [ch_0]
  | S754_finite _ m e =>
      if f_is_integer x && (Z.pos m * 2 ^ (Z.max e 0) / 2 ^ (Z.max (- e) 0) <? 2 ^ 53) then
        dec_digits (Z.to_N (Z.pos m * 2 ^ (Z.max e 0) / 2 ^ (Z.max (- e) 0)))
      else let '(d, k) := shortest (Z.pos m) e in positional d k
  | S754_infinity _ => s_inf
  | S754_nan => s_nan
  end.

(* Display of the integer-valued double whose exact value is n (value.trunc().abs()) *)
Definition display_int (n : N) : str :=
  if (n <? 2 ^ 53)%N then dec_digits n
  else match f_of_N n with
       | S754_finite _ m e => let '(d, k) := shortest (Z.pos m) e in positional d k
       | _ => [ch_0]
       end.

(* format!("{n}") *)
Definition display (x : f64) : str :=
  match x with
  | S754_nan => display_abs x
  | _ => (if f_sign x then [45%N] else []) ++ display_abs x
  end.

Local Open Scope N_scope.

(* ------------------------------------------------------------- float helpers *)

(* value.trunc(): magnitude as an exact integer; None for inf/NaN *)
Definition trunc_mag (x : f64) : option N :=
  match f_trunc_Z x with Some z => Some (Z.abs_N z) | None => None end.

(* float::try_to_u32: trunc, saturating cast to u32, compare back *)
Definition try_to_u32 (x : f64) : option N :=
  match f_trunc_Z x with
  | Some z => if (0 <=? z)%Z && (z <=? Z.of_N u32_max)%Z then Some (Z.to_N z) else None
  | None => None
  end.

(* value.is_sign_negative() && value != 0.0 *)
Definition is_neg (x : f64) : bool := f_sign x && negb (f_is_zero x).
Definition is_neg_trunc (x : f64) : bool :=
  f_sign x && match trunc_mag x with Some 0 => false | _ => true end.

(* char::from_u32 *)
Definition is_scalar (c : N) : bool := (c <? 55296) || ((57343 <? c) && (c <? 1114112)).

(* str::trim_end_matches('0') *)
Fixpoint trim_end_zeros (s : str) : str :=
  match s with
  | [] => []
  | c :: r =>
      match trim_end_zeros r with
      | [] => if c =? 48 then [] else [c]
      | t => c :: t
      end
  end.
(* str::strip_suffix('.').unwrap_or(s) *)
Fixpoint strip_dot_suffix (s : str) : str :=
  match s with
  | [] => []
  | c :: r =>
      match r with
      | [] => if c =? 46 then [] else [c]
      | _ => c :: strip_dot_suffix r
      end
  end.

(* fn render_float_def *)
Definition render_float_def (value : f64) (prec zero_pad : N) (plus blank ensure_pt trim_zeros : bool)
  : res str :=
  let fmt_prec := N.min prec fmt_prec_max in
  do digits_str <- fmt_fixed (f_abs value) fmt_prec;
  let digits_str := digits_str ++ repeatN 48 (prec - fmt_prec) in
  let digits_str :=
    if (prec =? 0) && ensure_pt then digits_str ++ [46]
    else if negb (prec =? 0) && trim_zeros then
      let t := trim_end_zeros digits_str in
      if ensure_pt then t else strip_dot_suffix t
    else digits_str in
  Ok (decorate_digits digits_str (is_neg value) zero_pad 0 plus blank).

(* format!("{exp_int:+03}") *)
Definition exp_suffix (E : Z) : str :=
  let ds := dec_digits (Z.abs_N E) in
  (if (E <? 0)%Z then 45 else 43) :: repeatN 48 (2 - lenN ds) ++ ds.

(* fn render_float_exp *)
Definition render_float_exp (value : f64) (prec zero_pad : N)
           (plus blank ensure_pt trim_zeros uppercase : bool) : res str :=
  let fmt_prec := N.min prec (fmt_prec_max - 1) in
  do (ds, E) <- fmt_exp (f_abs value) fmt_prec;
  let ds := ds ++ repeatN 48 (prec - fmt_prec) in     (* mant_padded *)
  let mant_str := match ds with
                  | d0 :: rest => if prec =? 0 then [d0] else d0 :: 46 :: rest
                  | [] => [] end in
  let mant_str :=
    if negb (prec =? 0) && trim_zeros then
      let t := trim_end_zeros mant_str in
      if ensure_pt then t else strip_dot_suffix t
    else mant_str in
  let dot := if (prec =? 0) && ensure_pt then [46] else [] in
  let e_chr := if uppercase then 69 else 101 in
  Ok (decorate_digits (mant_str ++ dot ++ e_chr :: exp_suffix E) (is_neg value) zero_pad 0 plus blank).

(* ---------------------------------------------------------------- one code *)

Section WithLibm.
(* value.abs().log10().floor() for a finite non-zero value (libm) *)
Variable log10_floor : f64 -> Z.

Definition uses_prec (c : conv) : bool :=
  match c with CChar | CString | CPercent => false | _ => true end.

Definition need_num (k : numconv) (v : fval) : res f64 :=
  match v with VNum x => Ok x | _ => Err (ENeedNumber k (type_of v)) end.

(* fn do_std_format_code (ctype <> Percent) *)
Definition do_format_code (c : code) (fwv precv : N) (value : fval) : res str :=
  let has_prec := match prec c with Some _ => true | None => false end in
  let fpprec := if has_prec then precv else 6 in
  let iprec := if has_prec then precv else 0 in
  let fl := flags c in
  let zp := if fl_zero fl && negb (fl_left fl) then fwv else 0 in
  match ctype c with
  | CDecimal =>
      do x <- need_num NDec value;
      let digits_str := match trunc_mag x with
                        | Some mag => display_int mag
                        | None => display_abs x end in
      Ok (decorate_digits digits_str (is_neg_trunc x) zp iprec (fl_plus fl) (fl_blank fl))
  | COctal =>
      do x <- need_num NOct value;
      match trunc_mag x with
      | Some mag => Ok (render_int (is_neg_trunc x) mag zp iprec (fl_blank fl) (fl_plus fl) 8
                                   (if fl_alt fl then [48] else []))
      | None => OutOfFuel   (* while mag != 0 never ends on inf/NaN *)
      end
  | CHexLower | CHexUpper =>
      do x <- need_num NHex value;
      match trunc_mag x with
      | Some mag => Ok (render_hex (is_neg_trunc x) mag zp iprec (fl_blank fl) (fl_plus fl) (fl_alt fl)
                                   (conv_eqb (ctype c) CHexUpper))
      | None => OutOfFuel
      end
  | CExpLower | CExpUpper =>
      do x <- need_num NExp value;
      render_float_exp x fpprec zp (fl_plus fl) (fl_blank fl) (fl_alt fl) false
                       (conv_eqb (ctype c) CExpUpper)
  | CFloatLower | CFloatUpper =>
      do x <- need_num NFloat value;
      render_float_def x fpprec zp (fl_plus fl) (fl_blank fl) (fl_alt fl) false
  | CGLower | CGUpper =>
      do x <- need_num NG value;
      let exponent := if f_is_zero x then 0%Z else log10_floor (f_abs x) in
      if (exponent <? -4)%Z || ((0 <=? exponent)%Z && (Z.of_N fpprec <=? exponent)%Z) then
        render_float_exp x (N.max fpprec 1 - 1) zp (fl_plus fl) (fl_blank fl) (fl_alt fl)
                         (negb (fl_alt fl)) (conv_eqb (ctype c) CGUpper)
      else
        let digits_before_pt :=
          if f_ltb (f_abs x) f_one then 1
          else match trunc_mag x with
               | Some mag => lenN (display_int mag)
               | None => lenN (display_abs (f_abs x)) end in
        render_float_def x (fpprec - digits_before_pt) zp (fl_plus fl) (fl_blank fl) (fl_alt fl)
                         (negb (fl_alt fl))
  | CChar =>
      match value with
      | VStr s => if lenN s =? 1 then Ok s else Err (ECharLen (lenN s))
      | VNum n => match try_to_u32 n with
                  | Some cp => if is_scalar cp then Ok [cp] else Err EBadCodepoint
                  | None => Err EBadCodepoint end
      | VOther t _ => Err (ECharType t)
      end
  | CString =>
      match value with
      | VStr s => Ok s
      | VNum x => Ok (display x)           (* ManifestJson to-string of a number: write!("{n}") *)
      | VOther _ shown => Ok shown
      end
  | CPercent => Panic "format.rs:do_std_format_code:unreachable!()"
  end.

(* the padding step of do_std_format_codes_array_3 / _object_2 *)
Definition field_pad (s : str) (fwv : N) (left : bool) : str :=
  let s_chars := lenN s in                       (* s.chars().count() *)
  if s_chars <? fwv then
    let pad_len := fwv - s_chars in
    if left then s ++ repeatN 32 pad_len else repeatN 32 pad_len ++ s
  else s.

(* ---------------------------------------------------------- array machine *)

Inductive wtmp := WNone | WInline (v : N) | WThunk (t : fval).

(* FieldWidth -> WidthTmp in do_std_format_codes_array_1 *)
Definition take_width (w : option fwidth) (rest : list fval) (used : N)
  : res (wtmp * list fval * N) :=
  match w with
  | None => Ok (WNone, rest, used)
  | Some (FInline v) => Ok (WInline v, rest, used)
  | Some FExternal =>
      match rest with
      | [] => Err (ENotEnough used)            (* array_i >= array.len(): used = len here *)
      | t :: r => Ok (WThunk t, r, used + 1)
      end
  end.

(* the value the width/precision slot evaluates to, then [float::try_to_u32].
   An inline u32 goes through [PushU32AsValue] (f64::from(u32)) and comes back
   unchanged: u32 -> f64 -> u32 is exact. *)
Definition eval_width (w : wtmp) (not_number : vtype -> ferr) (bad_value : ferr) : res N :=
  match w with
  | WNone => Ok 0
  | WInline v => Ok v
  | WThunk (VNum x) => match try_to_u32 x with Some v => Ok v | None => Err bad_value end
  | WThunk v => Err (not_number (type_of v))
  end.

(* states Array1 -> Array2 -> (StdFormatCode) -> Array3 for one directive *)
Definition array_code (c : code) (rest : list fval) (used : N) : res (str * list fval * N) :=
  do (fwt, rest, used) <- take_width (fw c) rest used;
  do (prt, rest, used) <- take_width (prec c) rest used;
  let total := used + lenN rest in
  do precv <-
     (match prec c with
      | Some _ => if uses_prec (ctype c) then eval_width prt EPrecNotNumber EBadPrecValue else Ok 0
      | None => Ok 0 end);
  do fwv <-
     (match fw c with
      | Some _ => eval_width fwt EWidthNotNumber EBadWidthValue
      | None => Ok 0 end);
  if conv_eqb (ctype c) CPercent then
    Ok (field_pad [37] fwv (fl_left (flags c)), rest, used)
  else
    match rest with
    | [] => Err (ENotEnough total)
    | item :: rest' =>
        do s <- do_format_code c fwv precv item;
        Ok (field_pad s fwv (fl_left (flags c)), rest', used + 1)
    end.

Fixpoint format_array (parts : list part) (rest : list fval) (used : N) : res str :=
  match parts with
  | [] =>
      match rest with
      | [] => Ok []
      | _ => Err (ETooMany used (used + lenN rest))
      end
  | PLit s :: ps => do t <- format_array ps rest used; Ok (s ++ t)
  | PCode c :: ps =>
      do (s, rest', used') <- array_code c rest used;
      do t <- format_array ps rest' used';
      Ok (s ++ t)
  end.

(* --------------------------------------------------------- object machine *)

Fixpoint str_eqb (a b : str) : bool :=
  match a, b with
  | [], [] => true
  | x :: a', y :: b' => (x =? y) && str_eqb a' b'
  | _, _ => false
  end.

Fixpoint find_field (k : str) (fs : list (str * fval)) : option fval :=
  match fs with
  | [] => None
  | (k', v) :: r => if str_eqb k k' then Some v else find_field k r
  end.

Definition object_code (c : code) (fs : list (str * fval)) : res str :=
  do fwv <- (match fw c with
             | None => Ok 0
             | Some (FInline v) => Ok v
             | Some FExternal => Err EStarWidthObject end);
  do precv <- (match prec c with
               | None => Ok 0
               | Some (FInline v) => Ok v
               | Some FExternal => Err EStarPrecObject end);
  if conv_eqb (ctype c) CPercent then Ok (field_pad [37] fwv (fl_left (flags c)))
  else
    match mkey c with
    | None => Err EMkeyRequired
    | Some k =>
        match find_field k fs with
        | None => Err (EMissingField k)
        | Some item =>
            do s <- do_format_code c fwv precv item;
            Ok (field_pad s fwv (fl_left (flags c)))
        end
    end.

Fixpoint format_object (parts : list part) (fs : list (str * fval)) : res str :=
  match parts with
  | [] => Ok []
  | PLit s :: ps => do t <- format_object ps fs; Ok (s ++ t)
  | PCode c :: ps =>
      do s <- object_code c fs;
      do t <- format_object ps fs;
      Ok (s ++ t)
  end.

(* ------------------------------------------------------------ entry point *)

Inductive fargs :=
| AArray (l : list fval)
| AObject (fs : list (str * fval))     (* every field, hidden ones included *)
| ASingle (v : fval).                  (* any other value: wrapped in a one-element array *)

(* fn do_std_format (fmt already known to be a string) *)
Definition format (fmt : str) (a : fargs) : res str :=
  do parts <- parse_format_codes fmt;
  match a with
  | AArray l => format_array parts l 0
  | AObject fs => format_object parts fs
  | ASingle v => format_array parts [v] 0
  end.

End WithLibm.

(* floor(log10 |x|) computed exactly — the instantiation used for running the
   model (libm's log10 may differ from it within a few ulp below a power of ten;
   %g is compared for shape only there) *)
Definition exact_log10_floor (x : f64) : Z :=
  match x with
  | S754_finite _ m e => ilog10 (Z.pos m) e
  | _ => 0%Z
  end.

Definition format_run (fmt : str) (a : fargs) : res str := format exact_log10_floor fmt a.
