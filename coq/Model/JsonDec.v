(* Model/JsonDec.v — a specification-level decoder of RFC 8259 JSON texts, written
   for readability and independent of the repository's own parse_json.rs (that file is
   modelled elsewhere, for C20).  It is the 'reader' against which Props/C05.v states
   that every emitted document decodes to the value it came from.

     JSON-text = ws value ws
     value     = false / null / true / object / array / number / string
     array     = '[' ws [ value ws *( ',' value ws ) ] ']'        (value skips leading ws)
     object    = '{' ws [ member *( ',' member ) ] '}'   member = ws string ws ':' value ws
     number    = [ '-' ] int [ frac ] [ exp ]
     string    = quotation-mark *char quotation-mark

   A JSON text is a list of code points.  Object members are kept in document order,
   duplicates included.  The numeric value of a number token is given by the section
   variable [read] (Rust's f64::from_str on the implementation side; validated per case
   by the check).  An escape that denotes an unpaired surrogate is rejected (the value
   is not a Jsonnet string).  No proofs here. *)
From RJ Require Import Base.Outcome Base.F64 Model.Token.
Local Open Scope N_scope.

Inductive jvalue :=
| JNull
| JBool (b : bool)
| JNum (x : f64)
| JStr (s : str)
| JArr (items : list jvalue)
| JObj (members : list (str * jvalue)).

(* ---------------------------------------------------------------- characters *)
Definition is_ws (c : N) : bool := (c =? 32) || (c =? 9) || (c =? 10) || (c =? 13).
Definition is_dig (c : N) : bool := (48 <=? c) && (c <=? 57).

Fixpoint skip_ws (s : str) : str :=
  match s with
  | c :: r => if is_ws c then skip_ws r else s
  | [] => []
  end.

(* ---------------------------------------------------------------- strings *)
Definition hex_val (c : N) : option N :=
  if is_dig c then Some (c - 48)
  else if (97 <=? c) && (c <=? 102) then Some (c - 87)
  else if (65 <=? c) && (c <=? 70) then Some (c - 55)
  else None.

Definition hex4 (s : str) : option (N * str) :=
  match s with
  | a :: b :: c :: d :: r =>
      match hex_val a, hex_val b, hex_val c, hex_val d with
      | Some a, Some b, Some c, Some d => Some (((a * 16 + b) * 16 + c) * 16 + d, r)
      | _, _, _, _ => None
      end
  | _ => None
  end.

(* \' \\ \/ \b \f \n \r \t *)
Definition simple_escape (e : N) : option N :=
  if e =? 34 then Some 34 else if e =? 92 then Some 92 else if e =? 47 then Some 47
  else if e =? 98 then Some 8 else if e =? 102 then Some 12 else if e =? 110 then Some 10
  else if e =? 114 then Some 13 else if e =? 116 then Some 9 else None.

Definition is_high_surrogate (u : N) : bool := (55296 <=? u) && (u <=? 56319).   (* D800..DBFF *)
Definition is_low_surrogate (u : N) : bool := (56320 <=? u) && (u <=? 57343).    (* DC00..DFFF *)

Inductive unit_res :=
| UEnd (rest : str)              (* closing quotation mark *)
| UChar (c : N) (rest : str)     (* one decoded code point *)
| UErr.

(* one [char] of the string grammar, or the closing quote *)
Definition lex_unit (s : str) : unit_res :=
  match s with
  | [] => UErr
  | c :: r =>
      if c =? 34 then UEnd r
      else if c =? 92 then
        match r with
        | [] => UErr
        | e :: r1 =>
            match simple_escape e with
            | Some d => UChar d r1
            | None =>
                if e =? 117 then
                  match hex4 r1 with
                  | Some (u, r2) =>
                      if is_high_surrogate u then
                        match r2 with
                        | 92 :: 117 :: r3 =>
                            match hex4 r3 with
                            | Some (l, r4) =>
                                if is_low_surrogate l
                                then UChar (65536 + (u - 55296) * 1024 + (l - 56320)) r4
                                else UErr
                            | None => UErr
                            end
                        | _ => UErr
                        end
                      else if is_low_surrogate u then UErr
                      else UChar u r2
                  | None => UErr
                  end
                else UErr
            end
        end
      else if c <? 32 then UErr          (* control characters must be escaped *)
      else UChar c r
  end.

(* after the opening quote; every unit consumes at least one code point, so
   [S (length s)] is always enough fuel *)
Fixpoint lex_string_body (fuel : nat) (s : str) : option (str * str) :=
  match fuel with
  | O => None
  | S f =>
      match lex_unit s with
      | UEnd r => Some ([], r)
      | UChar c r =>
          match lex_string_body f r with
          | Some (cs, r') => Some (c :: cs, r')
          | None => None
          end
      | UErr => None
      end
  end.

Definition lex_string (s : str) : option (str * str) :=
  match s with
  | 34 :: r => lex_string_body (S (length r)) r
  | _ => None
  end.

(* ---------------------------------------------------------------- numbers *)
Fixpoint skip_digits (s : str) : str :=
  match s with
  | c :: r => if is_dig c then skip_digits r else s
  | [] => []
  end.

Definition digits1 (s : str) : option str :=          (* 1*DIGIT *)
  match s with
  | c :: r => if is_dig c then Some (skip_digits r) else None
  | [] => None
  end.

Definition json_int (s : str) : option str :=         (* zero / ( digit1-9 *DIGIT ) *)
  match s with
  | c :: r => if c =? 48 then Some r else if is_dig c then Some (skip_digits r) else None
  | [] => None
  end.

Definition json_frac (s : str) : option str :=        (* [ '.' 1*DIGIT ] *)
  match s with
  | c :: r => if c =? 46 then digits1 r else Some s
  | [] => Some []
  end.

Definition json_exp (s : str) : option str :=         (* [ e [ minus / plus ] 1*DIGIT ] *)
  match s with
  | c :: r =>
      if (c =? 101) || (c =? 69) then
        match r with
        | sg :: r' => if (sg =? 43) || (sg =? 45) then digits1 r' else digits1 r
        | [] => None
        end
      else Some s
  | [] => Some []
  end.

Definition is_json_number (s : str) : bool :=
  let s1 := match s with c :: r => if c =? 45 then r else s | [] => s end in
  match json_int s1 with
  | Some s2 =>
      match json_frac s2 with
      | Some s3 => match json_exp s3 with Some [] => true | _ => false end
      | None => false
      end
  | None => false
  end.

(* the code points a number token can contain; a value is always followed by
   ws , ] } or the end of the text, so the token is the longest run of these *)
Definition is_numchar (c : N) : bool :=
  is_dig c || (c =? 43) || (c =? 45) || (c =? 46) || (c =? 101) || (c =? 69).

Fixpoint span_num (s : str) : str * str :=
  match s with
  | c :: r => if is_numchar c then let (a, b) := span_num r in (c :: a, b) else ([], s)
  | [] => ([], [])
  end.

(* ---------------------------------------------------------------- values *)
Fixpoint expect (lit s : str) : option str :=
  match lit, s with
  | [], _ => Some s
  | a :: lit', b :: s' => if a =? b then expect lit' s' else None
  | _ :: _, [] => None
  end.

Section Dec.
Variable read : str -> option f64.

Fixpoint parse_value (fuel : nat) (s : str) : option (jvalue * str) :=
  match fuel with
  | O => None
  | S f =>
      match skip_ws s with
      | [] => None
      | c :: r =>
          if c =? 110 then option_map (fun r' => (JNull, r')) (expect [117; 108; 108] r)              (* null *)
          else if c =? 116 then option_map (fun r' => (JBool true, r')) (expect [114; 117; 101] r)   (* true *)
          else if c =? 102 then option_map (fun r' => (JBool false, r')) (expect [97; 108; 115; 101] r)  (* false *)
          else if c =? 34 then
            match lex_string (c :: r) with
            | Some (str, r') => Some (JStr str, r')
            | None => None
            end
          else if c =? 91 then                                   (* [ *)
            match skip_ws r with
            | [] => None
            | c2 :: r2 =>
                if c2 =? 93 then Some (JArr [], r2)
                else match parse_elems f r with
                     | Some (vs, r') => Some (JArr vs, r')
                     | None => None
                     end
            end
          else if c =? 123 then                                  (* { *)
            match skip_ws r with
            | [] => None
            | c2 :: r2 =>
                if c2 =? 125 then Some (JObj [], r2)
                else match parse_members f r with
                     | Some (ms, r') => Some (JObj ms, r')
                     | None => None
                     end
            end
          else if is_numchar c then
            let (tok, r') := span_num (c :: r) in
            if is_json_number tok then
              match read tok with
              | Some x => Some (JNum x, r')
              | None => None
              end
            else None
          else None
      end
  end
(* value ws ( ',' elems | ']' ) *)
with parse_elems (fuel : nat) (s : str) : option (list jvalue * str) :=
  match fuel with
  | O => None
  | S f =>
      match parse_value f s with
      | Some (v, r) =>
          match skip_ws r with
          | c :: r' =>
              if c =? 44 then
                match parse_elems f r' with
                | Some (vs, r'') => Some (v :: vs, r'')
                | None => None
                end
              else if c =? 93 then Some ([v], r')
              else None
          | [] => None
          end
      | None => None
      end
  end
(* ws string ws ':' value ws ( ',' members | '}' ) *)
with parse_members (fuel : nat) (s : str) : option (list (str * jvalue) * str) :=
  match fuel with
  | O => None
  | S f =>
      match lex_string (skip_ws s) with
      | Some (k, r) =>
          match skip_ws r with
          | c :: r1 =>
              if c =? 58 then
                match parse_value f r1 with
                | Some (v, r2) =>
                    match skip_ws r2 with
                    | c2 :: r3 =>
                        if c2 =? 44 then
                          match parse_members f r3 with
                          | Some (ms, r4) => Some ((k, v) :: ms, r4)
                          | None => None
                          end
                        else if c2 =? 125 then Some ([(k, v)], r3)
                        else None
                    | [] => None
                    end
                | None => None
                end
              else None
          | [] => None
          end
      | None => None
      end
  end.

Inductive dec_error := DecSyntax.

(* JSON-text = ws value ws.  Fuel: a value of nesting cost c needs a text of at least c
   code points (Proofs/Manifest_proofs.v proves it for every emitted document). *)
Definition decode (s : str) : outcome jvalue dec_error :=
  match parse_value (S (length s)) s with
  | Some (v, r) => match skip_ws r with [] => Ok v | _ => Err DecSyntax end
  | None => Err DecSyntax
  end.

End Dec.

(* ---------------------------------------------------------------- string-literal grammars
   The body of a quoted string literal as a sequence of units: an unescaped code point
   allowed by [plain_ok], a backslash followed by a letter allowed by [esc_ok], or
   \u followed by exactly four hexadecimal digits.  Instances: RFC 8259 *char, the TOML 1.0
   basic string and the Python double-quoted literal, the three languages that receive
   the output of the one escaper. *)
Definition is_hex (c : N) : bool := match hex_val c with Some _ => true | None => false end.

Inductive str_chars (plain_ok esc_ok : N -> bool) : str -> Prop :=
| sc_nil : str_chars plain_ok esc_ok []
| sc_plain c r : plain_ok c = true -> c <> 34 -> c <> 92 ->
    str_chars plain_ok esc_ok r -> str_chars plain_ok esc_ok (c :: r)
| sc_esc e r : esc_ok e = true ->
    str_chars plain_ok esc_ok r -> str_chars plain_ok esc_ok (92 :: e :: r)
| sc_u a b c d r : is_hex a = true -> is_hex b = true -> is_hex c = true -> is_hex d = true ->
    str_chars plain_ok esc_ok r -> str_chars plain_ok esc_ok (92 :: 117 :: a :: b :: c :: d :: r).

(* RFC 8259: unescaped = %x20-21 / %x23-5B / %x5D-10FFFF; escapes: quote backslash / b f n r t *)
Definition json_plain (c : N) : bool := 32 <=? c.
Definition json_esc (e : N) : bool := match simple_escape e with Some _ => true | None => false end.
Definition json_chars : str -> Prop := str_chars json_plain json_esc.

(* TOML 1.0 basic-unescaped = wschar / %x21 / %x23-5B / %x5D-7E / non-ascii; escapes b t n f r quote backslash *)
Definition toml_plain (c : N) : bool := (c =? 9) || ((32 <=? c) && (c <=? 126)) || (128 <=? c).
Definition toml_esc (e : N) : bool :=
  (e =? 98) || (e =? 116) || (e =? 110) || (e =? 102) || (e =? 114) || (e =? 34) || (e =? 92).
Definition toml_basic_chars : str -> Prop := str_chars toml_plain toml_esc.

(* Python: a double-quoted literal on one logical line: no NUL, no line break; the same seven
   escapes keep their meaning (an unknown escape such as \/ would keep its backslash) *)
Definition python_plain (c : N) : bool := negb ((c =? 0) || (c =? 10) || (c =? 13)).
Definition python_chars : str -> Prop := str_chars python_plain toml_esc.

(* YAML 1.2 double-quoted scalar on one line: nb-double-char = c-ns-esc-char | ( nb-json - backslash - quote ),
   nb-json = x9 | x20-x10FFFF; the seven escapes are c-ns-esc-chars with the same meaning, as is \u + 4 hex.
   (5.1: processors must accept every non-C0 character inside quoted scalars; emitters *should* escape
   the non-printable ones — see the open finding on U+FFFE/U+FFFF.) *)
Definition yaml_dq_plain (c : N) : bool := (c =? 9) || (32 <=? c).
Definition yaml_dq_chars : str -> Prop := str_chars yaml_dq_plain toml_esc.

(* a quoted literal: quote, body, quote *)
Definition quoted (body_ok : str -> Prop) (t : str) : Prop :=
  exists body, t = 34 :: body ++ [34] /\ body_ok body.

(* TOML bare key: 1*( ALPHA / DIGIT / - / _ ) *)
Definition toml_bare_char (c : N) : bool :=
  ((48 <=? c) && (c <=? 57)) || ((65 <=? c) && (c <=? 90)) || ((97 <=? c) && (c <=? 122))
  || (c =? 45) || (c =? 95).
Definition toml_bare_key (s : str) : Prop := s <> [] /\ Forall (fun c => toml_bare_char c = true) s.

(* ---------------------------------------------------------------- YAML 1.2.2 core schema (10.3.2)
   Plain scalars that do NOT resolve to a string:
     null | Null | NULL | ~                 true | True | TRUE | false | False | FALSE
     [-+]? [0-9]+          0o [0-7]+          0x [0-9a-fA-F]+
     [-+]? ( \. [0-9]+ | [0-9]+ ( \. [0-9]* )? ) ( [eE] [-+]? [0-9]+ )?
     [-+]? ( \.inf | \.Inf | \.INF )        \.nan | \.NaN | \.NAN
   A mapping key written as such a plain scalar is read back as null, a boolean or a number. *)
Definition strip_sign (s : str) : str :=
  match s with
  | c :: r => if (c =? 43) || (c =? 45) then r else s
  | [] => s
  end.

Definition nonempty_all (p : N -> bool) (s : str) : bool :=
  match s with [] => false | _ :: _ => forallb p s end.

Definition is_oct (c : N) : bool := (48 <=? c) && (c <=? 55).

Definition after (prefix s : str) (k : str -> bool) : bool :=
  match expect prefix s with Some r => k r | None => false end.

Definition core_int (s : str) : bool :=
  nonempty_all is_dig (strip_sign s)
  || after [48; 111] s (nonempty_all is_oct)
  || after [48; 120] s (nonempty_all is_hex).

Definition core_float_mantissa (s : str) : option str :=
  match s with
  | [] => None
  | c :: r =>
      if c =? 46 then digits1 r
      else match digits1 s with
           | Some (c2 :: r2) => if c2 =? 46 then Some (skip_digits r2) else Some (c2 :: r2)
           | Some [] => Some []
           | None => None
           end
  end.

Definition core_float (s : str) : bool :=
  match core_float_mantissa (strip_sign s) with
  | Some r => match json_exp r with Some [] => true | _ => false end
  | None => false
  end.

Fixpoint str_eq (a b : str) : bool :=
  match a, b with
  | [], [] => true
  | x :: a', y :: b' => (x =? y) && str_eq a' b'
  | _, _ => false
  end.

Definition one_of (ws : list str) (s : str) : bool := existsb (str_eq s) ws.

Definition yaml12_core_nonstring (s : str) : bool :=
  one_of [[110;117;108;108]; [78;117;108;108]; [78;85;76;76]; [126];
          [116;114;117;101]; [84;114;117;101]; [84;82;85;69];
          [102;97;108;115;101]; [70;97;108;115;101]; [70;65;76;83;69];
          [46;110;97;110]; [46;78;97;78]; [46;78;65;78]] s
  || one_of [[46;105;110;102]; [46;73;110;102]; [46;73;78;70]] (strip_sign s)
  || core_int s || core_float s.
