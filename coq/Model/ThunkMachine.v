(* Model/ThunkMachine.v — the state a long-lived [Program] carries between
   requests, as an executable machine (property C11).

   Mirrors, in rsjsonnet-lang/src/program:
     data.rs   ThunkData / ThunkState { Done, Pending, InProgress },
               switch_state (Pending -> InProgress, hands the body out),
               set_done (InProgress -> Done), ObjectData::asserts_checked
     eval/mod.rs  Evaluator::eval (a fresh evaluator per request, over the shared
               program), run: State::DoThunk / State::GotThunk, the
               `stack_trace_len > max_stack` test after every step,
               check_object_asserts (sets asserts_checked BEFORE running the asserts)
     eval/expr.rs want_field (asserts first, then the field's thunk)

   A store is a vector of thunk cells and a vector of objects ("guards": layers
   with lists of constant assertions, [assert true] or [assert false : "m"], one
   flag per object, one undo marker per object).
   Every cell is a field of one object ([owner]).  The body of a cell is a
   small deterministic program over the cells it forces.

   [restore] selects the behaviour on the error path of Evaluator::eval:
     false  the evaluator is dropped and nothing it switched is put back — the
            code as first found (thunks stay InProgress, asserts_checked stays true);
     true   thunks the failed evaluator had in progress go back to Pending and
            objects whose assertions had not completed go back to unchecked —
            the code after the repair (see notes/C11.md).
   The instance that mirrors the CURRENT source is selected by the check at
   run time (tools/props/c11.py reads eval/mod.rs), never silently.

   Stack accounting.  In the printed Jsonnet (tools/props/c11.py) a force is
   `(import "s<owner>").c<id>`: the import pushes one trace item (popped when the
   library value is there), want_field pushes one unless the field is already
   Done in a checked object.  Hence every force needs one free frame and the
   body of the forced cell runs one frame deeper; `error "m"` needs one free
   frame too (its trace item is delayed while the message is computed and
   re-counted before the error is raised).  [gas] is the number of free frames. *)
From RJ Require Import Base.Outcome.
Local Open Scope N_scope.

Inductive expr :=
| EConst (n : N)             (* a number *)
| EFail (m : N)              (* error "m<m>" *)
| EForce (id : N)            (* the value of another cell *)
| EAdd (a b : expr).         (* lhs then rhs *)

Inductive tstate :=
| Pending (body : expr)
| InProgress
| Done (v : N).

Record cell := { owner : N; st : tstate }.

(* an object: its layers, base first (`L0 + L1 + ... + Ln`), each with its list of
   assertions (a constant each: [None] passes, [Some m] fails with message m), and ONE
   flag for the whole object (ObjectData::asserts_checked).
   check_object_asserts pushes the assertions of super_layers (reversed) and then of
   self_layer on the state stack, each layer's list reversed: they therefore RUN from
   the most derived layer down to the base, each layer's assertions in textual order,
   and the first one that fails raises the error. *)
Record guard := { layers : list (list (option N)); checked : bool }.

Definition assert_order (ls : list (list (option N))) : list (option N) := concat (rev ls).

Fixpoint first_fail (l : list (option N)) : option N :=
  match l with
  | [] => None
  | Some m :: _ => Some m
  | None :: t => first_fail t
  end.

(* the outcome of running all the assertions of the object: None = all pass *)
Definition cond (g : guard) : option N := first_fail (assert_order (layers g)).

Record store := { cells : list cell; guards : list guard }.

Inductive err :=
| EUser (m : N)              (* EvalErrorKind::ExplicitError *)
| EAssert (m : N)            (* EvalErrorKind::AssertFailed *)
| EInfRec                    (* EvalErrorKind::InfiniteRecursion *)
| EOverflow.                 (* EvalErrorKind::StackOverflow *)

Notation result := (outcome N err).

Definition nthN {A} (l : list A) (i : N) : option A :=
  if N.of_nat (length l) <=? i then None else nth_error l (N.to_nat i).

Fixpoint set_nth {A} (l : list A) (i : nat) (x : A) : list A :=
  match l, i with
  | [], _ => []
  | _ :: t, O => x :: t
  | h :: t, S j => h :: set_nth t j x
  end.

Definition setN {A} (l : list A) (i : N) (x : A) : list A :=
  if N.of_nat (length l) <=? i then l else set_nth l (N.to_nat i) x.

Definition set_state (s : store) (id : N) (t : tstate) : store :=
  match nthN (cells s) id with
  | Some c => {| cells := setN (cells s) id {| owner := owner c; st := t |}; guards := guards s |}
  | None => s
  end.

Definition set_checked (s : store) (g : N) (b : bool) : store :=
  match nthN (guards s) g with
  | Some gd => {| cells := cells s; guards := setN (guards s) g {| layers := layers gd; checked := b |} |}
  | None => s
  end.

(* ---- requests: each one is run by a fresh evaluator over the shared store ---- *)
Inductive req :=
| Eval (limit : nat) (id : N)         (* Program::eval_value of a root thunk *)
| Manifest (limit : nat) (id : N)     (* eval_value then manifest_json *)
| Gc.                                 (* Program::gc *)

Inductive resp :=
| RVal (v : N)
| RStr (digits : list N)
| RGc
| RErr (e : err)
| RPanic
| RFuel.

Fixpoint digits_fuel (fuel : nat) (n : N) (acc : list N) : list N :=
  match fuel with
  | O => acc
  | S f => let acc' := (48 + n mod 10) :: acc in
           if n <? 10 then acc' else digits_fuel f (n / 10) acc'
  end.
Definition digits (n : N) : list N := digits_fuel (S (N.size_nat n)) n [].

Definition resp_of (as_text : bool) (r : result) : resp :=
  match r with
  | Ok v => if as_text then RStr (digits v) else RVal v
  | Err e => RErr e
  | Panic _ => RPanic
  | OutOfFuel => RFuel
  end.


Section Machine.
  Variable restore : bool.

  (* want_field's object-assertion step (check_object_asserts): the flag is set
     first, then the assertion runs.  Returns the error to raise, if any. *)
  Definition check_guard (s : store) (g : N) : store * option (outcome N err) :=
    match nthN (guards s) g with
    | None => (s, Some (Panic "ThunkMachine:force:no such object"))
    | Some gd =>
        if checked gd then (s, None)
        else
          let s1 := set_checked s g true in
          match cond gd with
          | None => (s1, None)
          | Some m => ((if restore then set_checked s1 g false else s1), Some (Err (EAssert m)))
          end
    end.

  (* State::DoThunk / State::GotThunk on one cell; [ev] evaluates a body *)
  Definition do_thunk (ev : store -> expr -> store * result) (s : store) (id : N) : store * result :=
    match nthN (cells s) id with
    | None => (s, Panic "ThunkMachine:do_thunk:no such cell")
    | Some c =>
        match st c with
        | Done v => (s, Ok v)
        | InProgress => (s, Err EInfRec)
        | Pending b =>
            let s1 := set_state s id InProgress in          (* switch_state *)
            let '(s2, r) := ev s1 b in
            match r with
            | Ok v => (set_state s2 id (Done v), Ok v)       (* GotThunk: set_done *)
            | _ => ((if restore then set_state s2 id (Pending b) else s2), r)
            end
        end
    end.

  (* evaluation of a body with [gas] free frames; [frc] forces a cell *)
  Fixpoint eval_with (frc : store -> N -> store * result) (gas : nat) (s : store) (e : expr)
    : store * result :=
    match e with
    | EConst n => (s, Ok n)
    | EFail m => match gas with O => (s, Err EOverflow) | S _ => (s, Err (EUser m)) end
    | EForce id => frc s id
    | EAdd a b =>
        let '(s1, ra) := eval_with frc gas s a in
        match ra with
        | Ok x =>
            let '(s2, rb) := eval_with frc gas s1 b in
            match rb with
            | Ok y => (s2, Ok (x + y))
            | _ => (s2, rb)
            end
        | _ => (s1, ra)
        end
    end.

  (* `(import "s<owner>").c<id>` with [gas] free frames *)
  Fixpoint force (gas : nat) (s : store) (id : N) {struct gas} : store * result :=
    match gas with
    | O => (s, Err EOverflow)
    | S g =>
        match nthN (cells s) id with
        | None => (s, Panic "ThunkMachine:force:no such cell")
        | Some c =>
            match check_guard s (owner c) with
            | (s1, Some e) => (s1, e)
            | (s1, None) => do_thunk (eval_with (force g) g) s1 id
            end
        end
    end.

  Definition eval (gas : nat) : store -> expr -> store * result := eval_with (force gas) gas.

  (* the root thunk is switched by State::DoThunk directly: no frame, no object *)
  Definition run_req (s : store) (r : req) : store * resp :=
    match r with
    | Eval limit id => let '(s', o) := do_thunk (eval limit) s id in (s', resp_of false o)
    | Manifest limit id => let '(s', o) := do_thunk (eval limit) s id in (s', resp_of true o)
    | Gc => (s, RGc)
    end.

  Fixpoint run_shared (s : store) (rs : list req) : list resp :=
    match rs with
    | [] => []
    | r :: rest => let '(s', o) := run_req s r in o :: run_shared s' rest
    end.

  Definition run_fresh (s : store) (r : req) : resp := snd (run_req s r).
End Machine.

Definition is_fail (o : resp) : bool :=
  match o with RVal _ | RStr _ | RGc => false | _ => true end.
Definition is_overflow (o : resp) : bool :=
  match o with RErr EOverflow => true | _ => false end.
