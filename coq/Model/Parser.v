(* Model/Parser.v — executable model of rsjsonnet-lang/src/parser/{mod,expr,error}.rs.

   The parser works on the token list produced by the lexer (no whitespace, no
   comments, last token EndOfFile).  It is transcribed production by
   production:

   * the parser state is [pst]: [cur] = curr_token, [rest] = rem_tokens,
     [exps] = expected_things (a Vec that is only ever turned into a BTreeSet,
     so its order is not observable; we cons instead of push), plus two
     counters [dcur]/[dmax] that record the native (Rust call-stack) nesting of
     the non-#[inline] parser functions — every such function body is wrapped
     in [call];
   * parse_expr's explicit-stack machine (State / StackItem) is [pe_loop],
     one loop iteration per unit of fuel; every other loop of the source
     (suffixes, members, params, args, binds, comp specs) is a fuelled loop too;
   * recursive calls `self.parse_expr()` are the parameter [pexpr], instantiated
     by [parse_expr] at the next lower fuel;
   * every panic site of the source (unwrap, assert!, unreachable!) is a
     [Panic "file:fn:what"] result;
   * make_surrounding_span is [mk_span]: spans are (start,end) pairs inside the
     single file being parsed (the interning itself is property C16), its
     `assert!(start <= end)` is kept; its `assert_eq!` on contexts cannot fire
     with a single context;
   * the BinOpKind chain, the token->operator arms and the unary arms are a
     parameter [prec_table]; the table of the current source is translated
     into Gen/PrecTable.v (src_prec), the specification's table is
     [spec_prec] below. *)
From RJ Require Import Base.Outcome Model.Token Model.Ast.
Local Open Scope string_scope.
Local Open Scope list_scope.
Local Open Scope N_scope.

(* ---------------------------------------------------------------- errors *)

(* parser/error.rs: enum ExpectedToken (derive Ord: declaration order) *)
Inductive expected :=
| XEndOfFile | XSimple (k : stoken) | XIdent | XNumber | XString | XTextBlock | XExpr | XBinaryOp.

(* parser/error.rs: enum ActualToken *)
Inductive actual :=
| AEndOfFile | ASimple (k : stoken) | AOtherOp (s : str) | AIdent (s : str)
| ANumber | AString | ATextBlock.

(* ParseError::Expected { span, expected: BTreeSet<ExpectedToken>, instead } *)
Record parse_error := { pe_span : span; pe_expected : list expected; pe_instead : actual }.

(* declaration order of STokenKind (derive Ord) *)
Definition stoken_rank (k : stoken) : N :=
  match k with
  | KAssert => 0 | KElse => 1 | KError => 2 | KFalse => 3 | KFor => 4 | KFunction => 5
  | KIf => 6 | KImport => 7 | KImportstr => 8 | KImportbin => 9 | KIn => 10 | KLocal => 11
  | KNull => 12 | KTailstrict => 13 | KThen => 14 | KSelf => 15 | KSuper => 16 | KTrue => 17
  | SExclam => 18 | SExclamEq => 19 | SDollar => 20 | SPercent => 21 | SAmp => 22 | SAmpAmp => 23
  | SLeftParen => 24 | SRightParen => 25 | SAsterisk => 26 | SPlus => 27 | SPlusColon => 28 | SPlusColonColon => 29
  | SPlusColonColonColon => 30 | SComma => 31 | SMinus => 32 | SDot => 33 | SSlash => 34 | SColon => 35
  | SColonColon => 36 | SColonColonColon => 37 | SSemicolon => 38 | SLt => 39 | SLtLt => 40 | SLtEq => 41
  | SEq => 42 | SEqEq => 43 | SGt => 44 | SGtEq => 45 | SGtGt => 46 | SLeftBracket => 47
  | SRightBracket => 48 | SHat => 49 | SLeftBrace => 50 | SPipe => 51 | SPipePipe => 52 | SRightBrace => 53
  | STilde => 54
  end.

Definition expected_rank (x : expected) : N :=
  match x with
  | XEndOfFile => 0
  | XSimple k => 1 + stoken_rank k
  | XIdent => 100 | XNumber => 101 | XString => 102 | XTextBlock => 103 | XExpr => 104 | XBinaryOp => 105
  end.

(* BTreeSet: sorted, no duplicates *)
Fixpoint set_insert (x : expected) (l : list expected) : list expected :=
  match l with
  | [] => [x]
  | y :: r =>
      if expected_rank x <? expected_rank y then x :: l
      else if expected_rank x =? expected_rank y then l
      else y :: set_insert x r
  end.

Definition to_set (l : list expected) : list expected :=
  fold_right set_insert [] l.

(* ActualToken::from_token_kind; Whitespace/Comment are `unreachable!()` *)
Definition actual_of (k : token_kind) : option actual :=
  match k with
  | TEndOfFile => Some AEndOfFile
  | TWhitespace => None
  | TComment => None
  | TSimple k => Some (ASimple k)
  | TOtherOp op => Some (AOtherOp op)
  | TIdent i => Some (AIdent i)
  | TNumber _ => Some ANumber
  | TString _ => Some AString
  | TTextBlock _ => Some ATextBlock
  end.

(* ---------------------------------------------------------------- state monad *)

Record pst := { cur : token; rest : list token; exps : list expected; dcur : N; dmax : N }.

Definition P (A : Type) : Type := pst -> outcome (A * pst) parse_error.

Definition ret {A} (a : A) : P A := fun s => Ok (a, s).

Definition bindP {A B} (m : P A) (f : A -> P B) : P B := fun s =>
  match m s with
  | Ok (a, s') => f a s'
  | Err e => Err e
  | Panic site => Panic site
  | OutOfFuel => OutOfFuel
  end.

Notation "x <- m ;; k" := (bindP m (fun x => k))
  (at level 61, m at next level, right associativity).
Notation "' pat <- m ;; k" := (bindP m (fun x => match x with pat => k end))
  (at level 61, pat pattern, m at next level, right associativity).

Definition panic {A} (site : string) : P A := fun _ => Panic site.
Definition out_of_fuel {A} : P A := fun _ => OutOfFuel.

(* `if let Some(x) = m { f x } else { k }`; the else branch is a thunk so that
   the extracted (call-by-value) code does not evaluate it when the test succeeds *)
Definition orelse {A B} (m : P (option A)) (f : A -> P B) (k : unit -> P B) : P B := fun s =>
  match m s with
  | Ok (Some a, s') => f a s'
  | Ok (None, s') => k tt s'
  | Err e => Err e
  | Panic site => Panic site
  | OutOfFuel => OutOfFuel
  end.
Notation "'IFLET' x <== m 'THEN' a 'ELSE' b" := (orelse m (fun x => a) (fun _ : unit => b))
  (at level 61, x name, m at next level, a at level 61, right associativity).
Notation "'IFLET' ' pat <== m 'THEN' a 'ELSE' b" := (orelse m (fun x => match x with pat => a end) (fun _ : unit => b))
  (at level 61, pat pattern, m at next level, a at level 61, right associativity).

Definition with_exps (s : pst) (l : list expected) : pst :=
  {| cur := cur s; rest := rest s; exps := l; dcur := dcur s; dmax := dmax s |}.

(* a native (non-inlined) Rust function: one more frame while its body runs *)
Definition call {A} (m : P A) : P A := fun s =>
  let d := N.succ (dcur s) in
  match m {| cur := cur s; rest := rest s; exps := exps s; dcur := d; dmax := N.max (dmax s) d |} with
  | Ok (a, s') => Ok (a, {| cur := cur s'; rest := rest s'; exps := exps s'; dcur := dcur s; dmax := dmax s' |})
  | Err e => Err e
  | Panic site => Panic site
  | OutOfFuel => OutOfFuel
  end.

(* fn next_token: `self.rem_tokens.next().unwrap()`, expected_things.clear() *)
Definition next_token : P token := fun s =>
  match rest s with
  | [] => Panic "parser/mod.rs:next_token:rem_tokens.next().unwrap()"
  | t :: r => Ok (cur s, {| cur := t; rest := r; exps := []; dcur := dcur s; dmax := dmax s |})
  end.

Definition push_expected (x : expected) : P unit := fun s => Ok (tt, with_exps s (x :: exps s)).

(* fn report_expected *)
Definition report_expected {A} : P A := fun s =>
  match actual_of (tok_kind (cur s)) with
  | None => Panic "parser/error.rs:from_token_kind:unreachable"
  | Some a => Err {| pe_span := tok_span (cur s); pe_expected := to_set (exps s); pe_instead := a |}
  end.

Definition miss {A} (x : expected) (add : bool) : P (option A) := fun s =>
  Ok (None, if add then with_exps s (x :: exps s) else s).

(* fn eat_eof *)
Definition eat_eof (add : bool) : P bool := fun s =>
  match tok_kind (cur s) with
  | TEndOfFile =>
      match rest s with
      | [] => Ok (true, with_exps s [])
      | _ :: _ => Panic "parser/mod.rs:eat_eof:assert!(rem_tokens.is_empty())"
      end
  | _ => Ok (false, if add then with_exps s (XEndOfFile :: exps s) else s)
  end.

Definition is_simple (k : stoken) (t : token) : bool :=
  match tok_kind t with TSimple k' => stoken_eqb k' k | _ => false end.

(* fn eat_simple *)
Definition eat_simple (k : stoken) (add : bool) : P (option span) := fun s =>
  if is_simple k (cur s) then (t <- next_token ;; ret (Some (tok_span t))) s
  else miss (XSimple k) add s.

(* fn expect_simple *)
Definition expect_simple (k : stoken) (add : bool) : P span :=
  IFLET sp <== eat_simple k add THEN ret sp ELSE report_expected.

(* fn eat_ident *)
Definition eat_ident (add : bool) : P (option ident) := fun s =>
  match tok_kind (cur s) with
  | TIdent v => (t <- next_token ;; ret (Some {| id_value := v; id_span := tok_span t |})) s
  | _ => miss XIdent add s
  end.

(* fn expect_ident *)
Definition expect_ident (add : bool) : P ident :=
  IFLET i <== eat_ident add THEN ret i ELSE report_expected.

(* fn eat_number *)
Definition eat_number (add : bool) : P (option (number * span)) := fun s =>
  match tok_kind (cur s) with
  | TNumber n => (t <- next_token ;; ret (Some (n, tok_span t))) s
  | _ => miss XNumber add s
  end.

(* fn eat_string *)
Definition eat_string (add : bool) : P (option (str * span)) := fun s =>
  match tok_kind (cur s) with
  | TString x => (t <- next_token ;; ret (Some (x, tok_span t))) s
  | _ => miss XString add s
  end.

(* fn eat_text_block *)
Definition eat_text_block (add : bool) : P (option (str * span)) := fun s =>
  match tok_kind (cur s) with
  | TTextBlock x => (t <- next_token ;; ret (Some (x, tok_span t))) s
  | _ => miss XTextBlock add s
  end.

(* fn eat_visibility *)
Definition eat_visibility (add : bool) : P (option visibility) :=
  IFLET _ <== eat_simple SColon add THEN ret (Some VisDefault) ELSE
  IFLET _ <== eat_simple SColonColon add THEN ret (Some VisHidden) ELSE
  IFLET _ <== eat_simple SColonColonColon add THEN ret (Some VisForceVisible) ELSE
  ret None.

(* fn eat_plus_visibility *)
Definition eat_plus_visibility (add : bool) : P (option (bool * visibility)) :=
  IFLET _ <== eat_simple SColon add THEN ret (Some (false, VisDefault)) ELSE
  IFLET _ <== eat_simple SColonColon add THEN ret (Some (false, VisHidden)) ELSE
  IFLET _ <== eat_simple SColonColonColon add THEN ret (Some (false, VisForceVisible)) ELSE
  IFLET _ <== eat_simple SPlusColon add THEN ret (Some (true, VisDefault)) ELSE
  IFLET _ <== eat_simple SPlusColonColon add THEN ret (Some (true, VisHidden)) ELSE
  IFLET _ <== eat_simple SPlusColonColonColon add THEN ret (Some (true, VisForceVisible)) ELSE
  ret None.

(* fn peek_simple / peek_ident (i is 0 or 1 in the source) *)
Definition peek_tok (i : nat) (s : pst) : option token :=
  match i with O => Some (cur s) | S j => nth_error (rest s) j end.
Definition peek_simple (k : stoken) (i : nat) (s : pst) : bool :=
  match peek_tok i s with Some t => is_simple k t | None => false end.
Definition peek_ident (i : nat) (s : pst) : bool :=
  match peek_tok i s with
  | Some t => match tok_kind t with TIdent _ => true | _ => false end
  | None => false
  end.

(* span.rs: make_surrounding_span (single context) *)
Definition mk_span (a b : span) : P span := fun s =>
  if fst a <=? snd b then Ok ((fst a, snd b), s)
  else Panic "span.rs:make_surrounding_span:assert!(start_start_pos <= end_end_pos)".

Definition lift {A} (o : outcome A parse_error) : P A := fun s =>
  match o with
  | Ok a => Ok (a, s)
  | Err e => Err e
  | Panic site => Panic site
  | OutOfFuel => OutOfFuel
  end.

Definition is_some {A} (o : option A) : bool := match o with Some _ => true | None => false end.

(* ---------------------------------------------------------------- precedence table *)

(* enum BinOpKind (local to parse_expr) *)
Inductive binop_kind :=
| LvLogicOr | LvLogicAnd | LvBitwiseOr | LvBitwiseXor | LvBitwiseAnd
| LvEqCmp | LvOrdCmp | LvShift | LvAdd | LvMul.

Record prec_table := {
  pt_init : binop_kind;                                      (* init_state() = State::Binary(pt_init) *)
  pt_next : binop_kind -> option binop_kind;                 (* next_state; None = State::Unary *)
  pt_ops : binop_kind -> list (stoken * binary_op);          (* ordered eat_simple(_, false) attempts of State::BinaryRhs *)
  pt_unary : list (stoken * unary_op)                        (* ordered attempts of State::Unary *)
}.

(* The Jsonnet specification's table (loosest first); all levels left associative:
     ||  ;  &&  ;  |  ;  ^  ;  &  ;  == !=  ;  < <= > >= in  ;  << >>  ;  + -  ;  * / %  ;  unary + - ~ !  *)
Definition spec_prec : prec_table :=
  {| pt_init := LvLogicOr;
     pt_next := fun k => match k with
       | LvLogicOr => Some LvLogicAnd
       | LvLogicAnd => Some LvBitwiseOr
       | LvBitwiseOr => Some LvBitwiseXor
       | LvBitwiseXor => Some LvBitwiseAnd
       | LvBitwiseAnd => Some LvEqCmp
       | LvEqCmp => Some LvOrdCmp
       | LvOrdCmp => Some LvShift
       | LvShift => Some LvAdd
       | LvAdd => Some LvMul
       | LvMul => None
       end;
     pt_ops := fun k => match k with
       | LvLogicOr => [(SPipePipe, BLogicOr)]
       | LvLogicAnd => [(SAmpAmp, BLogicAnd)]
       | LvBitwiseOr => [(SPipe, BBitwiseOr)]
       | LvBitwiseXor => [(SHat, BBitwiseXor)]
       | LvBitwiseAnd => [(SAmp, BBitwiseAnd)]
       | LvEqCmp => [(SEqEq, BEq); (SExclamEq, BNe)]
       | LvOrdCmp => [(SLt, BLt); (SLtEq, BLe); (SGt, BGt); (SGtEq, BGe); (KIn, BIn)]
       | LvShift => [(SLtLt, BShl); (SGtGt, BShr)]
       | LvAdd => [(SPlus, BAdd); (SMinus, BSub)]
       | LvMul => [(SAsterisk, BMul); (SSlash, BDiv); (SPercent, BRem)]
       end;
     pt_unary := [(SPlus, UPlus); (SMinus, UMinus); (STilde, UBitwiseNot); (SExclam, ULogicNot)] |}.

(* ordered `if eat_simple(T, false).is_some() { Some(O) } else if … else { None }` *)
Fixpoint eat_first {O : Type} (l : list (stoken * O)) : P (option (stoken * O * span)) :=
  match l with
  | [] => ret None
  | (tk, op) :: r => IFLET sp <== eat_simple tk false THEN ret (Some (tk, op, sp)) ELSE eat_first r
  end.

(* ---------------------------------------------------------------- parse_expr's machine types *)

Inductive pstate :=
| StParsed (e : expr)
| StBinary (k : binop_kind)
| StBinaryRhs (k : binop_kind) (lhs : expr)
| StUnary
| StPrimary.

Inductive stack_item :=
| SiBinaryLhs (k : binop_kind)
| SiBinaryRhs (k : binop_kind) (lhs : expr) (op : binary_op)
| SiUnary (op : unary_op) (op_span : span)
| SiSuffix
| SiArrayItem0 (start : span)
| SiArrayItemN (start : span) (items : list expr)
| SiParen (start : span).

(* fn make_comp (inside parse_obj_inside) *)
Fixpoint make_comp_go (ms : list member) (l1 l2 : list bind) (fld : option (expr * bool * expr))
  : outcome (list bind * list bind * option (expr * bool * expr)) parse_error :=
  match ms with
  | [] => Ok (l1, l2, fld)
  | MLocal b :: r =>
      match fld with
      | None => make_comp_go r (l1 ++ [b]) l2 fld
      | Some _ => make_comp_go r l1 (l2 ++ [b]) fld
      end
  | MAssert _ :: _ => Panic "parser/expr.rs:make_comp:unreachable(assert member)"
  | MField (FValue (FnExpr name _) plus VisDefault body) :: r =>
      match fld with
      | None => make_comp_go r l1 l2 (Some (name, plus, body))
      | Some _ => Panic "parser/expr.rs:make_comp:assert!(field.is_none())"
      end
  | MField _ :: _ => Panic "parser/expr.rs:make_comp:unreachable(field)"
  end.

Definition make_comp (ms : list member) (specs : list comp_spec) : outcome obj_inside parse_error :=
  match make_comp_go ms [] [] None with
  | Ok (l1, l2, Some (name, plus, body)) => Ok (OComp l1 name plus body l2 specs)
  | Ok (_, _, None) => Panic "parser/expr.rs:make_comp:field.unwrap()"
  | Err e => Err e
  | Panic site => Panic site
  | OutOfFuel => OutOfFuel
  end.

(* ---------------------------------------------------------------- productions *)

Section Productions.
  Variable T : prec_table.
  Variable pexpr : P expr.      (* self.parse_expr() *)
  Variable lf : nat.            (* iteration budget of each inner loop *)

  Definition opt_expr (c : option span) : P (option expr) :=
    match c with Some _ => e <- pexpr ;; ret (Some e) | None => ret None end.

  (* fn parse_maybe_simple_expr *)
  Definition parse_maybe_simple_expr : P (option expr) := call (
    IFLET sp <== eat_simple KNull false THEN ret (Some (ENull sp)) ELSE
    IFLET sp <== eat_simple KFalse false THEN ret (Some (EBool sp false)) ELSE
    IFLET sp <== eat_simple KTrue false THEN ret (Some (EBool sp true)) ELSE
    IFLET sp <== eat_simple KSelf false THEN ret (Some (ESelf sp)) ELSE
    IFLET sp <== eat_simple SDollar false THEN ret (Some (EDollar sp)) ELSE
    IFLET '(x, sp) <== eat_string false THEN ret (Some (EString sp x)) ELSE
    IFLET '(x, sp) <== eat_text_block false THEN ret (Some (ETextBlock sp x)) ELSE
    IFLET '(n, sp) <== eat_number false THEN ret (Some (ENumber sp n)) ELSE
    IFLET i <== eat_ident false THEN ret (Some (EIdent (id_span i) i)) ELSE
    ret None).

  (* fn maybe_parse_assert *)
  Definition maybe_parse_assert (add : bool) : P (option (span * assert_)) := call (
    IFLET start <== eat_simple KAssert add THEN
      (cond <- pexpr ;;
       c <- eat_simple SColon true ;;
       msg <- opt_expr c ;;
       sp <- mk_span start (match msg with Some m => expr_span m | None => expr_span cond end) ;;
       ret (Some (start, MkAssert sp cond msg)))
    ELSE ret None).

  (* fn parse_params: the `loop` *)
  Fixpoint params_loop (fuel : nat) (acc : list param) : P (list param * span) :=
    match fuel with
    | O => out_of_fuel
    | S f =>
        name <- expect_ident true ;;
        c <- eat_simple SEq true ;;
        dv <- opt_expr c ;;
        let acc' := acc ++ [MkParam name dv] in
        IFLET e <== eat_simple SRightParen true THEN ret (acc', e) ELSE
        IFLET _ <== eat_simple SComma true THEN
          (IFLET e <== eat_simple SRightParen true THEN ret (acc', e) ELSE params_loop f acc')
        ELSE report_expected
    end.

  Definition parse_params : P (list param * span) := call (
    IFLET e <== eat_simple SRightParen true THEN ret ([], e) ELSE params_loop lf []).

  (* fn parse_arg *)
  Definition parse_arg : P arg := call (fun s =>
    if peek_ident 0 s && peek_simple SEq 1 s then
      (IFLET name <== eat_ident false THEN
         (IFLET _ <== eat_simple SEq false THEN (v <- pexpr ;; ret (ANamed name v))
          ELSE panic "parser/expr.rs:parse_arg:eat_simple(Eq).unwrap()")
       ELSE panic "parser/expr.rs:parse_arg:eat_ident.unwrap()") s
    else (v <- pexpr ;; ret (APositional v)) s).

  (* fn parse_args: the `loop` *)
  Fixpoint args_loop (fuel : nat) (acc : list arg) : P (list arg * span) :=
    match fuel with
    | O => out_of_fuel
    | S f =>
        a <- parse_arg ;;
        let acc' := acc ++ [a] in
        IFLET e <== eat_simple SRightParen true THEN ret (acc', e) ELSE
        IFLET _ <== eat_simple SComma true THEN
          (IFLET e <== eat_simple SRightParen true THEN ret (acc', e) ELSE args_loop f acc')
        ELSE report_expected
    end.

  Definition parse_args : P (list arg * span) := call (
    IFLET e <== eat_simple SRightParen true THEN ret ([], e) ELSE args_loop lf []).

  (* fn parse_bind *)
  Definition parse_bind : P bind := call (
    name <- expect_ident true ;;
    o <- eat_simple SLeftParen true ;;
    params <- match o with
              | Some ps => '(params, pe) <- parse_params ;; sp <- mk_span ps pe ;; ret (Some (params, sp))
              | None => ret None
              end ;;
    _ <- expect_simple SEq true ;;
    v <- pexpr ;;
    ret (MkBind name params v)).

  (* fn maybe_parse_obj_local *)
  Definition maybe_parse_obj_local : P (option bind) := call (
    IFLET _ <== eat_simple KLocal true THEN (b <- parse_bind ;; ret (Some b)) ELSE ret None).

  (* fn maybe_parse_for_spec / maybe_parse_if_spec *)
  Definition maybe_parse_for_spec : P (option comp_spec) := call (
    IFLET _ <== eat_simple KFor true THEN
      (v <- expect_ident true ;; _ <- expect_simple KIn true ;; inner <- pexpr ;; ret (Some (CFor v inner)))
    ELSE ret None).

  Definition maybe_parse_if_spec : P (option comp_spec) := call (
    IFLET _ <== eat_simple KIf true THEN (c <- pexpr ;; ret (Some (CIf c))) ELSE ret None).

  (* fn maybe_parse_comp_spec *)
  Fixpoint comp_spec_loop (fuel : nat) (acc : list comp_spec) : P (list comp_spec) :=
    match fuel with
    | O => out_of_fuel
    | S f =>
        IFLET fs <== maybe_parse_for_spec THEN comp_spec_loop f (acc ++ [fs]) ELSE
        IFLET ifs <== maybe_parse_if_spec THEN comp_spec_loop f (acc ++ [ifs]) ELSE
        ret acc
    end.

  Definition maybe_parse_comp_spec : P (option (list comp_spec)) := call (
    IFLET fs <== maybe_parse_for_spec THEN (l <- comp_spec_loop lf [fs] ;; ret (Some l)) ELSE ret None).

  (* fn maybe_parse_field_name *)
  Definition maybe_parse_field_name : P (option field_name) := call (
    IFLET i <== eat_ident true THEN ret (Some (FnIdent i)) ELSE
    IFLET '(x, sp) <== eat_string true THEN ret (Some (FnString x sp)) ELSE
    IFLET '(x, sp) <== eat_text_block true THEN ret (Some (FnString x sp)) ELSE
    IFLET start <== eat_simple SLeftBracket true THEN
      (e <- pexpr ;; en <- expect_simple SRightBracket true ;; sp <- mk_span start en ;; ret (Some (FnExpr e sp)))
    ELSE ret None).

  (* fn maybe_parse_field *)
  Definition maybe_parse_field : P (option field) := call (
    IFLET name <== maybe_parse_field_name THEN
      (IFLET ps <== eat_simple SLeftParen true THEN
         ('(params, pe) <- parse_params ;;
          IFLET vis <== eat_visibility true THEN
            (v <- pexpr ;; sp <- mk_span ps pe ;; ret (Some (FFunc name params sp vis v)))
          ELSE report_expected)
       ELSE
         IFLET '(plus, vis) <== eat_plus_visibility true THEN
           (v <- pexpr ;; ret (Some (FValue name plus vis v)))
         ELSE report_expected)
    ELSE ret None).

  (* fn parse_obj_inside: the `loop` *)
  Definition comp_tail (members : list member) : P (option (obj_inside * span)) :=
    IFLET cs <== maybe_parse_comp_spec THEN
      (e <- expect_simple SRightBrace true ;; oi <- lift (make_comp members cs) ;; ret (Some (oi, e)))
    ELSE ret None.

  Fixpoint obj_loop (fuel : nat) (members : list member) (can_be_comp has_dyn : bool)
    : P (obj_inside * span) :=
    match fuel with
    | O => out_of_fuel
    | S f =>
        '(members, can_be_comp, has_dyn) <- (
          IFLET l <== maybe_parse_obj_local THEN ret (members ++ [MLocal l], can_be_comp, has_dyn) ELSE
          IFLET fld <== maybe_parse_field THEN
            (match fld with
             | FValue (FnExpr _ _) _ VisDefault _ =>
                 if has_dyn then ret (members ++ [MField fld], false, has_dyn)
                 else ret (members ++ [MField fld], can_be_comp, true)
             | _ => ret (members ++ [MField fld], false, has_dyn)
             end) ELSE
          IFLET '(_, a) <== maybe_parse_assert true THEN ret (members ++ [MAssert a], false, has_dyn) ELSE
          report_expected) ;;
        IFLET e <== eat_simple SRightBrace true THEN ret (OMembers members, e) ELSE
        IFLET _ <== eat_simple SComma true THEN
          (IFLET e <== eat_simple SRightBrace true THEN ret (OMembers members, e) ELSE
           if can_be_comp && has_dyn then
             (IFLET r <== comp_tail members THEN ret r ELSE obj_loop f members can_be_comp has_dyn)
           else obj_loop f members can_be_comp has_dyn)
        ELSE
          if can_be_comp && has_dyn then
            (IFLET r <== comp_tail members THEN ret r ELSE report_expected)
          else report_expected
    end.

  Definition parse_obj_inside : P (obj_inside * span) := call (
    IFLET e <== eat_simple SRightBrace true THEN ret (OMembers [], e) ELSE obj_loop lf [] true false).

  (* fn parse_index_expr.  [idx3] and [after2] are the textually repeated blocks
       `if let Some(end) = eat(]) { end } else { index3 = Some(parse_expr()?); expect(])? }`
       `if let Some(end) = eat(]) { end } else if eat(:) { idx3 } else { return Err(report_expected()) }` *)
  Definition idx3 : P (option expr * span) :=
    IFLET e <== eat_simple SRightBracket true THEN ret (None, e) ELSE
    (i3 <- pexpr ;; e <- expect_simple SRightBracket true ;; ret (Some i3, e)).

  Definition after2 : P (option expr * span) :=
    IFLET e <== eat_simple SRightBracket true THEN ret (None, e) ELSE
    IFLET _ <== eat_simple SColon true THEN idx3 ELSE
    report_expected.

  Definition fin_slice (lhs : expr) (a b c : option expr) (e : span) : P expr :=
    sp <- mk_span (expr_span lhs) e ;; ret (ESlice sp lhs a b c).

  Definition parse_index_expr (lhs : expr) : P expr := call (
    IFLET _ <== eat_simple SColon true THEN
      (IFLET e <== eat_simple SRightBracket true THEN fin_slice lhs None None None e ELSE
       IFLET _ <== eat_simple SColon true THEN ('(i3, e) <- idx3 ;; fin_slice lhs None None i3 e) ELSE
       (i2 <- pexpr ;; '(i3, e) <- after2 ;; fin_slice lhs None (Some i2) i3 e))
    ELSE IFLET _ <== eat_simple SColonColon true THEN
      ('(i3, e) <- idx3 ;; fin_slice lhs None None i3 e)
    ELSE
      (i1 <- pexpr ;;
       IFLET e <== eat_simple SRightBracket true THEN
         (sp <- mk_span (expr_span lhs) e ;; ret (EIndex sp lhs i1)) ELSE
       IFLET _ <== eat_simple SColon true THEN
         (IFLET e <== eat_simple SRightBracket true THEN fin_slice lhs (Some i1) None None e ELSE
          IFLET _ <== eat_simple SColon true THEN ('(i3, e) <- idx3 ;; fin_slice lhs (Some i1) None i3 e) ELSE
          (i2 <- pexpr ;; '(i3, e) <- after2 ;; fin_slice lhs (Some i1) (Some i2) i3 e))
       ELSE IFLET _ <== eat_simple SColonColon true THEN
         ('(i3, e) <- idx3 ;; fin_slice lhs (Some i1) None i3 e)
       ELSE report_expected)).

  (* fn parse_suffix_expr: the `loop` *)
  Fixpoint suffix_loop (fuel : nat) (lhs : expr) : P expr :=
    match fuel with
    | O => out_of_fuel
    | S f =>
        IFLET _ <== eat_simple SDot true THEN
          (fn <- expect_ident true ;;
           sp <- mk_span (expr_span lhs) (id_span fn) ;;
           suffix_loop f (EField sp lhs fn)) ELSE
        IFLET _ <== eat_simple SLeftBracket true THEN
          (l <- parse_index_expr lhs ;; suffix_loop f l) ELSE
        IFLET _ <== eat_simple SLeftParen true THEN
          ('(args, e) <- (IFLET e <== eat_simple SRightParen true THEN ret ([], e) ELSE parse_args) ;;
           ts <- eat_simple KTailstrict true ;;
           sp <- mk_span (expr_span lhs) (match ts with Some t => t | None => e end) ;;
           suffix_loop f (ECall sp lhs args (is_some ts))) ELSE
        IFLET os <== eat_simple SLeftBrace true THEN
          ('(oi, oe) <- parse_obj_inside ;;
           sp <- mk_span (expr_span lhs) oe ;;
           osp <- mk_span os oe ;;
           suffix_loop f (EObjExt sp lhs oi osp)) ELSE
        ret lhs
    end.

  Definition parse_suffix_expr (primary : expr) : P expr := call (suffix_loop lf primary).

  (* `while self.eat_simple(Comma, true).is_some() { binds.push(self.parse_bind()?) }` *)
  Fixpoint binds_loop (fuel : nat) (acc : list bind) : P (list bind) :=
    match fuel with
    | O => out_of_fuel
    | S f =>
        IFLET _ <== eat_simple SComma true THEN (b <- parse_bind ;; binds_loop f (acc ++ [b])) ELSE ret acc
    end.

  Definition next_state (k : binop_kind) : pstate :=
    match pt_next T k with Some k' => StBinary k' | None => StUnary end.
  Definition init_state : pstate := StBinary (pt_init T).

  (* `import e`, `importstr e`, `importbin e`, `error e` *)
  Definition prefix_form (start : span) (mk : span -> expr -> expr) : P expr :=
    x <- pexpr ;; sp <- mk_span start (expr_span x) ;; ret (mk sp x).

  (* fn parse_expr: the `loop { match state { … } }` *)
  Fixpoint pe_loop (fuel : nat) (st : pstate) (stk : list stack_item) : P expr :=
    match fuel with
    | O => out_of_fuel
    | S f =>
      match st with
      | StParsed e =>
          match stk with
          | [] => ret e
          | SiBinaryLhs k :: stk' => pe_loop f (StBinaryRhs k e) stk'
          | SiBinaryRhs k lhs op :: stk' =>
              sp <- mk_span (expr_span lhs) (expr_span e) ;;
              pe_loop f (StBinaryRhs k (EBinary sp lhs op e)) stk'
          | SiUnary op op_span :: stk' =>
              sp <- mk_span op_span (expr_span e) ;;
              pe_loop f (StParsed (EUnary sp op e)) stk'
          | SiSuffix :: stk' =>
              e' <- parse_suffix_expr e ;; pe_loop f (StParsed e') stk'
          | SiArrayItem0 start :: stk' =>
              c <- eat_simple SComma true ;;
              IFLET cs <== maybe_parse_comp_spec THEN
                (en <- expect_simple SRightBracket true ;;
                 sp <- mk_span start en ;;
                 pe_loop f (StParsed (EArrayComp sp e cs)) stk') ELSE
              IFLET en <== eat_simple SRightBracket true THEN
                (sp <- mk_span start en ;; pe_loop f (StParsed (EArray sp [e])) stk') ELSE
              if is_some c then pe_loop f init_state (SiArrayItemN start [e] :: stk')
              else report_expected
          | SiArrayItemN start items :: stk' =>
              let items := items ++ [e] in
              c <- eat_simple SComma true ;;
              IFLET en <== eat_simple SRightBracket true THEN
                (sp <- mk_span start en ;; pe_loop f (StParsed (EArray sp items)) stk') ELSE
              if is_some c then pe_loop f init_state (SiArrayItemN start items :: stk')
              else report_expected
          | SiParen start :: stk' =>
              en <- expect_simple SRightParen true ;;
              sp <- mk_span start en ;;
              pe_loop f (StParsed (EParen sp e)) stk'
          end
      | StBinary k => pe_loop f (next_state k) (SiBinaryLhs k :: stk)
      | StBinaryRhs k lhs =>
          o <- eat_first (pt_ops T k) ;;
          match o with
          | Some (tk, op, _) =>
              if stoken_eqb tk KIn then
                (fun s =>
                   if peek_simple KSuper 0 s && negb (peek_simple SDot 1 s) && negb (peek_simple SLeftBracket 1 s)
                   then (IFLET ss <== eat_simple KSuper true THEN
                           (sp <- mk_span (expr_span lhs) ss ;;
                            pe_loop f (StBinaryRhs k (EInSuper sp lhs ss)) stk)
                         ELSE panic "parser/expr.rs:parse_expr:eat_simple(Super).unwrap()") s
                   else pe_loop f (next_state k) (SiBinaryRhs k lhs op :: stk) s)
              else pe_loop f (next_state k) (SiBinaryRhs k lhs op :: stk)
          | None =>
              _ <- push_expected XBinaryOp ;; pe_loop f (StParsed lhs) stk
          end
      | StUnary =>
          o <- eat_first (pt_unary T) ;;
          match o with
          | Some (_, op, op_span) => pe_loop f StUnary (SiUnary op op_span :: stk)
          | None => pe_loop f StPrimary (SiSuffix :: stk)
          end
      | StPrimary =>
          IFLET e <== parse_maybe_simple_expr THEN pe_loop f (StParsed e) stk ELSE
          IFLET start <== eat_simple SLeftBrace false THEN
            ('(oi, en) <- parse_obj_inside ;;
             sp <- mk_span start en ;;
             pe_loop f (StParsed (EObject sp oi)) stk) ELSE
          IFLET start <== eat_simple SLeftBracket false THEN
            (IFLET en <== eat_simple SRightBracket true THEN
               (sp <- mk_span start en ;; pe_loop f (StParsed (EArray sp [])) stk)
             ELSE pe_loop f init_state (SiArrayItem0 start :: stk)) ELSE
          IFLET ss <== eat_simple KSuper false THEN
            (IFLET _ <== eat_simple SDot true THEN
               (fn <- expect_ident true ;;
                sp <- mk_span ss (id_span fn) ;;
                pe_loop f (StParsed (ESuperField sp ss fn)) stk) ELSE
             IFLET _ <== eat_simple SLeftBracket true THEN
               (ie <- pexpr ;;
                en <- expect_simple SRightBracket true ;;
                sp <- mk_span ss en ;;
                pe_loop f (StParsed (ESuperIndex sp ss ie)) stk) ELSE
             report_expected) ELSE
          IFLET start <== eat_simple KLocal false THEN
            (b0 <- parse_bind ;;
             binds <- binds_loop lf [b0] ;;
             _ <- expect_simple SSemicolon true ;;
             inner <- pexpr ;;
             sp <- mk_span start (expr_span inner) ;;
             pe_loop f (StParsed (ELocal sp binds inner)) stk) ELSE
          IFLET if_span <== eat_simple KIf false THEN
            (cond <- pexpr ;;
             _ <- expect_simple KThen true ;;
             th <- pexpr ;;
             c <- eat_simple KElse true ;;
             el <- opt_expr c ;;
             sp <- mk_span if_span (match el with Some x => expr_span x | None => expr_span th end) ;;
             pe_loop f (StParsed (EIf sp cond th el)) stk) ELSE
          IFLET start <== eat_simple KFunction false THEN
            (_ <- expect_simple SLeftParen true ;;
             '(params, _) <- parse_params ;;
             body <- pexpr ;;
             sp <- mk_span start (expr_span body) ;;
             pe_loop f (StParsed (EFunc sp params body)) stk) ELSE
          IFLET '(start, a) <== maybe_parse_assert false THEN
            (_ <- expect_simple SSemicolon true ;;
             inner <- pexpr ;;
             sp <- mk_span start (expr_span inner) ;;
             pe_loop f (StParsed (EAssert sp a inner)) stk) ELSE
          IFLET start <== eat_simple KImport false THEN
            (x <- prefix_form start EImport ;; pe_loop f (StParsed x) stk) ELSE
          IFLET start <== eat_simple KImportstr false THEN
            (x <- prefix_form start EImportStr ;; pe_loop f (StParsed x) stk) ELSE
          IFLET start <== eat_simple KImportbin false THEN
            (x <- prefix_form start EImportBin ;; pe_loop f (StParsed x) stk) ELSE
          IFLET start <== eat_simple KError false THEN
            (x <- prefix_form start EError ;; pe_loop f (StParsed x) stk) ELSE
          IFLET start <== eat_simple SLeftParen false THEN
            pe_loop f init_state (SiParen start :: stk) ELSE
          (_ <- push_expected XExpr ;; report_expected)
      end
    end.
End Productions.

(* fn parse_expr *)
Fixpoint parse_expr (T : prec_table) (fuel : nat) (s : pst) {struct fuel}
  : outcome (expr * pst) parse_error :=
  match fuel with
  | O => OutOfFuel
  | S f => call (pe_loop T (parse_expr T f) f f (init_state T) []) s
  end.

(* fn parse_root_expr *)
Definition parse_root_expr (T : prec_table) (fuel : nat) : P expr :=
  e <- parse_expr T fuel ;;
  b <- eat_eof true ;;
  if b then ret e else report_expected.

Definition init_pst (t : token) (r : list token) : pst :=
  {| cur := t; rest := r; exps := []; dcur := 0; dmax := 0 |}.

(* Parser::new + parse_root_expr; the result carries the native recursion depth *)
Definition parse_fuel (T : prec_table) (fuel : nat) (toks : list token) : outcome (expr * N) parse_error :=
  match toks with
  | [] => Panic "parser/mod.rs:new:passed an empty token slice"
  | t :: r =>
      match parse_root_expr T fuel (init_pst t r) with
      | Ok (e, s) => Ok (e, dmax s)
      | Err e => Err e
      | Panic site => Panic site
      | OutOfFuel => OutOfFuel
      end
  end.

Definition default_fuel (mult : nat) (toks : list token) : nat := mult * (List.length toks + 2).

Definition parse (T : prec_table) (toks : list token) : outcome (expr * N) parse_error :=
  parse_fuel T (default_fuel 64 toks) toks.
