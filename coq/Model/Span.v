(* Model/Span.v — executable model of rsjsonnet-lang/src/span.rs (SpanManager).

   u64/usize values are [N]; every Rust assert / unwrap / index / checked
   arithmetic site is a [Panic] outcome.  The three packing constants are NOT
   written here: they are parameters of the model, instantiated in
   Gen/SpanConsts.v from the constants found in the current source
   (tools/translate_span.py), so a changed constant changes the theorem's
   subject. *)
From RJ Require Import Base.Outcome.
From Coq Require Import Lia.
Local Open Scope N_scope.
Local Open Scope outcome_scope.

(* ---- packing parameters (SpanId::OFFSET_BITS etc.) ---- *)
Record span_consts := {
  offset_bits : N;        (* const OFFSET_BITS: u32 *)
  offset_mask : N;        (* const OFFSET_MASK: u64 *)
  len_max : N;            (* const LEN_MAX: u64 *)
}.

Definition u64_max : N := 2 ^ 64 - 1.
Definition bit63 : N := 2 ^ 63.

Definition span_triple := (N * N * N)%type.  (* (context id, start, end) *)

Record mgr := {
  contexts : list N;                 (* cumulative end offsets, Vec<(u64, _)> *)
  idx_to_span : list span_triple;    (* the span interner (hash map = inverse of this vector) *)
}.

Definition empty_mgr : mgr := {| contexts := []; idx_to_span := [] |}.

Definition perr := unit.   (* this component has no structured errors *)
Notation res A := (outcome A perr).

(* fn insert_context(&mut self, len) -> SpanContextId *)
Definition insert_context (m : mgr) (len : N) : res (mgr * N) :=
  let base := last (contexts m) 0 in
  let e := base + len + 1 in
  if u64_max <? e then Panic "span.rs:insert_context:u64 add overflow"
  else Ok ({| contexts := contexts m ++ [e]; idx_to_span := idx_to_span m |},
           N.of_nat (length (contexts m))).

(* list indexing by an [N] that never builds a huge unary number *)
Definition nthN {A} (l : list A) (i : N) : option A :=
  if N.of_nat (length l) <=? i then None else nth_error l (N.to_nat i).

(* fn get_context_offsets(&self, context) -> (u64, u64) *)
Definition gco_raw (m : mgr) (ctx : N) : res (N * N) :=
  let i := N.to_nat ctx in
  match nth_error (contexts m) i with
  | None => Panic "span.rs:get_context_offsets:index out of bounds"
  | Some hi =>
      match i with
      | O => Ok (0, hi)
      | S j => match nth_error (contexts m) j with
               | Some lo => Ok (lo, hi)
               | None => Panic "span.rs:get_context_offsets:index out of bounds"
               end
      end
  end.

Definition get_context_offsets (m : mgr) (ctx : N) : res (N * N) :=
  if N.of_nat (length (contexts m)) <=? ctx
  then Panic "span.rs:get_context_offsets:index out of bounds"
  else gco_raw m ctx.

(* fn get_context_from_offset(&self, offset) -> SpanContextId.
   [binary_search_by_key] on strictly increasing keys: Ok(i) -> i+1, Err(i) -> i,
   i.e. the number of contexts whose end offset is <= offset.  We model both
   the specification (count) and the halving search and prove them equal on
   sorted vectors (Proofs/Span_proofs.v). *)
Definition count_le (offset : N) (l : list N) : N :=
  N.of_nat (length (filter (fun e => e <=? offset) l)).

Fixpoint bsearch (fuel : nat) (l : list N) (key : N) (lo hi : nat) : nat :=
  (* invariant: everything before lo is <= key... returns insertion point
     after any equal element *)
  match fuel with
  | O => lo
  | S f =>
      if Nat.leb hi lo then lo
      else
        let mid := Nat.div2 (lo + hi) in
        match nth_error l mid with
        | None => lo
        | Some e => if e <=? key then bsearch f l key (S mid) hi
                    else bsearch f l key lo mid
        end
  end.

Definition get_context_from_offset (m : mgr) (offset : N) : N :=
  N.of_nat (bsearch (S (length (contexts m))) (contexts m) offset 0 (length (contexts m))).

Fixpoint find_index {A} (eqb : A -> A -> bool) (x : A) (l : list A) (i : nat) : option nat :=
  match l with
  | [] => None
  | y :: r => if eqb x y then Some i else find_index eqb x r (S i)
  end.

Definition triple_eqb (a b : span_triple) : bool :=
  let '(a1, a2, a3) := a in let '(b1, b2, b3) := b in
  (a1 =? b1) && (a2 =? b2) && (a3 =? b3).

(* pub fn intern_span(&mut self, context, start, end) -> SpanId *)
Definition intern_span (C : span_consts) (m : mgr) (ctx start end_ : N) : res (mgr * N) :=
  do offs <- get_context_offsets m ctx;
  let '(min_offset, max_offset) := offs in
  if negb (start <=? end_) then Panic "span.rs:intern_span:assert start<=end"
  else
    let start_offset := min_offset + start in
    let end_offset := min_offset + end_ in
    if (u64_max <? start_offset) || (u64_max <? end_offset)
    then Panic "span.rs:intern_span:u64 add overflow"
    else if negb (start_offset <? max_offset) then Panic "span.rs:intern_span:assert start_offset<max"
    else if negb (end_offset <? max_offset) then Panic "span.rs:intern_span:assert end_offset<max"
    else
      let len := end_ - start in
      if (len_max C <? len) || (offset_mask C <=? start_offset) then
        let span := (ctx, start, end_) in
        match find_index triple_eqb span (idx_to_span m) 0 with
        | Some i => Ok (m, N.lor (N.of_nat i) bit63)
        | None =>
            let i := length (idx_to_span m) in
            Ok ({| contexts := contexts m; idx_to_span := idx_to_span m ++ [span] |},
                N.lor (N.of_nat i) bit63)
        end
      else
        let id := N.lor (start_offset + 1) (N.shiftl len (offset_bits C)) in
        if id =? 0 then Panic "span.rs:intern_span:NonZeroU64::new(0)"
        else Ok (m, id).

(* pub fn get_span(&self, span) -> (SpanContextId, usize, usize) *)
Definition get_span (C : span_consts) (m : mgr) (id : N) : res span_triple :=
  if N.land id bit63 =? 0 then
    let masked := N.land id (offset_mask C) in
    if masked =? 0 then Panic "span.rs:expand:u64 sub overflow"
    else
      let offset := masked - 1 in
      let len := N.shiftr id (offset_bits C) in
      let ctx := get_context_from_offset m offset in
      do offs <- get_context_offsets m ctx;
      let '(min_offset, _) := offs in
      if offset <? min_offset then Panic "span.rs:get_span:u64 sub overflow"
      else
        let start := offset - min_offset in
        Ok (ctx, start, start + len)
  else
    let i := N.ldiff id bit63 in
    match nthN (idx_to_span m) i with
    | Some t => Ok t
    | None => Panic "span.rs:get_span:index out of bounds"
    end.

(* pub(crate) fn make_surrounding_span(&mut self, start_span, end_span) *)
Definition make_surrounding_span (C : span_consts) (m : mgr) (a b : N) : res (mgr * N) :=
  do ta <- get_span C m a;
  do tb <- get_span C m b;
  let '(ca, sa, _) := ta in
  let '(cb, _, eb) := tb in
  if negb (ca =? cb) then Panic "span.rs:make_surrounding_span:assert_eq ctx"
  else if negb (sa <=? eb) then Panic "span.rs:make_surrounding_span:assert start<=end"
  else intern_span C m ca sa eb.

(* ---- operation sequences (the history the property quantifies over) ---- *)
Inductive op :=
| OpCtx (len : N)                 (* insert_source_context(len) *)
| OpSpan (ctx start end_ : N)     (* intern_span + immediate get_span *)
| OpSurround (i j : N)            (* make_surrounding_span of the i-th and j-th ids handed out so far *)
| OpGet (i : N).                  (* get_span of the i-th id handed out so far *)

Inductive obs :=
| ObsCtx (id : N)
| ObsSpan (id : N) (t : span_triple)
| ObsTriple (t : span_triple)
| ObsPanic
| ObsSkip.

Record st := { st_mgr : mgr; st_ids : list N }.
Definition init_st : st := {| st_mgr := empty_mgr; st_ids := [] |}.

Definition nth_id (s : st) (i : N) : option N := nthN (st_ids s) i.

Definition step (C : span_consts) (s : st) (o : op) : st * obs :=
  match o with
  | OpCtx len =>
      match insert_context (st_mgr s) len with
      | Ok (m', id) => ({| st_mgr := m'; st_ids := st_ids s |}, ObsCtx id)
      | _ => (s, ObsPanic)
      end
  | OpSpan ctx a b =>
      match intern_span C (st_mgr s) ctx a b with
      | Ok (m', id) =>
          match get_span C m' id with
          | Ok t => ({| st_mgr := m'; st_ids := st_ids s ++ [id] |}, ObsSpan id t)
          | _ => ({| st_mgr := m'; st_ids := st_ids s ++ [id] |}, ObsPanic)
          end
      | _ => (s, ObsPanic)
      end
  | OpSurround i j =>
      match nth_id s i, nth_id s j with
      | Some a, Some b =>
          match make_surrounding_span C (st_mgr s) a b with
          | Ok (m', id) =>
              match get_span C m' id with
              | Ok t => ({| st_mgr := m'; st_ids := st_ids s ++ [id] |}, ObsSpan id t)
              | _ => ({| st_mgr := m'; st_ids := st_ids s ++ [id] |}, ObsPanic)
              end
          | _ => (s, ObsPanic)
          end
      | _, _ => (s, ObsSkip)
      end
  | OpGet i =>
      match nth_id s i with
      | Some a =>
          match get_span C (st_mgr s) a with
          | Ok t => (s, ObsTriple t)
          | _ => (s, ObsPanic)
          end
      | None => (s, ObsSkip)
      end
  end.

Fixpoint run (C : span_consts) (s : st) (ops : list op) : list obs :=
  match ops with
  | [] => []
  | o :: r => let '(s', ob) := step C s o in ob :: run C s' r
  end.

(* ---- stack-trace cropping (rsjsonnet-front/src/session.rs: print_stack_trace) ----
   returns None when the whole stack is printed, otherwise
   (first_len, hidden, second_len): the slices stack[len-first_len..] and
   stack[..second_len] are rendered around the "... N items hidden ..." note. *)
Definition crop (stack_len max_trace : N) : option (N * N * N) :=
  if stack_len <=? max_trace then None
  else
    let second_len := max_trace / 2 in
    let first_len := max_trace - second_len in
    Some (first_len, stack_len - max_trace, second_len).
