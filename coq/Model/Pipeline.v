(* Model/Pipeline.v — the whole pipeline from source bytes:

       Program::load_source(input, with_stdlib = true)      Model/Front.v   (lexer -> parser -> analyzer)
       Program::eval_value + manifest_json                  Model/RefEval.v [run] on the parsed tree
                                                            (RefCore.desugar + the C02 reference interpreter)

   The model never sees implementation tokens or syntax trees: the tree handed to the
   evaluator is the one the model parser built from the model lexer's tokens of the
   same bytes.  The front decides the lex / parse / static verdict (exactly
   [Front.load_model]'s, theorem pipeline_front_verdict); a program it accepts is
   evaluated by [RefEval.run] with the given fuel, stack limit and deviation
   switches.  Nothing is re-modelled here.  No proofs. *)
From RJ Require Import Base.Outcome Base.F64 Model.Token Model.Ast Model.Ir Model.Lexer Model.Parser
  Model.Analyze Model.Front Model.RefCore Model.RefValue Model.RefEval.

(* fuel of the interpreter + its configuration (stack limit, the two deviation switches) *)
Record config := { p_fuel : nat; p_cfg : RefEval.cfg }.

(* a diagnosed failure: of the front end (LoadError) or of evaluation / manifestation (EvalError) *)
Inductive error :=
| PFront (e : front_error)
| PEval (e : RefValue.err).

Definition trace := list str.   (* std.trace messages, in order *)

Definition eval_model (bytes : list N) (c : config) : trace * outcome json error :=
  match front_parse bytes with
  | Ok (_, e) =>
      match front_analyze e with
      | Ok _ => let (t, r) := RefEval.run (p_fuel c) (p_cfg c) e in (t, inj_err PEval r)
      | Err x => ([], Err (PFront x))
      | Panic site => ([], Panic site)
      | OutOfFuel => ([], OutOfFuel)
      end
  | Err x => ([], Err (PFront x))
  | Panic site => ([], Panic site)
  | OutOfFuel => ([], OutOfFuel)
  end.
