(* Model/Ir.v — mirror of rsjsonnet-lang/src/program/ir.rs (the lowered
   expression language the analyzer produces and the evaluator consumes).

   Differences that are representation only:
   - [&'p Expr] references are plain sub-terms, slices are lists,
     [InternedStr] is the string it interns ([Token.str], code points);
   - [Number(f64, SpanId)] keeps the literal as the analyzer received it
     ([Token.number] = decimal digits and exponent): the conversion
     [format!("{digits}e{exp}").parse::<f64>()] is Rust's [FromStr], which is
     the subject of C06, not of this component.  Whether that conversion can
     fail (the [unwrap] in analyze.rs) is modelled in Model/Analyze.v. *)
From RJ Require Import Base.Outcome Model.Token Model.Ast.

Inductive ir :=
| INull
| IBool (b : bool)
| INumber (n : number) (sp : span)
| IString (s : str)
| IObject (is_top : bool) (locals : list (str * ir)) (asserts : list ir_assert)
          (fields : list ir_field)
| IObjectComp (is_top : bool) (locals : list (str * ir)) (field_name : ir)
              (field_name_span : span) (field_plus : bool) (field_value : ir)
              (comp_spec : list ir_spec)
| IArray (items : list ir)
| IArrayComp (value : ir) (comp_spec : list ir_spec)
| IField (object : ir) (field_name : str) (expr_span : span)
| IIndex (object : ir) (index : ir) (expr_span : span)
| ISlice (array : ir) (start_index end_index step : option ir) (expr_span : span)
| ISuperField (super_span : span) (field_name : str) (expr_span : span)
| ISuperIndex (super_span : span) (index : ir) (expr_span : span)
| ICall (callee : ir) (positional_args : list ir) (named_args : list (str * span * ir))
        (tailstrict : bool) (sp : span)
| IVar (name : str) (sp : span)
| ISelfObj
| ITopObj
| ILocal (bindings : list (str * ir)) (inner : ir)
| IIf (cond : ir) (cond_span : span) (then_body : ir) (else_body : option ir)
| IBinary (op : binary_op) (lhs rhs : ir) (sp : span)
| IUnary (op : unary_op) (rhs : ir) (sp : span)
| IInSuper (lhs : ir) (sp : span)
| IIdentityFunc
| IFunc (params : list (str * option ir)) (body : ir)
| IError (msg : ir) (sp : span)
| IAssert (a : ir_assert) (inner : ir)
| IImport (path : str) (sp : span)
| IImportStr (path : str) (sp : span)
| IImportBin (path : str) (sp : span)
| IOtherError (msg : str)

with ir_assert :=
| MkIrAssert (sp : span) (cond : ir) (cond_span : span) (msg : option ir)

with ir_field :=
| MkIrField (name : ir_fname) (name_span : span) (plus : bool) (vis : visibility) (value : ir)

with ir_fname :=
| IFix (s : str)
| IDyn (e : ir)

with ir_spec :=
| ISFor (var : str) (value : ir) (value_span : span)
| ISIf (cond : ir) (cond_span : span).

Definition irf_name_span (f : ir_field) : span :=
  match f with MkIrField _ sp _ _ _ => sp end.
