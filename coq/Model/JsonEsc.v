(* Model/JsonEsc.v — hand model of the string escaper of
   rsjsonnet-lang/src/program/eval/manifest.rs:

     pub(super) fn escape_string_json(s: &str, result: &mut String) {
         result.push(''');
         for chr in s.chars() { match chr { ...arms... } }
         result.push(''');
     }
     pub(super) fn escape_string_python(s, result) { escape_string_json(s, result); }
     fn escape_string_toml(s, result)              { escape_string_json(s, result); }
     fn is_safe_toml_plain(s) / fn escape_key_toml(s) / fn is_safe_yaml_plain(s)

   Strings are lists of code points.  The [match] arms exist twice: as the
   hand-written [escape_char] below and as the table that
   tools/translate_escape.py regenerates from the current source into
   Gen/EscTable.v (interpreted by [table_escape]); the theorem
   [esc_table_matches_model] (Proofs/JsonEsc_proofs.v) says they agree on every
   code point.  No proofs here. *)
From RJ Require Import Base.Outcome Model.Token.
Local Open Scope N_scope.

(* ---- write!(result, '\\u{:04x}', chr as u32) ---- *)
Definition hex_digit_lower (d : N) : N := if d <? 10 then 48 + d else 87 + d.

(* most significant digit first, no padding ({:x}); fuel = bit length *)
Fixpoint hex_digits_fuel (fuel : nat) (c : N) (acc : str) : str :=
  match fuel with
  | O => acc
  | S f =>
      let acc' := hex_digit_lower (c mod 16) :: acc in
      if c / 16 =? 0 then acc' else hex_digits_fuel f (c / 16) acc'
  end.
Definition hex_digits (c : N) : str := hex_digits_fuel (S (N.to_nat (N.size c))) c [].

(* {:04x}: minimum width 4, zero padded, never truncated *)
Definition fmt_04x (c : N) : str :=
  let ds := hex_digits c in repeat 48 (4 - length ds) ++ ds.

Definition u_escape (c : N) : str := 92 :: 117 :: fmt_04x c.        (* \uXXXX *)

(* ---- the match arms, by hand (same order as the source) ---- *)
Definition escape_char (c : N) : str :=
  if c =? 8 then [92; 98]                 (* '\u{8}' => '\\b'  *)
  else if c =? 9 then [92; 116]           (* '\t'    => '\\t'  *)
  else if c =? 10 then [92; 110]          (* '\n'    => '\\n'  *)
  else if c =? 12 then [92; 102]          (* '\u{c}' => '\\f'  *)
  else if c =? 13 then [92; 114]          (* '\r'    => '\\r'  *)
  else if c =? 34 then [92; 34]           (* '''     => '\\\'' *)
  else if c =? 92 then [92; 92]           (* '\\'    => '\\\\' *)
  else if ((0 <=? c) && (c <=? 31)) || ((127 <=? c) && (c <=? 159))
       then u_escape c                    (* '\u{0}'..='\u{1F}' | '\u{7F}'..='\u{9F}' *)
  else [c].                               (* _ => result.push(chr) *)

Definition escape_body (s : str) : str := flat_map escape_char s.

Definition escape_string_json (s : str) : str := 34 :: escape_body s ++ [34].
Definition escape_string_python (s : str) : str := escape_string_json s.
Definition escape_string_toml (s : str) : str := escape_string_json s.

(* ---- the translated form of the same match (Gen/EscTable.v) ---- *)
Inductive esc_action :=
| EPushStr (s : str)      (* result.push_str('...') *)
| EUnicode4               (* write!(result, '\\u{:04x}', chr as u32).unwrap() *)
| EPushChr.               (* result.push(chr) *)

Definition esc_arm := (list (N * N) * esc_action)%type.   (* alternatives lo..=hi, action *)

Definition run_action (a : esc_action) (c : N) : str :=
  match a with
  | EPushStr s => s
  | EUnicode4 => u_escape c
  | EPushChr => [c]
  end.

Definition in_ranges (c : N) (rs : list (N * N)) : bool :=
  existsb (fun r => (fst r <=? c) && (c <=? snd r)) rs.

(* first matching arm wins, as in a Rust match *)
Fixpoint table_escape (arms : list esc_arm) (dflt : esc_action) (c : N) : str :=
  match arms with
  | [] => run_action dflt c
  | (rs, a) :: rest => if in_ranges c rs then run_action a c else table_escape rest dflt c
  end.

(* ---- TOML keys ---- *)
Definition is_ascii_alnum (c : N) : bool :=
  ((48 <=? c) && (c <=? 57)) || ((65 <=? c) && (c <=? 90)) || ((97 <=? c) && (c <=? 122)).

(* s.bytes().all(|b| b.is_ascii_alphanumeric() || b == b'_' || b == b'-'): every byte of
   the UTF-8 form of a code point >= 0x80 is >= 0x80 and fails the test, so the test on
   bytes is the same test on code points; the extra bytes come from the translated table *)
Definition toml_plain_char (extra : list N) (c : N) : bool :=
  is_ascii_alnum c || existsb (N.eqb c) extra.

Definition is_safe_toml_plain_gen (extra : list N) (s : str) : bool :=
  negb (match s with [] => true | _ => false end) && forallb (toml_plain_char extra) s.

Definition is_safe_toml_plain (s : str) : bool := is_safe_toml_plain_gen [95; 45] s.

Definition escape_key_toml (s : str) : str :=
  if is_safe_toml_plain s then s else escape_string_toml s.

(* ---- YAML keys (fn is_safe_yaml_plain) ---- *)
Definition yaml_plain_char (c : N) : bool :=
  is_ascii_alnum c || (c =? 47) || (c =? 95) || (c =? 45) || (c =? 46).   (* / _ - . *)

Definition ascii_lower (c : N) : N := if (65 <=? c) && (c <=? 90) then c + 32 else c.
Definition eq_ignore_ascii_case (a b : str) : bool := str_eqb (map ascii_lower a) (map ascii_lower b).

Definition countb (p : N -> bool) (s : str) : N := N.of_nat (length (filter p s)).
Definition is_digit (c : N) : bool := (48 <=? c) && (c <=? 57).
Definition is_hexdig (c : N) : bool :=
  is_digit c || ((97 <=? c) && (c <=? 102)) || ((65 <=? c) && (c <=? 70)).

Fixpoint starts_with (p s : str) : bool :=
  match p, s with
  | [], _ => true
  | a :: p', b :: s' => (a =? b) && starts_with p' s'
  | _, [] => false
  end.

(* 'null' 'true' 'y' 'yes' 'on' 'false' 'n' 'no' 'off' '.nan' '.inf' '+.inf' '-.inf' *)
Definition yaml_special : list str :=
  [ [110;117;108;108]; [116;114;117;101]; [121]; [121;101;115]; [111;110];
    [102;97;108;115;101]; [110]; [110;111]; [111;102;102]; [46;110;97;110]; [46;105;110;102];
    [43;46;105;110;102]; [45;46;105;110;102] ].

Definition is_safe_yaml_plain_gen (special : list str) (s : str) : bool :=
  let dash c := c =? 45 in
  if match s with [] => true | _ => false end then false
  else if str_eqb s [45] || str_eqb s [45;45;45] then false
  else if negb (forallb yaml_plain_char s) then false
  else if existsb (eq_ignore_ascii_case s) special then false
  else if forallb (fun c => is_digit c || dash c) s && (countb dash s =? 2) then false
  else if forallb (fun c => is_digit c || (c =? 95) || dash c) s && (countb dash s <=? 1) then false
  else if (starts_with [48;98] s || starts_with [45;48;98] s)
          && forallb (fun c => is_digit c || (c =? 98) || (c =? 66) || (c =? 95) || dash c) s
          && (countb dash s <=? 1) then false
  else if (starts_with [48;120] s || starts_with [45;48;120] s)
          && forallb (fun c => is_hexdig c || (c =? 120) || (c =? 88) || (c =? 95) || dash c) s
          && (countb dash s <=? 1) then false
  else if forallb (fun c => is_digit c || (c =? 101) || (c =? 69) || (c =? 95) || dash c || (c =? 46)) s
          && (countb (fun c => c =? 46) s =? 1)
          && (countb dash s <=? 2)
          && (countb (fun c => (c =? 101) || (c =? 69)) s <=? 1) then false
  else true.

Definition is_safe_yaml_plain (s : str) : bool := is_safe_yaml_plain_gen yaml_special s.
