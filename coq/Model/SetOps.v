(* Model/SetOps.v — std.uniq, std.set, std.setInter/setUnion/setDiff,
   std.setMember, std.minArray/maxArray as coded in
   rsjsonnet-lang/src/program/eval/stdlib.rs (the do_std_uniq.., do_std_set..,
   do_std_set_uniq.., do_std_set_inter/union/diff and _aux, do_std_set_member..,
   do_std_min_array.., do_std_max_array.. functions).  All of them are Rust builtins (none
   is written in the embedded std.libsonnet).

   Kept from the code:
     - uniq/set return the array itself for length <= 1 (keyF never called);
     - uniq compares, with EqualsValue (==), the key of each item with the key
       of the item just before it in the INPUT (not the last kept one), keys
       are evaluated once each, left to right;
     - set evaluates all keys, sorts the index vector exactly as std.sort
       does, then keeps sorted[0] and every sorted[i] whose key differs (==)
       from that of sorted[i-1];
     - setInter/setUnion/setDiff are two-index walks that re-evaluate
       keyF(a[i]) then keyF(b[j]) on every step and compare with
       CompareValue (a's key on the left), with the early exits for empty
       inputs (which never call keyF);
     - setMember: false on an empty array without evaluating keyF(x);
       otherwise binary search on the inclusive range [start, end], mid =
       start + (end - start)/2, comparing keyF(x) (left) with keyF(arr[mid]);
     - minArray/maxArray: onEmpty for [], the item itself for one item (no
       keyF), otherwise a left-to-right scan that replaces the current best
       only when CompareValue(best, current) is Greater (min) / Less (max).
   usize subtractions that would wrap and out-of-range indexing are Panic
   sites.  No proofs here (Proofs/SetOps_proofs.v). *)
From RJ Require Import Base.Outcome Model.Sort.
Local Open Scope outcome_scope.

Section SetOps.
  Variables (A K E : Type).
  Variable keyf : A -> outcome K E.
  Variable cmp : K -> K -> outcome comparison E.
  Variable eqv : K -> K -> outcome bool E.

  (* ---------------- std.uniq ---------------- *)
  (* StdUniqCompareItem / StdUniqDupValue / EqualsValue / StdUniqCheckItem:
     value stack holds the previous item's key *)
  Fixpoint uniq_loop (kprev : K) (items : list A) : outcome (list A) E :=
    match items with
    | [] => Ok []
    | it :: more =>
        do k <- keyf it;
        do e <- eqv kprev k;
        do r <- uniq_loop k more;
        Ok (if e then r else it :: r)
    end.

  Definition std_uniq (arr : list A) : outcome (list A) E :=
    match arr with
    | [] | [_] => Ok arr
    | a0 :: rest => do k0 <- keyf a0; do r <- uniq_loop k0 rest; Ok (a0 :: r)
    end.

  (* ---------------- std.set ---------------- *)
  Definition set_key_at (keys : list K) (i : nat) : outcome K E :=
    match nth_error keys i with
    | Some k => Ok k
    | None => Panic "stdlib.rs:do_std_set_uniq_compare_item:keys[sorted[i]].get().unwrap()"
    end.

  (* StdSetUniqCompareItem / CheckItem for index = 1 .. len-1 of [sorted] *)
  Fixpoint set_uniq_loop (keys : list K) (prev : nat) (rest : list nat) : outcome (list nat) E :=
    match rest with
    | [] => Ok []
    | i :: more =>
        do kp <- set_key_at keys prev;
        do ki <- set_key_at keys i;
        do e <- eqv kp ki;
        do r <- set_uniq_loop keys i more;
        Ok (if e then r else i :: r)
    end.

  Definition set_uniq (keys : list K) (sorted : list nat) : outcome (list nat) E :=
    match sorted with
    | [] => Panic "stdlib.rs:do_std_set_uniq:sorted[0]"
    | i0 :: rest => do r <- set_uniq_loop keys i0 rest; Ok (i0 :: r)
    end.

  (* indices (into arr) of the result of std.set, in output order *)
  Definition std_set_idx (arr : list A) : outcome (list nat) E :=
    if length arr <=? 1 then Ok (seq 0 (length arr))
    else do keys <- mapM keyf arr;
         do p <- sort_idx cmp keys;
         set_uniq keys p.

  Definition set_elem_at (arr : list A) (i : nat) : outcome A E :=
    match nth_error arr i with
    | Some a => Ok a
    | None => Panic "stdlib.rs:do_std_set_uniq_check_item:orig_array[sorted[i]]"
    end.

  Definition std_set (arr : list A) : outcome (list A) E :=
    if length arr <=? 1 then Ok arr
    else do keys <- mapM keyf arr;
         do p <- sort_idx cmp keys;
         do u <- set_uniq keys p;
         mapM (set_elem_at arr) u.

  (* ---------------- two-index walks ---------------- *)
  (* keyF(a[i]) is evaluated before keyF(b[j]); CompareValue(lhs = a's key) *)
  Definition cmp_ab (x y : A) : outcome comparison E :=
    do kx <- keyf x; do ky <- keyf y; cmp kx ky.

  Fixpoint inter_walk (a : list A) : list A -> outcome (list A) E :=
    fix walk_b (b : list A) : outcome (list A) E :=
      match a, b with
      | [], _ => Ok []
      | _, [] => Ok []
      | x :: a', y :: b' =>
          do c <- cmp_ab x y;
          match c with
          | Lt => inter_walk a' b
          | Eq => do r <- inter_walk a' b'; Ok (x :: r)
          | Gt => walk_b b'
          end
      end.

  Definition std_set_inter (a b : list A) : outcome (list A) E :=
    match a, b with
    | [], _ => Ok []
    | _, [] => Ok []
    | _, _ => inter_walk a b
    end.

  Fixpoint union_walk (a : list A) : list A -> outcome (list A) E :=
    fix walk_b (b : list A) : outcome (list A) E :=
      match a, b with
      | [], _ => Ok b
      | _, [] => Ok a
      | x :: a', y :: b' =>
          do c <- cmp_ab x y;
          match c with
          | Lt => do r <- union_walk a' b; Ok (x :: r)
          | Eq => do r <- union_walk a' b'; Ok (x :: r)
          | Gt => do r <- walk_b b'; Ok (y :: r)
          end
      end.

  Definition std_set_union (a b : list A) : outcome (list A) E :=
    match a, b with
    | [], _ => Ok b
    | _, [] => Ok a
    | _, _ => union_walk a b
    end.

  Fixpoint diff_walk (a : list A) : list A -> outcome (list A) E :=
    fix walk_b (b : list A) : outcome (list A) E :=
      match a, b with
      | [], _ => Ok []
      | _, [] => Ok a
      | x :: a', y :: b' =>
          do c <- cmp_ab x y;
          match c with
          | Lt => do r <- diff_walk a' b; Ok (x :: r)
          | Eq => diff_walk a' b'
          | Gt => walk_b b'
          end
      end.

  Definition std_set_diff (a b : list A) : outcome (list A) E :=
    match a, b with
    | [], _ => Ok a
    | _, [] => Ok a
    | _, _ => diff_walk a b
    end.

  (* ---------------- std.setMember ---------------- *)
  (* StdSetMemberSlice / StdSetMemberCheck on the inclusive range [lo, hi] *)
  Fixpoint member_slice (fuel : nat) (kx : K) (arr : list A) (lo hi : nat) : outcome bool E :=
    match fuel with
    | O => OutOfFuel
    | S f =>
        if hi <? lo then Panic "stdlib.rs:do_std_set_member_slice:end - start underflows"
        else
          let mid := lo + Nat.div (hi - lo) 2 in
          match nth_error arr mid with
          | None => Panic "stdlib.rs:do_std_set_member_slice:arr[mid]"
          | Some am =>
              do km <- keyf am;
              do c <- cmp kx km;
              match c with
              | Eq => Ok true
              | Lt => if mid =? lo then Ok false else member_slice f kx arr lo (mid - 1)
              | Gt => if mid =? hi then Ok false else member_slice f kx arr (mid + 1) hi
              end
          end
    end.

  Definition std_set_member (x : A) (arr : list A) : outcome bool E :=
    match arr with
    | [] => Ok false
    | _ => do kx <- keyf x; member_slice (S (length arr)) kx arr 0 (length arr - 1)
    end.

  (* ---------------- std.minArray / std.maxArray ---------------- *)
  (* StdMinArrayCompareItem / CheckItem: [take c] says when the current item
     replaces the best one.  Returns the index of the chosen item; None =
     empty array (the onEmpty thunk is evaluated instead). *)
  Fixpoint scan_loop (take : comparison -> bool) (best : nat) (kbest : K) (cur : nat)
           (items : list A) : outcome nat E :=
    match items with
    | [] => Ok best
    | it :: more =>
        do k <- keyf it;
        do c <- cmp kbest k;
        if take c then scan_loop take cur k (S cur) more
        else scan_loop take best kbest (S cur) more
    end.

  Definition scan_array (take : comparison -> bool) (arr : list A) : outcome (option nat) E :=
    match arr with
    | [] => Ok None
    | [_] => Ok (Some 0)
    | a0 :: rest => do k0 <- keyf a0; do m <- scan_loop take 0 k0 1 rest; Ok (Some m)
    end.

  Definition std_min_array_idx := scan_array is_gt.
  Definition std_max_array_idx := scan_array is_lt.
End SetOps.

Arguments uniq_loop {A K E} keyf eqv kprev items.
Arguments std_uniq {A K E} keyf eqv arr.
Arguments set_uniq_loop {K E} eqv keys prev rest.
Arguments set_uniq {K E} eqv keys sorted.
Arguments std_set_idx {A K E} keyf cmp eqv arr.
Arguments std_set {A K E} keyf cmp eqv arr.
Arguments cmp_ab {A K E} keyf cmp x y.
Arguments inter_walk {A K E} keyf cmp a b.
Arguments union_walk {A K E} keyf cmp a b.
Arguments diff_walk {A K E} keyf cmp a b.
Arguments std_set_inter {A K E} keyf cmp a b.
Arguments std_set_union {A K E} keyf cmp a b.
Arguments std_set_diff {A K E} keyf cmp a b.
Arguments member_slice {A K E} keyf cmp fuel kx arr lo hi.
Arguments std_set_member {A K E} keyf cmp x arr.
Arguments scan_loop {A K E} keyf cmp take best kbest cur items.
Arguments scan_array {A K E} keyf cmp take arr.
Arguments std_min_array_idx {A K E} keyf cmp arr.
Arguments std_max_array_idx {A K E} keyf cmp arr.

(* ------------------------------------------------------------------ *)
(* driver entry points on the wire instance of Model/Sort.v.  Elements are
   their own indices; for two-array functions the elements of [a] are
   0..na-1 and those of [b] are na..na+nb-1 in one key script. *)
Definition run_uniq (kouts : list (outcome wkey werr)) : outcome (list nat) werr :=
  std_uniq (wkeyf kouts) weqv (seq 0 (length kouts)).

Definition run_set (kouts : list (outcome wkey werr)) : outcome (list nat) werr :=
  std_set (wkeyf kouts) wcmp weqv (seq 0 (length kouts)).

Definition run_uniq_sort (kouts : list (outcome wkey werr)) : outcome (list nat) werr :=
  do s <- std_sort (wkeyf kouts) wcmp (seq 0 (length kouts)); std_uniq (wkeyf kouts) weqv s.

Definition run_inter (na : nat) (kouts : list (outcome wkey werr)) : outcome (list nat) werr :=
  std_set_inter (wkeyf kouts) wcmp (seq 0 na) (seq na (length kouts - na)).
Definition run_union (na : nat) (kouts : list (outcome wkey werr)) : outcome (list nat) werr :=
  std_set_union (wkeyf kouts) wcmp (seq 0 na) (seq na (length kouts - na)).
Definition run_diff (na : nat) (kouts : list (outcome wkey werr)) : outcome (list nat) werr :=
  std_set_diff (wkeyf kouts) wcmp (seq 0 na) (seq na (length kouts - na)).

(* element 0 is x, elements 1.. are the array *)
Definition run_member (kouts : list (outcome wkey werr)) : outcome bool werr :=
  std_set_member (wkeyf kouts) wcmp 0 (seq 1 (length kouts - 1)).

Definition run_min (kouts : list (outcome wkey werr)) : outcome (option nat) werr :=
  std_min_array_idx (wkeyf kouts) wcmp (seq 0 (length kouts)).
Definition run_max (kouts : list (outcome wkey werr)) : outcome (option nat) werr :=
  std_max_array_idx (wkeyf kouts) wcmp (seq 0 (length kouts)).
