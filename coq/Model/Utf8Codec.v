(* Model/Utf8Codec.v — executable model of std.encodeUTF8 / std.decodeUTF8:
   stdlib.rs [do_std_encode_utf8] (the bytes of the Rust string = UTF-8 of its
   scalar values) and [do_std_decode_utf8_*] ([String::from_utf8_lossy], i.e.
   core::str::lossy::Utf8Chunks: every maximal invalid prefix of a well-formed
   sequence — or a single byte that cannot start one — becomes one U+FFFD).

   [from_utf8_lossy] belongs to Rust's std (modelled, not verified); the model
   follows the state machine of core/src/str/lossy.rs. *)
From RJ Require Import Base.Outcome.
Local Open Scope N_scope.

Definition str := list N.

Definition is_scalar (c : N) : bool := (c <? 55296) || ((57344 <=? c) && (c <? 1114112)).

(* char::encode_utf8 *)
Definition encode_char (c : N) : list N :=
  if c <? 128 then [c]
  else if c <? 2048 then [192 + c / 64; 128 + c mod 64]
  else if c <? 65536 then [224 + c / 4096; 128 + (c / 64) mod 64; 128 + c mod 64]
  else [240 + c / 262144; 128 + (c / 4096) mod 64; 128 + (c / 64) mod 64; 128 + c mod 64].

Fixpoint encode_utf8 (s : str) : list N :=
  match s with
  | [] => []
  | c :: r => encode_char c ++ encode_utf8 r
  end.

Definition is_cont (b : N) : bool := (128 <=? b) && (b <? 192).
Definition in_range (lo hi b : N) : bool := (lo <=? b) && (b <=? hi).

Definition repl : N := 65533.  (* U+FFFD *)

(* second byte admissible after a 3-byte lead *)
Definition ok2_of3 (b0 b1 : N) : bool :=
  if b0 =? 224 then in_range 160 191 b1
  else if in_range 225 236 b0 then in_range 128 191 b1
  else if b0 =? 237 then in_range 128 159 b1
  else (* 0xEE..0xEF *) in_range 128 191 b1.

(* second byte admissible after a 4-byte lead *)
Definition ok2_of4 (b0 b1 : N) : bool :=
  if b0 =? 240 then in_range 144 191 b1
  else if in_range 241 243 b0 then in_range 128 191 b1
  else (* 0xF4 *) in_range 128 143 b1.

(* String::from_utf8_lossy *)
Fixpoint decode_lossy (bs : list N) : str :=
  match bs with
  | [] => []
  | b0 :: r0 =>
      if b0 <? 128 then b0 :: decode_lossy r0
      else if in_range 194 223 b0 then                       (* width 2 *)
        match r0 with
        | b1 :: r1 =>
            if is_cont b1 then ((b0 - 192) * 64 + (b1 - 128)) :: decode_lossy r1
            else repl :: decode_lossy r0
        | [] => [repl]
        end
      else if in_range 224 239 b0 then                       (* width 3 *)
        match r0 with
        | b1 :: r1 =>
            if ok2_of3 b0 b1 then
              match r1 with
              | b2 :: r2 =>
                  if is_cont b2
                  then ((b0 - 224) * 4096 + (b1 - 128) * 64 + (b2 - 128)) :: decode_lossy r2
                  else repl :: decode_lossy r1
              | [] => [repl]
              end
            else repl :: decode_lossy r0
        | [] => [repl]
        end
      else if in_range 240 244 b0 then                       (* width 4 *)
        match r0 with
        | b1 :: r1 =>
            if ok2_of4 b0 b1 then
              match r1 with
              | b2 :: r2 =>
                  if is_cont b2 then
                    match r2 with
                    | b3 :: r3 =>
                        if is_cont b3
                        then ((b0 - 240) * 262144 + (b1 - 128) * 4096 + (b2 - 128) * 64 + (b3 - 128))
                             :: decode_lossy r3
                        else repl :: decode_lossy r2
                    | [] => [repl]
                    end
                  else repl :: decode_lossy r1
              | [] => [repl]
              end
            else repl :: decode_lossy r0
        | [] => [repl]
        end
      else repl :: decode_lossy r0                           (* width 0: 0x80..0xC1, 0xF5..0xFF *)
  end.

(* strict decoding (Some only for well-formed UTF-8), the reference for the
   "lossy" theorem *)
Fixpoint decode_strict (bs : list N) : option str :=
  match bs with
  | [] => Some []
  | b0 :: r0 =>
      if b0 <? 128 then option_map (cons b0) (decode_strict r0)
      else if in_range 194 223 b0 then
        match r0 with
        | b1 :: r1 => if is_cont b1
                      then option_map (cons ((b0 - 192) * 64 + (b1 - 128))) (decode_strict r1)
                      else None
        | [] => None
        end
      else if in_range 224 239 b0 then
        match r0 with
        | b1 :: b2 :: r2 =>
            if ok2_of3 b0 b1 && is_cont b2
            then option_map (cons ((b0 - 224) * 4096 + (b1 - 128) * 64 + (b2 - 128))) (decode_strict r2)
            else None
        | _ => None
        end
      else if in_range 240 244 b0 then
        match r0 with
        | b1 :: b2 :: b3 :: r3 =>
            if ok2_of4 b0 b1 && is_cont b2 && is_cont b3
            then option_map (cons ((b0 - 240) * 262144 + (b1 - 128) * 4096 + (b2 - 128) * 64 + (b3 - 128)))
                            (decode_strict r3)
            else None
        | _ => None
        end
      else None
  end.
