(* Model/RefEval.v — C02 reference semantics, part 3: the fuel-indexed,
   environment-passing, call-by-name interpreter of the core language.

   Shape: one open-recursive step function [step : task -> depth -> M answer]
   written in a small monad [M] (reader of the configuration and of the
   recursive knot, writer of std.trace messages, outcome); [run_task] ties the
   knot by recursion on fuel.  Every recursive use goes through [call], so the
   fuel bounds the nesting depth of the interpretation.  [depth] counts the
   evaluation frames against the stack limit ([enter]); a frame is counted at
   least wherever the Rust evaluator pushes a trace item.

   Two switches select documented deviations of the implementation, so that a
   disagreement can be attributed precisely:
     c_bfs      comprehension specs evaluated level by level (as eval/mod.rs does)
                instead of the specification's nested (depth-first) order;
     c_ts_tail  `tailstrict` honoured only for calls in tail position of a
                function body (as analyze.rs does) instead of on every call.
   The specification is (c_bfs, c_ts_tail) = (false, false).  No proofs here. *)
From RJ Require Import Base.Outcome Base.F64 Model.Token Model.Ast Model.RefCore Model.RefValue.
From Coq Require Import Floats.SpecFloat.
Local Open Scope N_scope.

Record cfg := { c_limit : N; c_bfs : bool; c_ts_tail : bool }.

Inductive task :=
| TEval (e : env) (x : cexpr)
| TForce (t : thunk)
| TApply (f : value) (pos : list thunk) (named : list (str * thunk)) (force : bool)
| TField (ls : list layer) (from : N) (name : str)
| TEquals (a b : value)
| TCompare (a b : value)
| TManifest (strict : bool) (v : value).

Inductive answer := AVal (v : value) | ABool (b : bool) | ACmp (c : comparison) | AJson (j : json).

Definition res (A : Type) := (list str * outcome A err)%type.
Definition recfn := task -> N -> res answer.
Definition M (A : Type) := cfg -> recfn -> res A.

Definition ret {A} (a : A) : M A := fun _ _ => ([], Ok a).
Definition lift {A} (o : outcome A err) : M A := fun _ _ => ([], o).
Definition fail {A} (e : err) : M A := lift (Err e).
Definition kind {A} (s : string) : M A := fail (EKind s).
Definition bind {A B} (m : M A) (k : A -> M B) : M B := fun c r =>
  match m c r with
  | (t, Ok a) => match k a c r with (t2, o) => (t ++ t2, o) end
  | (t, Err e) => (t, Err e)
  | (t, Panic s) => (t, Panic s)
  | (t, OutOfFuel) => (t, OutOfFuel)
  end.
Definition emit (s : str) : M unit := fun _ _ => ([s], Ok tt).
Definition ask_bfs : M bool := fun c _ => ([], Ok (c_bfs c)).
Definition ask_ts_tail : M bool := fun c _ => ([], Ok (c_ts_tail c)).
Definition call (t : task) (d : N) : M answer := fun _ r => r t d.
Definition enter (d : N) : M N := fun c _ =>
  if c_limit c <? d + 1 then ([], Err EStackOverflow) else ([], Ok (d + 1)).

Notation "'let*' x ':=' m 'in' k" := (bind m (fun x => k))
  (at level 200, x pattern, m at level 100, k at level 200, right associativity).

Definition unsupported {A} (s : string) : M A := fail (EUnsupported (s_of s)).

(* typed views of the recursive knot *)
Definition as_val (a : answer) : M value := match a with AVal v => ret v | _ => lift (Panic "RefEval:answer:value") end.
Definition as_bool (a : answer) : M bool := match a with ABool v => ret v | _ => lift (Panic "RefEval:answer:bool") end.
Definition as_cmp (a : answer) : M comparison := match a with ACmp v => ret v | _ => lift (Panic "RefEval:answer:cmp") end.
Definition as_json (a : answer) : M json := match a with AJson v => ret v | _ => lift (Panic "RefEval:answer:json") end.

Definition eval (e : env) (x : cexpr) (d : N) : M value := let* a := call (TEval e x) d in as_val a.
Definition forceT (t : thunk) (d : N) : M value := let* a := call (TForce t) d in as_val a.
Definition apply (f : value) (pos : list thunk) (named : list (str * thunk)) (force : bool) (d : N) : M value :=
  let* a := call (TApply f pos named force) d in as_val a.
Definition applyf (f : value) (pos : list thunk) (d : N) : M value := apply f pos [] false d.
Definition field_at (ls : list layer) (from : N) (name : str) (d : N) : M value :=
  let* a := call (TField ls from name) d in as_val a.
Definition equals (a b : value) (d : N) : M bool := let* r := call (TEquals a b) d in as_bool r.
Definition compare (a b : value) (d : N) : M comparison := let* r := call (TCompare a b) d in as_cmp r.
Definition manifest (strict : bool) (v : value) (d : N) : M json := let* r := call (TManifest strict v) d in as_json r.

(* list iteration inside M *)
Fixpoint mapM {A B} (f : A -> M B) (l : list A) : M (list B) :=
  match l with
  | [] => ret []
  | x :: r => let* y := f x in let* ys := mapM f r in ret (y :: ys)
  end.

Fixpoint iterM {A} (f : A -> M unit) (l : list A) : M unit :=
  match l with
  | [] => ret tt
  | x :: r => let* _ := f x in iterM f r
  end.

Definition render_m (j : json) : M str :=
  match render j with Some s => ret s | None => unsupported "number or control character to text" end.

(* CoerceToString: strings as they are, anything else in the toString JSON format *)
Definition to_string (v : value) (d : N) : M str :=
  match v with
  | VStr s => ret s
  | _ => let* j := manifest true v d in render_m j
  end.

(* ---- operators ---- *)
Definition un_op (op : unary_op) (v : value) : M value :=
  match op, v with
  | UMinus, VNum f => ret (VNum (f_neg f))
  | UPlus, VNum f => ret (VNum f)
  | UBitwiseNot, VNum f =>
      match safe_int f with
      | Some z => ret (VNum (f_of_Z (Z.lnot z)))
      | None => kind "NumberNotBitwiseSafe"
      end
  | ULogicNot, VBool b => ret (VBool (negb b))
  | _, _ => kind "InvalidUnaryOpType"
  end.

Definition int2 (a b : f64) (k : Z -> Z -> M value) : M value :=
  match safe_int a with
  | None => kind "NumberNotBitwiseSafe"
  | Some x => match safe_int b with
              | None => kind "NumberNotBitwiseSafe"
              | Some y => k x y
              end
  end.

Definition num_bin (op : binary_op) (a b : f64) : M value :=
  match op with
  | BAdd => lift (check_num (f_add a b))
  | BSub => lift (check_num (f_sub a b))
  | BMul => lift (check_num (f_mul a b))
  | BDiv => if f_is_zero b then kind "DivByZero" else lift (check_num (f_div a b))
  | BRem => if f_is_zero b then kind "DivByZero" else lift (check_num (f_rem a b))
  | BShl =>
      match safe_int a with
      | None => kind "NumberNotBitwiseSafe"
      | Some x =>
          if f_sign b then kind "ShiftByNegative"
          else match safe_int b with
               | None => kind "NumberNotBitwiseSafe"
               | Some y =>
                   let sh := Z.land y 63 in
                   let r := wrap64 (Z.shiftl x sh) in
                   if (Z.shiftr r sh =? x)%Z then ret (VNum (f_of_Z r)) else kind "NumberNotBitwiseSafe"
               end
      end
  | BShr =>
      match safe_int a with
      | None => kind "NumberNotBitwiseSafe"
      | Some x =>
          if f_sign b then kind "ShiftByNegative"
          else match safe_int b with
               | None => kind "NumberNotBitwiseSafe"
               | Some y => ret (VNum (f_of_Z (Z.shiftr x (Z.land y 63))))
               end
      end
  | BBitwiseAnd => int2 a b (fun x y => ret (VNum (f_of_Z (Z.land x y))))
  | BBitwiseOr => int2 a b (fun x y => ret (VNum (f_of_Z (Z.lor x y))))
  | BBitwiseXor => int2 a b (fun x y => ret (VNum (f_of_Z (Z.lxor x y))))
  | _ => kind "InvalidBinaryOpTypes"
  end.

Definition add_vals (l r : value) (d : N) : M value :=
  match l, r with
  | VStr a, VStr b => ret (VStr (a ++ b))
  | VArr a, VArr b => ret (VArr (a ++ b))
  | VObj a _, VObj b _ => ret (VObj (b ++ a) false)
  | VStr a, x => let* d' := enter d in let* s := to_string x d' in ret (VStr (a ++ s))
  | x, VStr b => let* d' := enter d in let* s := to_string x d' in ret (VStr (s ++ b))
  | _, _ => kind "InvalidBinaryOpTypes"
  end.

(* operators other than the short-circuit and comparison ones, on evaluated operands *)
Definition bin_op (op : binary_op) (l r : value) (d : N) : M value :=
  match l, r with
  | VNum a, VNum b => num_bin op a b
  | _, _ =>
      match op with
      | BAdd => add_vals l r d
      | BRem => match l with
                | VStr _ => unsupported "std.format"
                | _ => kind "InvalidBinaryOpTypes"
                end
      | BIn => match l, r with
               | VStr s, VObj ls _ => ret (VBool (has_field ls 0 s))
               | _, _ => kind "InvalidBinaryOpTypes"
               end
      | _ => kind "InvalidBinaryOpTypes"
      end
  end.

Definition cmp_to_bool (op : binary_op) (c : comparison) : bool :=
  match op, c with
  | BLt, Lt => true
  | BLe, Lt | BLe, Eq => true
  | BGt, Gt => true
  | BGe, Gt | BGe, Eq => true
  | _, _ => false
  end.

(* ---- asserts and fields of objects ---- *)
Definition run_assert (en : env) (a : cexpr * option cexpr) (d : N) : M unit :=
  let* v := eval en (fst a) d in
  match v with
  | VBool true => ret tt
  | VBool false =>
      match snd a with
      | None => fail (EAssertFailed None)
      | Some m => let* mv := eval en m d in let* s := to_string mv d in fail (EAssertFailed (Some s))
      end
  | _ => kind "CondIsNotBool"
  end.

Fixpoint run_layer_asserts (ls rest : list layer) (i d : N) : M unit :=
  match rest with
  | [] => ret tt
  | l :: r =>
      let* _ := iterM (fun a => run_assert (layer_env ls i l (l_env l)) a d) (l_asserts l) in
      run_layer_asserts ls r (i + 1) d
  end.

(* check_object_asserts: most derived layer first, each layer's asserts in order *)
Definition run_asserts (ls : list layer) (checked : bool) (d : N) : M unit :=
  if checked then ret tt else run_layer_asserts ls ls 0 d.

Definition missing_field {A} (ls : list layer) (name : str) : M A :=
  if has_std ls then fail (EUnsupported name) else kind "UnknownObjectField".

(* e.f / e[f] on an object: existence, then the object's asserts, then the field *)
Definition get_field (ls : list layer) (checked : bool) (name : str) (d : N) : M value :=
  if has_field ls 0 name then
    let* d' := enter d in
    let* _ := run_asserts ls checked d' in
    field_at ls 0 name d'
  else missing_field ls name.

(* the field [name] as seen from layer [from] upwards (self.f: from = 0; super.f: from = idx+1) *)
Definition do_field (ls : list layer) (from : N) (name : str) (d : N) : M value :=
  match find_field ls from name with
  | None => missing_field ls name
  | Some (i, f) =>
      match nthN ls i with
      | None => lift (Panic "RefEval:do_field:layer")
      | Some l =>
          let en := field_env ls i l f in
          if f_plus f && has_field ls (i + 1) name then
            let* d' := enter d in
            let* sv := field_at ls (i + 1) name d' in
            let* v := eval en (f_body f) d in
            bin_op BAdd sv v d
          else eval en (f_body f) d
      end
  end.

Definition with_super (en : env) (k : list layer -> N -> M value) : M value :=
  match lookup_obj en with
  | None => fail (EStatic "SuperOutsideObject")
  | Some (ls, i, _) => k ls i
  end.

Definition super_field (en : env) (name : str) (d : N) : M value :=
  with_super en (fun ls i =>
    if i + 1 =? lenN ls then kind "SuperWithoutSuperObject"
    else if has_field ls (i + 1) name then
      let* d' := enter d in field_at ls (i + 1) name d'
    else missing_field ls name).

(* ---- object construction ---- *)
Definition field_name_of (v : value) : M (option str) :=
  match v with
  | VStr s => ret (Some s)
  | VNull => ret None
  | _ => kind "FieldNameIsNotString"
  end.

Definition add_field (acc : list (str * field)) (on : option str) (f : field) : M (list (str * field)) :=
  match on with
  | None => ret acc
  | Some s => match assoc s acc with
              | Some _ => kind "RepeatedFieldName"
              | None => ret (acc ++ [(s, f)])
              end
  end.

Fixpoint build_fields (en : env) (fs : list cfield) (acc : list (str * field)) (d : N) : M (list (str * field)) :=
  match fs with
  | [] => ret acc
  | CFld nm plus vis body :: r =>
      let* on := match nm with
                 | CFix s => ret (Some s)
                 | CDyn e => let* v := eval en e d in field_name_of v
                 end in
      let* acc' := add_field acc on (MkField vis plus body None) in
      build_fields en r acc' d
  end.

(* ---- comprehensions ---- *)
Definition vars := list (str * thunk).

Fixpoint expand_for (x : str) (vs : list vars) (vals : list value) : M (list vars) :=
  match vs, vals with
  | v :: vr, VArr items :: valr =>
      let* rest := expand_for x vr valr in
      ret (map (fun it => (x, it) :: v) items ++ rest)
  | _ :: _, _ :: _ => kind "ForSpecValueIsNotArray"
  | _, _ => ret []
  end.

(* the type check of every value happens before the expansion (GotForSpec walks the
   values in order and stops at the first non-array) *)
Fixpoint first_non_array (vals : list value) : bool :=
  match vals with
  | [] => false
  | VArr _ :: r => first_non_array r
  | _ :: _ => true
  end.

Fixpoint filter_if (vs : list vars) (vals : list value) : M (list vars) :=
  match vs, vals with
  | v :: vr, VBool b :: valr =>
      let* rest := filter_if vr valr in
      ret (if b then v :: rest else rest)
  | _ :: _, _ :: _ => kind "CondIsNotBool"
  | _, _ => ret []
  end.

Fixpoint first_non_bool (vals : list value) : bool :=
  match vals with
  | [] => false
  | VBool _ :: r => first_non_bool r
  | _ :: _ => true
  end.

(* implementation order: one spec at a time over all current bindings *)
Fixpoint comp_bfs (en : env) (specs : list cspec) (vs : list vars) (d : N) : M (list vars) :=
  match specs with
  | [] => ret vs
  | CSFor x e :: r =>
      let* vals := mapM (fun v => eval (FVars v [] :: en) e d) vs in
      if first_non_array vals then kind "ForSpecValueIsNotArray"
      else let* vs' := expand_for x vs vals in comp_bfs en r vs' d
  | CSIf c :: r =>
      let* vals := mapM (fun v => eval (FVars v [] :: en) c d) vs in
      if first_non_bool vals then kind "CondIsNotBool"
      else let* vs' := filter_if vs vals in comp_bfs en r vs' d
  end.

(* specification order: [e for x in a <rest>] = flatMap (function(x) [e <rest>]) a *)
Fixpoint comp_dfs (en : env) (specs : list cspec) (v : vars) (d : N) : M (list vars) :=
  match specs with
  | [] => ret [v]
  | CSFor x e :: r =>
      let* a := eval (FVars v [] :: en) e d in
      match a with
      | VArr items =>
          let* ll := mapM (fun it => comp_dfs en r ((x, it) :: v) d) items in
          ret (concat ll)
      | _ => kind "ForSpecValueIsNotArray"
      end
  | CSIf c :: r =>
      let* b := eval (FVars v [] :: en) c d in
      match b with
      | VBool true => comp_dfs en r v d
      | VBool false => ret []
      | _ => kind "CondIsNotBool"
      end
  end.

Definition comp_envs (en : env) (specs : list cspec) (d : N) : M (list env) :=
  let* bfs := ask_bfs in
  let* vs := (if bfs then comp_bfs en specs [[]] d else comp_dfs en specs [] d) in
  ret (map (fun v => FVars v [] :: en) vs).

Fixpoint build_comp_fields (envs : list env) (name : cexpr) (plus : bool) (body : cexpr)
         (acc : list (str * field)) (d : N) : M (list (str * field)) :=
  match envs with
  | [] => ret acc
  | en :: r =>
      let* v := eval en name d in
      let* on := field_name_of v in
      let* acc' := add_field acc on (MkField VisDefault plus body (Some en)) in
      build_comp_fields r name plus body acc' d
  end.

(* ---- indexing and slices ---- *)
Definition index_value (v i : value) (d : N) : M value :=
  match v with
  | VStr s =>
      match i with
      | VNum f =>
          match to_index f with
          | None => kind "NumericIndexIsNotValid"
          | Some n => match nthN s n with
                      | Some c => ret (VStr [c])
                      | None => kind "NumericIndexOutOfRange"
                      end
          end
      | _ => kind "StringIndexIsNotNumber"
      end
  | VArr items =>
      match i with
      | VNum f =>
          match to_index f with
          | None => kind "NumericIndexIsNotValid"
          | Some n => match nthN items n with
                      | Some t => let* d' := enter d in forceT t d'
                      | None => kind "NumericIndexOutOfRange"
                      end
          end
      | _ => kind "ArrayIndexIsNotNumber"
      end
  | VObj ls chk =>
      match i with
      | VStr name => get_field ls chk name d
      | _ => kind "ObjectIndexIsNotString"
      end
  | _ => kind "InvalidIndexedType"
  end.

Definition opt_num (v : value) (bad : string) : M (option f64) :=
  match v with
  | VNull => ret None
  | VNum f => ret (Some f)
  | _ => kind bad
  end.

Definition slice_pos (len : N) (f : f64) : M N :=
  if f_is_integer f then
    match f_trunc_Z f with
    | Some z => ret (if (z <? 0)%Z then len - N.min len (Z.to_N (- z)) else Z.to_N z)
    | None => kind "Other"
    end
  else kind "Other".

Definition slice_range (len : N) (a b c : option f64) : M (N * option N * N) :=
  let* start := match a with Some f => slice_pos len f | None => ret 0 end in
  let* stop := match b with
               | Some f => let* e := slice_pos len f in ret (Some (N.max e start))
               | None => ret None
               end in
  let* step := match c with
               | Some f =>
                   if f_is_integer f then
                     match f_trunc_Z f with
                     | Some z => if (z <? 1)%Z then kind "Other" else ret (Z.to_N z)
                     | None => kind "Other"
                     end
                   else kind "Other"
               | None => ret 1
               end in
  ret (start, stop, step).

Definition do_slice (v : value) (a b c : option f64) (is_func : bool) : M value :=
  match v with
  | VStr s =>
      let* r := slice_range (lenN s) a b c in
      match r with (start, stop, step) => ret (VStr (slice_list s start stop step)) end
  | VArr items =>
      let* r := slice_range (lenN items) a b c in
      match r with (start, stop, step) => ret (VArr (slice_list items start stop step)) end
  | _ => if is_func then kind "InvalidStdFuncArgType" else kind "InvalidSlicedType"
  end.

Definition eval_opt (en : env) (o : option cexpr) (d : N) : M value :=
  match o with Some e => eval en e d | None => ret VNull end.

(* ---- builtins ---- *)
Definition is_fun (v : value) : bool := match v with VFun _ _ _ | VBuiltin _ => true | _ => false end.

Definition argtype {A} : M A := kind "InvalidStdFuncArgType".

Definition seqN (n : N) : list N := map N.of_nat (seq 0 (N.to_nat n)).
Definition big : N := 100000.

Fixpoint filter_m (fv : value) (items : list thunk) (d : N) : M (list thunk) :=
  match items with
  | [] => ret []
  | it :: r =>
      let* b := applyf fv [it] d in
      match b with
      | VBool keep => let* rest := filter_m fv r d in ret (if keep then it :: rest else rest)
      | _ => kind "Other"
      end
  end.

Fixpoint foldl_m (fv : value) (items : list thunk) (acc : thunk) (d : N) : M value :=
  match items with
  | [] => forceT acc d
  | it :: r => let* v := applyf fv [acc; it] d in foldl_m fv r (Tv v) d
  end.

Fixpoint foldr_m (fv : value) (ritems : list thunk) (acc : thunk) (d : N) : M value :=
  match ritems with
  | [] => forceT acc d
  | it :: r => let* v := applyf fv [it; acc] d in foldr_m fv r (Tv v) d
  end.

Fixpoint join_str_m (sep : str) (items : list thunk) (first : bool) (acc : str) (d : N) : M value :=
  match items with
  | [] => ret (VStr acc)
  | it :: r =>
      let* v := forceT it d in
      match v with
      | VNull => join_str_m sep r first acc d
      | VStr s => join_str_m sep r false (if first then acc ++ s else acc ++ sep ++ s) d
      | _ => kind "Other"
      end
  end.

Fixpoint join_arr_m (sep : list thunk) (items : list thunk) (first : bool) (acc : list thunk) (d : N) : M value :=
  match items with
  | [] => ret (VArr acc)
  | it :: r =>
      let* v := forceT it d in
      match v with
      | VNull => join_arr_m sep r first acc d
      | VArr s => join_arr_m sep r false (if first then acc ++ s else acc ++ sep ++ s) d
      | _ => kind "Other"
      end
  end.

(* stage-2 builtins *)
Fixpoint all_m (items : list thunk) (d : N) : M value :=
  match items with
  | [] => ret (VBool true)
  | it :: r =>
      let* v := forceT it d in
      match v with
      | VBool true => all_m r d
      | VBool false => ret (VBool false)
      | _ => kind "Other"
      end
  end.

Fixpoint any_m (items : list thunk) (d : N) : M value :=
  match items with
  | [] => ret (VBool false)
  | it :: r =>
      let* v := forceT it d in
      match v with
      | VBool true => ret (VBool true)
      | VBool false => any_m r d
      | _ => kind "Other"
      end
  end.

Fixpoint sum_m (items : list thunk) (acc : f64) (d : N) : M value :=
  match items with
  | [] => lift (check_num acc)
  | it :: r =>
      let* v := forceT it d in
      match v with
      | VNum x => sum_m r (f_add acc x) d
      | _ => kind "Other"
      end
  end.

Fixpoint flatten_m (items : list thunk) (acc : list thunk) (d : N) : M value :=
  match items with
  | [] => ret (VArr acc)
  | it :: r =>
      let* v := forceT it d in
      match v with
      | VArr xs => flatten_m r (acc ++ xs) d
      | _ => kind "Other"
      end
  end.

Fixpoint contains_m (x : value) (items : list thunk) (d : N) : M value :=
  match items with
  | [] => ret (VBool false)
  | it :: r =>
      let* vi := forceT it d in
      let* e := equals x vi d in
      if e then ret (VBool true) else contains_m x r d
  end.

Fixpoint count_m (x : value) (items : list thunk) (n : N) (d : N) : M value :=
  match items with
  | [] => ret (VNum (f_of_N n))
  | it :: r =>
      let* vi := forceT it d in
      let* e := equals x vi d in
      count_m x r (if e then n + 1 else n) d
  end.

Definition char_thunks (s : str) : list thunk := map (fun c => Tv (VStr [c])) s.

Definition object_has (o f h : value) : M value :=
  match o with
  | VObj ls _ =>
      match f with
      | VStr name =>
          match h with
          | VBool true => ret (VBool (has_field ls 0 name))
          | VBool false => ret (VBool (is_visible ls name))
          | _ => argtype
          end
      | _ => argtype
      end
  | _ => argtype
  end.

Definition object_fields (o h : value) : M value :=
  match o with
  | VObj ls _ =>
      match h with
      | VBool inc => ret (VArr (map (fun n => Tv (VStr n)) (if inc then all_names ls else visible_names ls)))
      | _ => argtype
      end
  | _ => argtype
  end.

Definition prim_equals (a b : value) : M value :=
  match a, b with
  | VNull, VNull => ret (VBool true)
  | VBool x, VBool y => ret (VBool (Bool.eqb x y))
  | VNum x, VNum y => ret (VBool (f_eqb x y))
  | VStr x, VStr y => ret (VBool (str_eqb x y))
  | VArr _, VArr _ => kind "PrimitiveEqualsNonPrimitive"
  | VObj _ _, VObj _ _ => kind "PrimitiveEqualsNonPrimitive"
  | (VFun _ _ _ | VBuiltin _), (VFun _ _ _ | VBuiltin _) => kind "CompareFunctions"
  | _, _ => ret (VBool false)
  end.

Definition mod_num (a b : value) : M value :=
  match a with
  | VNum x =>
      match b with
      | VNum y => if f_is_zero y then kind "DivByZero" else lift (check_num (f_rem x y))
      | _ => argtype
      end
  | VStr _ => unsupported "std.format"
  | _ => argtype
  end.

Definition call_builtin (bi : builtin) (args : list thunk) (d : N) : M value :=
  match args with
  | [a0] =>
      match bi with
      | BiTrace | BiObjectHas | BiObjectHasAll | BiPrimitiveEquals | BiEquals | BiCompare | BiMakeArray | BiMap
      | BiFilter | BiRange | BiRepeat | BiJoin | BiMod | BiModulo | BiAssertEqual | BiObjectFieldsEx
      | BiObjectHasEx | BiFoldl | BiFoldr | BiSlice => lift (Panic "RefEval:call_builtin:arity")
      | _ =>
        let* v := forceT a0 d in
        match bi with
        | BiType => ret (VStr (type_name v))
        | BiIsArray => ret (VBool match v with VArr _ => true | _ => false end)
        | BiIsBoolean => ret (VBool match v with VBool _ => true | _ => false end)
        | BiIsFunction => ret (VBool (is_fun v))
        | BiIsNumber => ret (VBool match v with VNum _ => true | _ => false end)
        | BiIsObject => ret (VBool match v with VObj _ _ => true | _ => false end)
        | BiIsString => ret (VBool match v with VStr _ => true | _ => false end)
        | BiIsNull => ret (VBool match v with VNull => true | _ => false end)
        | BiLength =>
            match v with
            | VStr s => ret (VNum (f_of_N (lenN s)))
            | VArr items => ret (VNum (f_of_N (lenN items)))
            | VObj ls _ => ret (VNum (f_of_N (lenN (visible_names ls))))
            | VFun ps _ _ => ret (VNum (f_of_N (lenN ps)))
            | VBuiltin b => ret (VNum (f_of_N (lenN (builtin_params b))))
            | _ => argtype
            end
        | BiObjectFields => object_fields v (VBool false)
        | BiObjectFieldsAll => object_fields v (VBool true)
        | BiToString => let* s := to_string v d in ret (VStr s)
        | BiAll => match v with VArr items => all_m items d | _ => argtype end
        | BiAny => match v with VArr items => any_m items d | _ => argtype end
        | BiSum => match v with
                   | VArr [] => ret (VNum f_zero)
                   | VArr items => sum_m items f_zero d
                   | _ => argtype
                   end
        | BiReverse => match v with
                       | VStr s => ret (VArr (char_thunks (rev s)))
                       | VArr items => ret (VArr (rev items))
                       | _ => argtype
                       end
        | BiStringChars => match v with VStr s => ret (VArr (char_thunks s)) | _ => argtype end
        | BiChar => match v with
                    | VNum f => match f_trunc_Z f with
                                | Some z => if is_scalar z then ret (VStr [Z.to_N z]) else kind "Other"
                                | None => kind "Other"
                                end
                    | _ => argtype
                    end
        | BiCodepoint => match v with
                         | VStr [c] => ret (VNum (f_of_N c))
                         | VStr _ => kind "Other"
                         | _ => argtype
                         end
        | BiFlattenArrays => match v with VArr items => flatten_m items [] d | _ => argtype end
        | _ => lift (Panic "RefEval:call_builtin:arity")
        end
      end
  | [a0; a1] =>
      match bi with
      | BiTrace =>
          let* rest := forceT a1 d in
          let* m := forceT a0 d in
          match m with
          | VStr s => let* _ := emit s in ret rest
          | _ => argtype
          end
      | BiContains =>
          let* arr := forceT a0 d in
          match arr with
          | VArr [] => ret (VBool false)
          | VArr items => let* x := forceT a1 d in contains_m x items d
          | _ => argtype
          end
      | BiCount =>
          let* arr := forceT a0 d in
          match arr with
          | VArr [] => ret (VNum f_zero)
          | VArr items => let* x := forceT a1 d in count_m x items 0 d
          | _ => argtype
          end
      | BiMember =>
          let* arr := forceT a0 d in
          match arr with
          | VStr s =>
              let* x := forceT a1 d in
              match x with VStr needle => ret (VBool (is_infix needle s)) | _ => argtype end
          | VArr [] => ret (VBool false)
          | VArr items => let* x := forceT a1 d in contains_m x items d
          | _ => argtype
          end
      | BiObjectHas | BiObjectHasAll | BiObjectFieldsEx | BiPrimitiveEquals | BiEquals | BiCompare | BiMakeArray
      | BiMap | BiFilter | BiRange | BiRepeat | BiJoin | BiMod | BiModulo | BiAssertEqual
      | BiStartsWith | BiEndsWith | BiMapWithIndex =>
        let* x := forceT a0 d in
        let* y := forceT a1 d in
        match bi with
        | BiObjectHas => object_has x y (VBool false)
        | BiObjectHasAll => object_has x y (VBool true)
        | BiObjectFieldsEx => object_fields x y
        | BiPrimitiveEquals => prim_equals x y
        | BiEquals => let* b := equals x y d in ret (VBool b)
        | BiCompare =>
            let* c := compare x y d in
            ret (VNum (f_of_Z match c with Lt => (-1)%Z | Eq => 0%Z | Gt => 1%Z end))
        | BiMakeArray =>
            match x with
            | VNum f =>
                if is_fun y then
                  match to_i32 f with
                  | Some z =>
                      if (z <? 0)%Z then kind "Other"
                      else match fun_params y with
                           | Some [_] =>
                               if big <? Z.to_N z then unsupported "very large array"
                               else ret (VArr (map (fun i => TCall y [Tv (VNum (f_of_N i))]) (seqN (Z.to_N z))))
                           | _ => kind "Other"
                           end
                  | None => kind "Other"
                  end
                else argtype
            | _ => argtype
            end
        | BiMap =>
            if is_fun x then
              match y with
              | VStr s => ret (VArr (map (fun c => TCall x [Tv (VStr [c])]) s))
              | VArr items => ret (VArr (map (fun it => TCall x [it]) items))
              | _ => argtype
              end
            else argtype
        | BiFilter =>
            if is_fun x then
              match y with
              | VArr items => let* kept := filter_m x items d in ret (VArr kept)
              | _ => argtype
              end
            else argtype
        | BiRange =>
            match x with
            | VNum f =>
                match y with
                | VNum g =>
                    match to_i32 f with
                    | None => kind "Other"
                    | Some a =>
                        match to_i32 g with
                        | None => kind "Other"
                        | Some b =>
                            if (b <? a)%Z then ret (VArr [])
                            else if big <? Z.to_N (b - a) then unsupported "very large array"
                            else ret (VArr (map (fun i => Tv (VNum (f_of_Z (a + Z.of_N i)))) (seqN (Z.to_N (b - a + 1)))))
                        end
                    end
                | _ => argtype
                end
            | _ => argtype
            end
        | BiRepeat =>
            match y with
            | VNum f =>
                match to_i32 f with
                | Some z =>
                    if (z <? 0)%Z then kind "Other"
                    else
                      let n := Z.to_N z in
                      match x with
                      | VStr s => if big <? n * lenN s then unsupported "very large string"
                                  else ret (VStr (concat (map (fun _ => s) (seqN n))))
                      | VArr items => if big <? n * lenN items then unsupported "very large array"
                                      else ret (VArr (concat (map (fun _ => items) (seqN n))))
                      | _ => argtype
                      end
                | None => kind "Other"
                end
            | _ => argtype
            end
        | BiJoin =>
            match y with
            | VArr items =>
                match x with
                | VStr sep => join_str_m sep items true [] d
                | VArr sep => join_arr_m sep items true [] d
                | _ => argtype
                end
            | _ => argtype
            end
        | BiMod => mod_num x y
        | BiModulo =>
            match x with
            | VNum a =>
                match y with
                | VNum b => if f_is_zero b then kind "DivByZero" else lift (check_num (f_rem a b))
                | _ => argtype
                end
            | _ => argtype
            end
        | BiStartsWith =>
            match x with
            | VStr a => match y with VStr b => ret (VBool (is_prefix b a)) | _ => argtype end
            | _ => argtype
            end
        | BiEndsWith =>
            match x with
            | VStr a => match y with VStr b => ret (VBool (is_suffix b a)) | _ => argtype end
            | _ => argtype
            end
        | BiMapWithIndex =>
            if is_fun x then
              match y with
              | VStr s => ret (VArr (map (fun p => TCall x [Tv (VNum (f_of_N (fst p))); snd p]) (combine (seqN (lenN s)) (char_thunks s))))
              | VArr items => ret (VArr (map (fun p => TCall x [Tv (VNum (f_of_N (fst p))); snd p]) (combine (seqN (lenN items)) items)))
              | _ => argtype
              end
            else argtype
        | BiAssertEqual =>
            let* b := equals x y d in
            if b then ret (VBool true)
            else let* _ := manifest true x d in let* _ := manifest true y d in kind "AssertEqualFailed"
        | _ => lift (Panic "RefEval:call_builtin:arity")
        end
      | _ => lift (Panic "RefEval:call_builtin:arity")
      end
  | [a0; a1; a2] =>
      match bi with
      | BiObjectHasEx =>
          let* x := forceT a0 d in let* y := forceT a1 d in let* z := forceT a2 d in object_has x y z
      | BiFoldl =>
          let* f := forceT a0 d in
          let* arr := forceT a1 d in
          if is_fun f then
            match arr with
            | VArr items => foldl_m f items a2 d
            | _ => argtype
            end
          else argtype
      | BiFoldr =>
          let* f := forceT a0 d in
          let* arr := forceT a1 d in
          if is_fun f then
            match arr with
            | VArr items => foldr_m f (rev items) a2 d
            | _ => argtype
            end
          else argtype
      | _ => lift (Panic "RefEval:call_builtin:arity")
      end
  | [a0; a1; a2; a3] =>
      match bi with
      | BiSlice =>
          let* v := forceT a0 d in
          let* x := forceT a1 d in
          let* y := forceT a2 d in
          let* z := forceT a3 d in
          let* a := opt_num x "InvalidStdFuncArgType" in
          let* b := opt_num y "InvalidStdFuncArgType" in
          let* c := opt_num z "InvalidStdFuncArgType" in
          do_slice v a b c true
      | _ => lift (Panic "RefEval:call_builtin:arity")
      end
  | _ => lift (Panic "RefEval:call_builtin:arity")
  end.

(* ---- calls ---- *)
Definition force_args (ts : list thunk) (d : N) : M unit :=
  iterM (fun t => let* d' := enter d in let* _ := forceT t d' in ret tt) ts.

Definition do_apply (fv : value) (pos : list thunk) (named : list (str * thunk)) (force : bool) (d : N) : M value :=
  match fv with
  | VFun ps body fenv =>
      let* r := lift (bind_args ps pos named) in
      match r with
      | (b, ds) =>
          let fr := FVars b ds :: fenv in
          let* _ := (if force then force_args (arg_thunks ps fr) d else ret tt) in
          let* d' := enter d in
          eval fr body d'
      end
  | VBuiltin bi =>
      let* r := lift (bind_args (builtin_params bi) pos named) in
      match r with
      | (b, _) =>
          let* d' := enter d in
          call_builtin bi (arg_thunks (builtin_params bi) [FVars b []]) d'
      end
  | _ => kind "CalleeIsNotFunction"
  end.

(* ---- equality, ordering, manifestation ---- *)
Fixpoint list_str_eqb (a b : list str) : bool :=
  match a, b with
  | [], [] => true
  | x :: a', y :: b' => str_eqb x y && list_str_eqb a' b'
  | _, _ => false
  end.

Fixpoint eq_items (a b : list thunk) (d : N) : M bool :=
  match a, b with
  | x :: ra, y :: rb =>
      let* d' := enter d in
      let* vx := forceT x d' in
      let* vy := forceT y d' in
      let* e := equals vx vy d' in
      if e then eq_items ra rb d else ret false
  | _, _ => ret true
  end.

Fixpoint eq_fields (la lb : list layer) (names : list str) (d : N) : M bool :=
  match names with
  | [] => ret true
  | n :: r =>
      let* d' := enter d in
      let* vx := field_at la 0 n d' in
      let* vy := field_at lb 0 n d' in
      let* e := equals vx vy d' in
      if e then eq_fields la lb r d else ret false
  end.

Definition do_equals (a b : value) (d : N) : M bool :=
  match a, b with
  | VNull, VNull => ret true
  | VBool x, VBool y => ret (Bool.eqb x y)
  | VNum x, VNum y => ret (f_eqb x y)
  | VStr x, VStr y => ret (str_eqb x y)
  | VArr x, VArr y => if lenN x =? lenN y then eq_items x y d else ret false
  | VObj la ca, VObj lb cb =>
      let na := visible_names la in
      if list_str_eqb na (visible_names lb) then
        match na with
        | [] => ret true
        | _ =>
            let* _ := run_asserts la ca d in
            let* _ := run_asserts lb cb d in
            eq_fields la lb na d
        end
      else ret false
  | (VFun _ _ _ | VBuiltin _), (VFun _ _ _ | VBuiltin _) => kind "CompareFunctions"
  | _, _ => ret false
  end.

Fixpoint cmp_items (a b : list thunk) (d : N) : M comparison :=
  match a, b with
  | [], [] => ret Eq
  | [], _ :: _ => ret Lt
  | _ :: _, [] => ret Gt
  | x :: ra, y :: rb =>
      let* d' := enter d in
      let* vx := forceT x d' in
      let* vy := forceT y d' in
      let* c := compare vx vy d' in
      match c with
      | Eq => cmp_items ra rb d
      | _ => ret c
      end
  end.

Definition do_compare (a b : value) (d : N) : M comparison :=
  match a, b with
  | VNull, VNull => kind "CompareNullInequality"
  | VBool _, VBool _ => kind "CompareBooleanInequality"
  | VNum x, VNum y =>
      match f_compare x y with
      | Some c => ret c
      | None => lift (Panic "eval/mod.rs:CompareValue:partial_cmp().unwrap()")
      end
  | VStr x, VStr y => ret (str_cmp x y)
  | VArr x, VArr y => cmp_items x y d
  | VObj _ _, VObj _ _ => kind "CompareObjectInequality"
  | (VFun _ _ _ | VBuiltin _), (VFun _ _ _ | VBuiltin _) => kind "CompareFunctions"
  | _, _ => kind "CompareDifferentTypesInequality"
  end.

Definition do_manifest (strict : bool) (v : value) (d : N) : M json :=
  match v with
  | VNull => ret JNull
  | VBool b => ret (JBool b)
  | VNum f => ret (JNum f)
  | VStr s => ret (JStr s)
  | VArr items =>
      let* js := mapM (fun t => let* d' := enter d in let* x := forceT t d' in manifest strict x d') items in
      ret (JArr js)
  | VObj ls chk =>
      let* _ := run_asserts ls chk d in
      let* js := mapM (fun n => let* d' := enter d in let* x := field_at ls 0 n d' in
                                let* j := manifest strict x d' in ret (n, j)) (visible_names ls) in
      ret (JObj js)
  | VFun _ _ _ | VBuiltin _ => if strict then kind "ManifestFunction" else ret JFunc
  end.

(* ---- expressions ---- *)
Definition cond_bool (v : value) : M bool :=
  match v with
  | VBool b => ret b
  | _ => kind "CondIsNotBool"
  end.

Definition do_eval (en : env) (x : cexpr) (d : N) : M value :=
  match x with
  | CNull => ret VNull
  | CBool b => ret (VBool b)
  | CNum f => lift (check_num f)
  | CStr s => ret (VStr s)
  | CSelf =>
      match lookup_obj en with
      | Some (ls, _, chk) => ret (VObj ls chk)
      | None => fail (EStatic "SelfOutsideObject")
      end
  | CVar v =>
      match lookup_var v en with
      | Some t => let* d' := enter d in forceT t d'
      | None => fail (EStatic "UnknownVariable")
      end
  | CObject locals asserts fields =>
      let* fs := build_fields en fields [] d in
      ret (VObj [MkLayer locals asserts fs en false] false)
  | CObjComp locals name plus body specs =>
      let* envs := comp_envs en specs d in
      let* fs := build_comp_fields envs name plus body [] d in
      ret (VObj [MkLayer locals [] fs en false] true)
  | CArray items => ret (VArr (map (fun e => Th e en) items))
  | CArrComp body specs =>
      let* envs := comp_envs en specs d in
      ret (VArr (map (fun e => Th body e) envs))
  | CField e name =>
      let* v := eval en e d in
      match v with
      | VObj ls chk => get_field ls chk name d
      | _ => kind "FieldOfNonObject"
      end
  | CIndex e i =>
      let* v := eval en e d in
      let* iv := eval en i d in
      index_value v iv d
  | CSlice e a b c =>
      let* v := eval en e d in
      let* av := eval_opt en a d in
      let* bv := eval_opt en b d in
      let* cv := eval_opt en c d in
      let* a' := opt_num av "SliceIndexOrStepIsNotNumber" in
      let* b' := opt_num bv "SliceIndexOrStepIsNotNumber" in
      let* c' := opt_num cv "SliceIndexOrStepIsNotNumber" in
      do_slice v a' b' c' false
  | CSuperField name => super_field en name d
  | CSuperIndex i =>
      let* iv := eval en i d in
      match iv with
      | VStr name => super_field en name d
      | _ => kind "ObjectIndexIsNotString"
      end
  | CInSuper e =>
      let* v := eval en e d in
      match v with
      | VStr name => with_super en (fun ls i => ret (VBool (has_field ls (i + 1) name)))
      | _ => kind "InvalidBinaryOpTypes"
      end
  | CCall f pos named ts tail =>
      let* fv := eval en f d in
      if is_fun fv then
        let* only_tail := ask_ts_tail in
        apply fv (map (fun e => Th e en) pos) (map (fun p => (fst p, Th (snd p) en)) named)
              (ts && (tail || negb only_tail)) d
      else kind "CalleeIsNotFunction"
  | CLocal binds body => eval (FVars [] binds :: en) body d
  | CIte c t e =>
      let* v := eval en c d in
      let* b := cond_bool v in
      if b then eval en t d else eval en e d
  | CBin BLogicAnd l r =>
      let* lv := eval en l d in
      match lv with
      | VBool false => ret (VBool false)
      | _ =>
          let* rv := eval en r d in
          match lv, rv with
          | VBool _, VBool b => ret (VBool b)
          | _, _ => kind "InvalidBinaryOpTypes"
          end
      end
  | CBin BLogicOr l r =>
      let* lv := eval en l d in
      match lv with
      | VBool true => ret (VBool true)
      | _ =>
          let* rv := eval en r d in
          match lv, rv with
          | VBool _, VBool b => ret (VBool b)
          | _, _ => kind "InvalidBinaryOpTypes"
          end
      end
  | CBin BEq l r =>
      let* d' := enter d in
      let* lv := eval en l d' in
      let* rv := eval en r d' in
      let* b := equals lv rv d' in
      ret (VBool b)
  | CBin BNe l r =>
      let* d' := enter d in
      let* lv := eval en l d' in
      let* rv := eval en r d' in
      let* b := equals lv rv d' in
      ret (VBool (negb b))
  | CBin ((BLt | BLe | BGt | BGe) as op) l r =>
      let* d' := enter d in
      let* lv := eval en l d' in
      let* rv := eval en r d' in
      let* c := compare lv rv d' in
      ret (VBool (cmp_to_bool op c))
  | CBin op l r =>
      let* lv := eval en l d in
      let* rv := eval en r d in
      bin_op op lv rv d
  | CUn op e =>
      let* v := eval en e d in
      un_op op v
  | CFunc params body => ret (VFun params body en)
  | CError e =>
      let* d' := enter d in
      let* v := eval en e d' in
      let* s := to_string v d' in
      fail (EExplicit s)
  | CAssert c m body =>
      let* _ := run_assert en (c, m) d in
      eval en body d
  | CBuiltin b => ret (VBuiltin b)
  | CUnsupported what => fail (EUnsupported what)
  end.

Definition do_force (t : thunk) (d : N) : M value :=
  match t with
  | Tv v => ret v
  | Th e en => eval en e d
  | TCall f args => applyf f args d
  end.

Definition step (t : task) (d : N) : M answer :=
  match t with
  | TEval en x => let* v := do_eval en x d in ret (AVal v)
  | TForce th => let* v := do_force th d in ret (AVal v)
  | TApply f pos named force => let* v := do_apply f pos named force d in ret (AVal v)
  | TField ls from name => let* v := do_field ls from name d in ret (AVal v)
  | TEquals a b => let* r := do_equals a b d in ret (ABool r)
  | TCompare a b => let* r := do_compare a b d in ret (ACmp r)
  | TManifest strict v => let* r := do_manifest strict v d in ret (AJson r)
  end.

Fixpoint run_task (fuel : nat) (c : cfg) : recfn :=
  match fuel with
  | O => fun _ _ => ([], OutOfFuel)
  | S f => fun t d => step t d c (run_task f c)
  end.

(* the whole program: evaluate, manifest (functions are reported only after
   everything else has been evaluated, as eval_value + manifest_json do) *)
Definition run_top (x : cexpr) : M json :=
  let* v := eval init_env x 0 in
  let* j := manifest false v 0 in
  if has_func j then kind "ManifestFunction" else ret j.

Definition run_core (fuel : nat) (c : cfg) (x : cexpr) : res json := run_top x c (run_task fuel c).
Definition run (fuel : nat) (c : cfg) (e : expr) : res json := run_core fuel c (desugar e).
