(* Model/Manifest.v — model of JSON manifestation in
   rsjsonnet-lang/src/program/eval/manifest.rs:

     struct ManifestJsonFormat { indent, newline, key_val_sep, item_sep, empty_array, empty_object }
     ManifestJsonFormat::default_to_string / default_manifest / for_std_manifest_ex
     Evaluator::do_manifest_json(format, depth)

   over fully evaluated JSON values ([JsonDec.jvalue]); object members arrive in the
   order of ObjectData::get_visible_fields_order (sorted, visible only — property C07).
   The evaluator's explicit state stack (AppendToString / ManifestJson / DoThunk pushes in
   reverse order) is modelled by the string it builds; `ValueData::Function` (error
   ManifestFunction), errors raised while forcing a field and object assertions are outside
   this model (they produce no document).  The text of a number is the section variable
   [show] (Rust's `{n}` Display of f64; validated per case by the check and by C06).
   Also: the document wrappers of rsjsonnet/src/main.rs (default, -y, -m, -S) and the
   string coercion of std.toString.  No proofs here. *)
From RJ Require Import Base.Outcome Base.F64 Model.Token Model.JsonEsc Model.JsonDec.
Local Open Scope N_scope.

Record json_format := {
  indent : str;
  newline : str;
  key_val_sep : str;
  item_sep : str;
  empty_array : option str;
  empty_object : option str;
}.

(* default_to_string(): std.toString, string coercion, -S off single-line library mode *)
Definition fmt_to_string : json_format :=
  {| indent := []; newline := []; key_val_sep := [58; 32]; item_sep := [44; 32];
     empty_array := Some [91; 32; 93]; empty_object := Some [123; 32; 125] |}.

(* default_manifest(): the command-line output *)
Definition fmt_manifest : json_format :=
  {| indent := [32; 32; 32]; newline := [10]; key_val_sep := [58; 32]; item_sep := [44];
     empty_array := Some [91; 32; 93]; empty_object := Some [123; 32; 125] |}.

(* for_std_manifest_ex(indent, newline, key_val_sep) *)
Definition fmt_std_ex (i n k : str) : json_format :=
  {| indent := i; newline := n; key_val_sep := k; item_sep := [44];
     empty_array := None; empty_object := None |}.

(* std.libsonnet: manifestJson(value) = manifestJsonEx(value, '    ')  (newline='\n', key_val_sep=': ')
                  manifestJsonMinified(value) = manifestJsonEx(value, '', '', ':') *)
Definition fmt_std_json : json_format := fmt_std_ex [32; 32; 32; 32] [10] [58; 32].
Definition fmt_minified : json_format := fmt_std_ex [] [] [58].

Fixpoint repeat_str (s : str) (n : nat) : str :=
  match n with
  | O => []
  | S k => s ++ repeat_str s k
  end.

Fixpoint join (sep : str) (l : list str) : str :=
  match l with
  | [] => []
  | x :: r => match r with [] => x | _ :: _ => x ++ sep ++ join sep r end
  end.

Definition is_empty_str (s : str) : bool := match s with [] => true | _ => false end.

(* if !format.indent.is_empty() { push(format.indent.repeat(depth + 1)) } *)
Definition item_indent (fmt : json_format) (depth : nat) : str :=
  if is_empty_str (indent fmt) then [] else repeat_str (indent fmt) (S depth).

(* '[' newline newline indent*depth ']'  (empty_array / empty_object = None) *)
Definition empty_form (fmt : json_format) (o c : N) (depth : nat) (e : option str) : str :=
  match e with
  | Some s => s
  | None => [o] ++ newline fmt ++ newline fmt ++ repeat_str (indent fmt) depth ++ [c]
  end.

Section Manifest.
Variable show : f64 -> str.

Fixpoint manifest (fmt : json_format) (depth : nat) (v : jvalue) : str :=
  match v with
  | JNull => [110; 117; 108; 108]
  | JBool true => [116; 114; 117; 101]
  | JBool false => [102; 97; 108; 115; 101]
  | JNum x => show x
  | JStr s => escape_string_json s
  | JArr items =>
      match items with
      | [] => empty_form fmt 91 93 depth (empty_array fmt)
      | _ :: _ =>
          [91] ++ newline fmt
          ++ join (item_sep fmt ++ newline fmt)
                  (map (fun it => item_indent fmt depth ++ manifest fmt (S depth) it) items)
          ++ newline fmt ++ repeat_str (indent fmt) depth ++ [93]
      end
  | JObj members =>
      match members with
      | [] => empty_form fmt 123 125 depth (empty_object fmt)
      | _ :: _ =>
          [123] ++ newline fmt
          ++ join (item_sep fmt ++ newline fmt)
                  (map (fun kv => item_indent fmt depth ++ escape_string_json (fst kv)
                                  ++ key_val_sep fmt ++ manifest fmt (S depth) (snd kv)) members)
          ++ newline fmt ++ repeat_str (indent fmt) depth ++ [125]
      end
  end.

(* Program::manifest_json(value, multiline) *)
Definition manifest_json (multiline : bool) (v : jvalue) : str :=
  manifest (if multiline then fmt_manifest else fmt_to_string) 0 v.

(* std.toString / string coercion: a string is itself, anything else default_to_string *)
Definition to_string (v : jvalue) : str :=
  match v with
  | JStr s => s
  | _ => manifest fmt_to_string 0 v
  end.

(* ---- rsjsonnet/src/main.rs value_to_repr (without --no-trailing-newline) ---- *)
Definition cli_default (v : jvalue) : str := manifest_json true v ++ [10].

(* -y: None = 'the value must be an array' *)
Definition cli_yaml_stream (v : jvalue) : option str :=
  match v with
  | JArr items =>
      match items with
      | [] => Some []
      | _ :: _ => Some (flat_map (fun it => [45; 45; 45; 10] ++ manifest_json true it ++ [10]) items
                        ++ [46; 46; 46; 10])
      end
  | _ => None
  end.

(* -m: one (file name, content) per visible field; None = not an object *)
Definition cli_multi (v : jvalue) : option (list (str * str)) :=
  match v with
  | JObj members => Some (map (fun kv => (fst kv, cli_default (snd kv))) members)
  | _ => None
  end.

(* ---- do_manifest_python / do_std_manifest_python_vars ---- *)
Fixpoint manifest_python (v : jvalue) : str :=
  match v with
  | JNull => [78; 111; 110; 101]                      (* None *)
  | JBool true => [84; 114; 117; 101]                 (* True *)
  | JBool false => [70; 97; 108; 115; 101]            (* False *)
  | JNum x => show x
  | JStr s => escape_string_python s
  | JArr items =>
      match items with
      | [] => [91; 93]
      | _ :: _ => [91] ++ join [44; 32] (map manifest_python items) ++ [93]
      end
  | JObj members =>
      match members with
      | [] => [123; 125]
      | _ :: _ =>
          [123] ++ join [44; 32] (map (fun kv => escape_string_python (fst kv) ++ [58; 32]
                                                 ++ manifest_python (snd kv)) members) ++ [125]
      end
  end.

(* name = value newline, per visible field; None = argument is not an object *)
Definition manifest_python_vars (v : jvalue) : option str :=
  match v with
  | JObj members => Some (flat_map (fun kv => fst kv ++ [32; 61; 32] ++ manifest_python (snd kv) ++ [10]) members)
  | _ => None
  end.

End Manifest.

(* ---- whitespace erasure: drops JSON whitespace outside string literals ---- *)
Fixpoint erase_ws_aux (in_str esc : bool) (s : str) : str :=
  match s with
  | [] => []
  | c :: r =>
      if in_str then
        c :: (if esc then erase_ws_aux true false r
              else if c =? 92 then erase_ws_aux true true r
              else if c =? 34 then erase_ws_aux false false r
              else erase_ws_aux true false r)
      else if is_ws c then erase_ws_aux false false r
      else c :: erase_ws_aux (c =? 34) false r
  end.

Definition erase_ws (s : str) : str := erase_ws_aux false false s.

(* ---------------------------------------------------------------- vocabulary of the C05 statements *)
Definition all_ws (s : str) : Prop := forallb is_ws s = true.

(* optional whitespace, the separator character, optional whitespace *)
Definition sep_shape (c : N) (s : str) : Prop :=
  exists w1 w2, s = w1 ++ c :: w2 /\ all_ws w1 /\ all_ws w2.

Definition bracket_shape (o c : N) (e : option str) : Prop :=
  match e with
  | None => True
  | Some s => exists w, s = o :: w ++ [c] /\ all_ws w
  end.

(* a format whose pieces are JSON whitespace around the structural characters *)
Record ws_format (fmt : json_format) : Prop := {
  wf_indent : all_ws (indent fmt);
  wf_newline : all_ws (newline fmt);
  wf_kvs : sep_shape 58 (key_val_sep fmt);
  wf_item : sep_shape 44 (item_sep fmt);
  wf_ea : bracket_shape 91 93 (empty_array fmt);
  wf_eo : bracket_shape 123 125 (empty_object fmt);
}.

(* a genuine finite double: finite, and the decoding of its own 64-bit pattern *)
Definition num_ok (x : f64) : Prop := f_is_finite x = true /\ f_of_bits (f_to_bits x) = x.

Fixpoint nums_of (v : jvalue) : list f64 :=
  match v with
  | JNum x => [x]
  | JArr items => flat_map nums_of items
  | JObj members => flat_map (fun kv => nums_of (snd kv)) members
  | _ => []
  end.

Definition finite_nums (v : jvalue) : Prop := Forall num_ok (nums_of v).
