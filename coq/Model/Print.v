(* Model/Print.v — printer from syntax trees to token lists.

   [print_expr] prints a tree structurally (an [EParen] node prints its two
   parentheses, nothing else does).  [wp] ("well parenthesised") is the decidable
   condition under which that token list is parsed back to the same tree:
   every child sits at a grammar position its head constructor is allowed in.
   [parenthesize] inserts the minimal [EParen] nodes that make a tree [wp]
   (minimal-parentheses printer = print_expr ∘ parenthesize); [full_paren] wraps
   every sub-expression (redundant-parentheses printer).  Printed tokens carry
   the span (0,0); [strip_spans] maps every span of a tree to (0,0). *)
From RJ Require Import Base.Outcome Model.Token Model.Ast Model.Parser.
Local Open Scope list_scope.
Local Open Scope N_scope.

Definition sp0 : span := (0, 0).
Definition tk (k : token_kind) : token := {| tok_span := sp0; tok_kind := k |}.
Definition sim (k : stoken) : token := tk (TSimple k).
Definition eof_tok : token := tk TEndOfFile.

Definition binop_tok (op : binary_op) : stoken :=
  match op with
  | BAdd => SPlus | BSub => SMinus | BMul => SAsterisk | BDiv => SSlash | BRem => SPercent
  | BShl => SLtLt | BShr => SGtGt | BLt => SLt | BLe => SLtEq | BGt => SGt | BGe => SGtEq
  | BEq => SEqEq | BNe => SExclamEq | BIn => KIn | BBitwiseAnd => SAmp | BBitwiseOr => SPipe
  | BBitwiseXor => SHat | BLogicAnd => SAmpAmp | BLogicOr => SPipePipe
  end.

(* numeric precedence levels of the specification: 0 = `||` … 9 = `* / %`,
   10 = unary, 11 = postfix / primary *)
Definition binop_level (op : binary_op) : nat :=
  match op with
  | BLogicOr => 0 | BLogicAnd => 1 | BBitwiseOr => 2 | BBitwiseXor => 3 | BBitwiseAnd => 4
  | BEq | BNe => 5
  | BLt | BLe | BGt | BGe | BIn => 6
  | BShl | BShr => 7
  | BAdd | BSub => 8
  | BMul | BDiv | BRem => 9
  end%nat.
Definition lv_unary : nat := 10.
Definition lv_postfix : nat := 11.
Definition lv_ordcmp : nat := 6.

Definition unop_tok (op : unary_op) : stoken :=
  match op with UMinus => SMinus | UPlus => SPlus | UBitwiseNot => STilde | ULogicNot => SExclam end.

Definition vis_tok (plus : bool) (v : visibility) : stoken :=
  match plus, v with
  | false, VisDefault => SColon | false, VisHidden => SColonColon | false, VisForceVisible => SColonColonColon
  | true, VisDefault => SPlusColon | true, VisHidden => SPlusColonColon | true, VisForceVisible => SPlusColonColonColon
  end.

Definition id_tok (i : ident) : token := tk (TIdent (id_value i)).

Definition sep_by {A} (sep : list token) (f : A -> list token) (l : list A) : list token :=
  match l with
  | [] => []
  | x :: r => f x ++ flat_map (fun y => sep ++ f y) r
  end.

Definition comma : list token := [sim SComma].

Definition opt_tokens (f : expr -> list token) (o : option expr) : list token :=
  match o with Some e => f e | None => [] end.
Definition opt_all (f : expr -> bool) (o : option expr) : bool :=
  match o with Some e => f e | None => true end.

Fixpoint print_expr (e : expr) : list token :=
  match e with
  | ENull _ => [sim KNull]
  | EBool _ b => [sim (if b then KTrue else KFalse)]
  | ESelf _ => [sim KSelf]
  | EDollar _ => [sim SDollar]
  | EString _ s => [tk (TString s)]
  | ETextBlock _ s => [tk (TTextBlock s)]
  | ENumber _ n => [tk (TNumber n)]
  | EParen _ x => sim SLeftParen :: print_expr x ++ [sim SRightParen]
  | EObject _ o => sim SLeftBrace :: print_obj o ++ [sim SRightBrace]
  | EArray _ items => sim SLeftBracket :: sep_by comma print_expr items ++ [sim SRightBracket]
  | EArrayComp _ x specs =>
      sim SLeftBracket :: print_expr x ++ flat_map print_spec specs ++ [sim SRightBracket]
  | EField _ x i => print_expr x ++ [sim SDot; id_tok i]
  | EIndex _ x i => print_expr x ++ sim SLeftBracket :: print_expr i ++ [sim SRightBracket]
  | ESlice _ x a b c =>
      print_expr x ++ sim SLeftBracket :: opt_tokens print_expr a ++ sim SColon :: opt_tokens print_expr b ++
      match c with Some c' => sim SColon :: print_expr c' | None => [] end ++ [sim SRightBracket]
  | ESuperField _ _ i => [sim KSuper; sim SDot; id_tok i]
  | ESuperIndex _ _ i => sim KSuper :: sim SLeftBracket :: print_expr i ++ [sim SRightBracket]
  | ECall _ f args ts =>
      print_expr f ++ sim SLeftParen :: sep_by comma print_arg args ++ sim SRightParen ::
      (if ts then [sim KTailstrict] else [])
  | EIdent _ i => [id_tok i]
  | ELocal _ binds body =>
      sim KLocal :: sep_by comma print_bind binds ++ sim SSemicolon :: print_expr body
  | EIf _ c t e =>
      sim KIf :: print_expr c ++ sim KThen :: print_expr t ++
      match e with Some e' => sim KElse :: print_expr e' | None => [] end
  | EBinary _ l op r => print_expr l ++ sim (binop_tok op) :: print_expr r
  | EUnary _ op x => sim (unop_tok op) :: print_expr x
  | EObjExt _ x o _ => print_expr x ++ sim SLeftBrace :: print_obj o ++ [sim SRightBrace]
  | EFunc _ params body =>
      sim KFunction :: sim SLeftParen :: sep_by comma print_param params ++ sim SRightParen :: print_expr body
  | EAssert _ a body => print_assert a ++ sim SSemicolon :: print_expr body
  | EImport _ x => sim KImport :: print_expr x
  | EImportStr _ x => sim KImportstr :: print_expr x
  | EImportBin _ x => sim KImportbin :: print_expr x
  | EError _ x => sim KError :: print_expr x
  | EInSuper _ x _ => print_expr x ++ [sim KIn; sim KSuper]
  end

with print_obj (o : obj_inside) : list token :=
  match o with
  | OMembers ms => sep_by comma print_member ms
  | OComp l1 name plus body l2 specs =>
      flat_map (fun b => sim KLocal :: print_bind b ++ comma) l1 ++
      sim SLeftBracket :: print_expr name ++ sim SRightBracket :: sim (vis_tok plus VisDefault) :: print_expr body ++
      flat_map (fun b => sim SComma :: sim KLocal :: print_bind b) l2 ++
      flat_map print_spec specs
  end

with print_member (m : member) : list token :=
  match m with
  | MLocal b => sim KLocal :: print_bind b
  | MAssert a => print_assert a
  | MField f => print_field f
  end

with print_field (f : field) : list token :=
  match f with
  | FValue name plus vis value => print_fname name ++ sim (vis_tok plus vis) :: print_expr value
  | FFunc name params _ vis value =>
      print_fname name ++ sim SLeftParen :: sep_by comma print_param params ++ sim SRightParen ::
      sim (vis_tok false vis) :: print_expr value
  end

with print_fname (n : field_name) : list token :=
  match n with
  | FnIdent i => [id_tok i]
  | FnString s _ => [tk (TString s)]
  | FnExpr e _ => sim SLeftBracket :: print_expr e ++ [sim SRightBracket]
  end

with print_spec (c : comp_spec) : list token :=
  match c with
  | CFor v inner => sim KFor :: id_tok v :: sim KIn :: print_expr inner
  | CIf cond => sim KIf :: print_expr cond
  end

with print_assert (a : assert_) : list token :=
  match a with
  | MkAssert _ cond msg =>
      sim KAssert :: print_expr cond ++ match msg with Some m => sim SColon :: print_expr m | None => [] end
  end

with print_bind (b : bind) : list token :=
  match b with
  | MkBind name params value =>
      id_tok name ::
      match params with
      | Some (ps, _) => sim SLeftParen :: sep_by comma print_param ps ++ [sim SRightParen]
      | None => []
      end ++ sim SEq :: print_expr value
  end

with print_arg (a : arg) : list token :=
  match a with
  | APositional e => print_expr e
  | ANamed name e => id_tok name :: sim SEq :: print_expr e
  end

with print_param (p : param) : list token :=
  match p with
  | MkParam name d => id_tok name :: match d with Some e => sim SEq :: print_expr e | None => [] end
  end.

(* the token list handed to the parser: printed tokens then EndOfFile *)
Definition print_tokens (e : expr) : list token := print_expr e ++ [eof_tok].

(* ---------------------------------------------------------------- strip_spans *)

Definition strip_ident (i : ident) : ident := {| id_value := id_value i; id_span := sp0 |}.

Fixpoint strip_spans (e : expr) : expr :=
  match e with
  | ENull _ => ENull sp0
  | EBool _ b => EBool sp0 b
  | ESelf _ => ESelf sp0
  | EDollar _ => EDollar sp0
  | EString _ s => EString sp0 s
  | ETextBlock _ s => ETextBlock sp0 s
  | ENumber _ n => ENumber sp0 n
  | EParen _ x => EParen sp0 (strip_spans x)
  | EObject _ o => EObject sp0 (strip_obj o)
  | EArray _ items => EArray sp0 (map strip_spans items)
  | EArrayComp _ x specs => EArrayComp sp0 (strip_spans x) (map strip_spec specs)
  | EField _ x i => EField sp0 (strip_spans x) (strip_ident i)
  | EIndex _ x i => EIndex sp0 (strip_spans x) (strip_spans i)
  | ESlice _ x a b c => ESlice sp0 (strip_spans x) (option_map strip_spans a) (option_map strip_spans b) (option_map strip_spans c)
  | ESuperField _ _ i => ESuperField sp0 sp0 (strip_ident i)
  | ESuperIndex _ _ i => ESuperIndex sp0 sp0 (strip_spans i)
  | ECall _ f args ts => ECall sp0 (strip_spans f) (map strip_arg args) ts
  | EIdent _ i => EIdent sp0 (strip_ident i)
  | ELocal _ binds body => ELocal sp0 (map strip_bind binds) (strip_spans body)
  | EIf _ c t e => EIf sp0 (strip_spans c) (strip_spans t) (option_map strip_spans e)
  | EBinary _ l op r => EBinary sp0 (strip_spans l) op (strip_spans r)
  | EUnary _ op x => EUnary sp0 op (strip_spans x)
  | EObjExt _ x o _ => EObjExt sp0 (strip_spans x) (strip_obj o) sp0
  | EFunc _ params body => EFunc sp0 (map strip_param params) (strip_spans body)
  | EAssert _ a body => EAssert sp0 (strip_assert a) (strip_spans body)
  | EImport _ x => EImport sp0 (strip_spans x)
  | EImportStr _ x => EImportStr sp0 (strip_spans x)
  | EImportBin _ x => EImportBin sp0 (strip_spans x)
  | EError _ x => EError sp0 (strip_spans x)
  | EInSuper _ x _ => EInSuper sp0 (strip_spans x) sp0
  end

with strip_obj (o : obj_inside) : obj_inside :=
  match o with
  | OMembers ms => OMembers (map strip_member ms)
  | OComp l1 name plus body l2 specs =>
      OComp (map strip_bind l1) (strip_spans name) plus (strip_spans body) (map strip_bind l2) (map strip_spec specs)
  end

with strip_member (m : member) : member :=
  match m with
  | MLocal b => MLocal (strip_bind b)
  | MAssert a => MAssert (strip_assert a)
  | MField f => MField (strip_field f)
  end

with strip_field (f : field) : field :=
  match f with
  | FValue name plus vis value => FValue (strip_fname name) plus vis (strip_spans value)
  | FFunc name params _ vis value => FFunc (strip_fname name) (map strip_param params) sp0 vis (strip_spans value)
  end

with strip_fname (n : field_name) : field_name :=
  match n with
  | FnIdent i => FnIdent (strip_ident i)
  | FnString s _ => FnString s sp0
  | FnExpr e _ => FnExpr (strip_spans e) sp0
  end

with strip_spec (c : comp_spec) : comp_spec :=
  match c with
  | CFor v inner => CFor (strip_ident v) (strip_spans inner)
  | CIf cond => CIf (strip_spans cond)
  end

with strip_assert (a : assert_) : assert_ :=
  match a with MkAssert _ cond msg => MkAssert sp0 (strip_spans cond) (option_map strip_spans msg) end

with strip_bind (b : bind) : bind :=
  match b with
  | MkBind name params value =>
      MkBind (strip_ident name)
             (match params with Some (ps, _) => Some (map strip_param ps, sp0) | None => None end)
             (strip_spans value)
  end

with strip_arg (a : arg) : arg :=
  match a with
  | APositional e => APositional (strip_spans e)
  | ANamed name e => ANamed (strip_ident name) (strip_spans e)
  end

with strip_param (p : param) : param :=
  match p with MkParam name d => MkParam (strip_ident name) (option_map strip_spans d) end.

(* ---------------------------------------------------------------- strip_paren *)

Fixpoint strip_paren (e : expr) : expr :=
  match e with
  | ENull _ | EBool _ _ | ESelf _ | EDollar _ | EString _ _ | ETextBlock _ _ | ENumber _ _
  | ESuperField _ _ _ | EIdent _ _ => e
  | EParen _ x => strip_paren x
  | EObject sp o => EObject sp (unp_obj o)
  | EArray sp items => EArray sp (map strip_paren items)
  | EArrayComp sp x specs => EArrayComp sp (strip_paren x) (map unp_spec specs)
  | EField sp x i => EField sp (strip_paren x) i
  | EIndex sp x i => EIndex sp (strip_paren x) (strip_paren i)
  | ESlice sp x a b c => ESlice sp (strip_paren x) (option_map strip_paren a) (option_map strip_paren b) (option_map strip_paren c)
  | ESuperIndex sp ssp i => ESuperIndex sp ssp (strip_paren i)
  | ECall sp f args ts => ECall sp (strip_paren f) (map unp_arg args) ts
  | ELocal sp binds body => ELocal sp (map unp_bind binds) (strip_paren body)
  | EIf sp c t e => EIf sp (strip_paren c) (strip_paren t) (option_map strip_paren e)
  | EBinary sp l op r => EBinary sp (strip_paren l) op (strip_paren r)
  | EUnary sp op x => EUnary sp op (strip_paren x)
  | EObjExt sp x o osp => EObjExt sp (strip_paren x) (unp_obj o) osp
  | EFunc sp params body => EFunc sp (map unp_param params) (strip_paren body)
  | EAssert sp a body => EAssert sp (unp_assert a) (strip_paren body)
  | EImport sp x => EImport sp (strip_paren x)
  | EImportStr sp x => EImportStr sp (strip_paren x)
  | EImportBin sp x => EImportBin sp (strip_paren x)
  | EError sp x => EError sp (strip_paren x)
  | EInSuper sp x ssp => EInSuper sp (strip_paren x) ssp
  end

with unp_obj (o : obj_inside) : obj_inside :=
  match o with
  | OMembers ms => OMembers (map unp_member ms)
  | OComp l1 name plus body l2 specs =>
      OComp (map unp_bind l1) (strip_paren name) plus (strip_paren body) (map unp_bind l2) (map unp_spec specs)
  end

with unp_member (m : member) : member :=
  match m with
  | MLocal b => MLocal (unp_bind b)
  | MAssert a => MAssert (unp_assert a)
  | MField f => MField (unp_field f)
  end

with unp_field (f : field) : field :=
  match f with
  | FValue name plus vis value => FValue (unp_fname name) plus vis (strip_paren value)
  | FFunc name params sp vis value => FFunc (unp_fname name) (map unp_param params) sp vis (strip_paren value)
  end

with unp_fname (n : field_name) : field_name :=
  match n with
  | FnIdent _ | FnString _ _ => n
  | FnExpr e sp => FnExpr (strip_paren e) sp
  end

with unp_spec (c : comp_spec) : comp_spec :=
  match c with
  | CFor v inner => CFor v (strip_paren inner)
  | CIf cond => CIf (strip_paren cond)
  end

with unp_assert (a : assert_) : assert_ :=
  match a with MkAssert sp cond msg => MkAssert sp (strip_paren cond) (option_map strip_paren msg) end

with unp_bind (b : bind) : bind :=
  match b with
  | MkBind name params value =>
      MkBind name (match params with Some (ps, sp) => Some (map unp_param ps, sp) | None => None end)
             (strip_paren value)
  end

with unp_arg (a : arg) : arg :=
  match a with
  | APositional e => APositional (strip_paren e)
  | ANamed name e => ANamed name (strip_paren e)
  end

with unp_param (p : param) : param :=
  match p with MkParam name d => MkParam name (option_map strip_paren d) end.

(* ---------------------------------------------------------------- wp *)

(* the right edge of [e] is an `if` without `else`: a following `else` would be
   absorbed by it *)
Fixpoint dangling (e : expr) : bool :=
  match e with
  | EIf _ _ _ None => true
  | EIf _ _ _ (Some x) => dangling x
  | ELocal _ _ x | EFunc _ _ x | EAssert _ _ x | EImport _ x | EImportStr _ x | EImportBin _ x
  | EError _ x | EUnary _ _ x | EBinary _ _ _ x => dangling x
  | _ => false
  end.

Definition specs_ok (specs : list comp_spec) : bool :=
  match specs with CFor _ _ :: _ => true | _ => false end.

(* [wpx k last e]: [e] may stand, unparenthesised, where the grammar expects an
   operand of level [k]; [last] = nothing of the same parse_expr invocation
   follows it, so an open-ended form (local/if/function/assert/import/error)
   is allowed *)
Fixpoint wpx (k : nat) (last : bool) (e : expr) : bool :=
  match e with
  | ENull _ | EBool _ _ | ESelf _ | EDollar _ | EString _ _ | ETextBlock _ _ | ENumber _ _
  | ESuperField _ _ _ | EIdent _ _ => true
  | EParen _ x => wpx 0 true x
  | EObject _ o => wp_obj o
  | EArray _ items => forallb (wpx 0 true) items
  | EArrayComp _ x specs => wpx 0 true x && specs_ok specs && forallb wp_spec specs
  | EField _ x _ => wpx lv_postfix false x
  | EIndex _ x i => wpx lv_postfix false x && wpx 0 true i
  | ESlice _ x a b c => wpx lv_postfix false x && opt_all (wpx 0 true) a && opt_all (wpx 0 true) b && opt_all (wpx 0 true) c
  | ESuperIndex _ _ i => wpx 0 true i
  | ECall _ f args _ => wpx lv_postfix false f && forallb wp_arg args
  | ELocal _ binds body =>
      last && negb (match binds with [] => true | _ => false end) && forallb wp_bind binds && wpx 0 true body
  | EIf _ c t None => last && wpx 0 true c && wpx 0 true t
  | EIf _ c t (Some x) => last && wpx 0 true c && wpx 0 true t && negb (dangling t) && wpx 0 true x
  | EBinary _ l op r =>
      (k <=? binop_level op)%nat && wpx (binop_level op) false l && wpx (S (binop_level op)) last r
  | EUnary _ _ x => (k <=? lv_unary)%nat && wpx lv_unary last x
  | EObjExt _ x o _ => wpx lv_postfix false x && wp_obj o
  | EFunc _ params body => last && forallb wp_param params && wpx 0 true body
  | EAssert _ a body => last && wp_assert a && wpx 0 true body
  | EImport _ x | EImportStr _ x | EImportBin _ x | EError _ x => last && wpx 0 true x
  | EInSuper _ x _ => (k <=? lv_ordcmp)%nat && wpx lv_ordcmp false x
  end

with wp_obj (o : obj_inside) : bool :=
  match o with
  | OMembers ms => forallb wp_member ms
  | OComp l1 name _ body l2 specs =>
      forallb wp_bind l1 && wpx 0 true name && wpx 0 true body && forallb wp_bind l2 &&
      specs_ok specs && forallb wp_spec specs
  end

with wp_member (m : member) : bool :=
  match m with
  | MLocal b => wp_bind b
  | MAssert a => wp_assert a
  | MField f => wp_field f
  end

with wp_field (f : field) : bool :=
  match f with
  | FValue name _ _ value => wp_fname name && wpx 0 true value
  | FFunc name params _ _ value => wp_fname name && forallb wp_param params && wpx 0 true value
  end

with wp_fname (n : field_name) : bool :=
  match n with
  | FnIdent _ | FnString _ _ => true
  | FnExpr e _ => wpx 0 true e
  end

with wp_spec (c : comp_spec) : bool :=
  match c with
  | CFor _ inner => wpx 0 true inner
  | CIf cond => wpx 0 true cond
  end

with wp_assert (a : assert_) : bool :=
  match a with MkAssert _ cond msg => wpx 0 true cond && opt_all (wpx 0 true) msg end

with wp_bind (b : bind) : bool :=
  match b with
  | MkBind _ params value =>
      match params with Some (ps, _) => forallb wp_param ps | None => true end && wpx 0 true value
  end

with wp_arg (a : arg) : bool :=
  match a with
  | APositional e | ANamed _ e => wpx 0 true e
  end

with wp_param (p : param) : bool :=
  match p with MkParam _ d => opt_all (wpx 0 true) d end.

Definition wp (e : expr) : bool := wpx 0 true e.

(* ---------------------------------------------------------------- parenthesize *)

Definition needs_paren (k : nat) (last : bool) (e : expr) : bool :=
  match e with
  | EBinary _ _ op _ => negb (k <=? binop_level op)%nat
  | EUnary _ _ _ => negb (k <=? lv_unary)%nat
  | EInSuper _ _ _ => negb (k <=? lv_ordcmp)%nat
  | ELocal _ _ _ | EIf _ _ _ _ | EFunc _ _ _ | EAssert _ _ _
  | EImport _ _ | EImportStr _ _ | EImportBin _ _ | EError _ _ => negb last
  | _ => false
  end.

Definition guard_else (t : expr) : expr := if dangling t then EParen sp0 t else t.

(* minimal parentheses: wrap exactly the nodes that cannot stand at their position *)
Fixpoint par (k : nat) (last : bool) (e : expr) : expr :=
  let w := needs_paren k last e in
  let last' := last || w in
  let body :=
    match e with
    | ENull _ | EBool _ _ | ESelf _ | EDollar _ | EString _ _ | ETextBlock _ _ | ENumber _ _
    | ESuperField _ _ _ | EIdent _ _ => e
    | EParen sp x => EParen sp (par 0 true x)
    | EObject sp o => EObject sp (par_obj o)
    | EArray sp items => EArray sp (map (par 0 true) items)
    | EArrayComp sp x specs => EArrayComp sp (par 0 true x) (map par_spec specs)
    | EField sp x i => EField sp (par lv_postfix false x) i
    | EIndex sp x i => EIndex sp (par lv_postfix false x) (par 0 true i)
    | ESlice sp x a b c => ESlice sp (par lv_postfix false x) (option_map (par 0 true) a) (option_map (par 0 true) b) (option_map (par 0 true) c)
    | ESuperIndex sp ssp i => ESuperIndex sp ssp (par 0 true i)
    | ECall sp f args ts => ECall sp (par lv_postfix false f) (map par_arg args) ts
    | ELocal sp binds body => ELocal sp (map par_bind binds) (par 0 true body)
    | EIf sp c t None => EIf sp (par 0 true c) (par 0 true t) None
    | EIf sp c t (Some x) => EIf sp (par 0 true c) (guard_else (par 0 true t)) (Some (par 0 true x))
    | EBinary sp l op r => EBinary sp (par (binop_level op) false l) op (par (S (binop_level op)) last' r)
    | EUnary sp op x => EUnary sp op (par lv_unary last' x)
    | EObjExt sp x o osp => EObjExt sp (par lv_postfix false x) (par_obj o) osp
    | EFunc sp params body => EFunc sp (map par_param params) (par 0 true body)
    | EAssert sp a body => EAssert sp (par_assert a) (par 0 true body)
    | EImport sp x => EImport sp (par 0 true x)
    | EImportStr sp x => EImportStr sp (par 0 true x)
    | EImportBin sp x => EImportBin sp (par 0 true x)
    | EError sp x => EError sp (par 0 true x)
    | EInSuper sp x ssp => EInSuper sp (par lv_ordcmp false x) ssp
    end in
  if w then EParen sp0 body else body

with par_obj (o : obj_inside) : obj_inside :=
  match o with
  | OMembers ms => OMembers (map par_member ms)
  | OComp l1 name plus body l2 specs =>
      OComp (map par_bind l1) (par 0 true name) plus (par 0 true body) (map par_bind l2) (map par_spec specs)
  end

with par_member (m : member) : member :=
  match m with
  | MLocal b => MLocal (par_bind b)
  | MAssert a => MAssert (par_assert a)
  | MField f => MField (par_field f)
  end

with par_field (f : field) : field :=
  match f with
  | FValue name plus vis value => FValue (par_fname name) plus vis (par 0 true value)
  | FFunc name params sp vis value => FFunc (par_fname name) (map par_param params) sp vis (par 0 true value)
  end

with par_fname (n : field_name) : field_name :=
  match n with
  | FnIdent _ | FnString _ _ => n
  | FnExpr e sp => FnExpr (par 0 true e) sp
  end

with par_spec (c : comp_spec) : comp_spec :=
  match c with
  | CFor v inner => CFor v (par 0 true inner)
  | CIf cond => CIf (par 0 true cond)
  end

with par_assert (a : assert_) : assert_ :=
  match a with MkAssert sp cond msg => MkAssert sp (par 0 true cond) (option_map (par 0 true) msg) end

with par_bind (b : bind) : bind :=
  match b with
  | MkBind name params value =>
      MkBind name (match params with Some (ps, sp) => Some (map par_param ps, sp) | None => None end)
             (par 0 true value)
  end

with par_arg (a : arg) : arg :=
  match a with
  | APositional e => APositional (par 0 true e)
  | ANamed name e => ANamed name (par 0 true e)
  end

with par_param (p : param) : param :=
  match p with MkParam name d => MkParam name (option_map (par 0 true) d) end.

Definition parenthesize (e : expr) : expr := par 0 true e.
Definition print_minimal (e : expr) : list token := print_tokens (parenthesize e).

(* redundant parentheses: every sub-expression wrapped *)
Fixpoint full_paren (e : expr) : expr :=
  EParen sp0
    match e with
    | ENull _ | EBool _ _ | ESelf _ | EDollar _ | EString _ _ | ETextBlock _ _ | ENumber _ _
    | ESuperField _ _ _ | EIdent _ _ => e
    | EParen sp x => EParen sp (full_paren x)
    | EObject sp o => EObject sp (fp_obj o)
    | EArray sp items => EArray sp (map full_paren items)
    | EArrayComp sp x specs => EArrayComp sp (full_paren x) (map fp_spec specs)
    | EField sp x i => EField sp (full_paren x) i
    | EIndex sp x i => EIndex sp (full_paren x) (full_paren i)
    | ESlice sp x a b c => ESlice sp (full_paren x) (option_map full_paren a) (option_map full_paren b) (option_map full_paren c)
    | ESuperIndex sp ssp i => ESuperIndex sp ssp (full_paren i)
    | ECall sp f args ts => ECall sp (full_paren f) (map fp_arg args) ts
    | ELocal sp binds body => ELocal sp (map fp_bind binds) (full_paren body)
    | EIf sp c t x => EIf sp (full_paren c) (full_paren t) (option_map full_paren x)
    | EBinary sp l op r => EBinary sp (full_paren l) op (full_paren r)
    | EUnary sp op x => EUnary sp op (full_paren x)
    | EObjExt sp x o osp => EObjExt sp (full_paren x) (fp_obj o) osp
    | EFunc sp params body => EFunc sp (map fp_param params) (full_paren body)
    | EAssert sp a body => EAssert sp (fp_assert a) (full_paren body)
    | EImport sp x => EImport sp (full_paren x)
    | EImportStr sp x => EImportStr sp (full_paren x)
    | EImportBin sp x => EImportBin sp (full_paren x)
    | EError sp x => EError sp (full_paren x)
    | EInSuper sp x ssp => EInSuper sp (full_paren x) ssp
    end

with fp_obj (o : obj_inside) : obj_inside :=
  match o with
  | OMembers ms => OMembers (map fp_member ms)
  | OComp l1 name plus body l2 specs =>
      OComp (map fp_bind l1) (full_paren name) plus (full_paren body) (map fp_bind l2) (map fp_spec specs)
  end

with fp_member (m : member) : member :=
  match m with
  | MLocal b => MLocal (fp_bind b)
  | MAssert a => MAssert (fp_assert a)
  | MField f => MField (fp_field f)
  end

with fp_field (f : field) : field :=
  match f with
  | FValue name plus vis value => FValue (fp_fname name) plus vis (full_paren value)
  | FFunc name params sp vis value => FFunc (fp_fname name) (map fp_param params) sp vis (full_paren value)
  end

with fp_fname (n : field_name) : field_name :=
  match n with
  | FnIdent _ | FnString _ _ => n
  | FnExpr e sp => FnExpr (full_paren e) sp
  end

with fp_spec (c : comp_spec) : comp_spec :=
  match c with
  | CFor v inner => CFor v (full_paren inner)
  | CIf cond => CIf (full_paren cond)
  end

with fp_assert (a : assert_) : assert_ :=
  match a with MkAssert sp cond msg => MkAssert sp (full_paren cond) (option_map full_paren msg) end

with fp_bind (b : bind) : bind :=
  match b with
  | MkBind name params value =>
      MkBind name (match params with Some (ps, sp) => Some (map fp_param ps, sp) | None => None end)
             (full_paren value)
  end

with fp_arg (a : arg) : arg :=
  match a with
  | APositional e => APositional (full_paren e)
  | ANamed name e => ANamed name (full_paren e)
  end

with fp_param (p : param) : param :=
  match p with MkParam name d => MkParam name (option_map full_paren d) end.

Definition print_redundant (e : expr) : list token := print_tokens (full_paren e).
