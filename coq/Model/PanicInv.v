(* Model/PanicInv.v — the checker used by the panic-site inventory obligation of C01:
   every (file, fn, kind) of the current source must carry at most as many explicit panic
   sites as the reviewed baseline (Model/PanicBaseline.v). *)
From Coq Require Import String List NArith Bool.
Import ListNotations.
Local Open Scope N_scope.

Definition site := (string * string * string * N)%type.

Definition count_of (inv : list site) (f fn k : string) : N :=
  fold_left (fun acc (s : site) =>
    let '(f', fn', k', n) := s in
    if (String.eqb f f' && String.eqb fn fn' && String.eqb k k')%bool then acc + n else acc) inv 0.

Definition covered (src base : list site) : bool :=
  forallb (fun (s : site) => let '(f, fn, k, n) := s in n <=? count_of base f fn k) src.

Definition total (inv : list site) : N := fold_left (fun acc (s : site) => acc + snd s) inv 0.
