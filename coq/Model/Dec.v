(* Model/Dec.v — decimal <-> binary64, exactly.

   [dec_to_f64 d e]    the correctly rounded (nearest-even) double of the decimal
                       d * 10^e, by exact integer arithmetic and SpecFloat's own
                       division core + [binary_round_aux]; overflow -> +infinity.
                       This is the *model answer* for what Rust's [str::parse::<f64>]
                       returns on "<digits>e<exp>" (rsjsonnet-lang/src/program/analyze.rs
                       ExprKind::Number), for [std.parseInt] and for re-reading printed
                       numbers.
   [shortest_check]    x, d, e: d*10^e reads back as x and no multiple of 10^(e+1)
                       next to it does (which, proved in Proofs/Dec_proofs.v, means no
                       decimal with fewer digits reads back as x).
   [lit_parse]         the (digits, exponent) split of rsjsonnet-lang/src/lexer/mod.rs
                       [lex_number] on a literal's text.
   [check_printed]     text of the form -?D+(.D+)? printed for x (Rust [Display]):
                       sign agrees and the digits are a shortest representation.

   No proofs here (Proofs/Dec_proofs.v). *)
From Coq Require Import ZArith NArith Bool List Floats.SpecFloat.
From RJ Require Import Base.Outcome Base.F64.
Local Open Scope Z_scope.

(* ---------------------------------------------------------------- decimal -> double *)

Definition pow10 (k : Z) : positive := Z.to_pos (10 ^ k).

(* Short-circuits keep the integers small on absurd exponents (1e9223372036854775807):
   with L = floor(log2 d):  2^L <= d < 2^(L+1)  and  2^(3e) <= 10^e  (e >= 0),
   10^e <= 2^(3e) (e <= 0).  Both are proved to agree with correct rounding. *)
Definition dec_to_f64 (d : N) (e : Z) : f64 :=
  match d with
  | N0 => S754_zero false
  | Npos p =>
      let L := Z.log2 (Zpos p) in
      if (0 <=? e) && (1024 <=? L + 3 * e) then S754_infinity false
      else if (e <? 0) && (L + 1 + 3 * e <=? -1076) then S754_zero false
      else
        let nonneg := 0 <=? e in
        let num := Pos.mul p (if nonneg then pow10 e else xH) in
        let den := if nonneg then xH else pow10 (- e) in
        let '(mz, ez, lz) := SFdiv_core_binary prec emax (Zpos num) 0 (Zpos den) 0 in
        binary_round_aux prec emax false mz ez lz
  end.

(* signed variant: "-digits" *)
Definition dec_to_f64_s (neg : bool) (d : N) (e : Z) : f64 :=
  let v := dec_to_f64 d e in if neg then SFopp v else v.

(* ---------------------------------------------------------------- digit counting *)

Fixpoint ndigits_aux (fuel : nat) (d : N) (acc : N) : N :=
  match fuel with
  | O => (acc + 1)%N
  | S k => if (d <? 10)%N then (acc + 1)%N else ndigits_aux k (d / 10)%N (acc + 1)%N
  end.

(* number of decimal digits; ndigits 0 = 1 *)
Definition ndigits (d : N) : N := ndigits_aux (N.to_nat (N.size d)) d 0.

(* ---------------------------------------------------------------- structural equality *)

Definition sf_eqb (a b : f64) : bool :=
  match a, b with
  | S754_zero s1, S754_zero s2 => Bool.eqb s1 s2
  | S754_infinity s1, S754_infinity s2 => Bool.eqb s1 s2
  | S754_nan, S754_nan => true
  | S754_finite s1 m1 e1, S754_finite s2 m2 e2 => Bool.eqb s1 s2 && Pos.eqb m1 m2 && Z.eqb e1 e2
  | _, _ => false
  end.

(* ---------------------------------------------------------------- shortest check *)

(* x is expected non-negative (sign handled by the caller) *)
Definition shortest_check (x : f64) (d : N) (e : Z) : bool :=
  sf_eqb (dec_to_f64 d e) x &&
  (if (ndigits d =? 1)%N then true
   else negb (sf_eqb (dec_to_f64 (d / 10)%N (e + 1)) x) &&
        negb (sf_eqb (dec_to_f64 (d / 10 + 1)%N (e + 1)) x)).

(* ---------------------------------------------------------------- literal text -> (digits, exp)
   rsjsonnet-lang/src/lexer/mod.rs lex_number, as a whole-string recogniser.
   Code points: '0'..'9' = 48..57, '_' = 95, '.' = 46, 'e' = 101, 'E' = 69, '+' = 43, '-' = 45 *)

Inductive lit_err := LeadingZeroInNumber | MissingFracDigits | MissingExpDigits
                   | MissingDigitAfterUnderscore | ExpOverflow | NotANumber | Trailing.

Definition is_digit (c : N) : bool := ((48 <=? c) && (c <=? 57))%N.
Definition digit_val (c : N) : N := (c - 48)%N.

Inductive lstate := IntDigits (u : bool) | Dot | FracDigits (u : bool) | Exp | ExpSign | ExpDigits (u : bool).

(* accumulators: digits value, number of digits pushed, implicit exponent,
   explicit exponent, its sign *)
Record lacc := { a_d : N; a_n : N; a_imp : Z; a_exp : Z; a_neg : bool }.

Definition push_digit (a : lacc) (c : N) (frac : bool) : lacc :=
  {| a_d := (a_d a * 10 + digit_val c)%N; a_n := (a_n a + 1)%N;
     a_imp := if frac then a_imp a - 1 else a_imp a; a_exp := a_exp a; a_neg := a_neg a |}.
Definition set_exp (a : lacc) (v : Z) : lacc :=
  {| a_d := a_d a; a_n := a_n a; a_imp := a_imp a; a_exp := v; a_neg := a_neg a |}.
Definition set_neg (a : lacc) : lacc :=
  {| a_d := a_d a; a_n := a_n a; a_imp := a_imp a; a_exp := a_exp a; a_neg := true |}.

Definition lit_finish (a : lacc) : outcome (N * Z) lit_err :=
  (* explicit exponent: u64 accumulation, then i64::try_from, then checked add/sub *)
  if (2 ^ 63 <=? a_exp a) then Err ExpOverflow
  else
    let r := if a_neg a then a_imp a - a_exp a else a_imp a + a_exp a in
    if (r <? - 2 ^ 63) || (2 ^ 63 <=? r) then Err ExpOverflow else Ok (a_d a, r).

(* [leading_zero]: first digit was '0' and it is still the only digit *)
Fixpoint lit_go (s : list N) (st : lstate) (lz : bool) (a : lacc) : outcome (N * Z) lit_err :=
  match st, s with
  | IntDigits u, c :: r =>
      if is_digit c then
        if lz && (a_n a =? 1)%N then Err LeadingZeroInNumber
        else lit_go r (IntDigits false) lz (push_digit a c false)
      else if negb u && (c =? 95)%N then lit_go r (IntDigits true) lz a
      else if (c =? 46)%N then lit_go r Dot lz a
      else if (c =? 101)%N || (c =? 69)%N then lit_go r Exp lz a
      else if u then Err MissingDigitAfterUnderscore
      else Err Trailing
  | IntDigits u, [] => if u then Err MissingDigitAfterUnderscore else lit_finish a
  | Dot, c :: r =>
      if is_digit c then lit_go r (FracDigits false) lz (push_digit a c true)
      else Err MissingFracDigits
  | Dot, [] => Err MissingFracDigits
  | FracDigits u, c :: r =>
      if is_digit c then lit_go r (FracDigits false) lz (push_digit a c true)
      else if negb u && (c =? 95)%N then lit_go r (FracDigits true) lz a
      else if (c =? 101)%N || (c =? 69)%N then lit_go r Exp lz a
      else if u then Err MissingDigitAfterUnderscore
      else Err Trailing
  | FracDigits u, [] => if u then Err MissingDigitAfterUnderscore else lit_finish a
  | Exp, c :: r =>
      if (c =? 43)%N then lit_go r ExpSign lz a
      else if (c =? 45)%N then lit_go r ExpSign lz (set_neg a)
      else if is_digit c then lit_go r (ExpDigits false) lz (set_exp a (Z.of_N (digit_val c)))
      else Err MissingExpDigits
  | Exp, [] => Err MissingExpDigits
  | ExpSign, c :: r =>
      if is_digit c then lit_go r (ExpDigits false) lz (set_exp a (Z.of_N (digit_val c)))
      else Err MissingExpDigits
  | ExpSign, [] => Err MissingExpDigits
  | ExpDigits u, c :: r =>
      if is_digit c then
        (* u64 checked_mul/checked_add: saturate at 2^64 (any value >= 2^63 is an overflow later) *)
        let v := a_exp a * 10 + Z.of_N (digit_val c) in
        lit_go r (ExpDigits false) lz (set_exp a (Z.min v (2 ^ 64)))
      else if negb u && (c =? 95)%N then lit_go r (ExpDigits true) lz a
      else if u then Err MissingDigitAfterUnderscore
      else Err Trailing
  | ExpDigits u, [] => if u then Err MissingDigitAfterUnderscore else lit_finish a
  end.

Definition lit_parse (s : list N) : outcome (N * Z) lit_err :=
  match s with
  | c :: r =>
      if is_digit c then
        lit_go r (IntDigits false) (c =? 48)%N
               {| a_d := digit_val c; a_n := 1; a_imp := 0; a_exp := 0; a_neg := false |}
      else Err NotANumber
  | [] => Err NotANumber
  end.

(* the value of a literal as the analyzer/evaluator produce it:
   analyze.rs   format!("{}e{}", digits, exp).parse().unwrap()   (Rust FromStr = dec_to_f64, checked per case)
   expr.rs      Expr::Number => check_number_value: infinite -> NumberOverflow *)
Inductive lit_value_err := LitNumberOverflow | LitNumberNan.

Definition literal_value (d : N) (e : Z) : outcome f64 lit_value_err :=
  match dec_to_f64 d e with
  | S754_nan => Err LitNumberNan
  | S754_infinity _ => Err LitNumberOverflow
  | v => Ok v
  end.

(* ---------------------------------------------------------------- printed text -> check *)

(* -?D+(.D+)?  ->  (neg, digits, -#fraction digits) *)
Fixpoint printed_go (s : list N) (frac : bool) (seen : bool) (d : N) (e : Z) : option (N * Z) :=
  match s with
  | [] => if seen then Some (d, e) else None
  | c :: r =>
      if is_digit c then printed_go r frac true (d * 10 + digit_val c)%N (if frac then e - 1 else e)
      else if (c =? 46)%N && negb frac && seen then printed_go r true false d e
      else None
  end.

Definition printed_parse (s : list N) : option (bool * N * Z) :=
  match s with
  | 45%N :: r => match printed_go r false false 0%N 0 with Some (d, e) => Some (true, d, e) | None => None end
  | _ => match printed_go s false false 0%N 0 with Some (d, e) => Some (false, d, e) | None => None end
  end.

Fixpoint strip_zeros (fuel : nat) (d : N) (e : Z) : N * Z :=
  match fuel with
  | O => (d, e)
  | S k => if (d =? 0)%N then (d, e)
           else if (d mod 10 =? 0)%N then strip_zeros k (d / 10)%N (e + 1) else (d, e)
  end.

Definition check_printed (x : f64) (text : list N) : bool :=
  match printed_parse text with
  | None => false
  | Some (neg, d, e) =>
      let '(d', e') := strip_zeros (length text) d e in
      Bool.eqb neg (f_sign x) && f_is_finite x &&
      (if (d' =? 0)%N then f_is_zero x else shortest_check (SFabs x) d' e')
  end.
