(* Model/RefCore.v — C02 reference semantics, part 1: core syntax and the
   desugaring from the public AST (Model/Ast.v) written from the Jsonnet
   specification's desugaring rules:

     e1 != e2            ~>  !(e1 == e2)
     e { ... }           ~>  e + { ... }
     if c then a         ~>  if c then a else null
     local f(x) = b      ~>  local f = function(x) b      (also object locals, method fields)
     ( e )               ~>  e
     |||text|||          ~>  "text"
     $                   ~>  variable "$", bound by every outermost object as  local $ = self
     e.f                 ~>  kept as CField (same value as e["f"]; differs only in the error class)
     assert c : m; e     ~>  kept as CAssert (the spec's  if c then e else error m  up to the error class)

   No proofs here. *)
From RJ Require Import Base.Outcome Base.F64 Model.Token Model.Ast.
From Coq Require Import Floats.SpecFloat.
Local Open Scope N_scope.

(* builtins of the model's std object (stage 1) *)
Inductive builtin :=
| BiType | BiIsArray | BiIsBoolean | BiIsFunction | BiIsNumber | BiIsObject | BiIsString | BiIsNull
| BiLength | BiObjectHasEx | BiObjectFieldsEx | BiObjectHas | BiObjectHasAll | BiObjectFields | BiObjectFieldsAll
| BiPrimitiveEquals | BiEquals | BiCompare | BiMakeArray | BiMap | BiFilter | BiFoldl | BiFoldr
| BiRange | BiRepeat | BiSlice | BiJoin | BiMod | BiModulo | BiTrace | BiToString | BiAssertEqual
(* stage 2 *)
| BiAll | BiAny | BiSum | BiReverse | BiStringChars | BiChar | BiCodepoint | BiFlattenArrays
| BiContains | BiMember | BiCount | BiStartsWith | BiEndsWith | BiMapWithIndex.

Inductive cexpr :=
| CNull
| CBool (b : bool)
| CNum (f : f64)
| CStr (s : str)
| CSelf
| CVar (x : str)
| CObject (locals : list (str * cexpr)) (asserts : list (cexpr * option cexpr)) (fields : list cfield)
| CObjComp (locals : list (str * cexpr)) (name : cexpr) (plus : bool) (body : cexpr) (specs : list cspec)
| CArray (items : list cexpr)
| CArrComp (body : cexpr) (specs : list cspec)
| CField (e : cexpr) (name : str)
| CIndex (e i : cexpr)
| CSlice (e : cexpr) (a b c : option cexpr)
| CSuperField (name : str)
| CSuperIndex (i : cexpr)
| CInSuper (e : cexpr)
| CCall (f : cexpr) (pos : list cexpr) (named : list (str * cexpr)) (tailstrict : bool) (in_tail : bool)
| CLocal (binds : list (str * cexpr)) (body : cexpr)
| CIte (c t e : cexpr)
| CBin (op : binary_op) (l r : cexpr)
| CUn (op : unary_op) (e : cexpr)
| CFunc (params : list (str * option cexpr)) (body : cexpr)
| CError (e : cexpr)
| CAssert (c : cexpr) (m : option cexpr) (body : cexpr)
| CBuiltin (b : builtin)
| CUnsupported (what : str)
with cfield :=
| CFld (name : cfname) (plus : bool) (vis : visibility) (body : cexpr)
with cfname :=
| CFix (s : str)
| CDyn (e : cexpr)
with cspec :=
| CSFor (x : str) (e : cexpr)
| CSIf (e : cexpr).

(* ---- decimal literal -> double, correctly rounded (what Rust's f64::from_str does) ---- *)
Fixpoint digits_val (ds : str) (acc : Z) : Z :=
  match ds with
  | [] => acc
  | d :: r => digits_val r (acc * 10 + (Z.of_N d - 48))%Z
  end.

Definition dec_to_f64 (ds : str) (ex : Z) : f64 :=
  (let m := digits_val ds 0 in
  if m =? 0 then f_zero
  else
    let nd := Z.log2 m / 3 + 1 in          (* >= number of decimal digits *)
    if 400 <? Z.log2 m * 3 / 10 + ex then f_inf false       (* m >= 2^log2 m >= 10^(0.3 log2 m) *)
    else if nd + ex <? -400 then f_zero
    else if 0 <=? ex then f_of_Z (m * 10 ^ ex)
    else
      let den := 10 ^ (- ex) in
      let k := Z.max 0 (Z.log2 den + 66 - Z.log2 m) in
      let num := m * 2 ^ k in
      let q := num / den in
      let sticky := if num mod den =? 0 then 0 else 1 in
      f_of_Z_exp (2 * q + sticky) (- k - 1))%Z.

Definition num_to_f64 (n : number) : f64 := dec_to_f64 (num_digits n) (num_exp n).

(* ---- desugaring ---- *)
Definition dollar : str := [36].
Definition s_import : str := [105; 109; 112; 111; 114; 116].   (* "import" *)

Definition add_dollar (in_obj : bool) (locals : list (str * cexpr)) : list (str * cexpr) :=
  if in_obj then locals else (dollar, CSelf) :: locals.

Section Desugar.
(* [io] : are we lexically inside an object (self/super/$ available);
   [tl] : can this expression be a tail call of the enclosing function (the
          position in which the implementation honours `tailstrict`) *)
Fixpoint ds_expr (io tl : bool) (e : expr) {struct e} : cexpr :=
  match e with
  | ENull _ => CNull
  | EBool _ b => CBool b
  | ESelf _ => CSelf
  | EDollar _ => CVar dollar
  | EString _ s => CStr s
  | ETextBlock _ s => CStr s
  | ENumber _ n => CNum (num_to_f64 n)
  | EParen _ x => ds_expr io false x
  | EObject _ o => ds_obj io o
  | EArray _ items => CArray (map (ds_expr io false) items)
  | EArrayComp _ x specs => CArrComp (ds_expr io false x) (map (ds_spec io) specs)
  | EField _ x name => CField (ds_expr io false x) (id_value name)
  | EIndex _ x i => CIndex (ds_expr io false x) (ds_expr io false i)
  | ESlice _ x a b c =>
      CSlice (ds_expr io false x) (option_map (ds_expr io false) a)
             (option_map (ds_expr io false) b) (option_map (ds_expr io false) c)
  | ESuperField _ _ name => CSuperField (id_value name)
  | ESuperIndex _ _ i => CSuperIndex (ds_expr io false i)
  | ECall _ f args ts =>
      CCall (ds_expr io false f) (flat_map (ds_pos_of io) args) (flat_map (ds_named_of io) args) ts tl
  | EIdent _ name => CVar (id_value name)
  | ELocal _ binds body => CLocal (map (ds_bind io) binds) (ds_expr io tl body)
  | EIf _ c t None => CIte (ds_expr io false c) (ds_expr io tl t) CNull
  | EIf _ c t (Some f) => CIte (ds_expr io false c) (ds_expr io tl t) (ds_expr io tl f)
  | EBinary _ l BNe r => CUn ULogicNot (CBin BEq (ds_expr io false l) (ds_expr io false r))
  | EBinary _ l op r => CBin op (ds_expr io false l) (ds_expr io false r)
  | EUnary _ op x => CUn op (ds_expr io false x)
  | EObjExt _ x o _ => CBin BAdd (ds_expr io false x) (ds_obj io o)
  | EFunc _ params body => CFunc (map (ds_param io) params) (ds_expr io true body)
  | EAssert _ (MkAssert _ c m) body =>
      CAssert (ds_expr io false c) (option_map (ds_expr io false) m) (ds_expr io tl body)
  | EImport _ _ => CUnsupported s_import
  | EImportStr _ _ => CUnsupported s_import
  | EImportBin _ _ => CUnsupported s_import
  | EError _ x => CError (ds_expr io false x)
  | EInSuper _ x _ => CInSuper (ds_expr io false x)
  end

with ds_obj (io : bool) (o : obj_inside) {struct o} : cexpr :=
  match o with
  | OMembers ms =>
      CObject (add_dollar io (flat_map ds_local_of ms)) (flat_map ds_assert_of ms) (flat_map (ds_field_of io) ms)
  | OComp l1 name plus body l2 specs =>
      CObjComp (add_dollar io (map (ds_bind true) l1 ++ map (ds_bind true) l2))
               (ds_expr io false name) plus (ds_expr true false body) (map (ds_spec io) specs)
  end

with ds_local_of (m : member) {struct m} : list (str * cexpr) :=
  match m with
  | MLocal b => [ds_bind true b]
  | _ => []
  end

with ds_assert_of (m : member) {struct m} : list (cexpr * option cexpr) :=
  match m with
  | MAssert (MkAssert _ c mm) => [(ds_expr true false c, option_map (ds_expr true false) mm)]
  | _ => []
  end

with ds_field_of (io : bool) (m : member) {struct m} : list cfield :=
  match m with
  | MField (FValue name plus vis v) =>
      [CFld (ds_fname io name) plus vis (ds_expr true false v)]
  | MField (FFunc name params _ vis v) =>
      [CFld (ds_fname io name) false vis (CFunc (map (ds_param true) params) (ds_expr true true v))]
  | _ => []
  end

with ds_fname (io : bool) (n : field_name) {struct n} : cfname :=
  match n with
  | FnIdent i => CFix (id_value i)
  | FnString s _ => CFix s
  | FnExpr e _ => CDyn (ds_expr io false e)
  end

with ds_spec (io : bool) (c : comp_spec) {struct c} : cspec :=
  match c with
  | CFor v inner => CSFor (id_value v) (ds_expr io false inner)
  | CIf cond => CSIf (ds_expr io false cond)
  end

with ds_bind (io : bool) (b : bind) {struct b} : str * cexpr :=
  match b with
  | MkBind name None v => (id_value name, ds_expr io false v)
  | MkBind name (Some (params, _)) v =>
      (id_value name, CFunc (map (ds_param io) params) (ds_expr io true v))
  end

with ds_pos_of (io : bool) (a : arg) {struct a} : list cexpr :=
  match a with
  | APositional e => [ds_expr io false e]
  | ANamed _ _ => []
  end

with ds_named_of (io : bool) (a : arg) {struct a} : list (str * cexpr) :=
  match a with
  | APositional _ => []
  | ANamed n e => [(id_value n, ds_expr io false e)]
  end

with ds_param (io : bool) (p : param) {struct p} : str * option cexpr :=
  match p with
  | MkParam name d => (id_value name, option_map (ds_expr io false) d)
  end.
End Desugar.

Definition desugar (e : expr) : cexpr := ds_expr false false e.
