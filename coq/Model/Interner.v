(* Model/Interner.v — the string interner (rsjsonnet-lang/src/interner/) as a
   monotone set, and field lookup by a computed name.

   [StrInterner::intern] adds a string if it is not there and returns its
   identity; [get_interned] only looks.  Nothing is ever removed.  Object field
   names are interned identities, so a lookup `obj[s]` for a computed string [s]
   (State::Index in eval/mod.rs, std.objectHas*, std.get, `in`) first asks
   [get_interned s]: when [s] was never interned by anybody the answer is
   "unknown field" without looking at the object.

   Identity = position in the vector (the Rust code uses the arena address; only
   equality of identities is observable, and [SortedInternedStr] orders by
   content). *)
From RJ Require Import Base.Outcome.
Local Open Scope N_scope.

Definition str := list N.

Fixpoint str_eqb (a b : str) : bool :=
  match a, b with
  | [], [] => true
  | x :: a', y :: b' => (x =? y) && str_eqb a' b'
  | _, _ => false
  end.

Definition interner := list str.      (* identity i = i-th string ever interned *)

Fixpoint find_from (i : N) (l : interner) (s : str) : option N :=
  match l with
  | [] => None
  | x :: t => if str_eqb x s then Some i else find_from (i + 1) t s
  end.

(* StrInterner::get_interned *)
Definition get_interned (it : interner) (s : str) : option N := find_from 0 it s.

(* StrInterner::intern *)
Definition intern (it : interner) (s : str) : interner * N :=
  match get_interned it s with
  | Some i => (it, i)
  | None => (it ++ [s], N.of_nat (length it))
  end.

(* an object: its fields as (interned name, payload) *)
Definition obj := list (N * N).

Fixpoint find_field (o : obj) (name : N) : option N :=
  match o with
  | [] => None
  | (n, v) :: t => if n =? name then Some v else find_field t name
  end.

(* State::Index on an object with a computed string: None = UnknownObjectField *)
Definition lookup (it : interner) (o : obj) (s : str) : option N :=
  match get_interned it s with
  | None => None
  | Some name => find_field o name
  end.

(* the reference: compare the field names' contents with the string *)
Fixpoint lookup_ref (it : interner) (o : obj) (s : str) : option N :=
  match o with
  | [] => None
  | (n, v) :: t =>
      match nth_error it (N.to_nat n) with
      | Some x => if str_eqb x s then Some v else lookup_ref it t s
      | None => lookup_ref it t s
      end
  end.

Fixpoint intern_all (it : interner) (ss : list str) : interner :=
  match ss with
  | [] => it
  | s :: t => intern_all (fst (intern it s)) t
  end.

(* State::SuperIndex (`super[e]`, also `e in super`): the enclosing object may have no
   super object at all.  [sup = None] is that case.
     super_lookup      the code after repo commit db09b8e: the missing super object is
                       reported whether or not the name is interned;
     super_lookup_old  the code before: the never-interned shortcut came first. *)
Inductive sres := SFound (v : N) | SUnknownField | SNoSuper.

Definition super_lookup (it : interner) (sup : option obj) (s : str) : sres :=
  match get_interned it s with
  | Some name =>
      match sup with
      | None => SNoSuper                       (* want_super_field *)
      | Some o => match find_field o name with Some v => SFound v | None => SUnknownField end
      end
  | None =>
      match sup with
      | None => SNoSuper
      | Some _ => SUnknownField
      end
  end.

Definition super_lookup_old (it : interner) (sup : option obj) (s : str) : sres :=
  match get_interned it s with
  | Some name =>
      match sup with
      | None => SNoSuper
      | Some o => match find_field o name with Some v => SFound v | None => SUnknownField end
      end
  | None => SUnknownField
  end.

(* the reference: no interner shortcut *)
Definition super_lookup_ref (it : interner) (sup : option obj) (s : str) : sres :=
  match sup with
  | None => SNoSuper
  | Some o => match lookup_ref it o s with Some v => SFound v | None => SUnknownField end
  end.
