(* Model/DepthSem.v — a fuel-indexed evaluator of a recursion-shaped core of
   Jsonnet carrying the frame limit and the current logical depth, with a
   thunk store whose cells can be [CInProgress].

   The core: global one-parameter functions (mutually recursive), a group of
   mutually recursive local thunks, numbers, lazily evaluated arrays,
   indexing, `+`, `- 1`, `if c == 0`, deep `==` and `<`, std.toString, and the
   top-level sequence "evaluate, force deeply, manifest".

   Frame accounting follows rsjsonnet-lang/src/program/eval (one frame =
   one TraceItem counted in stack_trace_len):
     variable / parameter / array-index force of a thunk that is not yet a
       value: one frame around the evaluation of the thunk, entered BEFORE the
       thunk's state is looked at (want_thunk_direct pushes the trace item,
       DoThunk then finds Pending / InProgress);
     a call: one frame around the body;
     `==` / `<` expression: one frame around both operands and the comparison;
     each array nesting level of a deep comparison, of the deep force
       (DeepValue) and of manifestation: one frame around the two / the one
       element, the elements themselves being forced without a further frame;
     std.length(std.toString(e)): a fixed number of frames ([tostring_frames],
       an upper bound of what the two calls and the argument forces cost).
   The overflow test is the evaluator's: entering depth d+1 fails with
   [StackOverflow] iff  L < d+1.
   The count is exact for thunk cycles (see notes/C10.md) and an upper bound
   elsewhere: the correspondence check relies only on "model succeeds under L
   => implementation succeeds under L". *)
From RJ Require Import Base.Outcome.
Local Open Scope N_scope.
Local Open Scope outcome_scope.

Inductive expr :=
| ENum (z : Z)
| ELoc (i : N)                 (* local thunk number i *)
| EArg                         (* the parameter of the enclosing function *)
| ECall (f : N) (a : expr)     (* global function f applied to a lazily evaluated argument *)
| EAdd (a b : expr)            (* numbers: sum; arrays: concatenation *)
| EDec (a : expr)              (* a - 1 *)
| EIfZ (c a b : expr)          (* if c == 0 then a else b *)
| EArr (es : list expr)
| EIdx (a : expr) (i : N)      (* a[i] *)
| EEq (a b : expr)             (* if a == b then 1 else 0 *)
| ELt (a b : expr)             (* if a < b then 1 else 0 *)
| EStrLen (a : expr).          (* std.length(std.toString(a)) *)

Inductive value := VNum (z : Z) | VArr (ts : list N).

Inductive cell :=
| CPending (e : expr) (env : option N)
| CInProgress
| CDone (v : value).

Record store := { cells : list cell; peak : N }.

Inductive derr := StackOverflow | InfiniteRecursion | TypeError | BadProgram.
Notation res A := (outcome A derr).

Record program := { funs : list expr; locs : list expr; main : expr }.

Definition nthN {A} (l : list A) (i : N) : option A :=
  if N.of_nat (length l) <=? i then None else nth_error l (N.to_nat i).

Fixpoint set_nth {A} (l : list A) (i : nat) (x : A) : list A :=
  match l, i with
  | [], _ => []
  | _ :: r, O => x :: r
  | y :: r, S j => y :: set_nth r j x
  end.

Definition set_cell (st : store) (i : N) (c : cell) : store :=
  {| cells := set_nth (cells st) (N.to_nat i) c; peak := peak st |}.

Definition alloc (st : store) (c : cell) : N * store :=
  (N.of_nat (length (cells st)), {| cells := cells st ++ [c]; peak := peak st |}).

(* a literal number is a value from the start (try_value_from_expr) *)
Definition cell_of (e : expr) (env : option N) : cell :=
  match e with ENum z => CDone (VNum z) | _ => CPending e env end.

Fixpoint alloc_all (st : store) (es : list expr) (env : option N) : list N * store :=
  match es with
  | [] => ([], st)
  | e :: r => let '(t, st1) := alloc st (cell_of e env) in
              let '(ts, st2) := alloc_all st1 r env in (t :: ts, st2)
  end.

(* the overflow test: one more frame at depth d *)
Definition enter (L d : N) (st : store) : res store :=
  if L <? d + 1 then Err StackOverflow
  else Ok {| cells := cells st; peak := N.max (peak st) (d + 1) |}.

Definition tostring_frames : N := 4.

(* decimal digits of a number, as code points *)
Fixpoint dec_pos (fuel : nat) (n : N) (acc : list N) : list N :=
  match fuel with
  | O => acc
  | S k => let acc' := (48 + n mod 10) :: acc in
           if n / 10 =? 0 then acc' else dec_pos k (n / 10) acc'
  end.
Definition dec_N (n : N) : list N := dec_pos (S (N.to_nat (N.log2 n))) n [].
Definition dec_Z (z : Z) : list N :=
  match z with
  | Z0 => [48]
  | Zpos p => dec_N (Npos p)
  | Zneg p => 45 :: dec_N (Npos p)
  end.

Inductive task :=
| KEval (env : option N) (e : expr)
| KForce (framed : bool) (i : N)
| KEqual (a b : value)
| KEqItems (xs ys : list N)
| KCompare (a b : value)
| KCmpItems (xs ys : list N)
| KDeep (v : value)
| KDeepItems (ts : list (N * bool))
| KManifest (v : value)
| KManItems (ts : list N).

Inductive rv :=
| RVal (v : value)
| RBool (b : bool)
| ROrd (c : comparison)
| RStr (s : list N)
| RUnit.

Definition as_val (r : rv) : res value := match r with RVal v => Ok v | _ => Panic "DepthSem:as_val" end.
Definition as_bool (r : rv) : res bool := match r with RBool b => Ok b | _ => Panic "DepthSem:as_bool" end.
Definition as_ord (r : rv) : res comparison := match r with ROrd c => Ok c | _ => Panic "DepthSem:as_ord" end.
Definition as_str (r : rv) : res (list N) := match r with RStr s => Ok s | _ => Panic "DepthSem:as_str" end.

Definition might_need_deep (st : store) (t : N) : bool :=
  match nthN (cells st) t with
  | Some (CDone (VNum _)) => false
  | _ => true
  end.

Definition num_of_bool (b : bool) : value := VNum (if b then 1 else 0)%Z.

Section Run.
Variable P : list expr.     (* the function bodies *)
Variable L : N.             (* the configured limit (max_stack) *)

Fixpoint run (fuel : nat) (d : N) (st : store) (k : task) : res (rv * store) :=
  match fuel with
  | O => OutOfFuel
  | S fuel' =>
    let go := run fuel' in
    match k with
    | KEval env e =>
      match e with
      | ENum z => Ok (RVal (VNum z), st)
      | ELoc i => go d st (KForce true i)
      | EArg => match env with
                | Some t => go d st (KForce true t)
                | None => Err BadProgram
                end
      | ECall f a =>
          match nthN P f with
          | None => Err BadProgram
          | Some body =>
              let '(t, st1) := alloc st (cell_of a env) in
              do st2 <- enter L d st1;
              go (d + 1) st2 (KEval (Some t) body)
          end
      | EAdd a b =>
          do (ra, st1) <- go d st (KEval env a);
          do va <- as_val ra;
          do (rb, st2) <- go d st1 (KEval env b);
          do vb <- as_val rb;
          match va, vb with
          | VNum x, VNum y => Ok (RVal (VNum (x + y)), st2)
          | VArr xs, VArr ys => Ok (RVal (VArr (xs ++ ys)), st2)
          | _, _ => Err TypeError
          end
      | EDec a =>
          do (ra, st1) <- go d st (KEval env a);
          do va <- as_val ra;
          match va with
          | VNum x => Ok (RVal (VNum (x - 1)), st1)
          | _ => Err TypeError
          end
      | EIfZ c a b =>
          do st0 <- enter L d st;
          do (rc, st1) <- go (d + 1) st0 (KEval env c);
          do vc <- as_val rc;
          do (rb, st2) <- go (d + 1) st1 (KEqual vc (VNum 0));
          do bz <- as_bool rb;
          go d st2 (KEval env (if bz then a else b))
      | EArr es =>
          let '(ts, st1) := alloc_all st es env in Ok (RVal (VArr ts), st1)
      | EIdx a i =>
          do (ra, st1) <- go d st (KEval env a);
          do va <- as_val ra;
          match va with
          | VArr ts => match nthN ts i with
                       | Some t => go d st1 (KForce true t)
                       | None => Err TypeError
                       end
          | _ => Err TypeError
          end
      | EEq a b =>
          do st0 <- enter L d st;
          do (ra, st1) <- go (d + 1) st0 (KEval env a);
          do va <- as_val ra;
          do (rb, st2) <- go (d + 1) st1 (KEval env b);
          do vb <- as_val rb;
          do (rq, st3) <- go (d + 1) st2 (KEqual va vb);
          do q <- as_bool rq;
          Ok (RVal (num_of_bool q), st3)
      | ELt a b =>
          do st0 <- enter L d st;
          do (ra, st1) <- go (d + 1) st0 (KEval env a);
          do va <- as_val ra;
          do (rb, st2) <- go (d + 1) st1 (KEval env b);
          do vb <- as_val rb;
          do (rq, st3) <- go (d + 1) st2 (KCompare va vb);
          do q <- as_ord rq;
          Ok (RVal (num_of_bool (match q with Lt => true | _ => false end)), st3)
      | EStrLen a =>
          do st0 <- enter L (d + (tostring_frames - 1)) st;
          do (ra, st1) <- go (d + tostring_frames) st0 (KEval env a);
          do va <- as_val ra;
          do (rs, st2) <- go (d + tostring_frames) st1 (KManifest va);
          do s <- as_str rs;
          Ok (RVal (VNum (Z.of_nat (length s))), st2)
      end
    | KForce framed i =>
      match nthN (cells st) i with
      | None => Err BadProgram
      | Some (CDone v) => Ok (RVal v, st)
      | Some c =>
          do st0 <- (if framed then enter L d st else Ok st);
          let d' := if framed then d + 1 else d in
          match c with
          | CPending e env =>
              do (r, st1) <- go d' (set_cell st0 i CInProgress) (KEval env e);
              do v <- as_val r;
              Ok (RVal v, set_cell st1 i (CDone v))
          | _ => Err InfiniteRecursion
          end
      end
    | KEqual a b =>
      match a, b with
      | VNum x, VNum y => Ok (RBool (x =? y)%Z, st)
      | VArr xs, VArr ys =>
          if negb (length xs =? length ys)%nat then Ok (RBool false, st)
          else match xs with
               | [] => Ok (RBool true, st)
               | _ => go d st (KEqItems xs ys)
               end
      | _, _ => Ok (RBool false, st)
      end
    | KEqItems xs ys =>
      match xs, ys with
      | x :: xs', y :: ys' =>
          do st0 <- enter L d st;
          do (rx, st1) <- go (d + 1) st0 (KForce false x);
          do vx <- as_val rx;
          do (ry, st2) <- go (d + 1) st1 (KForce false y);
          do vy <- as_val ry;
          do (rq, st3) <- go (d + 1) st2 (KEqual vx vy);
          do q <- as_bool rq;
          match xs' with
          | [] => Ok (RBool q, st3)
          | _ => if q then go d st3 (KEqItems xs' ys') else Ok (RBool false, st3)
          end
      | _, _ => Panic "DepthSem:KEqItems:length"
      end
    | KCompare a b =>
      match a, b with
      | VNum x, VNum y => Ok (ROrd (x ?= y)%Z, st)
      | VArr xs, VArr ys =>
          match xs, ys with
          | [], [] => Ok (ROrd Eq, st)
          | [], _ => Ok (ROrd Lt, st)
          | _, [] => Ok (ROrd Gt, st)
          | _, _ => go d st (KCmpItems xs ys)
          end
      | _, _ => Err TypeError
      end
    | KCmpItems xs ys =>
      match xs, ys with
      | x :: xs', y :: ys' =>
          do st0 <- enter L d st;
          do (rx, st1) <- go (d + 1) st0 (KForce false x);
          do vx <- as_val rx;
          do (ry, st2) <- go (d + 1) st1 (KForce false y);
          do vy <- as_val ry;
          do (rq, st3) <- go (d + 1) st2 (KCompare vx vy);
          do q <- as_ord rq;
          match q with
          | Eq => match xs', ys' with
                  | [], [] => Ok (ROrd Eq, st3)
                  | [], _ => Ok (ROrd Lt, st3)
                  | _, [] => Ok (ROrd Gt, st3)
                  | _, _ => go d st3 (KCmpItems xs' ys')
                  end
          | _ => Ok (ROrd q, st3)
          end
      | _, _ => Panic "DepthSem:KCmpItems:empty"
      end
    | KDeep v =>
      match v with
      | VNum _ => Ok (RUnit, st)
      | VArr ts => go d st (KDeepItems (map (fun t => (t, might_need_deep st t)) ts))
      end
    | KDeepItems ts =>
      match ts with
      | [] => Ok (RUnit, st)
      | (t, false) :: r => go d st (KDeepItems r)
      | (t, true) :: r =>
          do st0 <- enter L d st;
          do (rx, st1) <- go (d + 1) st0 (KForce false t);
          do vx <- as_val rx;
          do (_, st2) <- go (d + 1) st1 (KDeep vx);
          go d st2 (KDeepItems r)
      end
    | KManifest v =>
      match v with
      | VNum z => Ok (RStr (dec_Z z), st)
      | VArr [] => Ok (RStr [91; 32; 93], st)                         (* "[ ]" *)
      | VArr ts =>
          do (rs, st1) <- go d st (KManItems ts);
          do s <- as_str rs;
          Ok (RStr (91 :: s ++ [93]), st1)
      end
    | KManItems ts =>
      match ts with
      | [] => Ok (RStr [], st)
      | t :: r =>
          do st0 <- enter L d st;
          do (rx, st1) <- go (d + 1) st0 (KForce false t);
          do vx <- as_val rx;
          do (rs, st2) <- go (d + 1) st1 (KManifest vx);
          do s <- as_str rs;
          match r with
          | [] => Ok (RStr s, st2)
          | _ => do (rr, st3) <- go d st2 (KManItems r);
                 do s' <- as_str rr;
                 Ok (RStr (s ++ 44 :: 32 :: s'), st3)                (* ", " *)
          end
      end
    end
  end.

End Run.

(* the three steps of the harness / the command line: evaluate the main
   expression, force it deeply (eval_value), manifest it (a second evaluator,
   depth 0 again) *)
Definition init_store (p : program) : store :=
  {| cells := map (fun e => cell_of e None) (locs p); peak := 0 |}.

Definition top (p : program) (L : N) (fuel : nat) : res (list N * N) :=
  do (r, st1) <- run (funs p) L fuel 0 (init_store p) (KEval None (main p));
  do v <- as_val r;
  do (_, st2) <- run (funs p) L fuel 0 st1 (KDeep v);
  do (rs, st3) <- run (funs p) L fuel 0 st2 (KManifest v);
  do s <- as_str rs;
  Ok (s, peak st3).

(* a cycle of n+1 local thunks  l0 = l1, l1 = l2, ..., ln = l0 *)
Fixpoint cycle_locs_from (i : N) (n : nat) : list expr :=
  match n with
  | O => [ELoc 0]
  | S m => ELoc (i + 1) :: cycle_locs_from (i + 1) m
  end.
Definition cycle_program (n : nat) : program :=
  {| funs := []; locs := cycle_locs_from 0 n; main := ELoc 0 |}.
